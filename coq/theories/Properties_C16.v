(* C16 — Multi-class and linear SVM solvers are configuration-invariant and consistent.
   Only statements + `exact`; proofs in C16Proofs.v / C16ProofsMc.v / C16ProofsGain.v (and, for the
   shared free functions, C08ProofsBox.v), state model proofs in C16GradProofs / C16SmoProofs / C16SmoSimplexProofs /
   C16InitProofs / C16TablesProofs / C16DeactProofs / C16UnshrinkProofs / C16ShrinkProofs / C16SimplexShrinkProofs /
   C16HistProofs, linear solvers in C16LinearProofs, selection / loop in C16SelectProofs / C16SelectSimplexProofs /
   C16SolveProofs / C16SolveSimplexProofs, bias book-keeping in C16BiasProofs; executable models in C16Model.v (+ C08Model.v), C16State.v
   and C16Linear.v.

   PROPERTY (properties.jsonl): for every multi-class formulation the trained decision function is,
   within the solver accuracy, the same with shrinking on/off, cached (any admissible size) or
   precomputed kernel matrix, and after reordering the examples; dual variables stay inside their box /
   simplex; two-class reductions give the binary machine; kernel solver (linear kernel) and linear
   solver reach the same primal objective.

   PROVED here (exact arithmetic, all inputs, all histories of update steps):
     * clause "dual variables stay inside their box or simplex constraints", for the MODEL OF THE
       UPDATE STEP of QpMcBoxDecomp / QpMcSimplexDecomp (updateSMO with its three branches and
       updateVarsum; every sequence of steps, whatever gradients and matrix entries are fed in):
       box: 0 <= alpha <= C.  simplex: alpha >= 0 and sum_p alpha(e,p) <= C + 1e-14 - the 1e-14 is
       the snapping slack of updateVarsum and it is attained in the model (C16_simplex_slack_witness),
       hence the name `_partial`: the property's exact simplex is NOT what the code maintains.
     * the analytic sub-solvers the steps are made of (all three repaired in /repo: edge solver
       degenerate test Q <= 0, box solver bc5f2886, triangle solver ab716aec):
       solveQuadratic2DTriangle returns a point of the triangle for every feasible start and ALL other
       inputs (gradient, matrix - also indefinite -, snapping included); for an infeasible start the
       literal code keeps the point when no candidate gain exceeds -DBL_MAX, so that case carries the
       hypothesis that some candidate does (C16_triangle_in_simplex; the solvers only call it with
       feasible starts, which is what the every-history theorem uses); snapping moves a point by
       <= 1e-12*maxSum; FULL gain statement C16_triangle_gain_nonneg: feasible start and non-negative
       diagonal => the point chosen before the final snapping never loses objective (no determinant
       hypothesis); in the edge branch it beats every boundary point (C16_triangle_edges_best);
       C16_old_triangle_gain_refuted is the regression witness about the solver as it was before
       ab716aec (old_solve_tri), C16_triangle_witness_repaired the same input through the new code;
       solveQuadraticEdge returns a maximiser over its interval for every Q >= 0; solveQuadratic2DBox
       stays in the box and never loses objective;
     * maximumGainQuadratic2D / ...OnLine return twice the optimal unconstrained gain under their
       floors (so the working-set selection ranks candidates by true gain);
     * the merge scan over a QpSparseArray row used by selectWorkingSet / maxGainBox / maxGainSimplex
       reads exactly operator()(row, col), provided the row was filled in increasing column order
       (and not otherwise: sa_scan_unsorted_differs).
     * STATE MODEL C16State.v (every member of the two classes: alpha, gradient, linear term, m_variables
       {example, p, index, diagonal}, m_examples {index, y, active, var[], avar[], varsum, diagonal}, active counts,
       bUnshrinked, m_M as sparse rows, the kernel matrix under the example permutation), operations AS CODED,
       under Mwf (rows of M in increasing column order, columns < |P|), M and K symmetric, non-negative diagonals:
       - gradientUpdate subtracts exactly mu * Q(v,f) from every active f (C16_gradient_update_exact); the
         constructor establishes all invariants (C16_constructor_establishes_invariants);
       - updateSMO of QpMcBoxDecomp, both branches, every working set inside the active set: gradient = linear -
         Q alpha on the active set, box, objective never decreases, every other variable and every table
         unchanged (C16_box_smo_step); of QpMcSimplexDecomp, all three branches: same with the simplex / varsum
         invariant; objective non-decreasing in the one-variable and two-examples branches and in the triangle
         branch when the snapping does not move the point (C16_simplex_smo_step_partial - the snapping can lose
         objective: C16_triangle_snap_loses);
       - deactivateVariable / deactivateExample (swaps in both tables, flipColumnsAndRows as the swap of the
         example's data index): tables stay permutations, cross indices consistent on both sides (variable v
         belongs to example e at class position p and in slot b of the active list), first `active` slots = the
         active variables, active variables belong to active examples; alpha, linear term, diagonal, gradient,
         label, varsum travel with the variable / example (same_vars); gradient invariant on the smaller active
         set; constraints; objective unchanged (C16_deactivate_variable, C16_deactivate_example);
       - unshrink(): gradient = linear - Q alpha for ALL variables afterwards, active entries not touched, nothing
         else changes (C16_unshrink_recomputes_gradient);
       - shrink() of both classes as coded, incl. the one-time unshrink: full invariant kept, no value moves, same
         objective (C16_box_shrink_preserves, C16_simplex_shrink_preserves); removal is sound at that moment:
         box (C16_box_shrink_sound), simplex example - the behaviour repaired by 8a4e0090: no positive variable,
         however tiny, is hidden behind varsum == 0 - (C16_simplex_shrink_example_sound), simplex variable
         (C16_simplex_shrink_variable_sound); the branch of the simplex shrink that would read avar[active] is
         dead (C16_simplex_shrink_dead_branch);
       - C16_every_history (FULL statement): both classes, with and without shrinking, every history of updateSMO /
         shrink / unshrink / addDeltaLinear keeps the full invariant; C16_every_history_box_objective: the box
         class never loses objective over a history; C16_labels_follow_examples: labels must be read by data
         index after shrinking (repair 295c135c).
     * LINEAR SOLVERS, model C16Linear.v (calcGradient / solveSub / updateWeightVectors of the eight QpMcLinear*
       classes and the coordinate step of QpBoxLinear as coded; the inner products <w_c, x_i> are inputs of a step):
       solveSub of WW / LLW / ATS / reinforced keeps 0 <= alpha <= C and returns mu = alpha' - alpha for every gradient
       input (C16_linear_solveSub_box); solveSub of CS / ADM / ATM keeps alpha >= 0, sum_c alpha(c) <= alpha(K) <= C
       (C16_linear_solveSub_simplex_partial: the equalities mu = alpha' - alpha and sum = alpha(K) need that no
       gradient reaches the 1e100 sentinel of the working-set search and are only compared / monitored);
       updateWeightVectors is linear (C16_linear_weight_update_is_linear), hence the book-keeping
       w_c = sum_i step(alpha_i)(c) x_i is kept by every example step (C16_linear_w_bookkeeping for the box-type
       machines, C16_linear_w_bookkeeping_generic for any step with mu = alpha' - alpha); QpBoxLinear: every epoch
       keeps 0 <= alpha <= bound and w = sum_i alpha_i y_i x_i (C16_boxlinear_epoch).
       NOT claimed: that the gradient kept inside solveSub is the true gradient (it is not for QpMcLinearATM when the
       label class takes part in a two-variable step - recorded in the evidence notes), nor the reported gain.
     * WORKING-SET SELECTION AND SOLVER LOOP, model C16Select.v (selectWorkingSet of both classes, getSimplexMVP,
       maxGainBox as repaired by c9be7fe4, maxGainSimplex, checkKKT, QpSolver::solve with fuel = maxIterations):
       box class: the returned violation = checkKKT = largest documented violation over the active variables, first
       variable attains it, second variable = i or the admissible candidate with the largest 2-D gain as coded (never
       below the 1-D gain), both active, nothing selected at violation 0 (C16_box_select); checkKKT < eps <-> eps-KKT
       (C16_box_kkt_is_eps_kkt); a positive violation admits a strictly gaining feasible step (C16_box_select_no_stall);
       simplex class: returned violation = checkKKT, working set active (C16_simplex_select_partial - that the pair
       maximises the gain among the candidates is only compared), checkKKT < eps => eps-KKT of the simplex dual
       (C16_simplex_kkt_is_eps_kkt), maxGainBox returns gain 0 for a stuck first variable (C16_max_gain_box_stuck),
       regression witness of the stall before c9be7fe4 on an invariant-satisfying state (C16_old_max_gain_box_stalls_refuted);
       the whole loop: C16_solver_loop_box (invariant, monotone objective, exit accuracy => all active and checkKKT < eps),
       C16_solver_loop_simplex (invariant, working sets active - shrink never removes everything after a failed accuracy
       test -, exit accuracy => checkKKT < eps; no objective clause because of the snapping).
       NOT proved for the simplex class: "a selected pair always admits a positive-gain step" (only the repaired return
       value and the witness).
     * BIAS SOLVERS, model C16Bias.v (performBiasUpdate as coded, label by data index): C16_bias_bookkeeping - over every
       history of inner solver runs and offset steps the linear term equals initial - <nu(label,p), offsets> together
       with the full solver invariant.  The Rprop loop is not modelled; no optimality claim (known finding C16-BIAS).
   NOT PROVED - the property's main clauses (configuration invariance, two-class reduction,
   kernel-vs-linear primal objective) would need convergence proofs of the decomposition solvers.
   They are MONITORED on every run by tools/c16.py on the real trainers (metamorphic runs with a
   tolerance derived from the measured duality gap) - see the evidence file.
   NOT MODELLED: BiasSolver's Rprop step-size logic (its performBiasUpdate / addDeltaLinear are), the kernel cache, the
   time limit of QpSolver.
   COMPARED on every run: the float instantiation of C16Model (free functions exactly; update steps
   one step at a time on the implementation's own previous state) and of C16State (constructor, updateSMO,
   shrink, unshrink, addDeltaLinear: the full positional state after each operation, bit for bit, from the
   implementation's own previous state) and of C16Linear (every example step of the eight linear multi-class solvers
   through their real virtual functions; QpBoxLinear::solve one epoch per call with the schedule re-derived from
   the seed) and of C16Select / C16Bias (every selectWorkingSet and checkKKT call of the step-driven runs: violation and
   working set; whole runs of the real QpSolver::solve against mc_solve_steps: final state, exit, iterations; the
   real performBiasUpdate) vs. the compiled C++; table / kernel-permutation / selection / book-keeping monitors. *)
From Coq Require Import QArith Qabs List.
From SharkV Require Import C08Model C08Defs C08ProofsBox C16Model C16Proofs C16ProofsMc C16ProofsGain.
From SharkV Require Import C16State C16StateDefs C16GradProofs C16SmoProofs C16SmoSimplexProofs C16InitProofs
  C16TablesProofs C16DeactProofs C16UnshrinkProofs C16ShrinkProofs C16SimplexShrinkProofs C16HistProofs C16WitnessProofs C16Linear C16LinearProofs
  C16Select C16SelectProofs C16SelectSimplexProofs C16SolveProofs C16SolveSimplexProofs C16Bias C16BiasProofs.
Import ListNotations.
Open Scope Q_scope.

(* ---- clause: dual variables stay inside their constraints (model of the update steps) ---- *)

(* full statement wanted: forall histories, alpha >= 0 /\ sum_p alpha(e,p) <= C.  The code only keeps
   the sum within the 1e-14 snapping slack; that is what is proved. *)
Theorem C16_mc_dual_in_constraints_simplex_partial :
  forall (P : nat) (C : Q), 0 < C ->
  forall (ops : list (mcop Q)) (s : mcst Q),
  SInv P C s -> Forall (wfop P) ops ->
  let s' := simplex_run qops qlowest qtiny P C s ops in
  SInv P C s' /\
  forall e, (forall p, (p < P)%nat -> 0 <= al s' e p /\ al s' e p <= C + qtiny) /\
            asum qops (al s' e) P <= C + qtiny.
Proof. exact mc_dual_in_constraints_simplex. Qed.
Print Assumptions C16_mc_dual_in_constraints_simplex_partial.

(* the solvers start from alpha = 0, varsum = 0 *)
Theorem C16_simplex_start_satisfies_invariant : forall (P : nat) (C : Q), 0 < C ->
  SInv P C (mkmc (fun _ _ => 0) (fun _ => 0)).
Proof. exact SInv_zero. Qed.
Print Assumptions C16_simplex_start_satisfies_invariant.

Theorem C16_simplex_slack_witness :
  let C := 1 in
  let s0 := mkmc (fun (e p : nat) => if (p =? 1)%nat then (1 # 200000000000000) else 0) (fun _ => 0) in
  SInv 2 C s0 /\
  let s1 := simplex_step qops qlowest qtiny 2 C s0 (Op1 0%nat 0%nat 1 0) in
  C < asum qops (al s1 0%nat) 2.
Proof. exact simplex_slack_witness. Qed.
Print Assumptions C16_simplex_slack_witness.

Theorem C16_mc_dual_in_constraints_box : forall (C : Q), 0 < C ->
  forall (ops : list (mcop Q)) (a : nat -> nat -> Q),
  (forall e p, 0 <= a e p /\ a e p <= C) ->
  forall e p, 0 <= box_run qops C a ops e p /\ box_run qops C a ops e p <= C.
Proof. exact box_run_inv. Qed.
Print Assumptions C16_mc_dual_in_constraints_box.

(* ---- the analytic sub-solvers ---- *)

Theorem C16_triangle_in_simplex : forall ai aj gi gj Qii Qij Qjj M : Q, 0 <= M ->
  ((0 <= ai /\ 0 <= aj /\ ai + aj <= M) \/
   exists c, In c (tri_edges qops ai aj gi gj Qii Qij Qjj M) /\ qlowest < G2 ai aj gi gj Qii Qij Qjj c) ->
  let r := solve_tri qops qlowest ai aj gi gj Qii Qij Qjj M in
  0 <= fst r /\ 0 <= snd r /\ fst r + snd r <= M.
Proof. exact solve_tri_in_triangle. Qed.
Print Assumptions C16_triangle_in_simplex.

Theorem C16_triangle_snap_moves_little : forall (M : Q) (c : Q * Q), 0 <= M ->
  0 <= fst c /\ 0 <= snd c /\ fst c + snd c <= M ->
  let c' := tri_snap qops M c in
  Qabs (fst c' - fst c) <= qthr * M /\ Qabs (snd c' - snd c) <= qthr * M.
Proof. exact tri_snap_close. Qed.
Print Assumptions C16_triangle_snap_moves_little.

Theorem C16_edge_solver_optimal : forall a g Q L U : Q, L <= U -> 0 <= Q ->
  forall b, L <= b -> b <= U ->
  gain1 g Q (b - a) <= gain1 g Q (solve_edge qops a g Q L U - a).
Proof. exact edge_optimal_any_start. Qed.
Print Assumptions C16_edge_solver_optimal.

(* full statement (repaired code): every point of the triangle, every gradient, every block with
   non-negative diagonal *)
Theorem C16_triangle_gain_nonneg : forall ai aj gi gj Qii Qij Qjj M : Q,
  0 <= ai -> 0 <= aj -> ai + aj <= M -> 0 <= Qii -> 0 <= Qjj ->
  0 <= G2 ai aj gi gj Qii Qij Qjj (tri_unsnapped ai aj gi gj Qii Qij Qjj M).
Proof. exact tri_gain_nonneg. Qed.
Print Assumptions C16_triangle_gain_nonneg.

Theorem C16_triangle_edges_best : forall ai aj gi gj Qii Qij Qjj M : Q,
  0 <= ai -> 0 <= aj -> ai + aj <= M -> 0 <= Qii -> 0 <= Qjj -> 0 <= Qii + Qjj - 2 * Qij ->
  ~ tri_is_free ai aj gi gj Qii Qij Qjj M ->
  forall y, onb M y ->
  G2 ai aj gi gj Qii Qij Qjj y <= G2 ai aj gi gj Qii Qij Qjj (tri_unsnapped ai aj gi gj Qii Qij Qjj M).
Proof. exact tri_edges_best. Qed.
Print Assumptions C16_triangle_edges_best.

(* regression: the solver before /repo ab716aec lost objective on a positive definite block *)
Theorem C16_old_triangle_gain_refuted : exists ai aj gi gj Qii Qij Qjj M : Q,
  0 < Qii /\ 0 < Qjj /\ 0 < Qii * Qjj - Qij * Qij /\ Qii * Qjj - Qij * Qij <= qthr /\
  0 < ai /\ 0 < aj /\ ai + aj < M /\
  (let r := old_solve_tri ai aj gi gj Qii Qij Qjj M in
   G2 ai aj gi gj Qii Qij Qjj r < 0).
Proof. exact old_tri_gain_refuted. Qed.
Print Assumptions C16_old_triangle_gain_refuted.

Theorem C16_triangle_witness_repaired :
  let r := solve_tri qops qlowest 1 1 (1 # 1000000) (1 # 1000000) (1 # 1000000) 0 (1 # 1000000) 10 in
  fst r == 2 /\ snd r == 2 /\
  0 < G2 1 1 (1 # 1000000) (1 # 1000000) (1 # 1000000) 0 (1 # 1000000) r.
Proof. exact tri_witness_repaired. Qed.
Print Assumptions C16_triangle_witness_repaired.

Theorem C16_box2d_in_box_and_gain : forall ai aj gi gj Qii Qij Qjj Li Ui Lj Uj : Q,
  Li <= ai -> ai <= Ui -> Lj <= aj -> aj <= Uj -> 0 <= Qii -> 0 <= Qjj ->
  let r := solve_2d qops ai aj gi gj Qii Qij Qjj Li Ui Lj Uj in
  (Li <= fst r /\ fst r <= Ui /\ Lj <= snd r /\ snd r <= Uj) /\
  0 <= gain2 qops gi gj Qii Qij Qjj (fst r - ai) (snd r - aj).
Proof. exact box2d_in_box_and_gain. Qed.
Print Assumptions C16_box2d_in_box_and_gain.

(* ---- working-set selection gains ---- *)

Theorem C16_max_gain_line_is_optimum : forall Qii Qjj Qij gi gj : Q,
  let g := gi - gj in
  let Qf := line_floor Qii Qjj Qij in
  (g <= 0 -> max_gain_line qops Qii Qjj Qij gi gj == 0) /\
  (0 < g ->
     max_gain_line qops Qii Qjj Qij gi gj == 2 * gain1 g Qf (g / Qf) /\
     forall t, 2 * gain1 g Qf t <= max_gain_line qops Qii Qjj Qij gi gj).
Proof. exact max_gain_line_opt. Qed.
Print Assumptions C16_max_gain_line_is_optimum.

Theorem C16_max_gain_2d_is_optimum : forall Qii Qjj Qij gi gj : Q,
  let det := Qii * Qjj - Qij * Qij in
  0 < Qii -> 0 <= Qjj -> qthr * (Qii * Qjj) < det ->
  let mui := (Qjj * gi - Qij * gj) / det in
  let muj := (Qii * gj - Qij * gi) / det in
  max_gain_2d qops qmicro Qii Qjj Qij gi gj == 2 * gain2 qops gi gj Qii Qij Qjj mui muj /\
  forall x y, 2 * gain2 qops gi gj Qii Qij Qjj x y <= max_gain_2d qops qmicro Qii Qjj Qij gi gj.
Proof. exact max_gain_2d_opt. Qed.
Print Assumptions C16_max_gain_2d_is_optimum.

Theorem C16_max_gain_2d_regularised : forall Qii Qjj Qij gi gj : Q,
  Qii * Qjj - Qij * Qij <= qthr * (Qii * Qjj) ->
  max_gain_2d qops qmicro Qii Qjj Qij gi gj ==
  (gj * gj * (Qii + qmicro) - 2 * gj * gi * Qij + gi * gi * (Qjj + qmicro)) /
  ((Qii + qmicro) * (Qjj + qmicro) - Qij * Qij).
Proof. exact max_gain_2d_regularised. Qed.
Print Assumptions C16_max_gain_2d_regularised.

(* ---- QpSparseArray ---- *)

Theorem C16_sparse_scan_reads_operator : forall (A : Type) (def : A) (w : nat) (es : list (nat * A)) (p : nat),
  sorted_from A p es ->
  forall k, (k < w)%nat -> nth k (sa_scan es def p w) def = sa_lookup es def (p + k).
Proof. exact sa_scan_lookup. Qed.
Print Assumptions C16_sparse_scan_reads_operator.

(* ---- the hypotheses are satisfiable ---- *)
Example C16_simplex_hyp_sat : 0 < 1 /\ SInv 3 1 (mkmc (fun _ _ => 0) (fun _ => 0)) /\
  Forall (wfop 3) [Op1 0%nat 2%nat 1 1; Op2 0%nat 0%nat 0%nat 1%nat 1 1 1 0 1; Op2 0%nat 0%nat 1%nat 1%nat 1 1 1 0 1].
Proof. exact simplex_hyp_sat. Qed.
Example C16_triangle_free_sat : tri_is_free (1#1) (1#1) 1 1 1 0 1 10 /\ 0 <= 1.
Proof. exact tri_free_sat. Qed.
Example C16_triangle_edge_sat : ~ tri_is_free 0 1 1 1 1 0 1 (3#2) /\ onb (3#2) (0, 1).
Proof. exact tri_edge_sat. Qed.
Example C16_triangle_infeasible_start_kept :
  solve_tri qops qlowest (-(1)) 0 (- inject_Z (2 ^ 1030)) 0 0 0 0 1 = (0, 0) /\
  tri_best qops qlowest (-(1)) 0 (- inject_Z (2 ^ 1030)) 0 0 0 0 1 = (-(1), 0).
Proof. exact tri_infeasible_start_kept. Qed.
Example C16_max_gain_2d_sat : 0 < 2 /\ 0 <= 2 /\ qthr * (2 * 2) < 2 * 2 - 1 * 1.
Proof. exact max_gain_2d_opt_sat. Qed.
Example C16_sparse_sorted_sat : sorted_from Q 0 [(0%nat, 5); (2%nat, 7)].
Proof. exact sparse_sorted_sat. Qed.

(* ======================================================================================================
   STATE MODEL (C16State.v): gradient, linear term, variable table, example table, shrinking.
   Hypotheses used throughout: Mwf (rows of m_M filled in increasing column order, columns < |P|), Msym / K0sym
   (M and the kernel matrix symmetric), Qdiag_nonneg (M(y,p,y,p) >= 0, k(x,x) >= 0).
   ====================================================================================================== *)

(* gradientUpdate as coded (sparse entries through ex.var, row default through the active part of ex.avar,
   active examples only) subtracts exactly mu * Q(v, f) from the gradient of every ACTIVE variable f *)
Theorem C16_gradient_update_exact :
  forall (P ncl n : nat) (Mrow : nat -> list (nat * Q)) (Mdef : nat -> Q) (K0 : nat -> nat -> Q), Mwf P Mrow ->
  forall (s : qmst) (g : nat -> Q) (mu : Q) (v f : nat), Inv_tab P n s -> (f < actvar s)%nat ->
  grad_updateQ ncl Mrow Mdef K0 s g (P * ey s (vex s v) + vp s v) mu (vex s v) f == g f - mu * Qe P ncl Mrow Mdef K0 s v f.
Proof. exact grad_update_Qe. Qed.
Print Assumptions C16_gradient_update_exact.

(* the constructor establishes every invariant *)
Theorem C16_constructor_establishes_invariants :
  forall (P ncl n : nat) (C : Q) (Mrow : nat -> list (nat * Q)) (Mdef : nat -> Q) (K0 : nat -> nat -> Q), (0 < P)%nat -> 0 < C ->
  forall (y0 : nat -> nat) (lin0 : nat -> nat -> Q),
  let s0 := init_stateQ P ncl n Mrow Mdef K0 y0 lin0 in
  Inv_tab P n s0 /\ Inv_data P ncl n Mrow Mdef K0 y0 lin0 s0 /\ Inv_grad_all P ncl n Mrow Mdef K0 s0 /\
  Inv_boxc P n C s0 /\ Inv_simplex P n C s0 /\ actvar s0 = nv P n /\ actex s0 = n.
Proof.
  intros P ncl n C Mrow Mdef K0 HP HC y0 lin0 s0.
  split; [apply init_tab; exact HP|]. split; [apply init_data|]. split; [apply init_grad|].
  split; [apply init_boxc; apply Qlt_le_weak; exact HC|]. split; [apply init_simplex; exact HC|]. split; reflexivity.
Qed.
Print Assumptions C16_constructor_establishes_invariants.

(* QpMcBoxDecomp::updateSMO, every working set inside the active set, both branches: gradient = linear - Q alpha on
   the active set, box, objective does not decrease, nothing else changes *)
Theorem C16_box_smo_step :
  forall (P ncl n : nat) (C : Q) (Mrow : nat -> list (nat * Q)) (Mdef : nat -> Q) (K0 : nat -> nat -> Q),
  Mwf P Mrow -> Msym P ncl Mrow Mdef -> K0sym K0 -> Qdiag_nonneg P ncl Mrow Mdef K0 -> 0 <= C ->
  forall (y0 : nat -> nat) (lin0 : nat -> nat -> Q) (s : qmst) (v w : nat),
  Inv_tab P n s -> Inv_data P ncl n Mrow Mdef K0 y0 lin0 s -> Inv_grad P ncl n Mrow Mdef K0 s -> Inv_boxc P n C s ->
  (v < actvar s)%nat -> (w < actvar s)%nat ->
  let s' := box_smoQ P ncl C Mrow Mdef K0 s v w in
  Inv_tab P n s' /\ Inv_data P ncl n Mrow Mdef K0 y0 lin0 s' /\ Inv_grad P ncl n Mrow Mdef K0 s' /\ Inv_boxc P n C s' /\
  mobj P ncl n Mrow Mdef K0 s <= mobj P ncl n Mrow Mdef K0 s' /\
  (forall a, a <> v -> a <> w -> malpha s' a = malpha s a) /\
  mlin s' = mlin s /\ vex s' = vex s /\ vp s' = vp s /\ vidx s' = vidx s /\ vdiag s' = vdiag s /\
  eorig s' = eorig s /\ ey s' = ey s /\ eact s' = eact s /\ evar s' = evar s /\ eavar s' = eavar s /\
  evsum s' = evsum s /\ ediag s' = ediag s /\ actex s' = actex s /\ actvar s' = actvar s /\ munshr s' = munshr s.
Proof. exact box_smo_preserves. Qed.
Print Assumptions C16_box_smo_step.

(* QpMcSimplexDecomp::updateSMO, all three branches.  Full statement wanted: ... /\ mobj s <= mobj s' in every branch.
   Proved: in the one-variable branch, the two-examples branch, and the triangle branch whenever the final snapping
   of solveQuadratic2DTriangle does not move the point; the snapping CAN lose objective (C16_triangle_snap_loses). *)
Theorem C16_simplex_smo_step_partial :
  forall (P ncl n : nat) (C : Q) (Mrow : nat -> list (nat * Q)) (Mdef : nat -> Q) (K0 : nat -> nat -> Q),
  Mwf P Mrow -> Msym P ncl Mrow Mdef -> K0sym K0 -> Qdiag_nonneg P ncl Mrow Mdef K0 -> 0 < C ->
  forall (y0 : nat -> nat) (lin0 : nat -> nat -> Q) (s : qmst) (v w : nat),
  Inv_tab P n s -> Inv_data P ncl n Mrow Mdef K0 y0 lin0 s -> Inv_grad P ncl n Mrow Mdef K0 s -> Inv_simplex P n C s ->
  (v < actvar s)%nat -> (w < actvar s)%nat ->
  let s' := simplex_smoQ P ncl C Mrow Mdef K0 s v w in
  Inv_tab P n s' /\ Inv_data P ncl n Mrow Mdef K0 y0 lin0 s' /\ Inv_grad P ncl n Mrow Mdef K0 s' /\ Inv_simplex P n C s' /\
  (v = w \/ vex s v <> vex s w \/ smo_tri_nosnap P ncl C Mrow Mdef K0 s v w ->
     mobj P ncl n Mrow Mdef K0 s <= mobj P ncl n Mrow Mdef K0 s') /\
  (forall a, a <> v -> a <> w -> malpha s' a = malpha s a) /\
  (forall e, e <> vex s v -> e <> vex s w -> evsum s' e = evsum s e) /\
  mlin s' = mlin s /\ vex s' = vex s /\ vp s' = vp s /\ vidx s' = vidx s /\ vdiag s' = vdiag s /\
  eorig s' = eorig s /\ ey s' = ey s /\ eact s' = eact s /\ evar s' = evar s /\ eavar s' = eavar s /\
  ediag s' = ediag s /\ actex s' = actex s /\ actvar s' = actvar s /\ munshr s' = munshr s.
Proof. exact simplex_smo_preserves. Qed.
Print Assumptions C16_simplex_smo_step_partial.

Theorem C16_triangle_snap_loses :
  let ai := 1 # 2000000000000 in let gi := 3 # 10000000000000 in
  0 <= ai /\ ai + 0 <= 1 /\
  0 < G2 ai 0 gi (-(1)) 1 0 1 (tri_unsnapped ai 0 gi (-(1)) 1 0 1 1) /\
  solve_tri qops qlowest ai 0 gi (-(1)) 1 0 1 1 = (0, 0) /\
  G2 ai 0 gi (-(1)) 1 0 1 (solve_tri qops qlowest ai 0 gi (-(1)) 1 0 1 1) < 0.
Proof. exact tri_snap_loses. Qed.
Print Assumptions C16_triangle_snap_loses.

(* deactivateVariable / deactivateExample: tables stay permutations with consistent cross indices, data travel with
   the variable / example (same_vars), gradient invariant on the smaller active set, constraints, objective *)
Theorem C16_deactivate_variable :
  forall (P ncl n : nat) (C : Q) (Mrow : nat -> list (nat * Q)) (Mdef : nat -> Q) (K0 : nat -> nat -> Q)
         (y0 : nat -> nat) (lin0 : nat -> nat -> Q) (b : bool) (s : qmst) (v : nat),
  Inv_all P ncl n C Mrow Mdef K0 y0 lin0 b s -> (v < actvar s)%nat ->
  Inv_all P ncl n C Mrow Mdef K0 y0 lin0 b (deact_var s v) /\
  same_vars P n s (deact_var s v) /\ mobj P ncl n Mrow Mdef K0 (deact_var s v) == mobj P ncl n Mrow Mdef K0 s /\
  actvar (deact_var s v) = (actvar s - 1)%nat /\
  (forall e p, (e < n)%nat -> (p < P)%nat ->
     ((evar (deact_var s v) e p < actvar (deact_var s v))%nat <-> (evar s e p < actvar s)%nat /\ evar s e p <> v)).
Proof.
  intros P ncl n C Mrow Mdef K0 y0 lin0 b s v IA Hv.
  destruct (deact_var_all P ncl n C Mrow Mdef K0 y0 lin0 b s v IA Hv) as [A [B1 B2]].
  split; [exact A|]. split; [exact B1|]. split; [exact B2|]. split; [apply dv_counts|].
  destruct IA as (I & _). intros e p He Hp. apply (deact_var_active P n s v I Hv e p He Hp).
Qed.
Print Assumptions C16_deactivate_variable.

Theorem C16_deactivate_example :
  forall (P ncl n : nat) (C : Q) (Mrow : nat -> list (nat * Q)) (Mdef : nat -> Q) (K0 : nat -> nat -> Q)
         (y0 : nat -> nat) (lin0 : nat -> nat -> Q) (b : bool) (s : qmst) (e : nat),
  Inv_all P ncl n C Mrow Mdef K0 y0 lin0 b s -> (e < actex s)%nat -> eact s e = 0%nat ->
  Inv_all P ncl n C Mrow Mdef K0 y0 lin0 b (deact_ex P s e) /\
  same_vars P n s (deact_ex P s e) /\ mobj P ncl n Mrow Mdef K0 (deact_ex P s e) == mobj P ncl n Mrow Mdef K0 s /\
  actex (deact_ex P s e) = (actex s - 1)%nat /\ actvar (deact_ex P s e) = actvar s.
Proof.
  intros P ncl n C Mrow Mdef K0 y0 lin0 b s e IA He Hz.
  destruct (deact_ex_all P ncl n C Mrow Mdef K0 y0 lin0 b s e IA He Hz) as [A [B1 B2]].
  split; [exact A|]. split; [exact B1|]. split; [exact B2|].
  destruct (deact_ex_plain P s e) as (_ & _ & _ & _ & _ & X & Y & _). split; assumption.
Qed.
Print Assumptions C16_deactivate_example.

(* unshrink(): afterwards gradient = linear - Q alpha for ALL variables, nothing else changes, everything is active *)
Theorem C16_unshrink_recomputes_gradient :
  forall (P ncl n : nat) (C : Q) (Mrow : nat -> list (nat * Q)) (Mdef : nat -> Q) (K0 : nat -> nat -> Q), Mwf P Mrow ->
  forall (y0 : nat -> nat) (lin0 : nat -> nat -> Q) (b : bool) (s : qmst),
  Inv_all P ncl n C Mrow Mdef K0 y0 lin0 b s ->
  let s' := unshrinkQ P ncl n Mrow Mdef K0 s in
  Inv_all P ncl n C Mrow Mdef K0 y0 lin0 b s' /\ Inv_grad_all P ncl n Mrow Mdef K0 s' /\
  same_vals P n s s' /\ mobj P ncl n Mrow Mdef K0 s' == mobj P ncl n Mrow Mdef K0 s.
Proof. exact unshrink_all. Qed.
Print Assumptions C16_unshrink_recomputes_gradient.

(* QpMcBoxDecomp::shrink: a variable is removed only when no feasible change of it improves the objective (first order) *)
Theorem C16_box_shrink_sound : forall (C : Q) (s : qmst) (a : nat), box_can_shrink qops C s a = true ->
  ((malpha s a == 0 /\ mgrad s a <= 0) \/ (malpha s a == C /\ 0 <= mgrad s a)) /\
  (forall d, 0 <= malpha s a + d -> malpha s a + d <= C -> d * mgrad s a <= 0).
Proof. exact box_can_shrink_sound. Qed.
Print Assumptions C16_box_shrink_sound.

(* QpMcBoxDecomp::shrink as coded (one-time unshrink, variable loop, example loop) *)
Theorem C16_box_shrink_preserves :
  forall (P ncl n : nat) (C : Q) (Mrow : nat -> list (nat * Q)) (Mdef : nat -> Q) (K0 : nat -> nat -> Q), Mwf P Mrow ->
  forall (y0 : nat -> nat) (lin0 : nat -> nat -> Q) (shrinking : bool) (eps : Q) (s : qmst),
  Inv_all P ncl n C Mrow Mdef K0 y0 lin0 false s ->
  let s' := box_shrinkQ P ncl n C Mrow Mdef K0 shrinking eps s in
  Inv_all P ncl n C Mrow Mdef K0 y0 lin0 false s' /\ same_vals P n s s' /\
  mobj P ncl n Mrow Mdef K0 s' == mobj P ncl n Mrow Mdef K0 s.
Proof. exact box_shrink_all. Qed.
Print Assumptions C16_box_shrink_preserves.

Example C16_state_hyps_sat :
  Mwf 1 wMrow /\ Msym 1 2 wMrow wMdef /\ K0sym wK0 /\ Qdiag_nonneg 1 2 wMrow wMdef wK0 /\ 0 < 1 /\
  Inv_tab 1 2 ws0 /\ Inv_data 1 2 2 wMrow wMdef wK0 wy0 wlin0 ws0 /\ Inv_grad 1 2 2 wMrow wMdef wK0 ws0 /\
  Inv_boxc 1 2 1 ws0 /\ Inv_simplex 1 2 1 ws0 /\ (0 < actvar ws0)%nat /\ (1 < actvar ws0)%nat.
Proof. exact w_hyps. Qed.

(* QpMcSimplexDecomp::shrink, case 2 (as repaired by /repo 8a4e0090: down > 0 added): an example is removed only if
   every active variable of it is zero - none is positive, however tiny, whatever varsum says - and all gradients are
   negative; no feasible step inside the example improves the objective to first order *)
Theorem C16_simplex_shrink_example_sound : forall (s : qmst) (e : nat),
  (forall b, (b < eact s e)%nat -> 0 <= malpha s (eavar s e b)) ->
  let up := mvp_up qops s e (eact s e) in let down := mvp_down qops s e (eact s e) in
  o_eqb qops (evsum s e) 0 && o_ltb qops up 0 && o_ltb qops 0 down = true ->
  (forall b, (b < eact s e)%nat -> malpha s (eavar s e b) == 0 /\ mgrad s (eavar s e b) < 0) /\
  (forall d : nat -> Q, (forall b, (b < eact s e)%nat -> 0 <= malpha s (eavar s e b) + d b) ->
     forall b, (b < eact s e)%nat -> d b * mgrad s (eavar s e b) <= 0).
Proof. exact simplex_case2_sound. Qed.
Print Assumptions C16_simplex_shrink_example_sound.

(* case 1: a variable of a simplex at its bound is removed only if it is zero and its gradient is below that of every
   positive variable of the example (down = getSimplexMVP's minimum, C16_mvp_down_is_lower_bound) *)
Theorem C16_simplex_shrink_variable_sound : forall (s : qmst) (e : nat) (down : Q) (v : nat),
  (forall b, (b < eact s e)%nat -> 0 < malpha s (eavar s e b) -> down <= mgrad s (eavar s e b)) ->
  o_eqb qops (malpha s v) 0 && o_ltb qops (o_sub qops (mgrad s v) down) 0 = true ->
  malpha s v == 0 /\
  forall b, (b < eact s e)%nat -> 0 < malpha s (eavar s e b) -> mgrad s v - mgrad s (eavar s e b) < 0.
Proof. exact simplex_case1_sound. Qed.
Print Assumptions C16_simplex_shrink_variable_sound.

Theorem C16_mvp_down_is_lower_bound : forall (s : qmst) (e m b : nat), (b < m)%nat -> 0 < malpha s (eavar s e b) ->
  mvp_down qops s e m <= mgrad s (eavar s e b).
Proof. exact mvp_down_le. Qed.
Print Assumptions C16_mvp_down_is_lower_bound.

(* the branch of case 1 that would call deactivateVariable(ex.avar[ex.active]) (one past the active list) is dead:
   up is the largest gradient among the active variables of the example *)
Theorem C16_simplex_shrink_dead_branch : forall (C : Q) (s : qmst) (e p : nat) (up : Q),
  (forall b, (b < S p)%nat -> mgrad s (eavar s e b) <= up) ->
  o_eqb qops (malpha s (eavar s e p)) C && o_ltb qops (o_sub qops up (mgrad s (eavar s e p))) (o_zero qops) = false.
Proof. exact sshrink_case1_dead. Qed.
Print Assumptions C16_simplex_shrink_dead_branch.

(* QpMcSimplexDecomp::shrink as coded (one-time unshrink via checkKKT, loop over the examples, both cases, the
   composite deactivateVariable with deactivateExample) *)
Theorem C16_simplex_shrink_preserves :
  forall (P ncl n : nat) (C : Q) (Mrow : nat -> list (nat * Q)) (Mdef : nat -> Q) (K0 : nat -> nat -> Q), Mwf P Mrow ->
  forall (y0 : nat -> nat) (lin0 : nat -> nat -> Q) (shrinking : bool) (eps : Q) (s : qmst),
  Inv_all P ncl n C Mrow Mdef K0 y0 lin0 true s ->
  let s' := simplex_shrinkQ P ncl n C Mrow Mdef K0 shrinking eps s in
  Inv_all P ncl n C Mrow Mdef K0 y0 lin0 true s' /\ same_vals P n s s' /\
  mobj P ncl n Mrow Mdef K0 s' == mobj P ncl n Mrow Mdef K0 s.
Proof. exact simplex_shrink_all. Qed.
Print Assumptions C16_simplex_shrink_preserves.

(* FULL statement, invariants: for both solver classes, with and without shrinking, EVERY history of operations
   (updateSMO on working sets inside the active set, shrink with any epsilon, unshrink, addDeltaLinear, in any order)
   keeps the full invariant: tables are permutations with consistent cross indices, data attached to the right
   variable / example, gradient = linear - Q alpha on the active set, box resp. simplex constraints *)
Theorem C16_every_history :
  forall (P ncl n : nat) (C : Q) (Mrow : nat -> list (nat * Q)) (Mdef : nat -> Q) (K0 : nat -> nat -> Q),
  Mwf P Mrow -> Msym P ncl Mrow Mdef -> K0sym K0 -> Qdiag_nonneg P ncl Mrow Mdef K0 -> 0 < C ->
  forall (y0 : nat -> nat) (simplex shrinking : bool) (ops : list (mop Q)) (s : qmst),
  Inv_hist P ncl n C Mrow Mdef K0 y0 simplex s -> wf_mrun P ncl n C Mrow Mdef K0 simplex shrinking s ops ->
  Inv_hist P ncl n C Mrow Mdef K0 y0 simplex (mrunQ P ncl n C Mrow Mdef K0 simplex shrinking s ops).
Proof. exact mrun_hist. Qed.
Print Assumptions C16_every_history.

(* QpMcBoxDecomp: over every history without addDeltaLinear the dual objective never decreases *)
Theorem C16_every_history_box_objective :
  forall (P ncl n : nat) (C : Q) (Mrow : nat -> list (nat * Q)) (Mdef : nat -> Q) (K0 : nat -> nat -> Q),
  Mwf P Mrow -> Msym P ncl Mrow Mdef -> K0sym K0 -> Qdiag_nonneg P ncl Mrow Mdef K0 -> 0 < C ->
  forall (y0 : nat -> nat) (shrinking : bool) (ops : list (mop Q)) (s : qmst),
  Inv_hist P ncl n C Mrow Mdef K0 y0 false s -> wf_mrun P ncl n C Mrow Mdef K0 false shrinking s ops ->
  Forall no_addlin ops ->
  mobj P ncl n Mrow Mdef K0 s <= mobj P ncl n Mrow Mdef K0 (mrunQ P ncl n C Mrow Mdef K0 false shrinking s ops).
Proof. exact mrun_obj_box. Qed.
Print Assumptions C16_every_history_box_objective.

(* /repo 295c135c: after any history the label of the example sitting at position e is the label of the data-set
   element eorig e - label(i) must be taken by DATA index (m_labels), not by position *)
Theorem C16_labels_follow_examples :
  forall (P ncl n : nat) (C : Q) (Mrow : nat -> list (nat * Q)) (Mdef : nat -> Q) (K0 : nat -> nat -> Q),
  Mwf P Mrow -> Msym P ncl Mrow Mdef -> K0sym K0 -> Qdiag_nonneg P ncl Mrow Mdef K0 -> 0 < C ->
  forall (y0 : nat -> nat) (simplex shrinking : bool) (ops : list (mop Q)) (s : qmst),
  Inv_hist P ncl n C Mrow Mdef K0 y0 simplex s -> wf_mrun P ncl n C Mrow Mdef K0 simplex shrinking s ops ->
  let s' := mrunQ P ncl n C Mrow Mdef K0 simplex shrinking s ops in
  forall e, (e < n)%nat -> ey s' e = y0 (eorig s' e) /\ (eorig s' e < n)%nat.
Proof.
  intros P ncl n C Mrow Mdef K0 H1 H2 H3 H4 H5 y0 simplex shrinking ops s IH W s' e He.
  destruct (mrun_hist P ncl n C Mrow Mdef K0 H1 H2 H3 H4 H5 y0 simplex shrinking ops s IH W) as [lin0 (I & [D1 _] & _)].
  split; [apply D1; exact He | apply (it_orig _ _ _ I); exact He].
Qed.
Print Assumptions C16_labels_follow_examples.

Example C16_history_hyps_sat :
  Inv_hist 1 2 2 1 wMrow wMdef wK0 wy0 false ws0 /\ Inv_hist 1 2 2 1 wMrow wMdef wK0 wy0 true ws0 /\
  wf_mrun 1 2 2 1 wMrow wMdef wK0 false true ws0 [MSmo 0%nat 1%nat; MShrink (1 # 10); MUnshrink] /\
  Forall no_addlin [MSmo 0%nat 1%nat; MShrink (1 # 10); @MUnshrink Q].
Proof. exact w_hist_hyps. Qed.

(* ======================================================================================================
   LINEAR SOLVERS (C16Linear.v): one example step of QpMcLinear* (calcGradient, solveSub, updateWeightVectors as
   coded), one epoch of QpBoxLinear.  The inner products <w_c, x_i> are inputs of the step.
   ====================================================================================================== *)

(* solveSub of the box-type machines (WW, LLW, ATS, reinforced): box kept, mu = alpha' - alpha, for EVERY gradient,
   curvature and accuracy and any number of inner iterations *)
Theorem C16_linear_solveSub_box : forall (K : nat) (C : Q), 0 <= C ->
  forall (k : lkind) (fuel : nat) (eps q : Q) (y : nat) (s : lsub Q), BoxOK C (l_al s) ->
  BoxOK C (l_al (sub_box qops 1 K (Kq K) C k fuel eps q y s)) /\
  MuOK (l_al s) (l_mu s) (sub_box qops 1 K (Kq K) C k fuel eps q y s).
Proof. exact sub_box_spec. Qed.
Print Assumptions C16_linear_solveSub_box.

(* solveSub of the simplex-type machines (CS, ADM, ATM): alpha(c) >= 0 and sum_c alpha(c) <= alpha(K) <= C, for every
   gradient input.  Full statement wanted: ... /\ mu = alpha' - alpha /\ sum_c alpha(c) = alpha(K); this needs that no
   gradient value reaches the sentinel 1e100 of the working-set search (then idx_up = idx_down = 0 can be selected):
   compared / monitored on every step, not proved. *)
Theorem C16_linear_solveSub_simplex_partial : forall (K : nat) (C : Q),
  forall (k : lkind) (fuel : nat) (eps q : Q) (y : nat) (s : lsub Q), (0 < K)%nat -> 0 <= eps -> 0 <= q -> (1 <= K)%nat ->
  SimOK K C (l_al s) -> SimOK K C (l_al (sub_simplex qops 1 K (Kq K) C k fuel eps q y s)).
Proof. exact sub_simplex_constraints. Qed.
Print Assumptions C16_linear_solveSub_simplex_partial.

(* updateWeightVectors is linear in the step *)
Theorem C16_linear_weight_update_is_linear : forall (K : nat) (k : lkind) (m1 m2 : nat -> Q) (y c : nat),
  wstep qops K (Kq K) k (fun i => m1 i + m2 i) y c == wstep qops K (Kq K) k m1 y c + wstep qops K (Kq K) k m2 y c.
Proof. exact wstep_add. Qed.
Print Assumptions C16_linear_weight_update_is_linear.

(* the w book-keeping: if  w_c = sum_i step(alpha_i)(c) x_i  holds before an example step of a box-type machine, it
   holds after it (alpha_i replaced by the new row), and the box is kept - hence over every epoch history *)
Theorem C16_linear_w_bookkeeping : forall (K : nat) (C : Q), 0 <= C ->
  forall (k : lkind) (n dim : nat) (ys : nat -> nat) (xs : nat -> nat -> Q) (al : nat -> nat -> Q) (w : nat -> nat -> Q)
         (i : nat) (eps q : Q) (wx : nat -> Q),
  box_kind k -> (i < n)%nat -> BoxOK C (al i) -> Wbook K k n dim ys xs al w ->
  let r := lin_step qops 1 K (Kq K) C k eps q (ys i) wx (al i) (xs i) w in
  Wbook K k n dim ys xs (fun j => if (j =? i)%nat then r_al r else al j) (r_w r) /\ BoxOK C (r_al r).
Proof. exact Wbook_lin_step. Qed.
Print Assumptions C16_linear_w_bookkeeping.

(* any step of any machine that moves alpha_i by mu and the weights by step(mu) x_i keeps the book-keeping *)
Theorem C16_linear_w_bookkeeping_generic : forall (K : nat) (kind : lkind) (n dim : nat) (ys : nat -> nat)
  (xs : nat -> nat -> Q) (al : nat -> nat -> Q) (w : nat -> nat -> Q) (i : nat) (mu al_i' : nat -> Q),
  (i < n)%nat -> Wbook K kind n dim ys xs al w -> (forall c, al_i' c == al i c + mu c) ->
  Wbook K kind n dim ys xs (fun j => if (j =? i)%nat then al_i' else al j)
        (add_scaled qops K w (wstep qops K (Kq K) kind mu (ys i)) (xs i)).
Proof. exact Wbook_step. Qed.
Print Assumptions C16_linear_w_bookkeeping_generic.

(* QpBoxLinear: every epoch over any schedule keeps 0 <= alpha <= bound and w = sum_i alpha_i y_i x_i *)
Theorem C16_boxlinear_epoch : forall (n dim : nat) (bound reg offset : Q), 0 <= bound ->
  forall (ys : nat -> Q) (xs : nat -> nat -> Q) (schedule : list nat) (st : (nat -> Q) * (nat -> Q)),
  Forall (fun i => (i < n)%nat) schedule -> BLinv n dim bound ys xs st ->
  BLinv n dim bound ys xs (boxlin_epoch qops 1 dim bound reg offset ys xs st schedule).
Proof. exact boxlin_epoch_inv. Qed.
Print Assumptions C16_boxlinear_epoch.

Example C16_linear_hyps_sat : BoxOK 1 (fun _ => 0) /\ SimOK 3 1 (fun _ => 0) /\ box_kind LWW /\
  Wbook 3 LWW 1 2 (fun _ => 0%nat) (fun _ _ => 1) (fun _ _ => 0) (fun _ _ => 0) /\
  BLinv 1 2 1 (fun _ => 1) (fun _ _ => 1) (fun _ => 0, fun _ => 0).
Proof. exact w_linear_hyps. Qed.

(* ======================================================================================================
   WORKING-SET SELECTION /\ THE SOLVER LOOP (C16Select.v), as coded.
   ====================================================================================================== *)

(* QpMcBoxDecomp::selectWorkingSet (as repaired by 54c331a5): the returned value is checkKKT = the largest documented
   violation over the ACTIVE variables; nothing is selected at violation 0; otherwise the first variable is active and
   attains the violation, the second is active and is i itself or the admissible candidate (as coded: active, not i, able
   to move) with the largest unconstrained 2-D gain (C16_max_gain_2d_is_optimum), never below the 1-D gain of i *)
Theorem C16_box_select : forall (C micro : Q) (P ncl : nat) (Mrow : nat -> list (nat * Q)) (Mdef : nat -> Q)
  (K0 : nat -> nat -> Q) (s : qmst) (i0 j0 : nat),
  let r := box_select qops micro P ncl C Mrow Mdef K0 s i0 j0 in
  let v := fst r in let i := fst (snd r) in let j := snd (snd r) in
  v == box_kkt qops C s (actvar s) /\ 0 <= v /\ (forall a, (a < actvar s)%nat -> box_viol_le C s a v) /\
  (v = 0 -> i = i0 /\ j = j0) /\
  (0 < v ->
     (i < actvar s)%nat /\ box_viol_at C s i v /\ (j < actvar s)%nat /\
     let g1 := mgrad s i * mgrad s i / vdiag s i in
     let gain := cand_gain micro P ncl Mrow Mdef K0 s (vex s i) (vp s i) (ey s (vex s i)) (vdiag s i) (mgrad s i) in
     let ok := cand_ok C s i in
     exists bg, g1 <= bg /\
       ((j = i /\ bg = g1) \/ exists a pf, ok a pf /\ j = evar s a pf /\ bg = gain a pf) /\
       (forall a pf, (a < actex s)%nat -> (pf < P)%nat -> ok a pf -> gain a pf <= bg)).
Proof. exact box_select_spec. Qed.
Print Assumptions C16_box_select.

(* checkKKT < eps is the eps-KKT condition of the box-constrained multi-class dual (cf. C07 for the binary machine) *)
Theorem C16_box_kkt_is_eps_kkt : forall (C : Q) (s : qmst) (m : nat) (eps : Q), 0 < eps ->
  (box_kkt qops C s m < eps <->
   forall a, (a < m)%nat -> (malpha s a < C -> mgrad s a < eps) /\ (0 < malpha s a -> - eps < mgrad s a)).
Proof. exact box_kkt_eps. Qed.
Print Assumptions C16_box_kkt_is_eps_kkt.

(* no stalling (box): a positive violation at i means the step on i alone gains strictly, and that point is feasible
   for every pair (i, j) *)
Theorem C16_box_select_no_stall : forall (C : Q) (s : qmst) (i : nat) (v : Q),
  0 <= C -> 0 <= malpha s i -> malpha s i <= C -> 0 <= vdiag s i -> 0 < v -> box_viol_at C s i v ->
  let ai' := solve_edge qops (malpha s i) (mgrad s i) (vdiag s i) 0 C in
  0 < gain1 (mgrad s i) (vdiag s i) (ai' - malpha s i) /\
  forall aj gj Qij Qjj, G2 (malpha s i) aj (mgrad s i) gj (vdiag s i) Qij Qjj (ai', aj) == gain1 (mgrad s i) (vdiag s i) (ai' - malpha s i).
Proof. exact box_select_no_stall. Qed.
Print Assumptions C16_box_select_no_stall.

(* QpMcSimplexDecomp::selectWorkingSet: the returned value is checkKKT over the active examples, the working set is
   active.  (That the chosen pair maximises the gain among the candidates of maxGainBox / maxGainSimplex is only
   compared, not proved.) *)
Theorem C16_simplex_select_partial : forall (C micro : Q) (P ncl n : nat) (Mrow : nat -> list (nat * Q)) (Mdef : nat -> Q)
  (K0 : nat -> nat -> Q) (s : qmst), Inv_tab P n s -> (forall e, (e < actex s)%nat -> evsum s e <= C) ->
  let r := simplex_select qops micro P ncl C Mrow Mdef K0 s in
  fst r == skkt qops C s (actex s) /\ 0 <= fst r /\
  ((0 < actvar s)%nat -> (fst (snd r) < actvar s)%nat /\ (snd (snd r) < actvar s)%nat).
Proof. exact simplex_select_spec. Qed.
Print Assumptions C16_simplex_select_partial.

(* checkKKT < eps of the simplex class: eps-KKT of the simplex-constrained dual on the active variables *)
Theorem C16_simplex_kkt_is_eps_kkt : forall (C : Q) (s : qmst) (m : nat) (eps : Q), skkt qops C s m < eps ->
  forall e, (e < m)%nat -> forall b, (b < eact s e)%nat ->
  let v := eavar s e b in
  (0 < malpha s v -> - eps < mgrad s v) /\
  (evsum s e < C -> mgrad s v < eps) /\
  (evsum s e == C -> forall b', (b' < eact s e)%nat -> 0 < malpha s (eavar s e b') -> mgrad s v - mgrad s (eavar s e b') < eps).
Proof. exact skkt_eps. Qed.
Print Assumptions C16_simplex_kkt_is_eps_kkt.

(* maxGainBox as repaired by c9be7fe4: gain 0 and the pair (i,i) for a first variable that cannot move *)
Theorem C16_max_gain_box_stuck : forall (C micro : Q) (P ncl : nat) (Mrow : nat -> list (nat * Q)) (Mdef : nat -> Q)
  (K0 : nat -> nat -> Q) (s : qmst) (i : nat),
  let r := max_gain_box qops micro P ncl C Mrow Mdef K0 s i in
  fst (fst r) = i /\ (snd (fst r) = i \/ (snd (fst r) < actvar s)%nat) /\
  (sbox_stuck qops C s i = true -> r = ((i, i), 0)).
Proof. exact max_gain_box_idx. Qed.
Print Assumptions C16_max_gain_box_stuck.

(* regression witness: before c9be7fe4 the selection could pick a pair that cannot move although the violation is 1 *)
Theorem C16_old_max_gain_box_stalls_refuted :
  let sel_old := old_simplex_select qops qmicro 2 1 1 stM (fun _ => 0) (fun _ _ => 1) stall_state in
  let sel_new := simplex_select qops qmicro 2 1 1 stM (fun _ => 0) (fun _ _ => 1) stall_state in
  let smo := simplex_smo qops qlowest qtiny 2 1 1 stM (fun _ => 0) (fun _ _ => 1) stall_state in
  Inv_grad 2 1 1 stM (fun _ => 0) (fun _ _ => 1) stall_state /\
  fst sel_old == 1 /\ snd sel_old = (0%nat, 0%nat) /\
  malpha (smo 0%nat 0%nat) 0%nat == 0 /\ malpha (smo 0%nat 0%nat) 1%nat == 1 /\
  fst sel_new == 1 /\ snd sel_new = (0%nat, 1%nat) /\ 0 < malpha (smo 0%nat 1%nat) 0%nat.
Proof. exact old_max_gain_box_stalls_refuted. Qed.
Print Assumptions C16_old_max_gain_box_stalls_refuted.

(* QpSolver::solve on QpMcBoxDecomp (mc_solve_steps: selection, accuracy test with unshrink + checkKKT + shrink +
   re-selection, updateSMO, shrink counter), every fuel = stop.maxIterations (the run with less fuel is a prefix of the
   run with more: every visited state is covered): invariant, monotone objective, and on the exit "accuracy reached" all
   variables are active and checkKKT over all of them is < eps *)
Theorem C16_solver_loop_box :
  forall (P ncl n : nat) (C : Q) (Mrow : nat -> list (nat * Q)) (Mdef : nat -> Q) (K0 : nat -> nat -> Q),
  Mwf P Mrow -> Msym P ncl Mrow Mdef -> K0sym K0 -> Qdiag_nonneg P ncl Mrow Mdef K0 -> 0 < C ->
  forall (y0 : nat -> nat) (shrinking : bool) (eps : Q), 0 < eps ->
  forall (fuel it : nat) (c : scnt) (s : qmst), Inv_hist P ncl n C Mrow Mdef K0 y0 false s ->
  let r := mc_solve_steps qops qlowest qtiny qmicro P ncl n C Mrow Mdef K0 false shrinking eps fuel it c s in
  Inv_hist P ncl n C Mrow Mdef K0 y0 false (sr_state r) /\
  mobj P ncl n Mrow Mdef K0 s <= mobj P ncl n Mrow Mdef K0 (sr_state r) /\
  (sr_exit r = XAccuracy -> actvar (sr_state r) = nv P n /\ box_kkt qops C (sr_state r) (nv P n) < eps).
Proof. exact mc_solve_box. Qed.
Print Assumptions C16_solver_loop_box.

(* QpSolver::solve on QpMcSimplexDecomp: invariant at every visited state, every working set inside the active set
   (shrink() after a failed accuracy test never removes everything: a variable with alpha > 0, or with positive gradient
   in an example below its bound, is never shrunk, and without such a variable checkKKT is 0), and on the exit "accuracy
   reached" all variables are active with checkKKT < eps.  No objective clause: the triangle snapping can lose objective. *)
Theorem C16_solver_loop_simplex :
  forall (P ncl n : nat) (C : Q) (Mrow : nat -> list (nat * Q)) (Mdef : nat -> Q) (K0 : nat -> nat -> Q),
  Mwf P Mrow -> Msym P ncl Mrow Mdef -> K0sym K0 -> Qdiag_nonneg P ncl Mrow Mdef K0 -> 0 < C ->
  forall (y0 : nat -> nat) (shrinking : bool) (eps : Q), 0 < eps ->
  forall (fuel it : nat) (c : scnt) (s : qmst), Inv_hist P ncl n C Mrow Mdef K0 y0 true s ->
  let r := mc_solve_steps qops qlowest qtiny qmicro P ncl n C Mrow Mdef K0 true shrinking eps fuel it c s in
  Inv_hist P ncl n C Mrow Mdef K0 y0 true (sr_state r) /\
  (sr_exit r = XAccuracy -> actvar (sr_state r) = nv P n /\ skkt qops C (sr_state r) (actex (sr_state r)) < eps).
Proof. exact mc_solve_simplex. Qed.
Print Assumptions C16_solver_loop_simplex.

(* BiasSolver / BiasSolverSimplex, book-keeping only: over EVERY history of inner solver runs (updateSMO / shrink /
   unshrink on well-formed working sets) interleaved with performBiasUpdate calls, the solver invariant holds with
   the linear term  linear(i,p) = initial(i,p) - sum over the entries of nu.row(label(i)|P| + p) of value * offset(index)
   for the offsets accumulated so far, by data index.  No optimality claim (known finding C16-BIAS). *)
Theorem C16_bias_bookkeeping :
  forall (P ncl n : nat) (C : Q) (Mrow : nat -> list (nat * Q)) (Mdef : nat -> Q) (K0 : nat -> nat -> Q),
  Mwf P Mrow -> Msym P ncl Mrow Mdef -> K0sym K0 -> Qdiag_nonneg P ncl Mrow Mdef K0 -> 0 < C ->
  forall (nuRow : nat -> list (nat * Q)) (y0 : nat -> nat) (linit : nat -> nat -> Q) (b shrinking : bool)
         (os : list (bop)) (st : qmst * (nat -> Q)),
  Inv_all P ncl n C Mrow Mdef K0 y0 (lin_of P nuRow y0 linit (snd st)) b (fst st) ->
  wf_brun P ncl n C Mrow Mdef K0 nuRow y0 b shrinking st os ->
  let st' := brun P ncl n C Mrow Mdef K0 nuRow y0 b shrinking st os in
  Inv_all P ncl n C Mrow Mdef K0 y0 (lin_of P nuRow y0 linit (snd st')) b (fst st') /\
  forall v, (v < nv P n)%nat ->
    mlin (fst st') v == linit (eorig (fst st') (vex (fst st') v)) (vp (fst st') v)
                        - Lsum (nuRow (y0 (eorig (fst st') (vex (fst st') v)) * P + vp (fst st') v)%nat) (snd st').
Proof.
  intros P ncl n C Mrow Mdef K0 H1 H2 H3 H4 H5 nuRow y0 linit b shrinking os st IA W st'. split.
  - exact (bias_history P ncl n C Mrow Mdef K0 H1 H2 H3 H4 H5 nuRow y0 linit b shrinking os st IA W).
  - exact (bias_history_linear P ncl n C Mrow Mdef K0 H1 H2 H3 H4 H5 nuRow y0 linit b shrinking os st IA W).
Qed.
Print Assumptions C16_bias_bookkeeping.

Example C16_bias_hyps_sat :
  Inv_all 1 2 2 1 wMrow wMdef wK0 wy0 (lin_of 1 (fun _ => [(0%nat, 1)]) wy0 wlin0 (fun _ => 0)) false ws0 /\
  wf_brun 1 2 2 1 wMrow wMdef wK0 (fun _ => [(0%nat, 1)]) wy0 false true (ws0, fun _ => 0) [BStep (fun _ => 1 # 4); BSolve [MSmo 0%nat 1%nat]].
Proof. exact w_bias_hyps. Qed.
