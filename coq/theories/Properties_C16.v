(* C16 — Multi-class and linear SVM solvers are configuration-invariant and consistent.
   Only statements + `exact`; proofs in C16Proofs.v / C16ProofsMc.v / C16ProofsGain.v (and, for the
   shared free functions, C08ProofsBox.v); executable model in C16Model.v (+ C08Model.v).

   PROPERTY (properties.jsonl): for every multi-class formulation the trained decision function is,
   within the solver accuracy, the same with shrinking on/off, cached (any admissible size) or
   precomputed kernel matrix, and after reordering the examples; dual variables stay inside their box /
   simplex; two-class reductions give the binary machine; kernel solver (linear kernel) and linear
   solver reach the same primal objective.

   PROVED here (exact arithmetic, all inputs, all histories of update steps):
     * clause "dual variables stay inside their box or simplex constraints", for the MODEL OF THE
       UPDATE STEP of QpMcBoxDecomp / QpMcSimplexDecomp (updateSMO with its three branches and
       updateVarsum; every sequence of steps, whatever gradients and matrix entries are fed in):
       box: 0 <= alpha <= C.  simplex: alpha >= 0 and sum_p alpha(e,p) <= C + 1e-14 - the 1e-14 is
       the snapping slack of updateVarsum and it is attained in the model (C16_simplex_slack_witness),
       hence the name `_partial`: the property's exact simplex is NOT what the code maintains.
       Not modelled: the shrinking book-keeping (variable/example tables are permuted, values are not
       changed) - monitored on the real solvers.
     * the analytic sub-solvers the steps are made of (all three repaired in /repo: edge solver
       degenerate test Q <= 0, box solver bc5f2886, triangle solver ab716aec):
       solveQuadratic2DTriangle returns a point of the triangle for every feasible start and ALL other
       inputs (gradient, matrix - also indefinite -, snapping included); for an infeasible start the
       literal code keeps the point when no candidate gain exceeds -DBL_MAX, so that case carries the
       hypothesis that some candidate does (C16_triangle_in_simplex; the solvers only call it with
       feasible starts, which is what the every-history theorem uses); snapping moves a point by
       <= 1e-12*maxSum; FULL gain statement C16_triangle_gain_nonneg: feasible start and non-negative
       diagonal => the point chosen before the final snapping never loses objective (no determinant
       hypothesis); in the edge branch it beats every boundary point (C16_triangle_edges_best);
       C16_old_triangle_gain_refuted is the regression witness about the solver as it was before
       ab716aec (old_solve_tri), C16_triangle_witness_repaired the same input through the new code;
       solveQuadraticEdge returns a maximiser over its interval for every Q >= 0; solveQuadratic2DBox
       stays in the box and never loses objective;
     * maximumGainQuadratic2D / ...OnLine return twice the optimal unconstrained gain under their
       floors (so the working-set selection ranks candidates by true gain);
     * the merge scan over a QpSparseArray row used by selectWorkingSet / maxGainBox / maxGainSimplex
       reads exactly operator()(row, col), provided the row was filled in increasing column order
       (and not otherwise: sa_scan_unsorted_differs).
   NOT PROVED - the property's main clauses (configuration invariance, two-class reduction,
   kernel-vs-linear primal objective) would need convergence proofs of the decomposition solvers.
   They are MONITORED on every run by tools/c16.py on the real trainers (metamorphic runs with a
   tolerance derived from the measured duality gap) - see the evidence file.
   COMPARED on every run: the float instantiation of C16Model (free functions exactly; update steps
   one step at a time on the implementation's own previous state) vs. the compiled C++. *)
From Coq Require Import QArith Qabs List.
From SharkV Require Import C08Model C08Defs C08ProofsBox C16Model C16Proofs C16ProofsMc C16ProofsGain.
Import ListNotations.
Open Scope Q_scope.

(* ---- clause: dual variables stay inside their constraints (model of the update steps) ---- *)

(* full statement wanted: forall histories, alpha >= 0 /\ sum_p alpha(e,p) <= C.  The code only keeps
   the sum within the 1e-14 snapping slack; that is what is proved. *)
Theorem C16_mc_dual_in_constraints_simplex_partial :
  forall (P : nat) (C : Q), 0 < C ->
  forall (ops : list (mcop Q)) (s : mcst Q),
  SInv P C s -> Forall (wfop P) ops ->
  let s' := simplex_run qops qlowest qtiny P C s ops in
  SInv P C s' /\
  forall e, (forall p, (p < P)%nat -> 0 <= al s' e p /\ al s' e p <= C + qtiny) /\
            asum qops (al s' e) P <= C + qtiny.
Proof. exact mc_dual_in_constraints_simplex. Qed.
Print Assumptions C16_mc_dual_in_constraints_simplex_partial.

(* the solvers start from alpha = 0, varsum = 0 *)
Theorem C16_simplex_start_satisfies_invariant : forall (P : nat) (C : Q), 0 < C ->
  SInv P C (mkmc (fun _ _ => 0) (fun _ => 0)).
Proof. exact SInv_zero. Qed.
Print Assumptions C16_simplex_start_satisfies_invariant.

Theorem C16_simplex_slack_witness :
  let C := 1 in
  let s0 := mkmc (fun (e p : nat) => if (p =? 1)%nat then (1 # 200000000000000) else 0) (fun _ => 0) in
  SInv 2 C s0 /\
  let s1 := simplex_step qops qlowest qtiny 2 C s0 (Op1 0%nat 0%nat 1 0) in
  C < asum qops (al s1 0%nat) 2.
Proof. exact simplex_slack_witness. Qed.
Print Assumptions C16_simplex_slack_witness.

Theorem C16_mc_dual_in_constraints_box : forall (C : Q), 0 < C ->
  forall (ops : list (mcop Q)) (a : nat -> nat -> Q),
  (forall e p, 0 <= a e p /\ a e p <= C) ->
  forall e p, 0 <= box_run qops C a ops e p /\ box_run qops C a ops e p <= C.
Proof. exact box_run_inv. Qed.
Print Assumptions C16_mc_dual_in_constraints_box.

(* ---- the analytic sub-solvers ---- *)

Theorem C16_triangle_in_simplex : forall ai aj gi gj Qii Qij Qjj M : Q, 0 <= M ->
  ((0 <= ai /\ 0 <= aj /\ ai + aj <= M) \/
   exists c, In c (tri_edges qops ai aj gi gj Qii Qij Qjj M) /\ qlowest < G2 ai aj gi gj Qii Qij Qjj c) ->
  let r := solve_tri qops qlowest ai aj gi gj Qii Qij Qjj M in
  0 <= fst r /\ 0 <= snd r /\ fst r + snd r <= M.
Proof. exact solve_tri_in_triangle. Qed.
Print Assumptions C16_triangle_in_simplex.

Theorem C16_triangle_snap_moves_little : forall (M : Q) (c : Q * Q), 0 <= M ->
  0 <= fst c /\ 0 <= snd c /\ fst c + snd c <= M ->
  let c' := tri_snap qops M c in
  Qabs (fst c' - fst c) <= qthr * M /\ Qabs (snd c' - snd c) <= qthr * M.
Proof. exact tri_snap_close. Qed.
Print Assumptions C16_triangle_snap_moves_little.

Theorem C16_edge_solver_optimal : forall a g Q L U : Q, L <= U -> 0 <= Q ->
  forall b, L <= b -> b <= U ->
  gain1 g Q (b - a) <= gain1 g Q (solve_edge qops a g Q L U - a).
Proof. exact edge_optimal_any_start. Qed.
Print Assumptions C16_edge_solver_optimal.

(* full statement (repaired code): every point of the triangle, every gradient, every block with
   non-negative diagonal *)
Theorem C16_triangle_gain_nonneg : forall ai aj gi gj Qii Qij Qjj M : Q,
  0 <= ai -> 0 <= aj -> ai + aj <= M -> 0 <= Qii -> 0 <= Qjj ->
  0 <= G2 ai aj gi gj Qii Qij Qjj (tri_unsnapped ai aj gi gj Qii Qij Qjj M).
Proof. exact tri_gain_nonneg. Qed.
Print Assumptions C16_triangle_gain_nonneg.

Theorem C16_triangle_edges_best : forall ai aj gi gj Qii Qij Qjj M : Q,
  0 <= ai -> 0 <= aj -> ai + aj <= M -> 0 <= Qii -> 0 <= Qjj -> 0 <= Qii + Qjj - 2 * Qij ->
  ~ tri_is_free ai aj gi gj Qii Qij Qjj M ->
  forall y, onb M y ->
  G2 ai aj gi gj Qii Qij Qjj y <= G2 ai aj gi gj Qii Qij Qjj (tri_unsnapped ai aj gi gj Qii Qij Qjj M).
Proof. exact tri_edges_best. Qed.
Print Assumptions C16_triangle_edges_best.

(* regression: the solver before /repo ab716aec lost objective on a positive definite block *)
Theorem C16_old_triangle_gain_refuted : exists ai aj gi gj Qii Qij Qjj M : Q,
  0 < Qii /\ 0 < Qjj /\ 0 < Qii * Qjj - Qij * Qij /\ Qii * Qjj - Qij * Qij <= qthr /\
  0 < ai /\ 0 < aj /\ ai + aj < M /\
  (let r := old_solve_tri ai aj gi gj Qii Qij Qjj M in
   G2 ai aj gi gj Qii Qij Qjj r < 0).
Proof. exact old_tri_gain_refuted. Qed.
Print Assumptions C16_old_triangle_gain_refuted.

Theorem C16_triangle_witness_repaired :
  let r := solve_tri qops qlowest 1 1 (1 # 1000000) (1 # 1000000) (1 # 1000000) 0 (1 # 1000000) 10 in
  fst r == 2 /\ snd r == 2 /\
  0 < G2 1 1 (1 # 1000000) (1 # 1000000) (1 # 1000000) 0 (1 # 1000000) r.
Proof. exact tri_witness_repaired. Qed.
Print Assumptions C16_triangle_witness_repaired.

Theorem C16_box2d_in_box_and_gain : forall ai aj gi gj Qii Qij Qjj Li Ui Lj Uj : Q,
  Li <= ai -> ai <= Ui -> Lj <= aj -> aj <= Uj -> 0 <= Qii -> 0 <= Qjj ->
  let r := solve_2d qops ai aj gi gj Qii Qij Qjj Li Ui Lj Uj in
  (Li <= fst r /\ fst r <= Ui /\ Lj <= snd r /\ snd r <= Uj) /\
  0 <= gain2 qops gi gj Qii Qij Qjj (fst r - ai) (snd r - aj).
Proof. exact box2d_in_box_and_gain. Qed.
Print Assumptions C16_box2d_in_box_and_gain.

(* ---- working-set selection gains ---- *)

Theorem C16_max_gain_line_is_optimum : forall Qii Qjj Qij gi gj : Q,
  let g := gi - gj in
  let Qf := line_floor Qii Qjj Qij in
  (g <= 0 -> max_gain_line qops Qii Qjj Qij gi gj == 0) /\
  (0 < g ->
     max_gain_line qops Qii Qjj Qij gi gj == 2 * gain1 g Qf (g / Qf) /\
     forall t, 2 * gain1 g Qf t <= max_gain_line qops Qii Qjj Qij gi gj).
Proof. exact max_gain_line_opt. Qed.
Print Assumptions C16_max_gain_line_is_optimum.

Theorem C16_max_gain_2d_is_optimum : forall Qii Qjj Qij gi gj : Q,
  let det := Qii * Qjj - Qij * Qij in
  0 < Qii -> 0 <= Qjj -> qthr * (Qii * Qjj) < det ->
  let mui := (Qjj * gi - Qij * gj) / det in
  let muj := (Qii * gj - Qij * gi) / det in
  max_gain_2d qops qmicro Qii Qjj Qij gi gj == 2 * gain2 qops gi gj Qii Qij Qjj mui muj /\
  forall x y, 2 * gain2 qops gi gj Qii Qij Qjj x y <= max_gain_2d qops qmicro Qii Qjj Qij gi gj.
Proof. exact max_gain_2d_opt. Qed.
Print Assumptions C16_max_gain_2d_is_optimum.

Theorem C16_max_gain_2d_regularised : forall Qii Qjj Qij gi gj : Q,
  Qii * Qjj - Qij * Qij <= qthr * (Qii * Qjj) ->
  max_gain_2d qops qmicro Qii Qjj Qij gi gj ==
  (gj * gj * (Qii + qmicro) - 2 * gj * gi * Qij + gi * gi * (Qjj + qmicro)) /
  ((Qii + qmicro) * (Qjj + qmicro) - Qij * Qij).
Proof. exact max_gain_2d_regularised. Qed.
Print Assumptions C16_max_gain_2d_regularised.

(* ---- QpSparseArray ---- *)

Theorem C16_sparse_scan_reads_operator : forall (A : Type) (def : A) (w : nat) (es : list (nat * A)) (p : nat),
  sorted_from A p es ->
  forall k, (k < w)%nat -> nth k (sa_scan es def p w) def = sa_lookup es def (p + k).
Proof. exact sa_scan_lookup. Qed.
Print Assumptions C16_sparse_scan_reads_operator.

(* ---- the hypotheses are satisfiable ---- *)
Example C16_simplex_hyp_sat : 0 < 1 /\ SInv 3 1 (mkmc (fun _ _ => 0) (fun _ => 0)) /\
  Forall (wfop 3) [Op1 0%nat 2%nat 1 1; Op2 0%nat 0%nat 0%nat 1%nat 1 1 1 0 1; Op2 0%nat 0%nat 1%nat 1%nat 1 1 1 0 1].
Proof. exact simplex_hyp_sat. Qed.
Example C16_triangle_free_sat : tri_is_free (1#1) (1#1) 1 1 1 0 1 10 /\ 0 <= 1.
Proof. exact tri_free_sat. Qed.
Example C16_triangle_edge_sat : ~ tri_is_free 0 1 1 1 1 0 1 (3#2) /\ onb (3#2) (0, 1).
Proof. exact tri_edge_sat. Qed.
Example C16_triangle_infeasible_start_kept :
  solve_tri qops qlowest (-(1)) 0 (- inject_Z (2 ^ 1030)) 0 0 0 0 1 = (0, 0) /\
  tri_best qops qlowest (-(1)) 0 (- inject_Z (2 ^ 1030)) 0 0 0 0 1 = (-(1), 0).
Proof. exact tri_infeasible_start_kept. Qed.
Example C16_max_gain_2d_sat : 0 < 2 /\ 0 <= 2 /\ qthr * (2 * 2) < 2 * 2 - 1 * 1.
Proof. exact max_gain_2d_opt_sat. Qed.
Example C16_sparse_sorted_sat : sorted_from Q 0 [(0%nat, 5); (2%nat, 7)].
Proof. exact sparse_sorted_sat. Qed.
