(* C06, extension round — NegativeLogLikelihood as coded (C06ExtModel.nll_eval / nll_evald): the returned value is minus the mean
   of log(max(p(x), minProb)) over the elements, the same from eval and evalDerivative, the returned derivative is minus the mean
   of the per-element weightedParameterDerivative with coefficient 1/p(x) (0 where p(x) < minProb); all of it independent of the
   batch partition, the number of threads and the arrival order of the partial results.  For EVERY function in the role of the
   logarithm.  Axiom-free (lists, nat, Q). *)
From Coq Require Import List Arith ZArith QArith Qabs Bool Lia Lqa Permutation Setoid Morphisms.
From SharkV Require Import ListAux C03Model C06Model C06Proofs C06Aux C06LossProofs C06GenProofs C06ExtModel.
Import ListNotations.
Open Scope Q_scope.

Section NLLProofs.
Variables (lg : Q -> Q) (minProb : Q) (peval : vec -> Q) (pwpd : list (vec * vec) -> vec).
(* weightedParameterDerivative is a sum over the elements of the batch (part of the C04 model contract) *)
Hypothesis pwpd_sum : forall xg, veq (pwpd xg) (vsum (map (fun p => pwpd [p]) xg)).

Local Notation ll := (nll_ll lg minProb peval).
Local Notation coeff := (nll_coeff minProb peval).
Local Notation bq := (nll_bq lg minProb peval pwpd).
Local Notation bqe := (nll_bq_eval lg minProb peval).

Lemma nll_bqe_additive b : veq (bqe b) (vsum (map (fun e => bqe [e]) b)).
Proof.
  intros [|j]; rewrite nth_vsum, map_map; unfold nll_bq_eval; cbn [nth].
  - apply qsum_map_ext. intros x. simpl. ring.
  - assert (H : forall x, nth (S j) (bqe [x]) 0 == 0) by (intros x; unfold nll_bq_eval; destruct j; reflexivity).
    rewrite (qsum_map_ext _ (fun _ => 0) b H).
    assert (Z : qsum (map (fun _ : vec => 0) b) == 0) by (induction b as [|x b IH]; simpl; [reflexivity | rewrite IH; ring]).
    rewrite Z. destruct j; reflexivity.
Qed.

Lemma nll_bq_additive b : veq (bq b) (vsum (map (fun e => bq [e]) b)).
Proof.
  intros [|j]; rewrite nth_vsum, map_map; unfold nll_bq; cbn [nth].
  - apply qsum_map_ext. intros x. simpl. ring.
  - rewrite (pwpd_sum _ j), nth_vsum, !map_map. apply qsum_map_ext. intros x. cbn [map nth]. reflexivity.
Qed.

(* the value, for every batching and every arrival order of the per-batch sums: -(1/n) sum_x log(max(p(x), minProb)) *)
Theorem nll_value (d : @data vec) arrived : Permutation arrived (map bqe d) ->
  nll_eval_arrived arrived d == - (qsum (map ll (elems d)) / Qn (nelems d)).
Proof.
  intros Hp. unfold nll_eval_arrived.
  rewrite (data_mean_is_mean_loss bqe nll_bqe_additive d arrived Hp 0%nat).
  unfold mean_loss. rewrite nth_vdiv, nth_vsum, map_map. unfold nelems.
  rewrite (qsum_map_ext (fun x => nth 0 (bqe [x]) 0) ll) by (intros x; simpl; ring). reflexivity.
Qed.

(* the derivative call, for every thread count >= 1, batching and arrival order of the thread results *)
Theorem nll_evald_mean threads (d : @data vec) arrived : (1 <= threads)%nat ->
  Permutation arrived (partials bq (thread_ranges threads (length d)) d) ->
  nth 0 (nll_evald_arrived arrived d) 0 == - (qsum (map ll (elems d)) / Qn (nelems d)) /\
  forall j, nth (S j) (nll_evald_arrived arrived d) 0
            == - (qsum (map (fun x => nth j (pwpd [(x, [coeff x])]) 0) (elems d)) / Qn (nelems d)).
Proof.
  intros HT Hp. unfold nll_evald_arrived.
  assert (H := error_any_schedule bq nll_bq_additive threads d arrived HT Hp).
  split; [|intros j]; rewrite nth_vscale, (H _); unfold mean_loss; rewrite nth_vdiv, nth_vsum, map_map; unfold nelems.
  - rewrite (qsum_map_ext (fun x => nth 0 (bq [x]) 0) ll) by (intros x; simpl; ring). ring.
  - rewrite (qsum_map_ext (fun x => nth (S j) (bq [x]) 0) (fun x => nth j (pwpd [(x, [coeff x])]) 0)) by (intros x; reflexivity). ring.
Qed.

Theorem nll_paths threads (d : @data vec) : (1 <= threads)%nat ->
  nth 0 (nll_evald lg minProb peval pwpd threads d) 0 == nll_eval lg minProb peval d.
Proof.
  intros HT. unfold nll_evald, nll_eval.
  rewrite (proj1 (nll_evald_mean threads d _ HT (Permutation_refl _))).
  rewrite (nll_value d _ (Permutation_refl _)). reflexivity.
Qed.

Theorem nll_batching_invariant t1 t2 (d1 d2 : @data vec) : (1 <= t1)%nat -> (1 <= t2)%nat -> elems d1 = elems d2 ->
  nll_eval lg minProb peval d1 == nll_eval lg minProb peval d2 /\
  veq (nll_evald lg minProb peval pwpd t1 d1) (nll_evald lg minProb peval pwpd t2 d2).
Proof.
  intros H1 H2 He. split.
  - unfold nll_eval. rewrite !(nll_value _ _ (Permutation_refl _)). unfold nelems. rewrite He. reflexivity.
  - unfold nll_evald.
    destruct (nll_evald_mean t1 d1 _ H1 (Permutation_refl _)) as [A1 B1].
    destruct (nll_evald_mean t2 d2 _ H2 (Permutation_refl _)) as [A2 B2].
    intros [|j]; [rewrite A1, A2 | rewrite B1, B2]; unfold nelems; rewrite He; reflexivity.
Qed.
End NLLProofs.

(* the linear model with one output (the model of the tie): weightedParameterDerivative is a sum over the batch *)
Theorem nll_linear_model_instance : forall xg, veq (lin_wpd xg) (vsum (map (fun p => lin_wpd [p]) xg)).
Proof. exact lin_wpd_sum. Qed.
