(* C09 (derived matrices) — KernelMatrix, RegularizedKernelMatrix, ModifiedKernelMatrix,
   PrecomputedMatrix, BlockMatrix2x2 under row/column flips.  Every class keeps per-variable
   attributes (example pointers, diagonal modifiers, labels, an index mapping, or the matrix rows and
   columns themselves) that flipColumnsAndRows swaps; the model keeps the attribute lists and the
   proofs show that the entry formula is always "the base kernel of the two ORIGINAL examples now
   sitting at positions i and j, modified by their ORIGINAL attributes". *)
From Coq Require Import List Arith ZArith Lia Bool Permutation.
From SharkV Require Import ListAux.
Import ListNotations.
Local Open Scope Z_scope.

Section Derived.
Variable k0 : nat -> nat -> Z.          (* kernel value of original examples a, b *)

Record dm := mkD {
  pos  : list nat;        (* position -> original example (KernelMatrix::x / BlockMatrix2x2::m_mapping) *)
  dmod : list Z;          (* RegularizedKernelMatrix::m_diagMod *)
  labs : list nat         (* ModifiedKernelMatrix::m_labels *)
}.

Definition dflip (i j : nat) (s : dm) : dm :=
  mkD (swapl 0%nat i j (pos s)) (swapl 0 i j (dmod s)) (swapl 0%nat i j (labs s)).

Definition dinit (n : nat) (d0 : list Z) (l0 : list nat) : dm := mkD (seq 0 n) d0 l0.

Definition p (s : dm) (i : nat) : nat := nth i (pos s) 0%nat.

(* KernelMatrix::entry *)
Definition e_kernel (s : dm) (i j : nat) : Z := k0 (p s i) (p s j).
(* RegularizedKernelMatrix::entry *)
Definition e_reg (s : dm) (i j : nat) : Z :=
  e_kernel s i j + (if (i =? j)%nat then nth i (dmod s) 0 else 0).
(* ModifiedKernelMatrix::entry *)
Definition e_mod (eq ne : Z) (s : dm) (i j : nat) : Z :=
  (if (nth i (labs s) 0 =? nth j (labs s) 0)%nat then eq else ne) * e_kernel s i j.
(* ExampleModifiedKernelMatrix::entry with scaling coefficients 2^l (l = the per-example attribute in
   [labs], at most 2), scaled by 16 to stay integral: 16 * k / (2^li * 2^lj) *)
Definition e_ex (s : dm) (i j : nat) : Z :=
  e_kernel s i j * 2 ^ (4 - Z.of_nat (nth i (labs s) 0%nat) - Z.of_nat (nth j (labs s) 0%nat)).
(* row(k,start,end,storage) of the three classes *)
Definition d_row (e : dm -> nat -> nat -> Z) (s : dm) (kk a b : nat) : list Z :=
  map (e s kk) (seq a (b - a)).

(* PrecomputedMatrix: the stored matrix itself has its rows and columns swapped *)
Definition mat := list (list Z).
Definition m_flip (i j : nat) (m : mat) : mat := map (swapl 0 i j) (swapl [] i j m).
Definition m_entry (m : mat) (i j : nat) : Z := nth j (nth i m []) 0.
Definition m_of (n : nat) (e : nat -> nat -> Z) : mat := map (fun i => map (e i) (seq 0 n)) (seq 0 n).

Definition dflips (fl : list (nat * nat)) (s : dm) : dm := fold_left (fun s ij => dflip (fst ij) (snd ij) s) fl s.
Definition mflips (fl : list (nat * nat)) (m : mat) : mat := fold_left (fun m ij => m_flip (fst ij) (snd ij) m) fl m.

End Derived.
