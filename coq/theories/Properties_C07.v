(* C07 — Trained support vector machines are optimal solutions of their dual problem.
   Only statements + `exact`; proofs in C07Proofs.v (on the solver model of C08Model.v, exact
   arithmetic), C07SetupProofs.v (problem assembly model C07Setup.v), C07CertProofs.v (certified
   result checker C07Cert.v).

   PROVED: the value the solver compares with the requested accuracy (checkKKT of both problem
   types, which is also what the selection strategies return) is the largest violation of the KKT
   system of the stated dual, `<= eps` is equivalent to the eps-KKT system with a multiplier of the
   equality constraint; the reported objective 1/2 (g+lin).alpha equals lin.alpha - 1/2 alpha K alpha
   whenever g = lin - K alpha; the bias returned by computeBias is an admissible multiplier
   (inside the interval the optimality conditions allow, up to eps); every feasible eps-KKT point
   of the equality-constrained dual is within eps * sum(U - L) of the optimum for symmetric
   positive semidefinite K — so two accepted solutions (any shrinking / caching / warm-start
   configuration) differ in objective by at most that bound.
   With C08 (invariants of every solver state) this gives the property for accepted terminal states
   of the model.

   PROVED (extension, second half of this file):
   * PROBLEM ASSEMBLY (C07Setup.v mirrors, as coded, how CSvmTrainer::trainBinary — un-weighted
     CSVMProblem and weighted GeneralQuadraticProblem, with / without offset —, EpsilonSvmTrainer
     and OneClassSvmTrainer build the quadratic program handed to QpSolver: linear term, box of every
     variable from label, C-, C+, example weight, log-encoded regularisation parameters, initial
     alpha incl. the warm-start clipping (commits d631377a, 97947df9) and, when the clipping changed a
     coefficient, the rebalancing that restores sum(alpha) = 0 with offset (commit 73617c7d, repair of
     finding equality:csvm*:bias1:warm2), the 2n
     eps-SVR variables over BlockMatrix2x2, the one-class box and start point): each assembled
     problem IS the documented dual — objective and feasible set coincide with the textbook dual,
     stated explicitly (csvm_dual_obj / csvm_dual_feasible in beta_i = y_i alpha_i in [0, C_i w_i];
     svr_dual_obj / svr_dual_feasible in alpha+, alpha-; one-class: -1/2 alpha K alpha on
     {0 <= alpha_i <= 1/(nu n), sum = 1}); the returned eps-SVR coefficient is alpha+ - alpha- and the
     2n-variable gradient uses exactly K coef (representer form); the warm-start point is feasible
     (always in the box; with offset sum = 0 EXACTLY whenever a truncation happened or the old point
     had sum 0) and an old solution inside the new box is handed over unchanged; for such start points
     (sum 0) the warm problem has the textbook feasible set; the one-class start point is feasible.
   * CERTIFIED RESULT CHECKER (C07Cert.certify, executable over Q, recomputes lin - K alpha itself):
     certify = true -> box, equality within the given slack, the solver's own stopping quantity
     (the proved check_kkt functions) <= eps on the EXACT gradient, bias inside the interval the
     optimality conditions allow; for symmetric psd K the objective of an accepted candidate is within
     eps * sum(U-L) + |multiplier| * (slack + slack') of the objective of EVERY point of the box whose
     sum misses the target by <= slack' (slack' = 0: every feasible point); two accepted candidates of
     the same problem agree within the sum of their bounds.  The psd hypothesis is DISCHARGED for the
     linear-kernel Gram matrix X X^T of rational data (gram_sym_psd) and carried over to the 2x2 block
     matrix of eps-SVR (block2_sym_psd).  For the Gaussian kernel K is an input of doubles: that this
     double-valued matrix is psd is an ASSUMPTION, monitored by the check (pivoted LDL^T).

   TIED on every run (tools/c07.py): the extracted assembly model, run on IEEE doubles, must
   reproduce bit for bit the problem the real trainer hands to QpSolver (observed inside
   QpSolver::solve of the trainer's own call), the block-matrix index map and the eps-SVR coefficient;
   the extracted certify, run in exact rational arithmetic on the real trainer's returned variables
   with an independently computed kernel matrix, must accept (eps + printed rounding allowance).
   PROVED (extension "degenerate geometry", end of this file; C07Degenerate.v / C07DegenerateProofs.v):
   * FEASIBILITY OF THE SMO STEP DOES NOT DEPEND ON THE CURVATURE.  C07Degenerate.smo_pair is the scalar core of
     SvmProblem::updateSMO with the curvature d = K_ii + K_jj - 2 K_ij as an explicit argument and the treatment of d
     as a parameter; with the as-coded clamp max(d, 1e-12) it IS the step of the solver model C08Model.smo_new
     (C07_smo_model_step_is_smo_pair, by computation, for every arithmetic; C08's check runs that model next to the real
     solver step by step).  For EVERY d — negative, zero, positive; d is universally quantified — and g_i >= g_j the
     as-coded step keeps both variables inside their boxes, preserves their sum, has length >= 0 and does not overshoot
     (C07_smo_step_feasible_for_every_curvature); at state level, for EVERY matrix K0 (neither symmetric nor positive
     semidefinite, e.g. the float-rounded kernel cache of nearly identical points): box, bound flags, sum(alpha), all
     other variables untouched (C07_smo_step_feasible_for_every_matrix; this is the part of C08's
     C08_smo_step_keeps_invariants_and_objective that needs no hypothesis on K0, restated with K0 unconstrained —
     C08 states it under Ksym because it also proves the gradient invariant and the monotone objective).
   * REFUTED (concrete numbers, vm_compute): with the clamp replaced by the test `d == 0` (seeded change C07-7) or
     removed, a curvature of -1e-6 throws both variables of a C-SVM pair out of their boxes
     (C07_smo_step_zero_test_instead_of_clamp_refuted, C07_smo_step_without_clamp_refuted,
     C07_smo_step_feasible_without_clamp_refuted); the hypothesis g_i >= g_j is needed even with the clamp, the
     clipping only limits steps in the positive direction (C07_smo_step_needs_ordered_gradients_refuted) — the
     working-set selection supplies it (wf_run of C08).
   MONITORED on every run (degenerate-geometry stream of tools/c07.py, op code D): every trainer family on
   near-duplicate pairs (distance 1e-3..1e-7, same / opposite labels or targets), exact duplicates, collinear points
   (rank-deficient Gram matrix), tiny and huge feature scales, float AND double cache, cached / precomputed, shrinking
   on / off, linear / polynomial / wide and narrow Gaussian kernels: whenever "accuracy reached" is reported, box EXACT
   (also on the solver's own 2n / n variables), equality to 1e-12 relative, eps-KKT and bias interval against the
   independently computed DOUBLE kernel matrix with the DERIVED allowance for the rounding of the cached entries
   (float cache: sum_j 2^-24 |K_ij| |alpha_j| per gradient component; printed in the evidence), objective = recomputed,
   agreement across configurations, and the extracted certify on the same results.
   MONITORED on every run, not proved: the Python spec monitor (box / equality / eps-KKT / bias
   interval / objective = recomputed / agreement across configurations), kept unchanged.
   NOT PROVED: that the real double-precision solver reaches an accepted state (termination), the
   size of the rounding allowance handed to certify (justified in the evidence, not proved), the
   exp of the log-encoded parameters (compared bit for bit with libm), psd of Gaussian Gram matrices. *)
From Coq Require Import QArith List.
From SharkV Require Import C08Model C08Defs C08Aux C07Proofs C07Setup C07SetupProofs C07Cert C07CertProofs C07Degenerate C07DegenerateProofs.
Open Scope Q_scope.

Theorem C07_checkKKT_is_max_violation_svm : forall (s : qst),
  (forall a b, (a < active s)%nat -> (b < active s)%nat -> fu s a = false -> fl s b = false ->
     grad s a - grad s b <= check_kkt_svm qops s) /\
  ((exists a, (a < active s)%nat /\ fu s a = false) ->
   (exists b, (b < active s)%nat /\ fl s b = false) ->
   (forall a, (a < active s)%nat -> - qbig < grad s a /\ grad s a < qbig) ->
   (exists a b, (a < active s)%nat /\ (b < active s)%nat /\ fu s a = false /\ fl s b = false /\
                check_kkt_svm qops s == grad s a - grad s b) /\
   forall eps, (check_kkt_svm qops s <= eps <->
     exists b, forall a, (a < active s)%nat ->
       (fu s a = false -> grad s a <= b + eps) /\ (fl s a = false -> b <= grad s a))).
Proof.
  intros s. split.
  - intros a b. apply checkKKT_svm_is_max_violation.
  - intros H1 H2 H3. split.
    + apply checkKKT_svm_attained; assumption.
    + intros eps. apply checkKKT_svm_eps_multiplier; assumption.
Qed.
Print Assumptions C07_checkKKT_is_max_violation_svm.

Theorem C07_checkKKT_is_max_violation_box : forall (s : qst) (m : nat),
  let v := check_kkt_box_upto qops s m in
  0 <= v /\
  (forall a, (a < m)%nat -> deact s a = false ->
     (fu s a = false -> grad s a <= v) /\ (fl s a = false -> - grad s a <= v)) /\
  (v == 0 \/ exists a, (a < m)%nat /\ deact s a = false /\
     ((fu s a = false /\ v == grad s a) \/ (fl s a = false /\ v == - grad s a))).
Proof. exact checkKKT_box_is_max_violation. Qed.
Print Assumptions C07_checkKKT_is_max_violation_box.

Theorem C07_objective_formula : forall n K0 (s : qst),
  Inv_grad_all n K0 s ->
  (1 # 2) * sumn n (fun a => (grad s a + lin s a) * alpha s a) == obj n K0 s /\
  fval qops n s == obj n K0 s.
Proof. intros n K0 s H. split; [apply objective_formula | apply fval_is_objective]; assumption. Qed.
Print Assumptions C07_objective_formula.

Theorem C07_bias_in_interval : forall (s : qst) n eps,
  0 <= eps -> epsKKT s n eps ->
  ((0 < free_cnt s n)%nat \/
   ((forall a, (a < n)%nat -> deact s a = false) /\
    (forall a, (a < n)%nat -> - qbig < grad s a /\ grad s a < qbig))) ->
  forall a, (a < n)%nat ->
    (fu s a = false -> grad s a <= compute_bias s n + eps) /\
    (fl s a = false -> compute_bias s n - eps <= grad s a).
Proof. exact bias_in_interval. Qed.
Print Assumptions C07_bias_in_interval.

Theorem C07_eps_KKT_near_optimal : forall (n : nat) (K0 : nat -> nat -> Q),
  Ksym K0 ->
  (forall d : nat -> Q, 0 <= sumn n (fun a => d a * sumn n (fun b => K0 a b * d b))) ->
  forall (lin L U al al' : nat -> Q) eps,
  0 <= eps ->
  (forall a, (a < n)%nat -> L a <= al a /\ al a <= U a) ->
  (forall a, (a < n)%nat -> L a <= al' a /\ al' a <= U a) ->
  sumn n al == sumn n al' ->
  (forall a c, (a < n)%nat -> (c < n)%nat -> al a < U a -> L c < al c ->
               gradv n K0 lin al a - gradv n K0 lin al c <= eps) ->
  objv n K0 lin al' - objv n K0 lin al <= eps * sumn n (fun a => U a - L a).
Proof. exact eps_KKT_near_optimal. Qed.
Print Assumptions C07_eps_KKT_near_optimal.

(* ====================================================================================== *)
(* Extension: problem assembly (C07Setup.v) and certified result checker (C07Cert.v)       *)
(* ====================================================================================== *)

(* --- C-SVM: the assembled problem is the textbook dual under alpha_i = y_i beta_i --- *)
Theorem C07_csvm_assembled_problem_is_textbook_dual :
  forall bias n K lab Cn Cp w prev beta,
  (* objective *)
  qp_obj K (csvmw_problem qops 1 bias n lab Cn Cp w prev) (to_alpha lab beta) == csvm_dual_obj n K lab beta /\
  (* feasible set, weighted data: 0 <= beta_i <= C_{y_i} w_i [, sum y_i beta_i = 0]; the right hand side of the
     equality constraint is the sum of the start point: 0 for a cold start, for a warm start see C07_warm_start_feasible *)
  ((bias = true -> sumn n (q_init (csvmw_problem qops 1 bias n lab Cn Cp w prev)) == 0) ->
   (qp_feasible (csvmw_problem qops 1 bias n lab Cn Cp w prev) (to_alpha lab beta) <->
    csvm_dual_feasible n lab (csvm_C lab Cn Cp w) bias beta)) /\
  (* un-weighted data (CSVMProblem) *)
  ((bias = true -> sumn n (q_init (csvm_problem qops 1 bias n lab Cn Cp prev)) == 0) ->
   (qp_feasible (csvm_problem qops 1 bias n lab Cn Cp prev) (to_alpha lab beta) <->
    csvm_dual_feasible n lab (csvm_C lab Cn Cp (fun _ => 1)) bias beta)) /\
  (* cold start: the hypothesis holds *)
  (bias = true -> sumn n (q_init (csvmw_problem qops 1 bias n lab Cn Cp w None)) == 0) /\
  (* the change of variables is a bijection, and the decision function is the dual's representer form *)
  (forall i, to_beta lab (to_alpha lab beta) i == beta i) /\
  (forall i, sumn n (fun j => K i j * to_alpha lab beta j) == sumn n (fun j => ysgn lab j * beta j * K i j)).
Proof.
  intros. split; [apply csvm_objective_is_dual|].
  split; [apply csvmw_problem_is_dual|]. split; [apply csvm_problem_is_dual|].
  split; [apply cold_start_sum_zero|].
  split; [intros; apply to_beta_to_alpha|intros; apply csvm_representer].
Qed.
Print Assumptions C07_csvm_assembled_problem_is_textbook_dual.

(* every point of the assembled feasible set comes from a dual-feasible beta (alpha -> y alpha) *)
Theorem C07_csvm_feasible_sets_coincide : forall bias n lab Cn Cp w prev al,
  let p := csvmw_problem qops 1 bias n lab Cn Cp w prev in
  (bias = true -> sumn n (q_init p) == 0) ->
  (qp_feasible p al <-> csvm_dual_feasible n lab (csvm_C lab Cn Cp w) bias (to_beta lab al)).
Proof. exact csvmw_feasible_sets_coincide. Qed.
Print Assumptions C07_csvm_feasible_sets_coincide.

(* warm start as coded since /repo commit 73617c7d (clip to the box of the problem; with offset, IF the clipping
   changed some coefficient, rescale the heavier side): the start point always lies in the box; with offset it
   sums to 0 EXACTLY when a truncation happened or the old point had sum 0 (warm_balanced; cold start: always) *)
Theorem C07_warm_start_feasible : forall bias n lab Cn Cp w prev,
  0 <= Cn -> 0 <= Cp -> (forall i, (i < n)%nat -> 0 <= w i) ->
  let p := csvmw_problem qops 1 bias n lab Cn Cp w prev in
  (forall i, (i < n)%nat -> q_lo p i <= q_init p i /\ q_init p i <= q_hi p i) /\
  (bias = true ->
   match prev with
   | None => True
   | Some pv => truncated qops pv (fun k => clip_box qops (pv k) (q_lo p k) (q_hi p k)) n = true \/ sumn n pv == 0
   end -> sumn n (q_init p) == 0).
Proof. exact warm_start_feasible. Qed.
Print Assumptions C07_warm_start_feasible.

(* an old point inside the new box is handed over unchanged (so it keeps its own sum; restarting from a
   solution needs no correction) *)
Theorem C07_warm_start_keeps_feasible : forall bias n lab Cn Cp w prev,
  let p := csvmw_problem qops 1 bias n lab Cn Cp w (Some prev) in
  (forall i, (i < n)%nat -> q_lo p i <= prev i /\ prev i <= q_hi p i) ->
  forall i, (i < n)%nat -> q_init p i == prev i.
Proof. exact warm_start_keeps_feasible. Qed.
Print Assumptions C07_warm_start_keeps_feasible.

(* --- eps-SVR: the 2n-variable problem over the block matrix is the eps-insensitive dual --- *)
Theorem C07_svr_assembled_problem_is_eps_insensitive_dual : forall n K y C e ap am,
  qp_obj (block2 n K) (svr_problem qops n y C e) (svr_vars n ap am) == svr_dual_obj n K y e ap am /\
  (qp_feasible (svr_problem qops n y C e) (svr_vars n ap am) <-> svr_dual_feasible n C ap am) /\
  (* the returned coefficient is alpha+ - alpha- ... *)
  (forall i, (i < n)%nat -> svr_coef qops n (svr_vars n ap am) i == ap i - am i) /\
  (* ... and the gradient of the 2n problem is built from K coef: representer form *)
  (forall v r, sumn (n + n) (fun j => block2 n K r j * v j) ==
               sumn n (fun j => K (bidx n r) j * svr_coef qops n v j)).
Proof.
  intros. split; [apply svr_objective_is_dual|]. split; [apply svr_problem_is_dual|].
  split; [intros; apply svr_coef_is_difference; assumption|intros; apply svr_Kv_is_Kcoef].
Qed.
Print Assumptions C07_svr_assembled_problem_is_eps_insensitive_dual.

(* --- one-class --- *)
Theorem C07_oneclass_assembled_problem_is_dual : forall n K nu al,
  (0 < n)%nat ->
  qp_obj K (oc_problem qops 1 qofnat n nu) al ==
    - (1 # 2) * sumn n (fun a => al a * sumn n (fun b => K a b * al b)) /\
  (qp_feasible (oc_problem qops 1 qofnat n nu) al <->
   (forall i, (i < n)%nat -> 0 <= al i /\ al i <= 1 / (nu * qofnat n)) /\ sumn n al == 1) /\
  (0 < nu -> nu <= 1 ->
   let p := oc_problem qops 1 qofnat n nu in qp_feasible p (q_init p)).
Proof.
  intros n K nu al Hn. split; [apply oc_objective|]. split; [apply oc_problem_is_dual; assumption|].
  intros; apply oc_init_feasible; assumption.
Qed.
Print Assumptions C07_oneclass_assembled_problem_is_dual.

(* --- certified result checker --- *)
Theorem C07_certify_sound : forall n K lin lo hi eq target al hasbias bias eps slack_eq slack_b,
  certify n K lin lo hi eq target al hasbias bias eps slack_eq slack_b = true ->
  certified n K lin lo hi eq target al hasbias bias eps slack_eq slack_b.
Proof. exact certify_sound. Qed.
Print Assumptions C07_certify_sound.

(* full statement of what `certified` contains, for the reader *)
Theorem C07_certify_accepts_only_feasible_eps_KKT_points :
  forall n K lin lo hi eq target al hasbias bias eps slack_eq slack_b,
  certify n K lin lo hi eq target al hasbias bias eps slack_eq slack_b = true ->
  (forall a, (a < n)%nat -> lo a <= al a /\ al a <= hi a) /\
  (eq = true -> Qabs.Qabs (sumn n al - target) <= slack_eq) /\
  (eq = true -> forall a c, (a < n)%nat -> (c < n)%nat -> al a < hi a -> lo c < al c ->
     gradv n K lin al a - gradv n K lin al c <= eps) /\
  (eq = false -> forall a, (a < n)%nat ->
     (al a < hi a -> gradv n K lin al a <= eps) /\ (lo a < al a -> - eps <= gradv n K lin al a)) /\
  (eq = true -> hasbias = true -> forall a, (a < n)%nat ->
     (al a < hi a -> gradv n K lin al a <= bias + eps + slack_b) /\
     (lo a < al a -> bias - eps - slack_b <= gradv n K lin al a)).
Proof.
  intros until slack_b. intros C. apply certify_sound in C. destruct C as [_ B E K1 _ K2 Bi].
  split; [exact B|]. split; [exact E|]. split; [exact K1|]. split; [exact K2|exact Bi].
Qed.
Print Assumptions C07_certify_accepts_only_feasible_eps_KKT_points.

Theorem C07_certified_near_optimal : forall n K, Ksym K -> Kpsd n K ->
  forall lin lo hi eq target al hasbias bias eps slack_eq slack_b,
  certify n K lin lo hi eq target al hasbias bias eps slack_eq slack_b = true ->
  forall al' slack', in_box n lo hi al' ->
  (eq = true -> Qabs.Qabs (sumn n al' - target) <= slack') ->
  objv n K lin al' - objv n K lin al <=
  eps * sumn n (fun a => hi a - lo a) +
  (if eq then Qabs.Qabs (cert_mult n K lin lo hi al) * (slack_eq + slack') else 0).
Proof. exact certified_near_optimal. Qed.
Print Assumptions C07_certified_near_optimal.

Theorem C07_certified_near_optimal_bias : forall n K, Ksym K -> Kpsd n K ->
  forall lin lo hi target al bias eps slack_eq slack_b,
  certify n K lin lo hi true target al true bias eps slack_eq slack_b = true ->
  forall al' slack', in_box n lo hi al' -> Qabs.Qabs (sumn n al' - target) <= slack' ->
  objv n K lin al' - objv n K lin al <=
  (eps + slack_b) * sumn n (fun a => hi a - lo a) + Qabs.Qabs bias * (slack_eq + slack').
Proof. exact certified_near_optimal_bias. Qed.
Print Assumptions C07_certified_near_optimal_bias.

Theorem C07_certified_results_agree : forall n K, Ksym K -> Kpsd n K ->
  forall lin lo hi eq target al1 hb1 b1 eps1 se1 sb1 al2 hb2 b2 eps2 se2 sb2,
  certify n K lin lo hi eq target al1 hb1 b1 eps1 se1 sb1 = true ->
  certify n K lin lo hi eq target al2 hb2 b2 eps2 se2 sb2 = true ->
  let S := sumn n (fun a => hi a - lo a) in
  let m1 := if eq then Qabs.Qabs (cert_mult n K lin lo hi al1) * (se1 + se2) else 0 in
  let m2 := if eq then Qabs.Qabs (cert_mult n K lin lo hi al2) * (se2 + se1) else 0 in
  objv n K lin al2 - objv n K lin al1 <= eps1 * S + m1 /\
  objv n K lin al1 - objv n K lin al2 <= eps2 * S + m2.
Proof. exact certified_results_agree. Qed.
Print Assumptions C07_certified_results_agree.

(* the psd hypothesis is discharged for the linear kernel on rational data, and for the eps-SVR
   block matrix of any psd matrix *)
Theorem C07_linear_kernel_gram_is_sym_psd : forall n d X, Ksym (gram d X) /\ Kpsd n (gram d X).
Proof. exact gram_sym_psd. Qed.
Print Assumptions C07_linear_kernel_gram_is_sym_psd.

Theorem C07_block_matrix_is_sym_psd : forall n K,
  Ksym K -> Kpsd n K -> Ksym (block2 n K) /\ Kpsd (n + n) (block2 n K).
Proof. exact block2_sym_psd. Qed.
Print Assumptions C07_block_matrix_is_sym_psd.

(* instance with every hypothesis discharged: linear kernel, certified result, every feasible point *)
Theorem C07_certified_linear_kernel_near_optimal : forall n d X lin lo hi eq target al hasbias bias eps slack_eq slack_b,
  certify n (gram d X) lin lo hi eq target al hasbias bias eps slack_eq slack_b = true ->
  forall al', in_box n lo hi al' -> (eq = true -> sumn n al' == target) ->
  objv n (gram d X) lin al' - objv n (gram d X) lin al <=
  eps * sumn n (fun a => hi a - lo a) +
  (if eq then Qabs.Qabs (cert_mult n (gram d X) lin lo hi al) * slack_eq else 0).
Proof.
  intros n d X lin lo hi eq target al hasbias bias eps slack_eq slack_b C al' B E.
  destruct (gram_sym_psd n d X) as [Hs Hp].
  pose proof (certified_near_optimal n (gram d X) Hs Hp _ _ _ _ _ _ _ _ _ _ _ C al' 0 B) as M.
  assert (E' : eq = true -> Qabs.Qabs (sumn n al' - target) <= 0).
  { intros T. rewrite (E T). setoid_replace (target - target) with 0 by ring. cbn. apply Qle_refl. }
  specialize (M E'). destruct eq; [|exact M].
  setoid_replace (slack_eq + 0) with slack_eq in M by ring. exact M.
Qed.
Print Assumptions C07_certified_linear_kernel_near_optimal.

(* satisfiability: a concrete 3-point problem (x = 1, 2, -1; labels +,+,-; linear kernel; C = 1;
   offset) whose optimum alpha = (1/2, 0, -1/2) certify accepts, and a non-optimal point it rejects;
   a concrete weighted dual-feasible point *)
Example C07_certify_accepts_3_point_problem :
  certify_qp (gram 1 ex_X) ex_p 0 ex_al true 0 (1 # 100) 0 0 = true.
Proof. exact certify_accepts_example. Qed.
Example C07_certify_rejects_non_optimal_point :
  certify_qp (gram 1 ex_X) ex_p 0 (fun i => if (i =? 0)%nat then 1 # 4 else if (i =? 1)%nat then 0 else - (1 # 4))
             true 0 (1 # 100) 0 0 = false.
Proof. exact certify_rejects_example. Qed.

(* ====================================================================================== *)
(* Extension: degenerate geometry — feasibility of the SMO step for every curvature       *)
(* ====================================================================================== *)

(* the step of the solver model (C08Model.smo_new, run next to the real solver by tools/c08.py) is smo_pair with the
   as-coded clamp std::max(denominator, 1.e-12), for every arithmetic (floats as well as Q) *)
Theorem C07_smo_model_step_is_smo_pair : forall (A : Type) (O : ops A) (K0 : nat -> nat -> A) (s : st A) (i j : nat),
  smo_new O K0 s i j =
  smo_pair O (clamp_coded O) (grad s i) (grad s j)
           (o_sub O (o_add O (diag K0 s i) (diag K0 s j)) (o_mul O (o_two O) (K K0 s i j)))
           (alpha s i) (alpha s j) (bmax s i) (bmin s j).
Proof. exact smo_new_is_smo_pair. Qed.
Print Assumptions C07_smo_model_step_is_smo_pair.

(* FOR EVERY curvature d (no sign condition, no positive semidefiniteness): the as-coded clipped step keeps both
   variables in their boxes and preserves their sum; the step length is >= 0 and does not overshoot *)
Theorem C07_smo_step_feasible_for_every_curvature :
  forall gi gj d ai aj Li Ui Lj Uj : Q,
  Li <= ai -> ai <= Ui -> Lj <= aj -> aj <= Uj -> gj <= gi ->
  forall ai' aj' t, smo_pair qops (clamp_coded qops) gi gj d ai aj Ui Lj = (ai', aj', t) ->
  (Li <= ai' /\ ai' <= Ui) /\ (Lj <= aj' /\ aj' <= Uj) /\ ai' + aj' == ai + aj /\
  0 <= t /\ ai' == ai + t /\ aj' == aj - t /\ t * d <= gi - gj.
Proof. exact smo_pair_feasible_every_curvature. Qed.
Print Assumptions C07_smo_step_feasible_for_every_curvature.

(* the same at state level for EVERY matrix K0: no symmetry, no positive semidefiniteness (corollary of the
   characterisation of the step behind C08_smo_step_keeps_invariants_and_objective, with K0 unconstrained) *)
Theorem C07_smo_step_feasible_for_every_matrix :
  forall (n : nat) (K0 : nat -> nat -> Q) (s : qst) (i j : nat),
  (i < n)%nat -> (j < n)%nat -> i <> j ->
  Inv_box n s -> Inv_flags n s -> grad s j <= grad s i ->
  let s' := svm_update qops K0 s i j in
  Inv_box n s' /\ Inv_flags n s' /\ sumn n (alpha s') == sumn n (alpha s) /\
  (forall a, a <> i -> a <> j -> alpha s' a = alpha s a) /\ lo s' = lo s /\ hi s' = hi s.
Proof. exact svm_update_feasible_every_matrix. Qed.
Print Assumptions C07_smo_step_feasible_for_every_matrix.

(* seeded change C07-7 (`if(denominator == 0.0) denominator = 1.e-12` instead of the clamp): g_i = 1, g_j = 0,
   curvature -1e-6, both variables at 0 in the boxes [0,1] and [-1,0]: the step is -1e6, both leave their boxes *)
Theorem C07_smo_step_zero_test_instead_of_clamp_refuted :
  exists gi gj d ai aj Li Ui Lj Uj : Q,
  d < 0 /\ Li <= ai /\ ai <= Ui /\ Lj <= aj /\ aj <= Uj /\ gj <= gi /\
  let '(ai', aj', _) := smo_pair qops (clamp_zero_only qops) gi gj d ai aj Ui Lj in
  ai' < Li /\ Uj < aj'.
Proof. exact smo_pair_zero_test_instead_of_clamp_refuted. Qed.
Print Assumptions C07_smo_step_zero_test_instead_of_clamp_refuted.

Theorem C07_smo_step_without_clamp_refuted :
  exists gi gj d ai aj Li Ui Lj Uj : Q,
  d < 0 /\ Li <= ai /\ ai <= Ui /\ Lj <= aj /\ aj <= Uj /\ gj <= gi /\
  let '(ai', aj', _) := smo_pair qops (no_clamp (A := Q)) gi gj d ai aj Ui Lj in
  ai' < Li /\ Uj < aj'.
Proof. exact smo_pair_without_clamp_refuted. Qed.
Print Assumptions C07_smo_step_without_clamp_refuted.

(* the universal statement with the clamp replaced by the zero test is false *)
Theorem C07_smo_step_feasible_without_clamp_refuted :
  ~ (forall gi gj d ai aj Li Ui Lj Uj : Q,
     Li <= ai -> ai <= Ui -> Lj <= aj -> aj <= Uj -> gj <= gi ->
     forall ai' aj' t, smo_pair qops (clamp_zero_only qops) gi gj d ai aj Ui Lj = (ai', aj', t) ->
     Li <= ai' /\ aj' <= Uj).
Proof. exact smo_pair_feasible_without_clamp_refuted. Qed.
Print Assumptions C07_smo_step_feasible_without_clamp_refuted.

(* the hypothesis g_i >= g_j cannot be dropped (clamp in place, curvature 1, g_i - g_j = -5) *)
Theorem C07_smo_step_needs_ordered_gradients_refuted :
  exists gi gj d ai aj Li Ui Lj Uj : Q,
  0 < d /\ Li <= ai /\ ai <= Ui /\ Lj <= aj /\ aj <= Uj /\ gi < gj /\
  let '(ai', aj', _) := smo_pair qops (clamp_coded qops) gi gj d ai aj Ui Lj in
  ai' < Li /\ Uj < aj'.
Proof. exact smo_pair_needs_ordered_gradients_refuted. Qed.
Print Assumptions C07_smo_step_needs_ordered_gradients_refuted.
