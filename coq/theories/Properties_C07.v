(* C07 — Trained support vector machines are optimal solutions of their dual problem.
   Only statements + `exact`; proofs in C07Proofs.v (on the solver model of C08Model.v, exact
   arithmetic).

   PROVED: the value the solver compares with the requested accuracy (checkKKT of both problem
   types, which is also what the selection strategies return) is the largest violation of the KKT
   system of the stated dual, `<= eps` is equivalent to the eps-KKT system with a multiplier of the
   equality constraint; the reported objective 1/2 (g+lin).alpha equals lin.alpha - 1/2 alpha K alpha
   whenever g = lin - K alpha; the bias returned by computeBias is an admissible multiplier
   (inside the interval the optimality conditions allow, up to eps); every feasible eps-KKT point
   of the equality-constrained dual is within eps * sum(U - L) of the optimum for symmetric
   positive semidefinite K — so two accepted solutions (any shrinking / caching / warm-start
   configuration) differ in objective by at most that bound.
   With C08 (invariants of every solver state) this gives the property for accepted terminal states
   of the model.  MONITORED on every run (tools/c07.py), not proved: that the real trainers' output
   satisfies box / equality / eps-KKT against an independently computed kernel matrix, bias interval,
   objective = recomputed, agreement across configurations; termination is not covered. *)
From Coq Require Import QArith List.
From SharkV Require Import C08Model C08Defs C08Aux C07Proofs.
Open Scope Q_scope.

Theorem C07_checkKKT_is_max_violation_svm : forall (s : qst),
  (forall a b, (a < active s)%nat -> (b < active s)%nat -> fu s a = false -> fl s b = false ->
     grad s a - grad s b <= check_kkt_svm qops s) /\
  ((exists a, (a < active s)%nat /\ fu s a = false) ->
   (exists b, (b < active s)%nat /\ fl s b = false) ->
   (forall a, (a < active s)%nat -> - qbig < grad s a /\ grad s a < qbig) ->
   (exists a b, (a < active s)%nat /\ (b < active s)%nat /\ fu s a = false /\ fl s b = false /\
                check_kkt_svm qops s == grad s a - grad s b) /\
   forall eps, (check_kkt_svm qops s <= eps <->
     exists b, forall a, (a < active s)%nat ->
       (fu s a = false -> grad s a <= b + eps) /\ (fl s a = false -> b <= grad s a))).
Proof.
  intros s. split.
  - intros a b. apply checkKKT_svm_is_max_violation.
  - intros H1 H2 H3. split.
    + apply checkKKT_svm_attained; assumption.
    + intros eps. apply checkKKT_svm_eps_multiplier; assumption.
Qed.
Print Assumptions C07_checkKKT_is_max_violation_svm.

Theorem C07_checkKKT_is_max_violation_box : forall (s : qst) (m : nat),
  let v := check_kkt_box_upto qops s m in
  0 <= v /\
  (forall a, (a < m)%nat -> deact s a = false ->
     (fu s a = false -> grad s a <= v) /\ (fl s a = false -> - grad s a <= v)) /\
  (v == 0 \/ exists a, (a < m)%nat /\ deact s a = false /\
     ((fu s a = false /\ v == grad s a) \/ (fl s a = false /\ v == - grad s a))).
Proof. exact checkKKT_box_is_max_violation. Qed.
Print Assumptions C07_checkKKT_is_max_violation_box.

Theorem C07_objective_formula : forall n K0 (s : qst),
  Inv_grad_all n K0 s ->
  (1 # 2) * sumn n (fun a => (grad s a + lin s a) * alpha s a) == obj n K0 s /\
  fval qops n s == obj n K0 s.
Proof. intros n K0 s H. split; [apply objective_formula | apply fval_is_objective]; assumption. Qed.
Print Assumptions C07_objective_formula.

Theorem C07_bias_in_interval : forall (s : qst) n eps,
  0 <= eps -> epsKKT s n eps ->
  ((0 < free_cnt s n)%nat \/
   ((forall a, (a < n)%nat -> deact s a = false) /\
    (forall a, (a < n)%nat -> - qbig < grad s a /\ grad s a < qbig))) ->
  forall a, (a < n)%nat ->
    (fu s a = false -> grad s a <= compute_bias s n + eps) /\
    (fl s a = false -> compute_bias s n - eps <= grad s a).
Proof. exact bias_in_interval. Qed.
Print Assumptions C07_bias_in_interval.

Theorem C07_eps_KKT_near_optimal : forall (n : nat) (K0 : nat -> nat -> Q),
  Ksym K0 ->
  (forall d : nat -> Q, 0 <= sumn n (fun a => d a * sumn n (fun b => K0 a b * d b))) ->
  forall (lin L U al al' : nat -> Q) eps,
  0 <= eps ->
  (forall a, (a < n)%nat -> L a <= al a /\ al a <= U a) ->
  (forall a, (a < n)%nat -> L a <= al' a /\ al' a <= U a) ->
  sumn n al == sumn n al' ->
  (forall a c, (a < n)%nat -> (c < n)%nat -> al a < U a -> L c < al c ->
               gradv n K0 lin al a - gradv n K0 lin al c <= eps) ->
  objv n K0 lin al' - objv n K0 lin al <= eps * sumn n (fun a => U a - L a).
Proof. exact eps_KKT_near_optimal. Qed.
Print Assumptions C07_eps_KKT_near_optimal.
