(* C19 — LibSVM export/import round trip of the model: importSparseData (as repaired in /repo) applied to the text
   written by exportSparseData returns, for every dataset of well-formed tokens with strictly increasing stored
   indices, the stored (index, value) lists of every element, the labels up to the normalisation as coded, the
   batch structure of LabeledData(numPoints, blueprint, batchSize), and as dimension the least d >= highestIndex
   that contains every stored index. *)
From Coq Require Import List Arith ZArith NArith Bool Lia.
From SharkV Require Import ListAux C03Model C03Proofs C19Model C19Proofs C19RoundTrip C19RoundTrip2.
Import ListNotations.
Local Open Scope N_scope.

(* rewriting modulo the abbreviation byte := N (terms elaborate to a mixture of both) *)
Ltac brw H := let X := fresh "X" in pose proof H as X; unfold byte in X |- *; rewrite X; clear X.

(* ---------- tokens as printed by operator<< (any of the %g / %e / %f shapes) ---------- *)
Definition tok_ok (v : num) : Prop :=
  match v with
  | NDec sg ip dot fp ex =>
    ip <> [] /\ digits ip /\ digits fp /\ (dot = false -> fp = []) /\
    match ex with
    | Some (es, ed) => ed <> [] /\ digits ed /\ in_int32 (signed es (digits_val ed)) = true
    | None => True
    end
  | _ => False
  end.

Definition blank_head (s : list byte) : Prop := match s with c :: _ => is_space c = true | [] => True end.

Lemma blank_nodigit s : blank_head s -> nodigit_head s.
Proof. destruct s as [|c r]; [auto|]. cbn. apply space_not_digit. Qed.

Lemma lex_exp_none s : match s with c :: _ => (c =? 101) = false /\ (c =? 69) = false | [] => True end -> lex_exp s = (None, s).
Proof. destruct s as [|c r]; [reflexivity|]. intros (A & B). unfold lex_exp. rewrite A, B. reflexivity. Qed.

Lemma lex_print_tok v rest : tok_ok v -> blank_head rest -> lex_double (print_num v ++ rest) = Some (v, rest).
Proof.
  destruct v as [sg ip dot fp ex| | |]; cbn [tok_ok]; try contradiction.
  intros (NE & Dip & Dfp & DF & EX) H.
  pose proof (blank_nodigit rest H) as ND.
  set (et := match ex with Some (es, ed) => 101 :: print_sign es ++ ed | None => [] end : list byte).
  assert (LE : lex_exp (et ++ rest) = (ex, rest)).
  { destruct ex as [[es ed]|]; subst et.
    - destruct EX as (NEe & Ded & R). cbn [app]. rewrite <- app_assoc. apply lex_exp_print; assumption.
    - cbn [app]. apply lex_exp_none. destruct rest as [|c r]; [exact I|]. cbn in H.
      destruct (space_not_dot c H) as (_ & A & B & _). split; assumption. }
  assert (NDe : nodigit_head (et ++ rest)).
  { destruct ex as [[es ed]|]; subst et; [reflexivity|exact ND]. }
  destruct dot.
  - assert (E : print_num (NDec sg ip true fp ex) ++ rest = print_sign sg ++ ip ++ 46 :: fp ++ et ++ rest).
    { unfold print_num. fold et. rewrite <- !app_assoc. reflexivity. }
    rewrite E. unfold lex_double. rewrite (lex_sign_digits sg ip _ NE Dip).
    rewrite (span_digits_app ip (46 :: fp ++ et ++ rest) Dip ltac:(reflexivity)).
    destruct ip as [|c0 ip']; [contradiction|].
    replace (46 =? 46) with true by reflexivity.
    rewrite (span_digits_app fp (et ++ rest) Dfp NDe). rewrite LE. reflexivity.
  - rewrite (DF eq_refl).
    assert (E : print_num (NDec sg ip false [] ex) ++ rest = print_sign sg ++ ip ++ et ++ rest).
    { unfold print_num. fold et. rewrite <- !app_assoc. reflexivity. }
    rewrite E. unfold lex_double. rewrite (lex_sign_digits sg ip _ NE Dip).
    rewrite (span_digits_app ip (et ++ rest) Dip NDe).
    destruct ip as [|c0 ip']; [contradiction|].
    destruct (et ++ rest) as [|c r] eqn:ER.
    + cbn in LE. injection LE as <- <-. reflexivity.
    + assert (C46 : (c =? 46) = false).
      { destruct ex as [[es ed]|]; subst et.
        - cbn in ER. injection ER as <- _. reflexivity.
        - cbn in ER. subst rest. cbn in H. apply (space_not_dot c H). }
      rewrite C46, LE. reflexivity.
Qed.

Lemma tok_ok_head v : tok_ok v -> exists c r, print_num v = c :: r /\ (is_digit c = true \/ c = 43 \/ c = 45).
Proof.
  destruct v as [sg ip dot fp ex| | |]; cbn [tok_ok]; try contradiction.
  intros (NE & Dip & _). destruct ip as [|c ip']; [contradiction|]. inversion Dip; subst.
  destruct sg as [[|]|]; cbn; eauto 6.
Qed.

(* sci_tok (the scientific shape of the CSV exporter) is one of these shapes *)
Lemma sci_tok_ok v : sci_tok v -> tok_ok v.
Proof.
  destruct v as [sg ip [|] fp [[es ed]|]| | |]; cbn [sci_tok tok_ok]; try contradiction.
  intros (A & B & C & D & E & F). repeat split; auto. discriminate.
Qed.

(* ---------- lines ---------- *)
Definition nonl (l : list byte) : Prop := Forall (fun c => (c =? 10) = false) l.

Lemma nonl_app a b : nonl a -> nonl b -> nonl (a ++ b).
Proof. intros A B. apply Forall_app. split; assumption. Qed.

Lemma digits_nonl ds : digits ds -> nonl ds.
Proof.
  intros D. eapply Forall_impl; [|exact D]. intros c Hc. cbn in Hc.
  unfold is_digit in Hc. apply andb_true_iff in Hc. destruct Hc as (H1 & H2). apply N.leb_le in H1, H2. apply N.eqb_neq. lia.
Qed.

Lemma print_sign_nonl sg : nonl (print_sign sg).
Proof. destruct sg as [[|]|]; repeat constructor. Qed.

Lemma print_num_nonl v : tok_ok v -> nonl (print_num v).
Proof.
  destruct v as [sg ip dot fp ex| | |]; cbn [tok_ok]; try contradiction.
  intros (NE & Dip & Dfp & DF & EX). unfold print_num.
  apply nonl_app; [apply print_sign_nonl|]. apply nonl_app; [apply digits_nonl; exact Dip|]. apply nonl_app.
  - destruct dot; [constructor; [reflexivity|apply digits_nonl; exact Dfp]|constructor].
  - destruct ex as [[es ed]|]; [|constructor]. destruct EX as (_ & Ded & _).
    constructor; [reflexivity|]. apply nonl_app; [apply print_sign_nonl|apply digits_nonl; exact Ded].
Qed.

Lemma print_nat_nonl n : nonl (print_nat n).
Proof. apply digits_nonl, print_nat_digits. Qed.

Lemma split_lines_line l : forall cur rest, nonl l -> split_lines cur (l ++ 10 :: rest) = (rev cur ++ l) :: split_lines [] rest.
Proof.
  induction l as [|c l IH]; intros cur rest H.
  - cbn [app split_lines]. replace (10 =? 10) with true by reflexivity. rewrite app_nil_r. reflexivity.
  - inversion H as [|? ? Hc Hl]; subst. cbn [app split_lines]. rewrite Hc. rewrite (IH (c :: cur) rest Hl).
    cbn [rev]. rewrite <- app_assoc. reflexivity.
Qed.

Section Lines.
Context {R R' : Type}.
Variable txt : R -> list byte.
Variable conv : R -> R'.
Variable good : R -> Prop.
Hypothesis NONL : forall r, good r -> nonl (txt r) /\ txt r <> [].

Lemma split_lines_export rows : Forall good rows -> split_lines [] (export_gen txt rows) = map txt rows.
Proof.
  induction rows as [|r rows IH]; intros G; [reflexivity|]. inversion G as [|? ? Gr Gs]; subst.
  rewrite export_gen_cons, (split_lines_line (txt r) [] _ (proj1 (NONL r Gr))). cbn [rev app map]. rewrite (IH Gs). reflexivity.
Qed.
End Lines.

(* ---------- one record ---------- *)
Definition entry_ok (p : N * num) : Prop := fst p + 1 <= 4294967295 /\ tok_ok (snd p).
Definition zentry (p : N * num) : Z * num := (Z.of_N (fst p + 1), snd p).        (* as read: one-based *)

Lemma skips_nonspace c r : is_space c = false -> skips (c :: r) = c :: r.
Proof. intros H. cbn [skips]. rewrite H. reflexivity. Qed.

Lemma skips_tokhead s : match s with [] => True | c :: _ => is_digit c = true \/ c = 43 \/ c = 45 end -> skips s = s.
Proof.
  destruct s as [|c r]; [reflexivity|]. intros H. apply skips_nonspace.
  destruct H as [H|[->| ->]]; [apply digit_not_space; exact H|reflexivity|reflexivity].
Qed.

Lemma skips_print_nat n rest : skips (print_nat n ++ rest) = print_nat n ++ rest.
Proof. destruct (print_nat_head n) as (c & r & E & Hc). rewrite E. cbn [app]. apply skips_nonspace, digit_not_space, Hc. Qed.

Lemma skips_tok v rest : tok_ok v -> skips (print_num v ++ rest) = print_num v ++ rest.
Proof. intros T. destruct (tok_ok_head v T) as (c & r & E & Hc). rewrite E. cbn [app]. apply skips_tokhead. exact Hc. Qed.

Definition entry_text (p : N * num) : list byte := 32 :: print_nat (fst p + 1) ++ 58 :: print_num (snd p).

Lemma svm_pair_entry p rest : entry_ok p -> blank_head rest -> svm_pair (entry_text p ++ rest) = Some (zentry p, rest).
Proof.
  destruct p as [i v]. intros (Hi & T) H. cbn [fst snd] in *. unfold entry_text, svm_pair. cbn [fst snd app].
  change (skips (32 :: (print_nat (i + 1) ++ 58 :: print_num v) ++ rest)) with (skips ((print_nat (i + 1) ++ 58 :: print_num v) ++ rest)).
  rewrite <- app_assoc. cbn [app]. brw (skips_print_nat (i + 1) (58 :: print_num v ++ rest)).
  brw (lex_uint_print (i + 1) (58 :: print_num v ++ rest) Hi eq_refl).
  brw (skips_nonspace 58 (print_num v ++ rest) eq_refl). replace (58 =? 58) with true by reflexivity.
  brw (skips_tok v rest T). brw (lex_print_tok v rest T H). reflexivity.
Qed.

Lemma svm_entries_cons p ps : svm_entries (p :: ps) = entry_text p ++ svm_entries ps.
Proof. reflexivity. Qed.

Lemma svm_entries_blank ps : blank_head (svm_entries ps).
Proof. destruct ps; [exact I|reflexivity]. Qed.

Lemma svm_entries_length ps : (length ps <= length (svm_entries ps))%nat.
Proof. induction ps as [|p ps IH]; [cbn; lia|]. rewrite svm_entries_cons, app_length. unfold entry_text. cbn [length]. lia. Qed.

Lemma svm_pairs_entries ps : forall fuel, (length ps < fuel)%nat -> Forall entry_ok ps ->
  svm_pairs fuel (svm_entries ps) = (map zentry ps, []).
Proof.
  induction ps as [|p ps IH]; intros fuel Hf F; (destruct fuel as [|f]; [cbn in Hf; lia|]).
  - reflexivity.
  - inversion F as [|? ? Fp Fs]; subst. rewrite svm_entries_cons. cbn [svm_pairs].
    rewrite (svm_pair_entry p _ Fp (svm_entries_blank ps)). rewrite (IH f ltac:(cbn in Hf; lia) Fs). reflexivity.
Qed.

(* one more blank in front (classification lines) *)
Lemma svm_pairs_blank ps fuel : (length ps < fuel)%nat -> Forall entry_ok ps ->
  exists t, svm_pairs fuel (32 :: svm_entries ps) = (map zentry ps, t) /\ skips t = [].
Proof.
  intros Hf F. destruct fuel as [|f]; [lia|]. destruct ps as [|p ps].
  - exists [32]. split; reflexivity.
  - exists []. split; [|reflexivity]. inversion F as [|? ? Fp Fs]; subst.
    pose proof (svm_pairs_entries (p :: ps) (S f) Hf F) as E. rewrite svm_entries_cons in E |- *.
    cbn [svm_pairs] in E |- *.
    change (svm_pair (32 :: entry_text p ++ svm_entries ps)) with (svm_pair (entry_text p ++ svm_entries ps)).
    rewrite (svm_pair_entry p _ Fp (svm_entries_blank ps)) in E |- *. exact E.
Qed.

Definition elem_ok (ps : list (N * num)) : Prop :=
  increasing_from (-1) (map (fun p => Z.of_N (fst p)) ps) = true /\ Forall entry_ok ps.

(* regression line *)
Lemma svm_line_reg r : tok_ok (fst r) -> Forall entry_ok (snd r) ->
  svm_line (svm_reg_line r) = Some (fst r, map zentry (snd r)).
Proof.
  destruct r as [l ps]. cbn [fst snd]. intros T F. unfold svm_line, svm_reg_line. cbn [fst snd].
  brw (skips_tok l (svm_entries ps) T). brw (lex_print_tok l _ T (svm_entries_blank ps)).
  assert (Hf : (length ps < S (length (svm_entries ps)))%nat) by (pose proof (svm_entries_length ps); lia).
  brw (svm_pairs_entries ps _ Hf F). reflexivity.
Qed.

(* integers as tokens *)
Definition int_tok (z : Z) : num := NDec (if (z <? 0)%Z then Some true else None) (print_nat (Z.abs_N z)) false [] None.

Lemma print_int_tok z : print_int z = print_num (int_tok z).
Proof. destruct z; cbn [print_int int_tok print_num Z.ltb Z.compare print_sign Z.abs_N Z.to_N app]; rewrite ?app_nil_r; reflexivity. Qed.

Lemma int_tok_ok z : tok_ok (int_tok z).
Proof.
  unfold int_tok. cbn [tok_ok]. split; [apply print_nat_nonempty|]. split; [apply print_nat_digits|].
  split; [constructor|]. split; [reflexivity|exact I].
Qed.

Lemma svm_line_cls binary r : Forall entry_ok (snd r) ->
  svm_line (svm_cls_line binary r) = Some (int_tok (svm_out_label binary (fst r)), map zentry (snd r)).
Proof.
  destruct r as [l ps]. cbn [fst snd]. intros F. unfold svm_line, svm_cls_line. cbn [fst snd].
  rewrite print_int_tok. set (v := int_tok (svm_out_label binary l)).
  brw (skips_tok v (32 :: svm_entries ps) (int_tok_ok _)). brw (lex_print_tok v (32 :: svm_entries ps) (int_tok_ok _) eq_refl).
  assert (Hf : Nat.lt (length ps) (S (length (32 :: svm_entries ps)))) by (pose proof (svm_entries_length ps); cbn [length]; unfold byte in *; lia).
  destruct (svm_pairs_blank ps _ Hf F) as (t & Et & St).
  brw Et. brw St. reflexivity.
Qed.

Lemma svm_entries_nonl ps : Forall entry_ok ps -> nonl (svm_entries ps).
Proof.
  induction ps as [|p ps IH]; intros F; [constructor|]. inversion F as [|? ? (_ & T) Fs]; subst.
  rewrite svm_entries_cons. apply nonl_app; [|apply IH; exact Fs]. unfold entry_text.
  constructor; [reflexivity|]. apply nonl_app; [apply print_nat_nonl|]. constructor; [reflexivity|apply print_num_nonl; exact T].
Qed.

Lemma svm_lines_map {R} (txt : R -> list byte) (conv : R -> num * list (Z * num)) rows :
  (forall r, In r rows -> txt r <> [] /\ svm_line (txt r) = Some (conv r)) ->
  svm_lines (map txt rows) = Some (map conv rows).
Proof.
  induction rows as [|r rows IH]; intros H; [reflexivity|]. cbn [map svm_lines].
  destruct (H r ltac:(left; reflexivity)) as (NE & E). destruct (txt r) as [|c t] eqn:Et; [contradiction|].
  rewrite E, IH; [reflexivity|]. intros r' Hr'. apply H. right. exact Hr'.
Qed.

Definition reg_ok (r : num * list (N * num)) : Prop := tok_ok (fst r) /\ elem_ok (snd r).
Definition cls_ok (r : N * list (N * num)) : Prop := fst r <= 2147483646 /\ elem_ok (snd r).

Lemma app_head_nonempty (a b : list byte) : a <> [] -> a ++ b <> [].
Proof. destruct a; [contradiction|discriminate]. Qed.

Theorem read_svm_export_reg rows : Forall reg_ok rows ->
  read_svm (export_svm_reg rows) = Some (map (fun r => (fst r, map zentry (snd r))) rows).
Proof.
  intros G. unfold read_svm. change (export_svm_reg rows) with (export_gen svm_reg_line rows).
  rewrite (split_lines_export svm_reg_line reg_ok).
  - apply svm_lines_map. intros r Hr. rewrite Forall_forall in G. destruct (G r Hr) as (T & _ & F). split.
    + unfold svm_reg_line. apply app_head_nonempty. destruct (tok_ok_head _ T) as (c & t & E & _). rewrite E. discriminate.
    + apply svm_line_reg; assumption.
  - intros r (T & _ & F). split.
    + unfold svm_reg_line. apply nonl_app; [apply print_num_nonl; exact T|apply svm_entries_nonl; exact F].
    + unfold svm_reg_line. apply app_head_nonempty. destruct (tok_ok_head _ T) as (c & t & E & _). rewrite E. discriminate.
  - exact G.
Qed.

Theorem read_svm_export_cls rows : Forall cls_ok rows ->
  read_svm (export_svm_cls rows) =
  Some (map (fun r => (int_tok (svm_out_label (n_classes (map fst rows) =? 2) (fst r)), map zentry (snd r))) rows).
Proof.
  intros G. unfold read_svm. set (binary := n_classes (map fst rows) =? 2).
  change (export_svm_cls rows) with (export_gen (svm_cls_line binary) rows).
  assert (NEl : forall r, svm_cls_line binary r <> []).
  { intros r. unfold svm_cls_line. apply app_head_nonempty. rewrite print_int_tok.
    destruct (tok_ok_head _ (int_tok_ok (svm_out_label binary (fst r)))) as (c & t & E & _). rewrite E. discriminate. }
  rewrite (split_lines_export (svm_cls_line binary) cls_ok).
  - apply svm_lines_map. intros r Hr. rewrite Forall_forall in G. destruct (G r Hr) as (_ & _ & F). split; [apply NEl|].
    apply svm_line_cls. exact F.
  - intros r (_ & _ & F). split; [|apply NEl].
    unfold svm_cls_line. rewrite print_int_tok. apply nonl_app; [apply print_num_nonl, int_tok_ok|].
    constructor; [reflexivity|apply svm_entries_nonl; exact F].
  - exact G.
Qed.

(* ---------- the class label: static_cast<int>(double) of an integer token ---------- *)
Lemma strip_lead0_spec l :
  exists k, l = repeat 48 k ++ strip_lead0 l /\ length l = (k + length (strip_lead0 l))%nat /\
            match strip_lead0 l with c :: _ => (c =? 48) = false | [] => True end.
Proof.
  induction l as [|c l IH].
  - exists 0%nat. repeat split.
  - cbn [strip_lead0]. destruct (c =? 48) eqn:E.
    + apply N.eqb_eq in E. subst c. destruct IH as (k & E1 & E2 & E3). exists (S k).
      split; [cbn [repeat app]; f_equal; exact E1|]. split; [cbn [length]; lia|exact E3].
    + exists 0%nat. repeat split. exact E.
Qed.

Lemma repeat_snoc {A} (x : A) k : repeat x k ++ [x] = x :: repeat x k.
Proof. induction k; cbn; [reflexivity|]. rewrite IHk. reflexivity. Qed.

Lemma rev_repeat' {A} (x : A) k : rev (repeat x k) = repeat x k.
Proof. induction k; cbn [repeat rev]; [reflexivity|]. rewrite IHk. apply repeat_snoc. Qed.

Lemma dv_zeros k : forall x, fold_left dstep (repeat 48 k) x = (x * 10 ^ Z.of_nat k)%Z.
Proof.
  induction k as [|k IH]; intros x.
  - cbn. lia.
  - cbn [repeat fold_left]. rewrite IH. unfold dstep. change (Z.of_N 48 - 48)%Z with 0%Z.
    rewrite Nat2Z.inj_succ, Z.pow_succ_r by lia. lia.
Qed.

Lemma dv_app_zeros a k : digits_val (a ++ repeat 48 k) = (digits_val a * 10 ^ Z.of_nat k)%Z.
Proof. change (digits_val (a ++ repeat 48 k)) with (fold_left dstep (a ++ repeat 48 k) 0%Z). rewrite fold_left_app. apply dv_zeros. Qed.

Lemma dv_lead_zeros k a : digits_val (repeat 48 k ++ a) = digits_val a.
Proof.
  change (digits_val (repeat 48 k ++ a)) with (fold_left dstep (repeat 48 k ++ a) 0%Z). rewrite fold_left_app, dv_zeros. reflexivity.
Qed.

Lemma digit_range c : is_digit c = true -> (0 <= Z.of_N c - 48 <= 9)%Z.
Proof. unfold is_digit. intros H. apply andb_true_iff in H. destruct H as (H1 & H2). apply N.leb_le in H1, H2. lia. Qed.

Lemma dv_lower ds : digits ds -> forall x, (0 <= x)%Z -> (x * 10 ^ Z.of_nat (length ds) <= fold_left dstep ds x)%Z.
Proof.
  induction 1 as [|c ds Hc D IH]; intros x Hx.
  - cbn. lia.
  - cbn [fold_left length]. pose proof (digit_range c Hc) as R.
    specialize (IH (dstep x c) ltac:(unfold dstep; lia)).
    rewrite Nat2Z.inj_succ, Z.pow_succ_r by lia.
    assert (0 <= 10 ^ Z.of_nat (length ds))%Z by (apply Z.pow_nonneg; lia).
    unfold dstep in *. nia.
Qed.

Lemma dv_nonneg ds : digits ds -> (0 <= digits_val ds)%Z.
Proof.
  intros D. pose proof (dv_lower ds D 0%Z ltac:(lia)) as H. change (digits_val ds) with (fold_left dstep ds 0%Z). lia.
Qed.

Lemma dv_lower_head c ds : digits (c :: ds) -> (c =? 48) = false -> (10 ^ Z.of_nat (length ds) <= digits_val (c :: ds))%Z.
Proof.
  intros D NZ. inversion D as [|? ? Hc Dd]; subst. change (digits_val (c :: ds)) with (fold_left dstep ds (dstep 0 c)).
  pose proof (digit_range c Hc) as R. apply N.eqb_neq in NZ.
  assert (1 <= dstep 0 c)%Z by (unfold dstep; lia).
  pose proof (dv_lower ds Dd (dstep 0 c) ltac:(lia)) as L.
  assert (0 <= 10 ^ Z.of_nat (length ds))%Z by (apply Z.pow_nonneg; lia). nia.
Qed.

Lemma digits_rev ds : digits ds -> digits (rev ds).
Proof. intros D. apply Forall_rev. exact D. Qed.

Lemma digits_app_inv a b : digits (a ++ b) -> digits a /\ digits b.
Proof. intros D. apply Forall_app in D. exact D. Qed.

Lemma num_int32_int sg ds : ds <> [] -> digits ds -> in_int32 (signed sg (digits_val ds)) = true ->
  num_int32 (NDec sg ds false [] None) = Some (signed sg (digits_val ds)).
Proof.
  intros NE D R. unfold num_int32. rewrite app_nil_r. cbn [length].
  destruct (strip_lead0_spec (rev ds)) as (k & E1 & E2 & E3).
  set (mrev := strip_lead0 (rev ds)) in *.
  assert (Eds : ds = rev mrev ++ repeat 48 k).
  { rewrite <- (rev_involutive ds), E1, rev_app_distr, rev_repeat'. reflexivity. }
  assert (Lk : (length ds - length mrev)%nat = k) by (rewrite rev_length in E2; lia).
  rewrite Lk. set (mant := digits_val (rev mrev)).
  assert (Ev : digits_val ds = (mant * 10 ^ Z.of_nat k)%Z) by (rewrite Eds at 1; apply dv_app_zeros).
  assert (Dm : digits (rev mrev)).
  { rewrite Eds in D. apply digits_app_inv in D. apply D. }
  assert (Hm : (0 <= mant)%Z) by (apply dv_nonneg; exact Dm).
  replace (0 - Z.of_nat 0 + Z.of_nat k)%Z with (Z.of_nat k) by lia.
  destruct (Z.eqb_spec mant 0) as [M0|M0].
  { rewrite Ev, M0. destruct sg as [[|]|]; reflexivity. }
  destruct (Z.ltb_spec (Z.of_nat k) 0) as [|_]; [lia|].
  destruct (strip_lead0_spec (rev mrev)) as (j & F1 & F2 & F3).
  set (m2 := strip_lead0 (rev mrev)) in *.
  assert (Em : mant = digits_val m2) by (unfold mant; rewrite F1 at 1; apply dv_lead_zeros).
  assert (Dm2 : digits m2).
  { rewrite F1 in Dm. apply digits_app_inv in Dm. apply Dm. }
  destruct m2 as [|c m2'] eqn:EM2.
  { exfalso. apply M0. rewrite Em. reflexivity. }
  pose proof (dv_lower_head c m2' Dm2 F3) as LB. rewrite <- Em in LB.
  assert (UB : (digits_val ds <= 2147483648)%Z).
  { unfold in_int32 in R. apply andb_true_iff in R. destruct R as (R1 & R2). apply Z.leb_le in R1, R2.
    destruct sg as [[|]|]; cbn [signed] in R1, R2; lia. }
  assert (LenB : (Z.of_nat (length (c :: m2')) + Z.of_nat k <= 10)%Z).
  { destruct (Z_le_gt_dec (Z.of_nat (length (c :: m2')) + Z.of_nat k) 10) as [|G]; [assumption|exfalso].
    cbn [length] in G. rewrite Nat2Z.inj_succ in G.
    assert (P : (10 ^ 10 <= 10 ^ (Z.of_nat (length m2') + Z.of_nat k))%Z) by (apply Z.pow_le_mono_r; lia).
    rewrite Z.pow_add_r in P by lia.
    assert (0 <= 10 ^ Z.of_nat k)%Z by (apply Z.pow_nonneg; lia).
    assert (0 <= 10 ^ Z.of_nat (length m2'))%Z by (apply Z.pow_nonneg; lia).
    change (10 ^ 10)%Z with 10000000000%Z in P. nia. }
  destruct (Z.ltb_spec 10 (Z.of_nat (length (c :: m2')) + Z.of_nat k)) as [|_]; [lia|].
  rewrite <- Ev, R. reflexivity.
Qed.

Lemma num_int32_int_tok z : in_int32 z = true -> num_int32 (int_tok z) = Some z.
Proof.
  intros R. unfold int_tok.
  assert (V : signed (if (z <? 0)%Z then Some true else None) (digits_val (print_nat (Z.abs_N z))) = z).
  { rewrite print_nat_val, N2Z.inj_abs_N. destruct (Z.ltb_spec z 0); cbn [signed]; lia. }
  rewrite num_int32_int; [rewrite V; reflexivity|apply print_nat_nonempty|apply print_nat_digits|rewrite V; exact R].
Qed.

(* ---------- post-parse stage on exported records ---------- *)
Lemma fold_dim_in pts : forall a, fold_left dim_step pts a = a \/
  exists ps, In ps pts /\ ps <> [] /\ fold_left dim_step pts a = last_index ps.
Proof.
  induction pts as [|qs pts IH]; intros a; cbn [fold_left]; [left; reflexivity|].
  destruct (IH (dim_step a qs)) as [E|(ps & I & NE & E)].
  - rewrite E. unfold dim_step. destruct qs as [|q qs']; [left; reflexivity|].
    destruct (Z.max_spec a (last_index (q :: qs'))) as [(_ & ->)|(_ & ->)]; [|left; reflexivity].
    right. exists (q :: qs'). split; [left; reflexivity|]. split; [discriminate|reflexivity].
  - right. exists ps. split; [right; exact I|]. split; [exact NE|exact E].
Qed.

Lemma last_index_in ps : ps <> [] -> exists x, In (last_index ps, x) ps.
Proof.
  intros NE. unfold last_index. destruct (rev ps) as [|[i x] t] eqn:E.
  - exfalso. apply NE. rewrite <- (rev_involutive ps), E. reflexivity.
  - exists x. apply in_rev. rewrite E. left. reflexivity.
Qed.

Lemma existsb_false {A} (f : A -> bool) l : (forall x, In x l -> f x = false) -> existsb f l = false.
Proof. intros H. induction l as [|x l IH]; [reflexivity|]. cbn. rewrite (H x ltac:(left; reflexivity)), IH; [reflexivity|]. intros y Hy. apply H. right. exact Hy. Qed.

(* the records as read from an exported file: one-based indices, strictly increasing *)
Definition pts_of (els : list (list (N * num))) : list (list (Z * num)) := map (map zentry) els.

Lemma zentry_sorted ps : elem_ok ps -> sorted_indices (map zentry ps) = true.
Proof.
  intros (S & _). unfold sorted_indices. rewrite map_map. cbn [zentry fst].
  replace (map (fun x : N * num => Z.of_N (fst x + 1)) ps) with (map (fun i => (i - (-1))%Z) (map (fun p => Z.of_N (fst p)) ps)).
  2:{ rewrite map_map. apply map_ext. intros p. lia. }
  apply (incr_shift (-1) (-1) (-1) _ S). intros i Hi. pose proof (incr_from_gt _ _ S i Hi). lia.
Qed.

Lemma zentry_nozero ps : first_is_zero (map zentry ps) = false.
Proof. destruct ps as [|[i v] ps]; [reflexivity|]. cbn. apply Z.eqb_neq. lia. Qed.

Lemma shift_zentry ps : shift 1 (map zentry ps) = map (fun p => (Z.of_N (fst p), snd p)) ps.
Proof. unfold shift. rewrite map_map. apply map_ext. intros [i v]. cbn. f_equal. lia. Qed.

Definition zelem (ps : list (N * num)) : sparse := map (fun p => (Z.of_N (fst p), snd p)) ps.

(* the dimension the importer infers: the least d >= highestIndex containing every stored index *)
Definition dim_spec (hi : Z) (els : list (list (N * num))) (d : Z) : Prop :=
  (hi <= d)%Z /\
  (forall ps i x, In ps els -> In (i, x) ps -> (Z.of_N i < d)%Z) /\
  (d = hi \/ exists ps i x, In ps els /\ In (i, x) ps /\ d = (Z.of_N i + 1)%Z).

Lemma svm_build_export {L} compressed hi bsz (labels : list L) els on_empty :
  els <> [] -> length labels = length els -> Forall elem_ok els -> (0 <= hi)%Z ->
  (hi = 0%Z \/ forall ps i x, In ps els -> In (i, x) ps -> (Z.of_N i + 1 <= hi)%Z) ->
  exists d, svm_build compressed hi bsz labels (pts_of els) on_empty =
              Ok (mkDs (chunk (init_sizes (length els) bsz) (combine labels (map zelem els))) d) /\
            dim_spec hi els d.
Proof.
  intros NE LEN G Hhi HI. unfold svm_build. destruct (svm_dims_coded hi (pts_of els)) as [mx hz] eqn:D.
  assert (SO : forallb sorted_indices (pts_of els) = true).
  { apply forallb_forall. intros ps Hps. unfold pts_of in Hps. apply in_map_iff in Hps. destruct Hps as (e & <- & He).
    rewrite Forall_forall in G. apply zentry_sorted. apply G. exact He. }
  assert (HZ : hz = false).
  { unfold svm_dims_coded in D. injection D as _ <-. apply existsb_false. intros ps Hps.
    unfold pts_of in Hps. apply in_map_iff in Hps. destruct Hps as (e & <- & _). apply zentry_nozero. }
  subst hz.
  (* the inferred dimension *)
  assert (DS : dim_spec hi els mx).
  { destruct (svm_dims_spec _ _ _ _ D) as (UB & _).
    unfold svm_dims_coded in D. fold dim_step in D. injection D as D.
    split; [lia|]. split.
    - intros e i x He Hi. set (ps := map zentry e).
      assert (Ips : In ps (pts_of els)) by (unfold pts_of; apply in_map; exact He).
      assert (NEp : ps <> []) by (unfold ps; destruct e; [contradiction|discriminate]).
      specialize (UB ps Ips NEp).
      rewrite forallb_forall in SO. pose proof (SO ps Ips) as Sps. unfold sorted_indices in Sps.
      assert (Hj : In (Z.of_N (i + 1)) (map fst ps)).
      { unfold ps. rewrite map_map. apply in_map_iff. exists (i, x). split; [reflexivity|exact Hi]. }
      pose proof (sorted_le_last _ _ Sps _ Hj). lia.
    - destruct (fold_dim_in (pts_of els) 0%Z) as [E|(ps & Ips & NEp & E)].
      + left. lia.
      + destruct (Z.max_spec (fold_left dim_step (pts_of els) 0%Z) hi) as [(_ & M)|(_ & M)]; [left; lia|].
        right. unfold pts_of in Ips. apply in_map_iff in Ips. destruct Ips as (e & <- & He).
        destruct (last_index_in (map zentry e) NEp) as (x & Hx). apply in_map_iff in Hx. destruct Hx as ([i v] & Ez & Hi).
        exists e, i, v. split; [exact He|]. split; [exact Hi|]. unfold zentry in Ez. cbn [fst snd] in Ez. injection Ez as Ez _.
        assert (Ez' : Z.of_N (i + 1) = last_index (map zentry e)) by exact Ez. lia. }
  assert (CHK : negb (hi =? 0)%Z && (hi <? mx)%Z = false).
  { destruct HI as [->|HI]; [reflexivity|]. destruct DS as (_ & _ & [->|(e & i & x & He & Hi & ->)]).
    - rewrite Z.ltb_irrefl. apply andb_false_r.
    - specialize (HI e i x He Hi). replace (hi <? Z.of_N i + 1)%Z with false by (symmetry; apply Z.ltb_ge; lia). apply andb_false_r. }
  rewrite CHK. unfold pts_of at 1. destruct (map (map zentry) els) as [|p0 pr] eqn:EP.
  { destruct els; [contradiction|discriminate]. }
  assert (PO : forallb (positions_ok compressed (mx + 0) 1) (pts_of els) = true).
  { apply forallb_forall. intros ps Hps. rewrite forallb_forall in SO.
    destruct (sorted_positions hi (pts_of els) mx false ps D Hps (SO ps Hps)) as (A & B).
    apply positions_ok_of_wf; assumption. }
  rewrite PO. exists (mx + 0)%Z. split.
  - unfold pts_of. rewrite map_length, map_map. do 4 f_equal. apply map_ext. intros e. apply shift_zentry.
  - rewrite Z.add_0_r. exact DS.
Qed.

Lemma init_sizes_chunk {A} n b (l : list A) : length l = n -> (1 <= n)%nat ->
  map (@length A) (chunk (init_sizes n b) l) = init_sizes n b /\ concat (chunk (init_sizes n b) l) = l.
Proof.
  intros L Hn. destruct (init_sizes_spec n b Hn) as (S1 & _). split.
  - apply (chunk_sizes (init_sizes n b) l). lia.
  - apply (chunk_elems_all (init_sizes n b) l). lia.
Qed.

Lemma nonempty_length {A} (l : list A) : l <> [] -> (1 <= length l)%nat.
Proof. destruct l; [contradiction|cbn; lia]. Qed.

(* ---------- regression ---------- *)
Theorem svm_reg_roundtrip compressed hi bsz rows :
  rows <> [] -> Forall reg_ok rows -> (0 <= hi)%Z ->
  (hi = 0%Z \/ forall r i x, In r rows -> In (i, x) (snd r) -> (Z.of_N i + 1 <= hi)%Z) ->
  exists ds, svm_import_reg compressed hi bsz (export_svm_reg rows) = Ok ds /\
    ds_elems ds = map (fun r => (fst r, zelem (snd r))) rows /\
    map (@length _) (ds_batches ds) = init_sizes (length rows) bsz /\
    dim_spec hi (map snd rows) (ds_dim ds).
Proof.
  intros NE G Hhi HI. unfold svm_import_reg. rewrite (read_svm_export_reg rows G). cbn [lift].
  set (recs := map (fun r : num * list (N * num) => (fst r, map zentry (snd r))) rows).
  assert (MS : map snd recs = pts_of (map snd rows)) by (unfold recs, pts_of; rewrite !map_map; reflexivity).
  assert (MF : map fst recs = map fst rows) by (unfold recs; rewrite map_map; reflexivity).
  assert (GE : Forall elem_ok (map snd rows)).
  { apply Forall_forall. intros e He. apply in_map_iff in He. destruct He as (r & <- & Hr). rewrite Forall_forall in G. apply (G r Hr). }
  assert (SO : forallb sorted_indices (map snd recs) = true).
  { rewrite MS. apply forallb_forall. intros ps Hps. unfold pts_of in Hps. apply in_map_iff in Hps. destruct Hps as (e & <- & He).
    rewrite Forall_forall in GE. apply zentry_sorted. apply GE. exact He. }
  unfold post_svm_reg. rewrite SO. cbn [negb].
  destruct recs as [|r0 rr] eqn:ER. { destruct rows; [contradiction|discriminate]. }
  rewrite <- ER in *. unfold post_svm_reg_coded. rewrite MS, MF.
  destruct (svm_build_export compressed hi bsz (map fst rows) (map snd rows) (Ok (mkDs [[]] (fst (svm_dims_coded hi [])))))
    as (d & E & DS); [destruct rows; [contradiction|discriminate]|rewrite !map_length; reflexivity|exact GE|exact Hhi| |].
  { destruct HI as [H0|HI]; [left; exact H0|right]. intros ps i x Hps Hi. apply in_map_iff in Hps. destruct Hps as (r & <- & Hr). apply (HI r i x Hr Hi). }
  rewrite E. eexists. split; [reflexivity|]. unfold ds_elems. cbn [ds_batches ds_dim].
  rewrite map_length.
  destruct (init_sizes_chunk (length rows) bsz (combine (map fst rows) (map zelem (map snd rows)))) as (A & B).
  { rewrite combine_length, !map_length. lia. }
  { apply nonempty_length. exact NE. }
  rewrite A, B. split; [|split; [reflexivity|exact DS]].
  rewrite map_map. apply (combine_map_map fst (fun r => zelem (snd r)) rows).
Qed.

(* ---------- classification: labels ---------- *)
Lemma min_label_nonneg (ls : list Z) : ls <> [] -> (forall l, In l ls -> (0 <= l <= 2147483647)%Z) ->
  In (min_label ls) ls /\ forall l, In l ls -> (min_label ls <= l)%Z.
Proof.
  intros NE B.
  assert (LE : forall l, In l ls -> (min_label ls <= l)%Z).
  { intros l Hl. apply (min_label_le ls 2147483647%Z l Hl). specialize (B l Hl). lia. }
  split; [|exact LE].
  destruct (fold_min_in ls 2147483647%Z) as [E|I]; [|exact I].
  destruct ls as [|l0 ls']; [contradiction|].
  pose proof (LE l0 ltac:(left; reflexivity)) as L0. pose proof (B l0 ltac:(left; reflexivity)) as B0.
  assert (EM : min_label (l0 :: ls') = 2147483647%Z) by exact E.
  assert (l0 = min_label (l0 :: ls')) by lia. rewrite <- H. left. reflexivity.
Qed.

Lemma norm_labels_mono (f : N -> Z) nl : nl <> [] -> (forall l, In l nl -> (0 <= f l <= 2147483647)%Z) ->
  (forall a b, In a nl -> In b nl -> (f a <= f b)%Z -> a <= b) ->
  exists mn, In mn nl /\ (forall l, In l nl -> mn <= l) /\ norm_labels (map f nl) = map (fun l => (f l - f mn)%Z) nl.
Proof.
  intros NE B MONO.
  destruct (min_label_nonneg (map f nl)) as (I & L).
  { destruct nl; [contradiction|discriminate]. }
  { intros z Hz. apply in_map_iff in Hz. destruct Hz as (l & <- & Hl). apply B. exact Hl. }
  apply in_map_iff in I. destruct I as (mn & Emn & Hmn). exists mn. split; [exact Hmn|]. split.
  - intros l Hl. apply (MONO mn l Hmn Hl). rewrite Emn. apply L. apply in_map. exact Hl.
  - unfold norm_labels. rewrite has_minus1_nonneg.
    2:{ intros z Hz. apply in_map_iff in Hz. destruct Hz as (l & <- & Hl). apply B. exact Hl. }
    rewrite map_map, <- Emn. reflexivity.
Qed.

Lemma fold_nmax_init ls : forall a, a <= fold_left N.max ls a.
Proof. induction ls as [|x ls IH]; intros a; cbn [fold_left]; [lia|]. specialize (IH (N.max a x)). lia. Qed.

Lemma fold_nmax_ge ls : forall a l, In l ls -> l <= fold_left N.max ls a.
Proof.
  induction ls as [|x ls IH]; intros a l Hl; [contradiction|]. cbn [fold_left]. destruct Hl as [->|Hl]; [|apply IH; exact Hl].
  pose proof (fold_nmax_init ls (N.max a l)). lia.
Qed.

Lemma norm_exported nl : nl <> [] -> (forall l, In l nl -> l <= 2147483646) ->
  exists mn, In mn nl /\ (forall l, In l nl -> mn <= l) /\
    norm_labels (map (svm_out_label (n_classes nl =? 2)) nl) = map (fun l => (Z.of_N l - Z.of_N mn)%Z) nl.
Proof.
  intros NE B. destruct (n_classes nl =? 2) eqn:BIN.
  - (* two classes: labels 0/1 written as -1/+1 *)
    assert (B1 : forall l, In l nl -> l <= 1).
    { intros l Hl. apply N.eqb_eq in BIN. unfold n_classes in BIN. pose proof (fold_nmax_ge nl 0 l Hl). lia. }
    destruct (in_dec N.eq_dec 0 nl) as [I0|N0].
    + exists 0. split; [exact I0|]. split; [intros; lia|].
      unfold norm_labels.
      assert (HM : has_minus1 (map (svm_out_label true) nl) = true).
      { unfold has_minus1. apply existsb_exists. exists (-1)%Z. split; [|reflexivity].
        apply in_map_iff. exists 0. split; [reflexivity|exact I0]. }
      rewrite HM, map_map. apply map_ext_in. intros l Hl. specialize (B1 l Hl).
      assert (l = 0 \/ l = 1) as [->| ->] by lia; reflexivity.
    + destruct (norm_labels_mono (svm_out_label true) nl NE) as (mn & I & L & E).
      { intros l Hl. specialize (B1 l Hl). assert (l = 1) by (destruct (N.eq_dec l 0) as [->|]; [contradiction|lia]). subst l. cbn. lia. }
      { intros a b Ha Hb. unfold svm_out_label. lia. }
      exists mn. split; [exact I|]. split; [exact L|]. rewrite E. apply map_ext_in. intros l Hl.
      assert (l = 1) by (specialize (B1 l Hl); destruct (N.eq_dec l 0) as [->|]; [contradiction|lia]).
      assert (mn = 1) by (specialize (B1 mn I); destruct (N.eq_dec mn 0) as [->|]; [contradiction|lia]).
      subst l mn. reflexivity.
  - destruct (norm_labels_mono (svm_out_label false) nl NE) as (mn & I & L & E).
    { intros l Hl. specialize (B l Hl). unfold svm_out_label. lia. }
    { intros a b Ha Hb. unfold svm_out_label. lia. }
    exists mn. split; [exact I|]. split; [exact L|]. rewrite E. apply map_ext. intros l. unfold svm_out_label. lia.
Qed.

Lemma out_label_int32 nl l : (forall x, In x nl -> x <= 2147483646) -> In l nl ->
  in_int32 (svm_out_label (n_classes nl =? 2) l) = true /\ Z.leb (-1) (svm_out_label (n_classes nl =? 2) l) = true.
Proof.
  intros B Hl. specialize (B l Hl). destruct (n_classes nl =? 2) eqn:BIN.
  - assert (l <= 1).
    { apply N.eqb_eq in BIN. unfold n_classes in BIN. pose proof (fold_nmax_ge nl 0 l Hl). lia. }
    assert (l = 0 \/ l = 1) as [->| ->] by lia; split; reflexivity.
  - unfold svm_out_label, in_int32. split; [apply andb_true_iff; split|]; apply Z.leb_le; lia.
Qed.

Theorem svm_cls_roundtrip compressed hi bsz rows :
  rows <> [] -> Forall cls_ok rows -> (0 <= hi)%Z ->
  (hi = 0%Z \/ forall r i x, In r rows -> In (i, x) (snd r) -> (Z.of_N i + 1 <= hi)%Z) ->
  exists ds mn, svm_import_cls compressed hi bsz (export_svm_cls rows) = Ok ds /\
    In mn (map fst rows) /\ (forall l, In l (map fst rows) -> mn <= l) /\
    ds_elems ds = map (fun r => ((Z.of_N (fst r) - Z.of_N mn)%Z, zelem (snd r))) rows /\
    map (@length _) (ds_batches ds) = init_sizes (length rows) bsz /\
    dim_spec hi (map snd rows) (ds_dim ds).
Proof.
  intros NE G Hhi HI. unfold svm_import_cls. rewrite (read_svm_export_cls rows G). cbn [lift].
  set (nl := map fst rows). set (binary := n_classes nl =? 2).
  set (recs := map (fun r : N * list (N * num) => (int_tok (svm_out_label binary (fst r)), map zentry (snd r))) rows).
  assert (MS : map snd recs = pts_of (map snd rows)) by (unfold recs, pts_of; rewrite !map_map; reflexivity).
  assert (GE : Forall elem_ok (map snd rows)).
  { apply Forall_forall. intros e He. apply in_map_iff in He. destruct He as (r & <- & Hr). rewrite Forall_forall in G. apply (G r Hr). }
  assert (BL : forall x, In x nl -> x <= 2147483646).
  { intros x Hx. apply in_map_iff in Hx. destruct Hx as (r & <- & Hr). rewrite Forall_forall in G. apply (G r Hr). }
  assert (SO : forallb sorted_indices (map snd recs) = true).
  { rewrite MS. apply forallb_forall. intros ps Hps. unfold pts_of in Hps. apply in_map_iff in Hps. destruct Hps as (e & <- & He).
    rewrite Forall_forall in GE. apply zentry_sorted. apply GE. exact He. }
  assert (SL : svm_labels recs = Some (map (svm_out_label binary) nl)).
  { unfold svm_labels.
    assert (EQ : map (fun r => num_int32 (fst r)) recs = map (fun l => Some (svm_out_label binary l)) nl).
    { unfold recs, nl. rewrite !map_map. apply map_ext_in. intros r Hr. cbn [fst]. apply num_int32_int_tok.
      apply (out_label_int32 nl (fst r) BL). apply in_map. exact Hr. }
    rewrite EQ.
    replace (forallb _ (map (fun l => Some (svm_out_label binary l)) nl)) with true.
    - rewrite map_map. reflexivity.
    - symmetry. apply forallb_forall. intros o Ho. apply in_map_iff in Ho. destruct Ho as (l & <- & Hl).
      apply (out_label_int32 nl l BL Hl). }
  unfold post_svm_cls. rewrite SO. cbn [negb].
  destruct recs as [|r0 rr] eqn:ER. { destruct rows; [contradiction|discriminate]. }
  rewrite <- ER in *. unfold post_svm_cls_coded. rewrite SL, MS.
  destruct (norm_exported nl) as (mn & I & L & NL); [unfold nl; destruct rows; [contradiction|discriminate]|exact BL|].
  fold binary in NL. rewrite NL.
  destruct (svm_build_export compressed hi bsz (map (fun l => (Z.of_N l - Z.of_N mn)%Z) nl) (map snd rows) Fault)
    as (d & E & DS); [destruct rows; [contradiction|discriminate]|unfold nl; rewrite !map_length; reflexivity|exact GE|exact Hhi| |].
  { destruct HI as [H0|HI]; [left; exact H0|right]. intros ps i x Hps Hi. apply in_map_iff in Hps. destruct Hps as (r & <- & Hr). apply (HI r i x Hr Hi). }
  rewrite E. exists (mkDs (chunk (init_sizes (length (map snd rows)) bsz)
                       (combine (map (fun l => (Z.of_N l - Z.of_N mn)%Z) nl) (map zelem (map snd rows)))) d), mn.
  split; [reflexivity|]. split; [exact I|]. split; [exact L|]. unfold ds_elems. cbn [ds_batches ds_dim].
  rewrite map_length.
  destruct (init_sizes_chunk (length rows) bsz (combine (map (fun l => (Z.of_N l - Z.of_N mn)%Z) nl) (map zelem (map snd rows)))) as (A & B).
  { unfold nl. rewrite combine_length, !map_length. lia. }
  { apply nonempty_length. exact NE. }
  rewrite A, B. split; [|split; [reflexivity|exact DS]].
  unfold nl. rewrite !map_map. apply (combine_map_map (fun r => (Z.of_N (fst r) - Z.of_N mn)%Z) (fun r => zelem (snd r)) rows).
Qed.

Corollary svm_cls_roundtrip_labels compressed hi bsz rows :
  rows <> [] -> Forall cls_ok rows -> (0 <= hi)%Z ->
  (hi = 0%Z \/ forall r i x, In r rows -> In (i, x) (snd r) -> (Z.of_N i + 1 <= hi)%Z) ->
  exists ds, svm_import_cls compressed hi bsz (export_svm_cls rows) = Ok ds /\
    map snd (ds_elems ds) = map (fun r => zelem (snd r)) rows /\
    (map fst (ds_elems ds) = map (fun r => Z.of_N (fst r)) rows <-> In 0 (map fst rows)).
Proof.
  intros NE G Hhi HI. destruct (svm_cls_roundtrip compressed hi bsz rows NE G Hhi HI) as (ds & mn & E & I & L & EL & _).
  exists ds. split; [exact E|]. rewrite EL, !map_map. cbn [fst snd]. split; [reflexivity|]. split.
  - intros H. apply in_map_iff in I. destruct I as (r & Er & Hr).
    assert (X : (Z.of_N (fst r) - Z.of_N mn = Z.of_N (fst r))%Z) by (apply (map_eq_in _ _ rows r H Hr)).
    assert (M0 : mn = 0) by lia. rewrite M0 in Er. rewrite <- Er. apply in_map. exact Hr.
  - intros H0. assert (mn = 0) by (specialize (L 0 H0); lia). subst mn.
    apply map_ext. intros r. cbn. lia.
Qed.

(* what the format preserves of the dimension: a DENSE element stores all its components (zeros included), so the
   dimension comes back; a sparse element stores its non-zeros only, so trailing zero features are lost unless the
   reader is told the dimension (highestIndex) *)
Corollary dim_spec_dense els n d : els <> [] -> (1 <= n)%nat ->
  (forall e, In e els -> map fst e = map N.of_nat (seq 0 n)) -> dim_spec 0 els d -> d = Z.of_nat n.
Proof.
  intros NE Hn DENSE (_ & UB & AT). destruct els as [|e0 els']; [contradiction|].
  assert (IN : forall e i x, In e (e0 :: els') -> In (i, x) e -> (Z.of_N i < Z.of_nat n)%Z).
  { intros e i x He Hi. assert (Hf : In i (map fst e)) by (apply in_map_iff; exists (i, x); auto).
    rewrite (DENSE e He) in Hf. apply in_map_iff in Hf. destruct Hf as (k & <- & Hk). apply in_seq in Hk. lia. }
  assert (LAST : exists x, In (N.of_nat (n - 1), x) e0).
  { assert (Hf : In (N.of_nat (n - 1)) (map fst e0)).
    { rewrite (DENSE e0 ltac:(left; reflexivity)). apply in_map. apply in_seq. lia. }
    apply in_map_iff in Hf. destruct Hf as ([i x] & Ei & Hi). cbn in Ei. subst i. exists x. exact Hi. }
  destruct LAST as (x & Hx). pose proof (UB e0 _ x ltac:(left; reflexivity) Hx) as U.
  destruct AT as [->|(e & i & y & He & Hi & ->)]; [lia|]. specialize (IN e i y He Hi). lia.
Qed.

Corollary dim_spec_hi els hi d : (forall e i x, In e els -> In (i, x) e -> (Z.of_N i + 1 <= hi)%Z) -> dim_spec hi els d -> d = hi.
Proof. intros B (LO & _ & [->|(e & i & x & He & Hi & ->)]); [reflexivity|]. specialize (B e i x He Hi). lia. Qed.

(* the hypotheses are satisfiable; a sparse element of a 3-dimensional dataset with one stored entry comes back with
   dimension 1, and with dimension 3 when highestIndex = 3 is passed *)
Definition tok_0_25 : num := NDec None [48] true [50;53] None.              (* 0.25 *)
Definition tok_m3 : num := NDec (Some true) [51] false [] None.              (* -3 *)
Definition tok_1em05 : num := NDec None [49] false [] (Some (Some true, [48;53])).   (* 1e-05 *)

Lemma tok_examples_ok : tok_ok tok_0_25 /\ tok_ok tok_m3 /\ tok_ok tok_1em05.
Proof.
  repeat split; try discriminate; try (repeat constructor).
Qed.

Lemma svm_examples :
  svm_import_reg true 0 0 (export_svm_reg [(tok_m3, [(0, tok_0_25)])]) = Ok (mkDs [[(tok_m3, [(0%Z, tok_0_25)])]] 1) /\
  svm_import_reg true 3 0 (export_svm_reg [(tok_m3, [(0, tok_0_25)])]) = Ok (mkDs [[(tok_m3, [(0%Z, tok_0_25)])]] 3) /\
  svm_import_cls false 0 2 (export_svm_cls [(0, [(0, tok_0_25); (1, tok_1em05)]); (1, [(0, tok_m3); (1, tok_0_25)])]) =
    Ok (mkDs [[(0%Z, [(0%Z, tok_0_25); (1%Z, tok_1em05)]); (1%Z, [(0%Z, tok_m3); (1%Z, tok_0_25)])]] 2) /\
  svm_import_cls false 0 2 (export_svm_cls [(1, [(0, tok_0_25)]); (1, [(0, tok_m3)])]) =
    Ok (mkDs [[(0%Z, [(0%Z, tok_0_25)]); (0%Z, [(0%Z, tok_m3)])]] 1).
Proof. vm_compute. repeat split; reflexivity. Qed.
