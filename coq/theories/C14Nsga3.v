(* C14 — NSGA3Indicator::leastContributors as coded (Operators/Indicators/NSGA3Indicator.h), definitions only.

   Carrier: an abstract type with the operations the code uses (Section variables; OCaml floats in the driver,
   Q in the proofs).  Steps of the code:
     points = archive ++ front;  ideal = component-wise minimum;  points -= ideal;
     computeNormalizer: corner point per objective = first minimiser of  eps*sum(p) + (1-eps)*p[dim]  (std::min on
       KeyValuePair: replaced only by a strictly smaller key), plane through the corner points by the positive
       semi-definite solver (Section variable `solve`: Some w iff solver.rank() == dimensions); if all w > 0 the
       normalizer is 1/w, otherwise the nadir point, where a component that is not > 0 (objective constant over the
       points, repaired by /repo commit 87210a93) is replaced by 1;
     points /= normalizer;
     association: pairing[j] = min over the reference directions i of (|p_j|^2 - <z_i,p_j>^2, (j, i)), start value
       (DBL_MAX, (0,0)), replaced only by a strictly smaller key;
     niche counts rho of the archive members; then while k < n - K: the reference direction with the least count
       (std::min_element: first minimum); among the unassigned points k..n-1 associated with it the closest one
       (again strict <, start (DBL_MAX, 0)); none -> rho[index] = n+1, otherwise swap it to position k, ++rho, ++k;
     result: pairing[k..n-1].first - |archive|.
   The while loop is a Fixpoint on fuel; C14Nsga3Proofs.v shows that the fuel n + |Z| + 1 handed over by
   nsga3_lcs is never exhausted (every round either assigns a point or retires a reference direction). *)
From Coq Require Import List Arith Bool.
From SharkV Require Import ListAux C14Ind.
Import ListNotations.

Section Nsga3.
  Variable T : Type.
  Variables zero one maxval eps : T.       (* 0.0, 1.0, numeric_limits<double>::max(), 0.00001 *)
  Variables add sub mul div : T -> T -> T.
  Variable sqrt : T -> T.
  Variable ltb : T -> T -> bool.
  (* plane equation through the corner points: Some w iff the solver reports full rank *)
  Variable solve : list (list T) -> option (list T).

  Definition vzip (f : T -> T -> T) (a b : list T) : list T := map (fun p => f (fst p) (snd p)) (combine a b).
  Definition tmin (x y : T) : T := if ltb y x then y else x.       (* std::min(x, y) *)
  Definition tmax (x y : T) : T := if ltb x y then y else x.       (* std::max(x, y) *)
  Definition vsum (v : list T) : T := fold_left add v zero.                       (* remora sum: sequential fold from 0 *)
  Definition norm_sqr (v : list T) : T := vsum (map (fun x => mul x x) v).
  Definition inner (a b : list T) : T := fold_left (fun acc p => add acc (mul (fst p) (snd p))) (combine a b) zero.

  (* setReferencePoints: z /= norm_2(z) *)
  Definition n3_unit (z : list T) : list T := let n := sqrt (norm_sqr z) in map (fun x => div x n) z.

  Definition n3_ideal (points : list (list T)) : list T := fold_left (vzip tmin) points (hd [] points).
  Definition n3_translate (points : list (list T)) : list (list T) :=
    let ideal := n3_ideal points in map (fun p => vzip sub p ideal) points.

  (* best = std::min(best, (dist, i)) over i = 0..n-1, start (max, 0) *)
  Definition kv_min {V : Type} (best cand : T * V) : T * V := if ltb (fst cand) (fst best) then cand else best.

  Definition n3_corner (points : list (list T)) (dim : nat) : nat :=
    snd (fold_left (fun best i =>
                      let p := nth i points [] in
                      kv_min best (add (mul eps (vsum p)) (mul (sub one eps) (nth dim p zero)), i))
                   (seq 0 (length points)) (maxval, 0)).

  Definition n3_corners (points : list (list T)) : list nat :=
    map (n3_corner points) (seq 0 (length (hd [] points))).

  Definition n3_nadir (points : list (list T)) : list T :=
    map (fun x => if ltb zero x then x else one) (fold_left (vzip tmax) points (hd [] points)).

  Definition n3_normalizer (points : list (list T)) : list T :=
    let corners := map (fun i => nth i points []) (n3_corners points) in
    match solve corners with
    | Some w => if ltb zero (fold_left tmin w maxval) then map (fun x => div one x) w else n3_nadir points
    | None => n3_nadir points
    end.

  Definition n3_normalize (points : list (list T)) : list (list T) :=
    let tr := n3_translate points in
    let nrm := n3_normalizer tr in
    map (fun p => vzip div p nrm) tr.

  Definition pair_t := (T * (nat * nat))%type.
  Definition pdflt : pair_t := (maxval, (0, 0)).

  Definition n3_dist (z p : list T) : T := sub (norm_sqr p) (let s := inner z p in mul s s).

  Definition n3_assoc (Zr : list (list T)) (j : nat) (p : list T) : pair_t :=
    fold_left (fun best i => kv_min best (n3_dist (nth i Zr []) p, (j, i))) (seq 0 (length Zr)) pdflt.

  Definition n3_pairing (Zr : list (list T)) (points : list (list T)) : list pair_t :=
    map (fun j => n3_assoc Zr j (nth j points [])) (seq 0 (length points)).

  (* for i = k..n-1: if associated with index: found = true, closest = std::min(closest, (key, i)) *)
  Definition n3_search (pairing : list pair_t) (index k n : nat) : bool * (T * nat) :=
    fold_left (fun st i =>
                 let e := nth i pairing pdflt in
                 if snd (snd e) =? index then (true, kv_min (snd st) (fst e, i)) else st)
              (seq k (n - k)) (false, (maxval, 0)).

  Fixpoint n3_loop (fuel n K k : nat) (rho : list nat) (pairing : list pair_t) : nat * list pair_t :=
    match fuel with
    | 0 => (k, pairing)
    | S f =>
      if k <? n - K then
        let index := min_element Nat.ltb rho in
        let '(found, closest) := n3_search pairing index k n in
        if found
        then n3_loop f n K (S k) (upd index (S (nth index rho 0)) rho) (swapl pdflt k (snd closest) pairing)
        else n3_loop f n K k (upd index (n + 1) rho) pairing
      else (k, pairing)
    end.

  Definition n3_rho0 (nZ nA : nat) (pairing : list pair_t) : list nat :=
    fold_left (fun rho k => let i := snd (snd (nth k pairing pdflt)) in upd i (S (nth i rho 0)) rho)
              (seq 0 nA) (repeat 0 nZ).

  (* the selection part, for any pairing table *)
  Definition n3_select (nZ nA K : nat) (pairing : list pair_t) : list nat :=
    let n := length pairing in
    let '(k, pr) := n3_loop (n + nZ + 1) n K nA (n3_rho0 nZ nA pairing) pairing in
    map (fun e => fst (snd e) - nA) (skipn k pr).

  (* Zr: the stored reference directions m_Z (already normalised by setReferencePoints) *)
  Definition nsga3_lcs (Zr : list (list T)) (F A : list (list T)) (K : nat) : list nat :=
    let points := n3_normalize (A ++ F) in
    n3_select (length Zr) (length A) K (n3_pairing Zr points).
End Nsga3.
