(* C02 — symmetric eigen-decomposition, the Householder reduction step of kernels::syev (model C02SyevModel.tred_step): the
   reflector P = I - u u^T / h built from row i is symmetric and ORTHOGONAL, it maps the (scaled) row onto g e_{i-1} (the intended
   zero pattern), and the update of the leading block is the SIMILARITY  P S P  -- over a field, the square root exact on the
   value met (h0) and h <> 0. *)
From Coq Require Import List Arith Bool Lia Field.
From SharkV Require Import C02Model C02Proofs C02SyevModel.
Import ListNotations.

Section SyevProofs.
Variable A : Type.
Variable F : ops A.
Variable fabs : A -> A.
Notation "0" := (fzero F) : F_scope.
Notation "1" := (fone F) : F_scope.
Infix "+" := (fadd F) : F_scope.
Infix "*" := (fmul F) : F_scope.
Infix "-" := (fsub F) : F_scope.
Infix "/" := (fdiv F) : F_scope.
Notation "- x" := (fopp F x) : F_scope.
Hypothesis Fth : field_theory (fzero F) (fone F) (fadd F) (fmul F) (fsub F) (fopp F) (fdiv F) (finv F) (@eq A).
Hypothesis feqb_spec : forall x y, feqb F x y = true <-> x = y.
Add Field FfieldSy : Fth.
Local Open Scope F_scope.
Notation mat := (mat A).
Notation vec := (vec A).
Notation sumr := (sumr A F).
Notation sumr_ext := (sumr_ext A F).
Notation sumr_S := (sumr_S A F).
Notation sumr_add := (sumr_add A F Fth).
Notation sumr_mul_l := (sumr_mul_l A F Fth).
Notation sumr_mul_r := (sumr_mul_r A F Fth).
Notation sumr_zero := (sumr_zero A F Fth).
Notation sumr_split := (sumr_split A F Fth).
Notation sumr_first := (sumr_first A F Fth).
Notation memo_eq := (memo_eq A F).
Notation memo2_eq := (memo2_eq A F).

Ltac bdall_local :=
  repeat match goal with
  | |- context [Nat.leb ?a ?b] => destruct (Nat.leb_spec a b)
  | |- context [Nat.ltb ?a ?b] => destruct (Nat.ltb_spec a b)
  | |- context [Nat.eqb ?a ?b] => destruct (Nat.eqb_spec a b)
  end; cbn [andb orb negb]; try reflexivity; try lia.

Definition delta (r c : nat) : A := if Nat.eqb r c then 1 else 0.
Lemma sum_delta_l : forall n r (x : nat -> A), (r < n)%nat -> sumr 0 n (fun t => delta r t * x t) = x r.
Proof.
  intros n r x Hr. rewrite (sumr_split 0 r n) by lia. rewrite (sumr_first r n) by lia.
  rewrite (sumr_zero 0 r) by (intros t Ht; unfold delta; destruct (Nat.eqb_spec r t); [lia|ring]).
  rewrite (sumr_zero (S r) n) by (intros t Ht; unfold delta; destruct (Nat.eqb_spec r t); [lia|ring]).
  unfold delta. rewrite Nat.eqb_refl. ring.
Qed.
Lemma sum_delta_r : forall n c (x : nat -> A), (c < n)%nat -> sumr 0 n (fun t => x t * delta t c) = x c.
Proof.
  intros n c x Hc. rewrite <- (sum_delta_l n c x Hc). apply sumr_ext. intros t Ht. unfold delta. rewrite (Nat.eqb_sym t c). ring.
Qed.

(* the symmetric matrix whose lower triangle is stored *)
Definition symL (V : mat) : mat := fun r c => if Nat.leb c r then V r c else V c r.
Lemma symL_sym : forall V r c, symL V r c = symL V c r.
Proof. intros. unfold symL. destruct (Nat.leb_spec c r), (Nat.leb_spec r c); try reflexivity; try lia. replace r with c by lia. reflexivity. Qed.

Section Step.
Variables (n i : nat) (V : mat).
Variables (scale g h : A) (u : vec).
Hypothesis Hi : (0 < i)%nat.
Hypothesis Hh : tred_house A F fabs i V = Some (scale, g, h, u).
Let a : vec := fun k => V i k / scale.
Let h0 : A := sumr 0 i (fun k => a k * a k).
Hypothesis sqrt_exact : fsqrt F h0 * fsqrt F h0 = h0.
Hypothesis h_nz : h <> 0.

Lemma house_facts : scale <> 0 /\ g * g = h0 /\ h = h0 - a (i - 1)%nat * g /\
  (forall k, u k = if Nat.eqb k (i - 1) then a (i - 1)%nat - g else a k).
Proof.
  unfold tred_house in Hh.
  match type of Hh with (if feqb F ?s 0 then _ else _) = _ => destruct (feqb F s 0) eqn:Es; [discriminate|set (sc := s) in *] end.
  inversion Hh; subst scale g h u; clear Hh. fold a. fold h0.
  split; [apply (feqb_false A F feqb_spec); exact Es|]. split; [|split; [reflexivity|reflexivity]].
  match goal with |- context [if fltb F 0 ?t then _ else _] => destruct (fltb F 0 t) end; [|exact sqrt_exact].
  transitivity (fsqrt F h0 * fsqrt F h0); [unfold h0, a; ring|exact sqrt_exact].
Qed.

(* u.u = 2h and u.a = h *)
Lemma house_uu : sumr 0 i (fun k => u k * u k) = h + h.
Proof.
  destruct house_facts as (_ & Hg & Hhd & Hu). replace i with (S (i - 1)) at 1 by lia. rewrite sumr_S by lia.
  rewrite (sumr_ext 0 (i - 1) _ (fun k => a k * a k)) by (intros k Hk; rewrite !Hu; destruct (Nat.eqb_spec k (i - 1)); [lia|reflexivity]).
  rewrite (Hu (i - 1)%nat), Nat.eqb_refl. rewrite Hhd.
  assert (E : h0 = sumr 0 (i - 1) (fun k => a k * a k) + a (i - 1)%nat * a (i - 1)%nat).
  { unfold h0. replace i with (S (i - 1)) at 1 by lia. rewrite sumr_S by lia. reflexivity. }
  rewrite E in Hg |- *. set (s := sumr 0 (i - 1) (fun k => a k * a k)) in *. set (f := a (i - 1)%nat) in *.
  assert (E2 : (f - g) * (f - g) = f * f - (f * g + f * g) + g * g) by ring. rewrite E2, Hg. ring.
Qed.
Lemma house_ua : sumr 0 i (fun k => u k * a k) = h.
Proof.
  destruct house_facts as (_ & Hg & Hhd & Hu). replace i with (S (i - 1)) at 1 by lia. rewrite sumr_S by lia.
  rewrite (sumr_ext 0 (i - 1) _ (fun k => a k * a k)) by (intros k Hk; rewrite !Hu; destruct (Nat.eqb_spec k (i - 1)); [lia|reflexivity]).
  rewrite (Hu (i - 1)%nat), Nat.eqb_refl. rewrite Hhd.
  assert (E : h0 = sumr 0 (i - 1) (fun k => a k * a k) + a (i - 1)%nat * a (i - 1)%nat).
  { unfold h0. replace i with (S (i - 1)) at 1 by lia. rewrite sumr_S by lia. reflexivity. }
  rewrite E. ring.
Qed.

(* the reflector on the index range [0,i) *)
Definition refl (r c : nat) : A := delta r c - u r * u c / h.
Lemma refl_sym : forall r c, refl r c = refl c r.
Proof. intros. unfold refl, delta. rewrite (Nat.eqb_sym r c). field. exact h_nz. Qed.

(* P is orthogonal: P P = I *)
Theorem refl_orthogonal : forall r c, (r < i)%nat -> (c < i)%nat -> sumr 0 i (fun t => refl r t * refl t c) = delta r c.
Proof.
  intros r c Hr Hc. unfold refl.
  rewrite (sumr_ext 0 i _ (fun t => delta r t * (delta t c - u t * u c / h) + (- (u r / h)) * (u t * delta t c) + (u r * u c / (h * h)) * (u t * u t)))
    by (intros; field; exact h_nz).
  rewrite !sumr_add, !sumr_mul_l. rewrite (sum_delta_l i r (fun t => delta t c - u t * u c / h) Hr).
  rewrite (sum_delta_r i c u Hc). rewrite house_uu. field. exact h_nz.
Qed.

(* the intended zero pattern: P maps the scaled row a onto g e_{i-1} *)
Theorem refl_row : forall c, (c < i)%nat -> sumr 0 i (fun t => a t * refl t c) = if Nat.eqb c (i - 1) then g else 0.
Proof.
  intros c Hc. unfold refl.
  rewrite (sumr_ext 0 i _ (fun t => a t * delta t c + (- (u c / h)) * (u t * a t))) by (intros; field; exact h_nz).
  rewrite sumr_add, sumr_mul_l. rewrite (sum_delta_r i c a Hc). rewrite house_ua.
  destruct house_facts as (_ & _ & _ & Hu). rewrite (Hu c). destruct (Nat.eqb_spec c (i - 1)) as [->|N]; field; exact h_nz.
Qed.

(* the update of the leading block is the similarity P S P *)
Let S : mat := symL V.
Let Su : vec := fun r => sumr 0 i (fun b => S r b * u b).
Lemma tred_p_eq : forall j, (j < i)%nat -> tred_p A F n i V u h j = Su j / h.
Proof.
  intros j Hj. unfold tred_p. rewrite memo_eq. f_equal. apply sumr_ext. intros k Hk. unfold S, symL.
  destruct (Nat.leb_spec k j); [reflexivity|]. destruct (Nat.leb_spec j k); [reflexivity|lia].
Qed.
Hypothesis h2_nz : h + h <> 0.       (* the code divides by h + h; true in every ordered field, false in characteristic 2 *)
Theorem tred_step_similarity : forall r c, (r < i)%nat -> (c < i)%nat ->
  let p := tred_p A F n i V u h in let q := tred_q A F n i u p h in
  S r c - (u r * q c + q r * u c) = sumr 0 i (fun x => refl r x * sumr 0 i (fun y => S x y * refl y c)).
Proof.
  intros r c Hr Hc p q.
  set (uSu := sumr 0 i (fun t => Su t * u t)).
  assert (Hq : forall j, (j < i)%nat -> q j = Su j / h - (uSu / (h * (h + h))) * u j).
  { intros j Hj. unfold q, tred_q. rewrite memo_eq. unfold p. rewrite tred_p_eq by exact Hj.
    rewrite (sumr_ext 0 i _ (fun t => (1 / h) * (Su t * u t))) by (intros t Ht; rewrite tred_p_eq by lia; field; exact h_nz).
    rewrite sumr_mul_l. fold uSu. field. split; assumption. }
  assert (Inner : forall x, sumr 0 i (fun y => S x y * refl y c) = S x c - Su x * u c / h).
  { intros x. unfold refl.
    rewrite (sumr_ext 0 i _ (fun y => S x y * delta y c + (- (u c / h)) * (S x y * u y))) by (intros; field; exact h_nz).
    rewrite sumr_add, sumr_mul_l. rewrite (sum_delta_r i c (fun y => S x y) Hc). unfold Su. field. exact h_nz. }
  rewrite (sumr_ext 0 i _ (fun x => refl r x * (S x c - Su x * u c / h))) by (intros; rewrite Inner; reflexivity).
  unfold refl.
  rewrite (sumr_ext 0 i _ (fun x => delta r x * (S x c - Su x * u c / h) + ((- (u r / h)) * (S c x * u x) + (u r * u c / (h * h)) * (Su x * u x)))).
  2:{ intros x Hx. unfold S. rewrite (symL_sym V x c). field. exact h_nz. }
  rewrite !sumr_add, !sumr_mul_l. rewrite (sum_delta_l i r (fun x => S x c - Su x * u c / h) Hr).
  fold uSu. fold (Su c). rewrite (Hq c Hc), (Hq r Hr). field. split; assumption.
Qed.

(* what tred_step leaves behind, in these terms *)
Theorem tred_step_correct : forall (e d : vec),
  match tred_step A F fabs n i V e d with
  | (V', e', d') =>
    (forall r c, (c <= r < i)%nat -> V' r c = sumr 0 i (fun x => refl r x * sumr 0 i (fun y => S x y * refl y c))) /\
    e' i = scale * g /\ d' i = h /\
    (forall c, (c < i)%nat -> sumr 0 i (fun t => V i t * refl t c) = if Nat.eqb c (i - 1) then e' i else 0) /\
    (forall c, (c < i)%nat -> V' i c = u c * scale) /\ (forall r, (r < i)%nat -> V' r i = u r / (scale * h)) /\
    (forall r c, (i < r \/ (i < c /\ r < c) \/ (r = i /\ c = i) \/ (r < c /\ c < i))%nat -> V' r c = V r c) /\
    (forall j, (i < j)%nat -> e' j = e j /\ d' j = d j)
  end.
Proof.
  intros e d. unfold tred_step. rewrite Hh.
  destruct house_facts as (Hs & _ & _ & _).
  split; [|split; [|split; [|split; [|split; [|split; [|split]]]]]].
  - intros r c Hrc. rewrite memo2_eq.
    assert (E1 : Nat.ltb r i = true) by (apply Nat.ltb_lt; lia). assert (E2 : Nat.leb c r = true) by (apply Nat.leb_le; lia).
    rewrite E1, E2. cbn [andb]. rewrite <- (tred_step_similarity r c) by lia. unfold S, symL. rewrite E2. reflexivity.
  - rewrite memo_eq. rewrite Nat.ltb_irrefl, Nat.eqb_refl. reflexivity.
  - unfold C02Model.upd. rewrite Nat.eqb_refl. reflexivity.
  - intros c Hc. rewrite memo_eq. rewrite Nat.ltb_irrefl, Nat.eqb_refl.
    rewrite (sumr_ext 0 i _ (fun t => scale * (a t * refl t c))) by (intros t Ht; unfold a; field; exact Hs).
    rewrite sumr_mul_l. rewrite (refl_row c Hc). destruct (Nat.eqb c (i - 1)); ring.
  - intros c Hc. rewrite memo2_eq. assert (E1 : Nat.ltb i i = false) by apply Nat.ltb_irrefl.
    assert (E2 : Nat.ltb c i = true) by (apply Nat.ltb_lt; lia). rewrite E1, Nat.eqb_refl, E2. reflexivity.
  - intros r Hr. rewrite memo2_eq. assert (E1 : Nat.ltb r i = true) by (apply Nat.ltb_lt; lia).
    assert (E2 : Nat.leb i r = false) by (apply Nat.leb_gt; lia). rewrite E1, E2, Nat.eqb_refl. cbn [andb].
    destruct (Nat.eqb_spec r i); [lia|]. reflexivity.
  - intros r c H. rewrite memo2_eq. bdall_local.
  - intros j Hj. split.
    + rewrite memo_eq. destruct (Nat.ltb_spec j i); [lia|]. destruct (Nat.eqb_spec j i); [lia|reflexivity].
    + unfold C02Model.upd. destruct (Nat.eqb_spec j i); [lia|reflexivity].
Qed.
End Step.

(* scale == 0: no transformation, the sub-diagonal entry is taken as it is *)
Theorem tred_step_skip : forall n i (V : mat) (e d : vec), tred_house A F fabs i V = None ->
  tred_step A F fabs n i V e d = (V, upd A e i (V i (i - 1)%nat), upd A d i 0).
Proof. intros n i V e d H. unfold tred_step. rewrite H. reflexivity. Qed.

End SyevProofs.
