(* C11 — direct-search methods without a covariance matrix, and whole steps of CMA / CMSA: executable model (definitions only).

   Mirrors, parametric in the arithmetic (record [ops] of C11Model.v), with the OBJECTIVE AS AN ORACLE [f : vec -> A]
   and every RANDOM DRAW AS AN EXPLICIT ARGUMENT:
     * SimplexDownhill (include/shark/Algorithms/DirectSearch/SimplexDownhill.h), as coded:
         init  : vertices start + e_j - 1/2 (1 - e_j), m_best = vertex 0, then tracking (as repaired by d2acfe00)  -> [sd_init]
                 ([old_sd_init]: the init before the repair, which compared vertex 0 with the literal 1e100 — regression witness only)
         step  : sort by value (operator< of SingleObjectiveResultSet; std::sort modelled as the stable insertion sort
                 [isort] of C11Model.v — libstdc++'s std::sort IS that insertion sort for <= 16 elements),
                 centroid of the dim best, reflection 2 x0 - w, expansion 3 x0 - 2 w, contraction x0/2 + w/2,
                 reduction (b + v)/2, with the coded comparisons (incl. m_simplex[dim-1] = the best vertex when dim = 1),
                 m_best tracking `if (x.value < m_best.value) m_best = x`                              -> [sd_step], [sd_run]
         solution() = m_best                                                                           -> [sd_best]
     * CrossEntropyMethod (src/Algorithms/DirectSearch/CrossEntropyMethod.cpp), as coded:
         noise schedules ConstantNoise max(c,0), LinearNoise max(a + t b, 0)                           -> [cem_noise_const], [cem_noise_linear]
         sample(j) = gauss(mean(j), variance(j)) = z * sqrt(variance(j)) + mean(j), z standard normal  -> [cem_sample]
         ElitistSelection (throws unless population > selection size), counter++, updateStrategyParameters
         (mean = sum / mu, variance = sum (x - m)^2 * (1/mu) + noise(counter)), m_best = parents[0]    -> [cem_update], [cem_step], [cem_run]
       the oracle of the CEM / CMA / CMSA steps is the UNPENALISED fitness the PenalizingEvaluator assigns to a search point
       (objective at the closest feasible point; C11Model.penalized_eval) — selection in these classes orders by it.
     * CMA::step = generateOffspring (x = mean + sigma * (Q sqrt(max(lambda,0)) z), eigen-decomposition an oracle [eig]) +
       evaluation + updatePopulation ([cma_update] of C11Model.v)                                      -> [cma_step], [cma_run]
     * CMSA::step = generateOffspring (sigma_i = sigma * exp(cSigma * g_i), step = L z, x = mean + sigma_i * step) +
       evaluation + updatePopulation ([cmsa_update])                                                   -> [cmsa_step], [cmsa_run]   *)
From Coq Require Import List Arith Bool.
From SharkV Require Import C11Model.
Import ListNotations.

Set Implicit Arguments.

Section Direct.
Variable A : Type.
Variable O : ops A.

Notation "0" := (o_zero O).
Notation "1" := (o_one O).
Infix "+" := (o_add O).
Infix "-" := (o_sub O).
Infix "*" := (o_mul O).
Infix "/" := (o_div O).

Definition pvec := list A.
(* SolutionType = (value, point); the ordering compares the value only *)
Definition sol := (A * pvec)%type.

(* ================================================================ SimplexDownhill *)
Definition sd_half : A := 1 / o_two O.                       (* 0.5 *)
Definition sd_three : A := o_ofnat O 3.                      (* 3.0 *)

Record sd_state := mkSd { sd_simplex : list sol; sd_best : sol }.

(* if (x.value < m_best.value) m_best = x; *)
Definition sd_track (b x : sol) : sol := if o_ltb O (fst x) (fst b) then x else b.

Definition sd_eval (f : pvec -> A) (p : pvec) : sol := (f p, p).

(* p(i) = startingPoint(i) + ((i == j) ? 1.0 : -0.5) *)
Definition sd_vertex (start : pvec) (j : nat) : pvec :=
  map (fun is => if Nat.eqb (fst is) j then snd is + 1 else snd is + (0 - sd_half)) (combine (seq 0 (length start)) start).

(* init() as repaired (commit d2acfe00):  if (j == 0 || m_simplex[j].value < m_best.value) m_best = m_simplex[j];
   vertex 0 is taken unconditionally, so the assignment m_best.value = 1e100 before the loop and the point m_best held before no
   longer matter (they are not parameters of the model any more) *)
Definition sd_init_step (f : pvec -> A) (start : pvec) (st : sd_state) (j : nat) : sd_state :=
  let v := sd_eval f (sd_vertex start j) in mkSd (sd_simplex st ++ [v]) (sd_track (sd_best st) v).

Definition sd_init (f : pvec -> A) (start : pvec) : sd_state :=
  let v0 := sd_eval f (sd_vertex start 0%nat) in
  fold_left (sd_init_step f start) (seq 1%nat (length start)) (mkSd [v0] v0).

(* REGRESSION WITNESS ONLY — init() as it was BEFORE d2acfe00: every vertex (also vertex 0) was compared with the literal 1e100 [big]
   stored in m_best.value, and m_best.point [p0] was left as the object held it (see C11_simplex_literal_witness) *)
Definition old_sd_init (f : pvec -> A) (big : A) (p0 : pvec) (start : pvec) : sd_state :=
  fold_left (sd_init_step f start) (seq 0 (S (length start))) (mkSd [] (big, p0)).

(* reduction loop: for j = 1..dim: point = 0.5 * best.point + 0.5 * point; evaluate; track *)
Fixpoint sd_shrink (f : pvec -> A) (bp : pvec) (rest : list sol) (b : sol) : list sol * sol :=
  match rest with
  | [] => ([], b)
  | v :: t =>
      let v' := sd_eval f (map2 (fun x y => sd_half * x + sd_half * y) bp (snd v)) in
      let r := sd_shrink f bp t (sd_track b v') in
      (v' :: fst r, snd r)
  end.

Definition sd_dflt : sol := (0, []).

Definition sd_step (f : pvec -> A) (st : sd_state) : sd_state :=
  let s := isort O (sd_simplex st) in                          (* sort(m_simplex.begin(), m_simplex.end()) *)
  let dim := pred (length s) in
  let best := nth 0 s sd_dflt in
  let worst := nth dim s sd_dflt in
  let keep := firstn dim s in
  (* x0 = sum of the dim best points, starting from the zero vector; x0 /= dim *)
  let x0 := map (fun a => a / o_ofnat O dim) (fold_left (fun acc v => vadd O acc (snd v)) keep (vzero O dim)) in
  let xr := sd_eval f (map2 (fun c w => o_two O * c - w) x0 (snd worst)) in
  let b1 := sd_track (sd_best st) xr in
  if negb (o_ltb O (fst xr) (fst best)) && o_ltb O (fst xr) (fst (nth (pred dim) s sd_dflt)) then
    mkSd (keep ++ [xr]) b1                                    (* worst = xr *)
  else if o_ltb O (fst xr) (fst best) then
    let xe := sd_eval f (map2 (fun c w => sd_three * c - o_two O * w) x0 (snd worst)) in
    let b2 := sd_track b1 xe in
    if o_ltb O (fst xe) (fst xr) then mkSd (keep ++ [xe]) b2 else mkSd (keep ++ [xr]) b2
  else
    let xc := sd_eval f (map2 (fun c w => sd_half * c + sd_half * w) x0 (snd worst)) in
    let b2 := sd_track b1 xc in
    if o_ltb O (fst xc) (fst worst) then mkSd (keep ++ [xc]) b2
    else
      let r := sd_shrink f (snd best) (tl s) b2 in
      mkSd (best :: fst r) (snd r).

Fixpoint sd_run (f : pvec -> A) (n : nat) (st : sd_state) : sd_state :=
  match n with
  | S k => sd_run f k (sd_step f st)
  | _ => st
  end.

(* ================================================================ CrossEntropyMethod *)
Definition omax (x y : A) : A := if o_ltb O x y then y else x.           (* std::max(x, y) *)

(* ConstantNoise::noiseValue(t) = std::max(m_noise, 0.0);  LinearNoise::noiseValue(t) = std::max(m_a + (t * m_b), 0.0) *)
Definition cem_noise_const (c : A) (t : nat) : A := omax c 0.
Definition cem_noise_linear (a b : A) (t : nat) : A := omax (a + o_ofnat O t * b) 0.

Record cem_state := mkCem { c_mean : pvec; c_var : pvec; c_counter : nat; c_best : sol }.

(* sample(j) = random::gauss(rng, mean(j), variance(j)):  normal_distribution(mean, sqrt(variance)) returns z * stddev + mean *)
Fixpoint cem_sample (mean var z : pvec) : pvec :=
  match mean, var, z with
  | m :: mt, v :: vt, zz :: zt => (zz * o_sqrt O v + m) :: cem_sample mt vt zt
  | _, _, _ => []
  end.

Definition coord (j : nat) (x : pvec) : A := nth j x 0.

(* updateStrategyParameters: m(i) = (0 + x_0(i) + x_1(i) + ...) / double(parents.size()) *)
Definition cem_mean (n : nat) (ps : list pvec) : pvec :=
  map (fun j => fold_left (fun s x => s + coord j x) ps 0 / o_ofnat O (length ps)) (seq 0 n).

(* innerSum = sum_i (x_i(j) - m(j))^2;  innerSum *= 1.0 / double(nParents);  variance(j) = innerSum + noise *)
Definition cem_sumsq (j : nat) (mj : A) (ps : list pvec) : A :=
  fold_left (fun s x => s + (coord j x - mj) * (coord j x - mj)) ps 0.
Definition cem_var (n : nat) (m : pvec) (ps : list pvec) (noise : A) : pvec :=
  map (fun j => cem_sumsq j (coord j m) ps * (1 / o_ofnat O (length ps)) + noise) (seq 0 n).

Definition cem_update (n : nat) (ps : list pvec) (noise : A) : pvec * pvec :=
  let m := cem_mean n ps in (m, cem_var n m ps noise).

(* the part of step() after sampling and evaluation: offspring = (unpenalised fitness, search point).
   None = ElitistSelection's SHARK_RUNTIME_CHECK(population size > selection size) throws. *)
Definition cem_select_update (noise : nat -> A) (n mu : nat) (counter : nat) (offspring : list sol) : option cem_state :=
  if Nat.ltb mu (length offspring) then
    let sel := select O mu offspring in
    let counter' := S counter in
    let mv := cem_update n (map snd sel) (noise counter') in
    Some (mkCem (fst mv) (snd mv) counter' (hd sd_dflt sel))
  else None.

(* one step(): [zs] = the standard normal draws, one vector per offspring *)
Definition cem_step (ev : pvec -> A) (noise : nat -> A) (n mu : nat) (st : cem_state) (zs : list pvec) : option cem_state :=
  let offspring := map (fun z => sd_eval ev (cem_sample (c_mean st) (c_var st) z)) zs in
  cem_select_update noise n mu (c_counter st) offspring.

Fixpoint cem_run (ev : pvec -> A) (noise : nat -> A) (n mu : nat) (st : cem_state) (zss : list (list pvec)) : option cem_state :=
  match zss with
  | [] => Some st
  | zs :: rest => match cem_step ev noise n mu st zs with
                  | Some st' => cem_run ev noise n mu st' rest
                  | None => None
                  end
  end.

(* ================================================================ whole steps of CMA / CMSA *)
(* MultiVariateNormalDistribution::operator(): result = Q % diag(sqrt(max(lambda, 0))) % z, as a matrix [S] times z;
   [eig C] = (the eigenvector matrix B = Q used by the sigma path, the sampling matrix S = Q diag(sqrt(max(lambda,0)))) *)
Definition cma_offspring (ev : pvec -> A) (S : list pvec) (mean : pvec) (sigma : A) (z : pvec) : A * (pvec * pvec) :=
  let x := vadd O mean (vscale O sigma (mvec O S z)) in (ev x, (x, z)).

Definition cma_step (ev : pvec -> A) (eig : list pvec -> list pvec * list pvec) (k : cma_consts A) (n mu : nat) (ws : pvec)
           (st : cma_state A) (zs : list pvec) : cma_state A :=
  let BS := eig (s_C st) in
  cma_update O k n mu ws (fst BS) st (map (cma_offspring ev (snd BS) (s_mean st) (s_sigma st)) zs).

Fixpoint cma_run (ev : pvec -> A) (eig : list pvec -> list pvec * list pvec) (k : cma_consts A) (n mu : nat) (ws : pvec)
         (st : cma_state A) (zss : list (list pvec)) : cma_state A :=
  match zss with
  | [] => st
  | zs :: rest => cma_run ev eig k n mu ws (cma_step ev eig k n mu ws st zs) rest
  end.

(* CMSA: state (mean, sigma, factor as trailing columns); a draw = (z, g): sigma_i = sigma * exp(cSigma * g),
   step = L z, x = mean + sigma_i * step *)
Definition cmsa_offspring (ev : pvec -> A) (cSigma : A) (mean : pvec) (sigma : A) (cols : list pvec) (zg : pvec * A)
  : A * (pvec * (pvec * A)) :=
  let si := sigma * o_exp O (cSigma * snd zg) in
  let step := lmulz O cols (fst zg) in
  let x := vadd O mean (vscale O si step) in
  (ev x, (x, (step, si))).

Definition cmsa_state := (pvec * A * list pvec)%type.

Definition cmsa_step (ev : pvec -> A) (cSigma cC : A) (n mu : nat) (st : cmsa_state) (draws : list (pvec * A)) : option cmsa_state :=
  let '(mean, sigma, cols) := st in
  cmsa_update O n mu cC cols (map (cmsa_offspring ev cSigma mean sigma cols) draws).

Fixpoint cmsa_run (ev : pvec -> A) (cSigma cC : A) (n mu : nat) (st : cmsa_state) (dss : list (list (pvec * A))) : option cmsa_state :=
  match dss with
  | [] => Some st
  | ds :: rest => match cmsa_step ev cSigma cC n mu st ds with
                  | Some st' => cmsa_run ev cSigma cC n mu st' rest
                  | None => None
                  end
  end.

End Direct.
