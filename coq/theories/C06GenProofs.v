(* C06 — the chain rule of ErrorFunction for ANY model.
   ErrorFunctionImpl uses the model only through  eval  and  weightedParameterDerivative ; C06Model.gen_bq
   is that loop for a model given as the pair (geval, gwpd).  The theorems below need of the model exactly
   the contract of C04: the weighted parameter derivative of a batch is the sum over its rows, and
   <weightedParameterDerivative(x, g), dtheta> = <g, d prediction(x)[dtheta]> for every coefficient row g.
   Instances: the linear model (recovers C06Aux.error_grad_is_param_grad) and the concatenation of two
   linear models, which is NOT linear in its parameters.  Axiom-free (lists, nat, Q). *)
From Coq Require Import List Arith ZArith QArith Qabs Bool Lia Lra Lqa Permutation Setoid Morphisms.
From SharkV Require Import ListAux C03Model C03Proofs C06Model C06Proofs C06Aux.
Import ListNotations.
Open Scope Q_scope.

(* ------------------------------------------------------------------------------------------ *)
(* the per-batch contribution of a generic model is additive over the batch elements *)
Section GenAdditive.
Variables (geval : vec -> vec) (gwpd : list (vec * vec) -> vec) (dim : nat) (k : lossk).
Hypothesis wpd_sum : forall xg, veq (gwpd xg) (vsum (map (fun p => gwpd [p]) xg)).

Lemma gen_bq_elem e :
  gen_bq geval gwpd dim k [e] =
  fst (loss_evald k dim (gen_preds geval [e]))
  :: gwpd [(fst e, nth 0 (snd (loss_evald k dim (gen_preds geval [e]))) [])].
Proof.
  unfold gen_bq. rewrite (loss_grad_map k dim (gen_preds geval [e])).
  unfold gen_preds. cbn [map combine]. reflexivity.
Qed.

Theorem gen_bq_additive b : veq (gen_bq geval gwpd dim k b) (vsum (map (fun e => gen_bq geval gwpd dim k [e]) b)).
Proof.
  intros [|j]; rewrite nth_vsum, map_map.
  - unfold gen_bq at 1. cbn [nth]. rewrite loss_value_additive. unfold gen_preds at 1. rewrite map_map.
    apply qsum_map_ext. intros e. rewrite gen_bq_elem. cbn [nth]. reflexivity.
  - unfold gen_bq at 1. cbn [nth]. rewrite loss_grad_map. unfold gen_preds at 1. rewrite map_map.
    rewrite (combine_map2 fst). rewrite (wpd_sum _ j), nth_vsum, !map_map.
    apply qsum_map_ext. intros e. rewrite gen_bq_elem. cbn [nth fst snd]. reflexivity.
Qed.

Theorem gen_bq_eval_additive b : veq (gen_bq_eval geval dim k b) (vsum (map (fun e => gen_bq_eval geval dim k [e]) b)).
Proof.
  intros [|j]; rewrite nth_vsum, map_map; unfold gen_bq_eval; cbn [nth].
  - rewrite loss_additive. unfold gen_preds at 1. rewrite map_map. reflexivity.
  - destruct j; (induction b as [|e b IH]; simpl; [reflexivity| rewrite <- IH; ring]).
Qed.

Lemma gen_bq_value b : nth 0 (gen_bq geval gwpd dim k b) 0 == nth 0 (gen_bq_eval geval dim k b) 0.
Proof. unfold gen_bq, gen_bq_eval. cbn [nth]. apply loss_paths. Qed.
End GenAdditive.

(* ------------------------------------------------------------------------------------------ *)
(* the generic chain rule.  eval0 / wpd0: the model at theta; eval1: the model at theta + t*dtheta.
   Per element: dp is the change of the prediction to first order (the directional derivative of the
   model output along dtheta); the model contract is the adjoint identity for the returned
   weightedParameterDerivative; the remaining hypothesis is the first-order expansion of
   loss o model along dtheta with the loss's returned gradient row g. *)
Section GenChainRule.
Variables (eval0 eval1 : vec -> vec) (wpd0 : list (vec * vec) -> vec) (dim : nat) (k : lossk).
Variables (dtheta : vec) (t : Q) (r : elem -> Q).
Hypothesis wpd_sum : forall xg, veq (wpd0 xg) (vsum (map (fun p => wpd0 [p]) xg)).

Definition gen_elem_expansion (e : elem) : Prop :=
  let p := eval0 (fst e) in
  let g := nth 0 (snd (loss_evald k dim [(snd e, p)])) [] in
  exists dp : vec,
    pdot (wpd0 [(fst e, g)]) dtheta == dot g dp /\
    loss_eval k dim [(snd e, eval1 (fst e))] - loss_eval k dim [(snd e, p)] == t * (dot g dp + t * r e).

Theorem gen_error_grad_is_param_grad threads (d : @data elem) :
  (1 <= threads)%nat -> (forall e, In e (elems d) -> gen_elem_expansion e) ->
  nth 0 (errfn (gen_bq_eval eval1 dim k) threads d) 0 - nth 0 (errfn (gen_bq_eval eval0 dim k) threads d) 0
  == t * (pdot (tl (errfn (gen_bq eval0 wpd0 dim k) threads d)) dtheta + t * (qsum (map r (elems d)) / Qn (nelems d))).
Proof.
  intros HT Hex.
  rewrite (error_is_mean_loss _ (gen_bq_eval_additive eval1 dim k) threads d HT 0%nat).
  rewrite (error_is_mean_loss _ (gen_bq_eval_additive eval0 dim k) threads d HT 0%nat).
  rewrite (veq_tl _ _ (error_is_mean_loss _ (gen_bq_additive eval0 wpd0 dim k wpd_sum) threads d HT)).
  rewrite !mean_value_coord. unfold mean_loss. fold (nelems d).
  set (bq := gen_bq eval0 wpd0 dim k).
  assert (T : veq (tl (vdiv (vsum (map (fun e => bq [e]) (elems d))) (Qn (nelems d))))
                  (vdiv (vsum (map (fun e => tl (bq [e])) (elems d))) (Qn (nelems d)))).
  { intros j. rewrite nth_tl, !nth_vdiv, !nth_vsum, !map_map.
    rewrite (qsum_map_ext (fun x => nth (S j) (bq [x]) 0) (fun x => nth j (tl (bq [x])) 0)); [reflexivity|].
    intros x. rewrite nth_tl. reflexivity. }
  rewrite T, pdot_vdiv, pdot_vsum, map_map.
  set (A := qsum (map (fun e : elem => nth 0 (gen_bq_eval eval1 dim k [e]) 0) (elems d))).
  set (B := qsum (map (fun e : elem => nth 0 (gen_bq_eval eval0 dim k [e]) 0) (elems d))).
  set (G := qsum (map (fun x : elem => pdot (tl (bq [x])) dtheta) (elems d))).
  set (R := qsum (map r (elems d))).
  assert (H : A - B == t * (G + t * R)).
  { subst A B G R bq. rewrite <- qsum_map_sub, <- (qsum_lin t). apply qsum_map_ext_in.
    intros e Hin. destruct (Hex e Hin) as (dp & Hadj & He).
    unfold gen_bq_eval. cbn [nth]. unfold gen_preds. cbn [map].
    rewrite He. rewrite gen_bq_elem. cbn [tl]. unfold gen_preds. cbn [map].
    rewrite Hadj. reflexivity. }
  setoid_replace (A / Qn (nelems d) - B / Qn (nelems d)) with ((A - B) / Qn (nelems d)) by (unfold Qdiv; ring).
  rewrite H. unfold Qdiv. ring.
Qed.
End GenChainRule.

(* ------------------------------------------------------------------------------------------ *)
(* the C04 contract of a parametrised model  (meval theta x, mwpd theta batch)  with np parameters and
   nout outputs on inputs of length nin: at every theta, along every direction dtheta,
     meval (theta + t dtheta) x = meval theta x + t * dp + t^2 * rp          (coordinate-wise)
     <mwpd theta [(x, g)], dtheta> = <g, dp>                                  for every coefficient row g
   with dp = mdp theta dtheta x independent of t: dp is the directional derivative of the output and mwpd
   returns the gradient of the coefficient-weighted output sum (the polynomial form in which C04 proves it
   for linear nets); rp = mrp theta dtheta t x is the second-order remainder of the model. *)
Definition model_contract (meval : vec -> vec -> vec) (mwpd : vec -> list (vec * vec) -> vec)
           (mdp : vec -> vec -> vec -> vec) (mrp : vec -> vec -> Q -> vec -> vec)
           (np nin nout : nat) : Prop :=
  (forall theta xg, veq (mwpd theta xg) (vsum (map (fun p => mwpd theta [p]) xg))) /\
  forall theta dtheta x, length theta = np -> length dtheta = np -> length x = nin ->
    length (meval theta x) = nout /\ length (mdp theta dtheta x) = nout /\
    (forall g, length g = nout -> pdot (mwpd theta [(x, g)]) dtheta == dot g (mdp theta dtheta x)) /\
    forall t, length (mrp theta dtheta t x) = nout /\
      veql (meval (vaxpy t dtheta theta) x)
           (vaxpy t (vaxpy t (mrp theta dtheta t x) (mdp theta dtheta x)) (meval theta x)).

Lemma dot_vaxpy_r t : forall g a b, length a = length b -> dot g (vaxpy t a b) == dot g b + t * dot g a.
Proof.
  induction g as [|x g IH]; intros [|y a] [|z b] H; simpl in *; try discriminate; try ring.
  rewrite IH by lia. ring.
Qed.

(* any table loss composed with ANY model satisfying the contract: if the loss has the first-order expansion
   with its returned gradient row along the induced prediction change (this is "the loss gradient is the
   derivative w.r.t. the prediction", proved per loss in C06Proofs/C06Aux away from kinks), then the
   vector returned by ErrorFunction::evalDerivative is the derivative of ErrorFunction::eval w.r.t. the
   model parameters, for every thread count and batching *)
Section ContractChainRule.
Variables (meval : vec -> vec -> vec) (mwpd : vec -> list (vec * vec) -> vec)
          (mdp : vec -> vec -> vec -> vec) (mrp : vec -> vec -> Q -> vec -> vec) (np nin nout : nat).
Hypothesis contract : model_contract meval mwpd mdp mrp np nin nout.
Variables (k : lossk) (theta dtheta : vec) (t : Q) (rl : elem -> Q).
Hypothesis len_theta : length theta = np.
Hypothesis len_dtheta : length dtheta = np.

(* the loss-level hypothesis on one element: expansion of the loss between the two predictions, along
   v = dp + t*rp *)
Definition loss_expansion (e : elem) : Prop :=
  let p := meval theta (fst e) in
  let g := nth 0 (snd (loss_evald k nout [(snd e, p)])) [] in
  let v := vaxpy t (mrp theta dtheta t (fst e)) (mdp theta dtheta (fst e)) in
  length (fst e) = nin /\ length g = nout /\
  loss_eval k nout [(snd e, meval (vaxpy t dtheta theta) (fst e))] - loss_eval k nout [(snd e, p)]
  == t * (dot g v + t * rl e).

Definition contract_rem (e : elem) : Q :=
  let p := meval theta (fst e) in
  let g := nth 0 (snd (loss_evald k nout [(snd e, p)])) [] in
  dot g (mrp theta dtheta t (fst e)) + rl e.

Lemma contract_elem_expansion e : loss_expansion e ->
  gen_elem_expansion (meval theta) (meval (vaxpy t dtheta theta)) (mwpd theta) nout k dtheta t contract_rem e.
Proof.
  intros (Hx & Hg & He). destruct contract as [_ Hc].
  destruct (Hc theta dtheta (fst e) len_theta len_dtheta Hx) as (Lp & Ldp & Hadj & Hexp).
  destruct (Hexp t) as (Lrp & _).
  unfold gen_elem_expansion. exists (mdp theta dtheta (fst e)). split.
  - apply Hadj. exact Hg.
  - rewrite He. unfold contract_rem. rewrite dot_vaxpy_r by lia. ring.
Qed.

Theorem contract_error_grad_is_param_grad threads (d : @data elem) :
  (1 <= threads)%nat -> (forall e, In e (elems d) -> loss_expansion e) ->
  nth 0 (errfn (gen_bq_eval (meval (vaxpy t dtheta theta)) nout k) threads d) 0
  - nth 0 (errfn (gen_bq_eval (meval theta) nout k) threads d) 0
  == t * (pdot (tl (errfn (gen_bq (meval theta) (mwpd theta) nout k) threads d)) dtheta
          + t * (qsum (map contract_rem (elems d)) / Qn (nelems d))).
Proof.
  intros HT Hex.
  apply (gen_error_grad_is_param_grad (meval theta) (meval (vaxpy t dtheta theta)) (mwpd theta) nout k
           dtheta t contract_rem (proj1 contract theta) threads d HT).
  intros e Hin. apply contract_elem_expansion, Hex, Hin.
Qed.
End ContractChainRule.

(* squared loss: the loss-level expansion holds everywhere, so for ANY model satisfying the contract the
   returned vector is the exact parameter gradient of the mean squared error, with explicit remainder *)
Section SqGeneric.
Variables (meval : vec -> vec -> vec) (mwpd : vec -> list (vec * vec) -> vec)
          (mdp : vec -> vec -> vec -> vec) (mrp : vec -> vec -> Q -> vec -> vec) (np nin nout : nat).
Hypothesis contract : model_contract meval mwpd mdp mrp np nin nout.
Variables (theta dtheta : vec) (t : Q).
Hypothesis len_theta : length theta = np.
Hypothesis len_dtheta : length dtheta = np.

Definition sq_rl (e : elem) : Q :=
  (1#2) * normsq (vaxpy t (mrp theta dtheta t (fst e)) (mdp theta dtheta (fst e))).

Lemma sq_loss_expansion (e : elem) :
  length (fst e) = nin -> length (snd (snd e)) = nout ->
  loss_expansion meval mdp mrp nin nout LSq theta dtheta t sq_rl e.
Proof.
  intros Hx Hl. destruct contract as [_ Hc].
  destruct (Hc theta dtheta (fst e) len_theta len_dtheta Hx) as (Lp & Ldp & Hadj & Hexp).
  destruct (Hexp t) as (Lrp & Hv).
  unfold loss_expansion. cbn [loss_evald loss_eval vlabs map fst snd]. split; [exact Hx|]. split.
  - unfold sq_evald. cbn [snd map nth fst]. rewrite vsub_length; lia.
  - unfold sq_eval, sq_evald. cbn [map fst snd nth qsum fold_right].
    rewrite (sqdiff_veql _ _ _ Hv).
    assert (Lv : length (vaxpy t (mrp theta dtheta t (fst e)) (mdp theta dtheta (fst e))) = nout)
      by (rewrite vaxpy_length; lia).
    rewrite sqdiff_step by lia. unfold sq_rl. ring.
Qed.

Theorem sq_gen_error_gradient threads (d : @data elem) :
  (1 <= threads)%nat -> sq_shapes nin nout d ->
  nth 0 (errfn (gen_bq_eval (meval (vaxpy t dtheta theta)) nout LSq) threads d) 0
  - nth 0 (errfn (gen_bq_eval (meval theta) nout LSq) threads d) 0
  == t * (pdot (tl (errfn (gen_bq (meval theta) (mwpd theta) nout LSq) threads d)) dtheta
          + t * (qsum (map (contract_rem meval mrp nout LSq theta dtheta t sq_rl) (elems d)) / Qn (nelems d))).
Proof.
  intros HT Hs.
  apply (contract_error_grad_is_param_grad meval mwpd mdp mrp np nin nout contract LSq theta dtheta t sq_rl
           len_theta len_dtheta threads d HT).
  intros e Hin. destruct (Hs e Hin). apply sq_loss_expansion; assumption.
Qed.
End SqGeneric.

(* ------------------------------------------------------------------------------------------ *)
(* instance 1: the linear model.  lin_bq IS gen_bq of (lin_eval m, lin_wpd); the generic theorem gives
   back C06Aux.error_grad_is_param_grad *)
Lemma lin_bq_is_gen k m : lin_bq k m = gen_bq (lin_eval m) lin_wpd (length (lb m)) k.
Proof. reflexivity. Qed.
Lemma lin_bq_eval_is_gen k m : lin_bq_eval k m = gen_bq_eval (lin_eval m) (length (lb m)) k.
Proof. reflexivity. Qed.

Lemma lin_wpd_sum xg : veq (lin_wpd xg) (vsum (map (fun p => lin_wpd [p]) xg)).
Proof. unfold lin_wpd at 1. apply vsum_map_ext. intros [x g]. rewrite lin_wpd_single. reflexivity. Qed.

Theorem lin_instance_of_generic k nin nout m dm t r :
  lin_wf nin nout m -> lin_wf nin nout dm ->
  forall e, elem_expansion k nin nout m dm t r e ->
    gen_elem_expansion (lin_eval m) (lin_eval (madd t dm m)) lin_wpd nout k (lin_params dm) t r e.
Proof.
  intros Hm Hdm e (Hx & Hg & He). unfold gen_elem_expansion. exists (lin_eval dm (fst e)). split.
  - rewrite lin_wpd_single. destruct (lin_adjoint nin nout dm (fst e) _ Hdm Hx Hg) as [A L].
    rewrite pdot_dot by exact L. exact A.
  - exact He.
Qed.

Theorem error_grad_is_param_grad_via_generic k nin nout m dm t r threads (d : @data elem) :
  lin_wf nin nout m -> lin_wf nin nout dm -> (1 <= threads)%nat ->
  (forall e, In e (elems d) -> elem_expansion k nin nout m dm t r e) ->
  nth 0 (ef_eval k (madd t dm m) threads d) 0 - nth 0 (ef_eval k m threads d) 0
  == t * (pdot (tl (ef_evald k m threads d)) (lin_params dm) + t * (qsum (map r (elems d)) / Qn (nelems d))).
Proof.
  intros Hm Hdm HT Hex. unfold ef_eval, ef_evald.
  rewrite lin_bq_is_gen, !lin_bq_eval_is_gen.
  assert (Lm : length (lb m) = nout) by apply Hm.
  assert (Lm' : length (lb (madd t dm m)) = nout) by (apply (madd_wf nin nout t dm m Hm Hdm)).
  rewrite Lm, Lm'.
  apply (gen_error_grad_is_param_grad (lin_eval m) (lin_eval (madd t dm m)) lin_wpd nout k (lin_params dm) t r
           lin_wpd_sum threads d HT).
  intros e Hin. apply (lin_instance_of_generic k nin nout m dm t r Hm Hdm e (Hex e Hin)).
Qed.

(* ------------------------------------------------------------------------------------------ *)
(* instance 2: LinearModel >> LinearModel (C06Model.net2), bilinear in its parameters.
   h = W1 x + b1, out = W2 h + b2.  Along (dW1, db1, dW2, db2):
     out' = out + t * (W2 dh + dW2 h + db2) + t^2 * dW2 dh,   dh = dW1 x + db1
   and the coded weightedParameterDerivative (coefficients propagated through W2^T) satisfies the adjoint
   identity, so the generic theorem applies with a non-zero model remainder. *)
Lemma veql_trans a b c : veql a b -> veql b c -> veql a c.
Proof.
  intros H; revert c. induction H as [|x y a b Hxy _ IH]; intros c Hc; inversion Hc; subst; constructor.
  - rewrite Hxy. assumption.
  - apply IH. assumption.
Qed.

Lemma dot_veql_r row : forall x x', veql x x' -> dot row x == dot row x'.
Proof.
  induction row as [|a row IH]; intros x x' H; destruct H as [|u u' x x' Hu H]; simpl; try reflexivity.
  rewrite (IH x x' H), Hu. reflexivity.
Qed.

Lemma lin_eval_veql m x x' : veql x x' -> veql (lin_eval m x) (lin_eval m x').
Proof.
  intros H. unfold lin_eval. generalize (lb m). induction (lW m) as [|row W IH]; intros [|bj b]; simpl; try constructor.
  - rewrite (dot_veql_r row x x' H). reflexivity.
  - apply IH.
Qed.

Definition lin0 (m : linmodel) (u : vec) : vec := map (fun row => dot row u) (lW m).

Lemma lin_eval_input_affine t m h dh : length (lb m) = length (lW m) -> length dh = length h ->
  veql (lin_eval m (vaxpy t dh h)) (vaxpy t (lin0 m dh) (lin_eval m h)).
Proof.
  intros Hb Hd. unfold lin_eval, lin0. revert Hb. generalize (lb m).
  induction (lW m) as [|row W IH]; intros [|bj b] Hb; simpl in *; try discriminate; constructor.
  - rewrite (dot_vaxpy_r t row dh h Hd). ring.
  - apply IH. lia.
Qed.

Lemma vaxpy_veql t : forall a a' b b', veql a a' -> veql b b' -> veql (vaxpy t a b) (vaxpy t a' b').
Proof.
  intros a a' b b' Ha; revert b b'. induction Ha as [|x x' a a' Hx _ IH]; intros b b' Hb; destruct Hb as [|y y' b b' Hy Hb]; simpl; constructor.
  - rewrite Hx, Hy. reflexivity.
  - apply IH. exact Hb.
Qed.

Lemma regroup t : forall O D1 D2 R, length D1 = length O -> length D2 = length O -> length R = length O ->
  veql (vaxpy t (vaxpy t R D2) (vaxpy t D1 O)) (vaxpy t (vaxpy t R (vaxpy 1 D1 D2)) O).
Proof.
  induction O as [|o O IH]; intros [|d1 D1] [|d2 D2] [|r R] H1 H2 H3; simpl in *; try discriminate; constructor.
  - ring.
  - apply IH; lia.
Qed.

Definition net2_madd (t : Q) (dm m : net2) : net2 :=
  {| n1 := madd t (n1 dm) (n1 m); n2 := madd t (n2 dm) (n2 m) |}.
Definition net2_params (m : net2) : vec := lin_params (n1 m) ++ lin_params (n2 m).
Definition net2_wf (nin nh nout : nat) (m : net2) : Prop := lin_wf nin nh (n1 m) /\ lin_wf nh nout (n2 m).

(* first-order change of the output and second-order remainder *)
Definition net2_dp (m dm : net2) (x : vec) : vec :=
  let h := lin_eval (n1 m) x in let dh := lin_eval (n1 dm) x in
  vaxpy 1 (lin0 (n2 m) dh) (lin_eval (n2 dm) h).
Definition net2_rp (dm : net2) (x : vec) : vec := lin0 (n2 dm) (lin_eval (n1 dm) x).

Lemma lin0_length nin nout m u : lin_wf nin nout m -> length (lin0 m u) = nout.
Proof. intros (HW & _). unfold lin0. rewrite map_length. exact HW. Qed.

Theorem net2_eval_expansion nin nh nout t m dm x : net2_wf nin nh nout m -> net2_wf nin nh nout dm ->
  veql (net2_eval (net2_madd t dm m) x)
       (vaxpy t (vaxpy t (net2_rp dm x) (net2_dp m dm x)) (net2_eval m x)) /\
  length (net2_dp m dm x) = nout /\ length (net2_rp dm x) = nout /\ length (net2_eval m x) = nout.
Proof.
  intros [W1 W2] [D1 D2]. unfold net2_eval, net2_madd, net2_dp, net2_rp. cbn [n1 n2].
  set (h := lin_eval (n1 m) x). set (dh := lin_eval (n1 dm) x).
  assert (Lh : length h = nh) by (apply (lin_eval_length nin nh); exact W1).
  assert (Ldh : length dh = nh) by (apply (lin_eval_length nin nh); exact D1).
  assert (LO : length (lin_eval (n2 m) h) = nout) by (apply (lin_eval_length nh nout); exact W2).
  assert (LD2 : length (lin_eval (n2 dm) h) = nout) by (apply (lin_eval_length nh nout); exact D2).
  pose proof (lin0_length nh nout (n2 m) dh W2) as LD1.
  pose proof (lin0_length nh nout (n2 dm) dh D2) as LR.
  split; [|split; [rewrite vaxpy_length; lia | split; assumption]].
  pose proof (lin_eval_affine nin nh t (n1 dm) (n1 m) x W1 D1) as H1. fold h dh in H1.
  eapply veql_trans; [apply lin_eval_veql; exact H1|].
  eapply veql_trans; [apply (lin_eval_affine nh nout t (n2 dm) (n2 m) (vaxpy t dh h) W2 D2)|].
  assert (B2 : length (lb (n2 m)) = length (lW (n2 m))) by (destruct W2 as (a & b & _); lia).
  assert (B2' : length (lb (n2 dm)) = length (lW (n2 dm))) by (destruct D2 as (a & b & _); lia).
  eapply veql_trans.
  - apply vaxpy_veql.
    + apply (lin_eval_input_affine t (n2 dm) h dh B2'). lia.
    + apply (lin_eval_input_affine t (n2 m) h dh B2). lia.
  - apply regroup; lia.
Qed.

(* W^T g *)
Lemma vadd_length : forall a b, length a = length b -> length (vadd a b) = length a.
Proof. induction a as [|x a IH]; intros [|y b] H; simpl in *; try discriminate; [reflexivity|]. rewrite IH by lia. reflexivity. Qed.

Lemma dot_vadd : forall a b u, length a = length b -> dot (vadd a b) u == dot a u + dot b u.
Proof.
  induction a as [|x a IH]; intros [|y b] [|z u] H; simpl in *; try discriminate; try ring.
  rewrite IH by lia. ring.
Qed.

Lemma wid_fold nin u : forall W g acc, (forall row, In row W -> length row = nin) -> length acc = nin -> length g = length W ->
  length (fold_left vadd (map2 (fun row gj => vscale gj row) W g) acc) = nin /\
  dot (fold_left vadd (map2 (fun row gj => vscale gj row) W g) acc) u
  == dot acc u + dot g (map (fun row => dot row u) W).
Proof.
  induction W as [|row W IH]; intros [|gj g] acc Hr Ha Hg; simpl in Hg; try discriminate; cbn [map2 fold_left map dot].
  - split; [exact Ha | ring].
  - assert (Lrow : length row = nin) by (apply Hr; left; reflexivity).
    destruct (IH g (vadd acc (vscale gj row))) as [L E].
    + intros r Hin. apply Hr. right. exact Hin.
    + rewrite vadd_length; rewrite ?vscale_length; lia.
    + lia.
    + split; [exact L|]. rewrite E, dot_vadd by (rewrite vscale_length; lia). rewrite dot_vscale_l. ring.
Qed.

Lemma lin_wid_adjoint nin nout m g u : lin_wf nin nout m -> length g = nout ->
  length (lin_wid nin m g) = nin /\ dot (lin_wid nin m g) u == dot g (lin0 m u).
Proof.
  intros (HW & Hb & Hr) Hg. unfold lin_wid, lin0.
  destruct (wid_fold nin u (lW m) g (repeat 0 nin) Hr (repeat_length _ _)) as [L E]; [unfold vec in *; lia|].
  split; [exact L|]. rewrite E, dot_repeat0. ring.
Qed.

Theorem net2_adjoint nin nh nout m dm x g : net2_wf nin nh nout m -> net2_wf nin nh nout dm ->
  length x = nin -> length g = nout ->
  pdot (net2_wpd1 m x g) (net2_params dm) == dot g (net2_dp m dm x).
Proof.
  intros [W1 W2] [D1 D2] Hx Hg. unfold net2_wpd1, net2_params, net2_dp.
  set (h := lin_eval (n1 m) x). set (dh := lin_eval (n1 dm) x).
  assert (Lh : length h = nh) by (apply (lin_eval_length nin nh); exact W1).
  rewrite Lh.
  destruct (lin_wid_adjoint nh nout (n2 m) g dh W2 Hg) as [Lw Ew].
  destruct (lin_adjoint nin nh (n1 dm) x (lin_wid nh (n2 m) g) D1 Hx Lw) as [A1 L1].
  destruct (lin_adjoint nh nout (n2 dm) h g D2 Lh Hg) as [A2 L2].
  rewrite pdot_dot by (rewrite !app_length; lia).
  rewrite dot_app by exact L1. rewrite A1, A2. fold dh. rewrite Ew.
  assert (LD1 : length (lin0 (n2 m) dh) = nout) by (apply (lin0_length nh nout); exact W2).
  assert (LD2 : length (lin_eval (n2 dm) h) = nout) by (apply (lin_eval_length nh nout); exact D2).
  rewrite dot_vaxpy_r by lia. ring.
Qed.

Lemma net2_wpd_sum m xg : veq (net2_wpd m xg) (vsum (map (fun p => net2_wpd m [p]) xg)).
Proof.
  unfold net2_wpd at 1. apply vsum_map_ext. intros [x g]. unfold net2_wpd. cbn [map fst snd].
  intros k. rewrite (vsum_cons _ [] k), nth_vadd. unfold vsum at 1. cbn [fold_left]. rewrite nth_nil_Q. ring.
Qed.

(* squared loss on the two-layer model: the returned vector is the exact parameter gradient of the mean
   squared error although the model is not linear in its parameters; explicit remainder *)
Definition net2_sq_rem (m dm : net2) (t : Q) (e : elem) : Q :=
  dot (vsub (net2_eval m (fst e)) (snd (snd e))) (net2_rp dm (fst e))
  + (1#2) * normsq (vaxpy t (net2_rp dm (fst e)) (net2_dp m dm (fst e))).

Theorem net2_sq_error_gradient nin nh nout m dm t threads (d : @data elem) :
  net2_wf nin nh nout m -> net2_wf nin nh nout dm -> sq_shapes nin nout d -> (1 <= threads)%nat ->
  nth 0 (net2_ef_eval LSq (net2_madd t dm m) threads d) 0 - nth 0 (net2_ef_eval LSq m threads d) 0
  == t * (pdot (tl (net2_ef_evald LSq m threads d)) (net2_params dm)
          + t * (qsum (map (net2_sq_rem m dm t) (elems d)) / Qn (nelems d))).
Proof.
  intros Hm Hdm Hs HT. unfold net2_ef_eval, net2_ef_evald, net2_bq, net2_bq_eval.
  assert (Lm : length (lb (n2 m)) = nout) by (destruct Hm as [_ (a & b & _)]; exact b).
  assert (Lm' : length (lb (n2 (net2_madd t dm m))) = nout).
  { cbn [net2_madd n2]. destruct Hm as [_ Hm2]. destruct Hdm as [_ Hd2].
    destruct (madd_wf nh nout t (n2 dm) (n2 m) Hm2 Hd2) as (a & b & _). exact b. }
  rewrite Lm, Lm'.
  apply (gen_error_grad_is_param_grad (net2_eval m) (net2_eval (net2_madd t dm m)) (net2_wpd m) nout LSq
           (net2_params dm) t (net2_sq_rem m dm t) (net2_wpd_sum m) threads d HT).
  intros e Hin. destruct (Hs e Hin) as [Hx Hl].
  destruct (net2_eval_expansion nin nh nout t m dm (fst e) Hm Hdm) as (Hv & Ldp & Lrp & LO).
  unfold gen_elem_expansion. cbn [loss_evald loss_eval vlabs map fst snd]. exists (net2_dp m dm (fst e)). split.
  - unfold net2_wpd. cbn [map fst snd].
    assert (Hg : length (nth 0 (snd (sq_evald [(snd (snd e), net2_eval m (fst e))])) []) = nout)
      by (unfold sq_evald; cbn [snd map nth fst]; rewrite vsub_length; lia).
    rewrite <- (net2_adjoint nin nh nout m dm (fst e) _ Hm Hdm Hx Hg).
    apply pdot_proper; [|reflexivity]. intros k. rewrite (vsum_cons _ [] k), nth_vadd. unfold vsum. cbn [fold_left]. rewrite nth_nil_Q. ring.
  - unfold sq_eval, sq_evald. cbn [map fst snd nth qsum fold_right].
    rewrite (sqdiff_veql _ _ _ Hv).
    assert (Lv : length (vaxpy t (net2_rp dm (fst e)) (net2_dp m dm (fst e))) = nout) by (rewrite vaxpy_length; lia).
    rewrite sqdiff_step by lia. unfold net2_sq_rem.
    rewrite (dot_vaxpy_r t (vsub (net2_eval m (fst e)) (snd (snd e))) (net2_rp dm (fst e)) (net2_dp m dm (fst e))) by lia. ring.
Qed.
