(* C04 — ConcatenatedModel over arbitrary layers with optimisation flags (model C04Het.v):
   parameter round trip that skips frozen layers, batch = single, and the chain rule: if every layer's coded derivatives
   are the adjoint of a tangent map of that layer, then the concatenation's weightedDerivatives / weightedParameterDerivative /
   weightedInputDerivative are the adjoint of the composed tangent, with gradient blocks only for the optimised layers,
   in layer order, of the right length.  Any commutative ring, axiom-free. *)
From Coq Require Import List Arith Bool Lia Ring PeanoNat.
From SharkV Require Import C04Model C04Conv C04Pool C04Het C04Aux C04Proofs C04SumProofs C04ConvProofs C04ConvThmProofs.
Import ListNotations.

(* ---------------- parameter vector: frozen layers are skipped and keep their parameters ---------------- *)
Section HetParams.
Variable A : Type.

(* the layer returns the parameters it was given (true for every modelled kind except RBFLayer, which stores exp(p) and returns
   log(exp(p)): there it is the hypothesis log o exp = id) *)
Definition k_faithful (k : lkind A) : Prop := forall p, length p = k_np k -> k_get k p = p.

Theorem hnet_roundtrip (N : hnet A) (t : list A) :
  Forall (fun l => h_opt l = true -> k_faithful (h_kind l)) N ->
  length t = hnet_np N ->
  hnet_params (hnet_set N t) = t /\
  length (hnet_params (hnet_set N t)) = hnet_np N /\
  hnet_np (hnet_set N t) = hnet_np N /\
  map (@h_opt A) (hnet_set N t) = map (@h_opt A) N /\
  map (@h_kind A) (hnet_set N t) = map (@h_kind A) N /\
  (forall i l, nth_error N i = Some l -> h_opt l = false -> nth_error (hnet_set N t) i = Some l).
Proof.
  revert t; induction N as [|l N IH]; intros t FF L; cbn [hnet_np hnet_set hnet_params map] in *.
  - destruct t; [|discriminate]. repeat split; auto; intros i l H; destruct i; discriminate.
  - pose proof (Forall_inv FF) as Fl. pose proof (Forall_inv_tail FF) as FN. destruct (h_opt l) eqn:E.
    + destruct (IH (skipn (k_np (h_kind l)) t) FN) as (I1 & I2 & I3 & I4 & I5 & I6); [rewrite skipn_length; lia|].
      cbn [hnet_np hnet_params map h_opt h_kind h_par].
      rewrite (Fl E (firstn (k_np (h_kind l)) t)) by (rewrite firstn_length; lia).
      rewrite I1, I3, I4, I5.
      repeat split; auto.
      * apply firstn_skipn.
      * rewrite firstn_skipn. lia.
      * intros i l0 H F. destruct i; cbn [nth_error] in *; [inversion H; subst; congruence|]. apply I6; auto.
    + destruct (IH t FN) as (I1 & I2 & I3 & I4 & I5 & I6); [lia|].
      cbn [hnet_np hnet_params map]. rewrite ?E, I1, I3, I4, I5. repeat split; auto.
      intros i l0 H F. destruct i; cbn [nth_error] in *; auto.
Qed.

(* ---------------- batch = single ---------------- *)
Definition k_rowwise (k : lkind A) : Prop := exists f : list A -> list A -> list A, forall p X, k_eval k p X = map (f p) X.

Lemma hnet_eval_is_map (N : hnet A) :
  Forall (fun l => k_rowwise (h_kind l)) N -> exists F : list A -> list A, forall X, hnet_eval N X = map F X.
Proof.
  induction N as [|l N IH]; intros H; cbn [hnet_eval].
  - exists (fun x => x). intros X. symmetry. apply map_id.
  - inversion H as [|? ? [f Hf] HN]; subst. destruct (IH HN) as [F HF].
    exists (fun x => F (f (h_par l) x)). intros X. unfold h_eval. rewrite Hf, HF, map_map. reflexivity.
Qed.

Theorem hnet_batch_eq_single (N : hnet A) (X X' : list (list A)) r r' :
  Forall (fun l => k_rowwise (h_kind l)) N ->
  r < length X -> r' < length X' -> nth r X [] = nth r' X' [] ->
  nth r (hnet_eval N X) [] = hnet_eval1 N (nth r X []) /\
  nth r (hnet_eval N X) [] = nth r' (hnet_eval N X') [].
Proof.
  intros H H1 H2 E. destruct (hnet_eval_is_map N H) as [F HF]. unfold hnet_eval1. rewrite !HF.
  rewrite (nth_map_in _ X r [] []) by auto. rewrite (nth_map_in _ X' r' [] []) by auto. rewrite E. simpl. auto.
Qed.
End HetParams.

(* ---------------- the chain rule ---------------- *)
Section HetChain.
Variable A : Type.
Variables (zero one : A) (add mul sub : A -> A -> A) (opp : A -> A).
Hypothesis Rth : ring_theory zero one add mul sub opp eq.
Add Ring AringH : Rth.

Infix "+" := add : CA_scope.
Infix "*" := mul : CA_scope.
Local Open Scope CA_scope.
Notation dotA := (dot zero add mul).
Notation frA := (fr A zero add mul).
Notation zerosA := (zeros zero).

(* tangent map of a layer: parameters, parameter direction, inputs, input direction -> direction of the outputs *)
Definition tanmap := list A -> list A -> list (list A) -> list (list A) -> list (list A).

(* what the concatenation needs to know about a layer (shapes are preserved; weightedDerivatives = the two separate calls;
   the coded derivatives are the adjoint of the tangent map) *)
Definition kind_ok (k : lkind A) (tan : tanmap) : Prop :=
  forall p dp X dX C,
    length p = k_np k -> length dp = k_np k ->
    rows (k_nin k) X -> rows (k_nin k) dX -> length dX = length X -> rows (k_nout k) C -> length C = length X ->
    rows (k_nout k) (k_eval k p X) /\ length (k_eval k p X) = length X /\
    rows (k_nout k) (tan p dp X dX) /\ length (tan p dp X dX) = length X /\
    rows (k_nin k) (k_wid k p X C) /\ length (k_wid k p X C) = length X /\
    length (k_wpd k p X C) = k_np k /\
    k_wd k p X C = (k_wpd k p X C, k_wid k p X C) /\
    frA C (tan p dp X dX) = dotA (k_wpd k p X C) dp + frA (k_wid k p X C) dX.

Definition tnet := list (hlayer A * tanmap).
Fixpoint tnet_tan (N : tnet) (dps : list (list A)) (X dX : list (list A)) : list (list A) :=
  match N, dps with
  | (l, tan) :: N', dp :: dps' => tnet_tan N' dps' (h_eval l X) (tan (h_par l) dp X dX)
  | _, _ => dX
  end.
(* the direction in the parameter vector of the concatenation: the blocks of the optimised layers *)
Fixpoint hdir (N : tnet) (dps : list (list A)) : list A :=
  match N, dps with
  | (l, _) :: N', dp :: dps' => (if h_opt l then dp else []) ++ hdir N' dps'
  | _, _ => []
  end.
(* layers fit together, every layer is ok, frozen layers do not move *)
Fixpoint chain_ok (nin : nat) (N : tnet) (dps : list (list A)) (nout : nat) : Prop :=
  match N, dps with
  | [], [] => nin = nout
  | (l, tan) :: N', dp :: dps' =>
      k_nin (h_kind l) = nin /\ length (h_par l) = k_np (h_kind l) /\ length dp = k_np (h_kind l) /\
      (h_opt l = false -> dp = zerosA (k_np (h_kind l))) /\ kind_ok (h_kind l) tan /\
      chain_ok (k_nout (h_kind l)) N' dps' nout
  | _, _ => False
  end.

Lemma dot_zeros_r u n : dotA u (zerosA n) = zero.
Proof. rewrite (dot_comm A zero one add mul sub opp Rth). apply (dot_zeros_l A zero one add mul sub opp Rth). Qed.

Lemma wpd_from_false (N : hnet A) X C : hnet_wpd_from false N X C = hnet_wd N X C.
Proof.
  revert X C; induction N as [|l N IH]; intros X C; cbn [hnet_wpd_from hnet_wd]; auto.
  rewrite IH. reflexivity.
Qed.

Theorem het_chain_rule (N : tnet) : forall (dps : list (list A)) nin nout (X dX C : list (list A)),
  chain_ok nin N dps nout ->
  rows nin X -> rows nin dX -> length dX = length X -> rows nout C -> length C = length X ->
  frA C (tnet_tan N dps X dX) = dotA (fst (hnet_wd (map fst N) X C)) (hdir N dps) + frA (snd (hnet_wd (map fst N) X C)) dX /\
  length (fst (hnet_wd (map fst N) X C)) = length (hdir N dps) /\
  length (hdir N dps) = hnet_np (map fst N) /\
  rows nin (snd (hnet_wd (map fst N) X C)) /\ length (snd (hnet_wd (map fst N) X C)) = length X /\
  hnet_wid (map fst N) X C = snd (hnet_wd (map fst N) X C) /\
  (N <> [] -> hnet_wpd (map fst N) X C = fst (hnet_wd (map fst N) X C)).
Proof.
  induction N as [|[l tan] N IH]; intros dps nin nout X dX C CO RX RD LD RC LC; destruct dps as [|dp dps]; cbn [chain_ok] in CO; try contradiction.
  - subst nout. cbn. repeat split; auto; try ring; try (intros F; contradiction).
  - destruct CO as (Enin & Lp & Ldp & Fz & KO & CO'). subst nin.
    cbn [map fst tnet_tan hdir hnet_wd hnet_wid hnet_np].
    set (k := h_kind l) in *. set (p := h_par l) in *.
    set (Y := h_eval l X). set (dY := tan p dp X dX).
    (* shapes of this layer's forward quantities: use any well-shaped coefficient matrix, e.g. the tangent itself *)
    assert (FW : rows (k_nout k) Y /\ length Y = length X /\ rows (k_nout k) dY /\ length dY = length X).
    { destruct (KO p dp X dX (k_eval k p X)) as (K1 & K2 & K3 & K4 & _); auto.
      - (* needs rows / length of eval: obtained from kind_ok with a trivially well-shaped C *)
        destruct (KO p dp X dX (map (fun _ => zerosA (k_nout k)) X)) as (K1 & K2 & _); auto.
        + unfold rows. rewrite Forall_map. apply Forall_forall. intros; unfold zeros; apply repeat_length.
        + apply map_length.
      - destruct (KO p dp X dX (map (fun _ => zerosA (k_nout k)) X)) as (K1 & K2 & _); auto.
        + unfold rows. rewrite Forall_map. apply Forall_forall. intros; unfold zeros; apply repeat_length.
        + apply map_length. }
    destruct FW as (RY & LY & RdY & LdY).
    assert (LdYY : length dY = length Y) by lia. assert (LCY : length C = length Y) by lia.
    destruct (IH dps (k_nout k) nout Y dY C CO' RY RdY LdYY RC LCY) as (I1 & I2 & I3 & I4 & I5 & I6 & I7).
    destruct (hnet_wd (map fst N) Y C) as [g CY] eqn:EW. cbn [fst snd] in *.
    destruct (KO p dp X dX CY) as (_ & _ & _ & _ & K5 & K6 & K7 & K8 & K9); auto; try lia.
    fold k p Y. fold Y in EW. rewrite I6.
    assert (WP : hnet_wpd (map fst ((l, tan) :: N)) X C = fst (hnet_wd (map fst ((l, tan) :: N)) X C)).
    { unfold hnet_wpd. cbn [map fst hnet_wpd_from hnet_wd]. fold k p Y. rewrite wpd_from_false, EW.
      destruct (h_skip l); [reflexivity|]. rewrite K8. reflexivity. }
    cbn [map fst hnet_wd] in WP. fold k p Y in WP. rewrite EW in WP.
    unfold h_skip in *. fold k in WP |- *.
    destruct (h_opt l) eqn:EO; cbn [negb orb] in *.
    + destruct (k_np k =? 0) eqn:E0.
      * (* optimised layer without parameters: only the input derivative *)
        apply Nat.eqb_eq in E0. assert (dp = []) by (destruct dp; auto; simpl in Ldp; lia). subst dp.
        cbn [fst snd app]. rewrite I1. unfold dY. rewrite K9. cbn [dot].
        repeat split; auto; try lia.
        -- destruct (k_wpd k p X CY); simpl; ring.
      * (* optimised layer with parameters: weightedDerivatives of the layer, its block in front *)
        rewrite K8 in WP. rewrite K8. cbn [fst snd] in *.
        rewrite (dot_app A zero one add mul sub opp Rth) by lia.
        rewrite I1. unfold dY. rewrite K9. rewrite !app_length.
        repeat split; auto; try lia; try ring.
    + (* frozen layer: no block, direction zero *)
      cbn [fst snd app] in *. pose proof (Fz eq_refl) as Edp. subst dp. rewrite I1. unfold dY. rewrite K9, dot_zeros_r.
      repeat split; auto; try lia; try ring.
Qed.

End HetChain.
