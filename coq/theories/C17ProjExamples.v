(* C17 — the hypotheses of the projection-tree theorems are satisfiable: concrete LC / KHC trees over Qc. *)
From Coq Require Import List Bool Arith QArith Qcanon Permutation.
From SharkV Require Import C17Model C17Field C17Gen C17Proj C17ProjProofs.
Import ListNotations.

Definition exF : fops Qc := qc_fops (fun x => x).
Definition zq (z : Z) : Qc := qc_make z 1.
Definition fr (n : Z) (d : positive) : Qc := qc_make n d.
Definition zpt (l : list Z) : apoint Qc := map zq l.
Definition show (res : list (Qc * nat)) : list (Q * nat) := map (fun r => (this (fst r), snd r)) res.

(* LC-tree in the plane with the unit normals (3/5, 4/5) and (-4/5, 3/5); duplicates share a leaf *)
Definition ex_data : list (apoint Qc) := [zpt [0; 0]; zpt [3; 4]; zpt [6; 8]; zpt [-4; 3]; zpt [6; 8]]%Z.
Definition ex_lc : ptree (lcnode Qc) :=
  PNode (mkLc Qc [fr 3 5; fr 4 5] (fr 5 2))
        (PNode (mkLc Qc [fr (-4) 5; fr 3 5] (fr 5 2)) (PLeaf [0%nat]) (PLeaf [3%nat]))
        (PNode (mkLc Qc [fr 3 5; fr 4 5] (fr 15 2)) (PLeaf [1%nat]) (PLeaf [4%nat; 2%nat])).

Example lc_example :
  uniformA Qc 2 ex_data /\
  pwf_treeb Qc exF (lcnode Qc) (lc_funct Qc exF) (lc_thr Qc) ex_data ex_lc = true /\
  pnodes_forallb (lcnode Qc) (lc_unitb Qc exF) ex_lc = true /\
  Permutation (pindices (lcnode Qc) ex_lc) (seq 0 (length ex_data)) /\
  show (lc_query Qc exF ex_data ex_lc (zpt [1; 1]) 5) = [(2#1, 0%nat); (13#1, 1%nat); (29#1, 3%nat); (74#1, 4%nat); (74#1, 2%nat)]%Q /\
  map (@this) (pbounds Qc exF (lcnode Qc) (lc_funct Qc exF) (lc_thr Qc) (zpt [1; 1]) [] ex_lc) =
    [0#1; 0#1; 0#1; 729#100; 121#100; 121#100; 3721#100]%Q.
Proof.
  split; [repeat constructor|]. split; [vm_compute; reflexivity|]. split; [vm_compute; reflexivity|].
  split; [|split; vm_compute; reflexivity].
  simpl. apply Permutation_cons; auto. apply perm_trans with [1%nat; 3%nat; 4%nat; 2%nat]; [apply perm_swap|].
  apply Permutation_cons; auto. apply perm_trans with [3%nat; 2%nat; 4%nat]; [apply perm_skip; apply perm_swap|].
  apply perm_trans with [2%nat; 3%nat; 4%nat]; [apply perm_swap | reflexivity].
Qed.

(* KHC-tree with the linear kernel on the same data: anchors (3,4) and (0,0), m_normalInvNorm = 1/5 *)
Definition ex_khc : ptree (khcnode Qc) :=
  PNode (mkKhc Qc 1 0 (fr 1 5) (fr 5 2))
        (PNode (mkKhc Qc 3 0 (fr 1 5) (fr 5 2)) (PLeaf [0%nat]) (PLeaf [3%nat]))
        (PNode (mkKhc Qc 2 1 (fr 1 5) (fr 15 2)) (PLeaf [1%nat]) (PLeaf [4%nat; 2%nat])).

Example khc_example :
  (forall i, (i < length ex_data)%nat -> dimdom Qc 2 (ptA Qc ex_data i)) /\
  pwf_treeb Qc exF (khcnode Qc) (khc_funct Qc exF (lin_k Qc exF) ex_data) (kh_thr Qc) ex_data ex_khc = true /\
  pnodes_forallb (khcnode Qc) (khc_nodeb Qc exF (lin_k Qc exF) ex_data) ex_khc = true /\
  show (khc_query Qc exF (lin_k Qc exF) ex_data ex_khc (zpt [1; 1]) 5) = [(2#1, 0%nat); (13#1, 1%nat); (29#1, 3%nat); (74#1, 4%nat); (74#1, 2%nat)]%Q.
Proof.
  split.
  - intros i Hi. simpl in Hi. do 5 (destruct i as [|i]; [reflexivity|]). exfalso. do 5 apply Nat.succ_lt_mono in Hi. inversion Hi.
  - split; [vm_compute; reflexivity|]. split; vm_compute; reflexivity.
Qed.
