(* C13 — 3-D contributions, part 2: the specification side.  contrib_spec in dimension 3 is the number of unit
   cells dominated by the point and by no other member of the list (positions, so duplicates exclude each other),
   summed level by level of the third objective, in coordinates translated by the reference point. *)
From Coq Require Import List ZArith Lia Bool Arith Permutation Sorted.
From SharkV Require Import ListAux C13Model C13Proofs C13ProofsContrib C13WfgProofs C13Sweep3d C13Sweep3dProofs.
From SharkV Require Import C13ContribMd C13Contrib3d C13Contrib3dBoxProofs.
Import ListNotations.
Local Open Scope Z_scope.

Definition d0 : P3 := mkP3 0 0 0 0.
Definition cov3b (a : P3) (v w c : Z) : bool := cov2b a v w && (f3 a <=? c).

(* exclusive cells, by position in the list *)
Definition exclP2 (A : list P3) (k : nat) (v w : Z) : bool :=
  cov2b (nth k A d0) v w && forallb (fun a' => negb (cov2b a' v w)) (remove_nth k A).
Definition exclP3 (X : list P3) (k : nat) (v w c : Z) : bool :=
  cov3b (nth k X d0) v w c && forallb (fun a' => negb (cov3b a' v w c)) (remove_nth k X).

Section Ranges.
Variables c0 b0 a0 : Z.     (* lower ends of the cell ranges of the three (translated) objectives *)

Definition area2 (A : list P3) (k : nat) : Z := sum2 c0 b0 (fun v w => b2z (exclP2 A k v w)).
Definition EV (X : list P3) (k : nat) (z : Z) : Z :=
  zsum a0 z (fun c => sum2 c0 b0 (fun v w => b2z (exclP3 X k v w c))).
End Ranges.

(* ---------------------------------------------------------------------------------------- *)
Lemma zsum_n_shift n : forall lo d f, zsum_n n lo f = zsum_n n (lo - d) (fun z => f (z + d)).
Proof.
  induction n as [|n IH]; intros lo d f; cbn [zsum_n]; auto.
  replace (lo - d + d) with lo by lia. f_equal. rewrite (IH (lo + 1) d). f_equal. lia.
Qed.

Lemma zsum_shift lo hi d f : zsum lo hi f = zsum (lo - d) (hi - d) (fun z => f (z + d)).
Proof. unfold zsum. replace (hi - d - (lo - d)) with (hi - lo) by lia. apply zsum_n_shift. Qed.

Lemma existsb_remove_nth {A} (f : A -> bool) d : forall i l, (i < length l)%nat ->
  existsb f l = f (nth i l d) || existsb f (remove_nth i l).
Proof.
  induction i as [|i IH]; intros [|x t] H; cbn in *; try lia; auto.
  rewrite (IH t) by lia. destruct (f x), (f (nth i t d)); reflexivity.
Qed.

Lemma forallb_map {A B} (f : B -> bool) (g : A -> B) l : forallb f (map g l) = forallb (fun x => f (g x)) l.
Proof. induction l as [|x l IH]; cbn; auto. now rewrite IH. Qed.

Lemma existsb_map {A B} (f : B -> bool) (g : A -> B) l : existsb f (map g l) = existsb (fun x => f (g x)) l.
Proof. induction l as [|x l IH]; cbn; auto. now rewrite IH. Qed.

Lemma existsb_negb_forallb {A} (f : A -> bool) l : existsb f l = negb (forallb (fun x => negb (f x)) l).
Proof. induction l as [|x l IH]; cbn; auto. rewrite IH. destruct (f x); reflexivity. Qed.

Lemma forallb_ext_in {A} (f g : A -> bool) l : (forall x, In x l -> f x = g x) -> forallb f l = forallb g l.
Proof.
  induction l as [|x l IH]; intros H; cbn; auto. rewrite (H x (or_introl eq_refl)), IH; auto.
  intros y Hy. apply H. now right.
Qed.

Lemma forallb_perm {A} (f : A -> bool) l l' : Permutation l l' -> forallb f l = forallb f l'.
Proof.
  induction 1 as [|x l l' HP IH|x y l|l l' l'' H1 IH1 H2 IH2]; cbn; auto.
  - now rewrite IH.
  - destruct (f x), (f y); reflexivity.
  - congruence.
Qed.

(* ---------------------------------------------------------------------------------------- *)
(* H3 as a triple sum of cell indicators *)
Definition covt (t : triple) (v w z : Z) : bool :=
  let '(x, y, c) := t in (c <=? z) && ((x <=? v) && (y <=? w)).

Lemma cov_pairs_upto z T v w : cov (pairs_upto z T) v w = existsb (fun t => covt t v w z) T.
Proof.
  induction T as [|[[x y] c] T IH]; [reflexivity|]. rewrite pairs_upto_cons. cbn [existsb covt].
  destruct (c <=? z); cbn [andb orb]; [|exact IH]. unfold cov in *. cbn [existsb fst snd]. now rewrite IH.
Qed.

Lemma H3_cells lo r0 r1 r2 T :
  H3 lo r0 r1 r2 T = zsum lo r2 (fun z => zsum lo r1 (fun w => zsum lo r0 (fun v =>
     b2z (existsb (fun t => covt t v w z) T)))).
Proof.
  unfold H3, area_below, width. apply zsum_ext. intros z _. apply zsum_ext. intros w _. apply zsum_ext. intros v _.
  now rewrite cov_pairs_upto.
Qed.

Lemma b2z_orb a b : b2z (a || b) = b2z b + b2z (a && negb b).
Proof. destruct a, b; reflexivity. Qed.

Lemma H3_remove lo r0 r1 r2 T i : (i < length T)%nat ->
  H3 lo r0 r1 r2 T = H3 lo r0 r1 r2 (remove_nth i T) +
    zsum lo r2 (fun z => zsum lo r1 (fun w => zsum lo r0 (fun v =>
      b2z (covt (nth i T (0, 0, 0)) v w z && negb (existsb (fun t => covt t v w z) (remove_nth i T)))))).
Proof.
  intros Hi. rewrite !H3_cells, <- zsum_plus. apply zsum_ext. intros z _.
  rewrite <- zsum_plus. apply zsum_ext. intros w _. rewrite <- zsum_plus. apply zsum_ext. intros v _.
  rewrite (existsb_remove_nth _ (0, 0, 0) i T Hi). apply b2z_orb.
Qed.

(* ---------------------------------------------------------------------------------------- *)
(* translation by the reference point *)
Definition trc (ref p : point) : Z * Z * Z :=
  (nth 0 p 0 - nth 0 ref 0, nth 1 p 0 - nth 1 ref 0, nth 2 p 0 - nth 2 ref 0).
Definition crd3 (a : P3) : Z * Z * Z := (f1 a, f2 a, f3 a).
Definition cov3t (t : Z * Z * Z) (v w c : Z) : bool :=
  let '(x, y, z) := t in ((x <=? v) && (y <=? w)) && (z <=? c).

Lemma cov3b_crd a v w c : cov3b a v w c = cov3t (crd3 a) v w c.
Proof. reflexivity. Qed.

Definition tr_from (s : nat) (ref : point) (S : list point) : list P3 :=
  map (fun ip : nat * point =>
         let '(i, p) := ip in
         mkP3 (nth 0 p 0 - nth 0 ref 0) (nth 1 p 0 - nth 1 ref 0) (nth 2 p 0 - nth 2 ref 0) i)
      (combine (seq s (length S)) S).

Lemma tr_from_crd ref S : forall s, map crd3 (tr_from s ref S) = map (trc ref) S.
Proof.
  unfold tr_from. induction S as [|p S IH]; intros s; cbn [length seq combine map]; auto.
  f_equal. apply IH.
Qed.

Lemma tr_from_idx ref S : forall s, map idx (tr_from s ref S) = seq s (length S).
Proof.
  unfold tr_from. induction S as [|p S IH]; intros s; cbn [length seq combine map]; auto.
  f_equal. apply IH.
Qed.

Lemma translate3_crd ref S : map crd3 (translate3 ref S) = map (trc ref) S.
Proof. apply (tr_from_crd ref S 0). Qed.

Lemma translate3_idx ref S : map idx (translate3 ref S) = seq 0 (length S).
Proof. apply (tr_from_idx ref S 0). Qed.

Lemma translate3_length ref S : length (translate3 ref S) = length S.
Proof. rewrite <- (map_length idx), translate3_idx. apply seq_length. Qed.

Lemma covt_trc r0 r1 r2 p v w z : length p = 3%nat ->
  covt (to_triple p) v w z = cov3t (trc [r0; r1; r2] p) (v - r0) (w - r1) (z - r2).
Proof.
  intros Hp. destruct p as [|x [|y [|c [|? ?]]]]; try discriminate. cbn.
  destruct (Z.leb_spec c z), (Z.leb_spec (c - r2) (z - r2)), (Z.leb_spec x v), (Z.leb_spec (x - r0) (v - r0)),
           (Z.leb_spec y w), (Z.leb_spec (y - r1) (w - r1)); cbn; lia.
Qed.

Lemma nth_map_d {A B} (f : A -> B) l d d' i : (i < length l)%nat -> nth i (map f l) d' = f (nth i l d).
Proof. revert i. induction l as [|a l IH]; intros [|i] H; cbn in *; auto; try lia. apply IH. lia. Qed.

(* the contribution as a count of exclusively dominated cells *)
Theorem contrib_spec_cells r0 r1 r2 S i lo :
  below_ref [r0; r1; r2] S -> lower_bound lo S -> (i < length S)%nat ->
  contrib_spec [r0; r1; r2] S i = EV (lo - r0) (lo - r1) (lo - r2) (translate3 [r0; r1; r2] S) i 0.
Proof.
  intros HB LB Hi. unfold contrib_spec.
  assert (LB' : lower_bound lo (remove_nth i S)) by (apply (lower_bound_incl lo S); [intros q Hq; eapply remove_nth_In; eauto|exact LB]).
  rewrite (hv_spec_H3 r0 r1 r2 S lo HB LB), (hv_spec_H3 r0 r1 r2 _ lo (below_ref_remove _ _ i HB) LB').
  rewrite (H3_remove lo r0 r1 r2 (map to_triple S) i) by (now rewrite map_length).
  rewrite <- remove_nth_map. ring_simplify.
  unfold EV, sum2. rewrite (zsum_shift lo r2 r2). replace (r2 - r2) with 0 by lia.
  apply zsum_ext. intros c Hc. rewrite (zsum_shift lo r1 r1). replace (r1 - r1) with 0 by lia.
  apply zsum_ext. intros w Hw. rewrite (zsum_shift lo r0 r0). replace (r0 - r0) with 0 by lia.
  apply zsum_ext. intros v Hv. f_equal.
  set (X := translate3 [r0; r1; r2] S).
  assert (Hlen3 : forall p, In p S -> length p = 3%nat).
  { intros p Hp. apply (leq_all_length p [r0; r1; r2]). auto. }
  assert (HX : map crd3 X = map (trc [r0; r1; r2]) S) by apply translate3_crd.
  unfold exclP3. f_equal.
  - rewrite (nth_map_d to_triple S [] (0, 0, 0)) by auto.
    rewrite (covt_trc r0 r1 r2) by (apply Hlen3, nth_In; auto).
    replace (v + r0 - r0) with v by lia. replace (w + r1 - r1) with w by lia. replace (c + r2 - r2) with c by lia.
    rewrite cov3b_crd. f_equal.
    rewrite <- (nth_map_d crd3 X d0 (0, 0, 0)) by (unfold X; rewrite translate3_length; auto).
    rewrite HX. symmetry. apply nth_map_d. auto.
  - rewrite existsb_negb_forallb, negb_involutive.
    rewrite (forallb_ext_in _ (fun a' => negb (cov3t (crd3 a') v w c))) by (intros; now rewrite cov3b_crd).
    transitivity (forallb (fun t => negb (cov3t t v w c)) (map crd3 (remove_nth i X))); [|apply (forallb_map (fun t => negb (cov3t t v w c)) crd3)].
    rewrite (remove_nth_map crd3 i X), HX, <- (remove_nth_map (trc [r0; r1; r2])).
    rewrite !forallb_map. apply forallb_ext_in.
    intros p Hp. apply remove_nth_In in Hp. rewrite (covt_trc r0 r1 r2) by auto.
    replace (v + r0 - r0) with v by lia. replace (w + r1 - r1) with w by lia. replace (c + r2 - r2) with c by lia.
    reflexivity.
Qed.

(* ---------------------------------------------------------------------------------------- *)
(* invariance under permutation (the sort by the third objective) *)
Lemma exclP3_perm X Y i k v w c : Permutation X Y -> (i < length X)%nat -> (k < length Y)%nat ->
  nth i X d0 = nth k Y d0 -> exclP3 X i v w c = exclP3 Y k v w c.
Proof.
  intros HP Hi Hk E. unfold exclP3. rewrite E. f_equal. apply forallb_perm.
  apply (Permutation_cons_inv (a := nth k Y d0)).
  rewrite <- E at 1. rewrite <- (remove_nth_perm d0 i X Hi), <- (remove_nth_perm d0 k Y Hk). exact HP.
Qed.

Lemma EV_perm c0 b0 a0 X Y i k z : Permutation X Y -> (i < length X)%nat -> (k < length Y)%nat ->
  nth i X d0 = nth k Y d0 -> EV c0 b0 a0 X i z = EV c0 b0 a0 Y k z.
Proof.
  intros HP Hi Hk E. unfold EV. apply zsum_ext. intros c _. apply sum2_ext. intros v w _ _.
  f_equal. apply exclP3_perm; auto.
Qed.

(* ---------------------------------------------------------------------------------------- *)
(* levels: between two consecutive heights of the sorted list the exclusive cells are those of the prefix *)
Lemma remove_nth_app_l {A} (l1 l2 : list A) : forall k, (k < length l1)%nat ->
  remove_nth k (l1 ++ l2) = remove_nth k l1 ++ l2.
Proof.
  induction l1 as [|x l1 IH]; intros [|k] H; cbn in *; try lia; auto. f_equal. apply IH. lia.
Qed.

Lemma exclP3_level A R k v w c : (k < length A)%nat ->
  (forall a, In a A -> f3 a <= c) -> (forall a, In a R -> c < f3 a) ->
  exclP3 (A ++ R) k v w c = exclP2 A k v w.
Proof.
  intros Hk HA HR. unfold exclP3, exclP2. rewrite app_nth1, remove_nth_app_l by auto. rewrite forallb_app.
  assert (E1 : cov3b (nth k A d0) v w c = cov2b (nth k A d0) v w).
  { unfold cov3b. specialize (HA _ (nth_In A d0 Hk)). destruct (Z.leb_spec (f3 (nth k A d0)) c); [|lia]. apply andb_true_r. }
  rewrite E1. f_equal.
  assert (E2 : forallb (fun a' => negb (cov3b a' v w c)) R = true).
  { apply forallb_forall. intros a Ha. specialize (HR a Ha). unfold cov3b.
    destruct (Z.leb_spec (f3 a) c); [lia|]. now rewrite andb_false_r. }
  rewrite E2, andb_true_r. apply forallb_ext_in. intros a Ha. apply remove_nth_In in Ha. specialize (HA a Ha).
  unfold cov3b. destruct (Z.leb_spec (f3 a) c); [|lia]. now rewrite andb_true_r.
Qed.

Lemma exclP3_later A R k v w c : (length A <= k < length A + length R)%nat -> (forall a, In a R -> c < f3 a) ->
  exclP3 (A ++ R) k v w c = false.
Proof.
  intros Hk HR. unfold exclP3. rewrite app_nth2 by lia.
  assert (Hlt : (k - length A < length R)%nat) by lia.
  specialize (HR _ (nth_In R d0 Hlt)). unfold cov3b. destruct (Z.leb_spec (f3 (nth (k - length A) R d0)) c); [lia|].
  now rewrite andb_false_r.
Qed.
