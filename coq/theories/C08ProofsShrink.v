(* C08 — the shrink test only removes variables that admit no first-order improving feasible step *)
From Coq Require Import QArith Qminmax Lqa Arith Bool List Lia.
From SharkV Require Import C08Model C08Defs C08Aux C07Proofs.
Open Scope Q_scope.

(* equality-constrained problem: a feasible direction is e_u - e_d with u able to increase (not at its
   upper bound) and d able to decrease (not at its lower bound); its directional derivative is g_u - g_d.
   If testShrinkVariable(a, largestUp, smallestDown) fires with the extrema taken over the first m
   variables, every such direction that involves a is non-improving. *)
Theorem shrink_sound_svm (s : qst) (m a : nat) :
  test_shrink qops true s a (largest_up qops s m) (smallest_down qops s m) = true ->
  (fl s a = true /\ forall d, (d < m)%nat -> fl s d = false -> grad s a - grad s d < 0) \/
  (fu s a = true /\ forall u, (u < m)%nat -> fu s u = false -> grad s u - grad s a < 0).
Proof.
  unfold test_shrink. cbn [o_ltb qops]. intros H. apply orb_prop in H. destruct H as [H|H];
    apply andb_prop in H; destruct H as [H1 H2]; apply qltb_true in H2.
  - left. split; [assumption|]. intros d Hd Fd.
    pose proof (smallest_down_lb s m d Hd Fd). lra.
  - right. split; [assumption|]. intros u Hu Fu.
    pose proof (largest_up_ub s m u Hu Fu). lra.
Qed.

(* box-constrained problem: additionally the single-variable directions +-e_a are feasible; a shrunk
   variable at its lower bound has g_a < 0 (cannot gain by increasing), at its upper bound g_a > 0 *)
Theorem shrink_sound_box (s : qst) (a : nat) (lu sd : Q) :
  test_shrink qops false s a lu sd = true ->
  (fl s a = true /\ grad s a < 0) \/ (fu s a = true /\ 0 < grad s a).
Proof.
  unfold test_shrink, minA, maxA. cbn [o_ltb o_zero qops]. intros H. apply orb_prop in H.
  destruct H as [H|H]; apply andb_prop in H; destruct H as [H1 H2]; apply qltb_true in H2.
  - left. split; [assumption|]. destruct (qltb_spec 0 sd) as [[E L]|[E L]]; rewrite E in H2; lra.
  - right. split; [assumption|]. destruct (qltb_spec lu 0) as [[E L]|[E L]]; rewrite E in H2; lra.
Qed.
Print Assumptions shrink_sound_svm.
Print Assumptions shrink_sound_box.

(* ---- unshrink rebuilds the gradient of the shrunk variables from the edge gradient ---- *)
Section Unshrink.
Variable n : nat.
Variable K0 : nat -> nat -> Q.
Hypothesis Hsym : Ksym K0.

Definition fcontrib (s : qst) (b : nat) : Q := if fl s b || fu s b then 0 else alpha s b.

Lemma unshrink_val_sum (s : qst) a k :
  unshrink_val qops K0 s a k == gedge s a - sumn k (fun i => Kq K0 s a i * fcontrib s i).
Proof.
  induction k; cbn [unshrink_val sumn].
  - lra.
  - cbv zeta. unfold fcontrib at 2. rewrite (orb_comm (fu s k) (fl s k)).
    destruct (fl s k || fu s k); cbn [o_sub o_mul qops]; rewrite IHk.
    + lra.
    + unfold Kq, K. rewrite (Hsym (perm s k) (perm s a)). ring.
Qed.

Theorem unshrink_restores (s : qst) :
  Inv_grad n K0 s -> Inv_edge n K0 s -> Inv_shrunk n s ->
  let s' := unshrink qops n K0 s in
  Inv_grad_all n K0 s' /\ active s' = n /\ alpha s' = alpha s /\ perm s' = perm s /\
  lin s' = lin s /\ lo s' = lo s /\ hi s' = hi s /\ fl s' = fl s /\ fu s' = fu s /\ gedge s' = gedge s.
Proof.
  intros IG IE [Hact Hsh] s'. unfold s', unshrink.
  destruct (Nat.eqb_spec (active s) n) as [E|NE].
  - repeat split; auto. intros a Ha. apply IG. lia.
  - cbn [alpha grad gedge lin lo hi perm fl fu active unshr]. repeat split; auto.
    intros a Ha. cbn [alpha grad gedge lin lo hi perm fl fu active unshr].
    change (Kalpha n K0 _ a) with (Kalpha n K0 s a).
    destruct (Nat.leb_spec (active s) a) as [L|L]; cbn [andb].
    + apply Nat.ltb_lt in Ha. rewrite Ha. rewrite unshrink_val_sum. rewrite (IE a ltac:(apply Nat.ltb_lt; exact Ha)).
      unfold Kalpha.
      rewrite (sumn_ext n (fun b => Kq K0 s a b * alpha s b)
                          (fun b => Kq K0 s a b * bcontrib s b + Kq K0 s a b * fcontrib s b)).
      2:{ intros b Hb. unfold bcontrib, fcontrib. destruct (fl s b || fu s b); ring. }
      rewrite sumn_add.
      rewrite (sumn_trunc (active s) n (fun b => Kq K0 s a b * fcontrib s b) Hact).
      2:{ intros b Hb. unfold fcontrib. rewrite (Hsh b Hb). ring. }
      ring.
    + apply IG. assumption.
Qed.
End Unshrink.
Print Assumptions unshrink_restores.
