(* C13 — upperEnvelope of HypervolumeSubsetSelection2D.h (model C13Hssp.v: deque with pop_back / pop_front) computes,
   for lines with strictly increasing slopes and non-decreasing query points,
        h_i = max_{j <= i} f_j(x_i)   and an index chosen_i <= i that attains it.
   Axiom-free (lists, nat, Z). *)
From Coq Require Import List ZArith Lia Bool Arith.
From SharkV Require Import ListAux C13Model C13Hssp.
Import ListNotations.
Local Open Scope Z_scope.

Definition dl : line := (0, 0, 0%nat).
Definition d0 : Z * nat := (0, 0%nat).

Definition env_ok (env : list line -> list Z -> list (Z * nat)) : Prop :=
  forall funs xs, length funs = length xs ->
    (forall i j, (i < j < length funs)%nat -> la (nth i funs dl) < la (nth j funs dl)) ->
    (forall i j, (i <= j < length xs)%nat -> nth i xs 0 <= nth j xs 0) ->
    (forall j, (j < length funs)%nat -> lidx (nth j funs dl) = j) ->
    length (env funs xs) = length xs /\
    forall t, (t < length xs)%nat ->
      (snd (nth t (env funs xs) d0) <= t)%nat /\
      ev (nth (snd (nth t (env funs xs) d0)) funs dl) (nth t xs 0) = fst (nth t (env funs xs) d0) /\
      forall j, (j <= t)%nat -> ev (nth j funs dl) (nth t xs 0) <= fst (nth t (env funs xs) d0).

(* ---------------------------------------------------------------------------------------- *)
(* geometry of three lines *)
Definition hullP (g1 g2 g3 : line) : Prop :=
  (lb g2 - lb g1) * (la g3 - la g2) > (lb g2 - lb g3) * (la g1 - la g2).

Lemma inter_le_false F s1 s2 : la s2 < la s1 -> la s1 < la F ->
  inter_le F s1 s2 s1 = false -> hullP s2 s1 F.
Proof.
  intros H1 H2. unfold inter_le, qle, hullP.
  destruct (Z.ltb_spec 0 ((la F - la s1) * (la s2 - la s1))) as [H|H]; [nia|].
  intros E. apply Z.leb_gt in E. lia.
Qed.

Lemma inter_le_true F s1 s2 x : la s2 < la s1 -> la s1 < la F ->
  inter_le F s1 s2 s1 = true -> ev s1 x <= ev s2 x \/ ev s1 x <= ev F x.
Proof.
  intros H1 H2. unfold inter_le, qle, ev.
  destruct (Z.ltb_spec 0 ((la F - la s1) * (la s2 - la s1))) as [H|H]; [nia|].
  intros E. apply Z.leb_le in E.
  destruct (Z.le_gt_cases (la s1 * x + lb s1) (la s2 * x + lb s2)) as [|P]; auto.
  destruct (Z.le_gt_cases (la s1 * x + lb s1) (la F * x + lb F)) as [|Q]; auto.
  exfalso.
  set (u := la s1 - la s2) in *. set (v := la F - la s1) in *.
  set (p := u * x + lb s1 - lb s2). set (q := lb s1 - lb F - v * x).
  assert (p >= 1) by (unfold p, u; lia). assert (q >= 1) by (unfold q, v; lia).
  assert (p * v + q * u = (lb s1 - lb s2) * v + (lb s1 - lb F) * u) by (unfold p, q; ring).
  assert (u > 0) by (unfold u; lia). assert (v > 0) by (unfold v; lia).
  assert ((lb s1 - lb s2) * v + (lb s1 - lb F) * u <= 0) by (unfold u, v; lia).
  nia.
Qed.

Lemma hull_chain g1 g2 g3 x : la g1 < la g2 -> la g2 < la g3 -> hullP g1 g2 g3 ->
  ev g1 x > ev g2 x -> ev g2 x > ev g3 x.
Proof.
  unfold hullP, ev. intros H1 H2 HP P.
  set (u := la g2 - la g1) in *. set (v := la g3 - la g2) in *.
  set (p := lb g1 - lb g2 - u * x). set (q := lb g2 - lb g3 - v * x).
  assert (p >= 1) by (unfold p, u; lia).
  assert (u > 0) by (unfold u; lia). assert (v > 0) by (unfold v; lia).
  assert (q * u - p * v = (lb g2 - lb g3) * u + (lb g2 - lb g1) * v) by (unfold p, q; ring).
  assert ((lb g2 - lb g1) * v + (lb g2 - lb g3) * u > 0) by (unfold u, v; lia).
  assert (q > 0) by nia. unfold q, v in *. lia.
Qed.

Lemma steeper_later g1 g2 x x' : la g1 < la g2 -> ev g1 x <= ev g2 x -> x <= x' -> ev g1 x' <= ev g2 x'.
Proof. unfold ev. intros. nia. Qed.

(* ---------------------------------------------------------------------------------------- *)
(* deque predicates (front first) *)
Local Close Scope Z_scope.
Definition slope (s : list line) : Prop :=
  forall i j, i < j -> j < length s -> (la (nth i s dl) < la (nth j s dl))%Z.
Definition hull (s : list line) : Prop :=
  forall i, i + 2 < length s -> hullP (nth i s dl) (nth (i + 1) s dl) (nth (i + 2) s dl).

Lemma slope_prefix p d : slope (p ++ d) -> slope p.
Proof.
  intros H i j Hij Hj. specialize (H i j Hij). rewrite app_length in H.
  rewrite !app_nth1 in H by lia. apply H. lia.
Qed.
Lemma slope_suffix p d : slope (p ++ d) -> slope d.
Proof.
  intros H i j Hij Hj. specialize (H (length p + i) (length p + j)). rewrite app_length in H.
  rewrite !app_nth2_plus in H. apply H; lia.
Qed.
Lemma hull_prefix p d : hull (p ++ d) -> hull p.
Proof.
  intros H i Hi. specialize (H i). rewrite app_length in H.
  rewrite !app_nth1 in H by lia. apply H. lia.
Qed.
Lemma hull_suffix p d : hull (p ++ d) -> hull d.
Proof.
  intros H i Hi. specialize (H (length p + i)). rewrite app_length in H.
  replace (length p + i + 1) with (length p + (i + 1)) in H by lia.
  replace (length p + i + 2) with (length p + (i + 2)) in H by lia.
  rewrite !app_nth2_plus in H. apply H; lia.
Qed.

Lemma slope_snoc p F : slope p -> (forall g, In g p -> (la g < la F)%Z) -> slope (p ++ [F]).
Proof.
  intros H HF i j Hij Hj. rewrite app_length in Hj. cbn in Hj.
  destruct (Nat.eq_dec j (length p)) as [->|Hne].
  - rewrite app_nth1 by lia. rewrite app_nth2, Nat.sub_diag by lia. cbn. apply HF, nth_In. lia.
  - rewrite !app_nth1 by lia. apply H; lia.
Qed.

Lemma hull_snoc p F : hull p ->
  (2 <= length p -> hullP (nth (length p - 2) p dl) (nth (length p - 1) p dl) F) -> hull (p ++ [F]).
Proof.
  intros H HF i Hi. rewrite app_length in Hi. cbn in Hi.
  destruct (Nat.eq_dec (i + 2) (length p)) as [E|Hne].
  - rewrite !app_nth1 by lia. rewrite (app_nth2 p [F]), E, Nat.sub_diag by lia. cbn [nth].
    replace i with (length p - 2) by lia. replace (length p - 2 + 1) with (length p - 1) by lia. apply HF. lia.
  - rewrite !app_nth1 by lia. apply H. lia.
Qed.

Lemma slope_cons g1 g2 t : slope (g1 :: g2 :: t) -> (la g1 < la g2)%Z.
Proof. intros H. apply (H 0 1); cbn; lia. Qed.

Lemma nth_snoc2_a (q : list line) a b : nth (length (q ++ [a; b]) - 2) (q ++ [a; b]) dl = a.
Proof. rewrite app_length. cbn [length]. rewrite app_nth2 by lia. replace (length q + 2 - 2 - length q) with 0 by lia. reflexivity. Qed.
Lemma nth_snoc2_b (q : list line) a b : nth (length (q ++ [a; b]) - 1) (q ++ [a; b]) dl = b.
Proof. rewrite app_length. cbn [length]. rewrite app_nth2 by lia. replace (length q + 2 - 1 - length q) with 1 by lia. reflexivity. Qed.

(* ---------------------------------------------------------------------------------------- *)
(* the two loops *)
Lemma pop_back_prefix F : forall s, slope s -> (forall g, In g s -> (la g < la F)%Z) ->
  exists p d, s = p ++ d /\ pop_back F (rev s) = rev p /\
    (2 <= length p -> hullP (nth (length p - 2) p dl) (nth (length p - 1) p dl) F) /\
    (forall g, In g d -> forall x, exists g', In g' (p ++ [F]) /\ (ev g x <= ev g' x)%Z).
Proof.
  induction s as [|s1 s0 IH] using rev_ind; intros HS HF.
  - exists [], []. cbn. split; auto. split; auto. split; [lia|intros g []].
  - rewrite rev_app_distr. cbn [rev app].
    destruct (rev s0) as [|s2 r] eqn:E.
    + assert (s0 = []) as -> by (rewrite <- (rev_involutive s0), E; reflexivity).
      exists [s1], []. cbn. split; auto. split; auto. split; [lia|intros g []].
    + assert (E0 : s0 = rev r ++ [s2]) by (rewrite <- (rev_involutive s0), E; reflexivity).
      assert (E1 : s0 ++ [s1] = rev r ++ [s2; s1]) by (rewrite E0, <- app_assoc; reflexivity).
      assert (L12 : (la s2 < la s1)%Z).
      { rewrite E1 in HS. apply slope_suffix in HS. now apply slope_cons in HS. }
      assert (L1F : (la s1 < la F)%Z) by (apply HF, in_or_app; right; now left).
      change (pop_back F (s1 :: s2 :: r)) with (if inter_le F s1 s2 s1 then pop_back F (s2 :: r) else s1 :: s2 :: r).
      destruct (inter_le F s1 s2 s1) eqn:EI.
      * destruct (IH (slope_prefix _ _ HS)) as [p [d [Hs0 [Hpb [Hh Hd]]]]].
        { intros g Hg. apply HF, in_or_app. now left. }
        exists p, (d ++ [s1]). split; [rewrite Hs0, app_assoc; reflexivity|].
        split; [exact Hpb|]. split; auto.
        intros g Hg x. apply in_app_or in Hg. destruct Hg as [Hg|[<-|[]]]; [now apply Hd|].
        destruct (inter_le_true F s1 s2 x L12 L1F EI) as [H|H].
        -- assert (In s2 s0) as Hin by (rewrite E0; apply in_or_app; right; now left).
           rewrite Hs0 in Hin. apply in_app_or in Hin. destruct Hin as [Hin|Hin].
           ++ exists s2. split; [apply in_or_app; now left|exact H].
           ++ destruct (Hd s2 Hin x) as [g' [Hg' Hle]]. exists g'. split; auto. lia.
        -- exists F. split; [apply in_or_app; right; now left|exact H].
      * exists (s0 ++ [s1]), []. rewrite app_nil_r. split; auto.
        split; [rewrite rev_app_distr, E; reflexivity|]. split; [|intros g []].
        intros _. rewrite E1, nth_snoc2_a, nth_snoc2_b.
        now apply inter_le_false.
Qed.

Lemma pop_front_spec x : forall s, slope s -> s <> [] ->
  exists d p, s = d ++ p /\ pop_front x s = p /\ p <> [] /\
    (2 <= length p -> (ev (nth 0 p dl) x > ev (nth 1 p dl) x)%Z) /\
    (forall g, In g d -> forall x', (x <= x')%Z -> exists g', In g' p /\ (ev g x' <= ev g' x')%Z).
Proof.
  induction s as [|g1 s IH]; intros HS Hne; [congruence|].
  destruct s as [|g2 t].
  - exists [], [g1]. cbn. split; auto. split; auto. split; [discriminate|]. split; [lia|intros g []].
  - cbn [pop_front]. destruct (Z.leb_spec (ev g1 x) (ev g2 x)) as [Hle|Hgt].
    + destruct IH as [d [p [Hs [Hpf [Hp [Hfr Hd]]]]]]; [apply (slope_suffix [g1]); exact HS|discriminate|].
      exists (g1 :: d), p. split; [cbn; now rewrite <- Hs|]. split; auto. split; auto. split; auto.
      intros g [<-|Hg] x' Hx'; [|now apply Hd].
      pose proof (steeper_later g1 g2 x x' (slope_cons _ _ _ HS) Hle Hx') as H12.
      assert (In g2 (d ++ p)) as Hin by (rewrite <- Hs; now left).
      apply in_app_or in Hin. destruct Hin as [Hin|Hin].
      * destruct (Hd g2 Hin x' Hx') as [g' [Hg' Hle']]. exists g'. split; auto. lia.
      * exists g2. split; auto.
    + exists [], (g1 :: g2 :: t). cbn [app]. split; auto. split; auto. split; [discriminate|].
      split; [intros _; cbn; lia|intros g []].
Qed.

(* the front of a hull whose first two lines are strictly ordered at x is the maximum at x *)
Lemma front_is_max s x : slope s -> hull s ->
  (2 <= length s -> (ev (nth 0 s dl) x > ev (nth 1 s dl) x)%Z) ->
  forall g, In g s -> (ev g x <= ev (nth 0 s dl) x)%Z.
Proof.
  intros HS HH Hfr.
  assert (C : forall t, t + 1 < length s -> (ev (nth t s dl) x > ev (nth (t + 1) s dl) x)%Z).
  { induction t as [|t IHt]; intros Ht; [apply Hfr; lia|].
    replace (S t + 1) with (t + 2) by lia. replace (S t) with (t + 1) by lia.
    apply (hull_chain (nth t s dl)).
    - apply HS; lia.
    - apply HS; lia.
    - apply HH. lia.
    - apply IHt. lia. }
  assert (M : forall t, t < length s -> (ev (nth t s dl) x <= ev (nth 0 s dl) x)%Z).
  { induction t as [|t IHt]; intros Ht; [lia|].
    specialize (C t ltac:(lia)). replace (t + 1) with (S t) in C by lia. specialize (IHt ltac:(lia)). lia. }
  intros g Hg. destruct (In_nth s g dl Hg) as [t [Ht <-]]. now apply M.
Qed.

(* ---------------------------------------------------------------------------------------- *)
(* the fold *)
Section Env.
Variables (funs : list line) (xs : list Z).
Hypothesis Hlen : length funs = length xs.
Hypothesis Hslope : forall i j, i < j < length funs -> (la (nth i funs dl) < la (nth j funs dl))%Z.
Hypothesis Hxs : forall i j, i <= j < length xs -> (nth i xs 0 <= nth j xs 0)%Z.
Hypothesis Hidx : forall j, j < length funs -> lidx (nth j funs dl) = j.

Definition outspec (t : nat) (hc : Z * nat) : Prop :=
  snd hc <= t /\ ev (nth (snd hc) funs dl) (nth t xs 0%Z) = fst hc /\
  forall j, j <= t -> (ev (nth j funs dl) (nth t xs 0%Z) <= fst hc)%Z.

Record DInv (i : nat) (s : list line) : Prop := {
  d_mem : forall g, In g s -> exists j, j < i /\ g = nth j funs dl;
  d_slope : slope s;
  d_hull : hull s;
  d_dom : forall j, j < i -> forall x', (nth (i - 1) xs 0 <= x')%Z ->
            exists g, In g s /\ (ev (nth j funs dl) x' <= ev g x')%Z }.

Lemma env_push_inv i s : i < length funs -> DInv i s -> (i = 0 -> s = []) ->
  let s' := env_push (nth i funs dl) (nth i xs 0%Z) s in
  DInv (S i) s' /\ s' <> [] /\
  outspec i (match s' with g :: _ => (ev g (nth i xs 0%Z), lidx g) | [] => (0%Z, 0) end).
Proof.
  intros Hi [Hmem HS HH Hdom] H0. set (F := nth i funs dl). set (x := nth i xs 0%Z).
  assert (HF : forall g, In g s -> (la g < la F)%Z).
  { intros g Hg. destruct (Hmem g Hg) as [j [Hj ->]]. apply Hslope. lia. }
  destruct (pop_back_prefix F s HS HF) as [p [d [Hs [Hpb [Hhp Hdp]]]]].
  assert (HS1 : slope (p ++ [F])).
  { apply slope_snoc; [rewrite Hs in HS; eapply slope_prefix; eauto|].
    intros g Hg. apply HF. rewrite Hs. apply in_or_app. now left. }
  assert (HH1 : hull (p ++ [F])).
  { apply hull_snoc; auto. rewrite Hs in HH. eapply hull_prefix; eauto. }
  destruct (pop_front_spec x (p ++ [F]) HS1) as [d2 [p2 [Hs2 [Hpf [Hp2 [Hfr Hd2]]]]]]; [destruct p; discriminate|].
  cbv zeta. unfold env_push. fold F. fold x. rewrite Hpb. cbn [rev]. rewrite rev_involutive, Hpf.
  assert (HS2 : slope p2) by (rewrite Hs2 in HS1; eapply slope_suffix; eauto).
  assert (HH2 : hull p2) by (rewrite Hs2 in HH1; eapply hull_suffix; eauto).
  assert (Hmem2 : forall g, In g p2 -> exists j, j < S i /\ g = nth j funs dl).
  { intros g Hg. assert (In g (p ++ [F])) as Hin by (rewrite Hs2; apply in_or_app; now right).
    apply in_app_or in Hin. destruct Hin as [Hin|[<-|[]]]; [|exists i; split; [lia|reflexivity]].
    destruct (Hmem g) as [j [Hj ->]]; [rewrite Hs; apply in_or_app; now left|]. exists j. split; [lia|auto]. }
  (* every line of p ++ [F] is dominated by p2 from x on *)
  assert (D1 : forall g, In g (p ++ [F]) -> forall x', (x <= x')%Z -> exists g', In g' p2 /\ (ev g x' <= ev g' x')%Z).
  { intros g Hg x' Hx'. rewrite Hs2 in Hg. apply in_app_or in Hg. destruct Hg as [Hg|Hg]; [now apply Hd2|].
    exists g. split; auto. lia. }
  assert (D2 : forall j, j < S i -> forall x', (x <= x')%Z -> exists g, In g p2 /\ (ev (nth j funs dl) x' <= ev g x')%Z).
  { intros j Hj x' Hx'. destruct (Nat.eq_dec j i) as [->|Hne].
    - apply D1; auto. apply in_or_app. right. now left.
    - assert (Hx0 : (nth (i - 1) xs 0 <= x')%Z).
      { pose proof (Hxs (i - 1) i ltac:(lia)). fold x in H. lia. }
      destruct (Hdom j ltac:(lia) x' Hx0) as [g [Hg Hle]].
      rewrite Hs in Hg. apply in_app_or in Hg. destruct Hg as [Hg|Hg].
      + destruct (D1 g ltac:(apply in_or_app; now left) x' Hx') as [g' [Hg' Hle']]. exists g'. split; auto. lia.
      + destruct (Hdp g Hg x') as [g1 [Hg1 Hle1]]. destruct (D1 g1 Hg1 x' Hx') as [g' [Hg' Hle']].
        exists g'. split; auto. lia. }
  split; [|split; auto].
  - constructor; auto. intros j Hj x' Hx'. replace (S i - 1) with i in Hx' by lia. now apply D2.
  - destruct p2 as [|g0 p2']; [congruence|].
    pose proof (front_is_max (g0 :: p2') x HS2 HH2 Hfr) as HM. cbn [nth] in HM.
    destruct (Hmem2 g0 (or_introl eq_refl)) as [j0 [Hj0 E0]].
    unfold outspec. cbn [fst snd]. rewrite E0, Hidx by lia. split; [lia|]. split; [reflexivity|].
    intros j Hj. destruct (D2 j ltac:(lia) x ltac:(lia)) as [g [Hg Hle]]. specialize (HM g Hg).
    rewrite <- E0. fold x. lia.
Qed.

Lemma skipn_cons_nth {A} (l : list A) d : forall i, i < length l -> skipn i l = nth i l d :: skipn (S i) l.
Proof.
  induction l as [|a l IH]; intros [|i] Hi; cbn in *; try lia; auto. apply IH. lia.
Qed.

Lemma env_fold : forall rest i s out,
  rest = skipn i (combine funs xs) -> i <= length funs ->
  DInv i s -> (i = 0 -> s = []) -> length out = i -> (forall t, t < i -> outspec t (nth t out d0)) ->
  let r := snd (fold_left env_step rest (s, out)) in
  length r = length funs /\ forall t, t < length funs -> outspec t (nth t r d0).
Proof.
  induction rest as [|e rest IH]; intros i s out Hr Hi HD H0 Hlo Hout; cbn [fold_left snd].
  - assert (length (skipn i (combine funs xs)) = 0) as Hl by (rewrite <- Hr; reflexivity).
    rewrite skipn_length, combine_length in Hl.
    assert (i = length funs) as -> by lia. auto.
  - assert (Hi' : i < length funs).
    { assert (length (skipn i (combine funs xs)) > 0) as Hl by (rewrite <- Hr; cbn; lia).
      rewrite skipn_length, combine_length in Hl. lia. }
    rewrite (skipn_cons_nth _ (dl, 0%Z)) in Hr by (rewrite combine_length; lia).
    injection Hr as He Hrest. rewrite combine_nth in He by auto. subst e.
    destruct (env_push_inv i s Hi' HD H0) as [HD' [Hne Hos]]. cbv zeta in HD', Hne, Hos.
    unfold env_step at 2. cbn [fst snd].
    apply (IH (S i)); auto.
    + intros; lia.
    + rewrite app_length. cbn. lia.
    + intros t Ht. destruct (Nat.eq_dec t i) as [->|Hne'].
      * rewrite app_nth2, Hlo, Nat.sub_diag by lia. cbn [nth]. exact Hos.
      * rewrite app_nth1 by lia. apply Hout. lia.
Qed.
End Env.

Theorem envelope_ok : env_ok envelope.
Proof.
  intros funs xs Hlen Hsl Hxs Hidx. unfold envelope.
  destruct (env_fold funs xs Hlen Hsl Hxs Hidx (combine funs xs) 0 [] []) as [H1 H2]; auto.
  - lia.
  - constructor.
    + intros g [].
    + intros i j _ Hj. cbn in Hj. lia.
    + intros i Hi. cbn in Hi. lia.
    + intros j Hj. lia.
  - intros t Ht. lia.
  - cbv zeta in H1, H2. split; [lia|]. intros t Ht. rewrite <- Hlen in Ht. apply (H2 t Ht).
Qed.
