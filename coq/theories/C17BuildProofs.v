(* C17 — proofs about the kd-tree construction model C17Build.v.  Axiom-free (Z, nat, lists). *)
From Coq Require Import List ZArith Bool Arith Lia Permutation.
From SharkV Require Import C17Model C17Proofs C17Build.
Import ListNotations.
Open Scope Z_scope.

(* ======================================================================================== *)
(* A. bounding box scans                                                                     *)

Section Scan.
Context {A : Type}.
Variable f : A -> Z.

Let fmin := fun (acc : Z) (i : A) => let v := f i in if v <? acc then v else acc.
Let fmax := fun (acc : Z) (i : A) => let v := f i in if acc <? v then v else acc.

Lemma fold_min_le l : forall a, fold_left fmin l a <= a /\ forall i, In i l -> fold_left fmin l a <= f i.
Proof.
  induction l as [|x l IH]; simpl; intros a; [split; [lia | tauto]|].
  destruct (IH (fmin a x)) as [H1 H2]. unfold fmin in *. cbv zeta in *.
  destruct (Z.ltb_spec (f x) a); split; try lia; intros i [<-|Hi]; auto; lia.
Qed.

Lemma fold_max_ge l : forall a, a <= fold_left fmax l a /\ forall i, In i l -> f i <= fold_left fmax l a.
Proof.
  induction l as [|x l IH]; simpl; intros a; [split; [lia | tauto]|].
  destruct (IH (fmax a x)) as [H1 H2]. unfold fmax in *. cbv zeta in *.
  destruct (Z.ltb_spec a (f x)); split; try lia; intros i [<-|Hi]; auto; lia.
Qed.

Lemma fold_min_in l : forall a, fold_left fmin l a = a \/ exists i, In i l /\ fold_left fmin l a = f i.
Proof.
  induction l as [|x l IH]; simpl; intros a; [auto|].
  destruct (IH (fmin a x)) as [H|(i & Hi & H)].
  - rewrite H. unfold fmin. cbv zeta. destruct (Z.ltb_spec (f x) a); [right; exists x; auto | auto].
  - right. exists i; auto.
Qed.

Lemma fold_max_in l : forall a, fold_left fmax l a = a \/ exists i, In i l /\ fold_left fmax l a = f i.
Proof.
  induction l as [|x l IH]; simpl; intros a; [auto|].
  destruct (IH (fmax a x)) as [H|(i & Hi & H)].
  - rewrite H. unfold fmax. cbv zeta. destruct (Z.ltb_spec a (f x)); [right; exists x; auto | auto].
  - right. exists i; auto.
Qed.
End Scan.

Lemma extent_nonneg data first rest d : 0 <= extent data first rest d.
Proof.
  unfold extent, hi_of, lo_of.
  pose proof (fold_min_le (fun i => coord (pt data i) d) rest (coord (pt data first) d)) as [H1 _].
  pose proof (fold_max_ge (fun i => coord (pt data i) d) rest (coord (pt data first) d)) as [H2 _].
  cbv zeta in *. lia.
Qed.

(* extent 0: every point has the coordinate of the first one *)
Lemma extent_zero data first rest d : extent data first rest d = 0 ->
  forall i, In i (first :: rest) -> coord (pt data i) d = coord (pt data first) d.
Proof.
  unfold extent, hi_of, lo_of. intros H i Hi.
  pose proof (fold_min_le (fun i => coord (pt data i) d) rest (coord (pt data first) d)) as [H1 H1'].
  pose proof (fold_max_ge (fun i => coord (pt data i) d) rest (coord (pt data first) d)) as [H2 H2'].
  cbv zeta in *. destruct Hi as [<-|Hi]; [reflexivity|].
  specialize (H1' i Hi). specialize (H2' i Hi). lia.
Qed.

(* extent > 0: two points with different coordinates *)
Lemma extent_pos data first rest d : extent data first rest d <> 0 ->
  exists i j, In i (first :: rest) /\ In j (first :: rest) /\ coord (pt data i) d < coord (pt data j) d.
Proof.
  intros H. pose proof (extent_nonneg data first rest d) as H0. revert H H0.
  unfold extent, hi_of, lo_of. intros H H0.
  pose proof (fold_min_in (fun i => coord (pt data i) d) rest (coord (pt data first) d)) as Hm.
  pose proof (fold_max_in (fun i => coord (pt data i) d) rest (coord (pt data first) d)) as HM.
  cbv zeta in *.
  assert (Hm' : exists i, In i (first :: rest) /\
     fold_left (fun acc i => if coord (pt data i) d <? acc then coord (pt data i) d else acc) rest (coord (pt data first) d)
     = coord (pt data i) d).
  { destruct Hm as [E|(i & Hi & E)]; [exists first | exists i]; simpl; auto. }
  assert (HM' : exists i, In i (first :: rest) /\
     fold_left (fun acc i => if acc <? coord (pt data i) d then coord (pt data i) d else acc) rest (coord (pt data first) d)
     = coord (pt data i) d).
  { destruct HM as [E|(i & Hi & E)]; [exists first | exists i]; simpl; auto. }
  destruct Hm' as (i & Hi & Ei). destruct HM' as (j & Hj & Ej).
  exists i, j. split; [auto|]. split; [auto|]. lia.
Qed.

Lemma scan_dims_spec ext ds : forall cd ex c e, ex = ext cd -> scan_dims ext ds cd ex = (c, e) ->
  e = ext c /\ In c (cd :: ds) /\ ex <= e /\ forall d, In d ds -> ext d <= e.
Proof.
  induction ds as [|d ds IH]; simpl; intros cd ex c e Hex H.
  - inversion H; subst. split; [auto|]. split; [auto|]. split; [lia|]. intros d [].
  - destruct (Z.ltb_spec ex (ext d)).
    + destruct (IH d (ext d) c e eq_refl H) as (A & B & C & D).
      split; [auto|]. split; [destruct B; auto|]. split; [lia|]. intros d' [<-|Hd]; auto.
    + destruct (IH cd ex c e Hex H) as (A & B & C & D).
      split; [auto|]. split; [destruct B; auto|]. split; [lia|]. intros d' [<-|Hd]; auto. lia.
Qed.

(* calculateCuttingDimension returns dim: all points agree in every coordinate below dim *)
Lemma cutting_dim_degenerate data first rest :
  cutting_dim data (first :: rest) = length (pt data first) ->
  forall d, (d < length (pt data first))%nat ->
  forall i, In i (first :: rest) -> coord (pt data i) d = coord (pt data first) d.
Proof.
  unfold cutting_dim. set (dim := length (pt data first)).
  destruct (scan_dims (extent data first rest) (seq 1 (dim - 1)) 0%nat (extent data first rest 0%nat)) as [cd e] eqn:E.
  destruct (scan_dims_spec _ _ _ _ _ _ eq_refl E) as (A & B & C & D).
  intros Hcd d Hd. fold dim in Hd.
  destruct (Z.eqb_spec e 0) as [He|He].
  - apply extent_zero.
    pose proof (extent_nonneg data first rest d).
    destruct d as [|d].
    + lia.
    + assert (extent data first rest (S d) <= e) by (apply D; apply in_seq; lia). lia.
  - exfalso. destruct B as [B|B].
    + lia.
    + apply in_seq in B. lia.
Qed.

(* calculateCuttingDimension returns a dimension: two points differ in that coordinate *)
Lemma cutting_dim_proper data first rest :
  cutting_dim data (first :: rest) <> length (pt data first) ->
  exists i j, In i (first :: rest) /\ In j (first :: rest) /\
    coord (pt data i) (cutting_dim data (first :: rest)) < coord (pt data j) (cutting_dim data (first :: rest)).
Proof.
  unfold cutting_dim. set (dim := length (pt data first)).
  destruct (scan_dims (extent data first rest) (seq 1 (dim - 1)) 0%nat (extent data first rest 0%nat)) as [cd e] eqn:E.
  destruct (scan_dims_spec _ _ _ _ _ _ eq_refl E) as (A & B & C & D).
  destruct (Z.eqb_spec e 0) as [He|He]; [congruence|].
  intros _. apply extent_pos. congruence.
Qed.

(* ======================================================================================== *)
(* B. partitionEqually and splitList                                                         *)

Lemma filter_perm {A} (f : A -> bool) (l : list A) :
  Permutation l (filter f l ++ filter (fun x => negb (f x)) l).
Proof.
  induction l as [|x l IH]; simpl; [constructor|].
  destruct (f x); simpl.
  - constructor; auto.
  - apply Permutation_cons_app; auto.
Qed.

Lemma maxkey_spec (l : list kv) : l <> [] ->
  (exists e, In e l /\ maxkey l = fst e) /\ forall e, In e l -> fst e <= maxkey l.
Proof.
  destruct l as [|e t]; [congruence|]. intros _. unfold maxkey.
  pose proof (fold_max_ge (@fst Z nat) t (fst e)) as [H1 H2].
  pose proof (fold_max_in (@fst Z nat) t (fst e)) as H3. cbv zeta in *.
  split.
  - destruct H3 as [H|(x & Hx & H)]; [exists e | exists x]; simpl; auto.
  - intros x [<-|Hx]; auto.
Qed.

Lemma minkey_spec (l : list kv) : l <> [] ->
  (exists e, In e l /\ minkey l = fst e) /\ forall e, In e l -> minkey l <= fst e.
Proof.
  destruct l as [|e t]; [congruence|]. intros _. unfold minkey.
  pose proof (fold_min_le (@fst Z nat) t (fst e)) as [H1 H2].
  pose proof (fold_min_in (@fst Z nat) t (fst e)) as H3. cbv zeta in *.
  split.
  - destruct H3 as [H|(x & Hx & H)]; [exists e | exists x]; simpl; auto.
  - intros x [<-|Hx]; auto.
Qed.

Lemma median_pos_lt n : (2 <= n)%nat -> (median_pos n < n)%nat.
Proof. intros H. unfold median_pos. apply Nat.div_lt_upper_bound; lia. Qed.

Lemma length_zero_nil {A} (l : list A) : length l = O -> l = [].
Proof. destruct l; simpl; [auto | discriminate]. Qed.

(* the three-way arrangement  < median | == median | > median  and the choice of the split position *)
Lemma pe_core (m : Z) (front back : list kv) (e0 : kv) (back' : list kv) :
  back = e0 :: back' -> fst e0 = m ->
  Forall (fun x => fst x <= m) front -> Forall (fun x => m <= fst x) back ->
  (exists x y, In x (front ++ back) /\ In y (front ++ back) /\ fst x < fst y) ->
  forall L R,
  (let lt := filter (fun e => fst e <? m) front in
   let ge := filter (fun e => negb (fst e <? m)) front in
   let eq := filter (fun e => fst e =? m) back in
   let gt := filter (fun e => negb (fst e =? m)) back in
   if (length lt =? 0)%nat then (lt ++ ge ++ eq, gt)
   else if (length gt <=? length lt)%nat then (lt, ge ++ eq ++ gt)
   else (lt ++ ge ++ eq, gt)) = (L, R) ->
  L <> [] /\ R <> [] /\ Permutation (front ++ back) (L ++ R) /\
  forall x y, In x L -> In y R -> fst x < fst y.
Proof.
  intros Hb He0 Hf Hbk Hxy L R. cbv zeta.
  set (lt := filter (fun e => fst e <? m) front).
  set (ge := filter (fun e => negb (fst e <? m)) front).
  set (eq := filter (fun e => fst e =? m) back).
  set (gt := filter (fun e => negb (fst e =? m)) back).
  rewrite Forall_forall in Hf, Hbk.
  assert (Flt : forall x, In x lt -> fst x < m).
  { intros x Hx. apply filter_In in Hx. destruct Hx as [_ Hx]. apply Z.ltb_lt; auto. }
  assert (Fge : forall x, In x ge -> fst x = m).
  { intros x Hx. apply filter_In in Hx. destruct Hx as [Hi Hx]. apply negb_true_iff in Hx.
    apply Z.ltb_ge in Hx. specialize (Hf x Hi). cbv beta in Hf. lia. }
  assert (Feq : forall x, In x eq -> fst x = m).
  { intros x Hx. apply filter_In in Hx. destruct Hx as [_ Hx]. apply Z.eqb_eq; auto. }
  assert (Fgt : forall x, In x gt -> m < fst x).
  { intros x Hx. apply filter_In in Hx. destruct Hx as [Hi Hx]. apply negb_true_iff in Hx.
    apply Z.eqb_neq in Hx. specialize (Hbk x Hi). cbv beta in Hbk. lia. }
  assert (Heq : In e0 eq).
  { apply filter_In. split; [rewrite Hb; left; auto | apply Z.eqb_eq; auto]. }
  assert (P : Permutation (front ++ back) ((lt ++ ge) ++ (eq ++ gt))).
  { apply Permutation_app; apply filter_perm. }
  assert (Hall : forall x, In x (front ++ back) -> In x lt \/ In x ge \/ In x eq \/ In x gt).
  { intros x Hx. eapply Permutation_in in Hx; [|exact P].
    repeat (apply in_app_or in Hx; destruct Hx as [Hx|Hx]); auto. }
  assert (Hgt_ne : lt = [] -> gt <> []).
  { intros Hl Hg. destruct Hxy as (x & y & Hx & Hy & Hlt).
    assert (Kx : fst x = m).
    { destruct (Hall x Hx) as [H|[H|[H|H]]]; auto; [rewrite Hl in H | rewrite Hg in H]; destruct H. }
    assert (Ky : fst y = m).
    { destruct (Hall y Hy) as [H|[H|[H|H]]]; auto; [rewrite Hl in H | rewrite Hg in H]; destruct H. }
    lia. }
  assert (Hord1 : forall x y, In x lt -> In y (ge ++ eq ++ gt) -> fst x < fst y).
  { intros x y Hx Hy. specialize (Flt x Hx).
    apply in_app_or in Hy. destruct Hy as [Hy|Hy]; [rewrite (Fge y Hy); auto|].
    apply in_app_or in Hy. destruct Hy as [Hy|Hy]; [rewrite (Feq y Hy); auto|].
    specialize (Fgt y Hy). lia. }
  assert (Hord2 : forall x y, In x (lt ++ ge ++ eq) -> In y gt -> fst x < fst y).
  { intros x y Hx Hy. specialize (Fgt y Hy).
    apply in_app_or in Hx. destruct Hx as [Hx|Hx]; [specialize (Flt x Hx); lia|].
    apply in_app_or in Hx. destruct Hx as [Hx|Hx]; [rewrite (Fge x Hx); auto | rewrite (Feq x Hx); auto]. }
  assert (Hne2 : lt ++ ge ++ eq <> []).
  { intros H. apply app_eq_nil in H. destruct H as [_ H]. apply app_eq_nil in H. destruct H as [_ H].
    rewrite H in Heq. destruct Heq. }
  assert (Hne1 : ge ++ eq ++ gt <> []).
  { intros H. apply app_eq_nil in H. destruct H as [_ H]. apply app_eq_nil in H. destruct H as [H _].
    rewrite H in Heq. destruct Heq. }
  destruct (Nat.eqb_spec (length lt) 0) as [Hz|Hz].
  - intros E; inversion E; subst L R. split; [auto|]. split; [apply Hgt_ne; apply length_zero_nil; auto|].
    split; [|auto]. rewrite P. rewrite <- !app_assoc. reflexivity.
  - destruct (Nat.leb_spec (length gt) (length lt)) as [Hc|Hc]; intros E; inversion E; subst L R.
    + split; [intros H; rewrite H in Hz; simpl in Hz; lia|]. split; [auto|].
      split; [|auto]. rewrite P. rewrite <- !app_assoc. reflexivity.
    + split; [auto|]. split; [intros H; rewrite H in Hc; simpl in Hc; lia|].
      split; [|auto]. rewrite P. rewrite <- !app_assoc. reflexivity.
Qed.

Lemma partition_equally_spec oracle range L R :
  nth_spec range (oracle range) -> (2 <= length range)%nat ->
  (exists x y, In x range /\ In y range /\ fst x < fst y) ->
  partition_equally oracle range = (L, R) ->
  L <> [] /\ R <> [] /\ Permutation range (L ++ R) /\ forall x y, In x L -> In y R -> fst x < fst y.
Proof.
  intros [P M] Hn Hxy E. unfold partition_equally in E.
  set (r := oracle range) in *. set (mp := median_pos (length range)) in *.
  assert (Hlen : length r = length range) by (symmetry; apply Permutation_length; auto).
  assert (Hmp : (mp < length r)%nat) by (rewrite Hlen; apply median_pos_lt; auto).
  destruct (nth_error r mp) as [e0|] eqn:En; [|apply nth_error_None in En; lia].
  destruct (M e0 En) as [Hf Hb].
  rewrite (nth_error_nth r mp (0, 0%nat) En) in E.
  pose proof (skipn_nth_error r mp e0 En) as Hsk.
  assert (Hxy' : exists x y, In x (firstn mp r ++ skipn mp r) /\ In y (firstn mp r ++ skipn mp r) /\ fst x < fst y).
  { rewrite firstn_skipn. destruct Hxy as (x & y & Hx & Hy & H). exists x, y.
    split; [eapply Permutation_in; eauto|]. split; [eapply Permutation_in; eauto | auto]. }
  destruct (pe_core (fst e0) (firstn mp r) (skipn mp r) e0 (skipn (S mp) r) Hsk eq_refl Hf Hb Hxy' L R E)
    as (A & B & C & D).
  split; [auto|]. split; [auto|]. split; [|auto].
  rewrite firstn_skipn in C. rewrite P. auto.
Qed.

Lemma split_list_spec oracle range thr L R :
  nth_spec range (oracle range) -> (2 <= length range)%nat ->
  (exists x y, In x range /\ In y range /\ fst x < fst y) ->
  split_list oracle range = (thr, L, R) ->
  L <> [] /\ R <> [] /\ Permutation range (L ++ R) /\
  (forall x, In x L -> fst x <= thr) /\ (forall y, In y R -> thr <= fst y).
Proof.
  intros Hs Hn Hxy E. unfold split_list in E.
  destruct (partition_equally oracle range) as [L0 R0] eqn:EP.
  destruct (partition_equally_spec oracle range L0 R0 Hs Hn Hxy EP) as (A & B & C & D).
  destruct R0 as [|y0 R0']; [congruence|]. inversion E; subst thr L R. clear E.
  change (fold_left (fun (acc : Z) (x : Z * nat) => if fst x <? acc then fst x else acc) R0' (fst y0))
    with (minkey (y0 :: R0')).
  split; [auto|]. split; [auto|]. split; [auto|].
  destruct (maxkey_spec L0 A) as [(xm & Hxm & Exm) Hmax].
  destruct (minkey_spec (y0 :: R0') B) as [(ym & Hym & Eym) Hmin].
  specialize (D xm ym Hxm Hym).
  set (mx := maxkey L0) in *. set (mn := minkey (y0 :: R0')) in *.
  assert (mx <= (mx + mn) / 2 <= mn).
  { split; [apply Z.div_le_lower_bound; lia | apply Z.div_le_upper_bound; lia]. }
  split.
  - intros x Hx. specialize (Hmax x Hx). lia.
  - intros y Hy. specialize (Hmin y Hy). lia.
Qed.

(* ======================================================================================== *)
(* C. buildTree yields a well-formed tree whose leaves partition the index set               *)

Lemma uniform_length dim data i : uniform dim data -> (i < length data)%nat -> length (pt data i) = dim.
Proof.
  intros U Hi. unfold uniform in U. rewrite Forall_forall in U. apply U. unfold pt. apply nth_In; auto.
Qed.

Lemma map_snd_range (k : nat -> Z) (elems : list nat) : map snd (map (fun i => (k i, i)) elems) = elems.
Proof. rewrite map_map. simpl. apply map_id. Qed.

Lemma build_spec data oracle dim : uniform dim data -> oracle_ok oracle ->
  forall fuel elems path, elems <> [] -> (length elems <= fuel)%nat ->
    (forall i, In i elems -> (i < length data)%nat) ->
    (forall i, In i elems -> in_cell path (pt data i)) ->
    WF data path (build fuel data oracle elems) /\
    Permutation (tindices (build fuel data oracle elems)) elems.
Proof.
  intros U O. induction fuel as [|f IH]; intros elems path Hne Hlen Hidx Hcell.
  - destruct elems; [congruence | simpl in Hlen; lia].
  - cbn [build].
    destruct (Nat.leb_spec (length elems) 1) as [H1|H1].
    + destruct elems as [|i [|j t]]; [congruence | | simpl in H1; lia].
      cbn [WF tindices]. split; [|reflexivity]. split; [discriminate|]. split; [auto|].
      intros j [<-|[]]. reflexivity.
    + destruct elems as [|first rest]; [congruence|].
      destruct (Nat.eqb_spec (cutting_dim data (first :: rest)) (dim_of data (first :: rest))) as [Hd|Hd].
      * unfold dim_of in Hd. cbn [hd] in Hd.
        cbn [WF tindices]. split; [|reflexivity]. split; [discriminate|]. split; [auto|].
        intros i Hi. cbn [hd].
        assert (L1 : length (pt data i) = dim) by (apply uniform_length; auto).
        assert (L2 : length (pt data first) = dim) by (apply uniform_length; auto; apply Hidx; left; auto).
        apply nth_ext with (d := 0) (d' := 0); [congruence|].
        intros n Hn. apply (cutting_dim_degenerate data first rest Hd n); [lia | auto].
      * set (cd := cutting_dim data (first :: rest)) in *.
        set (range := map (fun i => (coord (pt data i) cd, i)) (first :: rest)).
        destruct (split_list oracle range) as [[thr L] R] eqn:ES.
        assert (Hrl : length range = length (first :: rest)) by (unfold range; apply map_length).
        assert (Hxy : exists x y, In x range /\ In y range /\ fst x < fst y).
        { unfold dim_of in Hd. cbn [hd] in Hd.
          destruct (cutting_dim_proper data first rest Hd) as (i & j & Hi & Hj & Hlt). fold cd in Hlt.
          exists (coord (pt data i) cd, i), (coord (pt data j) cd, j).
          split; [unfold range; apply in_map_iff; eauto|]. split; [unfold range; apply in_map_iff; eauto | auto]. }
        assert (Hn2 : (2 <= length range)%nat) by lia.
        destruct (split_list_spec oracle range thr L R (O range) Hn2 Hxy ES) as (A & B & C & D1 & D2).
        assert (Hin : forall e, In e (L ++ R) -> In (snd e) (first :: rest) /\ fst e = coord (pt data (snd e)) cd).
        { intros e He. eapply Permutation_in in He; [|apply Permutation_sym; exact C].
          unfold range in He. apply in_map_iff in He. destruct He as (i & <- & Hi). simpl. auto. }
        assert (Hll : (length L + length R = length (first :: rest))%nat).
        { rewrite <- app_length, <- (Permutation_length C). auto. }
        assert (HLn : (1 <= length L)%nat) by (destruct L; [congruence | simpl; lia]).
        assert (HRn : (1 <= length R)%nat) by (destruct R; [congruence | simpl; lia]).
        destruct (IH (map snd L) ((cd, thr, false) :: path)) as [WL PL].
        { intros H. apply map_eq_nil in H. auto. }
        { rewrite map_length. unfold kv in *. cbn [length] in Hll, Hlen. lia. }
        { intros i Hi. apply in_map_iff in Hi. destruct Hi as (e & <- & He).
          apply Hidx. apply Hin. apply in_or_app; auto. }
        { intros i Hi. apply in_map_iff in Hi. destruct Hi as (e & <- & He).
          destruct (Hin e (in_or_app _ _ _ (or_introl He))) as [Hi1 Hi2].
          constructor; [change (coord (pt data (snd e)) cd <= thr); rewrite <- Hi2; apply D1; auto | apply Hcell; auto]. }
        destruct (IH (map snd R) ((cd, thr, true) :: path)) as [WR PR].
        { intros H. apply map_eq_nil in H. auto. }
        { rewrite map_length. unfold kv in *. cbn [length] in Hll, Hlen. lia. }
        { intros i Hi. apply in_map_iff in Hi. destruct Hi as (e & <- & He).
          apply Hidx. apply Hin. apply in_or_app; auto. }
        { intros i Hi. apply in_map_iff in Hi. destruct Hi as (e & <- & He).
          destruct (Hin e (in_or_app _ _ _ (or_intror He))) as [Hi1 Hi2].
          constructor; [change (thr <= coord (pt data (snd e)) cd); rewrite <- Hi2; apply D2; auto | apply Hcell; auto]. }
        cbn [WF tindices]. split; [split; auto|].
        rewrite PL, PR, <- map_app, <- C. unfold range. rewrite map_snd_range. reflexivity.
Qed.

Lemma in_cell_nil p : in_cell [] p.
Proof. constructor. Qed.

(* kd_build_wellformed: for EVERY outcome of std::nth_element, every point set (duplicates, collinear
   points, points on the splitting plane) the built tree is well-formed in the sense assumed by the
   query theorem, and its leaves partition the index set 0 .. n-1 *)
Theorem kd_build_wellformed data oracle dim :
  data <> [] -> uniform dim data -> oracle_ok oracle ->
  WF data [] (kd_build data oracle) /\
  Permutation (tindices (kd_build data oracle)) (seq 0 (length data)).
Proof.
  intros Hne U O. unfold kd_build. apply (build_spec data oracle dim U O).
  - destruct data; [congruence | simpl; discriminate].
  - rewrite seq_length. lia.
  - intros i Hi. apply in_seq in Hi. lia.
  - intros. apply in_cell_nil.
Qed.

Lemma NoDup_tindices_build data oracle dim :
  data <> [] -> uniform dim data -> oracle_ok oracle -> NoDup (tindices (kd_build data oracle)).
Proof.
  intros Hne U O. destruct (kd_build_wellformed data oracle dim Hne U O) as [_ P].
  eapply Permutation_NoDup; [apply Permutation_sym; exact P | apply seq_NoDup].
Qed.

(* end to end: build the tree with the model of KDTree::buildTree, query it with the model of
   IterativeNNQuery: the k nearest neighbours of the data set *)
Theorem kd_build_then_query_correct data oracle dim q k :
  data <> [] -> uniform dim data -> oracle_ok oracle -> (k <= length data)%nat ->
  let res := query data (kd_build data oracle) q k in
  length res = k /\
  NoDup (map snd res) /\
  (forall d i, In (d, i) res -> (i < length data)%nat /\ d = dist2 (pt data i) q) /\
  dsorted (map fst res) /\
  (forall j, (j < length data)%nat -> ~ In j (map snd res) ->
             forall d, In d (map fst res) -> d <= dist2 (pt data j) q).
Proof.
  intros Hne U O Hk. destruct (kd_build_wellformed data oracle dim Hne U O) as [W P].
  apply query_k_smallest_dataset; auto.
Qed.

(* ======================================================================================== *)
(* D. the depth limit is never reached: any fuel >= number of points gives the same tree      *)

Lemma split_children_shorter data oracle first rest thr L R :
  oracle_ok oracle -> (1 < length (first :: rest))%nat ->
  cutting_dim data (first :: rest) <> dim_of data (first :: rest) ->
  split_list oracle (map (fun i => (coord (pt data i) (cutting_dim data (first :: rest)), i)) (first :: rest)) = (thr, L, R) ->
  (length (map snd L) < length (first :: rest))%nat /\ (length (map snd R) < length (first :: rest))%nat.
Proof.
  intros O H1 Hd ES.
  set (cd := cutting_dim data (first :: rest)) in *.
  set (range := map (fun i => (coord (pt data i) cd, i)) (first :: rest)) in *.
  assert (Hrl : length range = length (first :: rest)) by (unfold range; apply map_length).
  assert (Hxy : exists x y, In x range /\ In y range /\ fst x < fst y).
  { unfold dim_of in Hd. cbn [hd] in Hd.
    destruct (cutting_dim_proper data first rest Hd) as (i & j & Hi & Hj & Hlt). fold cd in Hlt.
    exists (coord (pt data i) cd, i), (coord (pt data j) cd, j).
    split; [unfold range; apply in_map_iff; eauto|]. split; [unfold range; apply in_map_iff; eauto | auto]. }
  assert (Hn2 : (2 <= length range)%nat) by lia.
  destruct (split_list_spec oracle range thr L R (O range) Hn2 Hxy ES) as (A & B & C & _).
  assert (Hll : (length L + length R = length (first :: rest))%nat).
  { rewrite <- app_length, <- (Permutation_length C). auto. }
  assert (HLn : (1 <= length L)%nat) by (destruct L; [congruence | simpl; lia]).
  assert (HRn : (1 <= length R)%nat) by (destruct R; [congruence | simpl; lia]).
  rewrite !map_length. unfold kv in *. lia.
Qed.

Lemma build_fuel_enough data oracle : oracle_ok oracle ->
  forall f1 f2 elems, (length elems <= f1)%nat -> (length elems <= f2)%nat ->
  build f1 data oracle elems = build f2 data oracle elems.
Proof.
  intros O. induction f1 as [|f1 IH]; intros f2 elems H1 H2.
  - destruct elems; [|simpl in H1; lia]. destruct f2; reflexivity.
  - destruct f2 as [|f2].
    + destruct elems; [reflexivity | simpl in H2; lia].
    + cbn [build]. destruct (Nat.leb_spec (length elems) 1) as [Hl|Hl]; [reflexivity|].
      destruct elems as [|first rest]; [simpl in Hl; lia|].
      destruct (Nat.eqb_spec (cutting_dim data (first :: rest)) (dim_of data (first :: rest))) as [Hd|Hd]; [reflexivity|].
      destruct (split_list oracle _) as [[thr L] R] eqn:ES.
      destruct (split_children_shorter data oracle first rest thr L R O Hl Hd ES) as [HL HR].
      rewrite (IH f2 (map snd L)), (IH f2 (map snd R)); auto; lia.
Qed.

(* ======================================================================================== *)
(* E. the hypotheses are satisfiable: sorting is an admissible std::nth_element               *)

Fixpoint ksorted (l : list kv) : Prop :=
  match l with
  | [] => True
  | x :: t => (forall y, In y t -> fst x <= fst y) /\ ksorted t
  end.

Lemma kinsert_perm e l : Permutation (e :: l) (kinsert e l).
Proof.
  induction l as [|h t IH]; simpl; [auto|].
  destruct (fst e <=? fst h); [auto|]. rewrite perm_swap. constructor. auto.
Qed.

Lemma ksort_perm l : Permutation l (ksort l).
Proof.
  induction l as [|e t IH]; simpl; [auto|]. rewrite <- kinsert_perm. constructor. auto.
Qed.

Lemma kinsert_sorted e l : ksorted l -> ksorted (kinsert e l).
Proof.
  induction l as [|h t IH]; simpl; intros H.
  - split; [intros y []| auto].
  - destruct H as [H1 H2]. destruct (Z.leb_spec (fst e) (fst h)).
    + simpl. split; [|auto]. intros y [<-|Hy]; [auto|]. specialize (H1 y Hy). lia.
    + simpl. split; [|auto]. intros y Hy.
      eapply Permutation_in in Hy; [|apply Permutation_sym; apply kinsert_perm].
      destruct Hy as [<-|Hy]; [lia | auto].
Qed.

Lemma ksort_sorted l : ksorted (ksort l).
Proof. induction l; simpl; [auto | apply kinsert_sorted; auto]. Qed.

Lemma sorted_median r : ksorted r -> forall mp, median_prop mp r.
Proof.
  induction r as [|x t IH]; intros S mp e He.
  - destruct mp; discriminate.
  - destruct S as [S1 S2]. destruct mp as [|m]; simpl in He.
    + inversion He; subst e. simpl. split; [constructor|].
      constructor; [lia|]. apply Forall_forall. auto.
    + destruct (IH S2 m e He) as [A B]. simpl. split; [|auto].
      constructor; [|auto]. apply S1. eapply nth_error_In; eauto.
Qed.

Lemma ksort_oracle_ok : oracle_ok ksort.
Proof. intros l. split; [apply ksort_perm | apply sorted_median; apply ksort_sorted]. Qed.

(* the executable check of one recorded std::nth_element result is sound *)
Lemma median_okb_sound mp r : median_okb mp r = true -> median_prop mp r.
Proof.
  unfold median_okb, median_prop. intros H e He. rewrite He in H.
  apply andb_prop in H. destruct H as [H1 H2]. rewrite forallb_forall in H1, H2.
  split; apply Forall_forall; intros x Hx; apply Z.leb_le; auto.
Qed.

(* a concrete instance: duplicates, a repeated coordinate value, points on the splitting plane *)
Example kd_build_example :
  let data := [[0; 2]; [4; 2]; [4; 2]; [10; -6]; [4; 8]; [4; -6]] in
  data <> [] /\ uniform 2 data /\ oracle_ok ksort /\
  kd_build data ksort =
    Node 1 (-2) (Node 0 7 (Leaf [5%nat]) (Leaf [3%nat]))
                (Node 1 5 (Node 0 2 (Leaf [0%nat]) (Leaf [1%nat; 2%nat])) (Leaf [4%nat])) /\
  query data (kd_build data ksort) [9; 0] 3 = [(29, 1%nat); (29, 2%nat); (37, 3%nat)].
Proof.
  cbv zeta. split; [discriminate|]. split; [repeat constructor|]. split; [apply ksort_oracle_ok|].
  split; vm_compute; reflexivity.
Qed.
