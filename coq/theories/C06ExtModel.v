(* C06, extension round — executable models (over Q / nat, exact), definitions only:
     * NegativeAUC<unsigned int, RealVector>::eval (include/shark/ObjectiveFunctions/NegativeAUC.h) as coded: the list of
       (score, label) pairs with the `invert` flag, the counts P / N, std::sort in decreasing key order, the sweep with its
       six local variables, trapArea, the closing trapezoid, the sign;
     * SquaredLoss<Sequence,Sequence> (include/shark/ObjectiveFunctions/Loss/SquaredLoss.h) as coded: eval and
       evalDerivative on a batch of sequences with the ignored prefix m_ignore, the gradient object handed in by the
       caller (resized, every sequence cleared before it is filled: repair 9a4469ab), the documented exception;
     * the specifications they are compared with in C06AucProofs.v / C06SeqProofs.v (pair counting; quadratic expansion).
   Proofs: C06AucProofs.v, C06SeqProofs.v. *)
From Coq Require Import List Arith ZArith QArith Qabs Bool.
From SharkV Require Import ListAux C03Model C06Model.
Import ListNotations.
Open Scope Q_scope.

(* ------------------------------------------------------------------------------------------ *)
(* NegativeAUC *)

(* KeyValuePair<double, unsigned int>: key = score, value = label; every comparison operator of KeyValuePair looks at the key only *)
Definition aucpair := (Q * nat)%type.
Definition is_pos (e : aucpair) : bool := (0 <? snd e)%nat.        (* `t > 0` / `L[i].value > 0` *)
Definition is_neg (e : aucpair) : bool := negb (is_pos e).
Definition key_gt (a b : aucpair) : bool := if Qlt_le_dec (fst b) (fst a) then true else false.   (* a > b *)

(* std::sort(L.begin(), L.end(), std::greater<AUCPair>()): some permutation that is non-increasing in the key; which one
   (the order among equal scores) is unspecified.  The executable model uses insertion sort; the theorems hold for
   EVERY non-increasing permutation. *)
Fixpoint ins_desc (x : aucpair) (l : list aucpair) : list aucpair :=
  match l with
  | [] => [x]
  | y :: r => if key_gt x y then x :: l else y :: ins_desc x r
  end.
Definition sort_desc (l : list aucpair) : list aucpair := fold_right ins_desc [] l.

(* the local variables of the sweep: A, TP, FP, TPPrev, FPPrev, predictionPrev (None = the initial -DBL_MAX, which
   differs from every score > -DBL_MAX) *)
Record aucst := mkst { sA : Q; sTP : nat; sFP : nat; sTPp : nat; sFPp : nat; sPrev : option Q }.
Definition auc_init : aucst := mkst 0 0 0 0 0 None.

(* trapArea(x1,x2,y1,y2) = |x1-x2| * (y1+y2)/2 *)
Definition trap_area (x1 x2 y1 y2 : Q) : Q := Qabs (x1 - x2) * ((y1 + y2) / 2).
(* trapArea(FP/double(N), FPPrev/double(N), TP/double(P), TPPrev/double(P)) *)
Definition auc_trap (P N : nat) (st : aucst) : Q :=
  trap_area (Qn (sFP st) / Qn N) (Qn (sFPp st) / Qn N) (Qn (sTP st) / Qn P) (Qn (sTPp st) / Qn P).

(* `L[i].key != predictionPrev` *)
Definition key_changed (prev : option Q) (k : Q) : bool :=
  match prev with None => true | Some p => negb (Qeq_bool k p) end.
Definition auc_flush (P N : nat) (st : aucst) (k : Q) : aucst :=
  mkst (sA st + auc_trap P N st) (sTP st) (sFP st) (sTP st) (sFP st) (Some k).
Definition auc_count (st : aucst) (e : aucpair) : aucst :=
  if is_pos e then mkst (sA st) (S (sTP st)) (sFP st) (sTPp st) (sFPp st) (sPrev st)
  else mkst (sA st) (sTP st) (S (sFP st)) (sTPp st) (sFPp st) (sPrev st).
(* one iteration of the loop over the sorted list *)
Definition auc_step (P N : nat) (st : aucst) (e : aucpair) : aucst :=
  auc_count (if key_changed (sPrev st) (fst e) then auc_flush P N st (fst e) else st) e.
(* the loop and the closing `A += trapArea(FP/N, FPPrev/N, TP/P, TPPrev/P)` *)
Definition auc_sweep (P N : nat) (L : list aucpair) : Q :=
  let st := fold_left (auc_step P N) L auc_init in sA st + auc_trap P N st.

(* a data set is a list of batches of (label, score); `target.element(i)` / `prediction.element(i)` run over the
   elements of all batches in order, so the batch structure is only visible through `elems` *)
Definition auc_list (invert : bool) (es : list (nat * Q)) : list aucpair :=
  map (fun e => ((if invert then - snd e else snd e), fst e)) es.

(* result: the documented exception on an empty data set (SHARK_RUNTIME_CHECK "Empty prediction set"); NaN when one of the
   classes is absent -- the code has no test for it, FP/double(N) or TP/double(P) is 0.0/0.0 = NaN already in the first
   trapezoid and NaN propagates through every later `A +=` --; the value -A otherwise *)
Inductive aucres := AucExc | AucNaN | AucVal (a : Q).
Definition nauc_eval (invert : bool) (d : @data (nat * Q)) : aucres :=
  match elems d with
  | [] => AucExc
  | es =>
    let L := auc_list invert es in
    let P := length (filter is_pos L) in
    let N := length (filter is_neg L) in
    if ((P =? 0) || (N =? 0))%nat then AucNaN else AucVal (- auc_sweep P N (sort_desc L))
  end.

(* the two-argument eval on vector-valued predictions: "Empty prediction set" and "Can not compute with more than two columns"
   exceptions, then column 0 of 1-dimensional and column 1 of 2-dimensional predictions; dataDimension = size of the first element *)
Definition nauc_eval_vec (invert : bool) (d : @data (nat * vec)) : aucres :=
  match elems d with
  | [] => AucExc
  | e0 :: _ =>
    let dim := length (snd e0) in
    if (3 <=? dim)%nat then AucExc
    else nauc_eval invert (map (map (fun e => (fst e, nth (dim - 1) (snd e) 0))) d)
  end.

(* ---- specification: pair counting (Wilcoxon-Mann-Whitney with ties counted one half) ---- *)
Definition pos_scores (L : list aucpair) : list Q := map fst (filter is_pos L).
Definition neg_scores (L : list aucpair) : list Q := map fst (filter is_neg L).
(* score of the pair (positive a, negative b): 1 if a > b, 1/2 if a = b, 0 if a < b *)
Definition pair_score (a b : Q) : Q := if Qlt_le_dec b a then 1 else if Qeq_bool a b then 1 # 2 else 0.
Definition pair_count (L : list aucpair) : Q :=
  qsum (map (fun a => qsum (map (pair_score a) (neg_scores L))) (pos_scores L)).
(* the same number written with cardinalities: #{(p,n) : s_p > s_n} and #{(p,n) : s_p = s_n} *)
Definition pairs (L : list aucpair) : list (Q * Q) := list_prod (pos_scores L) (neg_scores L).
Definition n_wins (L : list aucpair) : nat := length (filter (fun ab => if Qlt_le_dec (snd ab) (fst ab) then true else false) (pairs L)).
Definition n_ties (L : list aucpair) : nat := length (filter (fun ab => Qeq_bool (fst ab) (snd ab)) (pairs L)).
Definition n_losses (L : list aucpair) : nat := length (filter (fun ab => if Qlt_le_dec (fst ab) (snd ab) then true else false) (pairs L)).

(* ------------------------------------------------------------------------------------------ *)
(* SquaredLoss<Sequence,Sequence>(ignore).  Sequence = std::deque<RealVector>; a batch is a list of (label sequence,
   prediction sequence). *)
Definition sequence := list vec.

(* distanceSqr(p, l) *)
Definition dist_sqr (p l : vec) : Q := normsq (vsub p l).

(* `for j = m_ignore .. size: error += distanceSqr(predictions[i][j], labels[i][j])`; the loop bound is labels[i].size() *)
Definition seq_counted (ignore : nat) (l p : sequence) : list (vec * vec) := combine (skipn ignore l) (skipn ignore p).
Definition seq1_sum (ignore : nat) (l p : sequence) : Q :=
  qsum (map (fun lp => dist_sqr (snd lp) (fst lp)) (seq_counted ignore l p)).
(* SHARK_RUNTIME_CHECK(labels[i].size() > m_ignore) inside the loop over the batch: the call throws iff some sequence is too short *)
Definition seq_ok (ignore : nat) (b : list (sequence * sequence)) : bool :=
  forallb (fun e => (ignore <? length (fst e))%nat) b.

(* eval: 0.5 * (sum over sequences and counted positions); None = shark::Exception *)
Definition seq_eval (ignore : nat) (b : list (sequence * sequence)) : option Q :=
  if seq_ok ignore b then Some ((1 # 2) * qsum (map (fun e => seq1_sum ignore (fst e) (snd e)) b)) else None.

(* evalDerivative: error += 0.5 * distanceSqr(...) term by term;
   gradient.resize(labels.size()); per sequence: gradient[i].clear(), m_ignore zero vectors of the size of the prediction
   elements, then predictions[i][j] - labels[i][j].  `old` is the content of the caller's gradient object. *)
Definition seq1_half_sum (ignore : nat) (l p : sequence) : Q :=
  qsum (map (fun lp => (1 # 2) * dist_sqr (snd lp) (fst lp)) (seq_counted ignore l p)).
Fixpoint resize_to {X} (n : nat) (dflt : X) (l : list X) : list X :=
  match n with
  | O => []
  | S n' => match l with [] => dflt :: resize_to n' dflt [] | x :: r => x :: resize_to n' dflt r end
  end.
Definition seq_clear (old : sequence) : sequence := [].
Definition seq1_grad (ignore : nat) (old : sequence) (l p : sequence) : sequence :=
  seq_clear old
  ++ map (fun pj => map (fun _ => 0) pj) (firstn ignore p)
  ++ map (fun lp => vsub (snd lp) (fst lp)) (seq_counted ignore l p).
Definition seq_evald (ignore : nat) (old : list sequence) (b : list (sequence * sequence)) : option (Q * list sequence) :=
  if seq_ok ignore b then
    Some (qsum (map (fun e => seq1_half_sum ignore (fst e) (snd e)) b),
          map (fun oe => seq1_grad ignore (fst oe) (fst (snd oe)) (snd (snd oe))) (combine (resize_to (length b) [] old) b))
  else None.

(* ------------------------------------------------------------------------------------------ *)
(* NegativeLogLikelihood (include/shark/ObjectiveFunctions/NegativeLogLikelihood.h) as coded.  The logarithm is a Section
   variable (the theorems hold for every function; the driver passes the floating-point logarithm embedded into Q), the model is
   used through its single output on one input and weightedParameterDerivative with one-column coefficient rows. *)
Section NLL.
Variable lg : Q -> Q.                          (* std::log *)
Variable minProb : Q.                          (* 1e-100 *)
Variable peval : vec -> Q.                     (* the single output of mep_model on x; predictions.size2() == 1 *)
Variable pwpd : list (vec * vec) -> vec.       (* weightedParameterDerivative(batch, predictions, coeffs, state, derivative) *)

Definition Qmaxq (a b : Q) : Q := if Qlt_le_dec a b then b else a.            (* max(predictions, minProb), element-wise *)
Definition nll_ll (x : vec) : Q := lg (Qmaxq (peval x) minProb).
(* `if (predictions(j,k) >= minProb) coeffs(j,k) = 1.0 / predictions(j,k)`, 0 otherwise *)
Definition nll_coeff (x : vec) : Q := if Qlt_le_dec (peval x) minProb then 0 else 1 / peval x.
(* one batch of eval:  sum(log(max(predictions, minProb))) *)
Definition nll_bq_eval (b : list vec) : vec := [qsum (map nll_ll b)].
(* one batch of evalDerivative: threadError += ...; threadDerivative += batchDerivative *)
Definition nll_bq (b : list vec) : vec := qsum (map nll_ll b) :: pwpd (map (fun x => (x, [nll_coeff x])) b).
(* eval: one parallel iteration per batch merged in a critical region (any arrival order), error /= numberOfElements, -error *)
Definition nll_eval_arrived (arrived : list vec) (d : @data vec) : Q := - nth 0 (finish arrived (nelems d)) 0.
Definition nll_eval (d : @data vec) : Q := nll_eval_arrived (map nll_bq_eval d) d.
(* evalDerivative: the work split of ErrorFunctionImpl (thread_ranges), merged in a critical region,
   error /= n; derivative /= n; derivative *= -1; return -error.  Result = value :: derivative *)
Definition nll_evald_arrived (arrived : list vec) (d : @data vec) : vec := vscale (- (1)) (finish arrived (nelems d)).
Definition nll_evald (threads : nat) (d : @data vec) : vec :=
  nll_evald_arrived (partials nll_bq (thread_ranges threads (length d)) d) d.
End NLL.
