(* C18 — proofs about nested field descriptions (C18Nested.v): round trip by structural induction over the
   description, member coverage lifted to every object node, the Data<T> layout. *)
From Coq Require Import List Arith Bool ZArith String Lia.
From SharkV Require Import C18Model C18Proofs C18Nested.
Import ListNotations.
Open Scope string_scope.
Open Scope list_scope.

Scheme desc_mut := Induction for desc Sort Prop
  with dfields_mut := Induction for dfields Sort Prop.

(* ------------------------------------------------------------------------------------------ *)
(* member maps *)

Lemma nlookup_cons_eq n v ms : nlookup n ((n, v) :: ms) = v.
Proof. cbn [nlookup]. rewrite String.eqb_refl. reflexivity. Qed.

Lemma nlookup_cons_neq n m v ms : n <> m -> nlookup n ((m, v) :: ms) = nlookup n ms.
Proof. intros H. cbn [nlookup]. apply String.eqb_neq in H. rewrite H. reflexivity. Qed.

Lemma nodupb_cons x l : nodupb (x :: l) = true -> ~ In x l /\ nodupb l = true.
Proof.
  cbn [nodupb]. intros H. apply andb_prop in H. destruct H as [H1 H2]. split; [|exact H2].
  intros C. apply mem_In in C. rewrite C in H1. discriminate H1.
Qed.

(* ------------------------------------------------------------------------------------------ *)
(* containers: n elements *)

Lemma nread_n_flat (d : desc) :
  (forall x fresh rest, ntyped d x = true ->
     exists x', nread d fresh (nwrite d x ++ rest) = Some (x', rest) /\ streq d x x') ->
  forall l fresh rest, forallb (ntyped d) l = true ->
    exists l', nread_n (nread d) fresh (length l) (flat_map (nwrite d) l ++ rest) = Some (l', rest) /\
               Forall2 (streq d) l l'.
Proof.
  intros IH. induction l as [|x l IHl]; intros fresh rest T; cbn [length flat_map nread_n app].
  - exists []. split; [reflexivity|constructor].
  - cbn [forallb] in T. apply andb_prop in T. destruct T as [Tx Tl].
    rewrite <- app_assoc.
    destruct (IH x (hd (NObj []) fresh) (flat_map (nwrite d) l ++ rest) Tx) as [x' [R S]].
    rewrite R. destruct (IHl (tl fresh) rest Tl) as [l' [Rl Sl]]. rewrite Rl.
    exists (x' :: l'). split; [reflexivity|constructor; assumption].
Qed.

Lemma Forall2_length_eq {A B} (R : A -> B -> Prop) l l' : Forall2 R l l' -> length l = length l'.
Proof. induction 1; cbn; congruence. Qed.

(* ------------------------------------------------------------------------------------------ *)
(* the round trip, by mutual structural induction over desc / dfields *)

Definition rt_desc (d : desc) : Prop :=
  wfd d = true ->
  forall x fresh rest, ntyped d x = true ->
    exists x', nread d fresh (nwrite d x ++ rest) = Some (x', rest) /\ streq d x x'.

Definition rt_fields (fs : dfields) : Prop :=
  wff fs = true -> nodupb (fnames fs) = true ->
  forall mx ms0 rest, ftyped fs mx = true ->
    exists ms', fread fs ms0 (fwrite fs mx ++ rest) = Some (ms', rest) /\
                fstreq fs mx ms' /\
                (forall n, ~ In n (fnames fs) -> nlookup n ms' = nlookup n ms0).

Lemma rt_mutual : forall d, rt_desc d.
Proof.
  apply (desc_mut rt_desc rt_fields); unfold rt_desc, rt_fields.
  - (* DPrim *)
    intros k _ x fresh rest T. destruct x; cbn [ntyped] in T; try discriminate T.
    cbn [nwrite nread]. rewrite codec_roundtrip by exact T. eexists. split; reflexivity.
  - (* DObj *)
    intros members transient fs IH W x fresh rest T. cbn [wfd] in W. apply andb_prop in W. destruct W as [Wn Wf].
    destruct x; cbn [ntyped] in T; try discriminate T.
    cbn [nwrite nread]. destruct (IH Wf Wn ms (members_of fresh) rest T) as [ms' [R [S _]]].
    rewrite R. exists (NObj ms'). split; [reflexivity|]. cbn [streq members_of]. exact S.
  - (* DVec *)
    intros d IH W x fresh rest T. cbn [wfd] in W. destruct x; cbn [ntyped] in T; try discriminate T.
    cbn [nwrite nread app].
    destruct (nread_n_flat d (IH W) l (elems_of fresh) rest T) as [l' [R S]]. rewrite R.
    exists (NList l'). split; [reflexivity|]. cbn [streq]. exists l, l'. repeat split; assumption.
  - (* DFix *)
    intros n d IH W x fresh rest T. cbn [wfd] in W. destruct x; cbn [ntyped] in T; try discriminate T.
    apply andb_prop in T. destruct T as [Tn T]. apply Nat.eqb_eq in Tn. subst n.
    cbn [nwrite nread].
    destruct (nread_n_flat d (IH W) l (elems_of fresh) rest T) as [l' [R S]]. rewrite R.
    exists (NList l'). split; [reflexivity|]. cbn [streq]. exists l, l'. repeat split; assumption.
  - (* DOpt *)
    intros d IH W x fresh rest T. cbn [wfd] in W. destruct x; cbn [ntyped] in T; try discriminate T.
    + cbn [nwrite nread app]. exists NNone. split; [reflexivity|]. cbn [streq]. left. split; reflexivity.
    + cbn [nwrite nread app]. destruct (IH W x (content_of fresh) rest T) as [x' [R S]]. rewrite R.
      exists (NSome x'). split; [reflexivity|]. cbn [streq]. right. exists x, x'. repeat split. exact S.
  - (* FNil *)
    intros _ _ mx ms0 rest _. cbn [fread fwrite app]. exists ms0. repeat split.
  - (* FCons *)
    intros name root guard d IHd rest IHr W N mx ms0 tl T.
    cbn [wff] in W. apply andb_prop in W. destruct W as [Wd Wr].
    cbn [fnames] in N. apply nodupb_cons in N. destruct N as [Nin Nr].
    cbn [ftyped] in T. apply andb_prop in T. destruct T as [Td Tr].
    cbn [fread fwrite]. rewrite <- app_assoc.
    destruct (IHd Wd (nlookup name mx) (nlookup name ms0) (fwrite rest mx ++ tl) Td) as [v' [R S]].
    rewrite R.
    destruct (IHr Wr Nr mx ((name, v') :: ms0) tl Tr) as [ms' [Rr [Sr Ur]]].
    rewrite Rr. exists ms'. split; [reflexivity|]. split.
    + cbn [fstreq]. split; [|exact Sr]. rewrite (Ur name Nin). rewrite nlookup_cons_eq. exact S.
    + intros n Hn. cbn [fnames] in Hn. rewrite Ur by (intros C; apply Hn; right; exact C).
      apply nlookup_cons_neq. intros C. apply Hn. left. symmetry. exact C.
Qed.

(* read of a description equal to the write description restores everything that is streamed, at every depth, and
   leaves the rest of the archive untouched *)
Theorem nested_roundtrip : forall rd wd,
  rd = wd -> wfd wd = true ->
  forall x fresh rest, ntyped wd x = true ->
    exists x', nread rd fresh (nwrite wd x ++ rest) = Some (x', rest) /\ streq wd x x'.
Proof. intros rd wd E W x fresh rest T. subst rd. apply rt_mutual; assumption. Qed.

(* members that an object node does not stream keep the value of the fresh object (this is what makes a dropped
   member observable) *)
Lemma fread_untouched : forall fs ms0 ts ms' r n,
  fread fs ms0 ts = Some (ms', r) -> ~ In n (fnames fs) -> nlookup n ms' = nlookup n ms0.
Proof.
  induction fs as [|name root guard d rest IH]; intros ms0 ts ms' r n H Hn; cbn [fread] in H.
  - inversion H. reflexivity.
  - destruct (nread d (nlookup name ms0) ts) as [[v ts']|]; [|discriminate].
    cbn [fnames] in Hn. rewrite (IH _ _ _ _ n H) by (intros C; apply Hn; right; exact C).
    apply nlookup_cons_neq. intros C. apply Hn. left. symmetry. exact C.
Qed.

Theorem nested_unstreamed_member_keeps_fresh : forall members transient fs fresh ts x' r n,
  nread (DObj members transient fs) fresh ts = Some (x', r) ->
  ~ In n (fnames fs) ->
  nlookup n (members_of x') = nlookup n (members_of fresh).
Proof.
  intros members transient fs fresh ts x' r n H Hn. cbn [nread] in H.
  destruct (fread fs (members_of fresh) ts) as [[ms rr]|] eqn:E; [|discriminate].
  inversion H; subst. cbn [members_of]. eapply fread_untouched; eauto.
Qed.

(* ------------------------------------------------------------------------------------------ *)
(* streq is an equality where the description has no object nodes (primitive leaves, containers of them) *)

Fixpoint objfree (d : desc) : bool :=
  match d with
  | DPrim _ => true
  | DObj _ _ _ => false
  | DVec d' => objfree d'
  | DFix _ d' => objfree d'
  | DOpt d' => objfree d'
  end.

Lemma Forall2_eq {A} (l l' : list A) : Forall2 eq l l' -> l = l'.
Proof. induction 1; congruence. Qed.

Lemma Forall2_impl_in {A B} (R S : A -> B -> Prop) l l' :
  (forall a b, In a l -> R a b -> S a b) -> Forall2 R l l' -> Forall2 S l l'.
Proof.
  intros H F. induction F; constructor.
  - apply H; [left; reflexivity|assumption].
  - apply IHF. intros a b Ha. apply H. right. exact Ha.
Qed.

Lemma streq_objfree : forall d, objfree d = true -> forall x y, streq d x y -> x = y.
Proof.
  induction d; cbn [objfree]; intros O x y S; try discriminate O; cbn [streq] in S.
  - exact S.
  - destruct S as [lx [ly [-> [-> F]]]]. f_equal. apply Forall2_eq.
    eapply Forall2_impl_in; [|exact F]. intros a b _ Hab. apply IHd; assumption.
  - destruct S as [lx [ly [-> [-> F]]]]. f_equal. apply Forall2_eq.
    eapply Forall2_impl_in; [|exact F]. intros a b _ Hab. apply IHd; assumption.
  - destruct S as [[-> ->]|[a [b [-> [-> S]]]]]; [reflexivity|]. f_equal. apply IHd; assumption.
Qed.

(* ------------------------------------------------------------------------------------------ *)
(* member coverage, lifted *)

Lemma in_fields_streq : forall fs name root d mx my,
  in_fields name root d fs -> fstreq fs mx my -> streq d (nlookup name mx) (nlookup name my).
Proof.
  induction fs as [|n r g dd rest IH]; intros name root d mx my H S; cbn [in_fields] in H; [destruct H|].
  cbn [fstreq] in S. destruct S as [S1 S2]. destruct H as [[-> [-> ->]]|H]; [exact S1|].
  eapply IH; eauto.
Qed.

Lemma mem_froots : forall fs m, mem m (froots fs) = true -> exists name d, in_fields name m d fs.
Proof.
  induction fs as [|n r g dd rest IH]; intros m H; cbn [froots] in H.
  - discriminate H.
  - unfold mem in H. cbn [existsb] in H. apply orb_prop in H. destruct H as [H|H].
    + apply String.eqb_eq in H. subst. exists n, dd. cbn [in_fields]. left. repeat split.
    + destruct (IH m H) as [name [d Hd]]. exists name, d. cbn [in_fields]. right. exact Hd.
Qed.

Definition cov_desc (d : desc) : Prop :=
  ncovers d = true -> forall x y, streq d x y -> restored d x y.
Definition cov_fields (fs : dfields) : Prop :=
  fcovers fs = true -> forall mx my, fstreq fs mx my -> frestored fs mx my.

Lemma cov_mutual : forall d, cov_desc d.
Proof.
  apply (desc_mut cov_desc cov_fields); unfold cov_desc, cov_fields.
  - intros. exact I.
  - intros members transient fs IH C x y S. cbn [ncovers] in C. apply andb_prop in C. destruct C as [C1 C2].
    cbn [streq] in S. cbn [restored]. split; [|apply IH; assumption].
    intros m Hm Ht. rewrite forallb_forall in C1. specialize (C1 m Hm). apply orb_prop in C1.
    destruct C1 as [C1|C1].
    + destruct (mem_froots fs m C1) as [name [dd Hd]]. exists name, dd. split; [exact Hd|].
      eapply in_fields_streq; eauto.
    + apply mem_In in C1. contradiction.
  - intros d IH C x y S. cbn [ncovers] in C. cbn [streq] in S. cbn [restored].
    destruct S as [lx [ly [-> [-> F]]]]. exists lx, ly. repeat split.
    eapply Forall2_impl_in; [|exact F]. intros a b _ Hab. apply IH; assumption.
  - intros n d IH C x y S. cbn [ncovers] in C. cbn [streq] in S. cbn [restored].
    destruct S as [lx [ly [-> [-> F]]]]. exists lx, ly. repeat split.
    eapply Forall2_impl_in; [|exact F]. intros a b _ Hab. apply IH; assumption.
  - intros d IH C x y S. cbn [ncovers] in C. cbn [streq] in S. cbn [restored].
    destruct S as [[-> ->]|[a [b [-> [-> S]]]]]; [left; split; reflexivity|].
    right. exists a, b. repeat split. apply IH; assumption.
  - intros. exact I.
  - intros name root guard d IHd rest IHr C mx my S. cbn [fcovers] in C. apply andb_prop in C.
    destruct C as [Cd Cr]. cbn [fstreq] in S. destruct S as [S1 S2]. cbn [frestored]. split.
    + apply IHd; assumption.
    + apply IHr; assumption.
Qed.

(* the class-level statement for nested descriptions: what the generated obligations nrw_X (read description =
   write description), wf_X and the coverage obligations of X and of the classes nested in it feed *)
Theorem nested_class_roundtrip : forall rd wd,
  rd = wd -> wfd wd = true -> ncovers wd = true ->
  forall x fresh rest, ntyped wd x = true ->
    exists x', nread rd fresh (nwrite wd x ++ rest) = Some (x', rest) /\
               streq wd x x' /\ restored wd x x'.
Proof.
  intros rd wd E W C x fresh rest T.
  destruct (nested_roundtrip rd wd E W x fresh rest T) as [x' [R S]].
  exists x'. repeat split; [exact R|exact S|]. apply cov_mutual; assumption.
Qed.

(* coverage composes: the deep obligation of a class is its own (shallow) obligation plus the deep obligations of
   the descriptions of its fields, i.e. of its member classes *)
Theorem ncovers_compose : forall members transient fs,
  ncovers (DObj members transient fs) = shallow_covers (DObj members transient fs) && fcovers fs.
Proof. reflexivity. Qed.

Theorem fcovers_cons : forall name root guard d rest,
  fcovers (FCons name root guard d rest) = ncovers d && fcovers rest.
Proof. reflexivity. Qed.

(* a flat class description (C18Model field list) is covered deeply iff it is covered in the sense of C18Model *)
Lemma froots_fields_of fl : froots (fields_of fl) = map froot fl.
Proof. induction fl; cbn [fields_of froots map]; congruence. Qed.

Lemma fcovers_fields_of fl : fcovers (fields_of fl) = true.
Proof. induction fl; cbn [fields_of fcovers ncovers]; auto. Qed.

Theorem ncovers_flat : forall members transient fl,
  ncovers (desc_of_class members transient fl) = covers members fl transient.
Proof.
  intros. unfold desc_of_class, covers. cbn [ncovers]. rewrite fcovers_fields_of, andb_true_r.
  rewrite froots_fields_of. reflexivity.
Qed.

(* ------------------------------------------------------------------------------------------ *)
(* diagnostics: a dropped nested field *)

(* If read's description lacks a field that write's description has (a member dropped from a helper, or from the
   description of a member class), the restored object has the FRESH object's content in that member, whatever else
   happens: the round trip of an object whose member differs from the fresh one cannot succeed. *)
Theorem nested_dropped_member_not_restored : forall members transient rfs fresh ts x' r n,
  nread (DObj members transient rfs) fresh ts = Some (x', r) ->
  ~ In n (fnames rfs) ->
  forall x, nlookup n (members_of x) <> nlookup n (members_of fresh) ->
            nlookup n (members_of x') <> nlookup n (members_of x).
Proof.
  intros members transient rfs fresh ts x' r n H Hn x D.
  rewrite (nested_unstreamed_member_keeps_fresh _ _ _ _ _ _ _ _ H Hn). intros C. apply D. symmetry. exact C.
Qed.

(* ------------------------------------------------------------------------------------------ *)
(* desc_eqb decides equality (diagnostic side: first differing field) *)

Lemma list_string_eqb_refl l : list_string_eqb l l = true.
Proof.
  unfold list_string_eqb. rewrite Nat.eqb_refl. cbn [andb]. induction l; cbn [combine forallb fst snd]; [reflexivity|].
  rewrite String.eqb_refl. exact IHl.
Qed.

Lemma desc_eqb_refl : forall d, desc_eqb d d = true.
Proof.
  apply (desc_mut (fun d => desc_eqb d d = true) (fun fs => dfields_eqb fs fs = true)); cbn [desc_eqb dfields_eqb]; intros.
  - apply kind_eqb_refl.
  - rewrite !list_string_eqb_refl. exact H.
  - exact H.
  - rewrite Nat.eqb_refl. exact H.
  - exact H.
  - reflexivity.
  - rewrite !String.eqb_refl, H, H0. reflexivity.
Qed.

Corollary desc_eqb_false_neq a b : desc_eqb a b = false -> a <> b.
Proof. intros H E. subst. rewrite desc_eqb_refl in H. discriminate. Qed.

(* ------------------------------------------------------------------------------------------ *)
(* Data<T> *)

Lemma shape_desc_wf : wfd shape_desc = true. Proof. reflexivity. Qed.
Lemma shape_desc_covers : ncovers shape_desc = true. Proof. reflexivity. Qed.

Lemma data_desc_wf batch : wfd batch = true -> wfd (data_desc batch) = true.
Proof. intros H. cbn. rewrite H. reflexivity. Qed.

Lemma data_desc_covers batch : ncovers batch = true -> ncovers (data_desc batch) = true.
Proof. intros H. cbn. rewrite H. reflexivity. Qed.

Lemma shape_val_typed dims n : ntyped shape_desc (shape_val dims n) = true.
Proof.
  cbn. rewrite andb_true_r. induction dims; cbn; auto.
Qed.

Lemma forallb_map_some batch bs :
  forallb (ntyped batch) bs = true -> forallb (ntyped (DOpt batch)) (map NSome bs) = true.
Proof. induction bs; cbn [map forallb ntyped]; intros H; [reflexivity|]. apply andb_prop in H. destruct H as [H1 H2]. rewrite H1. auto. Qed.

Lemma data_val_typed batch bs sh :
  forallb (ntyped batch) bs = true -> ntyped shape_desc sh = true ->
  ntyped (data_desc batch) (data_val bs sh) = true.
Proof.
  intros Hb Hs. unfold data_desc, data_val, shared_container_desc.
  cbn [ntyped ftyped]. rewrite nlookup_cons_eq.
  rewrite (nlookup_cons_neq "m_shape" "m_data") by discriminate. rewrite nlookup_cons_eq.
  cbn [ntyped ftyped]. rewrite nlookup_cons_eq.
  replace (forallb _ (map NSome bs)) with true by (symmetry; exact (forallb_map_some batch bs Hb)).
  rewrite Hs. reflexivity.
Qed.

Lemma Forall2_streq_opt_batches batch l l' :
  Forall2 (streq (DOpt batch)) (map NSome l) l' ->
  Forall2 (streq batch) l (map content_of l').
Proof.
  revert l'. induction l as [|a l IH]; intros l' F; inversion F; subst; cbn [map]; constructor.
  - cbn [streq] in H1. destruct H1 as [[C _]|[a' [b [Ea [-> S]]]]]; [discriminate C|].
    inversion Ea; subst. cbn [content_of]. exact S.
  - apply IH. assumption.
Qed.

(* a container described as one primitive field (KVec (KOpt k)) and the same container described structurally
   (DVec (DOpt (DPrim k))) have the same archive layout, token for token *)
Lemma prim_container_layout : forall k vs,
  encode (KVec (KOpt k)) (VList (map VSome vs)) =
  nwrite (DVec (DOpt (DPrim k))) (NList (map (fun v => NSome (NPrim v)) vs)).
Proof.
  intros k vs. cbn [encode nwrite]. rewrite !map_length. f_equal.
  induction vs as [|v vs IH]; cbn [map flat_map]; [reflexivity|].
  rewrite IH. reflexivity.
Qed.

Theorem data_desc_prim_same_layout : forall k vs dims numel,
  nwrite (data_desc_prim k)
         (NObj [("m_data", NObj [("m_data", NPrim (VList (map VSome vs)))]); ("m_shape", shape_val dims numel)]) =
  nwrite (data_desc (DPrim k)) (data_val (map NPrim vs) (shape_val dims numel)).
Proof.
  intros k vs dims numel. unfold data_desc_prim, data_desc, data_val, shared_container_desc_prim, shared_container_desc.
  cbn [nwrite fwrite]. rewrite !nlookup_cons_eq.
  rewrite !(nlookup_cons_neq "m_shape" "m_data") by discriminate. rewrite !nlookup_cons_eq.
  f_equal. f_equal. rewrite prim_container_layout. rewrite map_map. reflexivity.
Qed.

(* The Data<T> round trip: for every batch description (dense matrix, label vector, sparse matrix object ...), every
   list of batches -- including NO batch (empty dataset) and a single batch -- and every shape: reading the archive
   of the dataset into ANY fresh dataset (other batches, other shape) succeeds, consumes exactly the dataset's tokens,
   and yields a dataset with the same number of batches, batch-wise equal content (on everything the batch
   description streams) and equal shape. *)
Theorem data_roundtrip : forall batch, wfd batch = true ->
  forall bs dims numel fresh rest,
    forallb (ntyped batch) bs = true ->
    exists d', nread (data_desc batch) fresh (nwrite (data_desc batch) (data_val bs (shape_val dims numel)) ++ rest)
               = Some (d', rest) /\
               length (data_batches d') = length bs /\
               Forall2 (streq batch) bs (data_batches d') /\
               shape_dims (data_shape d') = NPrim (VList (map VNat dims)) /\
               shape_numel (data_shape d') = NPrim (VNat numel).
Proof.
  intros batch W bs dims numel fresh rest Tb.
  pose proof (data_val_typed batch bs (shape_val dims numel) Tb (shape_val_typed dims numel)) as T.
  destruct (nested_roundtrip _ _ eq_refl (data_desc_wf batch W) _ fresh rest T) as [d' [R S]].
  exists d'. split; [exact R|].
  unfold data_desc in S. cbn [streq fstreq] in S. destruct S as [S1 [S2 _]].
  unfold shared_container_desc in S1. cbn [streq fstreq] in S1. destruct S1 as [S1 _].
  destruct S1 as [lx [ly [Ex [Ey F]]]].
  unfold data_val in Ex. cbn [members_of nlookup] in Ex.
  rewrite !String.eqb_refl in Ex. cbn [members_of nlookup] in Ex. rewrite String.eqb_refl in Ex.
  inversion Ex; subst lx. clear Ex.
  assert (B : Forall2 (streq batch) bs (data_batches d')).
  { unfold data_batches. rewrite Ey. cbn [elems_of]. apply Forall2_streq_opt_batches. exact F. }
  split; [symmetry; eapply Forall2_length_eq; exact B|]. split; [exact B|].
  unfold shape_desc in S2. cbn [streq fstreq] in S2. destruct S2 as [D1 [D2 _]].
  unfold data_shape, shape_dims, shape_numel.
  unfold data_val, shape_val in D1, D2. cbn in D1, D2. split; symmetry; assumption.
Qed.

(* batches without object nodes (RealMatrix for Data<RealVector>, UIntVector for Data<unsigned int>): plain equality *)
Corollary data_roundtrip_eq : forall batch, wfd batch = true -> objfree batch = true ->
  forall bs dims numel fresh rest,
    forallb (ntyped batch) bs = true ->
    exists d', nread (data_desc batch) fresh (nwrite (data_desc batch) (data_val bs (shape_val dims numel)) ++ rest)
               = Some (d', rest) /\
               data_batches d' = bs /\
               shape_dims (data_shape d') = NPrim (VList (map VNat dims)) /\
               shape_numel (data_shape d') = NPrim (VNat numel).
Proof.
  intros batch W O bs dims numel fresh rest Tb.
  destruct (data_roundtrip batch W bs dims numel fresh rest Tb) as [d' [R [_ [B [D1 D2]]]]].
  exists d'. split; [exact R|]. split; [|split; assumption].
  symmetry. apply Forall2_eq. eapply Forall2_impl_in; [|exact B]. intros a b _ Hab. apply (streq_objfree batch O); exact Hab.
Qed.

(* the two boundary states the property names *)
Corollary data_roundtrip_empty : forall batch, wfd batch = true ->
  forall dims numel fresh rest,
    exists d', nread (data_desc batch) fresh (nwrite (data_desc batch) (data_val [] (shape_val dims numel)) ++ rest)
               = Some (d', rest) /\
               data_batches d' = [] /\
               shape_dims (data_shape d') = NPrim (VList (map VNat dims)) /\
               shape_numel (data_shape d') = NPrim (VNat numel).
Proof.
  intros batch W dims numel fresh rest.
  destruct (data_roundtrip batch W [] dims numel fresh rest eq_refl) as [d' [R [L [_ [D1 D2]]]]].
  exists d'. split; [exact R|]. split; [|split; assumption].
  destruct (data_batches d'); [reflexivity|discriminate L].
Qed.

Corollary data_roundtrip_single_element : forall v dims numel fresh rest,
  has_kind KDbl v = true ->
  let batch := DPrim (KMat KDbl) in
  let b := NPrim (VMat 1 1 [v]) in
  exists d', nread (data_desc batch) fresh (nwrite (data_desc batch) (data_val [b] (shape_val dims numel)) ++ rest)
             = Some (d', rest) /\
             data_batches d' = [b] /\
             shape_dims (data_shape d') = NPrim (VList (map VNat dims)) /\
             shape_numel (data_shape d') = NPrim (VNat numel).
Proof.
  intros v dims numel fresh rest Hv batch b.
  apply (data_roundtrip_eq batch eq_refl eq_refl [b] dims numel fresh rest).
  unfold b, batch. destruct v; cbn [has_kind] in Hv; try discriminate Hv. reflexivity.
Qed.

(* the hypotheses are satisfiable and the statement is not vacuous: a concrete dataset of two dense batches read into
   a fresh dataset with one other batch and another shape *)
Example data_roundtrip_example :
  let batch := DPrim (KMat KDbl) in
  let b1 := NPrim (VMat 2 1 [VDbl 1 0; VDbl 3 (-1)]) in
  let b2 := NPrim (VMat 1 1 [VDbl 5 2]) in
  let fresh := data_val [NPrim (VMat 1 2 [VDbl 7 0; VDbl 9 0])] (shape_val [2] 2) in
  exists d', nread (data_desc batch) fresh (nwrite (data_desc batch) (data_val [b1; b2] (shape_val [1] 1))) = Some (d', []) /\
             data_batches d' = [b1; b2] /\ shape_dims (data_shape d') = NPrim (VList [VNat 1]).
Proof. cbv zeta. eexists. split; [vm_compute; reflexivity|]. split; reflexivity. Qed.
