(* C02 — the Qc instantiation satisfies the hypotheses of C02Proofs (field, decidable equality), and a
   concrete run showing that the hypotheses of the Cholesky theorems are satisfiable over Q. *)
From Coq Require Import QArith Qcanon List Lia Field.
From SharkV Require Import C02Model C02Proofs C02Q.
Import ListNotations.

Lemma qc_field : forall sq, field_theory (fzero (qc_ops sq)) (fone (qc_ops sq)) (fadd (qc_ops sq)) (fmul (qc_ops sq))
  (fsub (qc_ops sq)) (fopp (qc_ops sq)) (fdiv (qc_ops sq)) (finv (qc_ops sq)) (@eq Qc).
Proof. intros sq. exact Qcft. Qed.
Lemma qc_eqb_spec : forall sq x y, feqb (qc_ops sq) x y = true <-> x = y.
Proof. intros sq x y. cbn. unfold qc_eqb. destruct (Qc_eq_dec x y); split; intros; congruence. Qed.
Lemma qc_leb_00 : forall sq, fleb (qc_ops sq) (fzero (qc_ops sq)) (fzero (qc_ops sq)) = true.
Proof. intros. reflexivity. Qed.

(* A = [[4,2],[2,5]] = L L^T with L = [[2,0],[1,2]]; both pivots equal 4, sqrt given on 4 only *)
Definition ex_sq (x : Qc) : Qc := if qc_eqb x (qc_make 4 1) then qc_make 2 1 else Q2Qc 0.
Definition ex_M : mat Qc := of_rows Qc (qc_ops ex_sq)
  [[qc_make 4 1; qc_make 2 1]; [qc_make 2 1; qc_make 5 1]].
Definition ex_b : vec Qc := of_list Qc (qc_ops ex_sq) [qc_make 8 1; qc_make 12 1].

Example ex_cholesky_runs :
  match potrf_lower Qc (qc_ops ex_sq) 2 2 ex_M with
  | POk _ L => (qc_eqb (L 0 0)%nat (qc_make 2 1) && qc_eqb (L 1 0)%nat (qc_make 1 1) && qc_eqb (L 1 1)%nat (qc_make 2 1))%bool = true
  | _ => False
  end.
Proof. vm_compute. reflexivity. Qed.
Example ex_cholesky_solve :
  match chol_solve Qc (qc_ops ex_sq) RowMajor ex_M 2 ex_b with
  | Some x => (qc_eqb (x 0%nat) (qc_make 1 1) && qc_eqb (x 1%nat) (qc_make 2 1))%bool = true
  | None => False
  end.
Proof. vm_compute. reflexivity. Qed.
Example ex_sqrt_exact : sqrt_exact_lower Qc (qc_ops ex_sq) 2 2 ex_M.
Proof.
  intros j L Hj H _. destruct j as [|[|j]]; [| |lia].
  - cbn [potrf_lower] in H. inversion H; subst L. apply Qc_is_canon. vm_compute. reflexivity.
  - vm_compute in H. inversion H; subst L. apply Qc_is_canon. vm_compute. reflexivity.
Qed.
(* the upper kernel accepts a zero pivot where the lower kernel rejects it: [[0,0],[0,1]] *)
Definition ex_Z : mat Qc := of_rows Qc (qc_ops ex_sq) [[Q2Qc 0; Q2Qc 0]; [Q2Qc 0; qc_make 1 1]].
Example ex_zero_pivot_lower_rejects :
  match potrf_lower Qc (qc_ops ex_sq) 2 2 ex_Z with PFail _ k _ => k = 1%nat | _ => False end.
Proof. vm_compute. reflexivity. Qed.
Example ex_zero_pivot_upper_accepts :
  match potrf_upper Qc (qc_ops ex_sq) 2 2 ex_Z with PZeroDiv _ k => k = 1%nat | _ => False end.
Proof. vm_compute. reflexivity. Qed.
