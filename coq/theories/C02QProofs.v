(* C02 — the Qc instantiation satisfies the hypotheses of C02Proofs (field, decidable equality), and a
   concrete run showing that the hypotheses of the Cholesky theorems are satisfiable over Q. *)
From Coq Require Import QArith Qcanon List Lia Field.
From SharkV Require Import C02Model C02Proofs C02Q.
Import ListNotations.

Lemma qc_field : forall sq, field_theory (fzero (qc_ops sq)) (fone (qc_ops sq)) (fadd (qc_ops sq)) (fmul (qc_ops sq))
  (fsub (qc_ops sq)) (fopp (qc_ops sq)) (fdiv (qc_ops sq)) (finv (qc_ops sq)) (@eq Qc).
Proof. intros sq. exact Qcft. Qed.
Lemma qc_eqb_spec : forall sq x y, feqb (qc_ops sq) x y = true <-> x = y.
Proof. intros sq x y. cbn. unfold qc_eqb. destruct (Qc_eq_dec x y); split; intros; congruence. Qed.
Lemma qc_leb_00 : forall sq, fleb (qc_ops sq) (fzero (qc_ops sq)) (fzero (qc_ops sq)) = true.
Proof. intros. reflexivity. Qed.

(* A = [[4,2],[2,5]] = L L^T with L = [[2,0],[1,2]]; both pivots equal 4, sqrt given on 4 only *)
Definition ex_sq (x : Qc) : Qc := if qc_eqb x (qc_make 4 1) then qc_make 2 1 else Q2Qc 0.
Definition ex_M : mat Qc := of_rows Qc (qc_ops ex_sq)
  [[qc_make 4 1; qc_make 2 1]; [qc_make 2 1; qc_make 5 1]].
Definition ex_b : vec Qc := of_list Qc (qc_ops ex_sq) [qc_make 8 1; qc_make 12 1].

Example ex_cholesky_runs :
  match potrf_lower Qc (qc_ops ex_sq) 2 2 ex_M with
  | POk _ L => (qc_eqb (L 0 0)%nat (qc_make 2 1) && qc_eqb (L 1 0)%nat (qc_make 1 1) && qc_eqb (L 1 1)%nat (qc_make 2 1))%bool = true
  | _ => False
  end.
Proof. vm_compute. reflexivity. Qed.
Example ex_cholesky_solve :
  match chol_solve Qc (qc_ops ex_sq) RowMajor ex_M 2 ex_b with
  | Some x => (qc_eqb (x 0%nat) (qc_make 1 1) && qc_eqb (x 1%nat) (qc_make 2 1))%bool = true
  | None => False
  end.
Proof. vm_compute. reflexivity. Qed.
Example ex_sqrt_exact : sqrt_exact_lower Qc (qc_ops ex_sq) 2 2 ex_M.
Proof.
  intros j L Hj H _. destruct j as [|[|j]]; [| |lia].
  - cbn [potrf_lower] in H. inversion H; subst L. apply Qc_is_canon. vm_compute. reflexivity.
  - vm_compute in H. inversion H; subst L. apply Qc_is_canon. vm_compute. reflexivity.
Qed.
(* the upper kernel accepts a zero pivot where the lower kernel rejects it: [[0,0],[0,1]] *)
Definition ex_Z : mat Qc := of_rows Qc (qc_ops ex_sq) [[Q2Qc 0; Q2Qc 0]; [Q2Qc 0; qc_make 1 1]].
Example ex_zero_pivot_lower_rejects :
  match potrf_lower Qc (qc_ops ex_sq) 2 2 ex_Z with PFail _ k _ => k = 1%nat | _ => False end.
Proof. vm_compute. reflexivity. Qed.
Example ex_zero_pivot_upper_accepts :
  match potrf_upper Qc (qc_ops ex_sq) 2 2 ex_Z with PZeroDiv _ k => k = 1%nat | _ => False end.
Proof. vm_compute. reflexivity. Qed.

(* ---------- pivoted LU: the order / absolute-value laws hold over Qc with qc_abs = Qcabs ---------- *)
From Coq Require Import Qcabs.
From SharkV Require Import C02BlkModel C02LUProofs C02CholBlkProofs.

Lemma qc_ltb_true : forall x y, qc_ltb x y = true <-> (x < y)%Qc.
Proof. intros. unfold qc_ltb. destruct (Qclt_le_dec x y) as [H|H]; split; intros; try congruence. exfalso. exact (Qclt_not_le _ _ H0 H). Qed.
Lemma qc_ltb_false : forall x y, qc_ltb x y = false <-> (y <= x)%Qc.
Proof. intros. unfold qc_ltb. destruct (Qclt_le_dec x y) as [H|H]; split; intros; try congruence. exfalso. exact (Qclt_not_le _ _ H H0). Qed.
Lemma qc_leb_true : forall x y, qc_leb x y = true <-> (x <= y)%Qc.
Proof. intros. unfold qc_leb. destruct (Qclt_le_dec y x) as [H|H]; split; intros; try congruence. exfalso. exact (Qclt_not_le _ _ H H0). Qed.

Lemma qc_lt_irrefl : forall sq x, fltb (qc_ops sq) x x = false.
Proof. intros. cbn. apply qc_ltb_false. apply Qcle_refl. Qed.
Lemma qc_lt_trans : forall sq x y z, fltb (qc_ops sq) y x = false -> fltb (qc_ops sq) y z = true -> fltb (qc_ops sq) z x = false.
Proof.
  intros sq x y z H1 H2. cbn in *. apply qc_ltb_false in H1. apply qc_ltb_true in H2. apply qc_ltb_false.
  apply Qclt_le_weak. eapply Qcle_lt_trans; eauto.
Qed.
Lemma qc_lt_le_trans : forall sq x y z, fltb (qc_ops sq) y x = false -> fltb (qc_ops sq) y z = true -> fltb (qc_ops sq) x z = true.
Proof.
  intros sq x y z H1 H2. cbn in *. apply qc_ltb_false in H1. apply qc_ltb_true in H2. apply qc_ltb_true.
  eapply Qcle_lt_trans; eauto.
Qed.
Lemma qc_le_of_nlt : forall sq x y, fltb (qc_ops sq) y x = false -> fleb (qc_ops sq) x y = true.
Proof. intros sq x y H. cbn in *. apply qc_ltb_false in H. apply qc_leb_true. exact H. Qed.
Lemma qc_le_mul_r : forall sq x y z, fleb (qc_ops sq) x y = true -> fltb (qc_ops sq) (fzero (qc_ops sq)) z = true ->
  fleb (qc_ops sq) (fmul (qc_ops sq) x z) (fmul (qc_ops sq) y z) = true.
Proof.
  intros sq x y z H1 H2. cbn in *. apply qc_leb_true in H1. apply qc_ltb_true in H2. apply qc_leb_true.
  apply Qcmult_le_compat_r; [exact H1|apply Qclt_le_weak; exact H2].
Qed.
Lemma qc_abs_mul : forall sq x y, qc_abs (fmul (qc_ops sq) x y) = fmul (qc_ops sq) (qc_abs x) (qc_abs y).
Proof. intros. cbn. apply Qcabs_Qcmult. Qed.
Lemma qc_abs_pos : forall sq x, x <> fzero (qc_ops sq) -> fltb (qc_ops sq) (fzero (qc_ops sq)) (qc_abs x) = true.
Proof.
  intros sq x H. cbn in *. apply qc_ltb_true. destruct (Qcle_lt_or_eq _ _ (Qcabs_nonneg x)) as [L|E]; [exact L|].
  exfalso. apply H. apply Qcabs_null. symmetry. exact E.
Qed.
Lemma qc_abs_0 : forall sq, qc_abs (fzero (qc_ops sq)) = fzero (qc_ops sq).
Proof. intros. cbn. apply Qcabs_pos. apply Qcle_refl. Qed.

(* a run of the blocked getrf (block size 1, so the recursion, the row swaps of both panels, trsm and gemm are used)
   with row exchanges and a tie: A = [[1,2,0],[-2,1,1],[2,3,1]] *)
Definition ex_A3 : mat Qc := of_rows Qc (qc_ops ex_sq)
  [[qc_make 1 1; qc_make 2 1; qc_make 0 1]; [qc_make (-2) 1; qc_make 1 1; qc_make 1 1]; [qc_make 2 1; qc_make 3 1; qc_make 1 1]].
Definition qc_eq_list (l1 l2 : list Qc) : bool := forallb (fun p => qc_eqb (fst p) (snd p)) (combine l1 l2) && Nat.eqb (length l1) (length l2).
Example ex_getrf_runs :
  match getrf Qc (qc_ops ex_sq) qc_abs 1 1 3 ex_A3 with
  | LUOk _ LU P =>
      (* first of the two rows with |.| = 2 is taken; then 4 > 5/2 *)
      tabp 3 P = [1; 2; 2]%nat /\
      qc_eq_list (concat (to_rows Qc 3 3 LU))
        [qc_make (-2) 1; qc_make 1 1; qc_make 1 1;
         qc_make (-1) 1; qc_make 4 1; qc_make 2 1;
         qc_make (-1) 2; qc_make 5 8; qc_make (-3) 4] = true
  | _ => False
  end.
Proof. vm_compute. split; reflexivity. Qed.
Example ex_getrf_singular :
  match getrf Qc (qc_ops ex_sq) qc_abs 1 1 2 (of_rows Qc (qc_ops ex_sq) [[qc_make 1 1; qc_make 2 1]; [qc_make 2 1; qc_make 4 1]]) with
  | LUFail _ j _ => j = 1%nat
  | _ => False
  end.
Proof. vm_compute. reflexivity. Qed.
Example ex_lu_solve :
  match lu_solve_full Qc (qc_ops ex_sq) qc_abs 1 1 RowMajor ex_A3 3 (of_list Qc (qc_ops ex_sq) [qc_make 5 1; qc_make 3 1; qc_make 11 1]) with
  | Some x => qc_eq_list (tab Qc 3 x) [qc_make 1 1; qc_make 2 1; qc_make 3 1] = true
  | None => False
  end.
Proof. vm_compute. reflexivity. Qed.
(* the blocked Cholesky recursion with block size 1 on ex_M *)
Example ex_potrf_rec_runs :
  match potrf_rec Qc (qc_ops ex_sq) 1 1 2 2 0 2 ex_M with
  | BOk _ L => (qc_eqb (L 0 0)%nat (qc_make 2 1) && qc_eqb (L 1 0)%nat (qc_make 1 1) && qc_eqb (L 1 1)%nat (qc_make 2 1))%bool = true
  | _ => False
  end.
Proof. vm_compute. reflexivity. Qed.

Lemma ex_blk_hypotheses_satisfiable :
  (exists LU P, getrf Qc (qc_ops ex_sq) qc_abs 1 1 3 ex_A3 = LUOk Qc LU P) /\
  (exists j M', getrf Qc (qc_ops ex_sq) qc_abs 1 1 2
     (of_rows Qc (qc_ops ex_sq) (cons (cons (qc_make 1 1) (cons (qc_make 2 1) nil)) (cons (cons (qc_make 2 1) (cons (qc_make 4 1) nil)) nil))) = LUFail Qc j M') /\
  (exists L, potrf_rec Qc (qc_ops ex_sq) 1 1 2 2 0 2 ex_M = BOk Qc L).
Proof.
  split; [|split].
  - pose proof ex_getrf_runs as H. destruct (getrf Qc (qc_ops ex_sq) qc_abs 1 1 3 ex_A3) as [LU P| |]; [eauto|contradiction|contradiction].
  - pose proof ex_getrf_singular as H.
    destruct (getrf Qc (qc_ops ex_sq) qc_abs 1 1 2 _) as [|j M'|]; [contradiction|eauto|contradiction].
  - pose proof ex_potrf_rec_runs as H. destruct (potrf_rec Qc (qc_ops ex_sq) 1 1 2 2 0 2 ex_M) as [L| |]; [eauto|contradiction|contradiction].
Qed.
