(* C17 — executable model of the CONSTRUCTION of the projection trees: LCTree::buildTree / calculateNormal
   (LCTree.h), KHCTree::buildTree / calculateNormal (KHCTree.h) as coded after the repairs bfc526b8 (a cell
   that cannot be split becomes a leaf: `split == begin || split == end`) and c6ff0316 (degenerate sample:
   first point and the point farthest from it), BinaryTree::splitList (BinaryTree.h) and partitionEqually /
   median_element (Core/utility/functional.h), default TreeConstruction() (bucket size 1).
   Definitions only; proofs are in C17ProjBuildProofs.v.

   Two oracles, both explicit arguments:
     * `oracle : list akv -> list akv`  the range after std::nth_element (as in C17Build.v); the two std::partition
       calls are modelled by stable partitions;
     * `choose : list nat -> nat * nat` the two anchor points of a node (data indices), given the node's points in
       their current order.  `coded_choose` is the choice the C++ makes (sample of CuttingAccuracy points, the pair
       with the largest distance, first strict maximum in the loop order; fallback for a degenerate sample); the
       well-formedness theorem holds for EVERY choice that returns two different points of the node whenever the
       node holds two different points.
   Arithmetic: C17Field.fops (sqrt is a field of the record). *)
From Coq Require Import List Bool Arith.
From SharkV Require Import C17Model C17Build C17Field C17Gen C17Proj.
Import ListNotations.

Section PB.
Variable A : Type.
Variable F : fops A.
Notation "0" := (o0 F) : OF_scope.
Notation "1" := (o1 F) : OF_scope.
Infix "+" := (oadd F) : OF_scope.
Infix "*" := (omul F) : OF_scope.
Infix "-" := (osub F) : OF_scope.
Infix "/" := (odiv F) : OF_scope.
Notation "- x" := (oopp F x) : OF_scope.
Local Open Scope OF_scope.
Notation apoint := (apoint A).

(* KeyValuePair<double, iterator>: key = funct(point), value = index of the point *)
Definition akv := (A * nat)%type.
Definition keqb (a b : A) : bool := oleb F a b && oleb F b a.      (* a == b *)

(* partitionEqually(range), see C17Build.partition_equally *)
Definition apartition_equally (oracle : list akv -> list akv) (range : list akv) : list akv * list akv :=
  let mp := median_pos (length range) in
  let r := oracle range in                                   (* std::nth_element(begin, begin+medianPos, end) *)
  let median := fst (nth mp r (0, 0%nat)) in
  let front := firstn mp r in
  let back := skipn mp r in
  let lt := filter (fun e => oltb F (fst e) median) front in         (* partition(begin, medianIter, elem < median) *)
  let ge := filter (fun e => negb (oltb F (fst e) median)) front in
  let eq := filter (fun e => keqb (fst e) median) back in             (* partition(medianIter, end, elem == median) *)
  let gt := filter (fun e => negb (keqb (fst e) median)) back in
  let a := length lt in
  let c := length gt in
  if (a =? 0)%nat then (lt ++ ge ++ eq, gt)                   (* if (left == begin) return right *)
  else if (c <=? a)%nat then (lt, ge ++ eq ++ gt)             (* if (left - begin >= end - right) return left *)
  else (lt ++ ge ++ eq, gt).                                  (* else return right *)

Definition amaxkey (l : list akv) : A :=
  match l with
  | [] => 0
  | e :: t => fold_left (fun acc x => if oltb F acc (fst x) then fst x else acc) t (fst e)
  end.
Definition aminkey (l : list akv) : A :=
  match l with
  | [] => 0
  | e :: t => fold_left (fun acc x => if oltb F (fst x) acc then fst x else acc) t (fst e)
  end.

(* BinaryTree::splitList: threshold, left range, right range *)
Definition asplit_list (oracle : list akv -> list akv) (range : list akv) : A * list akv * list akv :=
  let '(L, R) := apartition_equally oracle range in
  match R with
  | [] => (fst (hd (0, 0%nat) L), [], L)                     (* pos == range.end(): m_threshold = values[0]; return points.begin() *)
  | _ :: _ => ((amaxkey L + aminkey R) / two F, L, R)          (* m_threshold = 0.5*(maximum + minimum) *)
  end.

(* ---------------------------------------------------------------------------------------- *)
(* buildTree, generic in the node parameters P computed from the two anchors *)
Section Build.
Variables P N : Type.
Variable prep : nat -> nat -> P.             (* calculateNormal: node parameters from the anchors *)
Variable key : P -> nat -> A.                (* distance[i] = funct of the i-th point *)
Variable mk : P -> A -> N.                   (* node data once the threshold is known *)
Variable choose : list nat -> nat * nat.
Variable oracle : list akv -> list akv.

Fixpoint pbuild (fuel : nat) (elems : list nat) : ptree N :=
  match fuel with
  | O => PLeaf elems                                           (* tc.maxDepth() == 0 *)
  | S f =>
      if (length elems <=? 1)%nat then PLeaf elems             (* m_size <= tc.maxBucketSize() *)
      else
        let '(a, b) := choose elems in
        let p := prep a b in
        let range := map (fun i => (key p i, i)) elems in
        let '(thr, L, R) := asplit_list oracle range in
        match L, R with
        | [], _ => PLeaf elems                                 (* split == begin: all values equal *)
        | _, [] => PLeaf elems                                 (* split == end *)
        | _ :: _, _ :: _ => PNode (mk p thr) (pbuild f (map snd L)) (pbuild f (map snd R))
        end
  end.
End Build.

(* ---------------------------------------------------------------------------------------- *)
(* the choice of the anchors as coded.  d2 i j = squared distance of the data points i and j in the tree's metric
   (LCTree: distanceSqr, KHCTree: kernel->featureDistanceSqr) *)
Section Choose.
Variable d2 : nat -> nat -> A.

(* calculateNormal: best_dist2 = -1; for (i = 1..n-1) for (j = 0..i-1) if (dist2(s_i, s_j) > best_dist2) take (i, j) *)
Definition scan_inner (si : nat) (best : nat * nat * A) (prefix : list nat) : nat * nat * A :=
  fold_left (fun b sj => let d := d2 si sj in if oltb F (snd b) d then (si, sj, d) else b) prefix best.
Fixpoint scan_outer (prefix_rev rest : list nat) (best : nat * nat * A) : nat * nat * A :=
  match rest with
  | [] => best
  | si :: rest' => scan_outer (si :: prefix_rev) rest' (scan_inner si best (rev prefix_rev))
  end.
Definition calc_anchors (samples : list nat) : nat * nat * A :=
  match samples with
  | [] => (0%nat, 0%nat, oopp F 1)
  | s0 :: rest => scan_outer [s0] rest (s0, s0, oopp F 1)
  end.

(* samples[i] = points[m_size * (2*i+1) / (2*CuttingAccuracy)] *)
Definition sample_of (ca : nat) (elems : list nat) : list nat :=
  let m := length elems in
  if (m <=? ca)%nat then elems
  else map (fun i => nth (Nat.div (m * (2 * i + 1)) (2 * ca)) elems 0%nat) (seq 0 ca).

(* the point farthest from points[0]: best_dist2 = 0; pair[1] = points[0]; strict > *)
Definition farthest (elems : list nat) : nat :=
  match elems with
  | [] => 0%nat
  | p0 :: rest => fst (fold_left (fun acc i => let d := d2 i p0 in if oltb F (snd acc) d then (i, d) else acc) rest (p0, 0))
  end.

(* buildTree: the anchors (positive, negative).  `degenerate a b` is the test of the class on the anchors found
   in the sample (LCTree: norm_sqr(m_normal) == 0.0, KHCTree: featureDistanceSqr(positive, negative) == 0.0) *)
Definition coded_choose (ca : nat) (degenerate : nat -> nat -> bool) (elems : list nat) : nat * nat :=
  let '(a, b, _) := calc_anchors (sample_of ca elems) in
  if (ca <? length elems)%nat && degenerate a b then
    let '(a', b', _) := calc_anchors [hd 0%nat elems; farthest elems] in (a', b')
  else (a, b).
End Choose.

(* ---------------------------------------------------------------------------------------- *)
(* LCTree: m_normal = factor * (x_a - x_b), factor = 1/sqrt(best_dist2), 1 if that is not finite *)
Definition inv_norm (best : A) : A := if oleb F best 0 then 1 else 1 / osqrt F best.
Definition lc_d2 (data : list apoint) (i j : nat) : A := edist2 F (ptA A data i) (ptA A data j).
Definition lc_prep (data : list apoint) (a b : nat) : apoint :=
  vscale F (inv_norm (lc_d2 data a b)) (vsub F (ptA A data a) (ptA A data b)).
Definition lc_key (data : list apoint) (nrm : apoint) (i : nat) : A := dot F nrm (ptA A data i).
Definition lc_degenerate (data : list apoint) (a b : nat) : bool :=
  let n := lc_prep data a b in keqb (dot F n n) 0.
Definition lc_build (data : list apoint) (choose : list nat -> nat * nat) (oracle : list akv -> list akv) : ptree (lcnode A) :=
  pbuild apoint (lcnode A) (lc_prep data) (lc_key data) (mkLc A) choose oracle (length data) (seq 0 (length data)).
Definition lc_coded_choose (ca : nat) (data : list apoint) : list nat -> nat * nat :=
  coded_choose (lc_d2 data) ca (lc_degenerate data).

(* KHCTree: mep_positive, mep_negative, m_normalInvNorm = 1/sqrt(best_dist2), 1 if that is not finite *)
Section KBuild.
Variable k : apoint -> apoint -> A.
Definition khc_d2 (data : list apoint) (i j : nat) : A := kd2 A F k (ptA A data i) (ptA A data j).
Definition khc_prep (data : list apoint) (a b : nat) : nat * nat * A := (a, b, inv_norm (khc_d2 data a b)).
Definition khc_mk (p : nat * nat * A) (thr : A) : khcnode A := mkKhc A (fst (fst p)) (snd (fst p)) (snd p) thr.
Definition khc_key (data : list apoint) (p : nat * nat * A) (i : nat) : A :=
  khc_funct A F k data (khc_mk p 0) (ptA A data i).
Definition khc_degenerate (data : list apoint) (a b : nat) : bool := keqb (khc_d2 data a b) 0.
Definition khc_build (data : list apoint) (choose : list nat -> nat * nat) (oracle : list akv -> list akv) : ptree (khcnode A) :=
  pbuild (nat * nat * A) (khcnode A) (khc_prep data) (khc_key data) khc_mk choose oracle (length data) (seq 0 (length data)).
Definition khc_coded_choose (ca : nat) (data : list apoint) : list nat -> nat * nat :=
  coded_choose (khc_d2 data) ca (khc_degenerate data).
End KBuild.

(* ---------------------------------------------------------------------------------------- *)
(* hypotheses of the construction theorems: std::nth_element's post-condition (C17Build.nth_spec for this key type) *)
Definition amedian_prop (mp : nat) (r : list akv) : Prop :=
  forall e, nth_error r mp = Some e ->
    Forall (fun x => oleb F (fst x) (fst e) = true) (firstn mp r) /\ Forall (fun x => oleb F (fst e) (fst x) = true) (skipn mp r).
Definition anth_spec (l r : list akv) : Prop :=
  Permutation.Permutation l r /\ amedian_prop (median_pos (length l)) r.
Definition aoracle_ok (oracle : list akv -> list akv) : Prop := forall l, anth_spec l (oracle l).

Definition amedian_okb (mp : nat) (r : list akv) : bool :=
  match nth_error r mp with
  | None => true
  | Some e => forallb (fun x => oleb F (fst x) (fst e)) (firstn mp r) && forallb (fun x => oleb F (fst e) (fst x)) (skipn mp r)
  end.

(* insertion sort by key: a total oracle *)
Fixpoint akinsert (e : akv) (l : list akv) : list akv :=
  match l with
  | [] => [e]
  | h :: t => if oleb F (fst e) (fst h) then e :: l else h :: akinsert e t
  end.
Fixpoint aksort (l : list akv) : list akv :=
  match l with [] => [] | e :: t => akinsert e (aksort t) end.

End PB.
