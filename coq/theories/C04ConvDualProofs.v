(* C04 — Conv2DModel, part 4: element-wise activation pair (phi, dphi): the coded derivatives are the tangent
   (forward-mode dual numbers, the SAME model code run over the ring D = A[eps]/(eps^2)) of the weighted output sum.
   Any commutative ring, axiom-free. *)
From Coq Require Import List Arith Bool Lia Ring PeanoNat ArithRing.
From SharkV Require Import C04Model C04Conv C04Aux C04Proofs C04SumProofs C04ConvProofs C04ConvDerivProofs C04ConvThmProofs.
Import ListNotations.

(* ---------------- reading entries through a map ---------------- *)
Lemma get_map {B1 B2} (z1 : B1) (z2 : B2) (h : B1 -> B2) v i : h z1 = z2 -> get z2 (map h v) i = h (get z1 v i).
Proof. intros E. unfold get. rewrite <- E. apply map_nth. Qed.

Lemma get_map_in {B1 B2} (z1 : B1) (z2 : B2) (h : B1 -> B2) v i : i < length v -> get z2 (map h v) i = h (get z1 v i).
Proof. intros H. unfold get. apply nth_map_in. exact H. Qed.

Lemma get_map2 {B} (z : B) (f : B -> B -> B) c y i : i < length c -> i < length y -> get z (map2 f c y) i = f (get z c i) (get z y i).
Proof.
  unfold get. revert y i; induction c as [|a c IH]; intros [|b y] i H1 H2; simpl in *; try lia.
  destruct i; auto. apply IH; lia.
Qed.

Lemma map2_length {B1 B2 E} (f : B1 -> B2 -> E) c y : length c = length y -> length (map2 f c y) = length c.
Proof. revert y; induction c as [|a c IH]; intros [|b y] L; simpl in *; try discriminate; auto. Qed.

Lemma entry_map {B1 B2} (z1 : B1) (z2 : B2) (h : B1 -> B2) C H W fh fw ph pw imgs row k :
  h z1 = z2 ->
  h (im2mat_entry z1 C H W fh fw ph pw imgs row k) = im2mat_entry z2 C H W fh fw ph pw (map (map h) imgs) row k.
Proof.
  intros E. unfold im2mat_entry.
  change (@nil B2) with (map h []). rewrite map_nth.
  destruct ((ph =? 0) && (pw =? 0)); [symmetry; apply get_map; auto|].
  destruct (_ || _); auto. destruct (_ || _); auto. symmetry; apply get_map; auto.
Qed.

Section ConvDual.
Variable A : Type.
Variables (zero one : A) (add mul sub : A -> A -> A) (opp : A -> A).
Hypothesis Rth : ring_theory zero one add mul sub opp eq.
Add Ring AringU : Rth.

Infix "+" := add : CA_scope.
Infix "*" := mul : CA_scope.
Local Open Scope CA_scope.
Notation getA := (get zero).
Notation bsumA := (bsum zero add).
Notation dotA := (dot zero add mul).
Notation frA := (fr A zero add mul).
Notation DA := (D A).
Notation dz := (dzero A zero).
Notation da := (dadd A add).
Notation dm := (dmul A add mul).
Notation getD := (get dz).
Notation bsumD := (bsum dz da).
Notation F := (map (@fst A A)).
Notation S' := (map (@snd A A)).
Notation kernelA := (conv2d_kernel zero add mul).
Notation kernelD := (conv2d_kernel dz da dm).
Notation conv_linA g X w := (kernelA (gC g) (gF g) (gH g) (gW g) (gfh g) (gfw g) (pad_h g) (pad_w g) X w).
Notation conv_linD g X w := (kernelD (gC g) (gF g) (gH g) (gW g) (gfh g) (gfw g) (pad_h g) (pad_w g) X w).

Lemma fst_bsumD n (f : nat -> DA) : fst (bsumD n f) = bsumA n (fun i => fst (f i)).
Proof. induction n; simpl; auto. rewrite IHn. reflexivity. Qed.
Lemma snd_bsumD n (f : nat -> DA) : snd (bsumD n f) = bsumA n (fun i => snd (f i)).
Proof. induction n; simpl; auto. rewrite IHn. reflexivity. Qed.

(* value and tangent of the convolution over D *)
Lemma lin_D g (XD : list (list DA)) (wD : list DA) r o :
  geo_ok g -> r < length XD -> o < conv_nout g ->
  fst (getD (nth r (conv_linD g XD wD) []) o) = getA (nth r (conv_linA g (map F XD) (F wD)) []) o /\
  snd (getD (nth r (conv_linD g XD wD) []) o) =
    getA (nth r (conv_linA g (map F XD) (S' wD)) []) o + getA (nth r (conv_linA g (map S' XD) (F wD)) []) o.
Proof.
  intros G Hr Ho.
  rewrite (lin_get DA dz da dm g XD wD r o G Hr Ho).
  rewrite !(lin_get A zero add mul) by (auto; rewrite map_length; auto).
  rewrite fst_bsumD, snd_bsumD. split.
  - apply (bsum_ext A zero add). intros k _. cbn [dmul fst].
    rewrite (entry_map dz zero (@fst A A)) by reflexivity. rewrite (get_map dz zero (@fst A A)) by reflexivity. reflexivity.
  - rewrite <- (bsum_add A zero one add mul sub opp Rth). apply (bsum_ext A zero add). intros k _. cbn [dmul fst snd].
    rewrite (entry_map dz zero (@fst A A)) by reflexivity. rewrite (entry_map dz zero (@snd A A)) by reflexivity.
    rewrite (get_map dz zero (@fst A A)) by reflexivity. rewrite (get_map dz zero (@snd A A)) by reflexivity. reflexivity.
Qed.

Theorem conv_derivative_partial g (phi dphi : A -> A) (thetaD : list DA) (XD : list (list DA)) (Cf : list (list A)) :
  geo_ok g -> length thetaD = conv_nparams g -> rows (conv_nin g) XD -> rows (conv_nout g) Cf -> length Cf = length XD ->
  let m := conv_set zero g (ew_act mul phi dphi) (F thetaD) in
  let mD := conv_set dz g (ew_act dm (phiD A mul phi dphi) (fun p => p)) thetaD in
  let X := map F XD in
  frA Cf (map S' (conv_eval_batch dz da dm mD XD)) =
  dotA (conv_wpd zero add mul m X Cf) (S' thetaD) + frA (conv_wid zero add mul m X Cf) (map S' XD).
Proof.
  intros G Lt RX RC LC m mD X.
  pose proof G as (A1 & A2 & A3 & A4 & A5).
  set (n := length XD) in *.
  assert (LX : length X = n) by (unfold X; rewrite map_length; reflexivity).
  set (wD := firstn (conv_nflt g) thetaD). set (bD := skipn (conv_nflt g) thetaD).
  assert (Ew : cflt m = F wD) by (unfold m, conv_set, wD; cbn [cflt]; apply firstn_map).
  assert (Eb : coff m = F bD) by (unfold m, conv_set, bD; cbn [coff]; apply skipn_map).
  assert (RXF : rows (conv_nin g) X) by (apply rows_map_F; auto).
  (* the pre-activations over A and over D *)
  set (PA := conv_pre_batch zero add mul m X).
  set (PD := conv_pre_batch dz da dm mD XD).
  assert (LPA : length PA = n) by (unfold PA; rewrite pre_batch_length; auto).
  assert (LPD : length PD = n) by (unfold PD; rewrite pre_batch_length; auto).
  assert (RPA : rows (conv_nout g) PA) by (apply (pre_batch_rows A zero add mul m X G)).
  assert (RPD : rows (conv_nout g) PD) by (apply (pre_batch_rows DA dz da dm mD XD G)).
  assert (VD : forall r o, r < n -> o < conv_nout g ->
            fst (getD (nth r PD []) o) = getA (nth r PA []) o /\
            snd (getD (nth r PD []) o) =
              getA (nth r (conv_linA g X (S' wD)) []) o + getA (nth r (conv_linA g (map S' XD) (F wD)) []) o +
              getA (S' bD) (o mod gF g)).
  { intros r o Hr Ho. unfold PD, PA.
    rewrite (pre_batch_get DA dz da dm mD XD r o G Hr Ho).
    rewrite (pre_batch_get A zero add mul m X r o G) by (auto; lia).
    change (cg mD) with g. change (cg m) with g. change (cflt mD) with wD. change (coff mD) with bD. rewrite Ew, Eb.
    destruct (lin_D g XD wD r o G Hr Ho) as [L1 L2]. cbn [dadd fst snd]. rewrite L1, L2.
    rewrite (get_map dz zero (@fst A A)) by reflexivity. rewrite (get_map dz zero (@snd A A)) by reflexivity. auto. }
  (* delta *)
  set (Ds := conv_delta zero add mul m X Cf).
  assert (LDs : length Ds = n) by (unfold Ds, conv_delta; fold PA; rewrite map3_length; rewrite ?map_length; lia).
  assert (VDs : forall r o, r < n -> o < conv_nout g ->
            getA (nth r Ds []) o = getA (nth r Cf []) o * dphi (phi (getA (nth r PA []) o))).
  { intros r o Hr Ho. unfold Ds, conv_delta. fold PA.
    rewrite (nth_map3 _ _ _ _ r [] [] [] []) by (rewrite ?map_length; lia).
    rewrite (nth_map_in _ PA r [] []) by lia. cbn [amul aphi ew_act cact m conv_set].
    assert (L1 : length (nth r Cf []) = conv_nout g) by (apply rows_nth; auto; lia).
    assert (L2 : length (nth r PA []) = conv_nout g) by (apply rows_nth; auto; lia).
    rewrite get_map2 by (rewrite ?map_length; lia).
    rewrite (get_map_in zero zero phi) by lia. reflexivity. }
  assert (RDs : rows (conv_nout g) Ds).
  { unfold rows. apply Forall_forall. intros y Hy. apply (In_nth _ _ []) in Hy. destruct Hy as (r & Hr & <-).
    rewrite LDs in Hr. unfold Ds, conv_delta. fold PA.
    rewrite (nth_map3 _ _ _ _ r [] [] [] []) by (rewrite ?map_length; lia).
    rewrite (nth_map_in _ PA r [] []) by lia. cbn [amul aphi ew_act cact m conv_set].
    rewrite map2_length; [apply rows_nth; auto; lia|].
    rewrite map_length, (rows_nth _ Cf r RC), (rows_nth _ PA r RPA) by lia. reflexivity. }
  (* right-hand side through the core lemma *)
  unfold conv_wpd, conv_wid. fold Ds. change (cg m) with g. change (cbp m) with (bp_filters zero g (cflt m)). rewrite Ew.
  assert (Et : S' thetaD = S' wD ++ S' bD) by (unfold wD, bD; rewrite <- map_app, firstn_skipn; reflexivity).
  rewrite Et.
  assert (Ldw : length (S' wD) = conv_nflt g) by (unfold wD; rewrite map_length, firstn_length; unfold conv_nparams in Lt; lia).
  assert (CC := conv_core A zero one add mul sub opp Rth g X (map S' XD) Ds (F wD) (S' wD) (S' bD) G RXF RDs).
  rewrite <- CC; [| rewrite LDs, LX; reflexivity | rewrite map_length, LX; reflexivity | exact Ldw]. clear CC.
  (* left-hand side *)
  unfold conv_eval_batch. fold PD. cbn [cact mD conv_set aphi ew_act].
  rewrite (fr_bsum A zero one add mul sub opp Rth) by (rewrite !map_length; lia).
  rewrite LC, LX. apply (bsum_ext A zero add). intros r Hr.
  rewrite (dot_get A zero one add mul sub opp Rth). rewrite (rows_nth _ Cf r RC) by lia.
  apply (bsum_ext A zero add). intros o Ho.
  rewrite (nth_map_in _ _ r [] []) by (rewrite map_length; lia).
  rewrite (nth_map_in _ PD r [] []) by lia.
  rewrite (get_map dz zero (@snd A A)) by reflexivity.
  rewrite (get_map_in dz dz) by (rewrite (rows_nth _ PD r RPD); lia).
  destruct (VD r o Hr Ho) as [V1 V2]. unfold phiD. cbn [snd]. rewrite V1, V2, (VDs r o Hr Ho). ring.
Qed.

End ConvDual.
