(* C06, extension round — HuberLoss: the coded gradient is the derivative of the coded value in the analytic sense, over the real
   numbers with sqrt (the polymorphic code of C06Model.v instantiated at R), along every direction, at every prediction whose
   distance from the label is not exactly delta (inside the ball: quadratic branch, outside: delta * |p - l| - delta^2 / 2).
   Uses the standard-library axioms of the reals (printed by Print Assumptions in Properties_C06.v). *)
From Coq Require Import List Arith Reals Lra Lia.
From Coquelicot Require Import Coquelicot.
From SharkV Require Import ListAux C06Model C06FieldProofs C06RealProofs C06CeRealProofs.
Import ListNotations.
Open Scope R_scope.

Definition Rhuber_s := huberA_s R 0 1 Rplus Rminus Rmult Rdiv Rltb sqrt.
Definition Rhuber_g := huberA_g R 0 Rplus Rminus Rmult Rdiv Rltb sqrt.
Definition Rnormsq := anormsq R 0 Rplus Rmult.
Definition Rsub := asub R Rminus.

Lemma Rnormsq_step l p v t : length p = length l -> length v = length l ->
  Rnormsq (Rsub (Raxpy t v p) l) = Rnormsq (Rsub p l) + t * ((1 + 1) * Rdot (Rsub p l) v + t * Rnormsq v).
Proof. exact (anormsq_asub_step R 0 1 Rplus Rminus Rmult Rdiv Ropp Rinv Rltb R_ordered_field l p v t). Qed.

Lemma locally_gt (f : R -> R) x y : continuous f x -> y < f x -> locally x (fun t => y < f t).
Proof. intros Hc H. apply (Hc (fun u => y < u)). apply (open_gt y). exact H. Qed.
Lemma locally_lt (f : R -> R) x y : continuous f x -> f x < y -> locally x (fun t => f t < y).
Proof. intros Hc H. apply (Hc (fun u => u < y)). apply (open_lt y). exact H. Qed.

Lemma poly_continuous N0 D V : continuous (fun t : R => N0 + t * ((1 + 1) * D + t * V)) 0.
Proof. apply (ex_derive_continuous (K := R_AbsRing) (V := R_NormedModule)). auto_derive. trivial. Qed.

Theorem Rhuber_directional_derivative delta l p v : length p = length l -> length v = length l ->
  Rnormsq (Rsub p l) <> delta * delta ->
  is_derive (fun t => Rhuber_s delta l (Raxpy t v p)) 0 (Rdot (Rhuber_g delta l p) v).
Proof.
  intros Hp Hv Hne.
  set (N0 := Rnormsq (Rsub p l)) in *. set (D := Rdot (Rsub p l) v). set (V := Rnormsq v).
  assert (HN : forall t, Rnormsq (Rsub (Raxpy t v p) l) = N0 + t * ((1 + 1) * D + t * V))
    by (intros t; apply Rnormsq_step; assumption).
  assert (H0 : N0 + 0 * ((1 + 1) * D + 0 * V) = N0) by ring.
  destruct (Rtotal_order (delta * delta) N0) as [Hout|[Heq|Hin]]; [| exfalso; apply Hne; symmetry; exact Heq |].
  - (* outside the ball *)
    assert (Hg : Rdot (Rhuber_g delta l p) v = delta / sqrt N0 * D).
    { unfold Rhuber_g, huberA_g. fold Rsub Rnormsq N0. unfold Rltb. destruct (Rlt_dec (delta * delta) N0); [|contradiction].
      apply (adot_scale R 0 1 Rplus Rminus Rmult Rdiv Ropp Rinv Rltb R_ordered_field). }
    rewrite Hg.
    assert (Hpos : 0 < N0) by (assert (0 <= delta * delta) by nra; lra).
    apply (is_derive_ext_loc (fun t => delta * sqrt (N0 + t * ((1 + 1) * D + t * V)) - 1 / (1 + 1) * (delta * delta))).
    + assert (L := locally_gt _ 0 (delta * delta) (poly_continuous N0 D V) ltac:(cbv beta; lra)).
      revert L. apply filter_imp. intros t Ht. cbv beta in Ht. unfold Rhuber_s, huberA_s. fold Rsub Rnormsq. rewrite HN.
      unfold Rltb. destruct (Rlt_dec (delta * delta) (N0 + t * ((1 + 1) * D + t * V))); [reflexivity | contradiction].
    + auto_derive.
      * rewrite H0. exact Hpos.
      * rewrite H0. assert (Hs := sqrt_lt_R0 N0 Hpos). field. lra.
  - (* inside the ball *)
    assert (Hg : Rdot (Rhuber_g delta l p) v = D).
    { unfold Rhuber_g, huberA_g. fold Rsub Rnormsq N0. unfold Rltb. destruct (Rlt_dec (delta * delta) N0); [lra | reflexivity]. }
    rewrite Hg.
    apply (is_derive_ext_loc (fun t => 1 / (1 + 1) * (N0 + t * ((1 + 1) * D + t * V)))).
    + assert (L := locally_lt _ 0 (delta * delta) (poly_continuous N0 D V) ltac:(cbv beta; lra)).
      revert L. apply filter_imp. intros t Ht. cbv beta in Ht. unfold Rhuber_s, huberA_s. fold Rsub Rnormsq. rewrite HN.
      unfold Rltb. destruct (Rlt_dec (delta * delta) (N0 + t * ((1 + 1) * D + t * V))); [lra | reflexivity].
    + auto_derive; [trivial | field].
Qed.
