(* C02 — symmetric eigen-decomposition kernels::syev (kernels/default/syev.hpp): executable model, definitions only.

   Mirrors the routine as coded (EISPACK tred2 / tql2 in one function):
     1. reduction to tridiagonal form, rows i = n-1 .. 1: scale, h, f, g = -/+ sqrt(h), odvecA(i) = scale*g, u stored in row i
        (scaled back at the end) and u/(scale*h) in column i, p = A u / h from the LOWER triangle, hh = f/(h+h), q = p - hh u,
        A -= u q^T + q u^T on the lower triangle of the leading block, dvecA(i) = h                  -> [tred_step], [tred_loop]
     2. accumulation of the transformations, i = 0 .. n-1 (only where dvecA(i) != 0)               -> [accum_step], [accum_loop]
        ([tred2] = 1 + 2: diagonal d, sub-diagonal e (e(i) couples i-1 and i, e(0) = 0) and Q)
     3. implicit QL iterations on (d,e) with accumulation of the rotations in Q, at most 50 per eigenvalue (else exception)
                                                                                                    -> [ql_sweep], [ql_iter], [ql_loop]
     4. eigensort (first largest, swap of values and columns), normalisation of the columns       -> [eig_sort], [eig_normalise]
     [syev] = all of it.  The theorems (C02SyevProofs.v) concern phase 1; phases 3-4 are modelled for the comparison only.
   Summation orders follow the code (they matter only for the instantiation with doubles). *)
From Coq Require Import List Arith Bool.
From SharkV Require Import C02Model C02PstrfModel.
Import ListNotations.

Section Syev.
Variable A : Type.
Variable F : ops A.
Variable fabs : A -> A.
Local Notation "0" := (fzero F).
Local Notation "1" := (fone F).
Local Infix "+" := (fadd F).
Local Infix "*" := (fmul F).
Local Infix "-" := (fsub F).
Local Infix "/" := (fdiv F).
Local Notation mat := (mat A).
Local Notation vec := (vec A).
Local Notation sumr := (sumr A F).
Local Notation memo := (memo A F).
Local Notation memo2 := (memo2 A F).
Local Notation upd := (upd A).

(* ---------- 1. Householder reduction, one row ---------- *)
(* the Householder vector of row i: (scale, g, h, u) with u of length i; None if scale == 0 *)
Definition tred_house (i : nat) (V : mat) : option (A * A * A * vec) :=
  let scale := if Nat.ltb 1 i then sumr 0 i (fun k => fabs (V i k)) else 0 in
  if feqb F scale 0 then None
  else
    let a := fun k => V i k / scale in
    let h0 := sumr 0 i (fun k => a k * a k) in
    let f := a (Nat.sub i 1) in
    let g := if fltb F 0 f then fopp F (fsqrt F h0) else fsqrt F h0 in
    Some (scale, g, h0 - f * g, fun k => if Nat.eqb k (Nat.sub i 1) then f - g else a k).
(* p = A u / h, from the lower triangle of the leading i x i block *)
Definition tred_p (n i : nat) (V : mat) (u : vec) (h : A) : vec :=
  memo n (fun j => sumr 0 i (fun k => if Nat.leb k j then V j k * u k else V k j * u k) / h).
Definition tred_q (n i : nat) (u p : vec) (h : A) : vec :=
  let hh := sumr 0 i (fun j => p j * u j) / (h + h) in
  memo n (fun j => p j - hh * u j).
Definition tred_step (n i : nat) (V : mat) (e d : vec) : mat * vec * vec :=
  match tred_house i V with
  | None => (V, upd e i (V i (Nat.sub i 1)), upd d i 0)
  | Some (scale, g, h, u) =>
    let p := tred_p n i V u h in
    let q := tred_q n i u p h in
    (memo2 n (fun r c =>
       if Nat.ltb r i && Nat.leb c r then V r c - (u r * q c + q r * u c)
       else if Nat.eqb r i && Nat.ltb c i then u c * scale
       else if Nat.eqb c i && Nat.ltb r i then u r / (scale * h)
       else V r c),
     memo n (fun j => if Nat.ltb j i then q j else if Nat.eqb j i then scale * g else e j),
     upd d i h)
  end.
(* rows n-1, n-2, .., n-k *)
Fixpoint tred_loop (n k : nat) (V : mat) (e d : vec) : mat * vec * vec :=
  match k with
  | O => (V, e, d)
  | S k' => match tred_loop n k' V e d with (V1, e1, d1) => tred_step n (Nat.sub (Nat.sub n 1) k') V1 e1 d1 end
  end.

(* ---------- 2. accumulation of the transformation matrices ---------- *)
Definition accum_step (n i : nat) (V : mat) (d : vec) : mat * vec :=
  let V1 := if feqb F (d i) 0 then V
            else memo2 n (fun k j => if Nat.ltb k i && Nat.ltb j i
                                     then V k j - sumr 0 i (fun t => V i t * V t j) * V k i else V k j) in
  (memo2 n (fun r c => if Nat.eqb r i && Nat.eqb c i then 1
                       else if (Nat.eqb r i && Nat.ltb c i) || (Nat.eqb c i && Nat.ltb r i) then 0 else V1 r c),
   upd d i (V1 i i)).
Fixpoint accum_loop (n k : nat) (V : mat) (d : vec) : mat * vec :=
  match k with
  | O => (V, d)
  | S k' => match accum_loop n k' V d with (V1, d1) => accum_step n k' V1 d1 end
  end.
(* phases 1 and 2: (Q, d, e) *)
Definition tred2 (n : nat) (M : mat) : mat * vec * vec :=
  match tred_loop n (Nat.sub n 1) M (fun _ => 0) (fun _ => 0) with
  | (V1, e1, d1) =>
    match accum_loop n n V1 (upd d1 O 0) with
    | (Q, d2) => (Q, d2, upd e1 O 0)
    end
  end.

(* ---------- 3. implicit QL ---------- *)
Definition two : A := 1 + 1.
(* smallest m in [l, n-1) with |e m| + s == s, s = |d m| + |d (m+1)|; n-1 if none: scan of k candidates from l *)
Fixpoint ql_find (n l k : nat) (d e : vec) : nat :=
  match k with
  | O => Nat.sub n 1
  | S k' =>
    let s := fabs (d l) + fabs (d (S l)) in
    if feqb F (fabs (e l) + s) s then l else ql_find n (S l) k' d e
  end.
(* the inner loop  for (i = m; i-- > l;)  : cnt iterations starting at i = m-1; state (s, c, p, g, d, e, V) *)
Fixpoint ql_sweep (n cnt i : nat) (s c p g : A) (d e : vec) (V : mat) : A * A * vec * vec * mat :=
  match cnt with
  | O => (p, g, d, e, V)
  | S cnt' =>
    let f := s * e i in
    let b := c * e i in
    let '(c1, s1, e1) :=
      if negb (fltb F (fabs f) (fabs g)) then
        let c' := g / f in let r := fsqrt F (c' * c' + 1) in let s' := 1 / r in (c' * s', s', upd e (S i) (f * r))
      else
        let s' := f / g in let r := fsqrt F (s' * s' + 1) in let c' := 1 / r in (c', s' * c', upd e (S i) (g * r)) in
    let g1 := d (S i) - p in
    let r := (d i - g1) * s1 + two * c1 * b in
    let p1 := s1 * r in
    let d1 := upd d (S i) (g1 + p1) in
    let g2 := c1 * r - b in
    let V1 := memo2 n (fun k j => if Nat.ltb k n then
                                    (if Nat.eqb j (S i) then s1 * V k i + c1 * V k (S i)
                                     else if Nat.eqb j i then c1 * V k i - s1 * V k (S i) else V k j)
                                  else V k j) in
    ql_sweep n cnt' (Nat.sub i 1) s1 c1 p1 g2 d1 e1 V1
  end.
(* one pass of the do-while body for eigenvalue l, when m != l *)
Definition ql_iter (n l m : nat) (d e : vec) (V : mat) : vec * vec * mat :=
  let p := d l in
  let g := (d (S l) - p) / (two * e l) in
  let r := fsqrt F (g * g + 1) in
  let g' := d m - p + e l / (g + (if fltb F 0 g then fabs r else fopp F (fabs r))) in
  match ql_sweep n (Nat.sub m l) (Nat.sub m 1) 1 1 0 g' d e V with
  | (p', g'', d1, e1, V1) => (upd d1 l (d1 l - p'), upd (upd e1 l g'') m 0, V1)
  end.
(* do { ... } while (m != l), at most 50 rotations passes, the 51st throws *)
Fixpoint ql_eig (fuel n l j : nat) (d e : vec) (V : mat) : option (vec * vec * mat) :=
  match fuel with
  | O => None
  | S f =>
    let m := ql_find n l (Nat.sub (Nat.sub n 1) l) d e in
    if Nat.eqb m l then Some (d, e, V)
    else if Nat.eqb j 50 then None                       (* throw "too many iterations in eigendecomposition" *)
    else match ql_iter n l m d e V with (d1, e1, V1) => ql_eig f n l (S j) d1 e1 V1 end
  end.
Fixpoint ql_loop (n k : nat) (d e : vec) (V : mat) : option (vec * vec * mat) :=
  match k with
  | O => Some (d, e, V)
  | S k' => match ql_loop n k' d e V with
            | None => None
            | Some (d1, e1, V1) => ql_eig 52 n k' 0 d1 e1 V1
            end
  end.

(* ---------- 4. sorting and normalisation ---------- *)
Fixpoint eig_sort (n k : nat) (d : vec) (V : mat) : vec * mat :=
  match k with
  | O => (d, V)
  | S k' =>
    match eig_sort n k' d V with
    | (d1, V1) =>
      let i := k' in
      let l := pmax_scan A F d1 i (Nat.sub (Nat.sub n 1) i) in
      if Nat.eqb l i then (d1, V1)
      else (memo n (fun t => d1 (C02BlkModel.tr i l t)), memo2 n (fun r c => V1 r (C02BlkModel.tr i l c)))
    end
  end.
(* s = 0; for i = n-1 .. 0: s += f i *)
Fixpoint sum_desc (cnt : nat) (acc : A) (f : nat -> A) : A :=
  match cnt with O => acc | S c => sum_desc c (acc + f c) f end.
Definition eig_normalise (n : nat) (V : mat) : mat :=
  let s := memo n (fun j => fsqrt F (sum_desc n 0 (fun i => V i j * V i j))) in
  memo2 n (fun i j => V i j / s j).

Inductive syev_result := SyevOk (Q : mat) (d : vec) | SyevExc.
Definition syev (n : nat) (M : mat) : syev_result :=
  match tred2 n M with
  | (Q, d, e) =>
    if Nat.leb n 1 then SyevOk Q d
    else
      let e' := memo n (fun j => if Nat.ltb j (Nat.sub n 1) then e (S j) else 0) in
      match ql_loop n n d e' Q with
      | None => SyevExc
      | Some (d1, _, V1) =>
        match eig_sort n (Nat.sub n 1) d1 V1 with
        | (d2, V2) => SyevOk (eig_normalise n V2) d2
        end
      end
  end.
End Syev.
