(* C15 — NormalizeComponentsZCA::train as coded (model C15ZcaModel.v): IF the eigen-decomposition oracle fulfils its contract on the
   covariance matrix, sqrt is exact on the values met and the eigenvalues not above the rounding threshold are exactly zero, THEN the
   trained model sends the training data to mean 0 and covariance  targetVariance * P,  P the orthogonal projector onto the k
   directions of positive variance (P = I for full rank). *)
From Coq Require Import List Arith Bool QArith Lia Lqa Setoid.
From SharkV Require Import ListAux C03Model C15Model C15Aux C15Proofs C15ProofsLin C15ProofsZca C15PcaModel C15PcaProofs C15ZcaModel.
Import ListNotations.
Open Scope Q_scope.

Lemma vmaxq_ge v n i : (i <= n)%nat -> v i <= vmaxq v n.
Proof.
  induction n as [|n IH]; intros Hi; [assert (i = O) by lia; subst; cbn; lra|].
  cbn [vmaxq]. destruct (qltb (vmaxq v n) (v (S n))) eqn:E.
  - apply qltb_true in E. destruct (Nat.eq_dec i (S n)) as [->|Hne]; [lra|]. specialize (IH ltac:(lia)). lra.
  - apply qltb_false in E. destruct (Nat.eq_dec i (S n)) as [->|Hne]; [exact E|]. apply IH. lia.
Qed.

Lemma var_nonneg {X} (f : X -> Q) (D : @data X) : 0 < count D -> 0 <= var f D.
Proof.
  intros Hc. unfold var. cbv zeta. apply Qle_shift_div_l; [exact Hc|]. rewrite Qmult_0_l. apply dsum_sq_nonneg.
Qed.

Lemma sumn_cut n k f : (k <= n)%nat -> (forall i, (k <= i < n)%nat -> f i == 0) -> sumn n f == sumn k f.
Proof.
  intros Hk H. induction n as [|n IH]; [assert (k = O) by lia; subst; reflexivity|].
  destruct (Nat.eq_dec k (S n)) as [->|Hne]; [reflexivity|].
  rewrite sumn_S, (H n) by lia. rewrite IH by (try lia; intros; apply H; lia). ring.
Qed.

(* number of leading entries above the threshold *)
Fixpoint nact (Dv : vecq) (thr : Q) (n : nat) : nat :=
  match n with
  | O => O
  | S n' => let k := nact Dv thr n' in if ((k =? n')%nat && qltb thr (Dv n'))%bool then S n' else k
  end.
Lemma nact_spec Dv thr n :
  (nact Dv thr n <= n)%nat /\ (forall i, (i < nact Dv thr n)%nat -> thr < Dv i) /\
  ((nact Dv thr n < n)%nat -> Dv (nact Dv thr n) <= thr).
Proof.
  induction n as [|n (I1 & I2 & I3)]; [cbn [nact]; repeat split; intros; lia|].
  cbn [nact]. destruct (Nat.eqb_spec (nact Dv thr n) n) as [E|E]; cbn [andb].
  - destruct (qltb thr (Dv n)) eqn:Q.
    + apply qltb_true in Q. repeat split; [lia| |lia]. intros i Hi. destruct (Nat.eq_dec i n) as [->|]; [exact Q|apply I2; lia].
    + apply qltb_false in Q. repeat split; [lia|exact I2|]. intros _. rewrite E. exact Q.
  - repeat split; [lia|exact I2|]. intros _. apply I3. lia.
Qed.

Lemma some_triple_inj {X Y Z : Type} (a a' : X) (b b' : Y) (c c' : Z) : Some (a, b, c) = Some (a', b', c') -> a = a' /\ b = b' /\ c = c'.
Proof. intros H. injection H. auto. Qed.

Section ZcaCoded.
Variables (sq : Q -> Q) (eig : nat -> matq -> matq * vecq) (epsm : Q) (d : nat) (tv : Q) (D : @data (list Q)).
Let U := fst (eig d (pca_cov d D)).
Let Dv := snd (eig d (pca_cov d D)).
Let thr := zca_threshold epsm d Dv.
Hypothesis Hn : (d < nelems D)%nat.
Hypothesis Hd : (0 < d)%nat.
Hypothesis Heps : 0 <= epsm.
Hypothesis Hc : eig_contract d (pca_cov d D) U Dv.
Hypothesis Htiny : forall i, (i < d)%nat -> Dv i <= thr -> Dv i == 0.
Hypothesis Hsq : Forall (fun v => sq v * sq v == v) (zca_met epsm d tv Dv).

Let Hcnt : 0 < count D.
Proof. apply count_pos. lia. Qed.

Lemma zca_eigres i j : (i < d)%nat -> (j < d)%nat -> eig_residual d U Dv D i j == 0.
Proof.
  intros Hi Hj. destruct Hc as (_ & _ & He & _). unfold eig_residual. rewrite <- (He i j Hi Hj).
  rewrite (sumn_ext_all d _ (fun l => pca_cov d D j l * U l i)); [ring|]. intros l. unfold pca_cov. rewrite memo2q_eq. reflexivity.
Qed.
Lemma zca_gram i l : (i < d)%nat -> (l < d)%nat -> gram d U i l == delta i l.
Proof. destruct Hc as (Hg & _). apply Hg. Qed.

Lemma zca_Dv_nonneg i : (i < d)%nat -> 0 <= Dv i.
Proof.
  intros Hi. assert (Hnz : ~ count D == 0) by lra.
  rewrite <- (pca_variance_is_eigenvalue d U Dv i D Hnz (fun j Hj => zca_eigres i j Hi Hj)).
  - apply var_nonneg. exact Hcnt.
  - rewrite (zca_gram i i Hi Hi). unfold delta. rewrite Nat.eqb_refl. reflexivity.
Qed.
Lemma zca_thr_nonneg : 0 <= thr.
Proof.
  unfold thr, zca_threshold. apply Qmult_le_0_compat; [apply Qmult_le_0_compat; [|exact Heps]|].
  - change 0 with (inject_Z 0). rewrite <- Zle_Qle. lia.
  - pose proof (vmaxq_ge Dv (Nat.pred d) O ltac:(lia)). pose proof (zca_Dv_nonneg O Hd). lra.
Qed.

Let k := nact Dv thr d.
Lemma zca_k_le : (k <= d)%nat.
Proof. exact (proj1 (nact_spec Dv thr d)). Qed.
Lemma zca_active i : (i < k)%nat -> thr < Dv i.
Proof. exact (proj1 (proj2 (nact_spec Dv thr d)) i). Qed.
Lemma zca_inactive i : (k <= i < d)%nat -> Dv i <= thr.
Proof.
  intros Hi. destruct Hc as (_ & _ & _ & Hord).
  assert (Hk : Dv k <= thr) by (apply (proj2 (proj2 (nact_spec Dv thr d))); fold k; lia).
  assert (Hm : forall m, (k + m < d)%nat -> Dv (k + m)%nat <= Dv k).
  { induction m as [|m IH]; intros Hm; [rewrite Nat.add_0_r; lra|].
    specialize (IH ltac:(lia)). replace (k + S m)%nat with (S (k + m)) by lia. specialize (Hord (k + m)%nat ltac:(lia)). lra. }
  specialize (Hm (i - k)%nat ltac:(lia)). replace (k + (i - k))%nat with i in Hm by lia. lra.
Qed.

Let s (i : nat) : Q := sq (Dv i).
Let r : Q := sq tv.
Lemma zca_s_ok i : (i < k)%nat -> s i * s i == Dv i /\ ~ s i == 0.
Proof.
  intros Hi. pose proof (zca_active i Hi) as Ha.
  assert (H : s i * s i == Dv i).
  { unfold zca_met in Hsq. apply Forall_app in Hsq. destruct Hsq as [H1 _]. rewrite Forall_forall in H1. apply H1.
    apply in_map. apply filter_In. split; [apply in_seq; pose proof zca_k_le; lia|]. apply qltb_true. exact Ha. }
  split; [exact H|]. apply (nz_of_sq _ _ H). pose proof zca_thr_nonneg. lra.
Qed.
Lemma zca_r_ok : r * r == tv.
Proof.
  unfold zca_met in Hsq. apply Forall_app in Hsq. destruct Hsq as [_ H2]. inversion H2; assumption.
Qed.

(* the matrix as coded is r * sum_{i<k} (1/s_i) u_i u_i^T *)
Lemma zca_coded_matrix a j :
  Qred (sumn d (fun i => U a i * zca_scaling sq epsm d Dv i * U j i) * r) == zca_mat k U s r a j.
Proof.
  rewrite Qred_correct. unfold zca_mat. rewrite <- sumn_scal_r.
  rewrite (sumn_cut d k _ zca_k_le).
  - apply sumn_ext; intros i Hi. unfold zca_scaling. rewrite memoq_eq. fold thr.
    rewrite (proj2 (qltb_true thr (Dv i)) (zca_active i Hi)). unfold s, Qdiv. ring.
  - intros i Hi. unfold zca_scaling. rewrite memoq_eq. fold thr.
    rewrite (proj2 (qltb_false thr (Dv i)) (zca_inactive i Hi)). ring.
Qed.

Theorem zca_train_correct W off met : zca_train sq eig epsm d tv D = Some (W, off, met) ->
  (k <= d)%nat /\ (forall i, (i < k)%nat -> thr < Dv i) /\ (forall i, (k <= i < d)%nat -> Dv i == 0) /\
  forall a c,
    mean (lin d W off a) D == 0 /\
    cov (lin d W off a) (lin d W off c) D == tv * proj k U a c /\
    proj k U a c == proj k U c a /\
    sumn d (fun j => proj k U a j * proj k U j c) == proj k U a c /\
    (k = d -> (a < d)%nat -> (c < d)%nat -> proj k U a c == delta a c).
Proof.
  intros H. unfold zca_train in H. destruct (Nat.ltb_spec (nelems D) (S d)) as [Hlt|_]; [lia|].
  rewrite (surjective_pairing (eig d (pca_cov d D))) in H. fold U Dv in H.
  apply some_triple_inj in H. destruct H as (HW & Hoff & _). subst W off.
  split; [exact zca_k_le|]. split; [exact zca_active|]. split; [intros i Hi; apply Htiny; [lia|apply zca_inactive; exact Hi]|].
  intros a c. set (W0 := zca_mat k U s r).
  assert (Hnz : ~ count D == 0) by lra.
  assert (HWeq : forall a j, memo2q d d (fun a j => Qred (sumn d (fun i => U a i * zca_scaling sq epsm d Dv i * U j i) * sq tv)) a j == W0 a j).
  { intros a' j'. rewrite memo2q_eq. apply zca_coded_matrix. }
  set (Wc := memo2q d d (fun a j => Qred (sumn d (fun i => U a i * zca_scaling sq epsm d Dv i * U j i) * sq tv))) in *.
  assert (Hlin : forall a x, lin d Wc (memoq d (fun a => - sumn d (fun j => Wc a j * mean (feat j) D))) a x == lin d W0 (center_off d W0 D) a x).
  { intros a' x. unfold lin, center_off. rewrite memoq_eq.
    rewrite (sumn_ext_all d (fun j => Wc a' j * feat j x) (fun j => W0 a' j * feat j x)) by (intros; rewrite HWeq; reflexivity).
    rewrite (sumn_ext_all d (fun j => Wc a' j * mean (feat j) D) (fun j => W0 a' j * mean (feat j) D)) by (intros; rewrite HWeq; reflexivity).
    reflexivity. }
  destruct (zca_rank_deficient_projector d k U Dv s r tv D Hnz
              (fun i j Hi Hj => zca_eigres i j ltac:(pose proof zca_k_le; lia) Hj)
              (fun i l Hi Hl => zca_gram i l ltac:(pose proof zca_k_le; lia) ltac:(pose proof zca_k_le; lia))
              zca_s_ok zca_r_ok a c) as (M1 & M2 & M3 & M4).
  split; [|split; [|split; [|split]]].
  - rewrite (C15ProofsLin.mean_ext _ _ D (Hlin a)). exact M1.
  - rewrite (cov_ext _ _ _ _ D (Hlin a) (Hlin c)). exact M2.
  - exact M3.
  - exact M4.
  - intros Hk Ha Hcd. destruct Hc as (_ & HUUt & _). unfold proj. rewrite Hk. apply HUUt; assumption.
Qed.
End ZcaCoded.

(* ---------- a concrete run: (+-2, +-1), covariance diag(4, 1), oracle = (identity, (4, 1)), target variance 1 ---------- *)
Definition ex_zca_data : @data (list Q) := [[[2; 1]; [2; -(1)]]; [[-(2); 1]; [-(2); -(1)]]].
Definition ex_zca_eig (n : nat) (M : matq) : matq * vecq := (fun a i => delta a i, fun i => nth i [4; 1] 0).
Definition ex_zca_sq (v : Q) : Q := if Qeq_bool v 4 then 2 else 1.
Lemma ex_zca_hypotheses :
  let Dv := snd (ex_zca_eig 2 (pca_cov 2 ex_zca_data)) in
  (2 < nelems ex_zca_data)%nat /\ 0 <= (1 # 4503599627370496) /\
  eig_contract 2 (pca_cov 2 ex_zca_data) (fst (ex_zca_eig 2 (pca_cov 2 ex_zca_data))) Dv /\
  (forall i, (i < 2)%nat -> Dv i <= zca_threshold (1 # 4503599627370496) 2 Dv -> Dv i == 0) /\
  Forall (fun v => ex_zca_sq v * ex_zca_sq v == v) (zca_met (1 # 4503599627370496) 2 1 Dv) /\
  exists W off met, zca_train ex_zca_sq ex_zca_eig (1 # 4503599627370496) 2 1 ex_zca_data = Some (W, off, met).
Proof.
  cbv zeta. split; [vm_compute; lia|]. split; [vm_compute; discriminate|]. split; [|split; [|split]].
  - unfold eig_contract. cbn [ex_zca_eig fst snd]. repeat split.
    + intros i k Hi Hk. destruct i as [|[|i]]; destruct k as [|[|k]]; try lia; vm_compute; reflexivity.
    + intros a b Ha Hb. destruct a as [|[|a]]; destruct b as [|[|b]]; try lia; vm_compute; reflexivity.
    + intros i a Hi Ha. destruct i as [|[|i]]; destruct a as [|[|a]]; try lia; vm_compute; reflexivity.
    + intros i Hi. destruct i as [|i]; [|lia]. vm_compute. discriminate.
  - cbn [ex_zca_eig fst snd]. intros i Hi. destruct i as [|[|i]]; try lia; intros H; exfalso; revert H; vm_compute; intros H; apply H; reflexivity.
  - assert (E : forallb (fun v => Qeq_bool (ex_zca_sq v * ex_zca_sq v) v) (zca_met (1 # 4503599627370496) 2 1 (snd (ex_zca_eig 2 (pca_cov 2 ex_zca_data)))) = true)
      by (vm_compute; reflexivity).
    apply Forall_forall. intros v Hv. rewrite forallb_forall in E. apply Qeq_bool_iff. apply E. exact Hv.
  - unfold zca_train. change (nelems ex_zca_data <? 3)%nat with false. cbn [ex_zca_eig]. eauto.
Qed.
