(* C01 — compressed_matrix storage and the sparse MATRIX assignment kernels of remora.  Definitions only.

   Mirrors  include/shark/LinAlg/BLAS/cpu/sparse_matrix.hpp   (MatrixStorage, compressed_matrix_impl: one index array
            and one value array shared by all major lines, per line major_indices_begin/_end, reserve, major_reserve,
            set_element, clear_range, clear) and
            include/shark/LinAlg/BLAS/kernels/default/matrix_assign.hpp  (the sparse_tag cases of matrix_assign and
            matrix_assign_functor, and the dense <- sparse cases, which go line by line through the vector kernels).

   A "major line" is a row of a row_major matrix and a column of a column_major one; kernels::assign transposes
   target and source when the target is column_major, so every kernel below is written for major lines, and
   "same" / "cross" say whether the source has the target's orientation or the opposite one.

   Representation.  Line i of the C++ storage is the slice [begin[i], begin[i+1]) of the shared arrays, of which
   [begin[i], end[i]) is in use: major_capacity(i) = begin[i+1]-begin[i], major_nnz(i) = end[i]-begin[i].  The model
   keeps per line exactly these two numbers and the stored (index,value) list, i.e. an `svec` (C01SparseModel.v)
   whose sv_size is the minor size; begin[i] is the sum of the capacities of the lines before i (begin[0] = 0 always)
   and nnz_reserved() = begin[major_size] is the sum of all capacities.  sm_cap is nnz_capacity() (the length of the
   shared arrays).  Moving the slices inside the arrays (the copy_backward loop of major_reserve) does not change any
   of these observables and is not modelled.

   The growth rule of a line in compressed_matrix_impl::set_element,
       if(major_capacity == major_nnz) major_reserve(i, max(2*major_capacity, 5))   with   non_zeros = min(minor_size, non_zeros)
   is literally the rule of BaseSparseVector::set_element (reserve(min(max(5, 2*capacity), size))), and both do nothing
   when the requested number is not larger than the capacity; so the line-level effect of the matrix set_element IS
   sv_set_element on the line, plus the bookkeeping of the shared capacity (sm_grow). *)
From Coq Require Import ZArith List Bool Arith Lia.
From SharkV Require Import ListAux C01SparseModel.
Import ListNotations.
Open Scope Z_scope.

Record smat := mkSM {
  sm_minor : nat;            (* minor_size() *)
  sm_cap   : nat;            (* nnz_capacity() *)
  sm_rows  : list svec       (* major lines; each has sv_size = sm_minor *)
}.

Definition sm_major (m : smat) : nat := length (sm_rows m).
Definition sm_reserved (m : smat) : nat := fold_right (fun r a => (sv_cap r + a)%nat) 0%nat (sm_rows m).
Definition sm_row (m : smat) (i : nat) : svec := nth i (sm_rows m) (sv_empty (sm_minor m)).
Definition sm_empty (major minor : nat) : smat := mkSM minor 0 (repeat (sv_empty minor) major).

(* abstraction function: entry (i, j) in major/minor coordinates *)
Definition smden (m : smat) (i j : nat) : Z := sden (sm_row m i) j.
Definition smstored (m : smat) (i j : nat) : bool := stored (sm_row m i) j.

(* storage invariant *)
Definition sm_inv (m : smat) : Prop :=
  (forall r, In r (sm_rows m) -> sv_inv r /\ sv_size r = sm_minor m) /\ (sm_reserved m <= sm_cap m)%nat.
Definition sm_invb (m : smat) : bool :=
  forallb (fun r => sv_invb r && (sv_size r =? sm_minor m)%nat) (sm_rows m) && (sm_reserved m <=? sm_cap m)%nat.

(* compressed_matrix_impl::reserve: `if (non_zeros < nnz_capacity()) return;` else the arrays get length non_zeros *)
Definition sm_reserve (m : smat) (n : nat) : smat :=
  if (n <? sm_cap m)%nat then m else mkSM (sm_minor m) n (sm_rows m).

(* the first half of major_reserve: make room at the end of the shared arrays when line i grows by `diff` *)
Definition sm_grow (m : smat) (diff : nat) (exact : bool) : smat :=
  if (sm_cap m - sm_reserved m <? diff)%nat
  then sm_reserve m (if exact then (sm_cap m + diff)%nat else Nat.max (2 * sm_cap m) (sm_cap m + 2 * diff))
  else m.

(* major_reserve(i, non_zeros, exact_size) *)
Definition sm_major_reserve (m : smat) (i n : nat) (exact : bool) : smat :=
  let r := sm_row m i in
  let n' := Nat.min (sm_minor m) n in
  if (n' <=? sv_cap r)%nat then m
  else
    let m1 := sm_grow m (n' - sv_cap r) exact in
    mkSM (sm_minor m1) (sm_cap m1) (upd i (mkSV (sv_size r) n' (sv_el r)) (sm_rows m1)).

(* set_element(pos, index, value) with pos = (major index i, position p in the line) *)
Definition sm_set_element (m : smat) (i p idx : nat) (x : Z) : smat * nat :=
  let r := sm_row m i in
  let '(r', p') := sv_set_element r p idx x in
  let m1 := sm_grow m (sv_cap r' - sv_cap r) false in
  (mkSM (sm_minor m1) (sm_cap m1) (upd i r' (sm_rows m1)), p').

Definition sm_clear_range (m : smat) (i a b : nat) : smat :=
  mkSM (sm_minor m) (sm_cap m) (upd i (sv_clear_range (sm_row m i) a b) (sm_rows m)).

(* clear(): clear_range(major_begin(i), major_end(i)) for every line; capacities stay *)
Definition sm_clear (m : smat) : smat := mkSM (sm_minor m) (sm_cap m) (map sv_clear (sm_rows m)).

(* harness-level element insertion: advance to the first stored index >= idx of line i, set_element there *)
Definition sm_put (m : smat) (i idx : nat) (x : Z) : smat :=
  fst (sm_set_element m i (lower_bound (sv_el (sm_row m i)) idx) idx x).

(* for(it in source line) m_pos = m().set_element(m_pos, it.index(), *it) *)
Fixpoint sm_fill (m : smat) (i p : nat) (src : list (nat * Z)) : smat * nat :=
  match src with
  | [] => (m, p)
  | (j, y) :: s => let '(m', p') := sm_set_element m i p j y in sm_fill m' i p' s
  end.

(* ---------- plain kernels ---------- *)
(* matrix_assign(row_major,row_major,sparse,sparse): clear, then copy line by line *)
Fixpoint sm_copy_lines (m : smat) (i : nat) (lines : list svec) : smat :=
  match lines with
  | [] => m
  | e :: t => sm_copy_lines (fst (sm_fill m i 0 (sv_el e))) (S i) t
  end.
Definition km_assign_same (m e : smat) : smat := sm_copy_lines (sm_clear m) 0 (sm_rows e).

(* matrix_assign(row_major,column_major,sparse,sparse): all stored elements of e are collected as (i,j,value),
   sorted by (i,j) (std::sort; the keys are distinct, so the result is determined), and written group by group:
   major_reserve(i, size of the group), then set_element.  `gather e i` is group i of the sorted sequence: the
   elements of e with minor index i, ordered by e's major index. *)
Fixpoint gather_from (lines : list svec) (j : nat) (i : nat) : list (nat * Z) :=
  match lines with
  | [] => []
  | e :: t => match lookup i (sv_el e) with
              | Some x => (j, x) :: gather_from t (S j) i
              | None => gather_from t (S j) i
              end
  end.
Definition gather (e : smat) (i : nat) : list (nat * Z) := gather_from (sm_rows e) 0 i.

Fixpoint sm_write_groups (m : smat) (e : smat) (i n : nat) : smat :=
  match n with
  | O => m
  | S n' =>
      let g := gather e i in
      let m1 := match g with
                | [] => m                                   (* no element with this row: the loop never sees it *)
                | _ => fst (sm_fill (sm_major_reserve m i (length g) false) i 0 g)
                end in
      sm_write_groups m1 e (S i) n'
  end.
Definition km_assign_cross (m e : smat) : smat := sm_write_groups (sm_clear m) e 0 (sm_major m).

(* ---------- functor kernels ---------- *)
(* the merge of a target line and a source line into the temporary `elements` vector *)
Fixpoint merge_el (f : Z -> Z -> Z) (t s : list (nat * Z)) : list (nat * Z) :=
  match t with
  | [] => map (fun jy => (fst jy, f 0 (snd jy))) s
  | (i, x) :: t' =>
      (fix aux (s : list (nat * Z)) : list (nat * Z) :=
         match s with
         | [] => (i, f x 0) :: merge_el f t' []
         | (j, y) :: s' =>
             if (i <? j)%nat then (i, f x 0) :: merge_el f t' s
             else if (i =? j)%nat then (i, f x y) :: merge_el f t' s'
             else (j, f 0 y) :: aux s'
         end) s
  end.

(* matrix_assign_functor(row_major,row_major,sparse,sparse): per line merge, clear the line, major_reserve, refill *)
Fixpoint sm_fun_lines (f : Z -> Z -> Z) (m : smat) (i : nat) (lines : list svec) : smat :=
  match lines with
  | [] => m
  | e :: t =>
      let r := sm_row m i in
      let els := merge_el f (sv_el r) (sv_el e) in
      let m1 := sm_clear_range m i 0 (sv_nnz r) in
      let m2 := sm_major_reserve m1 i (length els) false in
      sm_fun_lines f (fst (sm_fill m2 i 0 els)) (S i) t
  end.
Definition km_fun_same (f : Z -> Z -> Z) (m e : smat) : smat := sm_fun_lines f m 0 (sm_rows e).

(* (row_major,column_major,sparse,sparse): `typename matrix_temporary<M>::type eTrans = e;` then the kernel above *)
Definition km_fun_cross (f : Z -> Z -> Z) (m e : smat) : smat :=
  km_fun_same f m (km_assign_cross (sm_empty (sm_major m) (sm_minor m)) e).

(* ---------- dense targets ---------- *)
(* a dense matrix is the list of its major lines (rows of a row_major, columns of a column_major matrix) *)
Definition dmat := list (list Z).
Definition dmden (d : dmat) (i j : nat) : Z := nth j (nth i d []) 0.

(* same orientation: kernels::assign(row(m,i), row(e,i)[, f]) for every line *)
Fixpoint zip_lines (k : dvec -> svec -> dvec) (d : dmat) (lines : list svec) : dmat :=
  match d, lines with
  | r :: d', e :: t => k r e :: zip_lines k d' t
  | _, _ => d
  end.
Definition km_assign_ds_same (d : dmat) (e : smat) : dmat := zip_lines k_assign_ds d (sm_rows e).
Definition km_fun_ds_same (f : Z -> Z -> Z) (rzi : bool) (d : dmat) (e : smat) : dmat :=
  zip_lines (k_fun_ds f rzi) d (sm_rows e).

(* opposite orientation: kernels::assign(column(m,j), column(e,j)[, f]) for every minor index j of the target,
   i.e. for every major line j of the source; column j of the target is a strided dense proxy *)
Definition d_col (d : dmat) (j : nat) : dvec := map (fun r => nth j r 0) d.
Fixpoint d_set_col (d : dmat) (j : nat) (c : dvec) : dmat :=
  match d, c with
  | r :: d', x :: c' => upd j x r :: d_set_col d' j c'
  | _, _ => d
  end.
Fixpoint cross_lines (k : dvec -> svec -> dvec) (d : dmat) (j : nat) (lines : list svec) : dmat :=
  match lines with
  | [] => d
  | e :: t => cross_lines k (d_set_col d j (k (d_col d j) e)) (S j) t
  end.
Definition km_assign_ds_cross (d : dmat) (e : smat) : dmat := cross_lines k_assign_ds d 0 (sm_rows e).
Definition km_fun_ds_cross (f : Z -> Z -> Z) (rzi : bool) (d : dmat) (e : smat) : dmat :=
  cross_lines (k_fun_ds f rzi) d 0 (sm_rows e).

(* scalar forms  A op= t : matrix_apply over the stored elements of every line *)
Definition km_apply (g : Z -> Z) (m : smat) : smat := mkSM (sm_minor m) (sm_cap m) (map (k_apply_s g) (sm_rows m)).
