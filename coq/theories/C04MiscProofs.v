(* C04 — RBFLayer (batch = single, parameter round trip through the log-encoding of gamma), CMACMap (batch = single, the output
   is linear in the parameters and the coded scatter-derivative is the gradient: exact identity), Ensemble / weighted mean of
   models (batch = single).  Model: C04Misc.v.  Any commutative ring where arithmetic is used, axiom-free. *)
From Coq Require Import List Arith Bool Lia Ring PeanoNat.
From SharkV Require Import C04Model C04Conv C04Pool C04Misc C04Aux C04Proofs C04SumProofs C04ConvProofs C04ConvThmProofs C04PoolProofs.
Import ListNotations.

(* ---------------- RBFLayer ---------------- *)
Section RBF.
Variable A : Type.
Variables (zero : A) (add mul sub : A -> A -> A) (opp : A -> A) (expA logA : A -> A) (ofnat : nat -> A) (half logPi : A).

Theorem rbf_batch_eq_single (m : rbf A) (X X' : list (list A)) r r' :
  r < length X -> r' < length X' -> nth r X [] = nth r' X' [] ->
  nth r (rbf_eval_batch zero add mul sub opp expA m X) [] = rbf_eval zero add mul sub opp expA m (nth r X []) /\
  nth r (rbf_eval_batch zero add mul sub opp expA m X) [] = nth r' (rbf_eval_batch zero add mul sub opp expA m X') [].
Proof.
  intros H1 H2 E. unfold rbf_eval_batch.
  rewrite (nth_map_in _ X r [] []) by auto. rewrite (nth_map_in _ X' r' [] []) by auto. rewrite E. auto.
Qed.

(* the parameter vector stores log(gamma), the model stores gamma = exp(parameter): with log (exp x) = x the round trip is the
   identity for all four settings of setTrainingParameters, and the untrained part of the model is not touched *)
Theorem rbf_param_roundtrip (m : rbf A) (theta : list A) :
  (forall x, logA (expA x) = x) -> length theta = rbf_nparams m ->
  let m' := rbf_set mul sub expA logA ofnat half logPi m theta in
  rbf_params logA m' = theta /\ length (rbf_params logA m') = rbf_nparams m /\ rbf_nparams m' = rbf_nparams m /\
  (r_tc m = false -> r_centers m' = r_centers m) /\ (r_tw m = false -> r_gamma m' = r_gamma m /\ r_logn m' = r_logn m).
Proof.
  intros LE L. unfold rbf_set, rbf_params, rbf_nparams, rbf_set_gamma in *.
  assert (MM : forall l, map logA (map expA l) = l).
  { intros l. rewrite map_map. induction l as [|x l IH]; simpl; [reflexivity|]. rewrite LE, IH. reflexivity. }
  destruct (r_tc m) eqn:Ec, (r_tw m) eqn:Ew; cbn [r_tc r_tw r_centers r_gamma r_logn r_nin r_nout]; rewrite ?Ec, ?Ew.
  - rewrite MM. rewrite (chunk_concat A (r_nin m) (r_nout m)).
    rewrite (firstn_all2 (n := (r_nin m * r_nout m))) by (rewrite firstn_length; lia).
    rewrite firstn_skipn. repeat split; auto; discriminate.
  - rewrite (chunk_concat A (r_nin m) (r_nout m)).
    rewrite (firstn_all2 (n := (r_nin m * r_nout m))) by (rewrite firstn_length; lia).
    rewrite app_nil_r, firstn_all2 by lia. repeat split; auto; try discriminate; try lia.
  - cbn [skipn app]. rewrite MM. repeat split; auto; discriminate.
  - destruct theta; [|discriminate]. repeat split; auto.
Qed.
End RBF.

(* ---------------- CMACMap ---------------- *)
Section CMAC.
Variable A : Type.
Variables (zero one : A) (add mul sub : A -> A -> A) (opp : A -> A).
Hypothesis Rth : ring_theory zero one add mul sub opp eq.
Add Ring AringM : Rth.
Variables (csub cdiv : A -> A -> A) (ofnat : nat -> A) (half : A) (trunc : A -> nat) (oneA : A).

Infix "+" := add : CA_scope.
Infix "*" := mul : CA_scope.
Local Open Scope CA_scope.
Notation getA := (get zero).
Notation bsumA := (bsum zero add).
Notation dotA := (dot zero add mul).
Notation frA := (fr A zero add mul).
Notation cmac_indexA := (cmac_index zero add mul csub cdiv ofnat half trunc oneA).
Notation cmac_evalA := (cmac_eval zero add mul csub cdiv ofnat half trunc oneA).
Notation cmac_eval_batchA := (cmac_eval_batch zero add mul csub cdiv ofnat half trunc oneA).
Notation cmac_wpdA := (cmac_wpd zero add mul csub cdiv ofnat half trunc oneA).

Theorem cmac_batch_eq_single g theta (X X' : list (list A)) r r' :
  r < length X -> r' < length X' -> nth r X [] = nth r' X' [] ->
  nth r (cmac_eval_batchA g theta X) [] = cmac_evalA g theta (nth r X []) /\
  nth r (cmac_eval_batchA g theta X) [] = nth r' (cmac_eval_batchA g theta X') [].
Proof.
  intros H1 H2 E. unfold cmac_eval_batch.
  rewrite (nth_map_in _ X r [] []) by auto. rewrite (nth_map_in _ X' r' [] []) by auto. rewrite E. auto.
Qed.

(* the coded derivative (scatter of the coefficients into a cleared gradient) against any direction *)
Theorem cmac_wpd_dot g (X C : list (list A)) (dtheta : list A) :
  length dtheta = cmac_nparams g ->
  length (cmac_wpdA g X C) = cmac_nparams g /\
  dotA (cmac_wpdA g X C) dtheta =
  bsumA (length X) (fun i => bsumA (c_nout g) (fun o => bsumA (c_tilings g) (fun j =>
    getA (nth i C []) o * getA dtheta (cmac_indexA g j (nth i X []) + o * c_ppt g)%nat))).
Proof.
  intros L. unfold cmac_wpd.
  assert (LZ : length (zeros zero (cmac_nparams g)) = length dtheta) by (unfold zeros; rewrite repeat_length; auto).
  set (contrib := fun i o j => getA (nth i C []) o * getA dtheta (cmac_indexA g j (nth i X []) + o * c_ppt g)%nat).
  destruct (loop_dot A zero one add mul sub opp Rth dtheta
     (fun grad i => fold_left (fun grad o => fold_left (fun grad j =>
        upd grad (cmac_indexA g j (nth i X []) + o * c_ppt g) (fun d => d + getA (nth i C []) o)) (seq 0 (c_tilings g)) grad) (seq 0 (c_nout g)) grad)
     (fun i => bsumA (c_nout g) (fun o => bsumA (c_tilings g) (fun j => contrib i o j)))
     (length X)) with (s := 0%nat) (v := zeros zero (cmac_nparams g)) as [L1 D1]; auto.
  - intros v i Lv.
    destruct (loop_dot A zero one add mul sub opp Rth dtheta
       (fun grad o => fold_left (fun grad j =>
          upd grad (cmac_indexA g j (nth i X []) + o * c_ppt g) (fun d => d + getA (nth i C []) o)) (seq 0 (c_tilings g)) grad)
       (fun o => bsumA (c_tilings g) (fun j => contrib i o j)) (c_nout g)) with (s := 0%nat) (v := v) as [L2 D2]; auto.
    intros v' o Lv'.
    destruct (loop_dot A zero one add mul sub opp Rth dtheta
       (fun grad j => upd grad (cmac_indexA g j (nth i X []) + o * c_ppt g) (fun d => d + getA (nth i C []) o))
       (fun j => contrib i o j) (c_tilings g)) with (s := 0%nat) (v := v') as [L3 D3]; auto.
    intros v'' j Lv''. split; [rewrite (upd_length A); auto|]. unfold contrib. apply (dot_upd A zero one add mul sub opp Rth); auto.
  - split; [rewrite L1; auto|]. rewrite D1, (zeros_dot A zero one add mul sub opp Rth). cbn [Nat.add]. unfold contrib. cbv beta. ring.
Qed.

(* the map is linear in the parameter vector: the weighted output sum at theta + t dtheta is EXACTLY its value at theta plus
   t * <coded parameter derivative, dtheta>, whatever the tile index of a point is *)
Theorem cmac_derivative g (theta dtheta : list A) (X C : list (list A)) t :
  length theta = cmac_nparams g -> length dtheta = cmac_nparams g -> rows (c_nout g) C -> length C = length X ->
  frA C (cmac_eval_batchA g (vadd add theta (vscale mul t dtheta)) X) =
  frA C (cmac_eval_batchA g theta X) + t * dotA (cmac_wpdA g X C) dtheta.
Proof.
  intros Lt Ld RC LC. destruct (cmac_wpd_dot g X C dtheta Ld) as [_ D]. rewrite D.
  unfold cmac_eval_batch.
  rewrite !(fr_bsum A zero one add mul sub opp Rth) by (rewrite map_length; auto). rewrite LC.
  rewrite (bsum_mul_l A zero one add mul sub opp Rth), <- (bsum_add A zero one add mul sub opp Rth).
  apply bsum_ext; intros i Hi.
  rewrite !(nth_map_in _ X i [] []) by auto.
  unfold cmac_eval. rewrite !(dot_comm A zero one add mul sub opp Rth (nth i C [])), !(dot_tab_l A zero one add mul sub opp Rth).
  rewrite (bsum_mul_l A zero one add mul sub opp Rth), <- (bsum_add A zero one add mul sub opp Rth).
  apply bsum_ext; intros o Ho.
  rewrite !(bsum_mul_r A zero one add mul sub opp Rth), (bsum_mul_l A zero one add mul sub opp Rth), <- (bsum_add A zero one add mul sub opp Rth).
  apply bsum_ext; intros j Hj.
  rewrite (get_vadd A zero one add mul sub opp Rth) by (unfold vscale; rewrite map_length; lia).
  rewrite (get_vscale A zero one add mul sub opp Rth). ring.
Qed.
End CMAC.

(* ---------------- Ensemble: weighted mean of models ---------------- *)
Section Ens.
Variable A : Type.
Variables (zero : A) (add mul div : A -> A -> A).

Lemma madd_map (h k : list A -> list A) (X : list (list A)) : madd add (map h X) (map k X) = map (fun x => vadd add (h x) (k x)) X.
Proof. induction X as [|x X IH]; simpl; auto. rewrite IH. reflexivity. Qed.

Lemma zmat_map n (X : list (list A)) : zmat zero (length X) n = map (fun _ => zeros zero n) X.
Proof. unfold zmat. induction X as [|x X IH]; simpl; auto. rewrite IH. reflexivity. Qed.

Definition member_rowwise (wf : A * (list (list A) -> list (list A))) : Prop :=
  exists g : list A -> list A, forall X, snd wf X = map g X.

Lemma ens_is_map nout members : Forall member_rowwise members ->
  exists G : list A -> list A, forall X, ens_eval_batch zero add mul div nout members X = map G X.
Proof.
  intros H. unfold ens_eval_batch.
  assert (K : forall (h0 : list A -> list A), exists G0 : list A -> list A, forall X,
             fold_left (fun acc wf => madd add acc (map (vscale mul (fst wf)) (snd wf X))) members (map h0 X) = map G0 X).
  { induction H as [|wf members [g Hg] HM IH]; intros h0; cbn [fold_left].
    - exists h0. reflexivity.
    - destruct (IH (fun x => vadd add (h0 x) (vscale mul (fst wf) (g x)))) as [G0 HG0].
      exists G0. intros X. rewrite Hg, map_map, madd_map. apply HG0. }
  destruct (K (fun _ => zeros zero nout)) as [G0 HG0].
  exists (fun x => map (fun v => div v (fold_left add (map fst members) zero)) (G0 x)).
  intros X. rewrite zmat_map, HG0, map_map. reflexivity.
Qed.

Theorem ens_batch_eq_single nout members (X X' : list (list A)) r r' :
  Forall member_rowwise members ->
  r < length X -> r' < length X' -> nth r X [] = nth r' X' [] ->
  nth r (ens_eval_batch zero add mul div nout members X) [] = ens_eval zero add mul div nout members (nth r X []) /\
  nth r (ens_eval_batch zero add mul div nout members X) [] = nth r' (ens_eval_batch zero add mul div nout members X') [].
Proof.
  intros H H1 H2 E. destruct (ens_is_map nout members H) as [G HG]. unfold ens_eval. rewrite !HG.
  rewrite (nth_map_in _ X r [] []) by auto. rewrite (nth_map_in _ X' r' [] []) by auto. rewrite E. simpl. auto.
Qed.
End Ens.
