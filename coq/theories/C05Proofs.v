(* C05 — proofs about the kernel model (C05Model.v), for every ordered field with Leibniz equality
   (instantiated with the canonical rationals Qc at the end; Z-valued inputs embed into it).
   No axioms. *)
From Coq Require Import List Arith Bool Field Ring Lia.
From SharkV Require Import C03Model C03Proofs C05Model.
Import ListNotations.

Record OrdField {A : Type} (zero one : A) (add mul sub div : A -> A -> A) (opp inv : A -> A)
       (le : A -> A -> Prop) : Prop := mkOrdField {
  of_field : field_theory zero one add mul sub opp div inv eq;
  of_refl  : forall x, le x x;
  of_trans : forall x y z, le x y -> le y z -> le x z;
  of_add   : forall x y z t, le x y -> le z t -> le (add x z) (add y t);
  of_mul   : forall x y, le zero x -> le zero y -> le zero (mul x y);
  of_sq    : forall x, le zero (mul x x);
  of_inv   : forall x, le zero x -> x <> zero -> le zero (inv x)
}.

Declare Scope F_scope.
Delimit Scope F_scope with F.

Section Proofs.
Variable A : Type.
Variables (zero one : A) (add mul sub div : A -> A -> A) (opp inv : A -> A) (le : A -> A -> Prop).
Variables (sqrtA expA : A -> A).   (* uninterpreted: no law is assumed unless stated in a theorem *)
Hypothesis OF : OrdField zero one add mul sub div opp inv le.

Definition FT := of_field _ _ _ _ _ _ _ _ _ OF.
Add Field Ff : FT.

Notation "0" := zero : F_scope.
Notation "1" := one : F_scope.
Infix "+" := add : F_scope.
Infix "*" := mul : F_scope.
Infix "-" := sub : F_scope.
Infix "/" := div : F_scope.
Infix "<=" := le : F_scope.
Local Open Scope F_scope.

Notation lsum := (lsum A zero add).
Notation dot := (dot A zero add mul).
Notation pow := (pow A one mul).
Notation distsq := (distsq A zero add mul sub).
Notation wdistsq := (wdistsq A zero add mul sub).
Notation two := (two A one add).
Notation vec := (list A).
Notation mat := (list (list A)).

Lemma div_def x y : x / y = x * inv y.
Proof. apply (Fdiv_def FT). Qed.

Lemma le_0_1 : 0 <= 1.
Proof. replace 1 with (1 * 1) by ring. apply (of_sq _ _ _ _ _ _ _ _ _ OF). Qed.

Lemma sq_nonneg x : 0 <= x * x.
Proof. apply (of_sq _ _ _ _ _ _ _ _ _ OF). Qed.
Lemma mul_nonneg x y : 0 <= x -> 0 <= y -> 0 <= x * y.
Proof. apply (of_mul _ _ _ _ _ _ _ _ _ OF). Qed.
Lemma add_nonneg x y : 0 <= x -> 0 <= y -> 0 <= x + y.
Proof.
  intros. replace 0 with (0 + 0) by ring. apply (of_add _ _ _ _ _ _ _ _ _ OF); auto.
Qed.
Lemma inv_nonneg x : 0 <= x -> x <> 0 -> 0 <= inv x.
Proof. apply (of_inv _ _ _ _ _ _ _ _ _ OF). Qed.

(* ------------------------------------------------------------------ finite sums *)
Lemma lsum_app l1 l2 : lsum (l1 ++ l2) = lsum l1 + lsum l2.
Proof. induction l1; simpl; [ring|rewrite IHl1; ring]. Qed.

Lemma lsum_map_add {T} (f g : T -> A) l :
  lsum (map (fun t => f t + g t) l) = lsum (map f l) + lsum (map g l).
Proof. induction l; simpl; [ring|rewrite IHl; ring]. Qed.

Lemma lsum_map_mul_l {T} a (f : T -> A) l : lsum (map (fun t => a * f t) l) = a * lsum (map f l).
Proof. induction l; simpl; [ring|rewrite IHl; ring]. Qed.

Lemma lsum_map_mul_r {T} a (f : T -> A) l : lsum (map (fun t => f t * a) l) = lsum (map f l) * a.
Proof. induction l; simpl; [ring|rewrite IHl; ring]. Qed.

Lemma lsum_map_ext {T} (f g : T -> A) l :
  (forall t, In t l -> f t = g t) -> lsum (map f l) = lsum (map g l).
Proof. intros H. f_equal. apply map_ext_in. auto. Qed.

Lemma lsum_map_zero {T} (l : list T) : lsum (map (fun _ => 0) l) = 0.
Proof. induction l; simpl; [auto|rewrite IHl; ring]. Qed.

Lemma lsum_swap {T U} (F : T -> U -> A) l1 l2 :
  lsum (map (fun t => lsum (map (fun u => F t u) l2)) l1) =
  lsum (map (fun u => lsum (map (fun t => F t u) l1)) l2).
Proof.
  induction l1; simpl.
  - rewrite lsum_map_zero. auto.
  - rewrite IHl1. rewrite <- lsum_map_add. auto.
Qed.

Lemma lsum_flat_map {T U} (h : U -> A) (F : T -> list U) l :
  lsum (map h (flat_map F l)) = lsum (map (fun t => lsum (map h (F t))) l).
Proof. induction l; simpl; auto. rewrite map_app, lsum_app, IHl. auto. Qed.

Lemma lsum_map_nonneg {T} (f : T -> A) l : (forall t, In t l -> 0 <= f t) -> 0 <= lsum (map f l).
Proof.
  induction l; simpl; intros H.
  - apply (of_refl _ _ _ _ _ _ _ _ _ OF).
  - apply add_nonneg; [apply H; auto|apply IHl; auto].
Qed.

Lemma lsum_nonneg l : Forall (le 0) l -> 0 <= lsum l.
Proof.
  intros H. rewrite <- (map_id l). apply lsum_map_nonneg.
  intros t Ht. rewrite Forall_forall in H. auto.
Qed.

(* product of two sums *)
Lemma lsum_prod {T U} (f : T -> A) (g : U -> A) l1 l2 :
  lsum (map f l1) * lsum (map g l2) = lsum (map (fun t => lsum (map (fun u => f t * g u) l2)) l1).
Proof.
  rewrite <- lsum_map_mul_r. apply lsum_map_ext. intros t _. rewrite lsum_map_mul_l. auto.
Qed.

(* ------------------------------------------------------------------ vectors *)
Lemma dot_sym x z : dot x z = dot z x.
Proof. revert z. induction x; destruct z; simpl; auto. rewrite IHx. ring. Qed.

Lemma distsq_sym x z : distsq x z = distsq z x.
Proof. revert z. induction x; destruct z; simpl; auto. rewrite IHx. ring. Qed.

Lemma wdistsq_sym g x z : wdistsq g x z = wdistsq g z x.
Proof. revert x z. induction g; destruct x, z; simpl; auto. rewrite IHg. ring. Qed.

Lemma dot_as_sum x : forall z, length x = length z ->
  dot x z = lsum (map (fun t => 1 * (nth t x 0 * nth t z 0)) (seq 0%nat (length x))).
Proof.
  induction x; destruct z; simpl; intros H; try discriminate; auto.
  rewrite <- seq_shift, map_map. rewrite (IHx z) by lia. ring.
Qed.

(* LinearKernel overrides featureDistanceSqr by distanceSqr *)
Lemma distsq_dot x : forall z, length x = length z ->
  distsq x z = dot x x - two * dot x z + dot z z.
Proof.
  unfold C05Model.two.
  induction x; destruct z; simpl; intros H; try discriminate; [ring|].
  rewrite (IHx z) by lia. ring.
Qed.

(* ------------------------------------------------------------------ kernels on a type X *)
Section OnX.
Variable X : Type.
Notation kernel := (X -> X -> A).
Notation k_const := (k_const A X).
Notation k_add := (k_add A add X).
Notation k_mul := (k_mul A mul X).
Notation k_pow := (k_pow A one mul X).
Notation k_scaled := (k_scaled A mul X).
Notation wsum_num := (wsum_num A zero add mul X).
Notation wsum_den := (wsum_den A zero add X).
Notation k_wsum := (k_wsum A zero add mul div X).
Notation k_prod := (k_prod A one mul X).
Notation k_norm := (k_norm A div sqrtA X).
Notation feat_dist := (feat_dist A one add mul sub X).
Notation mk := (mk A X).
Notation qform := (qform A zero add mul X).

Definition Sym (k : kernel) : Prop := forall x z, k x z = k z x.

Lemma sym_const c : Sym (k_const c).
Proof. intros x z. auto. Qed.
Lemma sym_add k1 k2 : Sym k1 -> Sym k2 -> Sym (k_add k1 k2).
Proof. intros H1 H2 x z. unfold C05Model.k_add. rewrite H1, H2. auto. Qed.
Lemma sym_mul k1 k2 : Sym k1 -> Sym k2 -> Sym (k_mul k1 k2).
Proof. intros H1 H2 x z. unfold C05Model.k_mul. rewrite H1, H2. auto. Qed.
Lemma sym_pow k d : Sym k -> Sym (k_pow k d).
Proof. intros H x z. unfold C05Model.k_pow. rewrite H. auto. Qed.
Lemma sym_scaled f k : Sym k -> Sym (k_scaled f k).
Proof. intros H x z. unfold C05Model.k_scaled. rewrite H. auto. Qed.
Lemma sym_wsum wks : Forall (fun wk => Sym (snd wk)) wks -> Sym (k_wsum wks).
Proof.
  intros H x z. unfold C05Model.k_wsum. f_equal.
  induction H; simpl; auto. rewrite IHForall, H. auto.
Qed.
Lemma sym_prod ks : Forall Sym ks -> Sym (k_prod ks).
Proof. intros H x z. induction H; simpl; auto. rewrite IHForall, H. auto. Qed.
Lemma sym_norm k : Sym k -> Sym (k_norm k).
Proof. intros H x z. unfold C05Model.k_norm. rewrite (H z x), !div_def. ring. Qed.

(* featureDistanceSqr: the coded value is k(x,x) - 2k(x,z) + k(z,z); the short-cut 2 - 2k(x,z) is
   taken only by kernels carrying the IS_NORMALIZED flag, i.e. with k(x,x) = 1 *)
Lemma feat_dist_identity (normalized : bool) k x z :
  (normalized = true -> k x x = 1 /\ k z z = 1) ->
  feat_dist normalized k x z = k x x - two * k x z + k z z.
Proof.
  intros H. unfold C05Model.feat_dist, C05Model.two. destruct normalized; auto.
  destruct (H eq_refl) as [-> ->]. ring.
Qed.

(* NormalizedKernel: diagonal = 1 wherever sqrtA is a square root of the (non-zero) diagonal value *)
Lemma norm_diag_one k x :
  sqrtA (k x x) * sqrtA (k x x) = k x x -> sqrtA (k x x) <> 0 -> k_norm k x x = 1.
Proof.
  intros H N. unfold C05Model.k_norm. rewrite <- H at 1. field. auto.
Qed.

(* multiplicative form, free of square roots: k_n(x,z)^2 k(x,x) k(z,z) = k(x,z)^2 *)
Lemma norm_mult_form k x z :
  sqrtA (k x x) * sqrtA (k x x) = k x x -> sqrtA (k z z) * sqrtA (k z z) = k z z ->
  sqrtA (k x x) <> 0 -> sqrtA (k z z) <> 0 ->
  (k_norm k x z * k_norm k x z) * (k x x * k z z) = k x z * k x z.
Proof.
  intros Hx Hz Nx Nz. unfold C05Model.k_norm. rewrite <- Hx at 3. rewrite <- Hz at 3. field. auto.
Qed.

(* ---------------------------------------------------------------- finite feature maps and PSD *)
Definition feats := list (A * (X -> A)).
Definition frep (fs : feats) (x z : X) : A :=
  lsum (map (fun wf => fst wf * (snd wf x * snd wf z)) fs).

(* k has a finite feature map with non-negative weights on the points satisfying P *)
Definition GramRepOn (P : X -> Prop) (k : kernel) : Prop :=
  exists fs : feats, Forall (fun wf => 0 <= fst wf) fs /\
                     forall x z, P x -> P z -> k x z = frep fs x z.

(* all quadratic forms sum_ij c_i c_j k(x_i,x_j) over points in P are non-negative *)
Definition PSDOn (P : X -> Prop) (k : kernel) : Prop :=
  forall pts : list (A * X), Forall (fun p => P (snd p)) pts -> 0 <= qform k pts.

Lemma qform_frep fs (pts : list (A * X)) :
  qform (frep fs) pts =
  lsum (map (fun wf => fst wf * (lsum (map (fun p => fst p * snd wf (snd p)) pts) *
                                 lsum (map (fun p => fst p * snd wf (snd p)) pts))) fs).
Proof.
  unfold C05Model.qform, frep.
  transitivity (lsum (map (fun p => lsum (map (fun q => lsum (map (fun wf =>
      fst wf * ((fst p * snd wf (snd p)) * (fst q * snd wf (snd q)))) fs)) pts)) pts)).
  { apply lsum_map_ext. intros p _. apply lsum_map_ext. intros q _.
    rewrite <- lsum_map_mul_l. apply lsum_map_ext. intros wf _. ring. }
  transitivity (lsum (map (fun p => lsum (map (fun wf => lsum (map (fun q =>
      fst wf * ((fst p * snd wf (snd p)) * (fst q * snd wf (snd q)))) pts)) fs)) pts)).
  { apply lsum_map_ext. intros p _. apply lsum_swap. }
  rewrite lsum_swap. apply lsum_map_ext. intros wf _.
  rewrite lsum_prod, <- lsum_map_mul_l. apply lsum_map_ext. intros p _.
  rewrite <- lsum_map_mul_l. apply lsum_map_ext. intros q _. ring.
Qed.

Lemma qform_ext (P : X -> Prop) (k k' : kernel) (pts : list (A * X)) :
  (forall x z, P x -> P z -> k x z = k' x z) -> Forall (fun p => P (snd p)) pts ->
  qform k pts = qform k' pts.
Proof.
  intros E H. rewrite Forall_forall in H. unfold C05Model.qform.
  apply lsum_map_ext. intros p Hp. apply lsum_map_ext. intros q Hq. rewrite E; auto.
Qed.

Theorem gramrep_psd (P : X -> Prop) k : GramRepOn P k -> PSDOn P k.
Proof.
  intros (fs & W & E) pts H. rewrite (qform_ext P k (frep fs) pts E H), qform_frep.
  apply lsum_map_nonneg. intros wf Hwf. rewrite Forall_forall in W.
  apply mul_nonneg; [auto|apply sq_nonneg].
Qed.

Lemma gramrep_weaken (P Q : X -> Prop) k : (forall x, Q x -> P x) -> GramRepOn P k -> GramRepOn Q k.
Proof. intros I (fs & W & E). exists fs. split; auto. Qed.

Lemma gramrep_ext (P : X -> Prop) k k' : (forall x z, P x -> P z -> k x z = k' x z) -> GramRepOn P k -> GramRepOn P k'.
Proof. intros I (fs & W & E). exists fs. split; auto. intros. rewrite <- I; auto. Qed.

Lemma gramrep_const (P : X -> Prop) c : 0 <= c -> GramRepOn P (k_const c).
Proof.
  intros H. exists [(c, fun _ => 1)]. split; [repeat constructor; auto|].
  intros. unfold frep, C05Model.k_const. simpl. ring.
Qed.

Lemma frep_app fs gs x z : frep (fs ++ gs) x z = frep fs x z + frep gs x z.
Proof. unfold frep. rewrite map_app, lsum_app. auto. Qed.

Lemma gramrep_add (P : X -> Prop) k1 k2 : GramRepOn P k1 -> GramRepOn P k2 -> GramRepOn P (k_add k1 k2).
Proof.
  intros (fs & W1 & E1) (gs & W2 & E2). exists (fs ++ gs). split; [apply Forall_app; auto|].
  intros. unfold C05Model.k_add. rewrite frep_app, E1, E2; auto.
Qed.

Lemma gramrep_scaled (P : X -> Prop) a k : 0 <= a -> GramRepOn P k -> GramRepOn P (k_scaled a k).
Proof.
  intros Ha (fs & W & E). exists (map (fun wf => (a * fst wf, snd wf)) fs). split.
  - rewrite Forall_forall in *. intros wf Hwf. apply in_map_iff in Hwf. destruct Hwf as (w & <- & Hw).
    simpl. apply mul_nonneg; auto.
  - intros. unfold C05Model.k_scaled. rewrite E by auto. unfold frep. rewrite map_map, <- lsum_map_mul_l.
    apply lsum_map_ext. intros wf _. simpl. ring.
Qed.

(* tensor features: the algebraic Schur product identity *)
Lemma gramrep_mul (P : X -> Prop) k1 k2 : GramRepOn P k1 -> GramRepOn P k2 -> GramRepOn P (k_mul k1 k2).
Proof.
  intros (fs & W1 & E1) (gs & W2 & E2).
  exists (flat_map (fun wf => map (fun vg => (fst wf * fst vg, fun x => snd wf x * snd vg x)) gs) fs). split.
  - rewrite Forall_forall in *. intros wf Hwf. apply in_flat_map in Hwf. destruct Hwf as (w & Hw & Hwf).
    apply in_map_iff in Hwf. destruct Hwf as (v & <- & Hv). simpl. apply mul_nonneg; auto.
  - intros. unfold C05Model.k_mul. rewrite E1, E2 by auto. unfold frep. rewrite lsum_flat_map, lsum_prod.
    apply lsum_map_ext. intros wf _. rewrite map_map. apply lsum_map_ext. intros vg _. simpl. ring.
Qed.

Lemma gramrep_pow (P : X -> Prop) k d : GramRepOn P k -> GramRepOn P (k_pow k d).
Proof.
  intros H. induction d.
  - apply (gramrep_ext P (k_const 1)); [reflexivity|]. apply gramrep_const, le_0_1.
  - apply (gramrep_ext P (k_mul k (k_pow k d))); [reflexivity|]. apply gramrep_mul; auto.
Qed.

Lemma gramrep_wsum_num (P : X -> Prop) wks :
  Forall (fun wk => 0 <= fst wk /\ GramRepOn P (snd wk)) wks -> GramRepOn P (wsum_num wks).
Proof.
  induction 1 as [|wk r [Hw Hk] _ IH].
  - apply (gramrep_ext P (k_const 0)); [reflexivity|]. apply gramrep_const. apply (of_refl _ _ _ _ _ _ _ _ _ OF).
  - apply (gramrep_ext P (k_add (k_scaled (fst wk) (snd wk)) (wsum_num r))); [reflexivity|].
    apply gramrep_add; auto. apply gramrep_scaled; auto.
Qed.

Lemma wsum_den_nonneg wks (P : kernel -> Prop) :
  Forall (fun wk => 0 <= fst wk /\ P (snd wk)) wks -> 0 <= wsum_den wks.
Proof.
  intros H. unfold C05Model.wsum_den. apply lsum_nonneg. rewrite Forall_forall in *. intros w Hw.
  apply in_map_iff in Hw. destruct Hw as (wk & <- & Hwk). apply H; auto.
Qed.

Lemma gramrep_wsum (P : X -> Prop) wks :
  Forall (fun wk => 0 <= fst wk /\ GramRepOn P (snd wk)) wks -> wsum_den wks <> 0 ->
  GramRepOn P (k_wsum wks).
Proof.
  intros H N.
  apply (gramrep_ext P (k_scaled (inv (wsum_den wks)) (wsum_num wks))).
  - intros. unfold C05Model.k_wsum, C05Model.k_scaled. rewrite div_def. ring.
  - apply gramrep_scaled; [|apply gramrep_wsum_num; auto].
    apply inv_nonneg; auto. eapply wsum_den_nonneg; eauto.
Qed.

Lemma gramrep_prod (P : X -> Prop) ks : Forall (GramRepOn P) ks -> GramRepOn P (k_prod ks).
Proof.
  induction 1 as [|k r Hk _ IH].
  - apply (gramrep_ext P (k_const 1)); [reflexivity|]. apply gramrep_const, le_0_1.
  - apply (gramrep_ext P (k_mul k (k_prod r))); [reflexivity|]. apply gramrep_mul; auto.
Qed.

(* normalisation divides the features by the (arbitrary) normaliser: no law of sqrtA is needed *)
Lemma gramrep_norm (P : X -> Prop) k : GramRepOn P k -> GramRepOn P (k_norm k).
Proof.
  intros (fs & W & E).
  exists (map (fun wf => (fst wf, fun x => snd wf x * inv (sqrtA (k x x)))) fs). split.
  - rewrite Forall_forall in *. intros wf Hwf. apply in_map_iff in Hwf. destruct Hwf as (w & <- & Hw). simpl. auto.
  - intros. unfold C05Model.k_norm. rewrite !div_def, E by auto. unfold frep.
    rewrite map_map. rewrite <- !lsum_map_mul_r. apply lsum_map_ext. intros wf _. simpl. ring.
Qed.

(* ---------------------------------------------------------------- batch = matrix of single evaluations *)
Notation bkernel := (list X -> list X -> mat).
Notation mmap := (mmap A).
Notation zipw := (zipw A).
Notation mzip := (mzip A).
Notation entry00 := (entry00 A zero).
Notation single_via_batch := (single_via_batch A zero X).
Notation b_scaled := (b_scaled A mul X).
Notation bwsum_num := (bwsum_num A zero add mul X).
Notation b_wsum := (b_wsum A zero add mul div X).
Notation b_prod := (b_prod A one mul X).
Notation b_norm := (b_norm A zero mul div sqrtA X).
Notation hcat := (hcat A).
Notation row_block := (row_block A X).
Notation gram_blocks := (gram_blocks A X).
Notation gram_reg := (gram_reg A add X).
Notation gram := (gram A X).
Notation add_diag_from := (add_diag_from A add).

Definition BatchOKOn (P : X -> Prop) (k : kernel) (bk : bkernel) : Prop :=
  forall X1 X2, Forall P X1 -> Forall P X2 -> bk X1 X2 = mk k X1 X2.

Lemma mk_ext k k' X1 X2 :
  (forall x z, In x X1 -> In z X2 -> k x z = k' x z) -> mk k X1 X2 = mk k' X1 X2.
Proof. intros H. unfold C05Model.mk. apply map_ext_in. intros x Hx. apply map_ext_in. intros z Hz. auto. Qed.

Lemma mmap_mk f k X1 X2 : mmap f (mk k X1 X2) = mk (fun x z => f (k x z)) X1 X2.
Proof. unfold C05Model.mmap, C05Model.mk. rewrite map_map. apply map_ext. intros. rewrite map_map. auto. Qed.

Lemma zipw_map {T} f (g h : T -> A) l : zipw f (map g l) (map h l) = map (fun t => f (g t) (h t)) l.
Proof. induction l; simpl; auto. rewrite IHl. auto. Qed.

Lemma mzip_mk f k1 k2 X1 X2 :
  mzip f (mk k1 X1 X2) (mk k2 X1 X2) = mk (fun x z => f (k1 x z) (k2 x z)) X1 X2.
Proof. induction X1; simpl; auto. rewrite IHX1, zipw_map. auto. Qed.

Lemma batch_weaken (P Q : X -> Prop) k bk : (forall x, Q x -> P x) -> BatchOKOn P k bk -> BatchOKOn Q k bk.
Proof. intros I H X1 X2 H1 H2. apply H; eapply Forall_impl; eauto. Qed.

Lemma batch_mk (P : X -> Prop) k : BatchOKOn P k (mk k).
Proof. intros X1 X2 _ _. auto. Qed.

Lemma batch_scaled (P : X -> Prop) f k bk : BatchOKOn P k bk -> BatchOKOn P (k_scaled f k) (b_scaled f bk).
Proof.
  intros H X1 X2 H1 H2. unfold C05Model.b_scaled. rewrite H, mmap_mk by auto.
  apply mk_ext. intros. unfold C05Model.k_scaled. ring.
Qed.

Definition wpair_ok P (wk : A * kernel) (wb : A * bkernel) : Prop :=
  fst wk = fst wb /\ BatchOKOn P (snd wk) (snd wb).

Lemma batch_wsum_num (P : X -> Prop) wks wbs : Forall2 (wpair_ok P) wks wbs -> BatchOKOn P (wsum_num wks) (bwsum_num wbs).
Proof.
  induction 1 as [|wk wb r rb [Ew Hk] _ IH]; intros X1 X2 H1 H2; simpl.
  - apply mk_ext. auto.
  - rewrite Hk, IH, mmap_mk, mzip_mk by auto. apply mk_ext. intros. do 2 f_equal. symmetry. exact Ew.
Qed.

Lemma batch_wsum (P : X -> Prop) wks wbs : Forall2 (wpair_ok P) wks wbs -> BatchOKOn P (k_wsum wks) (b_wsum wbs).
Proof.
  intros H X1 X2 H1 H2. unfold C05Model.b_wsum. rewrite (batch_wsum_num P wks wbs H), mmap_mk by auto.
  apply mk_ext. intros. unfold C05Model.k_wsum, C05Model.wsum_den. do 2 f_equal.
  clear -H. induction H as [|? ? ? ? [E _] _ IH]; simpl; auto. f_equal; [symmetry; exact E|exact IH].
Qed.

Lemma batch_prod (P : X -> Prop) ks bs : Forall2 (BatchOKOn P) ks bs -> BatchOKOn P (k_prod ks) (b_prod bs).
Proof.
  induction 1 as [|k b r rb Hk _ IH]; intros X1 X2 H1 H2; simpl.
  - apply mk_ext. auto.
  - rewrite Hk, IH, mzip_mk by auto. apply mk_ext. auto.
Qed.

Lemma entry00_single (P : X -> Prop) k bk x : BatchOKOn P k bk -> P x -> entry00 (bk [x] [x]) = k x x.
Proof. intros H Px. rewrite H by (repeat constructor; auto). reflexivity. Qed.

(* the state-full batch path of NormalizedKernel *)
Lemma batch_norm (P : X -> Prop) k bk :
  BatchOKOn P k bk -> BatchOKOn (fun x => P x /\ sqrtA (k x x) <> 0) (k_norm k) (b_norm bk).
Proof.
  intros H X1 X2 H1 H2. unfold C05Model.b_norm.
  assert (P1 : Forall P X1) by (eapply Forall_impl; [|exact H1]; simpl; tauto).
  assert (P2 : Forall P X2) by (eapply Forall_impl; [|exact H2]; simpl; tauto).
  rewrite H by auto.
  rewrite (map_ext_in _ (fun x => sqrtA (k x x)) X1).
  2:{ intros x Hx. rewrite (entry00_single P k bk x H); auto. rewrite Forall_forall in P1. auto. }
  rewrite (map_ext_in _ (fun x => sqrtA (k x x)) X2).
  2:{ intros x Hx. rewrite (entry00_single P k bk x H); auto. rewrite Forall_forall in P2. auto. }
  replace (map (fun sx => map (fun sz => sx * sz) (map (fun x => sqrtA (k x x)) X2)) (map (fun x => sqrtA (k x x)) X1))
    with (mk (fun x z => sqrtA (k x x) * sqrtA (k z z)) X1 X2).
  2:{ unfold C05Model.mk. rewrite map_map. apply map_ext. intros. rewrite map_map. auto. }
  rewrite mzip_mk. apply mk_ext. intros x z Hx Hz. unfold C05Model.k_norm.
  rewrite Forall_forall in H1, H2. field. split; [apply H1|apply H2]; auto.
Qed.

(* mechanism "default scalar eval builds 1-element batches" *)
Lemma single_via_batch_ok (P : X -> Prop) k bk x z : BatchOKOn P k bk -> P x -> P z -> single_via_batch bk x z = k x z.
Proof. intros H Px Pz. unfold C05Model.single_via_batch. rewrite H by (repeat constructor; auto). reflexivity. Qed.

(* ---------------------------------------------------------------- Gram assembly *)
Lemma hcat_mk k b Y1 Y2 : hcat (mk k b Y1) (mk k b Y2) = mk k b (Y1 ++ Y2).
Proof. induction b; simpl; auto. rewrite IHb, map_app. auto. Qed.

Lemma row_block_ok (P : X -> Prop) k bk b d :
  BatchOKOn P k bk -> Forall P b -> Forall (Forall P) d -> row_block bk b d = mk k b (concat d).
Proof.
  intros H Hb Hd. unfold C05Model.row_block. induction Hd as [|bj r Hj _ IH]; simpl.
  - unfold C05Model.mk. simpl. auto.
  - rewrite IH, H, hcat_mk by auto. auto.
Qed.

Lemma mk_app_rows k b1 b2 Y : mk k (b1 ++ b2) Y = mk k b1 Y ++ mk k b2 Y.
Proof. unfold C05Model.mk. apply map_app. Qed.

Lemma gram_blocks_ok (P : X -> Prop) k bk (d : list (list X)) :
  BatchOKOn P k bk -> Forall (Forall P) d -> gram_blocks bk d = gram k (concat d).
Proof.
  intros H Hd. unfold C05Model.gram_blocks, C05Model.gram.
  assert (G : forall d', Forall (Forall P) d' ->
              concat (map (fun bi => row_block bk bi d) d') = mk k (concat d') (concat d)).
  { induction 1 as [|bi r Hi _ IH]; simpl; auto.
    rewrite IH, (row_block_ok P k bk bi d), mk_app_rows; auto. }
  apply G; auto.
Qed.

(* the assembled (regularised) Gram matrix is a function of the element list only *)
Theorem gram_reg_elems (P : X -> Prop) k bk r (d : @data X) :
  BatchOKOn P k bk -> Forall (Forall P) d ->
  gram_reg bk r d = add_diag_from 0%nat r (gram k (elems d)).
Proof. intros H Hd. unfold C05Model.gram_reg. rewrite (gram_blocks_ok P k bk d H Hd). auto. Qed.

Theorem gram_partition_invariant (P : X -> Prop) k bk r (d1 d2 : @data X) :
  BatchOKOn P k bk -> Forall (Forall P) d1 -> Forall (Forall P) d2 ->
  elems d1 = elems d2 -> gram_reg bk r d1 = gram_reg bk r d2.
Proof. intros H H1 H2 E. rewrite !(gram_reg_elems P k bk r) by auto. rewrite E. auto. Qed.

Lemma Forall_concat_iff (P : X -> Prop) (d : list (list X)) : Forall (Forall P) d <-> Forall P (concat d).
Proof.
  induction d; simpl; split; intros H; auto.
  - inversion H; subst. apply Forall_app. split; auto. apply IHd; auto.
  - apply Forall_app in H. destruct H. constructor; auto. apply IHd; auto.
Qed.

(* instance: Data::repartition (C03 model) does not change the Gram matrix *)
Corollary gram_repartition_invariant (P : X -> Prop) k bk r szs (d d' : @data X) :
  BatchOKOn P k bk -> Forall (Forall P) d -> repartition szs d = Some d' ->
  gram_reg bk r d' = gram_reg bk r d.
Proof.
  intros H Hd R. destruct (repartition_spec szs d d' R) as [E _].
  apply (gram_partition_invariant P k bk r d' d); auto.
  apply Forall_concat_iff. unfold elems in E. rewrite E. apply Forall_concat_iff; auto.
Qed.

End OnX.

(* ------------------------------------------------------------------ kernels on transformed inputs *)
Section Pull.
Variables X Y : Type.
Variable f : X -> Y.

Lemma sym_pull k : Sym Y k -> Sym X (k_pull A f k).
Proof. intros H x z. unfold C05Model.k_pull. apply H. Qed.

Lemma gramrep_pull (P : Y -> Prop) k :
  GramRepOn Y P k -> GramRepOn X (fun x => P (f x)) (k_pull A f k).
Proof.
  intros (fs & W & E). exists (map (fun wf => (fst wf, fun x => snd wf (f x))) fs). split.
  - rewrite Forall_forall in *. intros wf Hwf. apply in_map_iff in Hwf. destruct Hwf as (w & <- & Hw). simpl. auto.
  - intros. unfold C05Model.k_pull. rewrite E by auto. unfold frep. rewrite map_map. auto.
Qed.

Lemma batch_pull (P : Y -> Prop) k bk :
  BatchOKOn Y P k bk -> BatchOKOn X (fun x => P (f x)) (k_pull A f k) (b_pull A f bk).
Proof.
  intros H X1 X2 H1 H2. unfold C05Model.b_pull. rewrite H by (apply Forall_map; auto).
  unfold C05Model.mk. rewrite map_map. apply map_ext. intros. rewrite map_map. auto.
Qed.
End Pull.

(* ------------------------------------------------------------------ the vector kernels *)
Notation k_poly := (k_poly A zero one add mul).
Notation k_mono := (k_mono A zero one add mul).
Notation k_gauss := (k_gauss A zero add mul sub opp expA).
Notation k_ard := (k_ard A zero add mul sub opp expA).
Notation k_disc := (k_disc A zero).
Notation k_sub := (k_sub A).
Notation b_lin := (b_lin A zero add mul).
Notation b_poly := (b_poly A zero one add mul).
Notation b_mono := (b_mono A zero one add mul).
Notation b_gauss := (b_gauss A zero add mul sub opp expA).
Notation b_ard := (b_ard A zero add mul sub opp expA).
Notation b_disc := (b_disc A zero).
Notation b_sub := (b_sub A).
Notation subvec := (subvec A).

Lemma sym_lin : Sym vec dot.
Proof. intros x z. apply dot_sym. Qed.
Lemma sym_poly d c : Sym vec (k_poly d c).
Proof. intros x z. unfold C05Model.k_poly. rewrite dot_sym. auto. Qed.
Lemma sym_mono d : Sym vec (k_mono d).
Proof. intros x z. unfold C05Model.k_mono. rewrite dot_sym. auto. Qed.
Lemma sym_gauss g : Sym vec (k_gauss g).
Proof. intros x z. unfold C05Model.k_gauss. rewrite distsq_sym. auto. Qed.
Lemma sym_ard gs : Sym vec (k_ard gs).
Proof. intros x z. unfold C05Model.k_ard. rewrite wdistsq_sym. auto. Qed.
Lemma sym_sub a b k : Sym vec k -> Sym vec (k_sub a b k).
Proof. apply sym_pull. Qed.
(* DiscreteKernel: symmetric exactly when the table is *)
Lemma sym_disc (tbl : mat) :
  (forall i j, nth j (nth i tbl []) 0 = nth i (nth j tbl []) 0) -> Sym nat (k_disc tbl).
Proof. intros H i j. apply H. Qed.

Definition dimP (n : nat) : vec -> Prop := fun x => length x = n.

Lemma gramrep_lin n : GramRepOn vec (dimP n) dot.
Proof.
  exists (map (fun t => (1, fun x : vec => nth t x 0)) (seq 0%nat n)). split.
  - rewrite Forall_forall. intros wf Hwf. apply in_map_iff in Hwf. destruct Hwf as (t & <- & _). apply le_0_1.
  - intros x z Hx Hz. unfold dimP in *. rewrite dot_as_sum by congruence. unfold frep. rewrite map_map, Hx. auto.
Qed.

Lemma gramrep_poly n d c : 0 <= c -> GramRepOn vec (dimP n) (k_poly d c).
Proof.
  intros Hc. apply (gramrep_ext vec (dimP n) (k_pow A one mul vec (k_add A add vec dot (k_const A vec c)) d)); [reflexivity|].
  apply gramrep_pow, gramrep_add; [apply gramrep_lin|apply gramrep_const; auto].
Qed.

Lemma gramrep_mono n d : GramRepOn vec (dimP n) (k_mono d).
Proof.
  apply (gramrep_ext vec (dimP n) (k_pow A one mul vec dot d)); [reflexivity|].
  apply gramrep_pow, gramrep_lin.
Qed.

Lemma subvec_length a b (x : vec) : (a <= b)%nat -> (b <= length x)%nat -> length (subvec a b x) = (b - a)%nat.
Proof. intros. unfold C05Model.subvec. rewrite firstn_length, skipn_length. lia. Qed.

(* a kernel on the coordinates [a,b) of N-dimensional inputs *)
Lemma gramrep_sub N a b k :
  (a <= b)%nat -> (b <= N)%nat -> GramRepOn vec (dimP (b - a)) k -> GramRepOn vec (dimP N) (k_sub a b k).
Proof.
  intros Hab HbN H.
  apply (gramrep_weaken vec (fun x => dimP (b - a) (subvec a b x))).
  - intros x Hx. unfold dimP in *. apply subvec_length; lia.
  - apply gramrep_pull. auto.
Qed.

Theorem psd_linear n : PSDOn vec (dimP n) dot.
Proof. apply gramrep_psd, gramrep_lin. Qed.
Theorem psd_polynomial n d c : 0 <= c -> PSDOn vec (dimP n) (k_poly d c).
Proof. intros. apply gramrep_psd, gramrep_poly; auto. Qed.
Theorem psd_monomial n d : PSDOn vec (dimP n) (k_mono d).
Proof. apply gramrep_psd, gramrep_mono. Qed.

(* batch paths *)
Lemma b_lin_mk X1 X2 : b_lin X1 X2 = mk A vec dot X1 X2.
Proof. reflexivity. Qed.

Lemma pow_1 v : pow v 1 = v.
Proof. simpl. ring. Qed.

Lemma batch_lin (P : vec -> Prop) : BatchOKOn vec P dot b_lin.
Proof. intros X1 X2 _ _. reflexivity. Qed.

Lemma batch_poly (P : vec -> Prop) d c : BatchOKOn vec P (k_poly d c) (b_poly d c).
Proof.
  intros X1 X2 _ _. unfold C05Model.b_poly. rewrite b_lin_mk, mmap_mk.
  destruct (Nat.eqb_spec d 1) as [->|_].
  - apply mk_ext. intros. unfold C05Model.k_poly. rewrite pow_1. auto.
  - rewrite mmap_mk. auto.
Qed.

Lemma batch_mono (P : vec -> Prop) d : BatchOKOn vec P (k_mono d) (b_mono d).
Proof.
  intros X1 X2 _ _. unfold C05Model.b_mono. rewrite b_lin_mk.
  destruct (Nat.eqb_spec d 1) as [->|_].
  - apply mk_ext. intros. unfold C05Model.k_mono. rewrite pow_1. auto.
  - rewrite mmap_mk. auto.
Qed.

Lemma batch_gauss (P : vec -> Prop) g : BatchOKOn vec P (k_gauss g) (b_gauss g).
Proof.
  intros X1 X2 _ _. unfold C05Model.b_gauss.
  change (map (fun x => map (fun z => distsq x z) X2) X1) with (mk A vec distsq X1 X2).
  rewrite mmap_mk. auto.
Qed.

Lemma batch_ard (P : vec -> Prop) gs : BatchOKOn vec P (k_ard gs) (b_ard gs).
Proof. intros X1 X2 _ _. reflexivity. Qed.

Lemma batch_disc (P : nat -> Prop) tbl : BatchOKOn nat P (k_disc tbl) (b_disc tbl).
Proof. intros X1 X2 _ _. reflexivity. Qed.

Lemma batch_sub (P : vec -> Prop) a b k bk :
  BatchOKOn vec P k bk -> BatchOKOn vec (fun x => P (subvec a b x)) (k_sub a b k) (b_sub a b bk).
Proof. apply batch_pull. Qed.

(* ------------------------------------------------------------------ Gaussian kernel: what is proved.
   Full statement (NOT proved here, it needs the exponential series or Bochner's theorem):
     forall n g, 0 <= g -> PSDOn vec (dimP n) (k_gauss g)          over the reals with expA = exp.
   Proved: for every expA with expA(a+b) = expA a * expA b, positive semi-definiteness of the Gaussian
   kernel follows from that of the exponentiated inner product  (x,z) |-> expA(2 g <x,z>). *)
Theorem psd_gaussian_partial n g :
  (forall a b, expA (a + b) = expA a * expA b) ->
  PSDOn vec (dimP n) (fun x z => expA (two * g * dot x z)) ->
  PSDOn vec (dimP n) (k_gauss g).
Proof.
  intros EA H pts Hp.
  set (e := fun x : vec => expA (opp g * dot x x)).
  assert (F : forall x z, dimP n x -> dimP n z ->
                          k_gauss g x z = e x * expA (two * g * dot x z) * e z).
  { intros x z Hx Hz. unfold C05Model.k_gauss, e. unfold dimP in *.
    rewrite distsq_dot by congruence. rewrite <- !EA. f_equal. unfold C05Model.two. ring. }
  rewrite (qform_ext vec (dimP n) _ _ pts F Hp).
  specialize (H (map (fun p => (fst p * e (snd p), snd p)) pts)).
  replace (qform A zero add mul vec (fun x z => e x * expA (two * g * dot x z) * e z) pts)
    with (qform A zero add mul vec (fun x z => expA (two * g * dot x z)) (map (fun p => (fst p * e (snd p), snd p)) pts)).
  - apply H. apply Forall_map. simpl. auto.
  - unfold C05Model.qform. rewrite map_map. apply lsum_map_ext. intros p _.
    rewrite map_map. apply lsum_map_ext. intros q _. simpl. ring.
Qed.

End Proofs.

(* ------------------------------------------------------------------ instance: canonical rationals *)
From Coq Require Import QArith Qcanon.

Lemma Qc_mul_nonneg (x y : Qc) : (0 <= x -> 0 <= y -> 0 <= x * y)%Qc.
Proof.
  intros Hx Hy. replace (Q2Qc 0) with (0 * y)%Qc by ring. apply Qcmult_le_compat_r; auto.
Qed.

Lemma Qc_ordfield : OrdField (Q2Qc 0) 1%Qc Qcplus Qcmult Qcminus Qcdiv Qcopp Qcinv Qcle.
Proof.
  constructor.
  - exact Qcft.
  - exact Qcle_refl.
  - exact Qcle_trans.
  - exact Qcplus_le_compat.
  - exact Qc_mul_nonneg.
  - intros x. destruct (Qclt_le_dec x 0) as [L|L].
    + replace (x * x)%Qc with ((- x) * (- x))%Qc by ring.
      assert (0 <= - x)%Qc.
      { apply Qclt_le_weak in L. apply Qcopp_le_compat in L. exact L. }
      apply Qc_mul_nonneg; auto.
    + apply Qc_mul_nonneg; auto.
  - intros x Hx _. unfold Qcle in *. simpl in *. rewrite Qred_correct. apply Qinv_le_0_compat. exact Hx.
Qed.

(* the hypotheses of the conditional statements are satisfiable *)
Definition QcDot := C05Model.dot Qc (Q2Qc 0) Qcplus Qcmult.

Example norm_diag_one_example :
  let k := QcDot in let x := [Q2Qc 3; Q2Qc 4] in let sq := fun _ : Qc => Q2Qc 5 in
  (sq (k x x) * sq (k x x) = k x x)%Qc /\ sq (k x x) <> Q2Qc 0 /\
  k_norm Qc Qcdiv sq (list Qc) k x x = 1%Qc.
Proof.
  simpl. assert (E : (Q2Qc 5 * Q2Qc 5 = QcDot [Q2Qc 3; Q2Qc 4] [Q2Qc 3; Q2Qc 4])%Qc).
  { apply Qc_is_canon. vm_compute. reflexivity. }
  assert (N : Q2Qc 5 <> Q2Qc 0) by (intro H; discriminate H).
  split; [exact E|]. split; [exact N|].
  apply (norm_diag_one Qc (Q2Qc 0) 1%Qc Qcplus Qcmult Qcminus Qcdiv Qcopp Qcinv Qcle (fun _ => Q2Qc 5) Qc_ordfield (list Qc) QcDot); auto.
Qed.

Example psd_gaussian_partial_hyps_satisfiable :
  let e := fun _ : Qc => 1%Qc in
  (forall a b : Qc, e (a + b) = e a * e b)%Qc /\
  forall n g, PSDOn Qc (Q2Qc 0) Qcplus Qcmult Qcle (list Qc) (dimP Qc n)
                (fun x z => e (two Qc 1%Qc Qcplus * g * QcDot x z)%Qc).
Proof.
  split; [intros; ring|]. intros n g.
  apply (gramrep_psd Qc (Q2Qc 0) 1%Qc Qcplus Qcmult Qcminus Qcdiv Qcopp Qcinv Qcle Qc_ordfield).
  apply (gramrep_const Qc (Q2Qc 0) 1%Qc Qcplus Qcmult Qcminus Qcdiv Qcopp Qcinv Qcle Qc_ordfield).
  apply (le_0_1 Qc (Q2Qc 0) 1%Qc Qcplus Qcmult Qcminus Qcdiv Qcopp Qcinv Qcle Qc_ordfield).
Qed.
