(* C10 — trust-region Newton: executable model (definitions only) of
     src/Algorithms/GradientDescent/TrustRegionNewton.cpp   borderDistance, errorDifference, trustRegionCG (Steihaug CG,
                                                            Nocedal/Wright Algorithm 7.2), TrustRegionNewton::init / step
   AS CODED (after the repair fd35712b of borderDistance), written once over the abstract number type of C10Gen.v (record [ops T]: + - * / sqrt <
   ==) plus one more operation [leb] (<=), then instantiated with the exact rationals (C10Model.v conventions: every
   result reduced by Qred; [sq] stands for std::sqrt and is an arbitrary function Q -> Q).  ocaml/c10_driver.ml
   instantiates the same extracted terms with IEEE doubles and replays every single step of the real class from the state
   the C++ reports (tools/c10.py).

   Statement-by-statement correspondence:
     * tr_border      borderDistance (tr_border_p, tr_border_arg: p and the argument of the square root):
                      p = 2 d'z / d'd, q = (z'z - delta^2) / d'd, tau = -p/2 + sqrt((p/2)^2 - q), the
                      non-negative root of tau^2 + p tau + q = 0, i.e. of |z + tau d| = delta.
     * tr_border_old  the formula before the repair fd35712b: tau = +p/2 + sqrt((p/2)^2 - q).  Equal to tr_border in the
                      first CG iteration (z = 0, p = 0), too long by p afterwards: the step left the trust region and the
                      objective could increase (regression witnesses in C10TrustRegionProofs.v; tr_cg_old / tr_step_old
                      are the same loop and the same step with that formula).
     * tr_errdiff     errorDifference: (residual'step + gradient'step) / 2.
     * tr_cg_loop     the for loop of trustRegionCG (the border-distance function is a parameter, so that the repaired and
                      the old formula share the text of the loop), one constructor of fuel per iteration (fuel = 10 * dimension); the
                      candidate step + alpha * direction of the border test is computed once and reused for the update
                      (the C++ evaluates the same expression twice).  Exit codes (not in the C++, for statistics and for
                      the case analysis of the proofs): 0 gradient below tolerance before the loop, 1 non-positive
                      curvature (normH <= 0): run to the border, 2 the CG step crosses the border, 3 residual below
                      tolerance, 4 iteration limit ("return solution": predicted change still 0.0, step = last iterate).
     * tr_step_with   TrustRegionNewton::step after the call of trustRegionCG, with the pair (predicted change, step)
                      as an ARGUMENT: solution.first == 0 -> nothing changes; newValue = f(point + step) through
                      operator() (value oracle [f]); rho = (newValue - value) / predicted; radius /4 if rho < 0.25, *2 if
                      rho > 0.75 and |step|^2 > 0.99 radius^2; the point is accepted iff rho >= m_minImprovementRatio, and
                      then value / gradient / Hessian come from ONE evalDerivative call (oracle [fd], second order).
     * tr_step        step = tr_step_with (trustRegionCG (hessian, gradient, min(0.5, sqrt |g|) * |g|, radius)).
     * tr_init        init(objective, start, initialDelta): radius, m_minImprovementRatio = 0.1, evalDerivative.
   [f] and [fd] are unrelated oracles (the bookkeeping theorems need nothing; monotonicity needs f x = value of fd x).
   Comparisons: a <= b is [leb a b], a >= b is [leb b a], a > b is [ltb b a]: for IEEE doubles these are the C++
   operators also on NaN.  NaN itself is outside an ordered field: in the rational instance 0/0 = 0 (Coq's Qdiv), so a
   step from an exactly zero gradient returns through "solution.first == 0" where the C++ computes NaN everywhere and
   rejects the step because NaN >= ratio is false - both leave the state as it is; that the C++ does is the job of the
   monitors of tools/c10.py (start at the minimiser, steps continued after exact convergence). *)
From Coq Require Import List QArith Qreduction Qabs Bool Arith.
From SharkV Require Import C10Model C10LsModel C10Gen C10LbfgsModel.
Import ListNotations.

Section GenericTR.
  Variable T : Type.
  Variable O : ops T.
  Variable leb : T -> T -> bool.        (* a <= b *)
  Variable c099 : T.                    (* the double 0.99 *)
  Variable c01 : T.                     (* the double 0.1 (m_minImprovementRatio set by init) *)
  Notation gvec := (list T).

  Notation "0" := (o_zero O).
  Notation "1" := (o_one O).
  Infix "+" := (o_add O).
  Infix "-" := (o_sub O).
  Infix "*" := (o_mul O).
  Infix "/" := (o_div O).
  Infix "<?" := (o_ltb O) (at level 70).

  Definition g_two : T := 1 + 1.
  Definition g_four : T := g_two + g_two.
  Definition g_half : T := 1 / g_two.                       (* 0.5 *)
  Definition g_quarter : T := 1 / g_four.                   (* 0.25 *)
  Definition g_three_quarters : T := (g_two + 1) / g_four.  (* 0.75 *)
  Definition g_sqr (a : T) : T := a * a.                    (* sqr *)
  Definition g_normsq (v : gvec) : T := gdot T O v v.       (* norm_sqr *)
  Definition g_mv (H : list gvec) (v : gvec) : gvec := map (fun r => gdot T O r v) H.      (* prod(hessian, v) *)

  (* borderDistance(z, direction, delta): p, the argument of the square root, the result *)
  Definition tr_border_p (z d : gvec) : T := (g_two * gdot T O d z) / g_normsq d.
  Definition tr_border_arg (z d : gvec) (delta : T) : T :=
    let p := tr_border_p z d in
    let q := (g_normsq z - g_sqr delta) / g_normsq d in
    g_sqr (p / g_two) - q.
  Definition tr_border (z d : gvec) (delta : T) : T :=
    o_neg O (tr_border_p z d) / g_two + o_sqrt O (tr_border_arg z d delta).

  (* the formula before the repair fd35712b *)
  Definition tr_border_old (z d : gvec) (delta : T) : T :=
    tr_border_p z d / g_two + o_sqrt O (tr_border_arg z d delta).

  (* errorDifference(step, residual, gradient) *)
  Definition tr_errdiff (step residual gradient : gvec) : T :=
    (gdot T O residual step + gdot T O gradient step) / g_two.

  (* result of trustRegionCG: solution.first, solution.second; not in the C++: exit code, number of completed iterations, and
     the number whose square root borderDistance took (exits 1 and 2; 0 otherwise) - the theorems about a run need the
     square-root function to be right only there *)
  Record tr_cg_result : Type := mkCG { cg_pred : T; cg_step : gvec; cg_exit : nat; cg_iters : nat; cg_sqarg : T }.

  Section CGLoop.
  Variable border : gvec -> gvec -> T -> T.

  Fixpoint tr_cg_loop (fuel : nat) (H : list gvec) (g : gvec) (tol2 delta : T)
                      (step residual direction : gvec) (cur : T) (it : nat) : tr_cg_result :=
    match fuel with
    | Datatypes.O => mkCG 0 step 4 it 0
    | S k =>
      let Hdir := g_mv H direction in
      let normH := gdot T O direction Hdir in
      if leb normH 0 then
        let tau := border step direction delta in
        let step' := gvadd T O step (gvscale T O tau direction) in
        let res' := gvadd T O residual (gvscale T O tau Hdir) in
        mkCG (tr_errdiff step' res' g) step' 1 it (tr_border_arg step direction delta)
      else
        let alpha := cur / normH in
        let cand := gvadd T O step (gvscale T O alpha direction) in
        if leb (g_sqr delta) (g_normsq cand) then
          let tau := border step direction delta in
          let step' := gvadd T O step (gvscale T O tau direction) in
          let res' := gvadd T O residual (gvscale T O tau Hdir) in
          mkCG (tr_errdiff step' res' g) step' 2 it (tr_border_arg step direction delta)
        else
          let res' := gvadd T O residual (gvscale T O alpha Hdir) in
          let nr2 := g_normsq res' in
          if nr2 <? tol2 then mkCG (tr_errdiff cand res' g) cand 3 (S it) 0
          else
            let beta := nr2 / cur in
            let dir' := gvsub T O (gvscale T O beta direction) res' in
            tr_cg_loop k H g tol2 delta cand res' dir' nr2 (S it)
    end.

  (* trustRegionCG(hessian, gradient, tolerance, delta) *)
  Definition tr_cg_with (H : list gvec) (g : gvec) (tol delta : T) : tr_cg_result :=
    let cur := g_normsq g in
    if cur <? g_sqr tol then mkCG 0 (map (fun _ => 0) g) Datatypes.O Datatypes.O 0
    else tr_cg_loop (10 * length g) H g (g_sqr tol) delta (map (fun _ => 0) g) g (gvneg T O g) cur Datatypes.O.
  End CGLoop.

  Definition tr_cg : list gvec -> gvec -> T -> T -> tr_cg_result := tr_cg_with tr_border.
  Definition tr_cg_old : list gvec -> gvec -> T -> T -> tr_cg_result := tr_cg_with tr_border_old.      (* before fd35712b *)

  (* ---------------- the optimizer ---------------- *)
  Record gtr_state : Type := mkTR {
    tr_pt : gvec; tr_val : T;        (* m_best *)
    tr_delta : T;                    (* m_delta *)
    tr_ratio : T;                    (* m_minImprovementRatio *)
    tr_grad : gvec; tr_hess : list gvec }.    (* m_derivatives *)

  Variable f : gvec -> T.                             (* operator(): eval *)
  Variable fd : gvec -> T * gvec * list gvec.         (* evalDerivative(point, SecondOrderDerivative): value, gradient, Hessian *)

  Definition tr_init (x0 : gvec) (delta0 : T) : gtr_state :=
    let '(v, g, H) := fd x0 in mkTR x0 v delta0 c01 g H.

  (* the radius update *)
  Definition tr_new_delta (delta rho : T) (sol : gvec) : T :=
    if rho <? g_quarter then delta / g_four
    else if (g_three_quarters <? rho) && (c099 * g_sqr delta <? g_normsq sol) then delta * g_two
    else delta.

  Definition tr_step_with (pred : T) (sol : gvec) (s : gtr_state) : gtr_state :=
    if o_eqb O pred 0 then s
    else
      let newv := f (gvadd T O (tr_pt s) sol) in
      let rho := (newv - tr_val s) / pred in
      let delta' := tr_new_delta (tr_delta s) rho sol in
      if leb (tr_ratio s) rho then
        let p' := gvadd T O (tr_pt s) sol in
        let '(v, g, H) := fd p' in mkTR p' v delta' (tr_ratio s) g H
      else mkTR (tr_pt s) (tr_val s) delta' (tr_ratio s) (tr_grad s) (tr_hess s).

  (* the forcing schedule: tolerance = min(0.5, sqrt |g|) * |g| *)
  Definition tr_tolerance (g : gvec) : T :=
    let gn := o_sqrt O (g_normsq g) in
    gmin T O g_half (o_sqrt O gn) * gn.

  Definition tr_solve (s : gtr_state) : tr_cg_result :=
    tr_cg (tr_hess s) (tr_grad s) (tr_tolerance (tr_grad s)) (tr_delta s).

  Definition tr_step (s : gtr_state) : gtr_state :=
    let r := tr_solve s in tr_step_with (cg_pred r) (cg_step r) s.

  (* step with the border formula of before fd35712b *)
  Definition tr_solve_old (s : gtr_state) : tr_cg_result :=
    tr_cg_old (tr_hess s) (tr_grad s) (tr_tolerance (tr_grad s)) (tr_delta s).
  Definition tr_step_old (s : gtr_state) : gtr_state :=
    let r := tr_solve_old s in tr_step_with (cg_pred r) (cg_step r) s.

  (* a run in which the sub-problem solver is replaced by an arbitrary oracle (step number, state) -> (predicted, step) *)
  Fixpoint tr_run_with (orc : nat -> gtr_state -> T * gvec) (n : nat) (s : gtr_state) : gtr_state :=
    match n with
    | Datatypes.O => s
    | S k => let s' := tr_run_with orc k s in let '(pred, sol) := orc k s' in tr_step_with pred sol s'
    end.

  Fixpoint tr_run (n : nat) (s : gtr_state) : gtr_state :=
    match n with Datatypes.O => s | S k => tr_step (tr_run k s) end.

  (* statistics of the check: what the step did.  (exit code of the CG, radius: 0 shrunk / 1 kept / 2 doubled, accepted) *)
  Definition tr_step_info (s : gtr_state) : tr_cg_result * T * bool :=
    let r := tr_solve s in
    if o_eqb O (cg_pred r) 0 then (r, 0, false)
    else
      let rho := (f (gvadd T O (tr_pt s) (cg_step r)) - tr_val s) / cg_pred r in
      (r, rho, leb (tr_ratio s) rho).
End GenericTR.

Arguments mkCG {T}. Arguments cg_pred {T}. Arguments cg_step {T}. Arguments cg_exit {T}. Arguments cg_iters {T}. Arguments cg_sqarg {T}.
Arguments mkTR {T}. Arguments tr_pt {T}. Arguments tr_val {T}. Arguments tr_delta {T}. Arguments tr_ratio {T}.
Arguments tr_grad {T}. Arguments tr_hess {T}.

(* ---------------- the rational instance ---------------- *)
Open Scope Q_scope.
(* the doubles 0.99 and 0.1 as exact rationals *)
Definition q099 : Q := 4458563631096791 # 4503599627370496.
Definition q01 : Q := 3602879701896397 # 36028797018963968.

Definition tr_state : Type := gtr_state Q.
Definition q_border (sq : Q -> Q) : vec -> vec -> Q -> Q := tr_border Q (qops sq).
Definition q_border_old (sq : Q -> Q) : vec -> vec -> Q -> Q := tr_border_old Q (qops sq).
Definition q_cg_old (sq : Q -> Q) : list vec -> vec -> Q -> Q -> tr_cg_result Q := tr_cg_old Q (qops sq) Qle_bool.
Definition q_cg (sq : Q -> Q) : list vec -> vec -> Q -> Q -> tr_cg_result Q := tr_cg Q (qops sq) Qle_bool.
Definition q_tr_init (sq : Q -> Q) (fd : vec -> Q * vec * list vec) : vec -> Q -> tr_state := tr_init Q q01 fd.
Definition q_tr_step_with (sq : Q -> Q) (f : vec -> Q) (fd : vec -> Q * vec * list vec) : Q -> vec -> tr_state -> tr_state :=
  tr_step_with Q (qops sq) Qle_bool q099 f fd.
Definition q_tr_solve (sq : Q -> Q) : tr_state -> tr_cg_result Q := tr_solve Q (qops sq) Qle_bool.
Definition q_tr_step (sq : Q -> Q) (f : vec -> Q) (fd : vec -> Q * vec * list vec) : tr_state -> tr_state :=
  tr_step Q (qops sq) Qle_bool q099 f fd.
Definition q_tr_step_old (sq : Q -> Q) (f : vec -> Q) (fd : vec -> Q * vec * list vec) : tr_state -> tr_state :=
  tr_step_old Q (qops sq) Qle_bool q099 f fd.
Definition q_tr_run (sq : Q -> Q) (f : vec -> Q) (fd : vec -> Q * vec * list vec) : nat -> tr_state -> tr_state :=
  tr_run Q (qops sq) Qle_bool q099 f fd.
Definition q_tr_run_with (sq : Q -> Q) (f : vec -> Q) (fd : vec -> Q * vec * list vec)
  : (nat -> tr_state -> Q * vec) -> nat -> tr_state -> tr_state := tr_run_with Q (qops sq) Qle_bool q099 f fd.
Definition q_tr_step_info (sq : Q -> Q) (f : vec -> Q) : tr_state -> tr_cg_result Q * Q * bool :=
  tr_step_info Q (qops sq) Qle_bool f.

(* the quadratic objective 1/2 x'Ax - b'x with its derivatives (quad_f / quad_grad of C10Model.v) *)
Definition quad_fd (A : list vec) (b : vec) (x : vec) : Q * vec * list vec := (quad_f A b x, quad_grad A b x, A).
