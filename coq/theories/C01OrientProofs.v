(* C01 - the rules of the rewrite table whose result depends on the ORIENTATION template parameter of the C++
   specialisation (vector_repeater<V, Orientation>: row_major = every ROW is v, column_major = every COLUMN is v),
   spelled out for both orientations: which index range is applied to v, how often the result is repeated, which
   orientation the result has, and the element the optimised expression denotes.  Everything is a corollary of the
   soundness theorems of C01OptProofs.v (which quantify over every expression, hence over both values of the
   orientation flag) and of the defining equations of C01Opt.v; the point of this file is to make the orientation
   dependence an explicit, separately named statement, and to refute the orientation-blind variant of the range rule
   (range of v taken from the COLUMN range, repetitions from the ROW range, for both orientations). *)
From Coq Require Import ZArith List Bool Arith Lia.
From SharkV Require Import C01Model C01Proofs C01Opt C01OptProofs.
Open Scope Z_scope.

Section Orient.
Variable s : env.

(* subrange(repeater, a,b, c,d): Orientation::index_m picks the range applied to v (row_major: the column range,
   column_major: the row range), Orientation::index_M the number of repetitions *)
Lemma opt_mrange_repeater_eq fuel cm e k a b c d :
  opt_mrange true s (S fuel) (MRepeat cm e k) a b c d =
  MRepeat cm (opt_vrange true s fuel e (if cm then a else c) (if cm then b else d)) (if cm then (d - c)%nat else (b - a)%nat).
Proof. rewrite opt_mrange_S. destruct cm; reflexivity. Qed.

Lemma opt_mrange_repeater_den fuel cm e k a b c d :
  mwf (MRange (MRepeat cm e k) a b c d) = true ->
  mrows (opt_mrange true s fuel (MRepeat cm e k) a b c d) = (b - a)%nat /\
  mcols (opt_mrange true s fuel (MRepeat cm e k) a b c d) = (d - c)%nat /\
  forall i j, (i < b - a)%nat -> (j < d - c)%nat ->
    mden s (opt_mrange true s fuel (MRepeat cm e k) a b c d) i j = vden s e (if cm then a + i else c + j)%nat.
Proof.
  intros W. destruct (opt_mrange_sound s fuel (MRepeat cm e k) a b c d W) as (_ & R & C & D).
  split; [exact R|]. split; [exact C|]. intros i j Hi Hj. rewrite (D i j Hi Hj).
  cbn [mden]. destruct cm; reflexivity.
Qed.

(* the orientation-blind rule `repeat(range(v, c, d), b - a)` with the orientation kept (the "simplification" that is
   right for row_major only): for the column-major repeater it has the transposed shape and reads v(c + i) *)
Lemma range_repeater_orientation_blind_refuted :
  exists (s0 : env) e k a b c d i j,
    mwf (MRange (MRepeat true e k) a b c d) = true /\ (i < b - a)%nat /\ (j < d - c)%nat /\
    mrows (MRepeat true (VRange e c d) (b - a)) <> mrows (MRange (MRepeat true e k) a b c d) /\
    mden s0 (MRepeat true (VRange e c d) (b - a)) i j <> mden s0 (MRange (MRepeat true e k) a b c d) i j /\
    (* ... while it IS the rule of the row-major repeater *)
    (forall fuel, opt_mrange true s0 (S fuel) (MRepeat false e k) a b c d = MRepeat false (opt_vrange true s0 fuel e c d) (b - a)).
Proof.
  exists (mkEnv (fun _ i => Z.of_nat i) (fun _ _ _ => 0)), (VVar 0 4), 3%nat, 2%nat, 4%nat, 0%nat, 1%nat, 0%nat, 0%nat.
  split; [reflexivity|]. split; [lia|]. split; [lia|]. split; [cbn; lia|]. split; [cbn; lia|].
  intros fuel. rewrite opt_mrange_S. reflexivity.
Qed.

(* rows(repeater, a, b) and row(repeater, i) *)
Lemma opt_mrows_repeater_eq fuel cm e k a b :
  opt_mrows true s (S fuel) (MRepeat cm e k) a b =
  if cm then MRepeat true (opt_vrange true s fuel e a b) k else MRepeat false e (b - a).
Proof. rewrite opt_mrows_S. destruct cm; reflexivity. Qed.

Lemma opt_mrows_repeater_den fuel cm e k a b :
  mwf (MRows (MRepeat cm e k) a b) = true ->
  mrows (opt_mrows true s fuel (MRepeat cm e k) a b) = (b - a)%nat /\
  mcols (opt_mrows true s fuel (MRepeat cm e k) a b) = (if cm then k else vsize e) /\
  forall i j, (i < b - a)%nat -> (j < (if cm then k else vsize e))%nat ->
    mden s (opt_mrows true s fuel (MRepeat cm e k) a b) i j = vden s e (if cm then a + i else j)%nat.
Proof.
  intros W. destruct (opt_mrows_sound s fuel (MRepeat cm e k) a b W) as (_ & R & C & D).
  split; [exact R|]. split; [rewrite C; reflexivity|]. intros i j Hi Hj. rewrite (D i j Hi Hj).
  cbn [mden]. destruct cm; reflexivity.
Qed.

Lemma opt_mrow_repeater_eq fuel cm e k i :
  opt_mrow true s (S fuel) (MRepeat cm e k) i = if cm then VConst k (vden s e i) else e.
Proof. rewrite opt_mrow_S. destruct cm; reflexivity. Qed.

Lemma opt_mrow_repeater_den fuel cm e k r :
  vwf (VRow (MRepeat cm e k) r) = true ->
  vsize (opt_mrow true s fuel (MRepeat cm e k) r) = (if cm then k else vsize e) /\
  forall j, (j < (if cm then k else vsize e))%nat ->
    vden s (opt_mrow true s fuel (MRepeat cm e k) r) j = vden s e (if cm then r else j).
Proof.
  intros W. destruct (opt_mrow_sound s fuel (MRepeat cm e k) r W) as (_ & Z & D).
  split; [rewrite Z; reflexivity|]. intros j Hj. rewrite (D j Hj). cbn [vden mden]. destruct cm; reflexivity.
Qed.

(* trans, diag, scalar multiple of a repeater *)
Lemma opt_mtrans_repeater_eq fuel cm e k :
  opt_mtrans true s (S fuel) (MRepeat cm e k) = MRepeat (negb cm) e k.
Proof. rewrite opt_mtrans_S. reflexivity. Qed.

Lemma opt_mscale_repeater_eq fuel cm c e k :
  opt_mscale true s (S fuel) c (MRepeat cm e k) = MRepeat cm (opt_vscale true s fuel c e) k.
Proof. rewrite opt_mscale_S. reflexivity. Qed.

Lemma opt_mdiag_repeater_den fuel cm e k :
  vwf e = true ->
  vsize (opt_mdiag true s fuel (MRepeat cm e k)) = Nat.min (vsize e) k /\
  forall i, (i < Nat.min (vsize e) k)%nat -> vden s (opt_mdiag true s fuel (MRepeat cm e k)) i = vden s e i.
Proof.
  intros W. destruct (opt_mdiag_sound s fuel (MRepeat cm e k) W) as (_ & Z & D).
  assert (E : vsize (VDiag (MRepeat cm e k)) = Nat.min (vsize e) k) by (cbn; destruct cm; lia).
  split; [congruence|]. intros i Hi. rewrite D by (rewrite E; exact Hi). cbn [vden mden]. destruct cm; reflexivity.
Qed.

(* prod(repeater, v): row_major: the constant vector of inner_prod(e, v); column_major: sum(v) * e *)
Lemma opt_mvprod_repeater_eq fuel cm e k v :
  (forall c w, v <> VScale c w) ->
  opt_mvprod true s (S fuel) (MRepeat cm e k) v = if cm then VScale (sum_at s v) e else VConst k (inner_at s e v).
Proof.
  intros N. rewrite opt_mvprod_S. destruct v; try (destruct cm; reflexivity). exfalso. eapply N. reflexivity.
Qed.

Lemma opt_mvprod_repeater_den fuel cm e k v :
  vwf (VMv 1 (MRepeat cm e k) v) = true ->
  forall i, (i < (if cm then vsize e else k))%nat ->
    vden s (opt_mvprod true s fuel (MRepeat cm e k) v) i =
    if cm then vden s e i * sumn (vsize v) (vden s v) else sumn (vsize v) (fun j => vden s e j * vden s v j).
Proof.
  intros W i Hi. destruct (opt_mvprod_sound s fuel (MRepeat cm e k) v W) as (_ & Z & D).
  rewrite D by (cbn [vsize mrows]; destruct cm; exact Hi).
  cbn [vwf mwf mcols] in W. apply andb_true_iff in W. destruct W as [_ W]. apply Nat.eqb_eq in W.
  cbn [vden mden mcols]. rewrite Z.mul_1_l. destruct cm.
  - rewrite W. rewrite sumn_scale. reflexivity.
  - rewrite W. reflexivity.
Qed.
End Orient.
