(* C16 — unshrink() as coded recomputes the gradient of every inactive variable from the linear term and ALL
   non-zero variables (sparse row entries filtered by f >= m_activeVar, row default through the inactive part
   avar[active..|P|) of every example): afterwards  gradient = linear - Q alpha  holds for ALL variables; the active
   ones are not touched; tables stay consistent with everything active. *)
From Coq Require Import QArith Qminmax Lqa Arith Bool List Lia.
From SharkV Require Import C08Model C08Defs C08Aux C08Proofs C16Model C16State C16Proofs C16ProofsMc C16StateDefs
  C16GradProofs C16TablesProofs.
Import ListNotations.
Open Scope Q_scope.

Section Loops.
Variable var : nat -> nat.
Variable actv : nat.
Variable f pf : nat.

Lemma us_entries_other : forall (es : list (nat * Q)) g def mu k,
  (forall ix v, In (ix, v) es -> var ix <> f) ->
  us_entries qops g var actv es def mu k f = g f.
Proof.
  induction es as [|[i w] t IH]; intros g def mu k H; cbn [us_entries]; [reflexivity|].
  rewrite IH by (intros ix v I; apply (H ix v); right; exact I).
  destruct (actv <=? var i)%nat; [|reflexivity].
  apply updf_neq. intro E. apply (H i w); [left; reflexivity | symmetry; exact E].
Qed.

Lemma us_entries_active : forall (es : list (nat * Q)) g def mu k, (f < actv)%nat ->
  us_entries qops g var actv es def mu k f = g f.
Proof.
  induction es as [|[i w] t IH]; intros g def mu k H; cbn [us_entries]; [reflexivity|].
  rewrite IH by exact H.
  destruct (Nat.leb_spec actv (var i)); [|reflexivity].
  apply updf_neq. lia.
Qed.

Lemma us_entries_at : forall (es : list (nat * Q)) p0 g def mu k, (actv <= f)%nat ->
  sorted_from Q p0 es ->
  (forall ix v, In (ix, v) es -> (var ix = f <-> ix = pf)) ->
  us_entries qops g var actv es def mu k f == g f - mu * (sa_lookup es def pf - def) * k.
Proof.
  induction es as [|[i w] t IH]; intros p0 g def mu k Hf S H; cbn [us_entries sa_lookup].
  - ring.
  - destruct S as [S1 S2].
    assert (Ht : forall ix v, In (ix, v) t -> (var ix = f <-> ix = pf))
      by (intros ix v I; apply (H ix v); right; exact I).
    destruct (Nat.eqb_spec i pf) as [E|N].
    + subst i.
      assert (Vf : var pf = f) by (apply (H pf w); [left; reflexivity | reflexivity]).
      rewrite (us_entries_other t).
      * rewrite Vf. destruct (Nat.leb_spec actv f); [|lia]. rewrite updf_eq.
        cbn [o_zero o_add o_sub o_mul qops]. ring.
      * intros ix v I E. apply (Ht ix v I) in E. subst ix.
        assert (G : forall (l : list (nat * Q)) q, sorted_from Q q l -> forall a b, In (a, b) l -> (q <= a)%nat).
        { induction l as [|[a0 b0] l IHl]; intros q Sq a b Ia; [destruct Ia|].
          destruct Sq as [Q1 Q2]. destruct Ia as [Ea|Ia]; [inversion Ea; subst; exact Q1|].
          specialize (IHl (S a0) Q2 a b Ia). lia. }
        specialize (G t (S pf) S2 pf v I). lia.
    + rewrite (IH (S i) _ def mu k Hf S2 Ht).
      assert (Nv : var i <> f) by (intro E; apply N; apply (H i w) in E; [exact E | left; reflexivity]).
      destruct (actv <=? var i)%nat; [|reflexivity].
      rewrite updf_neq; [reflexivity|]. intro E. apply Nv. symmetry. exact E.
Qed.

Variable avar : nat -> nat.
Variable bf : nat.

Lemma us_avar_other : forall cnt (g : nat -> Q) upd from, (forall c, (c < cnt)%nat -> avar (from + c) <> f) ->
  us_avar qops g avar upd from cnt f = g f.
Proof.
  induction cnt as [|m IH]; intros g upd from H; cbn [us_avar]; [reflexivity|].
  rewrite updf_neq by (intro E; apply (H m); [lia | symmetry; exact E]).
  apply IH. intros c Hc. apply H. lia.
Qed.

Lemma us_avar_at : forall cnt (g : nat -> Q) upd from,
  (forall c, (c < cnt)%nat -> (avar (from + c) = f <-> (from + c)%nat = bf)) ->
  us_avar qops g avar upd from cnt f == if (from <=? bf)%nat && (bf <? from + cnt)%nat then g f - upd else g f.
Proof.
  induction cnt as [|m IH]; intros g upd from H; cbn [us_avar].
  - destruct (Nat.leb_spec from bf), (Nat.ltb_spec bf (from + 0)); cbn [andb]; try lia; reflexivity.
  - assert (Hm : forall c, (c < m)%nat -> (avar (from + c) = f <-> (from + c)%nat = bf)) by (intros c Hc; apply H; lia).
    destruct (Nat.eq_dec (from + m) bf) as [E|N].
    + assert (Vf : avar (from + m) = f) by (apply (H m); [lia|exact E]).
      rewrite Vf, updf_eq. cbn [o_sub qops].
      rewrite (us_avar_other m g upd from).
      * destruct (Nat.leb_spec from bf), (Nat.ltb_spec bf (from + S m)); cbn [andb]; try lia; reflexivity.
      * intros c Hc E2. apply (Hm c Hc) in E2. lia.
    + rewrite updf_neq.
      * rewrite (IH g upd from Hm).
        destruct (Nat.leb_spec from bf), (Nat.ltb_spec bf (from + m)), (Nat.ltb_spec bf (from + S m)); cbn [andb]; try lia; reflexivity.
      * intro E. symmetry in E. apply (H m) in E; [lia|lia].
Qed.
End Loops.

Section Unshrink.
Variable P ncl n : nat.
Variable Mrow : nat -> list (nat * Q).
Variable Mdef : nat -> Q.
Variable K0 : nat -> nat -> Q.
Hypothesis HM : Mwf P Mrow.

Notation Inv_tab := (Inv_tab P n).
Notation nv := (nv P n).
Notation Qe := (Qe P ncl Mrow Mdef K0).
Notation Qalpha := (Qalpha P ncl n Mrow Mdef K0).
Notation Inv_grad := (Inv_grad P ncl n Mrow Mdef K0).
Notation Inv_grad_all := (Inv_grad_all P ncl n Mrow Mdef K0).
Notation unshrinkQ := (unshrinkQ P ncl n Mrow Mdef K0).

Lemma us_example_other (s : qmst) g r mu i a f : Inv_tab s -> (a < n)%nat -> (f < nv)%nat -> vex s f <> a ->
  us_example qops P ncl Mrow Mdef K0 s g r mu i a f = g f.
Proof.
  intros I Ha Hf N. unfold us_example.
  set (row := (ncl * r + ey s a)%nat).
  destruct (HM row) as [Hs Hp].
  assert (E1 : us_entries qops g (evar s a) (actvar s) (Mrow row) (Mdef row) mu (kpos K0 s i a) f = g f).
  { apply us_entries_other. intros ix v In1 E.
    destruct (it_var _ _ _ I a ix Ha (Hp ix v In1)) as (_ & X & _). rewrite E in X. contradiction. }
  destruct (o_eqb qops (Mdef row) (o_zero qops)); [exact E1|].
  rewrite us_avar_other; [exact E1|].
  intros c Hc E.
  assert (Hb' : (eact s a + c < P)%nat) by lia.
  destruct (it_avar _ _ _ I a _ Ha Hb') as (_ & X & _). rewrite E in X. contradiction.
Qed.

Lemma us_example_active (s : qmst) g r mu i a f : Inv_tab s -> (a < n)%nat -> (f < actvar s)%nat ->
  us_example qops P ncl Mrow Mdef K0 s g r mu i a f = g f.
Proof.
  intros I Ha Hf. unfold us_example.
  set (row := (ncl * r + ey s a)%nat).
  assert (E1 : us_entries qops g (evar s a) (actvar s) (Mrow row) (Mdef row) mu (kpos K0 s i a) f = g f)
    by (apply us_entries_active; exact Hf).
  destruct (o_eqb qops (Mdef row) (o_zero qops)); [exact E1|].
  rewrite us_avar_other; [exact E1|].
  intros c Hc E.
  assert (Hb' : (eact s a + c < P)%nat) by lia.
  assert (X : (eact s a + c < eact s a)%nat) by (apply (it_act _ _ _ I a _ Ha Hb'); rewrite E; exact Hf). lia.
Qed.

Lemma us_example_at (s : qmst) g r mu i f : Inv_tab s -> (actvar s <= f)%nat -> (f < nv)%nat ->
  us_example qops P ncl Mrow Mdef K0 s g r mu i (vex s f) f ==
  g f - mu * Mq Mrow Mdef (ncl * r + ey s (vex s f)) (vp s f) * kpos K0 s i (vex s f).
Proof.
  intros I Hf Hfn.
  destruct (it_v _ _ _ I f Hfn) as (Va & Vp & Vi & Vvar & Vavar).
  set (a := vex s f) in *.
  unfold us_example. set (row := (ncl * r + ey s a)%nat). set (k := kpos K0 s i a).
  destruct (HM row) as [Hs Hp]. unfold Mq. set (def := Mdef row).
  assert (E1 : us_entries qops g (evar s a) (actvar s) (Mrow row) def mu k f ==
               g f - mu * (sa_lookup (Mrow row) def (vp s f) - def) * k).
  { apply (us_entries_at (evar s a) (actvar s) f (vp s f) (Mrow row) 0%nat); [exact Hf | exact Hs|].
    intros ix v In1. destruct (it_var _ _ _ I a ix Va (Hp ix v In1)) as (_ & _ & X). split.
    - intro E. rewrite E in X. symmetry. exact X.
    - intro E. subst ix. exact Vvar. }
  remember (sa_lookup (Mrow row) def (vp s f)) as L eqn:EL. clear EL.
  cbn [o_zero o_eqb o_mul qops]. destruct (qeqb_spec def 0) as [[Eb Ed]|[Eb Ed]]; rewrite Eb.
  - rewrite E1. rewrite Ed. ring.
  - assert (Act : (eact s a <= vidx s f)%nat).
    { destruct (Nat.lt_ge_cases (vidx s f) (eact s a)) as [X|X]; [|exact X].
      apply (it_act _ _ _ I a (vidx s f) Va Vi) in X. rewrite Vavar in X. lia. }
    rewrite (us_avar_at f (eavar s a) (vidx s f)).
    + destruct (Nat.leb_spec (eact s a) (vidx s f)); [|lia].
      destruct (Nat.ltb_spec (vidx s f) (eact s a + (P - eact s a))); [|lia]. cbn [andb].
      rewrite E1. ring.
    + intros c Hc.
      assert (Hb' : (eact s a + c < P)%nat) by lia.
      destruct (it_avar _ _ _ I a _ Va Hb') as (_ & _ & X). split.
      * intro E. rewrite E in X. symmetry. exact X.
      * intro E. rewrite E. exact Vavar.
Qed.

Lemma us_exloop_other (s : qmst) r mu i f : Inv_tab s -> (f < nv)%nat ->
  forall m g, (m <= n)%nat -> (m <= vex s f)%nat -> us_exloop qops P ncl Mrow Mdef K0 s g r mu i m f = g f.
Proof.
  intros I Hf. induction m as [|m IH]; intros g Hm Hv; cbn [us_exloop]; [reflexivity|].
  rewrite us_example_other by (try assumption; lia). apply IH; lia.
Qed.

Lemma us_exloop_active (s : qmst) r mu i f : Inv_tab s -> (f < actvar s)%nat ->
  forall m g, (m <= n)%nat -> us_exloop qops P ncl Mrow Mdef K0 s g r mu i m f = g f.
Proof.
  intros I Hf. induction m as [|m IH]; intros g Hm; cbn [us_exloop]; [reflexivity|].
  rewrite us_example_active by (try assumption; lia). apply IH; lia.
Qed.

Lemma us_exloop_at (s : qmst) r mu i f : Inv_tab s -> (actvar s <= f)%nat -> (f < nv)%nat ->
  forall m g, (m <= n)%nat -> (vex s f < m)%nat ->
  us_exloop qops P ncl Mrow Mdef K0 s g r mu i m f ==
  g f - mu * Mq Mrow Mdef (ncl * r + ey s (vex s f)) (vp s f) * kpos K0 s i (vex s f).
Proof.
  intros I Hf Hfn.
  induction m as [|m IH]; intros g Hm Hv; [lia|]. cbn [us_exloop].
  destruct (Nat.eq_dec (vex s f) m) as [E|N].
  - rewrite <- E at 2. rewrite us_example_at by assumption.
    rewrite (us_exloop_other s r mu i f I Hfn m g) by lia. reflexivity.
  - rewrite us_example_other by (try assumption; lia). apply IH; lia.
Qed.

Lemma us_varloop_active (s : qmst) f : Inv_tab s -> (f < actvar s)%nat ->
  forall m g, us_varloop qops P ncl n Mrow Mdef K0 s g m f = g f.
Proof.
  intros I Hf. induction m as [|m IH]; intros g; cbn [us_varloop]; [reflexivity|].
  destruct (o_eqb qops (malpha s m) (o_zero qops)); [apply IH|].
  rewrite us_exloop_active by (try assumption; lia). apply IH.
Qed.

Lemma us_varloop_at (s : qmst) f : Inv_tab s -> (actvar s <= f)%nat -> (f < nv)%nat ->
  forall m g, (m <= nv)%nat ->
  us_varloop qops P ncl n Mrow Mdef K0 s g m f == g f - sumn m (fun v => Qe s v f * malpha s v).
Proof.
  intros I Hf Hfn.
  destruct (it_v _ _ _ I f Hfn) as (Va & _).
  induction m as [|m IH]; intros g Hm; cbn [us_varloop sumn]; [ring|].
  cbn [o_eqb o_zero qops]. destruct (qeqb_spec (malpha s m) 0) as [[Eb Ed]|[Eb Ed]]; rewrite Eb.
  - rewrite IH by lia. rewrite Ed. ring.
  - rewrite us_exloop_at by (try assumption; lia). rewrite IH by lia.
    unfold Qe, Mfour, kpos. ring.
Qed.

Lemma unshrink_fields (s : qmst) : actvar s <> nv ->
  malpha (unshrinkQ s) = malpha s /\ mlin (unshrinkQ s) = mlin s /\ vex (unshrinkQ s) = vex s /\ vp (unshrinkQ s) = vp s /\
  vidx (unshrinkQ s) = vidx s /\ vdiag (unshrinkQ s) = vdiag s /\ eorig (unshrinkQ s) = eorig s /\ ey (unshrinkQ s) = ey s /\
  evar (unshrinkQ s) = evar s /\ eavar (unshrinkQ s) = eavar s /\ evsum (unshrinkQ s) = evsum s /\ ediag (unshrinkQ s) = ediag s /\
  actex (unshrinkQ s) = n /\ actvar (unshrinkQ s) = nv /\ munshr (unshrinkQ s) = munshr s /\
  (forall e, (e < n)%nat -> eact (unshrinkQ s) e = P).
Proof.
  intros N. unfold unshrinkQ, unshrink, nvar. fold nv. destruct (Nat.eqb_spec (actvar s) nv) as [E|_]; [contradiction|].
  cbn [malpha mlin vex vp vidx vdiag eorig ey evar eavar evsum ediag actex actvar munshr eact]. repeat split.
  intros e He. destruct (Nat.ltb_spec e n); [reflexivity|lia].
Qed.

Lemma unshrink_id (s : qmst) : actvar s = nv -> unshrinkQ s = s.
Proof.
  intros E. unfold unshrinkQ, unshrink, nvar. fold nv. destruct (Nat.eqb_spec (actvar s) nv); [reflexivity|contradiction].
Qed.

Lemma Qe_unshrink (s : qmst) a b : Qe (unshrinkQ s) a b = Qe s a b.
Proof.
  destruct (Nat.eq_dec (actvar s) nv) as [E|N]; [rewrite (unshrink_id s E); reflexivity|].
  destruct (unshrink_fields s N) as (_ & _ & F3 & F4 & _ & _ & F7 & F8 & _).
  unfold Qe. rewrite F3, F4, F7, F8. reflexivity.
Qed.

(* the recomputed gradient *)
Lemma unshrink_grad_value (s : qmst) f : Inv_tab s -> actvar s <> nv -> (f < nv)%nat ->
  mgrad (unshrinkQ s) f == if (f <? actvar s)%nat then mgrad s f else mlin s f - Qalpha s f.
Proof.
  intros I N Hf. unfold unshrinkQ, unshrink, nvar. fold nv. destruct (Nat.eqb_spec (actvar s) nv) as [E|_]; [contradiction|].
  cbn [mgrad].
  destruct (Nat.ltb_spec f (actvar s)) as [L|L].
  - rewrite us_varloop_active by assumption.
    destruct (Nat.leb_spec (actvar s) f); [lia|]. reflexivity.
  - rewrite us_varloop_at by (try assumption; lia).
    destruct (Nat.leb_spec (actvar s) f); [|lia]. destruct (Nat.ltb_spec f nv); [|lia]. cbn [andb].
    unfold C16StateDefs.Qalpha. reflexivity.
Qed.

Theorem unshrink_grad_all (s : qmst) : Inv_tab s -> Inv_grad s -> Inv_grad_all (unshrinkQ s).
Proof.
  intros I G f Hf.
  destruct (Nat.eq_dec (actvar s) nv) as [E|N].
  - rewrite (unshrink_id s E). apply G. rewrite E. exact Hf.
  - assert (QA : Qalpha (unshrinkQ s) f == Qalpha s f).
    { unfold C16StateDefs.Qalpha. apply sumn_ext. intros w _. rewrite Qe_unshrink.
      destruct (unshrink_fields s N) as (F1 & _). rewrite F1. reflexivity. }
    rewrite QA. rewrite (unshrink_grad_value s f I N Hf).
    destruct (unshrink_fields s N) as (_ & F2 & _). rewrite F2.
    destruct (Nat.ltb_spec f (actvar s)) as [L|L]; [apply G; exact L | reflexivity].
Qed.

(* active gradient entries are not touched (bitwise: Leibniz equality) *)
Lemma unshrink_grad_active (s : qmst) f : Inv_tab s -> (f < actvar s)%nat -> mgrad (unshrinkQ s) f = mgrad s f.
Proof.
  intros I Hf. unfold unshrinkQ, unshrink, nvar. fold nv. destruct (Nat.eqb_spec (actvar s) nv) as [E|_]; [reflexivity|].
  cbn [mgrad]. rewrite us_varloop_active by assumption.
  destruct (Nat.leb_spec (actvar s) f); [lia|]. reflexivity.
Qed.

Theorem unshrink_tab (s : qmst) : Inv_tab s -> Inv_tab (unshrinkQ s).
Proof.
  intros I. destruct (Nat.eq_dec (actvar s) nv) as [E|N]; [rewrite (unshrink_id s E); exact I|].
  destruct (unshrink_fields s N) as (F1 & F2 & F3 & F4 & F5 & F6 & F7 & F8 & F9 & F10 & F11 & F12 & F13 & F14 & F15 & F16).
  constructor.
  - rewrite F14. lia.
  - rewrite F13. lia.
  - rewrite F9, F3, F4. apply (it_var _ _ _ I).
  - rewrite F3, F4, F5, F9, F10. apply (it_v _ _ _ I).
  - rewrite F10, F3, F5. apply (it_avar _ _ _ I).
  - intros e b He Hb. rewrite (F16 e He), F10, F14. destruct (it_avar _ _ _ I e b He Hb) as (X & _). split; intros; assumption.
  - intros e He. rewrite (F16 e He). lia.
  - intros v Hv. rewrite F14 in Hv. rewrite F3, F13. apply (it_v _ _ _ I v Hv).
  - rewrite F7. apply (it_orig _ _ _ I).
  - rewrite F7. apply (it_orig_inj _ _ _ I).
Qed.

End Unshrink.
