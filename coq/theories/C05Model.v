(* C05 — executable model of Shark's kernel functions (include/shark/Models/Kernels/*.h) and of the
   block-wise Gram assembly (KernelHelpers.h calculateRegularizedKernelMatrix, LinAlg/KernelMatrix.h).
   Definitions only.  Everything is written once over an abstract carrier A with its operations as
   Section variables: the OCaml driver instantiates them with Coq's own exact Q operations (extracted)
   and with OCaml floats; the proofs (C05Proofs.v) instantiate them with any ordered field.

   Two views of every kernel, as in the C++:
     * the single-element function  k : X -> X -> A            (eval(x1,x2))
     * the batch function           bk : list X -> list X -> mat (eval(batchX1,batchX2,result[,state]))
       written with the matrix-level operations the code uses (inner-product matrix, += offset,
       element-wise pow, weighted sums of result matrices, /= weightsum, element-wise products,
       column sub-ranges, outer-product normaliser built from 1-element batches).
   mk k X1 X2 is "the matrix of single evaluations"; C05Proofs shows bk = mk k for the whole family. *)
From Coq Require Import List Arith Bool.
From SharkV Require Import C03Model.
Import ListNotations.

Section Model.
Variable A : Type.
Variables (zero one : A) (add mul sub div : A -> A -> A) (opp sqrtA expA : A -> A).

Definition vec := list A.
Definition mat := list (list A).
Definition two : A := add one one.

Definition lsum (l : list A) : A := fold_right add zero l.

(* inner_prod(x1,x2) *)
Fixpoint dot (x z : vec) : A :=
  match x, z with
  | a :: x', b :: z' => add (mul a b) (dot x' z')
  | _, _ => zero
  end.

Fixpoint pow (b : A) (n : nat) : A :=
  match n with 0 => one | S m => mul b (pow b m) end.

(* distanceSqr(x1,x2) *)
Fixpoint distsq (x z : vec) : A :=
  match x, z with
  | a :: x', b :: z' => add (mul (sub a b) (sub a b)) (distsq x' z')
  | _, _ => zero
  end.

(* diagonalMahalanobisDistanceSqr(x1,x2,gammas) *)
Fixpoint wdistsq (g x z : vec) : A :=
  match g, x, z with
  | c :: g', a :: x', b :: z' => add (mul c (mul (sub a b) (sub a b))) (wdistsq g' x' z')
  | _, _, _ => zero
  end.

(* blas::subrange(x,a,b) / columns(batch,a,b) *)
Definition subvec (a b : nat) (x : vec) : vec := firstn (b - a) (skipn a x).

(* ---------------- single-element kernels on vectors ---------------- *)
Definition k_lin : vec -> vec -> A := dot.
Definition k_poly (d : nat) (c : A) : vec -> vec -> A := fun x z => pow (add (dot x z) c) d.
Definition k_mono (d : nat) : vec -> vec -> A := fun x z => pow (dot x z) d.
Definition k_gauss (g : A) : vec -> vec -> A := fun x z => expA (mul (opp g) (distsq x z)).
Definition k_ard (gs : vec) : vec -> vec -> A := fun x z => expA (opp (wdistsq gs x z)).

(* DiscreteKernel: inputs are indices into a table *)
Definition k_disc (tbl : mat) : nat -> nat -> A := fun i j => nth j (nth i tbl []) zero.

(* ---------------- combinators, generic in the input type ---------------- *)
Section Comb.
Variable X : Type.
Definition kernel := X -> X -> A.

Definition k_const (c : A) : kernel := fun _ _ => c.
Definition k_add (k1 k2 : kernel) : kernel := fun x z => add (k1 x z) (k2 x z).
Definition k_mul (k1 k2 : kernel) : kernel := fun x z => mul (k1 x z) (k2 x z).
Definition k_pow (k : kernel) (d : nat) : kernel := fun x z => pow (k x z) d.

(* ScaledKernel *)
Definition k_scaled (f : A) (k : kernel) : kernel := fun x z => mul f (k x z).

(* WeightedSumKernel: sum_i w_i k_i(x,z) / sum_i w_i *)
Fixpoint wsum_num (wks : list (A * kernel)) (x z : X) : A :=
  match wks with
  | [] => zero
  | wk :: r => add (mul (fst wk) (snd wk x z)) (wsum_num r x z)
  end.
Definition wsum_den (wks : list (A * kernel)) : A := lsum (map fst wks).
Definition k_wsum (wks : list (A * kernel)) : kernel :=
  fun x z => div (wsum_num wks x z) (wsum_den wks).

(* ProductKernel *)
Fixpoint k_prod (ks : list kernel) (x z : X) : A :=
  match ks with
  | [] => one
  | k :: r => mul (k x z) (k_prod r x z)
  end.

(* NormalizedKernel::eval(x1,x2): val /= sqrt(k(x1,x1)); val /= sqrt(k(x2,x2)) *)
Definition k_norm (k : kernel) : kernel :=
  fun x z => div (div (k x z) (sqrtA (k x x))) (sqrtA (k z z)).

(* AbstractKernelFunction::featureDistanceSqr(x1,x2) *)
Definition feat_dist (normalized : bool) (k : kernel) (x z : X) : A :=
  if normalized then sub two (mul two (k x z))
  else add (sub (k x x) (mul two (k x z))) (k z z).

(* ---------------- batch evaluation ---------------- *)
Definition mk (k : kernel) (X1 X2 : list X) : mat := map (fun x => map (fun z => k x z) X2) X1.
Definition bkernel := list X -> list X -> mat.

Definition mmap (f : A -> A) (M : mat) : mat := map (map f) M.
Fixpoint zipw (f : A -> A -> A) (u v : list A) : list A :=
  match u, v with
  | a :: u', b :: v' => f a b :: zipw f u' v'
  | _, _ => []
  end.
Fixpoint mzip (f : A -> A -> A) (M N : mat) : mat :=
  match M, N with
  | r :: M', s :: N' => zipw f r s :: mzip f M' N'
  | _, _ => []
  end.
Definition entry00 (M : mat) : A := nth 0 (nth 0 M []) zero.

(* AbstractKernelFunction::eval(x1,x2) default: two 1-element batches, res(0,0) *)
Definition single_via_batch (bk : bkernel) : kernel := fun x z => entry00 (bk [x] [z]).

Definition b_scaled (f : A) (bk : bkernel) : bkernel := fun X1 X2 => mmap (fun v => mul v f) (bk X1 X2).

(* result.clear(); for i: result += w_i * kernelResult_i; result /= weightsum *)
Fixpoint bwsum_num (wbs : list (A * bkernel)) (X1 X2 : list X) : mat :=
  match wbs with
  | [] => mk (k_const zero) X1 X2
  | wb :: r => mzip add (mmap (mul (fst wb)) (snd wb X1 X2)) (bwsum_num r X1 X2)
  end.
Definition b_wsum (wbs : list (A * bkernel)) : bkernel :=
  fun X1 X2 => mmap (fun v => div v (lsum (map fst wbs))) (bwsum_num wbs X1 X2).

(* result = k_0(X1,X2); for i>0: result *= k_i(X1,X2) (element-wise) *)
Fixpoint b_prod (bs : list bkernel) (X1 X2 : list X) : mat :=
  match bs with
  | [] => mk (k_const one) X1 X2
  | b :: r => mzip mul (b X1 X2) (b_prod r X1 X2)
  end.

(* NormalizedKernel::eval(batchX1,batchX2,result,state):
   kxx_i, kyy_j from 1-element batches; result = kxy / outer_prod(sqrt(kxx),sqrt(kyy)) *)
Definition b_norm (bk : bkernel) : bkernel :=
  fun X1 X2 =>
    let kxx := map (fun x => sqrtA (entry00 (bk [x] [x]))) X1 in
    let kyy := map (fun z => sqrtA (entry00 (bk [z] [z]))) X2 in
    mzip (fun v d => div v d) (bk X1 X2) (map (fun sx => map (fun sz => mul sx sz) kyy) kxx).

(* ---------------- Gram assembly over a batched dataset ---------------- *)
Fixpoint hcat (M N : mat) : mat :=
  match M, N with
  | r :: M', s :: N' => (r ++ s) :: hcat M' N'
  | _, _ => []
  end.
(* all blocks kernel(batch_i, batch_j), j = 0..B-1, written side by side *)
Definition row_block (bk : bkernel) (bi : list X) (d : list (list X)) : mat :=
  fold_right (fun bj acc => hcat (bk bi bj) acc) (map (fun _ => []) bi) d.
Definition gram_blocks (bk : bkernel) (d : list (list X)) : mat :=
  concat (map (fun bi => row_block bk bi d) d).

Fixpoint add_diag_from (i : nat) (r : A) (M : mat) : mat :=
  match M with
  | [] => []
  | row :: M' =>
    (firstn i row ++ match skipn i row with [] => [] | v :: t => add v r :: t end) :: add_diag_from (S i) r M'
  end.
(* calculateRegularizedKernelMatrix(kernel, dataset, regularizer) *)
Definition gram_reg (bk : bkernel) (r : A) (d : list (list X)) : mat :=
  add_diag_from 0 r (gram_blocks bk d).
(* the Gram matrix of a list of points *)
Definition gram (k : kernel) (xs : list X) : mat := mk k xs xs.

(* quadratic form sum_ij c_i c_j k(x_i,x_j) of weighted points (c_i, x_i) *)
Definition qform (k : kernel) (pts : list (A * X)) : A :=
  lsum (map (fun p => lsum (map (fun q => mul (mul (fst p) (fst q)) (k (snd p) (snd q))) pts)) pts).

End Comb.

(* ModelKernel / SubrangeKernelWrapper: evaluate the kernel on transformed inputs *)
Definition k_pull {X Y : Type} (f : X -> Y) (k : Y -> Y -> A) : X -> X -> A := fun x z => k (f x) (f z).
Definition b_pull {X Y : Type} (f : X -> Y) (bk : list Y -> list Y -> mat) : list X -> list X -> mat :=
  fun X1 X2 => bk (map f X1) (map f X2).
Definition k_sub (a b : nat) (k : vec -> vec -> A) : vec -> vec -> A := k_pull (subvec a b) k.
Definition b_sub (a b : nat) (bk : list vec -> list vec -> mat) : list vec -> list vec -> mat := b_pull (subvec a b) bk.

(* ---------------- batch paths of the vector kernels ---------------- *)
(* prod(batchX1, trans(batchX2)): entry (i,j) is the inner product of row i and row j *)
Definition b_lin : list vec -> list vec -> mat := fun X1 X2 => map (fun x => map (fun z => dot x z) X2) X1.
(* result = prod; result += offset; if(degree != 1) result = pow(result,degree) *)
Definition b_poly (d : nat) (c : A) : list vec -> list vec -> mat :=
  fun X1 X2 =>
    let R := mmap (fun v => add v c) (b_lin X1 X2) in
    if d =? 1 then R else mmap (fun v => pow v d) R.
Definition b_mono (d : nat) : list vec -> list vec -> mat :=
  fun X1 X2 => if d =? 1 then b_lin X1 X2 else mmap (fun v => pow v d) (b_lin X1 X2).
(* result = distanceSqr(X1,X2); result = exp(-gamma*result) *)
Definition b_gauss (g : A) : list vec -> list vec -> mat :=
  fun X1 X2 => mmap (fun v => expA (mul (opp g) v)) (map (fun x => map (fun z => distsq x z) X2) X1).
(* double loop over diagonalMahalanobisDistanceSqr(row i, row j, gammas) *)
Definition b_ard (gs : vec) : list vec -> list vec -> mat :=
  fun X1 X2 => map (fun x => map (fun z => expA (opp (wdistsq gs x z))) X2) X1.
(* DiscreteKernel batch: result(i,j) = table(x1[i], x2[j])  (the documented meaning) *)
Definition b_disc (tbl : mat) : list nat -> list nat -> mat := mk nat (k_disc tbl).

(* LinearModel used inside a ModelKernel: x |-> W x + b *)
Definition linmap (W : mat) (b : vec) (x : vec) : vec := zipw add (map (fun r => dot r x) W) b.


Fixpoint ofnat (n : nat) : A := match n with 0 => zero | S m => add one (ofnat m) end.

(* PointSetKernel: mean of the base kernel over all pairs of points of the two sets *)
Definition k_pset (k : vec -> vec -> A) : list vec -> list vec -> A :=
  fun P Q => div (lsum (map (fun x => lsum (map (fun z => k x z) Q)) P)) (mul (ofnat (length P)) (ofnat (length Q))).

(* ---------------- coded derivatives (per pair of points; the batch routines sum them with the coefficients) ----------------
   g_* : gradient of k(x,z) with respect to x as the weightedInputDerivative routines compute it,
   p_* : derivative with respect to the kernel parameter as weightedParameterDerivative computes it. *)
Variable isz : A -> bool.      (* test against zero (safe_div) *)
(* remora safe_div(a,b,0) *)
Definition safe_div (a b : A) : A := if isz b then zero else div a b.
Definition vscale (a : A) (v : vec) : vec := map (mul a) v.
Definition vadd (u v : vec) : vec := zipw add u v.
Definition vsum (n : nat) (vs : list vec) : vec := fold_right vadd (repeat zero n) vs.

Definition g_lin : vec -> vec -> vec := fun x z => z.
(* degree 1: prod(coefficients, X2); else degree * prod(coefficients * safe_div(base^d, base, 0), X2) *)
Definition g_poly (d : nat) (c : A) : vec -> vec -> vec := fun x z =>
  if d =? 1 then z else vscale (mul (ofnat d) (safe_div (pow (add (dot x z) c) d) (add (dot x z) c))) z.
(* MonomialKernel: degree-1 short cut as in PolynomialKernel (since /repo commit 114dbcf3; before, the value at
   <x,z> = 0 was safe_div(0,0,0) = 0 instead of 1) *)
Definition g_mono (d : nat) : vec -> vec -> vec := fun x z =>
  if d =? 1 then z else vscale (mul (ofnat d) (safe_div (pow (dot x z) d) (dot x z))) z.
(* the gradient as coded before the repair, kept for the regression theorem *)
Definition g_mono_old (d : nat) : vec -> vec -> vec := fun x z =>
  vscale (mul (ofnat d) (safe_div (pow (dot x z) d) (dot x z))) z.
(* 2 gamma (sum_j W_ij z_j - (sum_j W_ij) x_i) with W = coefficients * expNorm, written per pair *)
Definition g_gauss (g : A) : vec -> vec -> vec := fun x z =>
  vscale (mul (mul two g) (k_gauss g x z)) (zipw sub z x).
(* -2 * coeff * kxy * gammas * (x - z) *)
Definition g_ard (gs : vec) : vec -> vec -> vec := fun x z =>
  vscale (mul (opp two) (k_ard gs x z)) (zipw mul gs (zipw sub x z)).
Definition g_scaled (f : A) (g : vec -> vec -> vec) : vec -> vec -> vec := fun x z => vscale f (g x z).
(* sum_k (w_k / weightsum) * grad_k *)
Definition g_wsum (n : nat) (wgs : list (A * (vec -> vec -> vec))) : vec -> vec -> vec := fun x z =>
  vsum n (map (fun wg => vscale (div (fst wg) (lsum (map fst wgs))) (snd wg x z)) wgs).
(* SubrangeKernelWrapper: the gradient of the inner kernel written into columns [a,b) of a zero row *)
Definition g_sub (n a b : nat) (g : vec -> vec -> vec) : vec -> vec -> vec := fun x z =>
  repeat zero a ++ g (subvec a b x) (subvec a b z) ++ repeat zero (n - b).

(* weightedInputDerivative: row i = sum_j c_ij * grad(x_i, z_j) *)
Definition wid (n : nat) (g : vec -> vec -> vec) (C : mat) (X1 X2 : list vec) : mat :=
  map (fun xc => vsum n (map (fun cz => vscale (fst cz) (g (fst xc) (snd cz))) (combine (snd xc) X2))) (combine X1 C).

(* offset parameter of PolynomialKernel (degree not a parameter, constrained encoding) *)
Definition p_poly (d : nat) (c : A) : vec -> vec -> A := fun x z =>
  if d =? 1 then one else mul (ofnat d) (safe_div (pow (add (dot x z) c) d) (add (dot x z) c)).
(* gamma of GaussianRbfKernel (constrained encoding): - expNorm * norm2 *)
Definition p_gauss (g : A) : vec -> vec -> A := fun x z => opp (mul (k_gauss g x z) (distsq x z)).
(* weightedParameterDerivative of a one-parameter kernel: sum_ij c_ij * dk(x_i,z_j) *)
Definition wpd (p : vec -> vec -> A) (C : mat) (X1 X2 : list vec) : A :=
  lsum (map (fun xc => lsum (map (fun cz => mul (fst cz) (p (fst xc) (snd cz))) (combine (snd xc) X2))) (combine X1 C)).
(* the weighted sum of kernel values that the derivatives differentiate *)
Definition wsumk {X : Type} (k : X -> X -> A) (C : mat) (X1 X2 : list X) : A :=
  lsum (map (fun xc => lsum (map (fun cz => mul (fst cz) (k (fst xc) (snd cz))) (combine (snd xc) X2))) (combine X1 C)).

(* ---------------- coded derivatives, second part: parameter VECTORS and the composed kernels ----------------
   pv_* : gradient of k(x,z) with respect to the kernel's whole parameter vector (in the order of parameterVector()),
   per pair of points; weightedParameterDerivative = wpdv = sum_ij c_ij * pv(x_i, z_j). *)
Definition p_one (p : vec -> vec -> A) : vec -> vec -> vec := fun x z => [p x z].
Definition p_none : vec -> vec -> vec := fun _ _ => [].
(* ARDKernelUnconstrained: gradient -= coeff * kxy * gammas * sqr(x - z)   (parameters log gamma_i) *)
Definition p_ard (gs : vec) : vec -> vec -> vec := fun x z =>
  vscale (opp (k_ard gs x z)) (zipw mul gs (zipw (fun a b => mul (sub a b) (sub a b)) x z)).
(* NormalizedKernel::weightedInputDerivative: weights = c / outer_prod(sqrt(kxx),sqrt(kyy)) (since /repo commit 65eec74d; before,
   c / sqrt(outer_prod(kxx,kyy)), whose product overflows / underflows in floating point although the factors, the normalised
   value and the gradient are representable - found by the magnitude stream of tools/c05.py); base gradient with these weights;
   row i -= (sum_j weights_ij * kxy_ij / kxx_i) * base gradient of k(x_i,x_i) w.r.t. its first argument *)
Definition g_norm (k : vec -> vec -> A) (g : vec -> vec -> vec) : vec -> vec -> vec := fun x z =>
  let w := div one (mul (sqrtA (k x x)) (sqrtA (k z z))) in
  vadd (vscale w (g x z)) (vscale (opp (div (mul w (k x z)) (k x x))) (g x x)).
(* NormalizedKernel::weightedParameterDerivative: same weights; minus wx_i = sum_j weights*kxy/(2 kxx_i) times the base
   parameter gradient at (x_i,x_i), minus wy_j = sum_i weights*kxy/(2 kyy_j) times the one at (z_j,z_j) *)
Definition p_norm (k : vec -> vec -> A) (p : vec -> vec -> vec) : vec -> vec -> vec := fun x z =>
  let w := div one (mul (sqrtA (k x x)) (sqrtA (k z z))) in
  vadd (vadd (vscale w (p x z))
             (vscale (opp (div (mul w (k x z)) (mul two (k x x)))) (p x x)))
       (vscale (opp (div (mul w (k x z)) (mul two (k z z)))) (p z z)).
(* WeightedSumKernel::weightedParameterDerivative (all sub-kernels adaptive): for the log-weights of kernels 2..n
   weight_i * (k_i * weightsum - numerator) / weightsum^2 (numerator = s.result = sum_j weight_j k_j), then the
   sub-kernels' parameter gradients scaled by weight_i / weightsum, stacked in order *)
Definition p_wsum (wkps : list (A * ((vec -> vec -> A) * (vec -> vec -> vec)))) : vec -> vec -> vec := fun x z =>
  let W := lsum (map fst wkps) in
  let N := lsum (map (fun t => mul (fst t) (fst (snd t) x z)) wkps) in
  map (fun t => div (mul (fst t) (sub (mul (fst (snd t) x z) W) N)) (mul W W)) (tl wkps)
  ++ concat (map (fun t => vscale (div (fst t) W) (snd (snd t) x z)) wkps).
(* SubrangeKernelWrapper::weightedParameterDerivative: the inner kernel's on the column sub-ranges *)
Definition v_pull {X Y : Type} (f : X -> Y) (p : Y -> Y -> vec) : X -> X -> vec := fun x z => p (f x) (f z).
Definition p_sub (a b : nat) (p : vec -> vec -> vec) : vec -> vec -> vec := v_pull (subvec a b) p.
(* LinearModel::weightedParameterDerivative for one pattern x and one coefficient row delta:
   trans(delta) % x written row by row, then (offset) delta *)
Definition lm_pgrad (delta x : vec) : vec := concat (map (fun d => vscale d x) delta) ++ delta.
(* ModelKernel::weightedParameterDerivative with a LinearModel x |-> W x + b:
   kernel parameters | model gradient at x with the kernel's input gradient at (f x, f z) + the same at z with (f z, f x) *)
Definition p_model (W : mat) (b : vec) (g p : vec -> vec -> vec) : vec -> vec -> vec := fun x z =>
  let fx := linmap W b x in let fz := linmap W b z in
  p fx fz ++ vadd (lm_pgrad (g fx fz) x) (lm_pgrad (g fz fx) z).
(* weightedParameterDerivative of a kernel with m parameters: sum_ij c_ij * pv(x_i,z_j) *)
Definition wpdv (m : nat) (p : vec -> vec -> vec) (C : mat) (X1 X2 : list vec) : vec :=
  vsum m (map (fun xc => vsum m (map (fun cz => vscale (fst cz) (p (fst xc) (snd cz))) (combine (snd xc) X2))) (combine X1 C)).

End Model.

(* the dataset of C03 is a list of batches; its element list is C03Model.elems *)
Definition gram_of_data {A X : Type} (k : X -> X -> A) (d : @data X) : list (list A) :=
  mk A X k (elems d) (elems d).

(* ---------------- the exact instantiation handed to the extracted driver: canonical rationals ---------------- *)
From Coq Require Import QArith Qcanon.
Definition qc_make (num : Z) (den : positive) : Qc := Q2Qc (Qmake num den).
Definition qc_num (x : Qc) : Z := Qnum (this x).
Definition qc_den (x : Qc) : positive := Qden (this x).
Definition qc_isz (x : Qc) : bool := if Qc_eq_dec x (Q2Qc 0) then true else false.
