(* C13 — auxiliary facts for the DC sort proofs: maxima over filtered index lists, the map T,
   the median, lexicographic order / std::sort / std::unique / std::lower_bound. *)
From Coq Require Import List ZArith Lia Bool Arith Permutation Sorted.
From SharkV Require Import ListAux C13Model C13Proofs C13ProofsContrib C13HsspFrontProofs C13Dc.
Import ListNotations.

(* ---------------------------------------------------------------------------------------- *)
(* list_max by characterisation *)
Lemma list_max_char l v : (forall x, In x l -> x <= v) -> (v = 0 \/ In v l) -> list_max l = v.
Proof.
  intros Hub Hatt. apply Nat.le_antisymm.
  - apply list_max_le. apply Forall_forall. exact Hub.
  - destruct Hatt as [->|Hin]; [lia|]. apply list_max_ge; auto.
Qed.

Lemma list_max_zero_or_in l : list_max l = 0 \/ In (list_max l) l.
Proof. destruct l as [|a t]; [now left|]. right. apply list_max_attained. discriminate. Qed.

Definition mxf (g : nat -> nat) (p : nat -> bool) (X : list nat) : nat := list_max (map g (filter p X)).

Lemma mxf_ge g p X x : In x X -> p x = true -> g x <= mxf g p X.
Proof. intros H1 H2. apply list_max_ge. apply in_map. apply filter_In; auto. Qed.

Lemma mxf_att g p X : mxf g p X = 0 \/ exists x, In x X /\ p x = true /\ g x = mxf g p X.
Proof.
  unfold mxf. destruct (list_max_zero_or_in (map g (filter p X))) as [H|H]; [now left|right].
  apply in_map_iff in H. destruct H as [x [Hx Hin]]. apply filter_In in Hin. exists x. tauto.
Qed.

Lemma mxf_char g p X v :
  (forall x, In x X -> p x = true -> g x <= v) ->
  (v = 0 \/ exists x, In x X /\ p x = true /\ g x = v) -> mxf g p X = v.
Proof.
  intros Hub Hatt. apply list_max_char.
  - intros y Hy. apply in_map_iff in Hy. destruct Hy as [x [<- Hx]]. apply filter_In in Hx. apply Hub; tauto.
  - destruct Hatt as [->|[x [H1 [H2 H3]]]]; [now left|right]. subst v. apply in_map. apply filter_In; auto.
Qed.

Lemma mxf_ext g g' p p' X X' :
  (forall x, In x X /\ p x = true <-> In x X' /\ p' x = true) ->
  (forall x, In x X -> p x = true -> g x = g' x) -> mxf g p X = mxf g' p' X'.
Proof.
  intros HS HG. apply mxf_char.
  - intros x Hx Hp. rewrite (HG x Hx Hp). apply mxf_ge; apply HS; auto.
  - destruct (mxf_att g' p' X') as [H|[x [H1 [H2 H3]]]]; [now left|right].
    exists x. destruct (proj2 (HS x) (conj H1 H2)) as [H4 H5]. split; auto. split; auto. rewrite HG; auto.
Qed.

Lemma mxf_union g p X X1 X2 :
  (forall x, In x X <-> In x X1 \/ In x X2) -> mxf g p X = Nat.max (mxf g p X1) (mxf g p X2).
Proof.
  intros HS. apply mxf_char.
  - intros x Hx Hp. apply HS in Hx. destruct Hx as [Hx|Hx].
    + pose proof (mxf_ge g p X1 x Hx Hp). lia.
    + pose proof (mxf_ge g p X2 x Hx Hp). lia.
  - destruct (mxf_att g p X1) as [H1|[x1 [A1 [B1 C1]]]], (mxf_att g p X2) as [H2|[x2 [A2 [B2 C2]]]].
    + left. lia.
    + right. exists x2. split; [apply HS; auto|]. split; auto. lia.
    + right. exists x1. split; [apply HS; auto|]. split; auto. lia.
    + right. destruct (Nat.le_ge_cases (mxf g p X1) (mxf g p X2)).
      * exists x2. split; [apply HS; auto|]. split; auto. lia.
      * exists x1. split; [apply HS; auto|]. split; auto. lia.
Qed.

Lemma mxf_none g p X : (forall x, In x X -> p x = false) -> mxf g p X = 0.
Proof.
  intros H. apply mxf_char; [|now left]. intros x Hx Hp. rewrite (H x Hx) in Hp. discriminate.
Qed.

Lemma mxf_nil g p : mxf g p [] = 0.
Proof. reflexivity. Qed.

(* the coded update "if (r > 0) frt = max(frt, r + 1)" with r = max of the front indices *)
Lemma mxf_succ g p X :
  (forall x, In x X -> p x = true -> 1 <= g x) ->
  mxf (fun x => g x + 1) p X = if 0 <? mxf g p X then mxf g p X + 1 else 0.
Proof.
  intros Hpos. destruct (mxf_att g p X) as [H0|[x [A [B C]]]].
  - rewrite H0. cbn. apply mxf_none. intros x Hx. destruct (p x) eqn:E; auto.
    pose proof (Hpos x Hx E). pose proof (mxf_ge g p X x Hx E). lia.
  - pose proof (Hpos x A B). destruct (Nat.ltb_spec 0 (mxf g p X)); [|lia].
    apply mxf_char.
    + intros y Hy Hp. pose proof (mxf_ge g p X y Hy Hp). lia.
    + right. exists x. repeat split; auto; lia.
Qed.

Lemma raise_if_max (fx r : nat) :
  (if 0 <? r then Nat.max fx (r + 1) else fx) = Nat.max fx (if 0 <? r then r + 1 else 0).
Proof. destruct (0 <? r); lia. Qed.

(* ---------------------------------------------------------------------------------------- *)
(* filters *)
Lemma filter_negb_length {A} (p : A -> bool) l :
  length (filter p l) + length (filter (fun x => negb (p x)) l) = length l.
Proof. induction l as [|a l IH]; cbn [filter]; auto. destruct (p a); cbn [negb length]; lia. Qed.

Lemma filter_nonempty {A} (p : A -> bool) l x : In x l -> p x = true -> 0 < length (filter p l).
Proof.
  intros H1 H2. assert (H : In x (filter p l)) by (apply filter_In; auto).
  destruct (filter p l); [destruct H|cbn; lia].
Qed.

Lemma filter_empty_all {A} (p : A -> bool) l : length (filter p l) = 0 -> forall x, In x l -> p x = false.
Proof.
  intros H x Hx. destruct (p x) eqn:E; auto. pose proof (filter_nonempty p l x Hx E). lia.
Qed.

(* ---------------------------------------------------------------------------------------- *)
(* the map T *)
Lemma tquery_char T y v :
  (forall q z, In (q, z) T -> (z <= y)%Z -> q <= v) ->
  (v = 0 \/ exists z, In (v, z) T /\ (z <= y)%Z) -> tquery T y = v.
Proof.
  intros Hub Hatt. unfold tquery. apply list_max_char.
  - intros q Hq. apply in_map_iff in Hq. destruct Hq as [[q' z] [<- Hin]]. apply filter_In in Hin.
    cbn [fst snd] in *. destruct Hin as [Hin Hz]. apply (Hub q' z); auto. lia.
  - destruct Hatt as [->|[z [Hin Hz]]]; [now left|right].
    apply in_map_iff. exists (v, z). split; auto. apply filter_In. split; auto. cbn. lia.
Qed.

Lemma tset_In q v T q' v' :
  In (q', v') (tset q v T) <-> (q' = q /\ v' = v) \/ (q' <> q /\ In (q', v') T).
Proof.
  unfold tset. cbn [In]. rewrite filter_In. cbn [fst]. split.
  - intros [H|[H1 H2]]; [inversion H; auto|]. right. split; auto.
    destruct (Nat.eqb_spec q' q); [discriminate|auto].
  - intros [[-> ->]|[H1 H2]]; [now left|right]. split; auto.
    destruct (Nat.eqb_spec q' q); [contradiction|auto].
Qed.

Lemma tset_keys_nodup q v T : NoDup (map fst T) -> NoDup (map fst (tset q v T)).
Proof.
  intros H. unfold tset. cbn [map fst]. constructor.
  - intros Hin. apply in_map_iff in Hin. destruct Hin as [[q' z] [E Hin]]. apply filter_In in Hin.
    cbn [fst] in *. subst q'. destruct Hin as [_ Hq]. rewrite Nat.eqb_refl in Hq. discriminate.
  - induction T as [|[q' z] T IH]; cbn [filter map fst]; [constructor|].
    inversion H; subst. destruct (negb (q' =? q)); cbn [map fst]; auto.
    constructor; auto. intros Hin. apply H2. apply in_map_iff in Hin. destruct Hin as [e [E Hin]].
    apply filter_In in Hin. apply in_map_iff. exists e. tauto.
Qed.

Lemma keys_functional (T : tmap) q v v' : NoDup (map fst T) -> In (q, v) T -> In (q, v') T -> v = v'.
Proof.
  induction T as [|[q0 z] T IH]; cbn [map fst In]; intros HN H1 H2; [destruct H1|].
  inversion HN; subst.
  destruct H1 as [H1|H1], H2 as [H2|H2].
  - congruence.
  - inversion H1; subst. exfalso. apply H3. apply in_map_iff. exists (q, v'). auto.
  - inversion H2; subst. exfalso. apply H3. apply in_map_iff. exists (q, v). auto.
  - auto.
Qed.

Lemma tfind_Some q T v : tfind q T = Some v -> In (q, v) T.
Proof.
  induction T as [|[q' z] T IH]; cbn [tfind]; [discriminate|].
  destruct (Nat.eqb_spec q' q) as [->|Hne]; intros H.
  - inversion H; subst. now left.
  - right. auto.
Qed.

Lemma tfind_None q T : tfind q T = None -> forall v, ~ In (q, v) T.
Proof.
  induction T as [|[q' z] T IH]; cbn [tfind]; intros H v; [intros []|].
  destruct (Nat.eqb_spec q' q) as [->|Hne]; [discriminate|].
  intros [E|Hin]; [inversion E; contradiction|]. eapply IH; eauto.
Qed.

(* ---------------------------------------------------------------------------------------- *)
(* median: the doubled median is the sum of two members *)
Lemma median2_sum l : l <> [] -> exists a b, In a l /\ In b l /\ median2 l = (a + b)%Z.
Proof.
  intros Hne. unfold median2.
  pose proof (sort_z_perm l) as HP.
  assert (HL : length (sort_z l) = length l) by (apply Permutation_length; auto).
  assert (Hn : 0 < length l) by (destruct l; [congruence|cbn; lia]).
  assert (H1 : In (nth (length l / 2) (sort_z l) 0%Z) l).
  { eapply Permutation_in; [exact HP|]. apply nth_In. rewrite HL. apply Nat.div_lt; lia. }
  assert (H2 : In (nth (length l / 2 - 1) (sort_z l) 0%Z) l).
  { eapply Permutation_in; [exact HP|]. apply nth_In. rewrite HL.
    pose proof (Nat.div_lt (length l) 2 Hn ltac:(lia)). lia. }
  destruct (Nat.odd (length l)).
  - exists (nth (length l / 2) (sort_z l) 0%Z), (nth (length l / 2) (sort_z l) 0%Z). split; auto. split; auto. lia.
  - eexists _, _. split; [exact H1|]. split; [exact H2|]. reflexivity.
Qed.

Lemma median2_low l : l <> [] -> exists a, In a l /\ (2 * a <= median2 l)%Z.
Proof.
  intros H. destruct (median2_sum l H) as [a [b [Ha [Hb ->]]]].
  destruct (Z.le_ge_cases a b); [exists a|exists b]; split; auto; lia.
Qed.

Lemma median2_high l : l <> [] -> exists a, In a l /\ (median2 l <= 2 * a)%Z.
Proof.
  intros H. destruct (median2_sum l H) as [a [b [Ha [Hb ->]]]].
  destruct (Z.le_ge_cases a b); [exists b|exists a]; split; auto; lia.
Qed.

Lemma zmin_list_spec l : l <> [] -> In (zmin_list l) l /\ forall x, In x l -> (zmin_list l <= x)%Z.
Proof.
  destruct l as [|a t]; [congruence|intros _]. unfold zmin_list.
  revert a. induction t as [|b t IH]; intros a; cbn [fold_left].
  - split; [now left|]. intros x [<-|[]]. lia.
  - destruct (IH (Z.min a b)) as [H1 H2]. split.
    + destruct H1 as [H1|H1]; [|right; now right].
      rewrite <- H1. destruct (Z.min_spec a b) as [[_ ->]|[_ ->]]; [now left|right; now left].
    + intros x [E|[E|Hx]].
      * specialize (H2 (Z.min a b) (or_introl eq_refl)). lia.
      * specialize (H2 (Z.min a b) (or_introl eq_refl)). lia.
      * apply H2. now right.
Qed.

Lemma zmax_list_spec l : l <> [] -> In (zmax_list l) l /\ forall x, In x l -> (x <= zmax_list l)%Z.
Proof.
  destruct l as [|a t]; [congruence|intros _]. unfold zmax_list.
  revert a. induction t as [|b t IH]; intros a; cbn [fold_left].
  - split; [now left|]. intros x [<-|[]]. lia.
  - destruct (IH (Z.max a b)) as [H1 H2]. split.
    + destruct H1 as [H1|H1]; [|right; now right].
      rewrite <- H1. destruct (Z.max_spec a b) as [[_ ->]|[_ ->]]; [right; now left|now left].
    + intros x [E|[E|Hx]].
      * specialize (H2 (Z.max a b) (or_introl eq_refl)). lia.
      * specialize (H2 (Z.max a b) (or_introl eq_refl)). lia.
      * apply H2. now right.
Qed.

(* ---------------------------------------------------------------------------------------- *)
(* lexicographic order on vectors of one length *)
Ltac zcmp := repeat match goal with
  | |- context [Z.ltb ?a ?b] => destruct (Z.ltb_spec a b)
  | H : context [Z.ltb ?a ?b] |- _ => destruct (Z.ltb_spec a b)
  end.

Lemma lex_ltb_irrefl a : lex_ltb a a = false.
Proof. induction a as [|x a IH]; cbn [lex_ltb]; auto. zcmp; auto; lia. Qed.

Lemma lex_ltb_trans : forall a b c, length a = length b -> length b = length c ->
  lex_ltb a b = true -> lex_ltb b c = true -> lex_ltb a c = true.
Proof.
  induction a as [|x a IH]; intros [|y b] [|z c] L1 L2; cbn [lex_ltb length] in *; try discriminate; auto.
  intros H1 H2. zcmp; auto; try discriminate; try lia. apply (IH b c); auto; lia.
Qed.

(* a <= b (not b < a) and b < c give a < c *)
Lemma lex_le_lt_trans : forall a b c, length a = length b -> length b = length c ->
  lex_ltb b a = false -> lex_ltb b c = true -> lex_ltb a c = true.
Proof.
  induction a as [|x a IH]; intros [|y b] [|z c] L1 L2; cbn [lex_ltb length] in *; try discriminate; auto.
  intros H1 H2. zcmp; auto; try discriminate; try lia. apply (IH b c); auto; lia.
Qed.

Lemma lex_lt_le_trans : forall a b c, length a = length b -> length b = length c ->
  lex_ltb a b = true -> lex_ltb c b = false -> lex_ltb a c = true.
Proof.
  induction a as [|x a IH]; intros [|y b] [|z c] L1 L2; cbn [lex_ltb length] in *; try discriminate; auto.
  intros H1 H2. zcmp; auto; try discriminate; try lia. apply (IH b c); auto; lia.
Qed.

Lemma lex_total : forall a b, length a = length b -> lex_ltb a b = false -> lex_ltb b a = false -> a = b.
Proof.
  induction a as [|x a IH]; intros [|y b] L; cbn [lex_ltb length] in *; try discriminate; auto.
  intros H1 H2. zcmp; try discriminate; try lia. f_equal; [lia|]. apply IH; auto.
Qed.

Lemma point_eqb_eq : forall a b, length a = length b -> (point_eqb a b = true <-> a = b).
Proof.
  induction a as [|x a IH]; intros [|y b] L; cbn [point_eqb length] in *; try discriminate; [tauto|].
  rewrite andb_true_iff, Z.eqb_eq, IH by lia. split; [intros [-> ->]; auto|intros E; inversion E; auto].
Qed.

(* coordinate form: first differing coordinate *)
Lemma lex_ltb_coord : forall a b, length a = length b -> lex_ltb a b = true ->
  exists c, c < length a /\ (nth c a 0 < nth c b 0)%Z /\ forall c', c' < c -> nth c' a 0%Z = nth c' b 0%Z.
Proof.
  induction a as [|x a IH]; intros [|y b] L; cbn [lex_ltb length] in *; try discriminate.
  intros H. zcmp; try discriminate.
  - exists 0. split; [lia|]. split; [cbn; lia|]. intros c' Hc. lia.
  - destruct (IH b ltac:(lia) H) as [c [K1 [K2 K3]]]. exists (S c). split; [lia|]. split; [exact K2|].
    intros [|c'] Hc; cbn [nth]; [lia|]. apply K3. lia.
Qed.

(* ---------------------------------------------------------------------------------------- *)
(* std::sort / std::unique / std::lower_bound *)
Definition lexlt (a b : point) : Prop := lex_ltb a b = true.
Definition lexle (a b : point) : Prop := lex_ltb b a = false.

Lemma dc_insert_perm p l : Permutation (dc_insert p l) (p :: l).
Proof.
  induction l as [|q t IH]; cbn [dc_insert]; auto.
  destruct (lex_ltb p q); auto. rewrite IH. apply perm_swap.
Qed.

Lemma dc_sort_perm l : Permutation (dc_sort l) l.
Proof.
  induction l as [|p l IH]; cbn [dc_sort fold_right]; auto.
  fold (dc_sort l). rewrite dc_insert_perm. now constructor.
Qed.

Lemma dc_insert_sorted m p l : length p = m -> same_dim m l ->
  StronglySorted lexle l -> StronglySorted lexle (dc_insert p l).
Proof.
  intros Hp Hd HS. induction HS as [|q t HS IH HF]; cbn [dc_insert]; [repeat constructor|].
  assert (Hq : length q = m) by (apply Hd; now left).
  assert (Hd' : same_dim m t) by (intros x Hx; apply Hd; now right).
  rewrite Forall_forall in HF.
  destruct (lex_ltb p q) eqn:E.
  - constructor; [constructor; auto; now apply Forall_forall|].
    apply Forall_forall. intros x [<-|Hx].
    + unfold lexle. destruct (lex_ltb q p) eqn:E2; auto.
      pose proof (lex_ltb_trans p q p ltac:(lia) ltac:(lia) E E2) as E3. rewrite lex_ltb_irrefl in E3. discriminate.
    + unfold lexle. destruct (lex_ltb x p) eqn:E2; auto.
      assert (length x = m) by (apply Hd'; auto).
      pose proof (lex_ltb_trans x p q ltac:(lia) ltac:(lia) E2 E) as E3.
      specialize (HF x Hx). unfold lexle in HF. congruence.
  - constructor; [apply IH; auto|].
    apply Forall_forall. intros x Hx. eapply Permutation_in in Hx; [|apply dc_insert_perm].
    destruct Hx as [<-|Hx]; [exact E|auto].
Qed.

Lemma dc_sort_sorted m l : same_dim m l -> StronglySorted lexle (dc_sort l).
Proof.
  induction l as [|p l IH]; intros Hd; cbn [dc_sort fold_right]; [constructor|].
  fold (dc_sort l). apply (dc_insert_sorted m).
  - apply Hd. now left.
  - intros x Hx. apply Hd. right. eapply Permutation_in; [apply dc_sort_perm|exact Hx].
  - apply IH. intros x Hx. apply Hd. now right.
Qed.

Lemma dc_uniq_from_spec m : forall l p, length p = m -> same_dim m l -> StronglySorted lexle (p :: l) ->
  StronglySorted lexlt (dc_uniq_from p l) /\
  (forall x, In x (dc_uniq_from p l) <-> x = p \/ In x l) /\
  (forall x, In x (dc_uniq_from p l) -> x = p \/ lexlt p x).
Proof.
  induction l as [|q t IH]; intros p Hp Hd HS; cbn [dc_uniq_from].
  - split; [repeat constructor|]. split; intros x; cbn [In]; [split; intros [H|[]]; auto|intros [H|[]]; auto].
  - assert (Hq : length q = m) by (apply Hd; now left).
    assert (Hd' : same_dim m t) by (intros x Hx; apply Hd; now right).
    apply StronglySorted_inv in HS. destruct HS as [HS HF]. rewrite Forall_forall in HF.
    pose proof HS as HS0. apply StronglySorted_inv in HS0. destruct HS0 as [HSt HFq]. rewrite Forall_forall in HFq.
    destruct (point_eqb p q) eqn:E.
    + apply point_eqb_eq in E; [|lia]. subst q.
      destruct (IH p Hp Hd') as [A [B C]].
      { constructor; auto. now apply Forall_forall. }
      split; auto. split; auto. intros x. rewrite B. cbn [In]. split; [tauto|]. intros [H|[H|H]]; auto.
    + destruct (IH q Hq Hd' HS) as [A [B C]].
      assert (Hpq : lexlt p q).
      { unfold lexlt. destruct (lex_ltb p q) eqn:E2; auto. exfalso.
        assert (p = q); [|subst; rewrite (proj2 (point_eqb_eq q q eq_refl) eq_refl) in E; discriminate].
        apply lex_total; auto; [lia|]. apply (HF q). now left. }
      split; [|split].
      * constructor; auto. apply Forall_forall. intros x Hx. destruct (C x Hx) as [->|H]; auto.
        assert (length x = m). { apply B in Hx. destruct Hx as [->|Hx]; auto. }
        unfold lexlt in *. apply (lex_ltb_trans p q x); auto; lia.
      * intros x. cbn [In]. rewrite B. split; [intros [H|[H|H]]; auto|intros [H|[H|H]]; auto].
      * intros x [H|Hx]; [now left|right].
        assert (length x = m). { apply B in Hx. destruct Hx as [->|Hx]; auto. }
        destruct (C x Hx) as [->|H']; auto. unfold lexlt in *. apply (lex_ltb_trans p q x); auto; lia.
Qed.

Lemma dc_uniq_sort_spec m S : same_dim m S ->
  StronglySorted lexlt (dc_uniq (dc_sort S)) /\ forall x, In x (dc_uniq (dc_sort S)) <-> In x S.
Proof.
  intros Hd. pose proof (dc_sort_sorted m S Hd) as HS. pose proof (dc_sort_perm S) as HP.
  assert (Hd' : same_dim m (dc_sort S)).
  { intros x Hx. apply Hd. eapply Permutation_in; eauto. }
  unfold dc_uniq. destruct (dc_sort S) as [|p l] eqn:E.
  - split; [constructor|]. intros x. split; [intros []|]. intros Hx.
    apply Permutation_sym in HP. apply (Permutation_in _ HP) in Hx. destruct Hx.
  - destruct (dc_uniq_from_spec m l p) as [A [B _]]; auto.
    { apply Hd'. now left. } { intros x Hx. apply Hd'. now right. }
    split; auto. intros x. rewrite B. split.
    + intros H. eapply Permutation_in; [exact HP|]. destruct H as [->|H]; [now left|now right].
    + intros H. apply Permutation_sym in HP. apply (Permutation_in _ HP) in H. destruct H as [<-|H]; auto.
Qed.

Lemma dc_lower_bound_spec m : forall l, same_dim m l -> StronglySorted lexlt l ->
  forall i, i < length l -> dc_lower_bound l (nth i l []) = i.
Proof.
  induction l as [|q t IH]; intros Hd HS i Hi; [cbn in Hi; lia|].
  apply StronglySorted_inv in HS. destruct HS as [HS HF]. rewrite Forall_forall in HF.
  destruct i as [|i]; cbn [nth dc_lower_bound].
  - now rewrite lex_ltb_irrefl.
  - cbn in Hi. rewrite (HF (nth i t [])) by (apply nth_In; lia). f_equal. apply IH; auto; [|lia].
    intros x Hx. apply Hd. now right.
Qed.

Lemma In_nth_ex {A} (l : list A) x d : In x l -> exists i, i < length l /\ nth i l d = x.
Proof. intros H. destruct (In_nth l x d H) as [i [H1 H2]]. exists i. auto. Qed.
