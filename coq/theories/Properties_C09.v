(* C09 — Kernel-matrix caches return the true entries and respect their memory bound.
   Only statements + `exact`/`apply`; the proofs live in the C09*Proofs.v files, the executable models in
   C09Model.v, C09Derived.v, C09Comp.v, C09More.v (definitions only; all of them are extracted and run next to
   the C++ on every run of tools/c09.py).

   PROVED (axiom-free, every theorem below prints "Closed under the global context")
   A. The cache over the free base matrix of id pairs (C09Model.v = LRUCache + CachedMatrix line by line):
      for every history of row requests of any prefix length, const rows, flips, setMaxCachedIndex, clear,
      truncations and deletion marks, from an empty cache of any capacity over any matrix size:
      capacity bound, size accounting = total length of the held lines, LRU list = the cached lines once,
      every cached cell and every returned row = the true entry under the current variable order, the UB state
      (back() of an empty list) is unreachable, the previously requested row survives when capacity allows both
      (C09_every_history_sound ... C09_clear_empties).
   B. Derived matrices under flips, stated on the ORIGINAL examples and attributes (C09_regularized_matrix_entries
      ... C09_precomputed_matrix_flip).
   C. COMPOSITION (C09Comp.v, C09CompProofs.v): CachedMatrix<Matrix> and PrecomputedMatrix<Matrix> over ANY base
      matrix object that satisfies the laws [flip_aware] (entry after flip(i,j) = entry under the transposition,
      row = the entries, size and class invariant kept): after every history (any prefix length, sub-range const
      rows, flips forwarded to the base, index-range restrictions, clears) every cached cell, every returned row
      and entry() equal the base's ORIGINAL entry function under the COMPOSED permutation [cperm]; same
      accounting clauses as in A (C09_composed_...).  The const overload row(k,start,end,storage), as repaired by
      f9a1ac31, is total: exactly the cells [start,end) for every start <= end <= size, cache state untouched
      (before the repair it wrote before the buffer when start > cached length and past its end when
      end < cached length; the comp stream guards both sides).  PrecomputedMatrix needs only that matrix() of the
      base state it is constructed from is correct (C09_precomputed_over_base_sound).
   D. Memory clauses at the CachedMatrix level in the composed setting: getCacheSize/getMaxCacheSize/cachedLines/
      getCacheRowSize after clear, setMaxCachedIndex (nothing freed, lines outside the range become the first
      eviction candidates) and flips (lengths travel with the variables) (C09_composed_..._accounting).
   E. Every class is an instance of the interface (C09_kernel_matrix_classes_are_flip_aware): KernelMatrix,
      Regularized (row as coded: kernel row patched on the diagonal), Modified (row as coded), ExampleModified
      (scaling coefficients follow the examples, 729b58f0), BlockMatrix2x2 over any base, Difference, Gaussian;
      and matrix() is correct for unflipped Kernel/Regularized/Modified states and every state of the others.
      Worked compositions: CachedMatrix<RegularizedKernelMatrix>, PrecomputedMatrix<DifferenceKernelMatrix>,
      CachedMatrix<GaussianKernelMatrix> (C09_cached_regularized_matrix_sound, ...).
   F. New models (C09More.v): createDataFromRange's batch sizes (unequal, differ by one, sum = n), DataView
      (batch, position) lookups on any batch structure, DifferenceKernelMatrix entries, for the linear kernel =
      Gram matrix of the difference features, symmetric, positive semi-definite; GaussianKernelMatrix distance
      formula n_i - 2<x_i,x_j> + n_j = |x_i - x_j|^2 as long as the norms belong to the points, which flips
      preserve (they swap points AND norms); PartlyPrecomputedMatrix constructor (row count from the cache size
      in bytes with the integer divisions, runtime check, division by zero for an empty base), memory bound
      rows * rowBytes <= cacheSize, every entry / row = base entry (stated over ANY base operation record;
      the class has neither flipColumnsAndRows nor row(k,start,end,storage), so it cannot itself be the Matrix
      parameter of CachedMatrix / PrecomputedMatrix and is not an instance of the flip interface).

   COMPARED on every run (extracted model = C++, same generated inputs, exact): stream "cache" (A), "derived" (B),
   "comp" (C, D, E: CachedMatrix<Base>/PrecomputedMatrix<Base> for all seven classes, capacities N, 2N, N^2,
   equal and unequal batch sizes, sub-range const rows, accounting API), "more" (F, read directly and through
   the composed cache / precomputed models; exact for Difference and PartlyPrecomputed, exp at 1e-12 for
   Gaussian: exp is ABSTRACT in the model, instantiated by libm's exp in the driver).

   MONITORED ONLY / NOT PROVED
   * floating point: all proofs are over Z (integer data make the C++ arithmetic exact); the float instantiation
     of GaussianKernelMatrix (norms beyond 2^24) is only monitored against direct evaluation.
   * new[]/delete[] and boost::intrusive::list are modelled, not verified (the list order is compared through
     listIndex); "no request reads or writes outside its buffers" is the model's err flag / None results plus
     guard cells in the harness and ASan/UBSan in the thorough tier.
   * kernels other than the linear one; OpenMP row loops; KernelMatrix::matrix (calculateRegularizedKernelMatrix)
     is modelled by its result in the ORIGINAL order; it ignores earlier flips (see C09More.v), so
     PrecomputedMatrix over an already flipped KernelMatrix/Regularized/Modified is outside the theorems
     (known finding C09-PREFLIP: the comp stream generates such cases, model = implementation /= specification).
   * positive semi-definiteness is proved for the linear kernel only. *)
From Coq Require Import List Arith.
From Coq Require Import ZArith Permutation.
From SharkV Require Import C09Comp C09CompProofs C09More C09InstProofs C09MoreProofs C09ThmProofs.
From SharkV Require Import ListAux C09Model C09Proofs C09Derived C09DerivedProofs.
Import ListNotations.

(* Every state reachable by any finite history of (precondition-respecting) operations from an
   empty cache of any capacity over any matrix size: capacity bound, exact size accounting, the LRU
   list lists exactly the cached lines once, every cached cell holds the true entry under the
   current variable order, and the model never reached the C++'s undefined behaviour
   (back() of an empty list). *)
Theorem C09_every_history_sound :
  forall ids mx ops, let s := run (init ids mx) ops in
    csize s <= cmax s /\
    csize s = tot (ents s) /\
    NoDup (lru s) /\
    (forall k, In k (lru s) <-> k < size s /\ linelen s k <> 0) /\
    (forall k c, c < linelen s k -> nth c (line s k) garbage = bent (perm s) k c) /\
    err s = false.
Proof.
  intros ids mx ops s. pose proof (reachable_inv ids mx ops) as I. fold s in I.
  pose proof (I_lru s I) as HL.
  split; [apply I|]. split; [apply I|]. split; [apply I|]. split; [exact HL|]. split; apply I.
Qed.
Print Assumptions C09_every_history_sound.

Theorem C09_row_returns_true_entries :
  forall ids mx ops k e, let s := run (init ids mx) ops in
    wf_op s (ORow k e) = true ->
    let s' := step s (ORow k e) in
    perm s' = perm s /\ forall c, c < e -> nth c (line s' k) garbage = bent (perm s) k c.
Proof. intros. apply row_returns_true_entries; auto. apply reachable_inv. Qed.
Print Assumptions C09_row_returns_true_entries.

Theorem C09_const_row_returns_true_entries :
  forall ids mx ops k e, let s := run (init ids mx) ops in
    length (cm_row_const k e s) = e /\
    forall c, c < e -> nth c (cm_row_const k e s) garbage = bent (perm s) k c.
Proof. intros. apply const_row_returns_true_entries. apply reachable_inv. Qed.
Print Assumptions C09_const_row_returns_true_entries.

(* the previously requested row stays valid while the next one is fetched whenever capacity allows
   both; the Example in C09Proofs.v (two_rows_example) shows the premises are satisfiable and that
   an older third line is evicted instead. *)
Theorem C09_two_rows_valid :
  forall ids mx ops i a j b, let s := run (init ids mx) ops in
    i <> j -> wf_op s (ORow i a) = true ->
    let s1 := step s (ORow i a) in
    wf_op s1 (ORow j b) = true ->
    linelen s1 i + b <= cmax s ->
    let s2 := step s1 (ORow j b) in
    line s2 i = line s1 i /\ a <= linelen s2 i.
Proof. intros. apply two_rows_valid; auto. apply reachable_inv. Qed.
Print Assumptions C09_two_rows_valid.

Theorem C09_flip_is_transposition_of_order :
  forall ids mx ops i j, let s := run (init ids mx) ops in
    wf_op s (OFlip i j) = true -> perm (step s (OFlip i j)) = swapl 0 i j (perm s).
Proof.
  intros ids mx ops i j s W. unfold step. rewrite W. simpl in W.
  apply andb_prop in W. destruct W as [W1 W2]. apply Nat.ltb_lt in W1, W2.
  apply cm_flip_inv; auto. apply reachable_inv.
Qed.
Print Assumptions C09_flip_is_transposition_of_order.

Theorem C09_clear_empties :
  forall ids mx ops, csize (step (run (init ids mx) ops) OClear) = 0.
Proof. intros. unfold step. simpl. apply clear_empties. apply reachable_inv. Qed.
Print Assumptions C09_clear_empties.

(* ---- derived matrices: regularised / label-modified / precomputed matrices agree entry-wise with
   direct kernel evaluation of the ORIGINAL examples now sitting at the two positions, after any
   history of flips ---- *)
Theorem C09_regularized_matrix_entries :
  forall (k0 : nat -> nat -> Z) n d0 l0 fl i j,
    length d0 = n -> length l0 = n -> valid_flips n fl -> i < n -> j < n ->
    let s := dflips fl (dinit n d0 l0) in
    e_reg k0 s i j = (k0 (p s i) (p s j) + (if Nat.eqb i j then nth (p s i) d0 0 else 0))%Z.
Proof. exact e_reg_spec. Qed.
Print Assumptions C09_regularized_matrix_entries.

Theorem C09_modified_matrix_entries :
  forall (k0 : nat -> nat -> Z) n d0 l0 fl eq ne i j,
    length d0 = n -> length l0 = n -> valid_flips n fl -> i < n -> j < n ->
    let s := dflips fl (dinit n d0 l0) in
    e_mod k0 eq ne s i j =
    ((if Nat.eqb (nth (p s i) l0 0%nat) (nth (p s j) l0 0%nat) then eq else ne) * k0 (p s i) (p s j))%Z.
Proof. exact e_mod_spec. Qed.
Print Assumptions C09_modified_matrix_entries.

(* ExampleModifiedKernelMatrix with per-example scaling coefficients 2^l (scaled by 16) *)
Theorem C09_example_modified_matrix_entries :
  forall (k0 : nat -> nat -> Z) n d0 l0 fl i j,
    length d0 = n -> length l0 = n -> valid_flips n fl -> i < n -> j < n ->
    let s := dflips fl (dinit n d0 l0) in
    e_ex k0 s i j = (k0 (p s i) (p s j) * 2 ^ (4 - Z.of_nat (nth (p s i) l0 0%nat) - Z.of_nat (nth (p s j) l0 0%nat)))%Z.
Proof. exact e_ex_spec. Qed.
Print Assumptions C09_example_modified_matrix_entries.

Theorem C09_flip_orders_are_permutations :
  forall n d0 l0 fl, length d0 = n -> length l0 = n -> valid_flips n fl ->
    Permutation.Permutation (pos (dflips fl (dinit n d0 l0))) (seq 0 n).
Proof. intros. apply (D_perm n d0 l0). apply dflips_inv; auto. Qed.
Print Assumptions C09_flip_orders_are_permutations.

Theorem C09_precomputed_matrix_flip :
  forall n (m : mat) i j a b,
    length m = n -> (forall r, r < n -> length (nth r m []) = n) -> i < n -> j < n -> a < n -> b < n ->
    m_entry (m_flip i j m) a b = m_entry m (tr i j a) (tr i j b).
Proof. exact m_flip_spec. Qed.
Print Assumptions C09_precomputed_matrix_flip.

(* ===================== C. composition over an abstract flip-aware base matrix ===================== *)

(* Every state reachable by any finite history from an empty cache of any capacity stacked on ANY base object
   satisfying the laws: memory bound, accounting, and every cached cell / entry() = the base's ORIGINAL entry
   function under the composed permutation. *)
Theorem C09_composed_cache_sound :
  forall (V B : Type) (M : MatOps V B) (ok : B -> Prop), flip_aware ok ->
  forall b0 : B, ok b0 -> forall (mx : nat) (ops : list gop),
    let n := bsize b0 in let s := grun (ginit b0 mx) ops in let p := cperm n ops in
    gcsize s <= gcmax s /\ gcmax s = mx /\ gcsize s = tot (gents s) /\ NoDup (glru s) /\
    (forall k, In k (glru s) <-> k < n /\ glinelen s k <> 0) /\
    (forall k, glinelen s k <= n) /\
    Permutation p (seq 0 n) /\
    (forall k c, c < glinelen s k -> nth c (gline s k) gv = bentry b0 (nth k p 0) (nth c p 0)) /\
    (forall a c, a < n -> c < n -> gcm_entry s a c = bentry b0 (nth a p 0) (nth c p 0)) /\
    gerr s = false.
Proof. intros V B M ok FA b0 OK0 mx ops. exact (composed_cache_sound ok FA b0 OK0 mx ops). Qed.
Print Assumptions C09_composed_cache_sound.

(* row(k,a,e) for any prefix length e after any history: at least e cells, all original entries under the
   composed order, and the order is not touched by the request *)
Theorem C09_composed_row_returns_original_entries :
  forall (V B : Type) (M : MatOps V B) (ok : B -> Prop), flip_aware ok ->
  forall b0 : B, ok b0 -> forall (mx : nat) (ops : list gop) (k a e : nat),
    let s := grun (ginit b0 mx) ops in let p := cperm (bsize b0) ops in
    gwf_op s (GRow k a e) = true ->
    let s' := gstep s (GRow k a e) in
    cperm (bsize b0) (ops ++ [GRow k a e]) = p /\ e <= glinelen s' k /\
    forall c, c < e -> nth c (gline s' k) gv = bentry b0 (nth k p 0) (nth c p 0).
Proof. intros V B M ok FA b0 OK0 mx ops k a e. exact (composed_row ok FA b0 OK0 mx ops k a e). Qed.
Print Assumptions C09_composed_row_returns_original_entries.

(* row(k,a,e,storage) const (as repaired by f9a1ac31): TOTAL; for every sub-range a <= e <= n it writes exactly the
   e-a cells [a,e), all of them original entries under the composed order, whatever part of line k is cached
   (shorter than a, longer than e, ...), and the cache state is unchanged *)
Theorem C09_composed_const_row :
  forall (V B : Type) (M : MatOps V B) (ok : B -> Prop), flip_aware ok ->
  forall b0 : B, ok b0 -> forall (mx : nat) (ops : list gop) (k a e : nat),
    let s := grun (ginit b0 mx) ops in let p := cperm (bsize b0) ops in
    k < bsize b0 -> a <= e -> e <= bsize b0 ->
    gstep s (GRowC k a e) = s /\
    length (gcm_row_const k a e s) = e - a /\
    forall c, c < e - a -> nth c (gcm_row_const k a e s) gv = bentry b0 (nth k p 0) (nth (a + c) p 0).
Proof. intros V B M ok FA b0 OK0 mx ops k a e. exact (composed_row_const ok FA b0 OK0 mx ops k a e). Qed.
Print Assumptions C09_composed_const_row.

Theorem C09_composed_two_rows_valid :
  forall (V B : Type) (M : MatOps V B) (ok : B -> Prop), flip_aware ok ->
  forall b0 : B, ok b0 -> forall (mx : nat) (ops : list gop) (i a0 a j c0 c : nat),
    let s := grun (ginit b0 mx) ops in
    i <> j -> gwf_op s (GRow i a0 a) = true ->
    let s1 := gstep s (GRow i a0 a) in
    gwf_op s1 (GRow j c0 c) = true ->
    glinelen s1 i + c <= gcmax s ->
    let s2 := gstep s1 (GRow j c0 c) in
    gline s2 i = gline s1 i /\ a <= glinelen s2 i.
Proof.
  intros V B M ok FA b0 OK0 mx ops i a0 a j c0 c s. apply (C09CompProofs.two_rows_valid ok FA).
  apply C09CompProofs.reachable_inv; assumption.
Qed.
Print Assumptions C09_composed_two_rows_valid.

(* the base matrix alone: after any list of flips its entries are the original ones under the composed order *)
Theorem C09_flip_aware_matrix_under_flips :
  forall (V B : Type) (M : MatOps V B) (ok : B -> Prop), flip_aware ok ->
  forall b0 : B, ok b0 -> forall fl : list (nat * nat),
    let b := bflips fl b0 in let p := flips_perm (bsize b0) fl in
    ok b /\ bsize b = bsize b0 /\ Permutation p (seq 0 (bsize b0)) /\
    forall a c, a < bsize b0 -> c < bsize b0 -> bentry b a c = bentry b0 (nth a p 0) (nth c p 0).
Proof.
  intros V B M ok FA b0 OK0 fl. destruct (bflips_under ok FA b0 OK0 fl) as (A1 & A2 & _ & A3 & A4).
  cbv zeta. split; [exact A1|]. split; [exact A2|]. split; [exact A3|exact A4].
Qed.
Print Assumptions C09_flip_aware_matrix_under_flips.

(* PrecomputedMatrix<Matrix>: constructed from a base state whose matrix() is correct, flipped any number of
   times (not forwarded to the base): entries and both row overloads = original entries under the composed
   order; the table always holds exactly n*n values in rows of length n *)
Theorem C09_precomputed_over_base_sound :
  forall (V B : Type) (M : MatOps V B) (b0 : B), mat_ok b0 -> forall fl : list (nat * nat),
    let n := bsize b0 in let m := pm_flips fl (pm_init b0) in let p := flips_perm n fl in
    Permutation p (seq 0 n) /\
    (forall a c, a < n -> c < n -> pm_entry m a c = bentry b0 (nth a p 0) (nth c p 0)) /\
    (forall k a e, k < n -> a <= e -> e <= n ->
       pm_row m k a e = map (fun c => bentry b0 (nth k p 0) (nth c p 0)) (seq a (e - a))) /\
    pm_max_cache_size m = n * n /\ pm_size m = n /\ tot m = n * n.
Proof.
  intros V B M b0 MAT fl. cbv zeta.
  destruct (pm_sound b0 MAT fl) as (_ & A1 & A2). destruct (pm_accounting b0 MAT fl) as (A3 & A4 & A5).
  split; [exact A1|]. split; [exact A2|]. split; [intros k a e; apply (pm_row_sound b0 MAT fl k a e)|].
  split; [exact A3|]. split; [exact A4|exact A5].
Qed.
Print Assumptions C09_precomputed_over_base_sound.

(* ===================== D. memory clauses at the CachedMatrix level ===================== *)
Theorem C09_composed_clear_accounting :
  forall (V B : Type) (M : MatOps V B) (ok : B -> Prop), flip_aware ok ->
  forall b0 : B, ok b0 -> forall (mx : nat) (ops : list gop),
    let s' := gstep (grun (ginit b0 mx) ops) GClear in
    gcm_cache_size s' = 0 /\ gcm_cached_lines s' = 0 /\ gcm_max_cache_size s' = mx /\
    forall k, gcm_cache_row_size s' k = 0.
Proof.
  intros V B M ok FA b0 OK0 mx ops. cbv zeta. unfold gstep. simpl gwf_op. cbv iota.
  destruct (clear_accounting ok (grun (ginit b0 mx) ops) (C09CompProofs.reachable_inv ok FA b0 mx ops OK0)) as (A1 & A2 & A3 & A4).
  split; [exact A1|]. split; [exact A2|]. split; [|exact A4].
  unfold gcm_max_cache_size. rewrite A3. rewrite (run_cmax ok FA) by (apply C09CompProofs.init_inv; assumption). reflexivity.
Qed.
Print Assumptions C09_composed_clear_accounting.

(* setMaxCachedIndex(m): no value is freed or moved, the accounting is unchanged; the lines outside the
   restricted range are the first eviction candidates *)
Theorem C09_composed_setmax_accounting :
  forall (V B : Type) (M : MatOps V B) (ok : B -> Prop), flip_aware ok ->
  forall b0 : B, ok b0 -> forall (mx : nat) (ops : list gop) (m : nat),
    let s := grun (ginit b0 mx) ops in
    gwf_op s (GSetMax m) = true ->
    let s' := gstep s (GSetMax m) in
    gents s' = gents s /\ gcm_cache_size s' = gcm_cache_size s /\ gcm_max_cache_size s' = gcm_max_cache_size s /\
    gcm_cached_lines s' = gcm_cached_lines s /\
    exists front tail, glru s' = front ++ tail /\ (forall x, In x front -> x < m) /\ (forall x, In x tail -> m <= x).
Proof.
  intros V B M ok FA b0 OK0 mx ops m s W. cbv zeta. unfold gstep. rewrite W.
  simpl in W. apply Nat.leb_le in W.
  exact (set_max_accounting ok m s (C09CompProofs.reachable_inv ok FA b0 mx ops OK0) W).
Qed.
Print Assumptions C09_composed_setmax_accounting.

Theorem C09_composed_flip_accounting :
  forall (V B : Type) (M : MatOps V B) (ok : B -> Prop), flip_aware ok ->
  forall b0 : B, ok b0 -> forall (mx : nat) (ops : list gop) (i j : nat),
    let s := grun (ginit b0 mx) ops in
    gwf_op s (GFlip i j) = true ->
    let s' := gstep s (GFlip i j) in
    gcm_cache_size s' = gcm_cache_size s /\ gcm_max_cache_size s' = gcm_max_cache_size s /\
    gcm_cached_lines s' = gcm_cached_lines s /\
    forall k, gcm_cache_row_size s' k = gcm_cache_row_size s (tr i j k).
Proof.
  intros V B M ok FA b0 OK0 mx ops i j s W. cbv zeta. unfold gstep. rewrite W.
  simpl in W. apply andb_prop in W. destruct W as [W1 W2]. apply Nat.ltb_lt in W1, W2.
  exact (flip_accounting ok FA i j s (C09CompProofs.reachable_inv ok FA b0 mx ops OK0) W1 W2).
Qed.
Print Assumptions C09_composed_flip_accounting.

(* ===================== E. every class implements the interface ===================== *)
Theorem C09_kernel_matrix_classes_are_flip_aware :
  forall (k0 : nat -> nat -> Z),
    flip_aware (M := kernel_ops k0) (fun _ => True) /\
    flip_aware (M := reg_ops k0) reg_okP /\
    (forall eq ne, flip_aware (M := mod_ops k0 eq ne) lab_okP) /\
    flip_aware (M := exmod_ops k0) lab_okP /\
    (forall (V B : Type) (M : MatOps V B) (b : B), flip_aware (M := blk_ops b) (blk_okP b) /\ blk_okP b (blk_init b)) /\
    (forall (P : Type) (pd : P) (k : P -> P -> Z), flip_aware (M := dk_ops P pd k) (fun _ => True)) /\
    (forall (V : Type) (ex : Z -> V) (vd : V) (dim : nat),
       flip_aware (M := gk_ops V ex vd dim) gk_okP /\ forall pts, gk_okP (gk_init dim pts)).
Proof.
  intros k0. split; [apply kernel_flip_aware|]. split; [apply reg_flip_aware|].
  split; [intros; apply mod_flip_aware|]. split; [apply exmod_flip_aware|].
  split; [intros V B M b; split; [apply blk_flip_aware|apply blk_init_ok]|].
  split; [intros; apply dk_flip_aware|].
  intros V ex vd dim. split; [apply gk_flip_aware|apply gk_init_ok].
Qed.
Print Assumptions C09_kernel_matrix_classes_are_flip_aware.

(* matrix(storage): correct for the unflipped KernelMatrix / Regularized / Modified (their matrix() reads the
   dataset, not the flipped pointer table) and for every state of the classes that loop over entry()/row() *)
Theorem C09_matrix_function_correct :
  forall (k0 : nat -> nat -> Z) n d0 l0,
    mat_ok (M := kernel_ops k0) (dinit n d0 l0) /\ mat_ok (M := reg_ops k0) (dinit n d0 l0) /\
    (forall eq ne, mat_ok (M := mod_ops k0 eq ne) (dinit n d0 l0)) /\
    (forall s, mat_ok (M := exmod_ops k0) s) /\
    (forall (V B : Type) (M : MatOps V B) (b : B) m, mat_ok (M := blk_ops b) m) /\
    (forall (P : Type) (pd : P) (k : P -> P -> Z) s, mat_ok (M := dk_ops P pd k) s) /\
    (forall (V : Type) (ex : Z -> V) (vd : V) (dim : nat) s, mat_ok (M := gk_ops V ex vd dim) s).
Proof.
  intros k0 n d0 l0. split; [apply kernel_mat_ok|]. split; [apply reg_mat_ok|].
  split; [intros; apply mod_mat_ok|]. split; [apply exmod_mat_ok|].
  split; [intros; apply blk_mat_ok|]. split; [intros; apply dk_mat_ok|intros; apply gk_mat_ok].
Qed.
Print Assumptions C09_matrix_function_correct.

(* the four blocks of BlockMatrix2x2 are copies of the base matrix *)
Theorem C09_block_matrix_entries :
  forall (V B : Type) (M : MatOps V B) (b : B) i j, i < 2 * bsize b -> j < 2 * bsize b ->
    blk_entry b (blk_init b) i j = bentry b (i mod bsize b) (j mod bsize b).
Proof. intros V B M b i j. exact (blk_init_entry b i j). Qed.
Print Assumptions C09_block_matrix_entries.

(* CachedMatrix<RegularizedKernelMatrix>: cells held after any history and cells returned by any row request are
   the kernel values of the ORIGINAL examples now at (k,c) plus, on the diagonal, that example's ORIGINAL modifier *)
Theorem C09_cached_regularized_matrix_sound :
  forall (k0 : nat -> nat -> Z) (n : nat) (d0 : list Z) (l0 : list nat), length d0 = n ->
  forall (mx : nat) (ops : list gop),
    let s := grun (M := reg_ops k0) (ginit (M := reg_ops k0) (dinit n d0 l0) mx) ops in let p := cperm n ops in
    gcsize s <= mx /\ gcsize s = tot (gents s) /\ Permutation p (seq 0 n) /\
    (forall k c, c < glinelen s k ->
       nth c (gline s k) 0%Z = (k0 (orig p k) (orig p c) + (if Nat.eqb k c then nth (orig p k) d0 0 else 0))%Z) /\
    (forall k a e, gwf_op (M := reg_ops k0) s (GRow k a e) = true ->
       let s' := gstep (M := reg_ops k0) s (GRow k a e) in
       forall c, c < e ->
       nth c (gline s' k) 0%Z = (k0 (orig p k) (orig p c) + (if Nat.eqb k c then nth (orig p k) d0 0 else 0))%Z).
Proof. exact cached_regularized_sound. Qed.
Print Assumptions C09_cached_regularized_matrix_sound.

(* PrecomputedMatrix<DifferenceKernelMatrix>, linear kernel, any batch structure of the dataset: after any flips
   the table holds the Gram matrix of the difference features of the pairs now at (a,c) *)
Theorem C09_precomputed_difference_matrix_sound :
  forall (dim : nat) (bs : list (list (list Z))) (pairs : list (nat * nat)),
    pairs_ok (length (concat bs)) pairs -> forall fl : list (nat * nat),
    let tab := pm_flips (M := dk_ops (list Z) [] (lin dim)) fl (pm_init (M := dk_ops (list Z) [] (lin dim)) (dk_init (list Z) bs pairs)) in
    let p := flips_perm (length pairs) fl in
    Permutation p (seq 0 (length pairs)) /\ pm_max_cache_size tab = length pairs * length pairs /\
    forall a c, a < length pairs -> c < length pairs ->
      pm_entry (M := dk_ops (list Z) [] (lin dim)) tab a c =
      zsum dim (fun t => (dfeat bs pairs (orig p a) t * dfeat bs pairs (orig p c) t)%Z).
Proof. exact precomputed_difference_sound. Qed.
Print Assumptions C09_precomputed_difference_matrix_sound.

(* CachedMatrix<GaussianKernelMatrix> with an abstract exp: every cached cell is ex(|x_k - x_c|^2) of the ORIGINAL
   points now at (k,c) *)
Theorem C09_cached_gaussian_matrix_sound :
  forall (V : Type) (ex : Z -> V) (vd : V) (dim : nat) (pts : list (list Z)) (mx : nat) (hist : list gop),
    let s := grun (M := gk_ops V ex vd dim) (ginit (M := gk_ops V ex vd dim) (gk_init dim pts) mx) hist in
    let p := cperm (length pts) hist in
    gcsize s <= mx /\ Permutation p (seq 0 (length pts)) /\
    forall k c, c < glinelen s k ->
      nth c (gline s k) vd =
      ex (zsum dim (fun t => ((nth t (nth (orig p k) pts []) 0 - nth t (nth (orig p c) pts []) 0) *
                              (nth t (nth (orig p k) pts []) 0 - nth t (nth (orig p c) pts []) 0))%Z)).
Proof. exact cached_gaussian_sound. Qed.
Print Assumptions C09_cached_gaussian_matrix_sound.

(* ===================== F. datasets, Difference / Gaussian / PartlyPrecomputed ===================== *)
Theorem C09_batch_sizes :
  forall npts mb l, batch_sizes npts mb = Some l ->
    list_sum l = npts /\ 0 < npts /\ exists opt, 0 < opt /\ forall s, In s l -> s = opt \/ s = S opt.
Proof. exact batch_sizes_spec. Qed.
Print Assumptions C09_batch_sizes.

Theorem C09_dataview_lookup :
  forall (P : Type) (pd : P) (bs : list (list P)) (p : nat), p < length (concat bs) ->
    elem P pd bs (nth p (view_index P bs) (0, 0)) = nth p (concat bs) pd.
Proof. exact view_lookup. Qed.
Print Assumptions C09_dataview_lookup.

Theorem C09_difference_matrix_entries :
  forall (P : Type) (pd : P) (k : P -> P -> Z) (bs : list (list P)) (pairs : list (nat * nat)) (i j : nat),
    let pts := concat bs in
    pairs_ok (length pts) pairs -> i < length pairs -> j < length pairs ->
    let s_ x := nth (fst (nth x pairs (0, 0))) pts pd in
    let g_ x := nth (snd (nth x pairs (0, 0))) pts pd in
    dk_entry P pd k (dk_init P bs pairs) i j = (k (g_ i) (g_ j) - k (g_ i) (s_ j) - k (s_ i) (g_ j) + k (s_ i) (s_ j))%Z.
Proof. exact dk_init_entry. Qed.
Print Assumptions C09_difference_matrix_entries.

Theorem C09_difference_linear_gram_symmetric_psd :
  forall (dim : nat) (bs : list (list (list Z))) (pairs : list (nat * nat)),
    pairs_ok (length (concat bs)) pairs ->
    let e := dk_entry (list Z) [] (lin dim) (dk_init (list Z) bs pairs) in let m := length pairs in
    (forall i j, i < m -> j < m -> e i j = zsum dim (fun t => (dfeat bs pairs i t * dfeat bs pairs j t)%Z)) /\
    (forall i j, i < m -> j < m -> e i j = e j i) /\
    (forall c : nat -> Z, (0 <= zsum m (fun i => zsum m (fun j => c i * c j * e i j)))%Z).
Proof.
  intros dim bs pairs OK. cbv zeta. split; [apply dk_linear_gram; exact OK|].
  split; [apply dk_linear_symmetric; exact OK|apply dk_linear_psd; exact OK].
Qed.
Print Assumptions C09_difference_linear_gram_symmetric_psd.

Theorem C09_gaussian_distance_formula :
  forall (dim : nat),
    (forall pts, gk_norms_ok dim (gk_init dim pts)) /\
    (forall i j s, gk_norms_ok dim s -> i < gk_size s -> j < gk_size s -> gk_norms_ok dim (gk_flip i j s)) /\
    (forall s i j, gk_norms_ok dim s -> i < gk_size s -> j < gk_size s ->
       gk_dist dim s i j =
       zsum dim (fun t => ((nth t (nth i (g_x s) []) 0 - nth t (nth j (g_x s) []) 0) *
                           (nth t (nth i (g_x s) []) 0 - nth t (nth j (g_x s) []) 0))%Z)).
Proof.
  intros dim. split; [apply gk_init_norms|]. split; [apply gk_flip_norms|apply gk_dist_spec].
Qed.
Print Assumptions C09_gaussian_distance_formula.

Theorem C09_partly_precomputed_sound :
  forall (V B : Type) (M : MatOps V B) (w cb : nat) (b : B),
    let n := bsize b in
    match pp_init w cb b with
    | PPok tab =>
        n * w <> 0 /\ length tab = Nat.min n (cb / (n * w)) /\ 1 <= length tab /\
        length tab * (n * w) <= cb /\ pp_max_cache_size b tab * w <= cb /\
        (forall k, pp_is_cached tab k = true <-> k < length tab) /\
        (forall i j, i < n -> j < n -> pp_entry b tab i j = bentry b i j) /\
        (forall k, k < n -> pp_row b tab k = map (bentry b k) (seq 0 n))
    | PPexc => n * w <> 0 /\ cb < n * w
    | PPdiv0 => n * w = 0
    end.
Proof. intros V B M w cb b. exact (pp_init_spec w cb b). Qed.
Print Assumptions C09_partly_precomputed_sound.

(* ===================== satisfiability of the hypotheses (concrete instances) ===================== *)
Definition ex_k0 : nat -> nat -> Z := fun a b => (Z.of_nat (a + 1) * Z.of_nat (b + 1))%Z.
Definition ex_b0 : dm := dinit 3 [5; 6; 7]%Z [0; 1; 0].

(* CachedMatrix<RegularizedKernelMatrix>, capacity 4: the hypotheses hold, the flip moves the cached line, a
   well-formed row request returns the entries under the composed order [2;1;0] and evicts the older line; the
   const overload inside the cached part, shorter than it, and on an uncached line with start > 0 *)
Example C09_composed_example :
  let s1 := grun (M := reg_ops ex_k0) (ginit (M := reg_ops ex_k0) ex_b0 4) [GRow 0 0 3; GFlip 0 2] in
  reg_okP ex_b0 /\ gline s1 2 = [3; 2; 6]%Z /\ cperm 3 [GRow 0 0 3; GFlip 0 2] = [2; 1; 0] /\
  gwf_op (M := reg_ops ex_k0) s1 (GRow 1 0 2) = true /\
  gline (gstep (M := reg_ops ex_k0) s1 (GRow 1 0 2)) 1 = [6; 10]%Z /\
  glinelen (gstep (M := reg_ops ex_k0) s1 (GRow 1 0 2)) 2 = 0 /\
  gcm_row_const (M := reg_ops ex_k0) 2 1 3 s1 = [2; 6]%Z /\
  gcm_row_const (M := reg_ops ex_k0) 2 0 1 s1 = [3]%Z /\
  gcm_row_const (M := reg_ops ex_k0) 1 1 3 s1 = [10; 2]%Z.
Proof. vm_compute. repeat split; reflexivity. Qed.

(* five points in batches of sizes 2,2,1 (maximum batch size 2) resp. 3,2 (maximum 4); three pairs; the
   precomputed difference matrix after one flip *)
Definition ex_pts : list (list Z) := [[1; 2]; [0; -1]; [3; 3]; [2; 0]; [-1; 1]]%Z.
Definition ex_bs : list (list (list Z)) := split_batches _ [2; 2; 1] ex_pts.
Definition ex_pairs : list (nat * nat) := [(0, 4); (1, 2); (4, 4)].
Example C09_difference_example :
  batch_sizes 5 2 = Some [2; 2; 1] /\ batch_sizes 5 4 = Some [3; 2] /\
  concat ex_bs = ex_pts /\ view_index _ ex_bs = [(0, 0); (0, 1); (1, 0); (1, 1); (2, 0)] /\
  pairs_ok (length (concat ex_bs)) ex_pairs /\
  dk_mat _ [] (lin 2) (dk_init _ ex_bs ex_pairs) = [[5; -10; 0]; [-10; 25; 0]; [0; 0; 0]]%Z /\
  pm_flips (M := dk_ops _ [] (lin 2)) [(0, 2)] (pm_init (M := dk_ops _ [] (lin 2)) (dk_init _ ex_bs ex_pairs))
    = [[0; 0; 0]; [0; 25; -10]; [0; -10; 5]]%Z.
Proof.
  split; [reflexivity|]. split; [reflexivity|]. split; [reflexivity|]. split; [reflexivity|].
  split; [|split; vm_compute; reflexivity].
  intros sg H. simpl in H. destruct H as [<-|[<-|[<-|[]]]]; simpl; split; repeat constructor.
Qed.

Example C09_gaussian_partly_example :
  gk_dist 2 (gk_flip 0 2 (gk_init 2 ex_pts)) 0 1 = 25%Z /\ g_n (gk_init 2 ex_pts) = [5; 1; 18; 4; 2]%Z /\
  pp_init (M := kernel_ops ex_k0) 8 50 ex_b0 = PPok [[1; 2; 3]; [2; 4; 6]]%Z /\
  pp_init (M := kernel_ops ex_k0) 8 23 ex_b0 = PPexc /\
  pp_init (M := kernel_ops ex_k0) 8 23 (dinit 0 [] []) = PPdiv0.
Proof. vm_compute. repeat split; reflexivity. Qed.
