(* C09 — Kernel-matrix caches return the true entries and respect their memory bound.
   Only statements + `exact`; the proofs live in C09Proofs.v, the executable model in C09Model.v. *)
From Coq Require Import List Arith.
From Coq Require Import ZArith.
From SharkV Require Import ListAux C09Model C09Proofs C09Derived C09DerivedProofs.
Import ListNotations.

(* Every state reachable by any finite history of (precondition-respecting) operations from an
   empty cache of any capacity over any matrix size: capacity bound, exact size accounting, the LRU
   list lists exactly the cached lines once, every cached cell holds the true entry under the
   current variable order, and the model never reached the C++'s undefined behaviour
   (back() of an empty list). *)
Theorem C09_every_history_sound :
  forall ids mx ops, let s := run (init ids mx) ops in
    csize s <= cmax s /\
    csize s = tot (ents s) /\
    NoDup (lru s) /\
    (forall k, In k (lru s) <-> k < size s /\ linelen s k <> 0) /\
    (forall k c, c < linelen s k -> nth c (line s k) garbage = bent (perm s) k c) /\
    err s = false.
Proof.
  intros ids mx ops s. pose proof (reachable_inv ids mx ops) as I. fold s in I.
  pose proof (I_lru s I) as HL.
  split; [apply I|]. split; [apply I|]. split; [apply I|]. split; [exact HL|]. split; apply I.
Qed.
Print Assumptions C09_every_history_sound.

Theorem C09_row_returns_true_entries :
  forall ids mx ops k e, let s := run (init ids mx) ops in
    wf_op s (ORow k e) = true ->
    let s' := step s (ORow k e) in
    perm s' = perm s /\ forall c, c < e -> nth c (line s' k) garbage = bent (perm s) k c.
Proof. intros. apply row_returns_true_entries; auto. apply reachable_inv. Qed.
Print Assumptions C09_row_returns_true_entries.

Theorem C09_const_row_returns_true_entries :
  forall ids mx ops k e, let s := run (init ids mx) ops in
    length (cm_row_const k e s) = e /\
    forall c, c < e -> nth c (cm_row_const k e s) garbage = bent (perm s) k c.
Proof. intros. apply const_row_returns_true_entries. apply reachable_inv. Qed.
Print Assumptions C09_const_row_returns_true_entries.

(* the previously requested row stays valid while the next one is fetched whenever capacity allows
   both; the Example in C09Proofs.v (two_rows_example) shows the premises are satisfiable and that
   an older third line is evicted instead. *)
Theorem C09_two_rows_valid :
  forall ids mx ops i a j b, let s := run (init ids mx) ops in
    i <> j -> wf_op s (ORow i a) = true ->
    let s1 := step s (ORow i a) in
    wf_op s1 (ORow j b) = true ->
    linelen s1 i + b <= cmax s ->
    let s2 := step s1 (ORow j b) in
    line s2 i = line s1 i /\ a <= linelen s2 i.
Proof. intros. apply two_rows_valid; auto. apply reachable_inv. Qed.
Print Assumptions C09_two_rows_valid.

Theorem C09_flip_is_transposition_of_order :
  forall ids mx ops i j, let s := run (init ids mx) ops in
    wf_op s (OFlip i j) = true -> perm (step s (OFlip i j)) = swapl 0 i j (perm s).
Proof.
  intros ids mx ops i j s W. unfold step. rewrite W. simpl in W.
  apply andb_prop in W. destruct W as [W1 W2]. apply Nat.ltb_lt in W1, W2.
  apply cm_flip_inv; auto. apply reachable_inv.
Qed.
Print Assumptions C09_flip_is_transposition_of_order.

Theorem C09_clear_empties :
  forall ids mx ops, csize (step (run (init ids mx) ops) OClear) = 0.
Proof. intros. unfold step. simpl. apply clear_empties. apply reachable_inv. Qed.
Print Assumptions C09_clear_empties.

(* ---- derived matrices: regularised / label-modified / precomputed matrices agree entry-wise with
   direct kernel evaluation of the ORIGINAL examples now sitting at the two positions, after any
   history of flips ---- *)
Theorem C09_regularized_matrix_entries :
  forall (k0 : nat -> nat -> Z) n d0 l0 fl i j,
    length d0 = n -> length l0 = n -> valid_flips n fl -> i < n -> j < n ->
    let s := dflips fl (dinit n d0 l0) in
    e_reg k0 s i j = (k0 (p s i) (p s j) + (if Nat.eqb i j then nth (p s i) d0 0 else 0))%Z.
Proof. exact e_reg_spec. Qed.
Print Assumptions C09_regularized_matrix_entries.

Theorem C09_modified_matrix_entries :
  forall (k0 : nat -> nat -> Z) n d0 l0 fl eq ne i j,
    length d0 = n -> length l0 = n -> valid_flips n fl -> i < n -> j < n ->
    let s := dflips fl (dinit n d0 l0) in
    e_mod k0 eq ne s i j =
    ((if Nat.eqb (nth (p s i) l0 0%nat) (nth (p s j) l0 0%nat) then eq else ne) * k0 (p s i) (p s j))%Z.
Proof. exact e_mod_spec. Qed.
Print Assumptions C09_modified_matrix_entries.

(* ExampleModifiedKernelMatrix with per-example scaling coefficients 2^l (scaled by 16) *)
Theorem C09_example_modified_matrix_entries :
  forall (k0 : nat -> nat -> Z) n d0 l0 fl i j,
    length d0 = n -> length l0 = n -> valid_flips n fl -> i < n -> j < n ->
    let s := dflips fl (dinit n d0 l0) in
    e_ex k0 s i j = (k0 (p s i) (p s j) * 2 ^ (4 - Z.of_nat (nth (p s i) l0 0%nat) - Z.of_nat (nth (p s j) l0 0%nat)))%Z.
Proof. exact e_ex_spec. Qed.
Print Assumptions C09_example_modified_matrix_entries.

Theorem C09_flip_orders_are_permutations :
  forall n d0 l0 fl, length d0 = n -> length l0 = n -> valid_flips n fl ->
    Permutation.Permutation (pos (dflips fl (dinit n d0 l0))) (seq 0 n).
Proof. intros. apply (D_perm n d0 l0). apply dflips_inv; auto. Qed.
Print Assumptions C09_flip_orders_are_permutations.

Theorem C09_precomputed_matrix_flip :
  forall n (m : mat) i j a b,
    length m = n -> (forall r, r < n -> length (nth r m []) = n) -> i < n -> j < n -> a < n -> b < n ->
    m_entry (m_flip i j m) a b = m_entry m (tr i j a) (tr i j b).
Proof. exact m_flip_spec. Qed.
Print Assumptions C09_precomputed_matrix_flip.
