(* C09 — Kernel-matrix caches return the true entries and respect their memory bound.
   Only statements + `exact`; the proofs live in C09Proofs.v, the executable model in C09Model.v. *)
From Coq Require Import List Arith.
From SharkV Require Import ListAux C09Model C09Proofs.
Import ListNotations.

(* Every state reachable by any finite history of (precondition-respecting) operations from an
   empty cache of any capacity over any matrix size: capacity bound, exact size accounting, the LRU
   list lists exactly the cached lines once, every cached cell holds the true entry under the
   current variable order, and the model never reached the C++'s undefined behaviour
   (back() of an empty list). *)
Theorem C09_every_history_sound :
  forall ids mx ops, let s := run (init ids mx) ops in
    csize s <= cmax s /\
    csize s = tot (ents s) /\
    NoDup (lru s) /\
    (forall k, In k (lru s) <-> k < size s /\ linelen s k <> 0) /\
    (forall k c, c < linelen s k -> nth c (line s k) garbage = bent (perm s) k c) /\
    err s = false.
Proof.
  intros ids mx ops s. pose proof (reachable_inv ids mx ops) as I. fold s in I.
  pose proof (I_lru s I) as HL.
  split; [apply I|]. split; [apply I|]. split; [apply I|]. split; [exact HL|]. split; apply I.
Qed.
Print Assumptions C09_every_history_sound.

Theorem C09_row_returns_true_entries :
  forall ids mx ops k e, let s := run (init ids mx) ops in
    wf_op s (ORow k e) = true ->
    let s' := step s (ORow k e) in
    perm s' = perm s /\ forall c, c < e -> nth c (line s' k) garbage = bent (perm s) k c.
Proof. intros. apply row_returns_true_entries; auto. apply reachable_inv. Qed.
Print Assumptions C09_row_returns_true_entries.

Theorem C09_const_row_returns_true_entries :
  forall ids mx ops k e, let s := run (init ids mx) ops in
    length (cm_row_const k e s) = e /\
    forall c, c < e -> nth c (cm_row_const k e s) garbage = bent (perm s) k c.
Proof. intros. apply const_row_returns_true_entries. apply reachable_inv. Qed.
Print Assumptions C09_const_row_returns_true_entries.

(* the previously requested row stays valid while the next one is fetched whenever capacity allows
   both; the Example in C09Proofs.v (two_rows_example) shows the premises are satisfiable and that
   an older third line is evicted instead. *)
Theorem C09_two_rows_valid :
  forall ids mx ops i a j b, let s := run (init ids mx) ops in
    i <> j -> wf_op s (ORow i a) = true ->
    let s1 := step s (ORow i a) in
    wf_op s1 (ORow j b) = true ->
    linelen s1 i + b <= cmax s ->
    let s2 := step s1 (ORow j b) in
    line s2 i = line s1 i /\ a <= linelen s2 i.
Proof. intros. apply two_rows_valid; auto. apply reachable_inv. Qed.
Print Assumptions C09_two_rows_valid.

Theorem C09_flip_is_transposition_of_order :
  forall ids mx ops i j, let s := run (init ids mx) ops in
    wf_op s (OFlip i j) = true -> perm (step s (OFlip i j)) = swapl 0 i j (perm s).
Proof.
  intros ids mx ops i j s W. unfold step. rewrite W. simpl in W.
  apply andb_prop in W. destruct W as [W1 W2]. apply Nat.ltb_lt in W1, W2.
  apply cm_flip_inv; auto. apply reachable_inv.
Qed.
Print Assumptions C09_flip_is_transposition_of_order.

Theorem C09_clear_empties :
  forall ids mx ops, csize (step (run (init ids mx) ops) OClear) = 0.
Proof. intros. unfold step. simpl. apply clear_empties. apply reachable_inv. Qed.
Print Assumptions C09_clear_empties.
