(* C02 — conjugate-gradient solver (remora cg_solver, solve(A,b,conjugate_gradient(eps,maxit))): executable model, definitions only.

   Mirrors  /repo/include/shark/LinAlg/BLAS/decompositions.hpp  cg_solver::cg (vector and matrix version) and cg_solver::solve,
   as repaired (25be1238: return before the loop when the start vector is already within eps):
     vector version   residual = b - A x; if norm_inf(residual) > norm_inf(b) { x = 0; residual = b }; if norm_inf(residual) < eps return;
                      p = residual; for(iter = 0;; ++iter){ if(maxit != 0 && iter >= maxit) break; Ap = A p; rsqr = r.r; alpha = rsqr/(p.Ap);
                      x += alpha p; next = r - alpha Ap; if(norm_inf(next) < eps) break; beta = next.next/rsqr; p = p*beta + next; swap(r,next) }
                                                                                     -> [cg_loop], [cg_vec]; solve(b): x0 = b -> [cg_solve_v]
     matrix version   the test `norm_inf(column(residual,i)) <= norm_inf(column(residual,i))` is always true: every column starts from
                      X = 0, residual = B; per iteration every column whose maintained residual is not yet < eps makes the same step
                      (and always updates p and r); the loop ends when all residuals are < eps or at maxit.  A finished column is
                      never touched again, so each column is an independent run                 -> [cgm_loop], [cg_col]
   The loop has no bound when maxit = 0: the model takes FUEL and reports StopFuel when it runs out (C02CgProofs shows what is
   needed for termination).  norm_inf = max_i |v_i| (fabs = std::abs).
   GHOST: the result carries the list of the denominators met (rsqr and p.Ap of every iteration), for the well-definedness theorem. *)
From Coq Require Import List Arith Bool.
From SharkV Require Import C02Model.
Import ListNotations.

Section Cg.
Variable A : Type.
Variable F : ops A.
Variable fabs : A -> A.
Local Notation "0" := (fzero F).
Local Infix "+" := (fadd F).
Local Infix "*" := (fmul F).
Local Infix "-" := (fsub F).
Local Infix "/" := (fdiv F).
Local Notation mat := (mat A).
Local Notation vec := (vec A).
Local Notation sumr := (sumr A F).
Local Notation memo := (memo A F).

Definition dot (n : nat) (u v : vec) : A := sumr 0 n (fun i => u i * v i).
Definition cg_mv (n : nat) (M : mat) (p : vec) : vec := memo n (fun i => sumr 0 n (fun j => M i j * p j)).
(* max_i |v_i| over i < k *)
Fixpoint ninf (k : nat) (v : vec) : A :=
  match k with
  | O => 0
  | S k' => let m := ninf k' v in let a := fabs (v k') in if fltb F m a then a else m
  end.

Inductive cgwhy := StopInit | StopEps | StopMaxit | StopFuel.
Record cgout := mkCg { cg_x : vec; cg_r : vec; cg_iters : nat; cg_why : cgwhy; cg_dens : list A }.

(* the loop of the vector version; iter = number of steps done *)
Fixpoint cg_loop (fuel n : nat) (M : mat) (eps : A) (maxit iter : nat) (x r p : vec) (dens : list A) : cgout :=
  match fuel with
  | O => mkCg x r iter StopFuel dens
  | S f =>
    if negb (Nat.eqb maxit 0) && Nat.leb maxit iter then mkCg x r iter StopMaxit dens
    else
      let Ap := cg_mv n M p in
      let rsqr := dot n r r in
      let pAp := dot n p Ap in
      let alpha := rsqr / pAp in
      let x' := memo n (fun i => x i + alpha * p i) in
      let nr := memo n (fun i => r i - alpha * Ap i) in
      let dens' := dens ++ [pAp; rsqr] in
      if fltb F (ninf n nr) eps then mkCg x' nr (S iter) StopEps dens'
      else
        let beta := dot n nr nr / rsqr in
        let p' := memo n (fun i => p i * beta + nr i) in
        cg_loop f n M eps maxit (S iter) x' nr p' dens'
  end.

(* cg(A, x, b, eps, maxit), vector version, start vector x0 *)
Definition cg_vec (fuel n : nat) (M : mat) (eps : A) (maxit : nat) (x0 b : vec) : cgout :=
  let Ax := cg_mv n M x0 in
  let r0 := memo n (fun i => b i - Ax i) in
  let worse := fltb F (ninf n b) (ninf n r0) in
  let x := if worse then (fun _ : nat => 0) else x0 in
  let r := if worse then b else r0 in
  if fltb F (ninf n r) eps then mkCg x r O StopInit []
  else cg_loop fuel n M eps maxit O x r r [].
(* cg_solver::solve(b, side): x = b; cg(A,x,b); b = x *)
Definition cg_solve_v (fuel n : nat) (M : mat) (eps : A) (maxit : nat) (b : vec) : cgout := cg_vec fuel n M eps maxit b b.

(* one column of the matrix version *)
Fixpoint cgm_loop (fuel n : nat) (M : mat) (eps : A) (maxit iter : nat) (x r p : vec) (dens : list A) : cgout :=
  match fuel with
  | O => mkCg x r iter StopFuel dens
  | S f =>
    if negb (Nat.eqb maxit 0) && Nat.leb maxit iter then mkCg x r iter StopMaxit dens
    else if fltb F (ninf n r) eps then mkCg x r iter (match iter with O => StopInit | _ => StopEps end) dens
    else
      let Ap := cg_mv n M p in
      let rsqr := dot n r r in
      let pAp := dot n p Ap in
      let alpha := rsqr / pAp in
      let x' := memo n (fun i => x i + alpha * p i) in
      let nr := memo n (fun i => r i - alpha * Ap i) in
      let beta := dot n nr nr / rsqr in
      let p' := memo n (fun i => p i * beta + nr i) in
      cgm_loop f n M eps maxit (S iter) x' nr p' (dens ++ [pAp; rsqr])
  end.
Definition cg_col (fuel n : nat) (M : mat) (eps : A) (maxit : nat) (b : vec) : cgout :=
  cgm_loop fuel n M eps maxit O (fun _ => 0) b b [].

End Cg.
