(* C01 — the dense blocked assignment kernels for operands of OPPOSITE orientation
   (kernels/default/matrix_assign.hpp: matrix_assign(row_major, column_major, dense, dense) with 8 x 8 blocks and
   matrix_assign_functor(row_major, column_major, dense, dense) with 16 x 16 blocks), loop structure as coded:

     for (iblock = 0; iblock < size1; iblock += blockSize)
       for (jblock = 0; jblock < size2; jblock += blockSize) {
         blockSizei = min(blockSize, size1 - iblock);  blockSizej = min(blockSize, size2 - jblock);
         for (j < blockSizej) for (i < blockSizei) blockStorage[i][j] = e(iblock+i, jblock+j);
         for (i < blockSizei) for (j < blockSizej) m(iblock+i, jblock+j) = f(m(iblock+i, jblock+j), blockStorage[i][j]);
       }

   The plain kernel is the same nest with f(x,y) = y.  Matrices are functions of (row, column); the block buffer is
   a function too (its initial content - uninitialised memory in C++ - is irrelevant: theorem).  Definitions only. *)
From Coq Require Import ZArith List Bool Arith Lia.
Import ListNotations.
Open Scope Z_scope.

Definition fmat := nat -> nat -> Z.
Definition fset (m : fmat) (i j : nat) (v : Z) : fmat :=
  fun a b => if (a =? i)%nat && (b =? j)%nat then v else m a b.

(* for (x = k; n iterations; ++x) s = body x s *)
Fixpoint for_n {S : Type} (n k : nat) (body : nat -> S -> S) (s : S) : S :=
  match n with
  | O => s
  | Datatypes.S n' => for_n n' (Datatypes.S k) body (body k s)
  end.

(* for (start = ..; start < size; start += bs) s = body start min(bs, size-start) s;  at most `fuel` iterations
   (size iterations suffice when bs >= 1) *)
Fixpoint for_blocks {S : Type} (fuel start size bs : nat) (body : nat -> nat -> S -> S) (s : S) : S :=
  match fuel with
  | O => s
  | Datatypes.S fuel' =>
      if (start <? size)%nat
      then for_blocks fuel' (start + bs) size bs body (body start (Nat.min bs (size - start)) s)
      else s
  end.

Definition blk_kernel (bs : nat) (f : Z -> Z -> Z) (size1 size2 : nat) (e m : fmat) : fmat :=
  for_blocks size1 0 size1 bs (fun ib bi m1 =>
    for_blocks size2 0 size2 bs (fun jb bj m2 =>
      let block :=
        for_n bj 0 (fun j blk => for_n bi 0 (fun i blk' => fset blk' i j (e (ib + i) (jb + j))%nat) blk) (fun _ _ => 0) in
      for_n bi 0 (fun i m3 =>
        for_n bj 0 (fun j m4 => fset m4 (ib + i) (jb + j) (f (m4 (ib + i) (jb + j))%nat (block i j))) m3) m2) m1) m.

(* conversion from / to the list-of-major-lines representation used by the driver *)
Definition fmat_of_lines (rowmajor : bool) (d : list (list Z)) : fmat :=
  fun i j => if rowmajor then nth j (nth i d []) 0 else nth i (nth j d []) 0.
Definition lines_of_fmat (rowmajor : bool) (r c : nat) (m : fmat) : list (list Z) :=
  if rowmajor then map (fun i => map (fun j => m i j) (seq 0 c)) (seq 0 r)
  else map (fun j => map (fun i => m i j) (seq 0 r)) (seq 0 c).
