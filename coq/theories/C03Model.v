(* C03 — executable model of shark::Data / LabeledData batch containers (Dataset.h, Impl/Dataset.inl,
   DataView.h).  A dataset is its list of batches; every structural operation is a polymorphic list
   function, so it cannot look at the elements: LabeledData, which drives its input container and
   its label container separately with the same arguments, is modelled by applying the same function
   to both components (see C03Proofs.v, naturality => pairing).
   Definitions only. *)
From Coq Require Import List Arith Bool.
From SharkV Require Import ListAux.
Import ListNotations.

Definition sum (l : list nat) : nat := fold_right Nat.add 0 l.

(* detail::optimalBatchSizes(numElements, maximumBatchSize).
   numElements = 0 yields no batch (after the fix of finding F2; the pinned tree divided by zero);
   maximumBatchSize = 0 is outside the documented domain (division by zero) -> None. *)
Definition opt_sizes (n m : nat) : option (list nat) :=
  if m =? 0 then None
  else if n =? 0 then Some []
  else
    let b := n / m + (if n mod m =? 0 then 0 else 1) in
    let q := n / b in
    let r := n - b * q in
    Some (map (fun j => if j <? r then q + 1 else q) (seq 0 b)).

(* detail::batchPartitioning: (partitionStart, batchSizes) *)
Fixpoint batch_partitioning (psizes : list nat) (m : nat) (nb : nat) : option (list nat * list nat) :=
  match psizes with
  | [] => Some ([], [])
  | p :: ps =>
    match opt_sizes p m with
    | None => None
    | Some bs =>
      match batch_partitioning ps m (nb + length bs) with
      | None => None
      | Some (st, rest) => Some (nb :: st, bs ++ rest)
      end
    end
  end.

Section Poly.
Context {A : Type}.

Definition data := list (list A).

Definition elems (d : data) : list A := concat d.
Definition nelems (d : data) : nat := length (elems d).
Definition sizes (d : data) : list nat := map (@length A) d.

(* cut a list into consecutive pieces of the given sizes *)
Fixpoint chunk (szs : list nat) (l : list A) : data :=
  match szs with
  | [] => []
  | s :: ss => firstn s l :: chunk ss (skipn s l)
  end.

(* createDataFromRange(range, maximumBatchSize): maximumBatchSize = 0 means one batch; the range must
   be non-empty (SIZE_CHECK) *)
Definition create (l : list A) (m : nat) : option data :=
  match l with
  | [] => None
  | _ => match opt_sizes (length l) (if m =? 0 then length l else m) with
         | None => None
         | Some s => Some (chunk s l)
         end
  end.

(* SharedContainer::repartition(batchSizes), requires sum = numberOfElements *)
Definition repartition (szs : list nat) (d : data) : option data :=
  if sum szs =? nelems d then Some (chunk szs (elems d)) else None.

(* Data::splitBatch(batch, elementIndex): nothing happens when one side would be empty *)
Definition split_batch (b k : nat) (d : data) : option data :=
  if b <? length d then
    let src := nth b d [] in
    if length src <? k then None
    else if (k =? 0) || (k =? length src) then Some d
    else Some (firstn b d ++ [firstn k src; skipn k src] ++ skipn (S b) d)
  else None.

(* Data::splice(batch): (remaining left part, returned right part) *)
Definition splice (b : nat) (d : data) : option (data * data) :=
  if b <=? length d then Some (firstn b d, skipn b d) else None.

Definition append (d1 d2 : data) : data := d1 ++ d2.

(* Data::reorderElements(indices): gather, batch structure kept *)
Definition reorder (dflt : A) (idx : list nat) (d : data) : option data :=
  if (length idx =? nelems d) && forallb (fun i => i <? nelems d) idx
  then Some (chunk (sizes d) (map (fun i => nth i (elems d) dflt) idx))
  else None.

(* Data::indexedSubset(indices) over batch indices *)
Definition indexed_subset (idx : list nat) (d : data) : option data :=
  if forallb (fun i => i <? length d) idx then Some (map (fun i => nth i d []) idx) else None.

(* detail::complement(set, n): sorted indices of [0,n) not in set *)
Definition complement (idx : list nat) (n : nat) : list nat :=
  filter (fun i => negb (existsb (Nat.eqb i) idx)) (seq 0 n).

(* splitAtElement(data, elementIndex): find the batch, split it if necessary, splice *)
Fixpoint find_batch (szs : list nat) (k pos : nat) : nat * nat :=   (* (batchPos, batchStart) *)
  match szs with
  | [] => (pos, 0)
  | s :: ss => if s <? k then let '(p, st) := find_batch ss (k - s) (S pos) in (p, st + s) else (pos, 0)
  end.

Definition split_at_element (k : nat) (d : data) : option (data * data) :=
  if k <=? nelems d then
    match d with
    | [] => Some ([], [])
    | _ =>
      let '(bp, st) := find_batch (sizes d) k 0 in
      let sp := k - st in
      if sp =? 0 then splice bp d
      else match split_batch bp sp d with
           | None => None
           | Some d' => splice (S bp) d'
           end
    end
  else None.

(* element access: Data::element(i) and the element iterator *)
Definition element (i : nat) (d : data) : option A := nth_error (elems d) i.

(* DataElementIterator state: (batchPosition, elementPosition, positionInSequence) *)
Definition iter := (nat * nat * nat)%type.
Definition it_begin : iter := (0, 0, 0).
Definition it_deref (d : data) (it : iter) : option A :=
  let '(b, e, _) := it in nth_error (nth b d []) e.

Definition it_incr (d : data) (it : iter) : iter :=
  let '(b, e, p) := it in
  if S e =? length (nth b d []) then (S b, 0, S p) else (b, S e, S p).

Definition it_decr (d : data) (it : iter) : iter :=
  let '(b, e, p) := it in
  if e =? 0 then (b - 1, length (nth (b - 1) d []) - 1, p - 1) else (b, e - 1, p - 1).

(* advance(n) for n >= 0: fuel = number of batches *)
Fixpoint adv_fwd (fuel : nat) (d : data) (b npos : nat) : nat * nat :=
  match fuel with
  | 0 => (b, npos)
  | S f => if (negb (npos =? 0)) && (length (nth b d []) <=? npos)
           then adv_fwd f d (S b) (npos - length (nth b d [])) else (b, npos)
  end.

Fixpoint adv_bwd (fuel : nat) (d : data) (b npos : nat) : nat * nat :=
  match fuel with
  | 0 => (b, npos)
  | S f => if (negb (npos =? 0)) && (length (nth b d []) <=? npos)
           then adv_bwd f d (b - 1) (npos - length (nth b d [])) else (b, npos)
  end.

(* it + n (n given as sign and magnitude) *)
Definition it_advance (d : data) (it : iter) (neg : bool) (n : nat) : iter :=
  let '(b, e, p) := it in
  if neg then
    (* n' = e - n *)
    if n <=? e then
      if n =? e then (b, 0, p - n)
      else let '(b', np) := adv_fwd (S (length d)) d b (e - n) in (b', np, p - n)
    else
      let npos := n - e - 1 in
      let '(b', np) := adv_bwd (S (length d)) d (b - 1) npos in
      (b', length (nth b' d []) - 1 - np, p - n)
  else
    if n + e =? 0 then (b, 0, p)
    else let '(b', np) := adv_fwd (S (length d)) d b (n + e) in (b', np, p + n).

End Poly.

(* transform(data, f): element-wise map, batch structure kept *)
Definition transform {A B} (f : A -> B) (d : @data A) : @data B := map (map f) d.

(* ---- labelled data: two containers driven in lock-step ---- *)
Record labeled (I L : Type) := mkL { inputs : @data I; labels : @data L }.
Arguments mkL {I L}. Arguments inputs {I L}. Arguments labels {I L}.

Definition lift2 {I L} (f : forall X, @data X -> option (@data X)) (d : labeled I L) : option (labeled I L) :=
  match f I (inputs d), f L (labels d) with
  | Some a, Some b => Some (mkL a b)
  | _, _ => None
  end.

(* classSizes(labels): count per class up to the maximal label *)
Definition class_sizes (ls : list nat) : list nat :=
  match ls with
  | [] => []
  | _ => map (fun c => length (filter (Nat.eqb c) ls)) (seq 0 (S (fold_right Nat.max 0 ls)))
  end.

(* repartitionByClass: new partitioning by class counts, then the stable gather index *)
Definition class_order (ls : list nat) : list nat :=
  flat_map (fun c => filter (fun i => nth i ls 0 =? c) (seq 0 (length ls)))
           (seq 0 (S (fold_right Nat.max 0 ls))).

Definition repartition_by_class {I} (dI : I) (m : nat) (d : labeled I nat) : option (labeled I nat) :=
  let ls := elems (labels d) in
  match batch_partitioning (class_sizes ls) m 0 with
  | None => None
  | Some (_, part) =>
    match repartition part (inputs d), repartition part (labels d) with
    | Some a, Some b =>
      let idx := class_order ls in
      match reorder dI idx a, reorder 0 idx b with
      | Some a', Some b' => Some (mkL a' b')
      | _, _ => None
      end
    | _, _ => None
    end
  end.
