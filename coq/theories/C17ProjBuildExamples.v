(* C17 — the hypotheses of the construction theorems for projection trees are satisfiable (Qc, one-dimensional data:
   all squared distances are squares of integers, so a square root exists in Qc). *)
From Coq Require Import List Bool Arith ZArith QArith Qcanon Permutation.
From SharkV Require Import C17Model C17Build C17Field C17Gen C17Proj C17ProjProofs C17ProjBuild C17ProjBuildProofs
  C17ProjChooseProofs C17ProjExamples.
Import ListNotations.

(* square root of the squares of 0 .. 12 *)
Definition exsq (x : Qc) : Qc :=
  match find (fun n => if Qc_eq_dec (zq n * zq n) x then true else false) (map Z.of_nat (seq 0 13)) with
  | Some n => zq n
  | None => x
  end.
Definition exF1 : fops Qc := qc_fops exsq.
Definition ex1_data : list (apoint Qc) := [zpt [0]; zpt [4]; zpt [4]; zpt [10]; zpt [1]; zpt [4]]%Z.

Lemma ex1_sqrt_ok : forall a b, sqrt_ok Qc exF1 (lc_d2 Qc exF1 ex1_data a b).
Proof.
  intros a b H.
  do 6 (destruct a as [|a]; [do 6 (destruct b as [|b]; [try (vm_compute in H; discriminate); apply Qc_is_canon; vm_compute; reflexivity|]);
                              destruct b; vm_compute in H; discriminate|]).
  destruct a; do 7 (try destruct b as [|b]); vm_compute in H; discriminate.
Qed.

Example lc_build_example :
  uniformA Qc 1 ex1_data /\ ex1_data <> [] /\
  (forall a b, sqrt_ok Qc exF1 (lc_d2 Qc exF1 ex1_data a b)) /\
  aoracle_ok Qc exF1 (aksort Qc exF1) /\
  choose_ok Qc exF1 (fun i => dimdom Qc 1 (ptA Qc ex1_data i)) (lc_d2 Qc exF1 ex1_data) (lc_coded_choose Qc exF1 25 ex1_data) /\
  pindices (lcnode Qc) (lc_build Qc exF1 ex1_data (lc_coded_choose Qc exF1 25 ex1_data) (aksort Qc exF1)) = [0; 4; 1; 2; 5; 3]%nat /\
  show (lc_query Qc exF1 ex1_data (lc_build Qc exF1 ex1_data (lc_coded_choose Qc exF1 25 ex1_data) (aksort Qc exF1)) (zpt [3]) 4) =
    [(1#1, 1%nat); (1#1, 2%nat); (1#1, 5%nat); (4#1, 4%nat)]%Q.
Proof.
  split; [repeat constructor|]. split; [discriminate|]. split; [exact ex1_sqrt_ok|].
  split; [apply (aksort_oracle_ok Qc exF1 (qc_olaws exsq))|].
  split; [apply (lc_coded_choose_ok Qc exF1 (qc_olaws exsq)); [discriminate | exact ex1_sqrt_ok]|].
  split; vm_compute; reflexivity.
Qed.
