(* C03 — repartitionByClass orders the elements class by class (ascending label, stable inside a class)
   and cuts the batches so that no batch mixes classes; the loops of the C++ function (prefix sums +
   one scatter pass) compute exactly that order. *)
From Coq Require Import List Arith Lia Bool Permutation Sorted.
From SharkV Require Import ListAux C03Model C03Proofs C12Model C12Proofs C03Class.
Import ListNotations.

(* ---------- StronglySorted helpers ---------- *)
Section SS.
Context {A : Type}.
Implicit Types (R : A -> A -> Prop).

Lemma SS_app_inv R a b :
  StronglySorted R (a ++ b) ->
  StronglySorted R a /\ StronglySorted R b /\ (forall x y, In x a -> In y b -> R x y).
Proof.
  induction a as [|x a IH]; simpl; intros H.
  - split; [constructor|]. split; auto. intros ? ? [].
  - inversion H as [|? ? H1 H2]; subst. destruct (IH H1) as (Ia & Ib & Ic).
    rewrite Forall_app in H2. destruct H2 as [F1 F2]. rewrite Forall_forall in F2.
    split; [constructor; auto|]. split; auto. intros u v [<-|Hu] Hv; auto.
Qed.

Lemma SS_app_intro R a b :
  StronglySorted R a -> StronglySorted R b -> (forall x y, In x a -> In y b -> R x y) ->
  StronglySorted R (a ++ b).
Proof.
  induction a as [|x a IH]; simpl; intros Ha Hb Hc; auto.
  inversion Ha as [|? ? H1 H2]; subst. constructor.
  - apply IH; auto.
  - rewrite Forall_app. split; auto. rewrite Forall_forall. intros y Hy. apply Hc; auto.
Qed.

Lemma SS_filter R f l : StronglySorted R l -> StronglySorted R (filter f l).
Proof.
  induction 1 as [|x l H IH F]; simpl; [constructor|].
  destruct (f x); auto. constructor; auto.
  rewrite Forall_forall in *. intros y Hy. apply filter_In in Hy. apply F. tauto.
Qed.

Lemma SS_impl_in R R' l :
  (forall x y, In x l -> In y l -> R x y -> R' x y) -> StronglySorted R l -> StronglySorted R' l.
Proof.
  intros Himp H. induction H as [|x l H IH F]; [constructor|].
  constructor.
  - apply IH. intros u v Hu Hv. apply Himp; right; auto.
  - rewrite Forall_forall in *. intros y Hy. apply Himp; [left; auto|right; auto|auto].
Qed.

(* a list sorted by an asymmetric relation is determined by its multiset *)
Lemma SS_perm_unique R a b :
  (forall x y, R x y -> R y x -> False) ->
  StronglySorted R a -> StronglySorted R b -> Permutation a b -> a = b.
Proof.
  intros Asym. revert b. induction a as [|x a IH]; intros b Ha Hb P.
  - apply Permutation_nil in P. auto.
  - destruct b as [|y b]; [apply Permutation_sym, Permutation_nil in P; discriminate|].
    inversion Ha as [|? ? Ha1 Ha2]; subst. inversion Hb as [|? ? Hb1 Hb2]; subst.
    rewrite Forall_forall in Ha2, Hb2.
    assert (x = y) as ->.
    { assert (In x (y :: b)) as Hx by (eapply Permutation_in; [exact P|left; auto]).
      assert (In y (x :: a)) as Hy by (eapply Permutation_in; [apply Permutation_sym; exact P|left; auto]).
      destruct Hx as [|Hx]; auto. destruct Hy as [|Hy]; auto.
      exfalso. apply (Asym x y); auto. }
    f_equal. apply IH; auto. eapply Permutation_cons_inv; eauto.
Qed.
End SS.

Lemma SS_map {A B} (f : A -> B) (R : B -> B -> Prop) l :
  StronglySorted (fun x y => R (f x) (f y)) l -> StronglySorted R (map f l).
Proof.
  induction 1 as [|x l H IH F]; simpl; constructor; auto.
  rewrite Forall_forall in *. intros y Hy. apply in_map_iff in Hy. destruct Hy as (u & <- & Hu). auto.
Qed.

Lemma SS_lt_seq a n : StronglySorted lt (seq a n).
Proof.
  revert a; induction n as [|n IH]; intros a; simpl; constructor; auto.
  rewrite Forall_forall. intros y Hy. apply in_seq in Hy. lia.
Qed.

(* ---------- the order of group_by: by key, then by original position ---------- *)
Definition lex_order (g : nat -> nat) (i j : nat) : Prop := g i < g j \/ (g i = g j /\ i < j).

Lemma lex_order_asym g x y : lex_order g x y -> lex_order g y x -> False.
Proof. unfold lex_order. lia. Qed.

Lemma group_by_sorted g cs l :
  StronglySorted lt cs -> StronglySorted lt l -> StronglySorted (lex_order g) (group_by g cs l).
Proof.
  intros Hcs Hl. induction Hcs as [|c cs Hcs IH F]; [constructor|].
  change (group_by g (c :: cs) l) with (filter (fun i => g i =? c) l ++ group_by g cs l).
  apply SS_app_intro; auto.
  - apply SS_impl_in with (R := lt); [|apply SS_filter; auto].
    intros x y Hx Hy Hlt. apply filter_In in Hx, Hy. destruct Hx as [_ Hx]. destruct Hy as [_ Hy].
    apply Nat.eqb_eq in Hx, Hy. right. lia.
  - intros x y Hx Hy. apply filter_In in Hx. destruct Hx as [_ Hx]. apply Nat.eqb_eq in Hx.
    apply group_by_keys in Hy. destruct Hy as [Hy _]. rewrite Forall_forall in F. apply F in Hy.
    left. lia.
Qed.

Definition label_at (ls : list nat) (i : nat) : nat := nth i ls 0.

Theorem class_order_sorted ls : StronglySorted (lex_order (label_at ls)) (class_order ls).
Proof. unfold class_order. apply (group_by_sorted (label_at ls)); apply SS_lt_seq. Qed.

(* the stable sort by class label is the only index vector with these two properties *)
Theorem class_order_unique ls idx :
  Permutation idx (seq 0 (length ls)) -> StronglySorted (lex_order (label_at ls)) idx ->
  idx = class_order ls.
Proof.
  intros P S. apply (SS_perm_unique (lex_order (label_at ls))); auto.
  - apply lex_order_asym.
  - apply class_order_sorted.
  - rewrite P. symmetry. apply class_order_perm.
Qed.

Lemma lex_order_le g l : StronglySorted (lex_order g) l -> StronglySorted le (map g l).
Proof.
  intros H. apply SS_map. eapply SS_impl_in; [|exact H]. unfold lex_order. intros; lia.
Qed.

(* ---------- batches: chunking by the partitioning of the piece sizes never crosses a piece ---------- *)
Section Chunks.
Context {A : Type}.

Lemma chunk_incl szs (l : list A) b : In b (chunk szs l) -> incl b l.
Proof.
  revert l; induction szs as [|s ss IH]; intros l H; simpl in H; [destruct H|].
  destruct H as [<-|H].
  - intros x Hx. rewrite <- (firstn_skipn s l). apply in_or_app. auto.
  - apply IH in H. intros x Hx. rewrite <- (firstn_skipn s l). apply in_or_app. right. auto.
Qed.

Lemma chunk_app_le szs (a b : list A) : sum szs <= length a -> chunk szs (a ++ b) = chunk szs a.
Proof.
  revert a; induction szs as [|s ss IH]; intros a H; simpl in *; auto.
  rewrite firstn_app, skipn_app. replace (s - length a) with 0 by lia. simpl. rewrite app_nil_r.
  f_equal. apply IH. rewrite skipn_length. lia.
Qed.

Lemma chunk_self (d : @data A) : chunk (sizes d) (elems d) = d.
Proof.
  induction d as [|b d IH]; simpl; auto. unfold elems in *. simpl.
  rewrite firstn_app, firstn_all, Nat.sub_diag. simpl. rewrite app_nil_r. f_equal.
  rewrite skipn_app, skipn_all, Nat.sub_diag. simpl. exact IH.
Qed.

Lemma chunk_nonempty szs (l : list A) b :
  sum szs <= length l -> (forall s, In s szs -> 1 <= s) -> In b (chunk szs l) -> b <> [].
Proof.
  intros Hs Hp Hb. pose proof (chunk_sizes szs l Hs) as E.
  assert (In (length b) szs) as Hl by (rewrite <- E; unfold sizes; apply in_map; auto).
  apply Hp in Hl. destruct b; simpl in *; [lia|discriminate].
Qed.

Lemma partitioning_pieces psizes m : forall nb st bs (pieces : list (list A)),
  batch_partitioning psizes m nb = Some (st, bs) -> map (@length A) pieces = psizes ->
  sum bs = sum psizes /\ (forall s, In s bs -> 1 <= s <= m) /\
  Forall (fun b => b <> [] /\ exists pc, In pc pieces /\ incl b pc) (chunk bs (concat pieces)).
Proof.
  induction psizes as [|p ps IH]; intros nb st bs pieces H Hp; simpl in H.
  - injection H as <- <-. simpl. split; auto. split; [intros ? []|constructor].
  - destruct pieces as [|pc pcs]; [discriminate|]. simpl in Hp. injection Hp as Hp1 Hp2.
    destruct (opt_sizes p m) as [bs0|] eqn:E0; [|discriminate].
    destruct (batch_partitioning ps m (nb + length bs0)) as [[st' rest]|] eqn:E1; [|discriminate].
    injection H as <- <-.
    destruct (opt_sizes_spec _ _ _ E0) as (S0 & B0 & _ & _).
    destruct (IH _ _ _ pcs E1 Hp2) as (I1 & I2 & I3).
    split; [rewrite sum_app; simpl; lia|]. split.
    { intros s Hs. apply in_app_or in Hs. destruct Hs; auto. }
    simpl concat. rewrite chunk_app, S0, <- Hp1. rewrite skipn_app, skipn_all, Nat.sub_diag. simpl.
    rewrite chunk_app_le by lia. rewrite Forall_app. split.
    + rewrite Forall_forall. intros b Hb. split.
      * eapply chunk_nonempty; [| |exact Hb]; [lia|]. intros s Hs. apply B0 in Hs. lia.
      * exists pc. split; [left; auto|]. eapply chunk_incl; eauto.
    + eapply Forall_impl; [|exact I3]. intros b (N & pc' & Hin & Hincl). split; auto.
      exists pc'. split; [right; exact Hin|exact Hincl].
Qed.
End Chunks.

(* ---------- class-sorted batches: the precondition of binarySubProblem ---------- *)
Definition one_class (b : list nat) : Prop := b <> [] /\ forall x y, In x b -> In y b -> x = y.
Definition class_batched (lb : @data nat) : Prop :=
  Forall one_class lb /\ StronglySorted le (elems lb).

Lemma class_sizes_pieces ls : ls <> [] ->
  class_sizes ls =
  map (@length nat) (map (fun c => map (label_at ls) (filter (fun i => label_at ls i =? c) (seq 0 (length ls))))
                         (seq 0 (S (fold_right Nat.max 0 ls)))).
Proof.
  intros H. unfold class_sizes. destruct ls as [|x l]; [congruence|]. set (ls := x :: l).
  rewrite map_map. apply map_ext. intros c. rewrite map_length.
  pose proof (filter_seq_count ls c 0) as F. unfold count_eq in F. rewrite <- F.
  f_equal. apply filter_ext. intros i. unfold label_at. rewrite Nat.sub_0_r. reflexivity.
Qed.

Lemma class_order_labels ls :
  map (label_at ls) (class_order ls) =
  concat (map (fun c => map (label_at ls) (filter (fun i => label_at ls i =? c) (seq 0 (length ls))))
              (seq 0 (S (fold_right Nat.max 0 ls)))).
Proof.
  unfold class_order. rewrite flat_map_concat_map, concat_map, map_map. reflexivity.
Qed.

Theorem repartition_by_class_order {I} (dI : I) m (d d' : labeled I nat) :
  repartition_by_class dI m d = Some d' ->
  let ls := elems (labels d) in
  StronglySorted (lex_order (label_at ls)) (class_order ls) /\
  class_batched (labels d') /\
  (forall s, In s (sizes (labels d')) -> 1 <= s <= m) /\
  sizes (inputs d') = sizes (labels d').
Proof.
  intros H ls. unfold repartition_by_class in H. fold ls in H.
  split; [apply class_order_sorted|].
  destruct (batch_partitioning _ _ _) as [[st part]|] eqn:BP; [|discriminate].
  destruct (repartition part (inputs d)) as [a|] eqn:Ra; [|discriminate].
  destruct (repartition part (labels d)) as [b|] eqn:Rb; [|discriminate].
  destruct (reorder dI _ a) as [a'|] eqn:Oa; [|discriminate].
  destruct (reorder 0 _ b) as [b'|] eqn:Ob; [|discriminate].
  injection H as <-. simpl.
  destruct (repartition_spec _ _ _ Ra) as [Ea Sa]. destruct (repartition_spec _ _ _ Rb) as [Eb Sb].
  destruct (reorder_spec _ _ _ _ Oa) as [Ea' Sa']. destruct (reorder_spec _ _ _ _ Ob) as [Eb' Sb'].
  rewrite Eb in Eb'. fold ls in Eb', BP.
  assert (EL : elems b' = map (label_at ls) (class_order ls)) by exact Eb'.
  assert (Eb'' : b' = chunk part (map (label_at ls) (class_order ls))).
  { rewrite <- (chunk_self b'). rewrite Sb', Sb, EL. reflexivity. }
  split; [|split; [|congruence]].
  - split.
    + destruct ls as [|x l] eqn:Els.
      { simpl in BP. injection BP as <- <-. rewrite Eb''. simpl. constructor. }
      rewrite <- Els in *. assert (Hne : ls <> []) by (rewrite Els; discriminate).
      rewrite (class_sizes_pieces ls Hne) in BP.
      destruct (partitioning_pieces _ _ _ _ _ _ BP eq_refl) as (_ & _ & F).
      rewrite <- class_order_labels in F. rewrite <- Eb'' in F.
      eapply Forall_impl; [|exact F]. intros bt (N & pc & Hpc & Hincl). split; auto.
      apply in_map_iff in Hpc. destruct Hpc as (c & <- & _).
      assert (forall x, In x bt -> x = c) as Hc.
      { intros u Hu. apply Hincl in Hu. apply in_map_iff in Hu. destruct Hu as (i & <- & Hi).
        apply filter_In in Hi. destruct Hi as [_ Hi]. apply Nat.eqb_eq in Hi. auto. }
      intros u v Hu Hv. rewrite (Hc u Hu), (Hc v Hv). reflexivity.
    + rewrite EL. apply lex_order_le. apply class_order_sorted.
  - rewrite Sb', Sb.
    destruct ls as [|x l] eqn:Els.
    { simpl in BP. injection BP as <- <-. intros s []. }
    rewrite <- Els in *. assert (Hne : ls <> []) by (rewrite Els; discriminate).
    rewrite (class_sizes_pieces ls Hne) in BP.
    destruct (partitioning_pieces _ _ _ _ _ _ BP eq_refl) as (_ & B & _). exact B.
Qed.
