(* C11 — SimplexDownhill: the reported solution IS the first vertex of the sorted simplex (hence its value is the least vertex
   value), after init (as repaired by d2acfe00) and after every step.  Over Q, axiom-free. *)
From Coq Require Import List Arith Bool QArith Lia Lqa Permutation Sorted.
From SharkV Require Import C11Model C11DirectModel C11Proofs C11SimplexProofs.
Import ListNotations.
Set Implicit Arguments.

Section Best.
Variables (sq ex : Q -> Q) (pw : Q -> Q -> Q).
Notation QO := (QO sq ex pw).
Notation solQ := (sol Q).
Notation dflt := (sd_dflt QO).
Open Scope Q_scope.

Lemma ltb_true (a b : Q) : o_ltb QO a b = true <-> a < b.
Proof. cbn [o_ltb C11Proofs.QO]. apply Qltb_spec. Qed.
Lemma ltb_false (a b : Q) : o_ltb QO a b = false <-> b <= a.
Proof. cbn [o_ltb C11Proofs.QO]. apply Qltb_false. Qed.

(* the earliest minimal element, computed from the right *)
Fixpoint amin (a : solQ) (l : list solQ) : solQ :=
  match l with
  | [] => a
  | b :: t => let m := amin b t in if o_ltb QO (fst m) (fst a) then m else a
  end.

Lemma isort_cons_hd (a : solQ) l : exists r, isort QO (a :: l) = amin a l :: r.
Proof.
  revert a. induction l as [|b t IH]; intro a.
  - exists []. reflexivity.
  - destruct (IH b) as [r E]. change (isort QO (a :: b :: t)) with (insert QO a (isort QO (b :: t))).
    rewrite E. cbn [insert amin]. destruct (o_ltb QO (fst (amin b t)) (fst a)); eexists; reflexivity.
Qed.

Lemma hd_isort (a : solQ) l : hd dflt (isort QO (a :: l)) = amin a l.
Proof. destruct (isort_cons_hd a l) as [r E]. rewrite E. reflexivity. Qed.

Lemma amin_le_head a l : fst (amin a l) <= fst a.
Proof.
  revert a. induction l as [|b t IH]; intro a; cbn [amin]; [apply Qle_refl|].
  destruct (o_ltb QO (fst (amin b t)) (fst a)) eqn:D; [apply ltb_true in D; lra|apply Qle_refl].
Qed.

Lemma amin_le a l : Forall (fun v => fst (amin a l) <= fst v) l.
Proof.
  revert a. induction l as [|b t IH]; intro a; cbn [amin]; [constructor|].
  pose proof (amin_le_head b t) as Hb. pose proof (IH b) as Ht.
  destruct (o_ltb QO (fst (amin b t)) (fst a)) eqn:D.
  - constructor; auto.
  - apply ltb_false in D. constructor; [lra|]. eapply Forall_impl; [|exact Ht]. cbn beta. intros; lra.
Qed.

(* tracking from the left finds the same element *)
Lemma track_amin : forall l a, fold_left (sd_track QO) l a = amin a l.
Proof.
  induction l as [|b t IH]; intro a; cbn [fold_left amin]; auto.
  rewrite IH. unfold sd_track.
  destruct (o_ltb QO (fst b) (fst a)) eqn:D1.
  - apply ltb_true in D1. pose proof (amin_le_head b t).
    destruct (o_ltb QO (fst (amin b t)) (fst a)) eqn:D2; auto. apply ltb_false in D2. lra.
  - apply ltb_false in D1. destruct t as [|c t'].
    + cbn [amin]. destruct (o_ltb QO (fst b) (fst a)) eqn:D2; auto. apply ltb_true in D2. lra.
    + cbn [amin]. set (m := amin c t').
      destruct (o_ltb QO (fst m) (fst a)) eqn:D2; destruct (o_ltb QO (fst m) (fst b)) eqn:D3;
        try apply ltb_true in D2; try apply ltb_false in D2; try apply ltb_true in D3; try apply ltb_false in D3.
      * rewrite (proj2 (ltb_true _ _) D2). reflexivity.
      * lra.
      * rewrite (proj2 (ltb_false _ _) D2). reflexivity.
      * destruct (o_ltb QO (fst b) (fst a)) eqn:D4; auto. apply ltb_true in D4. lra.
Qed.

(* position-independent characterisation: an element that is strictly below everything before it and not above anything after it *)
Lemma amin_first a l : Forall (fun v => fst a <= fst v) l -> amin a l = a.
Proof.
  intro F. destruct l as [|b t]; cbn [amin]; auto.
  destruct (o_ltb QO (fst (amin b t)) (fst a)) eqn:D; auto. apply ltb_true in D.
  exfalso. inversion F as [|? ? Fb Ft]; subst.
  assert (fst a <= fst (amin b t)) as K.
  { clear D F. revert b Fb Ft. induction t as [|c t IH]; intros b Fb Ft; cbn [amin]; auto.
    inversion Ft as [|? ? Fc Ft']; subst.
    destruct (o_ltb QO (fst (amin c t)) (fst b)); auto. }
  lra.
Qed.

Lemma amin_app_strict : forall l1 a l2 b, Forall (fun v => fst a < fst v) (b :: l1) -> Forall (fun v => fst a <= fst v) l2 ->
  amin b (l1 ++ a :: l2) = a.
Proof.
  induction l1 as [|c t IH]; intros a l2 b F1 F2; cbn [app amin].
  - rewrite (@amin_first a l2 F2). inversion F1; subst. rewrite (proj2 (ltb_true _ _)); auto.
  - inversion F1 as [|? ? Fb Fr]; subst. rewrite (IH a l2 c Fr F2). rewrite (proj2 (ltb_true _ _)); auto.
Qed.

Lemma hd_isort_app_strict l1 a l2 : Forall (fun v => fst a < fst v) l1 -> Forall (fun v => fst a <= fst v) l2 ->
  hd dflt (isort QO (l1 ++ a :: l2)) = a.
Proof.
  intros F1 F2. destruct l1 as [|b t]; cbn [app]; rewrite hd_isort; [apply amin_first, F2|apply amin_app_strict; auto].
Qed.

(* sd_shrink tracks exactly the new vertices, in order *)
Lemma shrink_tracks (f : pvec Q -> Q) bp : forall rest b,
  snd (sd_shrink QO f bp rest b) = fold_left (sd_track QO) (fst (sd_shrink QO f bp rest b)) b.
Proof. induction rest as [|v t IH]; intro b; cbn [sd_shrink fst snd fold_left]; auto. Qed.

(* ---------------------------------------------------------------- the step keeps "reported = first sorted vertex" *)
Definition best_is_first (st : sd_state Q) := sd_best st = hd dflt (isort QO (sd_simplex st)).

Lemma sorted_head_le (q0 : solQ) rest : StronglySorted (fle (list Q)) (q0 :: rest) -> Forall (fun v => fst q0 <= fst v) rest.
Proof. intro S. apply StronglySorted_inv in S. exact (proj2 S). Qed.

Lemma firstn_forall (X : Type) (Pp : X -> Prop) n (l : list X) : Forall Pp l -> Forall Pp (firstn n l).
Proof.
  intro F. rewrite Forall_forall in *. intros x I. apply F. rewrite <- (firstn_skipn n l). apply in_or_app. left. exact I.
Qed.

Ltac qlra := unfold pvec, sol, vec, indiv in *; lra.

(* the step written for a sorted simplex  q0 :: keep ++ [w] *)
Definition sstep (f : pvec Q -> Q) (q0 : solQ) (keep : list solQ) (w : solQ) (b : solQ) : sd_state Q :=
  let dim := S (length keep) in
  let x0 := map (fun a => o_div QO a (o_ofnat QO dim)) (fold_left (fun acc (v : solQ) => vadd QO acc (snd v)) (q0 :: keep) (vzero QO dim)) in
  let xr := sd_eval f (map2 (fun c w0 => o_sub QO (o_mul QO (o_two QO) c) w0) x0 (snd w)) in
  let b1 := sd_track QO b xr in
  if negb (o_ltb QO (fst xr) (fst q0)) && o_ltb QO (fst xr) (fst (nth (length keep) (q0 :: keep) dflt)) then mkSd ((q0 :: keep) ++ [xr]) b1
  else if o_ltb QO (fst xr) (fst q0) then
    let xe := sd_eval f (map2 (fun c w0 => o_sub QO (o_mul QO (sd_three QO) c) (o_mul QO (o_two QO) w0)) x0 (snd w)) in
    let b2 := sd_track QO b1 xe in
    if o_ltb QO (fst xe) (fst xr) then mkSd ((q0 :: keep) ++ [xe]) b2 else mkSd ((q0 :: keep) ++ [xr]) b2
  else
    let xc := sd_eval f (map2 (fun c w0 => o_add QO (o_mul QO (sd_half QO) c) (o_mul QO (sd_half QO) w0)) x0 (snd w)) in
    let b2 := sd_track QO b1 xc in
    if o_ltb QO (fst xc) (fst w) then mkSd ((q0 :: keep) ++ [xc]) b2
    else let r := sd_shrink QO f (snd q0) (keep ++ [w]) b2 in mkSd (q0 :: fst r) (snd r).

Lemma step_sorted_nf (f : pvec Q -> Q) st q0 keep w :
  isort QO (sd_simplex st) = (q0 :: keep) ++ [w] -> sd_step QO f st = sstep f q0 keep w (sd_best st).
Proof.
  intro E. unfold sd_step, sstep. rewrite E. unfold pvec, sol, vec, indiv in *.
  assert (length ((q0 :: keep) ++ [w]) = S (length (q0 :: keep))) as Ll by (rewrite app_length; cbn [length]; lia).
  rewrite Ll. cbn [pred].
  rewrite (nth_middle (q0 :: keep) [] w).
  assert (firstn (length (q0 :: keep)) ((q0 :: keep) ++ [w]) = q0 :: keep) as Ef
    by (rewrite firstn_app, Nat.sub_diag, firstn_all, firstn_O, app_nil_r; reflexivity).
  rewrite Ef.
  assert (nth (pred (length (q0 :: keep))) ((q0 :: keep) ++ [w]) dflt = nth (length keep) (q0 :: keep) dflt) as En
    by (cbn [length pred]; apply app_nth1; cbn [length]; lia).
  rewrite En. reflexivity.
Qed.

(* the decision logic alone: the three candidate solutions and the reduction are parameters *)
Definition score (q0 : solQ) (keep : list solQ) (w b xr xe xc : solQ) (shr : solQ -> list solQ * solQ) : sd_state Q :=
  let b1 := sd_track QO b xr in
  if negb (o_ltb QO (fst xr) (fst q0)) && o_ltb QO (fst xr) (fst (nth (length keep) (q0 :: keep) dflt)) then mkSd ((q0 :: keep) ++ [xr]) b1
  else if o_ltb QO (fst xr) (fst q0) then
    let b2 := sd_track QO b1 xe in
    if o_ltb QO (fst xe) (fst xr) then mkSd ((q0 :: keep) ++ [xe]) b2 else mkSd ((q0 :: keep) ++ [xr]) b2
  else
    let b2 := sd_track QO b1 xc in
    if o_ltb QO (fst xc) (fst w) then mkSd ((q0 :: keep) ++ [xc]) b2
    else let r := shr b2 in mkSd (q0 :: fst r) (snd r).

Lemma sstep_score (f : pvec Q -> Q) q0 keep w b : exists xr xe xc,
  sstep f q0 keep w b = score q0 keep w b xr xe xc (sd_shrink QO f (snd q0) (keep ++ [w])).
Proof. do 3 eexists. unfold sstep, score. cbv zeta. reflexivity. Qed.

Lemma score_best_is_first q0 keep w xr xe xc shr :
  Forall (fun v => fst q0 <= fst v) keep -> fst q0 <= fst w ->
  (forall b, snd (shr b) = fold_left (sd_track QO) (fst (shr b)) b) ->
  best_is_first (score q0 keep w q0 xr xe xc shr).
Proof.
  intros Fk Fw Hs. unfold best_is_first, score. cbv zeta.
  assert (forall y, fst y < fst q0 -> hd dflt (isort QO ((q0 :: keep) ++ [y])) = y) as K.
  { intros y Ly. apply hd_isort_app_strict; [|constructor].
    constructor; [exact Ly|]. eapply Forall_impl; [|exact Fk]. cbn beta. intros; lra. }
  assert (forall y, fst q0 <= fst y -> hd dflt (isort QO ((q0 :: keep) ++ [y])) = q0) as K'.
  { intros y Ly. change ((q0 :: keep) ++ [y]) with (q0 :: (keep ++ [y])). rewrite hd_isort. apply amin_first.
    apply Forall_app. split; [exact Fk|constructor; [exact Ly|constructor]]. }
  unfold sd_track.
  destruct (o_ltb QO (fst xr) (fst q0)) eqn:D1.
  - (* expansion *) cbn [negb andb]. apply ltb_true in D1.
    destruct (o_ltb QO (fst xe) (fst xr)) eqn:D2; cbn [sd_simplex sd_best].
    + apply ltb_true in D2. rewrite K; [reflexivity|lra].
    + rewrite K; [reflexivity|exact D1].
  - apply ltb_false in D1. cbn [negb andb].
    match goal with |- context [if o_ltb QO (fst xr) ?z then _ else _] => destruct (o_ltb QO (fst xr) z) eqn:D0 end; cbn [sd_simplex sd_best].
    + (* reflection accepted *) rewrite K'; [reflexivity|exact D1].
    + (* contraction / reduction *)
      destruct (o_ltb QO (fst xc) (fst q0)) eqn:D3.
      * apply ltb_true in D3. rewrite (proj2 (ltb_true (fst xc) (fst w))) by lra. cbn [sd_simplex sd_best].
        rewrite K; [reflexivity|exact D3].
      * apply ltb_false in D3.
        destruct (o_ltb QO (fst xc) (fst w)) eqn:D4; cbn [sd_simplex sd_best].
        -- rewrite K'; [reflexivity|exact D3].
        -- rewrite Hs, track_amin, hd_isort. reflexivity.
Qed.

Theorem step_best_is_first (f : pvec Q -> Q) st :
  (2 <= length (sd_simplex st))%nat -> best_is_first st -> best_is_first (sd_step QO f st).
Proof.
  intros L B. unfold best_is_first in B.
  pose proof (Permutation_length (isort_perm sq ex pw _ (sd_simplex st))) as Ls.
  pose proof (isort_sorted sq ex pw _ (sd_simplex st)) as So.
  destruct (isort QO (sd_simplex st)) as [|q0 [|q1 t]] eqn:Es; unfold sol, pvec, indiv in *; cbn [length] in Ls; try lia.
  destruct (@exists_last _ (q1 :: t)) as (keep & w & Ek); [discriminate|].
  rewrite Ek in Es, So. cbn [hd] in B.
  rewrite (@step_sorted_nf f st q0 keep w Es), B.
  destruct (sstep_score f q0 keep w q0) as (xr & xe & xc & E). rewrite E.
  pose proof (sorted_head_le So) as F0. apply Forall_app in F0. destruct F0 as [Fk Fw0].
  apply score_best_is_first; [exact Fk|inversion Fw0; auto|intro b; apply shrink_tracks].
Qed.

(* ---------------------------------------------------------------- init *)
Lemma init_fold_shape (f : pvec Q -> Q) start : forall js st,
  fold_left (sd_init_step QO f start) js st =
  mkSd (sd_simplex st ++ map (fun j => sd_eval f (sd_vertex QO start j)) js)
       (fold_left (sd_track QO) (map (fun j => sd_eval f (sd_vertex QO start j)) js) (sd_best st)).
Proof.
  induction js as [|j js IH]; intro st; cbn [fold_left map].
  - rewrite app_nil_r. destruct st; reflexivity.
  - rewrite IH. unfold sd_init_step. cbn [sd_simplex sd_best]. rewrite <- app_assoc. reflexivity.
Qed.

Theorem init_best_is_first (f : pvec Q -> Q) start : best_is_first (sd_init QO f start).
Proof.
  unfold best_is_first. rewrite sd_init_fold, init_fold_shape. cbn [sd_simplex sd_best map app].
  rewrite track_amin, hd_isort. reflexivity.
Qed.

Theorem run_best_is_first (f : pvec Q -> Q) n : forall st,
  (2 <= length (sd_simplex st))%nat -> best_is_first st -> best_is_first (sd_run QO f n st).
Proof.
  induction n as [|n IH]; intros st L B; cbn [sd_run]; auto.
  apply IH; [rewrite (proj2 (step_keeps_best sq ex pw f st L)); exact L|apply step_best_is_first; auto].
Qed.

(* the reported solution is the first vertex of the sorted simplex: a vertex, with the least value *)
Theorem sd_reported_is_best_vertex (f : pvec Q -> Q) start n :
  (1 <= length start)%nat ->
  let st := sd_run QO f n (sd_init QO f start) in
  sd_best st = hd dflt (isort QO (sd_simplex st)) /\ In (sd_best st) (sd_simplex st) /\
  fst (sd_best st) = sd_minval sq ex pw (sd_simplex st) /\ Forall (fun v => fst (sd_best st) <= fst v) (sd_simplex st).
Proof.
  intros Ld. cbv zeta.
  assert (2 <= length (sd_simplex (sd_init QO f start)))%nat as L0 by (rewrite init_length; lia).
  pose proof (@run_best_is_first f n _ L0 (init_best_is_first f start)) as B. unfold best_is_first in B.
  set (st := sd_run QO f n (sd_init QO f start)) in *.
  assert (2 <= length (sd_simplex st))%nat as Ln by (unfold st; rewrite run_length; exact L0).
  split; [exact B|].
  assert (sd_simplex st <> []) as NE by (intro Z; rewrite Z in Ln; cbn in Ln; lia).
  assert (In (sd_best st) (sd_simplex st)) as I.
  { rewrite B. pose proof (isort_perm sq ex pw _ (sd_simplex st)) as Pm.
    destruct (isort QO (sd_simplex st)) as [|h r] eqn:Eh; [apply Permutation_nil in Pm; contradiction|].
    eapply Permutation_in; [exact Pm|left; reflexivity]. }
  split; [exact I|]. split; [rewrite B; reflexivity|].
  apply Forall_forall. intros v Iv. rewrite B. apply (minval_le sq ex pw _ _ Iv).
Qed.

End Best.
