(* C13 — DCNonDominatedSort.h and NonDominatedSort.h as coded: executable model (definitions only).

   BaseDCNonDominatedSort::operator():
     points := the objective vectors, std::sort by Point::operator< (lexicographic), std::unique
     (Point::operator==); every Point starts with frt = 1; S = pointers to all unique points;
     ndHelperA(S, m); the rank of input point i is the frt of the unique point found by
     std::lower_bound.
   The containers of Point* are modelled as lists of indices into the array of unique points, the
   mutable field Point::frt as a list of naturals indexed in the same way.

   ndHelperA (S, k):   |S| < 2 -> return; |S| = 2 -> one dominance test on the first k objectives;
                       k = 2 -> sweepA; all values of objective k equal -> ndHelperA (S, k-1);
                       otherwise splitA, ndHelperA (L, k), ndHelperB (L, H, k-1), ndHelperA (H, k)
   sweepA:             std::map T: front index -> second objective of the last point put there
   median:             nth_element at n/2, for even n averaged with the maximum of the lower half;
                       the model keeps TWICE the median (an integer) and compares 2*v with it
   splitA / splitB:    the four candidate lists and the balance test as coded
   ndHelperB (L,H,k):  empty -> return; |L| = 1 or |H| = 1 -> double loop (dominates or equivalent on the first k
                       objectives); k = 2 -> sweepB; maxL_k <= minH_k -> ndHelperB (L, H, k-1); minL_k <= maxH_k ->
                       splitB, ndHelperB (L1,H1,k), ndHelperB (L1,H2,k-1), ndHelperB (L2,H2,k); otherwise return
   sweepB:             T: front index -> smallest second objective among the points of L passed so far

   The two recursions are structural on [fuel]; the entry point supplies |S| + m + 1 (resp. |L| + |H| + k + 1), which
   the theorems show to be enough (every recursive call works on fewer points or on fewer objectives).
   std::map iteration order is not observable in the result (a maximum is computed), T is an association list with
   unique keys.  For fewer than 2 objectives the code reads obj[-1] (undefined); the theorems are for >= 2 objectives.

   nonDominatedSort (front end): n = 0 -> nothing; m = 2 or n > 5000 or log(n)/log(3) < m + 1 -> DC sort, else fast
   sort.  The test on logarithms is modelled by n < 3^(m+1); at n = 3^(m+1) exactly the rounding of std::log decides,
   so the general model [nds_front_gen] takes the choice as a parameter and the theorem covers every choice. *)
From Coq Require Import List ZArith Lia Bool Arith.
From SharkV Require Import ListAux C13Model.
Import ListNotations.

(* Point::operator< and operator== *)
Fixpoint lex_ltb (a b : point) : bool :=
  match a, b with
  | x :: a', y :: b' => if (x <? y)%Z then true else if (y <? x)%Z then false else lex_ltb a' b'
  | _, _ => false
  end.
Fixpoint point_eqb (a b : point) : bool :=
  match a, b with
  | x :: a', y :: b' => (x =? y)%Z && point_eqb a' b'
  | _, _ => true
  end.

(* std::sort with operator< (a strict total order on vectors of one length: the result is unique) *)
Fixpoint dc_insert (p : point) (l : list point) : list point :=
  match l with
  | [] => [p]
  | q :: t => if lex_ltb p q then p :: l else q :: dc_insert p t
  end.
Definition dc_sort (l : list point) : list point := fold_right dc_insert [] l.

(* std::unique: the first element of every group of consecutive equal elements is kept *)
Fixpoint dc_uniq_from (p : point) (l : list point) : list point :=
  match l with
  | [] => [p]
  | q :: t => if point_eqb p q then dc_uniq_from p t else p :: dc_uniq_from q t
  end.
Definition dc_uniq (l : list point) : list point :=
  match l with [] => [] | p :: t => dc_uniq_from p t end.

(* std::lower_bound on the sorted array: first position whose element is not < p *)
Fixpoint dc_lower_bound (l : list point) (p : point) : nat :=
  match l with
  | [] => 0
  | q :: t => if lex_ltb q p then S (dc_lower_bound t p) else 0
  end.

(* the map T *)
Definition tmap := list (nat * Z).
Definition tset (q : nat) (v : Z) (T : tmap) : tmap :=
  (q, v) :: filter (fun e => negb (fst e =? q)) T.
Fixpoint tfind (q : nat) (T : tmap) : option Z :=
  match T with
  | [] => None
  | (q', v) :: T' => if q' =? q then Some v else tfind q T'
  end.
(* r = 0; for (p : T) if (p.second <= y) r = max(r, p.first) *)
Definition tquery (T : tmap) (y : Z) : nat :=
  list_max (map fst (filter (fun e => (snd e <=? y)%Z) T)).

(* twice the median as computed by median() *)
Definition median2 (vals : list Z) : Z :=
  let s := sort_z vals in
  let n := length vals in
  let hi := nth (n / 2) s 0%Z in
  if Nat.odd n then (2 * hi)%Z else (hi + nth (n / 2 - 1) s 0%Z)%Z.

Definition zmin_list (l : list Z) : Z := match l with [] => 0%Z | x :: t => fold_left Z.min t x end.
Definition zmax_list (l : list Z) : Z := match l with [] => 0%Z | x :: t => fold_left Z.max t x end.

Section Dc.
Variable pts : list point.      (* the sorted unique objective vectors *)

Definition P (i : nat) : point := nth i pts [].
Definition obj (i c : nat) : Z := nth c (P i) 0%Z.
(* dominance restricted to the first k objectives *)
Definition domk (k i j : nat) : domrel := dominance (firstn k (P i)) (firstn k (P j)).
Definition sdomb (k i j : nat) : bool := match domk k i j with LhsDominates => true | _ => false end.
Definition wdomb (k i j : nat) : bool :=
  match domk k i j with LhsDominates | Equivalent => true | _ => false end.

Definition frt_of (f : list nat) (i : nat) : nat := nth i f 0.
(* p->frt = max(p->frt, v) *)
Definition raise (f : list nat) (i v : nat) : list nat := upd i (Nat.max (frt_of f i) v) f.

(* ---- sweepA *)
Definition sweepA_step (st : tmap * list nat) (i : nat) : tmap * list nat :=
  let '(T, f) := st in
  let r := tquery T (obj i 1) in
  let f' := if 0 <? r then raise f i (r + 1) else f in
  (tset (frt_of f' i) (obj i 1) T, f').

Definition sweepA (S : list nat) (f : list nat) : list nat :=
  match S with
  | [] => f
  | s0 :: S' => snd (fold_left sweepA_step S' ([(frt_of f s0, obj s0 1)], f))
  end.

(* ---- splitA *)
Definition splitA (S : list nat) (k : nat) : list nat * list nat :=
  let c := k - 1 in
  let med2 := median2 (map (fun i => obj i c) S) in
  let lt i := (2 * obj i c <? med2)%Z in
  let gt i := (med2 <? 2 * obj i c)%Z in
  let Lb := filter lt S in
  let Ha := filter gt S in
  if length Lb <? length Ha then (filter (fun i => negb (gt i)) S, Ha)
  else (Lb, filter (fun i => negb (lt i)) S).

(* ---- ndHelperB, base case: double loop *)
Definition baseB (L H : list nat) (k : nat) (f : list nat) : list nat :=
  fold_left (fun f j =>
    fold_left (fun f i => if wdomb k i j then raise f j (frt_of f i + 1) else f) L f) H f.

(* ---- sweepB *)
Fixpoint sweepB_adv (Lrem : list nat) (j : nat) (T : tmap) (f : list nat) : list nat * tmap :=
  match Lrem with
  | [] => ([], T)
  | i :: Lr =>
    if (obj j 0 <? obj i 0)%Z then (Lrem, T)
    else if (obj i 0 =? obj j 0)%Z && (obj j 1 <? obj i 1)%Z then (Lrem, T)
    else
      let T' := match tfind (frt_of f i) T with
                | Some v => if (obj i 1 <? v)%Z then tset (frt_of f i) (obj i 1) T else T
                | None => tset (frt_of f i) (obj i 1) T
                end in
      sweepB_adv Lr j T' f
  end.

Definition sweepB_step (st : list nat * tmap * list nat) (j : nat) : list nat * tmap * list nat :=
  let '(Lrem, T, f) := st in
  let '(Lrem', T') := sweepB_adv Lrem j T f in
  let r := tquery T' (obj j 1) in
  (Lrem', T', if 0 <? r then raise f j (r + 1) else f).

Definition sweepB (L H : list nat) (f : list nat) : list nat :=
  snd (fold_left sweepB_step H (L, [], f)).

(* ---- splitB *)
Definition splitB (L H : list nat) (k : nat) : list nat * list nat * list nat * list nat :=
  let c := k - 1 in
  let piv2 := median2 (map (fun i => obj i c) (if length H <? length L then L else H)) in
  let lt i := (2 * obj i c <? piv2)%Z in
  let gt i := (piv2 <? 2 * obj i c)%Z in
  if length (filter lt L) + length (filter lt H) <=? length (filter gt L) + length (filter gt H)
  then (filter (fun i => negb (gt i)) L, filter gt L, filter (fun i => negb (gt i)) H, filter gt H)
  else (filter lt L, filter (fun i => negb (lt i)) L, filter lt H, filter (fun i => negb (lt i)) H).

Fixpoint helperB (fuel : nat) (L H : list nat) (k : nat) (f : list nat) : list nat :=
  match fuel with
  | O => f
  | S fu =>
    match L, H with
    | [], _ => f
    | _, [] => f
    | _, _ =>
      if (length L =? 1) || (length H =? 1) then baseB L H k f
      else if k =? 2 then sweepB L H f
      else
        let vL := map (fun i => obj i (k - 1)) L in
        let vH := map (fun i => obj i (k - 1)) H in
        if (zmax_list vL <=? zmin_list vH)%Z then helperB fu L H (k - 1) f
        else if (zmin_list vL <=? zmax_list vH)%Z then
          let '(L1, L2, H1, H2) := splitB L H k in
          helperB fu L2 H2 k (helperB fu L1 H2 (k - 1) (helperB fu L1 H1 k f))
        else f
    end
  end.

Fixpoint helperA (fuel : nat) (S : list nat) (k : nat) (f : list nat) : list nat :=
  match fuel with
  | O => f
  | Datatypes.S fu =>
    match S with
    | [] => f
    | [_] => f
    | [a; b] => if sdomb k a b then raise f b (frt_of f a + 1) else f
    | s0 :: S' =>
      if k =? 2 then sweepA S f
      else if forallb (fun i => (obj s0 (k - 1) =? obj i (k - 1))%Z) S' then helperA fu S (k - 1) f
      else
        let '(L, H) := splitA S k in
        let f1 := helperA fu L k f in
        let f2 := helperB (length L + length H + k + 1) L H (k - 1) f1 in
        helperA fu H k f2
    end
  end.
End Dc.

Definition dc_nds (S : list point) : list nat :=
  match S with
  | [] => []
  | p0 :: _ =>
    let m := length p0 in
    let pts := dc_uniq (dc_sort S) in
    let n := length pts in
    let f := helperA pts (n + m + 1) (seq 0 n) m (repeat 1 n) in
    map (fun p => nth (dc_lower_bound pts p) f 0) S
  end.

(* front end *)
Definition nds_front_gen (choose_dc : nat -> nat -> bool) (S : list point) : list nat :=
  match S with
  | [] => []
  | p0 :: _ => if choose_dc (length S) (length p0) then dc_nds S else fast_nds S
  end.

Definition nds_choice (n m : nat) : bool :=
  (m =? 2) || (5000 <? n) || (Z.of_nat n <? 3 ^ (Z.of_nat m + 1))%Z.

Definition nds_front (S : list point) : list nat := nds_front_gen nds_choice S.

(* limitSet of the WFG recursion with the ranks taken from the front end *)
Definition nd_front_via (ranks : list point -> list nat) (L : list point) : list point :=
  map fst (filter (fun qr => Nat.eqb (snd qr) 1) (combine L (ranks L))).
