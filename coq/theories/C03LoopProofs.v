(* C03 — the loops of repartitionByClass as written in Dataset.h (prefix sums of the class counts; one
   pass over the elements that writes the running position into the next free slot of the element's
   class) compute exactly the stable class order [class_order]. *)
From Coq Require Import List Arith Lia Bool Permutation.
From SharkV Require Import ListAux C03Model C03Proofs C12Model C12Proofs C03Class C12BalancedProofs.
Import ListNotations.

Lemma prefix_starts_nth (f : nat -> nat) m : forall a acc c, c < m ->
  nth c (prefix_starts (map f (seq a m)) acc) 0 = acc + sum (map f (seq a c)).
Proof.
  induction m as [|m IH]; intros a acc c H; [lia|].
  simpl. destruct c as [|c]; simpl; [lia|].
  rewrite IH by lia. lia.
Qed.

Lemma prefix_starts_length counts acc : length (prefix_starts counts acc) = length counts.
Proof. revert acc; induction counts; intros; simpl; auto. Qed.

Lemma skipn_cons_nth {A} t (l : list A) x r d : skipn t l = x :: r -> nth t l d = x /\ skipn (S t) l = r.
Proof.
  revert l; induction t as [|t IH]; intros l H.
  - destruct l; simpl in H; [discriminate|]. injection H as -> ->. auto.
  - destruct l as [|y l]; [discriminate|]. apply (IH l H).
Qed.

Lemma firstn_S_nth {A} t (l : list A) d : t < length l -> firstn (S t) l = firstn t l ++ [nth t l d].
Proof.
  revert l; induction t as [|t IH]; intros [|y l] H; simpl in *; try lia; auto.
  f_equal. apply IH. lia.
Qed.

Lemma count_in_app a b x : count_in (a ++ b) x = count_in a x + count_in b x.
Proof. unfold count_in. rewrite filter_app, app_length. reflexivity. Qed.

(* members of class c among the first t positions *)
Lemma filter_seq_firstn L c : forall a t, t <= length L ->
  length (filter (fun i => nth (i - a) L 0 =? c) (seq a t)) = count_in (firstn t L) c.
Proof.
  induction L as [|x L IH]; intros a t H.
  - simpl in H. assert (t = 0) as -> by lia. reflexivity.
  - destruct t as [|t]; [reflexivity|]. simpl in H.
    cbn [seq filter firstn].
    assert (filter (fun i => nth (i - a) (x :: L) 0 =? c) (seq (S a) t)
            = filter (fun i => nth (i - S a) L 0 =? c) (seq (S a) t)) as E.
    { apply filter_ext_in. intros i Hi. apply in_seq in Hi.
      replace (i - a) with (S (i - S a)) by lia. reflexivity. }
    rewrite E. rewrite Nat.sub_diag. cbn [nth]. unfold count_in. cbn [filter]. rewrite (Nat.eqb_sym c x).
    destruct (x =? c); cbn [length]; rewrite IH by lia; reflexivity.
Qed.

Lemma nth_flat_map_seq (M : nat -> list nat) m c j d :
  c < m -> j < length (M c) ->
  nth (sum (map (fun c' => length (M c')) (seq 0 c)) + j) (flat_map M (seq 0 m)) d = nth j (M c) d.
Proof.
  intros Hc Hj.
  replace m with (c + S (m - c - 1)) by lia. rewrite seq_app. cbn [seq]. rewrite flat_map_app. cbn [flat_map].
  rewrite <- length_flat_map. rewrite app_nth2_plus. rewrite app_nth1 by auto. reflexivity.
Qed.

Section Loop.
Variable L : list nat.
Let n := length L.
Let mx := fold_right Nat.max 0 L.
Let T := class_order L.
Definition cls_start (c : nat) : nat := sum (map (count_in L) (seq 0 c)).

Lemma T_perm : Permutation T (seq 0 n).
Proof. apply class_order_perm. Qed.

Lemma T_length : length T = n.
Proof. rewrite (Permutation_length T_perm). apply seq_length. Qed.

Lemma T_NoDup : NoDup T.
Proof. eapply Permutation_NoDup; [apply Permutation_sym, T_perm|apply seq_NoDup]. Qed.

Lemma T_lt s : s < n -> nth s T 0 < n.
Proof.
  intros H. assert (In (nth s T 0) (seq 0 n)) as Hin.
  { eapply Permutation_in; [apply T_perm|]. apply nth_In. rewrite T_length. auto. }
  apply in_seq in Hin. lia.
Qed.

Lemma label_le_max t : t < n -> nth t L 0 <= mx.
Proof. intros H. apply fold_max_ge. apply nth_In. auto. Qed.

Lemma cls_start_total : cls_start (S mx) = n.
Proof.
  unfold cls_start. apply (count_partition L (S mx)).
  intros i Hi. pose proof (fold_max_ge L i Hi). fold mx in H. lia.
Qed.

Lemma cls_start_mono c : c <= mx -> cls_start c + count_in L c <= n.
Proof.
  intros H. rewrite <- cls_start_total. unfold cls_start.
  replace (S mx) with (c + S (mx - c)) by lia. rewrite seq_app, map_app, sum_app. cbn [seq map sum fold_right]. rewrite Nat.add_0_l. lia.
Qed.

(* the slot the loop picks for position t holds t in the stable class order *)
Lemma slot_of_position t :
  t < n ->
  let c := nth t L 0 in
  count_in (firstn t L) c < count_in L c /\
  nth (cls_start c + count_in (firstn t L) c) T 0 = t.
Proof.
  intros Ht c.
  assert (Hsplit : L = firstn t L ++ c :: skipn (S t) L).
  { rewrite <- (firstn_skipn t L) at 1. f_equal.
    destruct (skipn t L) as [|y r] eqn:E.
    - apply (f_equal (@length nat)) in E. rewrite skipn_length in E. simpl in E. fold n in E. lia.
    - destruct (skipn_cons_nth t L y r 0 E) as [E1 E2]. unfold c. rewrite E1, E2. reflexivity. }
  assert (Hlt : count_in (firstn t L) c < count_in L c).
  { rewrite Hsplit at 2. rewrite count_in_app. unfold count_in at 3. cbn [filter]. rewrite Nat.eqb_refl. simpl. lia. }
  split; [exact Hlt|].
  unfold T, class_order, cls_start.
  set (M := fun c' => filter (fun i => nth i L 0 =? c') (seq 0 (length L))).
  assert (HM : forall c', length (M c') = count_in L c').
  { intros c'. apply (class_members_length L c'). }
  rewrite <- (map_ext _ _ HM).
  rewrite (nth_flat_map_seq M (S mx) c).
  - (* the class-c members before t, then t *)
    unfold M. fold n. replace n with (t + S (n - t - 1)) by lia. rewrite seq_app, filter_app. cbn [seq filter].
    fold c. rewrite Nat.eqb_refl.
    assert (length (filter (fun i => nth i L 0 =? c) (seq 0 t)) = count_in (firstn t L) c) as El.
    { rewrite <- (filter_seq_firstn L c 0 t) by (fold n; lia). f_equal. apply filter_ext. intros i. rewrite Nat.sub_0_r. reflexivity. }
    rewrite <- El. rewrite nth_middle. reflexivity.
  - pose proof (label_le_max t Ht). fold c in H. unfold mx in H. lia.
  - rewrite HM. exact Hlt.
Qed.

Lemma scatter_invariant : forall rest t CI EI,
  skipn t L = rest -> t <= n ->
  length CI = S mx -> length EI = n ->
  (forall c, c <= mx -> nth c CI 0 = cls_start c + count_in (firstn t L) c) ->
  (forall s, s < n -> nth s T 0 < t -> nth s EI 0 = nth s T 0) ->
  scatter_classes rest t CI EI = T.
Proof.
  induction rest as [|c rest IH]; intros t CI EI Hs Ht HCI HEI ICI IEI; simpl.
  - assert (t = n) as ->.
    { apply (f_equal (@length nat)) in Hs. rewrite skipn_length in Hs. simpl in Hs. fold n in Hs. lia. }
    apply nth_ext with (d := 0) (d' := 0); [rewrite T_length; auto|].
    intros s Hsn. rewrite HEI in Hsn. apply IEI; auto. apply T_lt; auto.
  - destruct (skipn_cons_nth t L c rest 0 Hs) as [Ec Hs'].
    assert (Htn : t < n).
    { apply (f_equal (@length nat)) in Hs. rewrite skipn_length in Hs. simpl in Hs. fold n in Hs. lia. }
    destruct (slot_of_position t Htn) as [Slt Snth]. cbv zeta in Slt, Snth. rewrite Ec in Slt, Snth.
    pose proof (label_le_max t Htn) as Hc. rewrite Ec in Hc.
    rewrite (ICI c Hc).
    set (slot := cls_start c + count_in (firstn t L) c) in *.
    assert (Hslot : slot < n) by (pose proof (cls_start_mono c Hc); unfold slot; lia).
    apply IH; auto; try lia.
    + rewrite upd_length. auto.
    + rewrite upd_length. auto.
    + intros c' Hc'. rewrite (firstn_S_nth t L 0 Htn), Ec, count_in_app.
      rewrite nth_upd. rewrite HCI.
      change (count_in [c] c') with (length (if c' =? c then [c] else [])).
      destruct (Nat.eqb_spec c c') as [->|Hne].
      * assert (c' <? S mx = true) as -> by (apply Nat.ltb_lt; lia). cbn [andb].
        rewrite Nat.eqb_refl. cbn [length]. unfold slot. lia.
      * cbn [andb]. rewrite (ICI c' Hc'). destruct (Nat.eqb_spec c' c); [congruence|]. cbn [length]. lia.
    + intros s Hsn Hlt. destruct (Nat.eq_dec s slot) as [->|Hne].
      * rewrite nth_upd_eq by (rewrite HEI; auto). auto.
      * rewrite nth_upd_neq by auto. apply IEI; auto.
        assert (nth s T 0 <> t).
        { intros Heq. apply Hne. rewrite <- Snth in Heq.
          apply (proj1 (NoDup_nth T 0) T_NoDup); auto; rewrite T_length; auto. }
        lia.
Qed.

End Loop.

Lemma class_sizes_nonempty ls : ls <> [] ->
  class_sizes ls = map (count_in ls) (seq 0 (S (fold_right Nat.max 0 ls))).
Proof. destruct ls; [congruence|]. reflexivity. Qed.

Theorem class_order_loop_correct ls : class_order_loop ls = class_order ls.
Proof.
  destruct (list_eq_dec Nat.eq_dec ls []) as [->|Hne]; [reflexivity|].
  unfold class_order_loop. rewrite (class_sizes_nonempty ls Hne).
  apply scatter_invariant; auto; try lia.
  - rewrite prefix_starts_length, map_length, seq_length. reflexivity.
  - apply repeat_length.
  - intros c Hc. rewrite prefix_starts_nth by lia. unfold cls_start. cbn [firstn].
    change (count_in [] c) with 0. lia.
Qed.

Theorem repartition_by_class_loop_correct {I} (dI : I) m d :
  repartition_by_class_loop dI m d = repartition_by_class dI m d.
Proof. unfold repartition_by_class_loop, repartition_by_class. rewrite class_order_loop_correct. reflexivity. Qed.
