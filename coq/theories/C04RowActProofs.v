(* C04 — row-wise activations (SoftmaxNeuron, NormalizerNeuron): the coded multiplyDerivative is the adjoint of the tangent of
   the row map, and LinearModel layers with such an activation satisfy the derivative theorem.
   Part A (any commutative ring): the layer theorem for ANY activation whose coded multiplyDerivative is the adjoint of the
   dual-number tangent of its evalInPlace on the rows of a domain (row_ok).
   Part B (any field): row_ok for the normaliser a / sum a (domain: sum a <> 0) and for softmax exp a / sum exp a (domain:
   sum exp a <> 0, which holds everywhere when exp is positive), with the dual division ddiv (THE solution of r * q = p) and
   the dual exponential dexp (u, u') = (exp u, exp u * u').  Axiom-free. *)
From Coq Require Import List Arith Bool Lia Ring Field PeanoNat.
From SharkV Require Import C04Model C04Conv C04Het C04Aux C04Proofs C04SumProofs C04ConvProofs C04ConvThmProofs C04ConvDualProofs
  C04HetProofs C04KindProofs.
Import ListNotations.

Section RowActRing.
Variable A : Type.
Variables (zero one : A) (add mul sub : A -> A -> A) (opp : A -> A).
Hypothesis Rth : ring_theory zero one add mul sub opp eq.
Add Ring AringRA : Rth.

Infix "+" := add : CA_scope.
Infix "*" := mul : CA_scope.
Local Open Scope CA_scope.
Notation dotA := (dot zero add mul).
Notation frA := (fr A zero add mul).
Notation vaddA := (vadd add).
Notation mvA := (mv zero add mul).
Notation vmA := (vm zero add mul).
Notation outerA := (outer mul).
Notation DA := (D A).
Notation dz := (dzero A zero).
Notation da := (dadd A add).
Notation dm := (dmul A add mul).
Notation mvD := (mv dz da dm).
Notation F := (map (@fst A A)).
Notation S' := (map (@snd A A)).
Notation lin_evalD := (lin_eval dz da dm).
Notation lin_evalA := (lin_eval zero add mul).
Notation lin_preA := (lin_pre zero add mul).

(* a row activation over A (value + coded multiplyDerivative) and the same evalInPlace code over dual numbers *)
Definition row_ok (aA : act A) (aD : act DA) (dom : list A -> Prop) : Prop :=
  forall (zD : list DA) (c : list A), dom (F zD) -> length c = length zD ->
    F (aphi aD zD) = aphi aA (F zD) /\ length (aphi aD zD) = length zD /\
    length (amul aA (F zD) (aphi aA (F zD)) c) = length c /\
    dotA c (S' (aphi aD zD)) = dotA (amul aA (F zD) (aphi aA (F zD)) c) (S' zD).

Definition glD (dW : list (list DA)) (db : list DA) (aD : act DA) : layer DA := {| lW := dW; lb := db; lact := aD |}.
Definition glA (dW : list (list DA)) (db : list DA) (aA : act A) : layer A := {| lW := map F dW; lb := F db; lact := aA |}.
Definition gwf (nin nout : nat) (dW : list (list DA)) (db : list DA) : Prop :=
  length dW = nout /\ rows nin dW /\ (db = [] \/ length db = nout).

Lemma preD_len nin nout dW db (aD : act DA) (x : list DA) :
  gwf nin nout dW db -> length (lin_pre dz da dm (glD dW db aD) x) = nout.
Proof.
  intros (L & R & B). unfold lin_pre; cbn [glD lW lb].
  assert (Lm : length (mvD dW x) = nout) by (unfold mv; rewrite map_length; auto).
  destruct B as [->|B]; [exact Lm|]. destruct db as [|b0 db']; [exact Lm|]. cbn [addoff].
  rewrite (vadd_length (D A) da); lia.
Qed.

Lemma row_tangent_gen nin nout dW db aA aD dom (x : list DA) c :
  gwf nin nout dW db -> row_ok aA aD dom -> length x = nin -> length c = nout ->
  dom (lin_preA (glA dW db aA) (F x)) ->
  let lA := glA dW db aA in
  let d := amul aA (lin_preA lA (F x)) (lin_evalA lA (F x)) c in
  length d = nout /\
  dotA c (S' (lin_evalD (glD dW db aD) x)) =
    dotA (vmA nin d (lW lA)) (S' x) + frA (outerA d (F x)) (map S' dW) + (match db with [] => zero | _ => dotA d (S' db) end).
Proof.
  intros (L & R & B) RO Lx Lc DOM lA d.
  set (preD := addoff da (mvD dW x) db).
  assert (Lm : length (mvD dW x) = nout) by (unfold mv; rewrite map_length; auto).
  assert (LpD : length preD = nout).
  { unfold preD. destruct B as [->|B]; [exact Lm|]. destruct db as [|b0 db']; [exact Lm|]. cbn [addoff].
    rewrite (vadd_length (D A) da); lia. }
  assert (EF : F preD = lin_preA lA (F x)).
  { unfold preD, lin_pre, lA, glA; cbn [lW lb]. rewrite (addoffD_fst A add), (mvD_fst A zero add mul). reflexivity. }
  assert (DOM' : dom (F preD)) by (rewrite EF; exact DOM).
  destruct (RO preD c DOM') as (R1 & R2 & R3 & R4); [lia|].
  assert (Ed : amul aA (F preD) (aphi aA (F preD)) c = d) by (rewrite EF; reflexivity).
  rewrite Ed in R3, R4. split; [lia|].
  change (lin_evalD (glD dW db aD) x) with (aphi aD preD). rewrite R4.
  assert (T : S' preD = match db with [] => S' (mvD dW x) | _ => vaddA (S' (mvD dW x)) (S' db) end).
  { unfold preD. destruct db; auto. simpl. destruct (mvD dW x); simpl; auto. f_equal. apply (vaddD_snd A add). }
  rewrite T, (mvD_snd A zero one add mul sub opp Rth).
  assert (Lm1 : length (mvA (map F dW) (S' x)) = nout) by (unfold mv; rewrite !map_length; auto).
  assert (Lm2 : length (mvA (map S' dW) (F x)) = nout) by (unfold mv; rewrite !map_length; auto).
  assert (Core : dotA d (vaddA (mvA (map F dW) (S' x)) (mvA (map S' dW) (F x))) =
                 dotA (vmA nin d (map F dW)) (S' x) + frA (outerA d (F x)) (map S' dW)).
  { rewrite (dot_vadd_r A zero one add mul sub opp Rth) by congruence.
    rewrite (dot_mv_vm A zero one add mul sub opp Rth nin) by (apply (rows_map_F A); auto).
    rewrite (dot_mv_outer A zero one add mul sub opp Rth). reflexivity. }
  change (lW lA) with (map F dW).
  destruct db as [|b0 bq] eqn:Eb.
  - rewrite Core. ring.
  - destruct B as [B|B]; [discriminate|].
    rewrite (dot_vadd_r A zero one add mul sub opp Rth); [rewrite Core; ring|].
    rewrite (vadd_length A add) by (rewrite Lm1, Lm2; reflexivity). rewrite Lm1, map_length. symmetry; exact B.
Qed.

Theorem layer_batch_tangent_gen nin nout dW db aA aD dom (XD : list (list DA)) C :
  gwf nin nout dW db -> row_ok aA aD dom -> rows nin XD -> rows nout C ->
  (forall x, In x XD -> dom (lin_preA (glA dW db aA) (F x))) ->
  let lA := glA dW db aA in let X := map F XD in
  frA C (map S' (map (lin_evalD (glD dW db aD)) XD)) =
    dotA (lin_wpd zero add mul nin nout lA X C) (concat (map S' dW) ++ S' db) + frA (lin_wid zero add mul nin lA X C) (map S' XD).
Proof.
  intros WF RO RX RC DOM lA X. unfold lin_wpd, lin_wid.
  pose proof WF as (L & R & B).
  assert (SW : shape A nout nin (map S' dW)) by (split; [rewrite map_length; auto|apply (rows_map_S A); auto]).
  (* rows of delta have length nout *)
  assert (RDl : forall XD0 C0, rows nin XD0 -> rows nout C0 -> (forall x, In x XD0 -> dom (lin_preA lA (F x))) ->
                rows nout (lin_delta zero add mul lA (map F XD0) C0)).
  { induction XD0 as [|x0 XD0 IH]; intros [|c0 C0] RX0 RC0 D0; simpl; try (constructor; fail).
    constructor; [|apply IH; [exact (Forall_inv_tail RX0)|exact (Forall_inv_tail RC0)|intros; apply D0; right; auto]].
    destruct (row_tangent_gen nin nout dW db aA aD dom x0 c0 WF RO (Forall_inv RX0) (Forall_inv RC0)) as [Ld _]; [apply D0; left; auto|].
    exact Ld. }
  subst X. revert C RC. induction XD as [|x XD IH]; intros [|c C] RC.
  - cbn [map fr gradW colsum lin_delta map2 concat app]. rewrite (dot_app A zero one add mul sub opp Rth)
      by (rewrite (concat_length A nout nin _ (zmat_shape A zero nout nin)), (concat_length A nout nin _ SW); reflexivity).
    rewrite (fr_concat A zero one add mul sub opp Rth nout nin) by (auto; apply (zmat_shape A zero)).
    rewrite (fr_zmat A zero one add mul sub opp Rth). destruct (lb lA); cbn [dot]; [ring|]. rewrite (dot_zeros_l A zero one add mul sub opp Rth). ring.
  - cbn [map fr gradW colsum lin_delta map2 concat app]. rewrite (dot_app A zero one add mul sub opp Rth)
      by (rewrite (concat_length A nout nin _ (zmat_shape A zero nout nin)), (concat_length A nout nin _ SW); reflexivity).
    rewrite (fr_concat A zero one add mul sub opp Rth nout nin) by (auto; apply (zmat_shape A zero)).
    rewrite (fr_zmat A zero one add mul sub opp Rth). destruct (lb lA); cbn [dot]; [ring|]. rewrite (dot_zeros_l A zero one add mul sub opp Rth). ring.
  - cbn [map fr gradW colsum lin_delta map2 concat app]. rewrite (dot_app A zero one add mul sub opp Rth)
      by (rewrite (concat_length A nout nin _ (zmat_shape A zero nout nin)), (concat_length A nout nin _ SW); reflexivity).
    rewrite (fr_concat A zero one add mul sub opp Rth nout nin) by (auto; apply (zmat_shape A zero)).
    rewrite (fr_zmat A zero one add mul sub opp Rth). destruct (lb lA); cbn [dot]; [ring|]. rewrite (dot_zeros_l A zero one add mul sub opp Rth). ring.
  - pose proof (Forall_inv RX) as Hx. pose proof (Forall_inv_tail RX) as RX'.
    pose proof (Forall_inv RC) as Hc. pose proof (Forall_inv_tail RC) as RC'. cbv beta in Hx, Hc.
    assert (DOM' : forall x0, In x0 XD -> dom (lin_preA lA (F x0))) by (intros; apply DOM; right; auto).
    specialize (IH RX' DOM' C RC').
    destruct (row_tangent_gen nin nout dW db aA aD dom x c WF RO Hx Hc) as [Ld RT]; [apply DOM; left; auto|].
    cbv zeta in Ld, RT. fold lA in Ld, RT.
    change (map F (x :: XD)) with (F x :: map F XD).
    change (lin_delta zero add mul lA (F x :: map F XD) (c :: C))
      with (amul (lact lA) (lin_preA lA (F x)) (lin_evalA lA (F x)) c :: lin_delta zero add mul lA (map F XD) C).
    change (lact lA) with aA.
    set (d := amul aA (lin_preA lA (F x)) (lin_evalA lA (F x)) c) in *.
    set (Dl := lin_delta zero add mul lA (map F XD) C) in *.
    assert (RD : rows nout Dl) by (apply RDl; auto).
    cbn [map fr gradW colsum].
    rewrite RT.
    (* unfold the induction hypothesis into the same normal form *)
    assert (SG : shape A nout nin (gradW zero add mul nout nin Dl (map F XD))) by (apply (gradW_shape A zero add mul); auto; apply (rows_map_F A); auto).
    assert (SO : shape A nout nin (outerA d (F x))).
    { pose proof (outer_shape A mul d (F x)) as Q. rewrite Ld, map_length in Q.
      assert (E : @length (A * A) x = nin) by exact Hx. rewrite E in Q. exact Q. }
    assert (Lcs : length (colsum zero add nout Dl) = nout) by (apply (colsum_length A zero add); auto).
    assert (LG : forall M, shape A nout nin M -> length (concat M) = length (concat (map S' dW)))
      by (intros M SM; rewrite (concat_length A nout nin M SM), (concat_length A nout nin _ SW); reflexivity).
    rewrite (dot_app A zero one add mul sub opp Rth) in IH by (apply LG; auto).
    rewrite (fr_concat A zero one add mul sub opp Rth nout nin) in IH by auto.
    rewrite IH.
    rewrite (dot_app A zero one add mul sub opp Rth) by (apply LG; apply (madd_shape A add); auto).
    rewrite (fr_concat A zero one add mul sub opp Rth nout nin) by (auto; apply (madd_shape A add); auto).
    rewrite (fr_madd A zero one add mul sub opp Rth nout nin _ _ _ SO SG).
    change (lb lA) with (F db). change (lW lA) with (map F dW).
    destruct db as [|b0 bq] eqn:Eb; cbn [map].
    + cbn [dot]. ring.
    + destruct B as [B|B]; [discriminate|].
      rewrite (dot_vadd_l A zero one add mul sub opp Rth) by (rewrite Lcs; exact Ld). ring.
Qed.

(* ---------------- a LinearModel layer with a row activation as a layer kind of C04Het (for the concatenation theorems) ---------------- *)
Definition lin_tan_row (nin nout : nat) (off : bool) (aD : act DA) : tanmap A := fun p dp X dX =>
  map S' (map (lin_evalD (glD (chunk nin nout (combine p dp)) (if off then firstn nout (skipn (nin * nout) (combine p dp)) else []) aD))
              (map2 (@combine A A) X dX)).

Lemma lin_pre_len nin nout off (a : act A) p x :
  length p = lin_nparams nin nout off -> length (lin_preA (lin_set nin nout off a p) x) = nout.
Proof.
  intros Lp. unfold lin_pre, lin_set; cbn [lW lb].
  assert (Lm : length (mvA (chunk nin nout p) x) = nout) by (unfold mv; rewrite map_length; apply chunk_length).
  destruct off; [|exact Lm].
  assert (Lb : length (firstn nout (skipn (nin * nout) p)) = nout) by (rewrite firstn_length, skipn_length; unfold lin_nparams in Lp; lia).
  destruct (firstn nout (skipn (nin * nout) p)) eqn:E; [exact Lm|]. cbn [addoff]. rewrite (vadd_length A add); lia.
Qed.

Theorem lin_kind_ok_row nin nout off (aA : act A) (aD : act DA) dom :
  row_ok aA aD dom -> (forall z, length (aphi aA z) = length z) -> (forall zD, length (aphi aD zD) = length zD) ->
  (forall z, length z = nout -> dom z) ->
  kind_ok A zero add mul (lin_kind zero add mul nin nout off aA) (lin_tan_row nin nout off aD).
Proof.
  intros RO LA LD DOM p dp X dX C Lp Ldp RX RD LDX RC LC. cbn [lin_kind k_np k_nin k_nout k_eval k_wpd k_wid k_wd] in *.
  set (dW := chunk nin nout (combine p dp)).
  set (db := if off then firstn nout (skipn (nin * nout) (combine p dp)) else []).
  set (XD := map2 (@combine A A) X dX).
  assert (Lc : length (combine p dp) = lin_nparams nin nout off) by (rewrite combine_length; lia).
  assert (WF : gwf nin nout dW db).
  { unfold gwf, dW, db. split; [apply chunk_length|]. split.
    - apply chunk_rows. unfold lin_nparams in Lc. lia.
    - destruct off; [right|left; reflexivity]. rewrite firstn_length, skipn_length. unfold lin_nparams in Lc. lia. }
  assert (EV : glA dW db aA = lin_set nin nout off aA p).
  { unfold glA, dW, db, lin_set. f_equal.
    - rewrite chunk_map, map_fst_combine by lia. reflexivity.
    - destruct off; auto. rewrite <- firstn_map, <- skipn_map, map_fst_combine by lia. reflexivity. }
  assert (ET : concat (map S' dW) ++ S' db = dp).
  { unfold dW, db. rewrite chunk_map, map_snd_combine by lia.
    destruct (param_roundtrip_linear A nin nout off aA dp Ldp) as [E _].
    unfold lin_params, lin_set in E; cbn [lW lb] in E. rewrite <- E at 3. f_equal.
    destruct off; auto. rewrite <- firstn_map, <- skipn_map, map_snd_combine by lia. reflexivity. }
  assert (LXD : length XD = length X) by (unfold XD; apply map2_length'; auto).
  assert (RXD : rows nin XD).
  { unfold XD. apply (rows_map2 nin nin); auto. intros x y Lx Ly. rewrite combine_length. lia. }
  assert (EXF : map F XD = X) by (unfold XD; apply (mapfst_map2_combine nin); auto).
  assert (EXS : map S' XD = dX) by (unfold XD; apply (mapsnd_map2_combine nin); auto).
  set (l := lin_set nin nout off aA p) in *.
  assert (Le : forall x, length (lin_evalA l x) = nout) by (intros x; unfold lin_eval; rewrite LA; apply lin_pre_len; auto).
  assert (RDl : forall X0 C0, rows nout C0 -> rows nout (lin_delta zero add mul l X0 C0)).
  { induction X0 as [|x0 X0 IH]; intros [|c0 C0] R0; simpl; try (constructor; fail).
    constructor; [|apply IH; exact (Forall_inv_tail R0)].
    assert (Dz : dom (lin_preA l x0)) by (apply DOM; apply lin_pre_len; auto).
    set (zD := map (fun a => (a, zero)) (lin_preA l x0)).
    assert (Fz : F zD = lin_preA l x0) by (unfold zD; rewrite map_map; apply map_id).
    destruct (RO zD c0) as (_ & _ & R3 & _); [rewrite Fz; exact Dz| |].
    - unfold zD. rewrite map_length. transitivity nout; [exact (Forall_inv R0)|symmetry; apply lin_pre_len; auto].
    - rewrite Fz in R3. transitivity (length c0); [exact R3|exact (Forall_inv R0)]. }
  repeat split.
  - rewrite (lin_batch_is_map A zero one add mul sub opp Rth). apply (rows_map nin); auto.
  - rewrite (lin_batch_is_map A zero one add mul sub opp Rth). apply map_length.
  - unfold lin_tan_row. fold dW db XD. rewrite map_map. apply (rows_map nin); auto.
    intros x _. rewrite map_length. unfold lin_eval. rewrite LD. apply (preD_len nin nout dW db aD x WF).
  - unfold lin_tan_row. fold dW db XD. rewrite !map_length. exact LXD.
  - unfold lin_wid. apply Forall_forall. intros y Hy. apply in_map_iff in Hy. destruct Hy as (d & <- & _).
    apply (vm_length A zero add mul). unfold l, lin_set; cbn [lW]. apply chunk_rows. unfold lin_nparams in Lp. lia.
  - unfold lin_wid. rewrite map_length. unfold lin_delta.
    clear - LC. revert C LC. induction X as [|x X IH]; intros [|c C] LC; simpl in *; try discriminate; auto.
  - unfold lin_wpd. rewrite app_length.
    rewrite (concat_length A nout nin) by (apply (gradW_shape A zero add mul); auto).
    unfold lin_nparams. rewrite (Nat.mul_comm nout nin). f_equal. unfold l, lin_set; cbn [lb]. destruct off; auto.
    assert (Lb : length (firstn nout (skipn (nin * nout) p)) = nout) by (rewrite firstn_length, skipn_length; unfold lin_nparams in Lp; lia).
    destruct (firstn nout (skipn (nin * nout) p)) eqn:E.
    + exact Lb.
    + apply (colsum_length A zero add). rewrite <- E. exact (RDl X C RC).
  - pose proof (layer_batch_tangent_gen nin nout dW db aA aD dom XD C WF RO RXD RC) as LT.
    cbv zeta in LT. rewrite EXF, EXS, ET, EV in LT. unfold lin_tan_row. fold dW db XD. apply LT.
    intros x _. fold l. apply DOM. apply lin_pre_len; auto.
Qed.

End RowActRing.

(* ============================ Part B: the two row activations over a field ============================ *)
Section RowActField.
Variable A : Type.
Variables (zero one : A) (add mul sub : A -> A -> A) (opp : A -> A) (div : A -> A -> A) (inv : A -> A).
Hypothesis Fth : field_theory zero one add mul sub opp div inv eq.
Add Field AfieldRA : Fth.
Variable expA : A -> A.

Infix "+" := add : CA_scope.
Infix "*" := mul : CA_scope.
Infix "-" := sub : CA_scope.
Infix "/" := div : CA_scope.
Local Open Scope CA_scope.
Notation Rth := (F_R Fth).
Notation dotA := (dot zero add mul).
Notation vsumA := (vsum zero add).
Notation vmulA := (vmul mul).
Notation DA := (D A).
Notation dz := (dzero A zero).
Notation da := (dadd A add).
Notation dm := (dmul A add mul).
Notation F := (map (@fst A A)).
Notation S' := (map (@snd A A)).

(* dual numbers: subtraction, THE quotient (the r with r * q = p), the exponential with exp' = exp *)
Definition dsubF (p q : DA) : DA := (fst p - fst q, snd p - snd q).
Definition ddivF (p q : DA) : DA := (fst p / fst q, (snd p * fst q - fst p * snd q) / (fst q * fst q)).
Definition dexpF (p : DA) : DA := (expA (fst p), expA (fst p) * snd p).

Lemma ddivF_sound (p q : DA) : fst q <> zero -> dm (ddivF p q) q = p.
Proof. intros H. destruct p as [a a'], q as [b b']. unfold dmul, ddivF. cbn [fst snd] in *. f_equal; field; auto. Qed.
Lemma ddivF_unique (p q r : DA) : fst q <> zero -> dm r q = p -> r = ddivF p q.
Proof.
  intros H E. destruct p as [a a'], q as [b b'], r as [c c']. unfold dmul, ddivF in *. cbn [fst snd] in *.
  inversion E; subst. f_equal; field; auto.
Qed.

Notation normA := (normalizer_act zero add mul sub div).
Notation normD := (normalizer_act dz da dm dsubF ddivF).
Notation softA := (softmax_act zero add mul sub div expA).
Notation softD := (softmax_act dz da dm dsubF ddivF dexpF).

(* ---------------- sums over rows ---------------- *)
Lemma fst_vsumD (z : list DA) : fst (vsum dz da z) = vsumA (F z).
Proof. induction z as [|p z IH]; simpl; auto. rewrite IH. reflexivity. Qed.
Lemma snd_vsumD (z : list DA) : snd (vsum dz da z) = vsumA (S' z).
Proof. induction z as [|p z IH]; simpl; auto. rewrite IH. reflexivity. Qed.

Lemma vsum_vmul (u v : list A) : vsumA (vmulA u v) = dotA u v.
Proof. revert v; induction u as [|x u IH]; intros [|y v]; simpl; auto. rewrite IH. reflexivity. Qed.

Lemma dot_lin2 (c p e : list A) (al be : A) : length p = length e ->
  dotA c (map2 (fun pj ej => al * pj + be * ej) p e) = al * dotA c p + be * dotA c e.
Proof.
  revert p e; induction c as [|x c IH]; intros [|pj p] [|ej e] L; simpl in *; try discriminate; try ring.
  rewrite IH by lia. ring.
Qed.

Lemma dot_map_div (c u : list A) (n : A) : n <> zero -> dotA c (map (fun a => a / n) u) = dotA c u / n.
Proof.
  intros H. revert u; induction c as [|x c IH]; intros [|y u]; simpl; try (field; auto).
  rewrite IH. field; auto.
Qed.

Lemma dot_map_shift (c v : list A) (k : A) : length c = length v ->
  dotA (map (fun ci => ci - k) c) v = dotA c v - k * vsumA v.
Proof.
  revert v; induction c as [|x c IH]; intros [|y v] L; simpl in *; try discriminate; try ring.
  rewrite IH by lia. ring.
Qed.

Lemma vmul_map_div (u v : list A) (n : A) : n <> zero -> vmulA (map (fun a => a / n) u) v = map (fun a => a / n) (vmulA u v).
Proof. intros H. revert v; induction u as [|x u IH]; intros [|a v]; simpl; auto. rewrite IH. f_equal. field; auto. Qed.

Lemma map2_fs {E} (f : A -> A -> E) (z : list DA) : map2 f (S' z) (F z) = map (fun x => f (snd x) (fst x)) z.
Proof. induction z as [|x z IH]; simpl; auto. rewrite IH. reflexivity. Qed.

(* ---------------- NormalizerNeuron: a / sum a ---------------- *)
Theorem normalizer_row_ok : row_ok A zero add mul normA normD (fun z => vsumA z <> zero).
Proof.
  intros zD c DOM Lc. cbn [aphi amul normalizer_act].
  set (n := vsumA (F zD)) in *. set (n' := vsumA (S' zD)).
  assert (EF : F (map (fun x => ddivF x (vsum dz da zD)) zD) = map (fun a => a / n) (F zD)).
  { rewrite !map_map. apply map_ext. intros x. unfold ddivF. cbn [fst]. rewrite fst_vsumD. reflexivity. }
  assert (ES : S' (map (fun x => ddivF x (vsum dz da zD)) zD) =
               map2 (fun pj ej => (one / n) * pj + (opp n' / (n * n)) * ej) (S' zD) (F zD)).
  { rewrite map2_fs, map_map. apply map_ext. intros x. unfold ddivF. cbn [snd]. rewrite fst_vsumD, snd_vsumD. fold n n'. field; auto. }
  repeat split.
  - exact EF.
  - apply map_length.
  - apply map_length.
  - rewrite ES, dot_lin2 by (rewrite !map_length; reflexivity).
    assert (E2 : dotA (map (fun ci => (ci - dotA c (map (fun a => a / n) (F zD))) / n) c) (S' zD) =
                 (dotA c (S' zD) - dotA c (map (fun a => a / n) (F zD)) * n') / n).
    { rewrite <- (map_map (fun ci => ci - dotA c (map (fun a => a / n) (F zD))) (fun v => v / n)).
      rewrite (dot_comm A zero one add mul sub opp Rth), dot_map_div by auto.
      rewrite (dot_comm A zero one add mul sub opp Rth), dot_map_shift by (rewrite map_length; auto). reflexivity. }
    rewrite E2, dot_map_div by auto. field; auto.
Qed.

(* ---------------- SoftmaxNeuron: exp a / sum exp a ---------------- *)
Theorem softmax_row_ok : row_ok A zero add mul softA softD (fun z => vsumA (map expA z) <> zero).
Proof.
  intros zD c DOM Lc. cbn [aphi amul softmax_act].
  set (e := map expA (F zD)) in *.
  assert (EFe : F (map dexpF zD) = e) by (unfold e; rewrite !map_map; reflexivity).
  assert (ESe : S' (map dexpF zD) = vmulA e (S' zD)).
  { unfold e. clear. induction zD as [|x z IH]; simpl; auto. rewrite IH. reflexivity. }
  set (s := vsumA e) in *. set (p := vmulA e (S' zD)). set (s' := vsumA p).
  assert (Le : length e = length zD) by (unfold e; rewrite !map_length; auto).
  assert (Lp : length p = length zD) by (unfold p; rewrite (vmul_length A mul) by (rewrite map_length; exact Le); exact Le).
  assert (EF : F (map (fun x => ddivF x (vsum dz da (map dexpF zD))) (map dexpF zD)) = map (fun a => a / s) e).
  { rewrite <- EFe. rewrite !map_map. apply map_ext. intros x. unfold ddivF. cbn [fst]. rewrite fst_vsumD, EFe. reflexivity. }
  assert (ES : S' (map (fun x => ddivF x (vsum dz da (map dexpF zD))) (map dexpF zD)) =
               map2 (fun pj ej => (one / s) * pj + (opp s' / (s * s)) * ej) p e).
  { unfold p. rewrite <- ESe, <- EFe. rewrite map2_fs, (map_map _ (@snd A A)). apply map_ext. intros x. unfold ddivF. cbn [snd].
    rewrite fst_vsumD, snd_vsumD, EFe, ESe. fold s p s'. field; auto. }
  repeat split.
  - exact EF.
  - rewrite !map_length. reflexivity.
  - rewrite (vmul_length A mul); rewrite !map_length; lia.
  - rewrite ES, dot_lin2 by lia.
    set (y := map (fun a => a / s) e). set (m := vsumA (vmulA c y)).
    assert (Em : m = dotA c e / s) by (unfold m, y; rewrite vsum_vmul, dot_map_div; auto).
    assert (Ey : vmulA y (S' zD) = map (fun a => a / s) p) by (unfold y, p; apply vmul_map_div; auto).
    rewrite <- (dot_vmul A zero one add mul sub opp Rth), Ey, dot_map_div by auto.
    rewrite dot_map_shift by lia. fold s'. rewrite Em. field; auto.
Qed.

(* ---------------- the layer theorems for the two activations ---------------- *)
Notation frA := (fr A zero add mul).
Notation lin_evalD := (lin_eval dz da dm).
Notation lin_preA := (lin_pre zero add mul).

(* LinearModel<.., NormalizerNeuron>: every pre-activation row must have a non-zero sum (the neuron divides by it) *)
Theorem layer_normalizer_tangent nin nout dW db (XD : list (list DA)) C :
  gwf A nin nout dW db -> rows nin XD -> rows nout C ->
  (forall x, In x XD -> vsumA (lin_preA (glA A dW db normA) (F x)) <> zero) ->
  let lA := glA A dW db normA in let X := map F XD in
  frA C (map S' (map (lin_evalD (glD A dW db normD)) XD)) =
    dotA (lin_wpd zero add mul nin nout lA X C) (concat (map S' dW) ++ S' db) + frA (lin_wid zero add mul nin lA X C) (map S' XD).
Proof.
  intros WF RX RC DOM. apply (layer_batch_tangent_gen A zero one add mul sub opp Rth nin nout dW db normA normD
                                 (fun z => vsumA z <> zero) XD C WF normalizer_row_ok RX RC DOM).
Qed.

Theorem layer_softmax_tangent nin nout dW db (XD : list (list DA)) C :
  gwf A nin nout dW db -> rows nin XD -> rows nout C ->
  (forall x, In x XD -> vsumA (map expA (lin_preA (glA A dW db softA) (F x))) <> zero) ->
  let lA := glA A dW db softA in let X := map F XD in
  frA C (map S' (map (lin_evalD (glD A dW db softD)) XD)) =
    dotA (lin_wpd zero add mul nin nout lA X C) (concat (map S' dW) ++ S' db) + frA (lin_wid zero add mul nin lA X C) (map S' XD).
Proof.
  intros WF RX RC DOM. apply (layer_batch_tangent_gen A zero one add mul sub opp Rth nin nout dW db softA softD
                                 (fun z => vsumA (map expA z) <> zero) XD C WF softmax_row_ok RX RC DOM).
Qed.

(* with a positive exponential (ordered field: sums of positives are positive, positives are non-zero) the softmax domain is
   every non-empty row *)
Variable pos : A -> Prop.
Hypothesis pos_add : forall a b, pos a -> pos b -> pos (a + b).
Hypothesis pos_nz : forall a, pos a -> a <> zero.
Hypothesis exp_pos : forall x, pos (expA x).

Lemma exp_sum_pos (z : list A) : z <> [] -> pos (vsumA (map expA z)).
Proof.
  induction z as [|x z IH]; intros H; [contradiction|]. destruct z as [|y z].
  - simpl. replace (expA x + zero) with (expA x) by ring. apply exp_pos.
  - change (pos (expA x + vsumA (map expA (y :: z)))). apply pos_add; [apply exp_pos|apply IH; discriminate].
Qed.

Lemma exp_sum_nz (z : list A) n : length z = n -> 1 <= n -> vsumA (map expA z) <> zero.
Proof. intros L H. apply pos_nz, exp_sum_pos. destruct z; [simpl in L; lia|discriminate]. Qed.

(* a LinearModel<.., SoftmaxNeuron> layer is a layer kind of C04Het: it can be put into C04_het_chain_rule *)
Theorem lin_softmax_kind_ok nin nout off : 1 <= nout ->
  kind_ok A zero add mul (lin_kind zero add mul nin nout off softA) (lin_tan_row A zero add mul nin nout off softD).
Proof.
  intros H. apply (lin_kind_ok_row A zero one add mul sub opp Rth nin nout off softA softD (fun z => vsumA (map expA z) <> zero)).
  - exact softmax_row_ok.
  - intros z. cbn [aphi softmax_act]. rewrite !map_length. reflexivity.
  - intros z. cbn [aphi softmax_act]. rewrite !map_length. reflexivity.
  - intros z L. apply (exp_sum_nz z nout L H).
Qed.

End RowActField.
