(* C12 — all fold constructors of CVDatasetTools.h (createCVFullyIndexed, createCVBatch, createCVIID next to the
   ones of C12Proofs.v), the CVFolds accessors validation(i) / training(i) with their batch structure, and the
   element shape.  On the C03 dataset model. *)
From Coq Require Import List Arith Lia Bool Permutation.
From SharkV Require Import ListAux C03Model C03Proofs C12Model C12Proofs C03Class C12BalancedProofs C12Folds.
Import ListNotations.

(* ------------------------------------------------------------------------------------------------ *)
(* batch sizes of one validation part, and consecutive index ranges                                   *)
Definition osz (m p : nat) : list nat := match opt_sizes p m with Some l => l | None => [] end.

Fixpoint ranges (lens : list nat) (s : nat) : list (list nat) :=
  match lens with
  | [] => []
  | n :: r => seq s n :: ranges r (s + n)
  end.

Fixpoint pstarts (lens : list nat) (s : nat) : list nat :=
  match lens with
  | [] => []
  | n :: r => s :: pstarts r (s + n)
  end.

Lemma osz_0 m : osz m 0 = [].
Proof. unfold osz, opt_sizes. destruct (m =? 0); reflexivity. Qed.

(* ------------------------------------------------------------------------------------------------ *)
(* generic list facts                                                                                 *)
Lemma sum_firstn_skipn p (l : list nat) : sum (firstn p l) + sum (skipn p l) = sum l.
Proof. rewrite <- sum_app, firstn_skipn. reflexivity. Qed.

Lemma length_concat_sum {X} (G : list (list X)) : length (concat G) = sum (map (@length X) G).
Proof. induction G as [|g G IH]; simpl; auto. rewrite app_length, IH. reflexivity. Qed.

Lemma NoDup_app_l {X} (l l' : list X) : NoDup (l ++ l') -> NoDup l.
Proof.
  induction l as [|x l IH]; simpl; intros H; [constructor|].
  inversion H as [|? ? Hn Hd]; subst. constructor; [|auto]. intros Hi. apply Hn. apply in_or_app. auto.
Qed.

Lemma NoDup_app_r {X} (l l' : list X) : NoDup (l ++ l') -> NoDup l'.
Proof. induction l as [|x l IH]; simpl; intros H; auto. inversion H; subst. auto. Qed.

Lemma In_firstn' {X} n (l : list X) x : In x (firstn n l) -> In x l.
Proof. intros H. rewrite <- (firstn_skipn n l). apply in_or_app. auto. Qed.

Lemma In_skipn' {X} n (l : list X) x : In x (skipn n l) -> In x l.
Proof. intros H. rewrite <- (firstn_skipn n l). apply in_or_app. auto. Qed.

Lemma sum_concat (G : list (list nat)) : sum (concat G) = sum (map sum G).
Proof. induction G as [|g G IH]; simpl; auto. rewrite sum_app, IH. reflexivity. Qed.

Lemma concat_concat {X} (l : list (list (list X))) : concat (concat l) = concat (map (@concat X) l).
Proof. induction l as [|g l IH]; simpl; auto. rewrite concat_app, IH. reflexivity. Qed.

Lemma slices_concat' {X} ps (l : list X) : concat (slices ps l) = firstn (sum ps) l.
Proof.
  revert l; induction ps as [|p r IH]; intros l; simpl; auto.
  rewrite IH. symmetry. apply firstn_add.
Qed.

Lemma slices_concat_id {X} (G : list (list X)) : slices (map (@length X) G) (concat G) = G.
Proof.
  induction G as [|g G IH]; simpl; auto.
  rewrite firstn_app, firstn_all, Nat.sub_diag. simpl. rewrite app_nil_r. f_equal.
  rewrite skipn_app, skipn_all, Nat.sub_diag. simpl. exact IH.
Qed.

Lemma slices_map {X Y} (f : X -> Y) ps (l : list X) : slices ps (map f l) = map (map f) (slices ps l).
Proof.
  revert l; induction ps as [|p r IH]; intros l; simpl; auto.
  rewrite firstn_map, skipn_map, IH. reflexivity.
Qed.

Lemma nth_slices {X} ps (l : list X) p :
  nth p (slices ps l) [] = firstn (nth p ps 0) (skipn (sum (firstn p ps)) l).
Proof.
  revert l p; induction ps as [|x r IH]; intros l p.
  - destruct p; reflexivity.
  - destruct p as [|p]; simpl.
    + reflexivity.
    + rewrite IH, skipn_skipn_add. reflexivity.
Qed.

Lemma slices_firstn {X} ps (l : list X) p : firstn p (slices ps l) = slices (firstn p ps) l.
Proof.
  revert l p; induction ps as [|x r IH]; intros l p; destruct p; simpl; auto.
  f_equal. apply IH.
Qed.

Lemma slices_skipn {X} ps (l : list X) p :
  skipn p (slices ps l) = slices (skipn p ps) (skipn (sum (firstn p ps)) l).
Proof.
  revert l p; induction ps as [|x r IH]; intros l p; destruct p; simpl; auto.
  rewrite IH, skipn_skipn_add. reflexivity.
Qed.

(* all slices but the p-th, concatenated = everything but the positions of the p-th *)
Lemma slices_remove {X} ps (l : list X) p :
  sum ps = length l -> p < length ps ->
  concat (firstn p (slices ps l) ++ skipn (S p) (slices ps l))
  = firstn (sum (firstn p ps)) l ++ skipn (sum (firstn p ps) + nth p ps 0) l.
Proof.
  intros Hs Hp. rewrite concat_app, slices_firstn, slices_skipn, !slices_concat'.
  f_equal. rewrite sum_firstn_S. apply firstn_all2.
  rewrite skipn_length. pose proof (sum_firstn_skipn (S p) ps). rewrite sum_firstn_S in H. lia.
Qed.

Lemma map_nth_range {X} (l : list X) dflt s n :
  s + n <= length l -> map (fun i => nth i l dflt) (seq s n) = firstn n (skipn s l).
Proof.
  revert s l; induction n as [|n IH]; intros s l H; [reflexivity|].
  cbn [seq map]. rewrite IH by lia.
  assert (Hs : s < length l) by lia.
  destruct (skipn s l) as [|y t] eqn:E.
  - exfalso. pose proof (skipn_length s l) as L. rewrite E in L. simpl in L. lia.
  - assert (nth s l dflt = y /\ skipn (S s) l = t) as [-> ->].
    { rewrite <- (firstn_skipn s l) at 1. rewrite app_nth2; rewrite firstn_length, Nat.min_l by lia; [|lia].
      rewrite Nat.sub_diag, E. split; [reflexivity|].
      replace (S s) with (s + 1) by lia. rewrite <- skipn_skipn_add, E. reflexivity. }
    reflexivity.
Qed.

Lemma complement_range s n N :
  s + n <= N -> complement (seq s n) N = seq 0 s ++ seq (s + n) (N - s - n).
Proof.
  intros H. unfold complement.
  replace N with (s + (n + (N - s - n))) at 1 by lia.
  rewrite !seq_app, !filter_app. simpl.
  rewrite (filter_every' _ (seq 0 s)), (filter_none' _ (seq s n)), (filter_every' _ (seq (s + n) _)); auto.
  - intros x Hx. apply in_seq in Hx. apply negb_true_iff.
    destruct (existsb (Nat.eqb x) (seq s n)) eqn:E; auto.
    apply existsb_exists in E. destruct E as (y & Hy & Exy). apply Nat.eqb_eq in Exy. apply in_seq in Hy. lia.
  - intros x Hx. apply negb_false_iff. apply existsb_exists. exists x. split; auto. apply Nat.eqb_refl.
  - intros x Hx. apply in_seq in Hx. apply negb_true_iff.
    destruct (existsb (Nat.eqb x) (seq s n)) eqn:E; auto.
    apply existsb_exists in E. destruct E as (y & Hy & Exy). apply Nat.eqb_eq in Exy. apply in_seq in Hy. lia.
Qed.

Lemma nth_ranges lens s p :
  p < length lens -> nth p (ranges lens s) [] = seq (s + sum (firstn p lens)) (nth p lens 0).
Proof.
  revert s p; induction lens as [|n r IH]; intros s p H; simpl in H; [lia|].
  destruct p as [|p]; simpl.
  - rewrite Nat.add_0_r. reflexivity.
  - rewrite IH by lia. f_equal. lia.
Qed.

Lemma ranges_length lens s : length (ranges lens s) = length lens.
Proof. revert s; induction lens; intros; simpl; auto. Qed.

Lemma ffs_ranges lens s : folds_from_starts (pstarts lens s) (s + sum lens) = ranges lens s.
Proof.
  revert s; induction lens as [|n r IH]; intros s; [reflexivity|].
  cbn [pstarts folds_from_starts ranges]. f_equal.
  - destruct r as [|n' r']; cbn [pstarts]; f_equal; simpl; lia.
  - rewrite <- IH. f_equal. simpl. lia.
Qed.

(* ------------------------------------------------------------------------------------------------ *)
(* permutations handed to the model                                                                   *)
Lemma count_in_count_occ l x : count_in l x = count_occ Nat.eq_dec l x.
Proof.
  unfold count_in. induction l as [|y l IH]; simpl; auto.
  destruct (Nat.eq_dec y x) as [->|N].
  - rewrite Nat.eqb_refl. simpl. rewrite IH. reflexivity.
  - destruct (Nat.eqb_spec x y); [congruence|]. exact IH.
Qed.

Lemma is_perm_of_Permutation a b : is_perm_of a b = true -> Permutation a b.
Proof.
  unfold is_perm_of. intros H. apply andb_prop in H. destruct H as [_ H]. rewrite forallb_forall in H.
  apply (Permutation_count_occ Nat.eq_dec). intros x.
  destruct (in_dec Nat.eq_dec x (a ++ b)) as [I|N].
  - specialize (H x I). apply Nat.eqb_eq in H. rewrite <- !count_in_count_occ. exact H.
  - assert (~ In x a /\ ~ In x b) as [Na Nb] by (split; intros ?; apply N; apply in_or_app; auto).
    rewrite (proj1 (count_occ_not_In Nat.eq_dec a x) Na), (proj1 (count_occ_not_In Nat.eq_dec b x) Nb). reflexivity.
Qed.

Lemma valid_perm_Permutation n p : valid_perm n p = true -> Permutation p (seq 0 n).
Proof. apply is_perm_of_Permutation. Qed.

Lemma valid_perm_facts n p :
  valid_perm n p = true -> length p = n /\ NoDup p /\ (forall i, In i p -> i < n).
Proof.
  intros H. apply valid_perm_Permutation in H. split; [|split].
  - rewrite (Permutation_length H). apply seq_length.
  - apply (Permutation_NoDup (Permutation_sym H)). apply seq_NoDup.
  - intros i Hi. apply (Permutation_in _ H) in Hi. apply in_seq in Hi. lia.
Qed.

Lemma gather_perm {X} (l : list X) dflt order :
  Permutation order (seq 0 (length l)) -> Permutation (map (fun i => nth i l dflt) order) l.
Proof. intros P. rewrite (Permutation_map _ P). rewrite map_nth_seq. reflexivity. Qed.

Lemma indexed_order_perm idx k :
  (forall i, In i idx -> i < k) -> Permutation (indexed_order idx k) (seq 0 (length idx)).
Proof.
  intros H. unfold indexed_order.
  apply (group_by_perm (fun i => nth i idx 0) (seq 0 k) (seq 0 (length idx))); [apply seq_NoDup|].
  intros x Hx. apply in_seq in Hx. apply in_seq. split; [lia|]. simpl. apply H. apply nth_In. lia.
Qed.

(* ------------------------------------------------------------------------------------------------ *)
(* batchPartitioning, explicitly                                                                      *)
Lemma opt_sizes_total n m : 0 < m -> exists l, opt_sizes n m = Some l.
Proof.
  intros H. unfold opt_sizes. destruct (Nat.eqb_spec m 0); [lia|]. destruct (n =? 0); eexists; reflexivity.
Qed.

Lemma batch_partitioning_total psizes m : 0 < m ->
  forall nb, exists st bs, batch_partitioning psizes m nb = Some (st, bs).
Proof.
  intros Hm. induction psizes as [|p ps IH]; intros nb; simpl.
  - eexists; eexists; reflexivity.
  - destruct (opt_sizes_total p m Hm) as [l ->]. destruct (IH (nb + length l)) as (st & bs & ->).
    eexists; eexists; reflexivity.
Qed.

Lemma bp_explicit psizes m : forall nb starts bs,
  batch_partitioning psizes m nb = Some (starts, bs) ->
  bs = concat (map (osz m) psizes) /\
  starts = pstarts (map (fun p => length (osz m p)) psizes) nb /\
  (forall p, In p psizes -> sum (osz m p) = p).
Proof.
  induction psizes as [|p ps IH]; intros nb starts bs H; simpl in H.
  - injection H as <- <-. repeat split. intros p [].
  - destruct (opt_sizes p m) as [bs0|] eqn:E0; [|discriminate].
    destruct (batch_partitioning ps m (nb + length bs0)) as [[st rest]|] eqn:E1; [|discriminate].
    injection H as <- <-. destruct (IH _ _ _ E1) as (I1 & I2 & I3).
    assert (O : osz m p = bs0) by (unfold osz; rewrite E0; reflexivity).
    cbn [map concat pstarts]. rewrite O, <- I1, <- I2. repeat split.
    intros q [<-|Hq]; [|auto]. rewrite O. apply (opt_sizes_spec _ _ _ E0).
Qed.

Section Layout.
Context {A : Type}.

(* the shape of a CVFolds object built by batchPartitioning + CVFolds(set, partitionStart):
   the batches of part 0, then those of part 1, ...; part p is cut into optimalBatchSizes(psizes[p], m) *)
Definition cv_layout (c : @cv A) (psizes : list nat) (m : nat) : Prop :=
  sizes (cv_set c) = concat (map (osz m) psizes) /\
  cv_folds c = ranges (map (fun p => length (osz m p)) psizes) 0 /\
  (forall p, In p psizes -> sum (osz m p) = p).

Lemma chunk_sizes_elems (d : @data A) : chunk (sizes d) (elems d) = d.
Proof.
  induction d as [|b d IH]; [reflexivity|].
  cbn [sizes map chunk]. unfold elems. cbn [concat].
  rewrite firstn_app, firstn_all, Nat.sub_diag. simpl. rewrite app_nil_r. f_equal.
  rewrite skipn_app, skipn_all, Nat.sub_diag. simpl. exact IH.
Qed.

(* validation(p) and training(p) of such an object: always defined, and exactly these batches *)
Theorem layout_parts (c : @cv A) psizes m p :
  cv_layout c psizes m -> p < length psizes ->
  let E := elems (cv_set c) in
  let a := sum (firstn p psizes) in
  let q := nth p psizes 0 in
  exists dv dt,
    validation c p = Some dv /\ training c p = Some dt /\
    elems dv = firstn q (skipn a E) /\
    elems dt = firstn a E ++ skipn (a + q) E /\
    sizes dv = osz m q /\
    sizes dt = concat (map (osz m) (firstn p psizes ++ skipn (S p) psizes)) /\
    Permutation (elems dv ++ elems dt) E.
Proof.
  intros (Hsz & Hf & Hsum) Hp E a q.
  set (d := cv_set c) in *.
  set (G := map (osz m) psizes) in *.
  set (lens := map (fun p => length (osz m p)) psizes) in *.
  assert (Hlens : lens = map (@length nat) G) by (unfold lens, G; rewrite map_map; reflexivity).
  assert (HN : length d = sum lens).
  { rewrite <- (map_length (@length A) d). fold (sizes d). rewrite Hsz, length_concat_sum, Hlens. reflexivity. }
  assert (Hpl : p < length lens) by (unfold lens; rewrite map_length; exact Hp).
  set (s := sum (firstn p lens)). set (n := nth p lens 0).
  assert (Hsn : s + n <= length d).
  { rewrite HN. pose proof (sum_firstn_skipn (S p) lens) as T. rewrite sum_firstn_S in T. fold s n in T. lia. }
  assert (Hfold : nth p (cv_folds c) [] = seq s n).
  { rewrite Hf, nth_ranges by exact Hpl. reflexivity. }
  (* groups of batches *)
  set (GB := slices lens d).
  assert (HGBc : concat GB = d) by (apply slices_concat; unfold sum in *; lia).
  assert (HGBs : map (map (@length A)) GB = G).
  { unfold GB. rewrite <- slices_map. fold (sizes d). rewrite Hsz, Hlens. apply slices_concat_id. }
  assert (HGE : map (@concat A) GB = slices psizes E).
  { assert (map (@length A) (map (@concat A) GB) = psizes) as L.
    { rewrite map_map. rewrite (map_ext _ (fun g => sum (map (@length A) g))) by (intros; apply length_concat_sum).
      rewrite <- (map_map (map (@length A)) sum), HGBs. unfold G. rewrite map_map.
      rewrite <- (map_id psizes) at 2. apply map_ext_in. exact Hsum. }
    rewrite <- L at 1. unfold E, elems. rewrite <- HGBc, concat_concat. symmetry. apply slices_concat_id. }
  assert (HsumE : sum psizes = length E).
  { unfold E, elems. rewrite <- (map_id psizes), <- (map_ext_in _ _ _ Hsum), <- map_map. fold G.
    rewrite <- sum_concat, <- Hsz. apply sum_sizes. }
  exists (nth p GB []), (concat (firstn p GB ++ skipn (S p) GB)).
  assert (Hv : validation c p = Some (nth p GB [])).
  { unfold validation, indexed_subset. rewrite Hfold. fold d.
    assert (forallb (fun i => i <? length d) (seq s n) = true) as ->.
    { apply forallb_forall. intros i Hi. apply in_seq in Hi. apply Nat.ltb_lt. lia. }
    f_equal. rewrite map_nth_range by exact Hsn. unfold GB. rewrite nth_slices. reflexivity. }
  assert (Ht : training c p = Some (concat (firstn p GB ++ skipn (S p) GB))).
  { unfold training, indexed_subset. rewrite Hfold. fold d. rewrite complement_range by exact Hsn.
    assert (forallb (fun i => i <? length d) (seq 0 s ++ seq (s + n) (length d - s - n)) = true) as ->.
    { apply forallb_forall. intros i Hi. apply in_app_or in Hi. apply Nat.ltb_lt.
      destruct Hi as [Hi|Hi]; apply in_seq in Hi; lia. }
    f_equal. rewrite map_app, !map_nth_range by lia. change (skipn 0 d) with d.
    unfold GB. rewrite slices_remove by (auto; unfold sum in *; lia). fold s n.
    f_equal. apply firstn_all2. rewrite skipn_length. lia. }
  split; [exact Hv|]. split; [exact Ht|].
  assert (Ev : elems (nth p GB []) = firstn q (skipn a E)).
  { unfold elems at 1. rewrite <- (map_nth (@concat A)). change (@concat A []) with (@nil A).
    rewrite HGE. apply nth_slices. }
  assert (Et : elems (concat (firstn p GB ++ skipn (S p) GB)) = firstn a E ++ skipn (a + q) E).
  { unfold elems at 1. rewrite concat_concat, map_app, <- firstn_map, <- skipn_map, HGE.
    apply slices_remove; [exact HsumE|exact Hp]. }
  split; [exact Ev|]. split; [exact Et|]. split; [|split].
  - unfold sizes. rewrite <- (map_nth (map (@length A))). change (map (@length A) []) with (@nil nat).
    rewrite HGBs. unfold G. rewrite <- (osz_0 m), map_nth. reflexivity.
  - unfold sizes. rewrite concat_map, map_app, <- firstn_map, <- skipn_map, HGBs.
    unfold G. rewrite firstn_map, skipn_map, <- map_app. reflexivity.
  - rewrite Ev, Et.
    rewrite <- (firstn_skipn a E) at 4. rewrite <- (firstn_skipn q (skipn a E)) at 2.
    rewrite skipn_skipn_add. apply Permutation_app_swap_app.
Qed.

End Layout.

(* ------------------------------------------------------------------------------------------------ *)
(* every contiguous constructor = gather by req_order, batch by batchPartitioning of req_psizes       *)
Section Create.
Context {A : Type}.
Variable dflt : A.

Lemma regroup_cv_layout psizes m starts bs order (d : @data A) :
  batch_partitioning psizes m 0 = Some (starts, bs) ->
  sum psizes = length order ->
  cv_layout (mkCV (regroup dflt order bs d) (folds_from_starts starts (length (regroup dflt order bs d)))) psizes m.
Proof.
  intros BP Hs. destruct (bp_explicit _ _ _ _ _ BP) as (B1 & B2 & B3).
  unfold regroup. set (l := map _ order).
  assert (Hl : sum psizes = length l) by (unfold l; rewrite map_length; auto).
  destruct (partitioning_slices psizes m 0 starts bs [] l BP eq_refl Hl) as (_ & P2 & _).
  unfold cv_layout. cbn [cv_set cv_folds]. split; [|split].
  - rewrite chunk_sizes by lia. exact B1.
  - rewrite chunk_length, B2.
    assert (length bs = 0 + sum (map (fun p => length (osz m p)) psizes)) as ->.
    { rewrite B1, length_concat_sum, map_map. reflexivity. }
    apply ffs_ranges.
  - exact B3.
Qed.

Lemma cv_create_regroup req (d : @data A) c :
  req_contiguous req = true -> cv_create dflt req d = Some c ->
  exists starts bs,
    batch_partitioning (req_psizes req d) (req_m req) 0 = Some (starts, bs) /\
    sum (req_psizes req d) = length (req_order req d) /\
    length (req_psizes req d) = req_k req /\
    c = mkCV (regroup dflt (req_order req d) bs d)
             (folds_from_starts starts (length (regroup dflt (req_order req d) bs d))).
Proof.
  intros Hc H. destruct req as [sigma k m|idx k m|first second k m|members k m|idx k m|bperm k];
    try discriminate Hc; cbn [cv_create req_psizes req_m req_order req_k] in *.
  - (* same size *)
    unfold cv_same_size in H. destruct (Nat.eqb_spec k 0) as [|Hk]; [discriminate|].
    destruct (batch_partitioning _ _ _) as [[starts bs]|] eqn:BP; [|discriminate].
    destruct (repartition bs d) as [d1|] eqn:R; [|discriminate].
    destruct (reorder dflt sigma d1) as [d2|] eqn:O; [|discriminate]. injection H as <-.
    destruct (repartition_spec _ _ _ R) as [E1 S1].
    destruct (val_sizes_spec (nelems d) k ltac:(lia)) as (V1 & V2 & _).
    unfold reorder in O. destruct (_ && _) eqn:EE; [|discriminate]. injection O as <-.
    apply andb_prop in EE. destruct EE as [EE _]. apply Nat.eqb_eq in EE.
    exists starts, bs. split; [reflexivity|]. split; [|split; [exact V2|]].
    + unfold nelems in *. rewrite E1 in EE. lia.
    + unfold regroup. rewrite S1, E1, chunk_length. reflexivity.
  - (* indexed *)
    unfold cv_indexed in H. destruct (_ || _) eqn:G; [discriminate|].
    apply orb_false_elim in G. destruct G as [G1 G2]. apply negb_false_iff in G1, G2.
    apply Nat.eqb_eq in G1. rewrite forallb_forall in G2.
    assert (Hlt : forall i, In i idx -> i < k) by (intros i Hi; apply Nat.ltb_lt; auto).
    destruct (batch_partitioning _ _ _) as [[starts bs]|] eqn:BP; [|discriminate]. injection H as <-.
    exists starts, bs. split; [reflexivity|]. split; [|split; [|reflexivity]].
    + rewrite indexed_order_length, count_partition by auto. reflexivity.
    + rewrite map_length, seq_length. reflexivity.
  - (* fully indexed *)
    unfold cv_fully_indexed in H. destruct (_ || _) eqn:G; [discriminate|].
    apply orb_false_elim in G. destruct G as [G G4]. apply orb_false_elim in G. destruct G as [G G3].
    apply orb_false_elim in G. destruct G as [G1 G2]. apply negb_false_iff in G1, G2, G3, G4.
    rewrite forallb_forall in G3.
    assert (Hlt : forall i, In i second -> i < k) by (intros i Hi; apply Nat.ltb_lt; auto).
    destruct (batch_partitioning _ _ _) as [[starts bs]|] eqn:BP; [|discriminate]. injection H as <-.
    exists starts, bs. split; [reflexivity|]. split; [|split; [|reflexivity]].
    + rewrite map_length, indexed_order_length, count_partition by auto. reflexivity.
    + rewrite map_length, seq_length. reflexivity.
  - (* balanced *)
    unfold cv_balanced in H. destruct (_ || _) eqn:G; [discriminate|].
    apply orb_false_elim in G. destruct G as [G G3]. apply orb_false_elim in G. destruct G as [G1 G2].
    apply Nat.eqb_neq in G1. apply negb_false_iff in G2. apply Nat.eqb_eq in G2.
    destruct (batch_partitioning _ _ _) as [[starts bs]|] eqn:BP; [|discriminate]. injection H as <-.
    destruct (val_sizes_spec (nelems d) k ltac:(lia)) as (V1 & V2 & _).
    exists starts, bs. split; [reflexivity|]. split; [|split; [exact V2|reflexivity]].
    rewrite V1, (Permutation_length (dealt_order_perm (concat members) k ltac:(lia))). lia.
  - (* iid = indexed with the drawn folds *)
    unfold cv_iid, cv_indexed in H. destruct (_ || _) eqn:G; [discriminate|].
    apply orb_false_elim in G. destruct G as [G1 G2]. apply negb_false_iff in G1, G2.
    apply Nat.eqb_eq in G1. rewrite forallb_forall in G2.
    assert (Hlt : forall i, In i idx -> i < k) by (intros i Hi; apply Nat.ltb_lt; auto).
    destruct (batch_partitioning _ _ _) as [[starts bs]|] eqn:BP; [|discriminate]. injection H as <-.
    exists starts, bs. split; [reflexivity|]. split; [|split; [|reflexivity]].
    + rewrite indexed_order_length, count_partition by auto. reflexivity.
    + rewrite map_length, seq_length. reflexivity.
Qed.

(* with valid choices the gather order is a permutation of all positions: nothing lost, nothing twice *)
Lemma req_order_perm req (d : @data A) c :
  req_contiguous req = true -> cv_create dflt req d = Some c -> req_valid req d = true ->
  Permutation (req_order req d) (seq 0 (nelems d)).
Proof.
  intros Hc H V. destruct req as [sigma k m|idx k m|first second k m|members k m|idx k m|bperm k];
    try discriminate Hc; cbn [cv_create req_valid req_order] in *.
  - apply valid_perm_Permutation. exact V.
  - unfold cv_indexed in H. destruct (_ || _) eqn:G; [discriminate|].
    apply orb_false_elim in G. destruct G as [G1 G2]. apply negb_false_iff in G1, G2.
    apply Nat.eqb_eq in G1. rewrite forallb_forall in G2. rewrite <- G1.
    apply indexed_order_perm. intros i Hi. apply Nat.ltb_lt. auto.
  - unfold cv_fully_indexed in H. destruct (_ || _) eqn:G; [discriminate|].
    apply orb_false_elim in G. destruct G as [G G4]. apply orb_false_elim in G. destruct G as [G G3].
    apply orb_false_elim in G. destruct G as [G1 G2]. apply negb_false_iff in G1, G2, G3, G4.
    apply Nat.eqb_eq in G1, G2. rewrite forallb_forall in G3.
    assert (P : Permutation (indexed_order second k) (seq 0 (length first))).
    { rewrite G1, <- G2. apply indexed_order_perm. intros i Hi. apply Nat.ltb_lt. auto. }
    rewrite (Permutation_map _ P), map_nth_seq. apply valid_perm_Permutation. exact V.
  - unfold cv_balanced in H. destruct (_ || _) eqn:G; [discriminate|].
    apply orb_false_elim in G. destruct G as [G _]. apply orb_false_elim in G. destruct G as [G1 _].
    apply Nat.eqb_neq in G1.
    rewrite (dealt_order_perm (concat members) k ltac:(lia)). apply valid_perm_Permutation. exact V.
  - unfold cv_iid, cv_indexed in H. destruct (_ || _) eqn:G; [discriminate|].
    apply orb_false_elim in G. destruct G as [G1 G2]. apply negb_false_iff in G1, G2.
    apply Nat.eqb_eq in G1. rewrite forallb_forall in G2. rewrite <- G1.
    apply indexed_order_perm. intros i Hi. apply Nat.ltb_lt. auto.
Qed.

(* ---- (a)+(c): every contiguous constructor: the reorganised set, and for EVERY fold p both accessors are
   defined; validation(p) holds exactly the positions [a, a+q) of the reorganised element list, training(p)
   the others in order; their batch structure is the stated one; together they are the data ---- *)
Theorem cv_create_parts req (d : @data A) c :
  req_contiguous req = true -> cv_create dflt req d = Some c ->
  let ps := req_psizes req d in
  let m := req_m req in
  let E := map (fun i => nth i (elems d) dflt) (req_order req d) in
  elems (cv_set c) = E /\
  sizes (cv_set c) = concat (map (osz m) ps) /\
  length (cv_folds c) = req_k req /\ length ps = req_k req /\ sum ps = nelems d /\
  (req_valid req d = true -> Permutation E (elems d)) /\
  forall p, p < req_k req ->
    let a := sum (firstn p ps) in
    let q := nth p ps 0 in
    exists dv dt,
      validation c p = Some dv /\ training c p = Some dt /\
      elems dv = firstn q (skipn a E) /\
      elems dt = firstn a E ++ skipn (a + q) E /\
      sizes dv = osz m q /\
      sizes dt = concat (map (osz m) (firstn p ps ++ skipn (S p) ps)) /\
      Permutation (elems dv ++ elems dt) E.
Proof.
  intros Hc H ps m E.
  destruct (cv_create_regroup req d c Hc H) as (starts & bs & BP & Hs & Hk & ->).
  fold ps m in BP, Hs, Hk.
  pose proof (regroup_cv_spec dflt ps m starts bs (req_order req d) d BP Hs) as R. cbv zeta in R.
  destruct R as ((_ & R0 & R1) & R2 & _).
  pose proof (regroup_cv_layout ps m starts bs (req_order req d) d BP Hs) as L.
  set (c := mkCV _ _) in *.
  split; [exact R2|]. split; [exact (proj1 L)|]. split; [lia|]. split; [exact Hk|].
  assert (Hn : sum ps = nelems d).
  { subst ps. clear -Hc H. destruct req; try discriminate Hc; cbn [req_psizes cv_create] in *.
    - unfold cv_same_size in H. destruct (Nat.eqb_spec k 0); [discriminate|].
      apply (val_sizes_spec (nelems d) k ltac:(lia)).
    - unfold cv_indexed in H. destruct (_ || _) eqn:G; [discriminate|].
      apply orb_false_elim in G. destruct G as [G1 G2]. apply negb_false_iff in G1, G2.
      apply Nat.eqb_eq in G1. rewrite forallb_forall in G2. rewrite <- G1.
      apply count_partition. intros i Hi. apply Nat.ltb_lt. auto.
    - unfold cv_fully_indexed in H. destruct (_ || _) eqn:G; [discriminate|].
      apply orb_false_elim in G. destruct G as [G G4]. apply orb_false_elim in G. destruct G as [G G3].
      apply orb_false_elim in G. destruct G as [G1 G2]. apply negb_false_iff in G2, G3.
      apply Nat.eqb_eq in G2. rewrite forallb_forall in G3. rewrite <- G2.
      apply count_partition. intros i Hi. apply Nat.ltb_lt. auto.
    - unfold cv_balanced in H. destruct (_ || _) eqn:G; [discriminate|].
      apply orb_false_elim in G. destruct G as [G _]. apply orb_false_elim in G. destruct G as [G1 _].
      apply Nat.eqb_neq in G1. apply (val_sizes_spec (nelems d) k ltac:(lia)).
    - unfold cv_iid, cv_indexed in H. destruct (_ || _) eqn:G; [discriminate|].
      apply orb_false_elim in G. destruct G as [G1 G2]. apply negb_false_iff in G1, G2.
      apply Nat.eqb_eq in G1. rewrite forallb_forall in G2. rewrite <- G1.
      apply count_partition. intros i Hi. apply Nat.ltb_lt. auto. }
  split; [exact Hn|]. split.
  - intros V. apply gather_perm. apply (req_order_perm req d c Hc H V).
  - intros p Hp. cbv zeta.
    pose proof (layout_parts c ps m p L ltac:(lia)) as LP. cbv zeta in LP. rewrite R2 in LP. exact LP.
Qed.

(* createCVFullyIndexed, stated like createCVIndexed: part p holds exactly the elements first[t] for the steps
   t with second[t] = p, in the order of the steps *)
Theorem cv_fully_indexed_spec first second k m (d : @data A) c :
  cv_fully_indexed dflt first second k m d = Some c ->
  contiguous_cv c (map (count_eq second) (seq 0 k)) /\
  map (fold_elems (cv_set c)) (cv_folds c) =
    map (fun p => map (fun t => nth (nth t first 0) (elems d) dflt)
                      (filter (fun t => nth t second 0 =? p) (seq 0 (length second)))) (seq 0 k) /\
  (forall s, In s (sizes (cv_set c)) -> 1 <= s <= m).
Proof.
  intros H.
  destruct (cv_create_regroup (ReqFullyIndexed first second k m) d c eq_refl H) as (starts & bs & BP & Hs & _ & ->).
  cbn [req_psizes req_m req_order] in *.
  pose proof (regroup_cv_spec dflt _ _ _ _ _ d BP Hs) as R. cbv zeta in R.
  destruct R as (R1 & R2 & R3). split; [exact R1|]. split; [|exact R3].
  destruct R1 as (R1 & _). rewrite R1, R2. rewrite map_map.
  unfold indexed_order. rewrite flat_map_concat_map, concat_map, map_map, <- flat_map_concat_map.
  rewrite <- (slices_flat_map (fun p => map (fun t => nth (nth t first 0) (elems d) dflt)
                                           (filter (fun t => nth t second 0 =? p) (seq 0 (length second)))) (seq 0 k)).
  f_equal. apply map_ext. intros p. rewrite map_length. rewrite <- (filter_seq_count second p 0).
  f_equal. apply filter_ext. intros i. rewrite Nat.sub_0_r. reflexivity.
Qed.

(* ---- (b) createCVIID: whatever folds are drawn, the construction succeeds and the folds partition the data;
   a fold that nobody drew is an empty fold ---- *)
Theorem cv_iid_every_outcome draws k m (d : @data A) :
  0 < m -> length draws = nelems d -> (forall i, In i draws -> i < k) ->
  exists c, cv_iid dflt draws k m d = Some c /\
    length (cv_folds c) = k /\
    map (fold_elems (cv_set c)) (cv_folds c) =
      map (fun p => map (fun i => nth i (elems d) dflt)
                        (filter (fun i => nth i draws 0 =? p) (seq 0 (length draws)))) (seq 0 k) /\
    concat (map (fold_elems (cv_set c)) (cv_folds c)) = elems (cv_set c) /\
    Permutation (elems (cv_set c)) (elems d) /\
    (forall s, In s (sizes (cv_set c)) -> 1 <= s <= m) /\
    (forall p, count_eq draws p = 0 -> nth p (cv_folds c) [] = []).
Proof.
  intros Hm Hl Hlt.
  assert (exists c, cv_iid dflt draws k m d = Some c) as [c H].
  { unfold cv_iid, cv_indexed.
    assert (length draws =? nelems d = true) as -> by (apply Nat.eqb_eq; auto).
    assert (forallb (fun i => i <? k) draws = true) as ->.
    { apply forallb_forall. intros i Hi. apply Nat.ltb_lt. auto. }
    cbn [negb orb].
    destruct (batch_partitioning_total (map (count_eq draws) (seq 0 k)) m Hm 0) as (st & bs & ->).
    eexists; reflexivity. }
  exists c. split; [exact H|].
  destruct (cv_indexed_spec dflt draws k m d c H) as (C1 & C2 & C3).
  destruct (contiguous_partition c _ C1) as (P1 & P2).
  pose proof (cv_create_parts (ReqIID draws k m) d c eq_refl H) as CP. cbv zeta in CP.
  cbn [req_psizes req_m req_order req_k req_valid] in CP.
  destruct CP as (E1 & E2 & E3 & _ & _ & E4 & _).
  split; [exact E3|]. split; [exact C2|]. split; [exact P1|]. split; [rewrite E1; auto|]. split; [exact C3|].
  intros p Hz.
  destruct (Nat.lt_ge_cases p k) as [Hp|Hp]; [|apply nth_overflow; lia].
  destruct (cv_create_regroup (ReqIID draws k m) d c eq_refl H) as (starts & bs & BP & Hs & _ & Hc).
  cbn [req_psizes req_m req_order] in *.
  pose proof (regroup_cv_layout _ _ _ _ _ d BP Hs) as L. rewrite <- Hc in L.
  destruct L as (_ & L2 & _). rewrite L2, nth_ranges by (rewrite !map_length, seq_length; exact Hp).
  rewrite nth_indep with (d' := (fun q => length (osz m (count_eq draws q))) 0)
    by (rewrite !map_length, seq_length; exact Hp).
  rewrite map_map, (map_nth (fun q => length (osz m (count_eq draws q)))), seq_nth by exact Hp.
  simpl. rewrite Hz, osz_0. reflexivity.
Qed.

(* ---- createCVBatch: the shuffled batch indices are cut into k runs of (almost) equal length ---- *)
Lemma chunk_is_slices {X} ps (l : list X) : chunk ps l = slices ps l.
Proof. revert l; induction ps as [|p r IH]; intros l; simpl; auto. rewrite IH. reflexivity. Qed.

Lemma fold_elems_concat (d : @data A) (F : list (list nat)) :
  concat (map (fold_elems d) F) = fold_elems d (concat F).
Proof.
  unfold fold_elems. induction F as [|f F IH]; simpl; auto.
  rewrite IH, flat_map_app. reflexivity.
Qed.

Theorem cv_batch_spec bperm k (d : @data A) c :
  cv_batch bperm k d = Some c -> valid_perm (length d) bperm = true ->
  cv_set c = d /\
  cv_folds c = slices (val_sizes (length d) k) bperm /\
  length (cv_folds c) = k /\
  map (@length nat) (cv_folds c) = val_sizes (length d) k /\
  concat (cv_folds c) = bperm /\
  Permutation (concat (cv_folds c)) (seq 0 (length d)) /\
  Permutation (concat (map (fold_elems d) (cv_folds c))) (elems d) /\
  forall p, p < k ->
    let f := nth p (cv_folds c) [] in
    f = firstn (nth p (val_sizes (length d) k) 0) (skipn (sum (firstn p (val_sizes (length d) k))) bperm) /\
    NoDup f /\
    exists dv dt,
      validation c p = Some dv /\ training c p = Some dt /\
      dv = map (fun i => nth i d []) f /\
      dt = map (fun i => nth i d []) (complement f (length d)) /\
      Permutation (dv ++ dt) d /\
      Permutation (elems dv ++ elems dt) (elems d).
Proof.
  unfold cv_batch. intros H V. destruct (_ || _) eqn:G; [discriminate|]. injection H as <-.
  apply orb_false_elim in G. destruct G as [G _]. apply orb_false_elim in G. destruct G as [G1 _].
  apply Nat.eqb_neq in G1.
  destruct (valid_perm_facts _ _ V) as (Vl & Vn & Vr). pose proof (valid_perm_Permutation _ _ V) as VP.
  destruct (val_sizes_spec (length d) k ltac:(lia)) as (S1 & S2 & _).
  cbn [cv_set cv_folds]. rewrite chunk_is_slices.
  assert (Hc : concat (slices (val_sizes (length d) k) bperm) = bperm) by (apply slices_concat; lia).
  split; [reflexivity|]. split; [reflexivity|]. split; [rewrite slices_length; exact S2|].
  split; [apply slices_lengths; lia|]. split; [exact Hc|]. split; [rewrite Hc; exact VP|]. split.
  - rewrite fold_elems_concat, Hc. unfold fold_elems. rewrite flat_map_concat_map.
    unfold elems. apply Permutation_concat. rewrite (Permutation_map _ VP). rewrite map_nth_seq. reflexivity.
  - intros p Hp. cbv zeta. set (f := nth p (slices (val_sizes (length d) k) bperm) []).
    assert (Ef : f = firstn (nth p (val_sizes (length d) k) 0) (skipn (sum (firstn p (val_sizes (length d) k))) bperm))
      by apply nth_slices.
    assert (ND : NoDup f).
    { rewrite Ef. rewrite <- (firstn_skipn (sum (firstn p (val_sizes (length d) k))) bperm) in Vn.
      apply NoDup_app_r in Vn.
      rewrite <- (firstn_skipn (nth p (val_sizes (length d) k) 0) (skipn _ bperm)) in Vn.
      apply NoDup_app_l in Vn. exact Vn. }
    assert (Hin : forall i, In i f -> i < length d).
    { intros i Hi. apply Vr. rewrite Ef in Hi. apply In_firstn' in Hi. apply In_skipn' in Hi. exact Hi. }
    split; [exact Ef|]. split; [exact ND|].
    set (c := mkCV d (slices (val_sizes (length d) k) bperm)).
    assert (Hv : validation c p = Some (map (fun i => nth i d []) f)).
    { unfold validation, indexed_subset. cbn [cv_set cv_folds c]. fold f.
      assert (forallb (fun i => i <? length d) f = true) as ->; [|reflexivity].
      apply forallb_forall. intros i Hi. apply Nat.ltb_lt. auto. }
    assert (Ht : training c p = Some (map (fun i => nth i d []) (complement f (length d)))).
    { unfold training, indexed_subset. cbn [cv_set cv_folds c]. fold f.
      assert (forallb (fun i => i <? length d) (complement f (length d)) = true) as ->; [|reflexivity].
      apply forallb_forall. intros i Hi. unfold complement in Hi. apply filter_In in Hi. destruct Hi as [Hi _].
      apply in_seq in Hi. apply Nat.ltb_lt. lia. }
    eexists; eexists. split; [exact Hv|]. split; [exact Ht|]. split; [reflexivity|]. split; [reflexivity|].
    apply (training_is_complement c p _ _ ND Hv Ht).
Qed.

Lemma ranges_nth_NoDup lens s p : NoDup (nth p (ranges lens s) []).
Proof.
  destruct (Nat.lt_ge_cases p (length lens)) as [H|H].
  - rewrite nth_ranges by exact H. apply seq_NoDup.
  - rewrite nth_overflow by (rewrite ranges_length; exact H). constructor.
Qed.

(* ---- (c) for EVERY constructor (createCVBatch included): the validation parts partition the data, and for
   every fold validation(i) and training(i) are defined, share no batch and re-assemble to the data ---- *)
Theorem cv_create_reassemble req (d : @data A) c :
  cv_create dflt req d = Some c -> req_valid req d = true ->
  length (cv_folds c) = req_k req /\
  Permutation (elems (cv_set c)) (elems d) /\
  Permutation (concat (map (fold_elems (cv_set c)) (cv_folds c))) (elems d) /\
  forall p, p < req_k req ->
    NoDup (nth p (cv_folds c) []) /\
    exists dv dt,
      validation c p = Some dv /\ training c p = Some dt /\
      Permutation (dv ++ dt) (cv_set c) /\
      Permutation (elems dv ++ elems dt) (elems d).
Proof.
  intros H V. destruct (req_contiguous req) eqn:Hc.
  - pose proof (cv_create_parts req d c Hc H) as CP. cbv zeta in CP.
    destruct CP as (E1 & _ & E3 & _ & _ & E4 & E5). specialize (E4 V).
    destruct (cv_create_regroup req d c Hc H) as (starts & bs & BP & Hs & _ & Hcc).
    pose proof (regroup_cv_spec dflt _ _ _ _ _ d BP Hs) as R. cbv zeta in R. rewrite <- Hcc in R.
    destruct R as (R1 & _ & _). destruct (contiguous_partition c _ R1) as (P1 & _).
    pose proof (regroup_cv_layout _ _ _ _ _ d BP Hs) as L. rewrite <- Hcc in L. destruct L as (_ & L2 & _).
    split; [exact E3|]. split; [rewrite E1; exact E4|]. split; [rewrite P1, E1; exact E4|].
    intros p Hp. assert (ND : NoDup (nth p (cv_folds c) [])) by (rewrite L2; apply ranges_nth_NoDup).
    split; [exact ND|].
    destruct (E5 p Hp) as (dv & dt & Hv & Ht & _).
    exists dv, dt. split; [exact Hv|]. split; [exact Ht|].
    destruct (training_is_complement c p dv dt ND Hv Ht) as (T1 & T2).
    split; [exact T1|]. rewrite T2, E1. exact E4.
  - destruct req; try discriminate Hc. cbn [cv_create req_valid req_k] in *.
    destruct (cv_batch_spec bperm k d c H V) as (B1 & _ & B3 & _ & _ & _ & B7 & B8).
    rewrite B1. split; [exact B3|]. split; [reflexivity|]. split; [exact B7|].
    intros p Hp. destruct (B8 p Hp) as (_ & ND & dv & dt & Hv & Ht & _ & _ & T1 & T2).
    split; [exact ND|]. exists dv, dt. repeat split; auto.
Qed.

End Create.

(* ------------------------------------------------------------------------------------------------ *)
(* (d) the element shape: the set kept by the CVFolds object and every validation / training part carry the
   shape of the argument; the data are those of the shape-free model (so every theorem above applies)   *)
Section Shape.
Context {A S : Type}.
Variable dflt : A.

Theorem scv_create_shape req (x : sdata A S) c :
  scv_create dflt req x = Some c ->
  sd_shape (scv_set c) = sd_shape x /\
  cv_create dflt req (sd_data x) = Some (scv_cv c) /\
  forall p,
    (forall v, s_validation c p = Some v ->
       sd_shape v = sd_shape x /\ validation (scv_cv c) p = Some (sd_data v)) /\
    (forall t, s_training c p = Some t ->
       sd_shape t = sd_shape x /\ training (scv_cv c) p = Some (sd_data t)) /\
    (forall dv, validation (scv_cv c) p = Some dv -> s_validation c p = Some (mkSD (sd_shape x) dv)) /\
    (forall dt, training (scv_cv c) p = Some dt -> s_training c p = Some (mkSD (sd_shape x) dt)).
Proof.
  unfold scv_create. destruct (cv_create dflt req (sd_data x)) as [c0|] eqn:E; [|discriminate].
  intros [= <-]. cbn [scv_set sd_shape]. split; [reflexivity|]. split.
  - unfold scv_cv. cbn. destruct c0; reflexivity.
  - intros p. unfold s_validation, s_training, validation, training, s_indexed_subset, scv_cv.
    cbn [scv_set scv_folds sd_data sd_shape cv_set cv_folds].
    repeat split.
    + destruct (indexed_subset _ _); [|discriminate]. injection H as <-. reflexivity.
    + destruct (indexed_subset _ _); [|discriminate]. injection H as <-. reflexivity.
    + destruct (indexed_subset _ _); [|discriminate]. injection H as <-. reflexivity.
    + destruct (indexed_subset _ _); [|discriminate]. injection H as <-. reflexivity.
    + intros dv ->. reflexivity.
    + intros dt ->. reflexivity.
Qed.

(* totality: a shaped constructor succeeds exactly when the plain one does *)
Theorem scv_create_defined req (x : sdata A S) c0 :
  cv_create dflt req (sd_data x) = Some c0 ->
  scv_create dflt req x = Some (mkSCV (mkSD (sd_shape x) (cv_set c0)) (cv_folds c0)).
Proof. unfold scv_create. intros ->. reflexivity. Qed.

End Shape.
