(* C14 — proofs about the initialisation model C14Init.v (axiom-free).
   For every non-empty list of starting points P, every mu and every oracle (list of random indices, valid or not):
     * the parent population has exactly mu members, every member's search point is an element of P and its (penalized,
       unpenalized) fitness pair is (f x, f x) for ITS OWN search point x -- hence (fp x, f x) for every penalized evaluation
       fp that agrees with f on P (PenalizingEvaluator on feasible points: C14Proofs.penalized_eval_spec);
     * with at most mu starting points the first |P| members are P in order, the remaining ones are P[oracle[k]];
       with more than mu starting points ALL members are random copies P[oracle[k]] (this is what the code does);
     * solution() after init has mu elements (x, f x) with x in P;
     * sortRankOneToFront (steady-state MO-CMA) permutes the population, puts the rank-1 individuals first and leaves an already
       partitioned population unchanged: all of the above except the order statements hold for SteadyStateMOCMA;
     * the initial population satisfies the invariant of the generation loop (C14LoopProofs.inv), so the per-generation
       statements of C14_generation_loop_invariant hold for every run started from caller-supplied points. *)
From Coq Require Import List Arith Bool Lia Permutation ZArith.
From SharkV Require Import ListAux C13Model C14Model C14Proofs C14Loop C14LoopProofs C14Init.
Import ListNotations.

Lemma draws_length k : forall o, length (draws k o) = k.
Proof. induction k as [|k IH]; intros [|i o]; simpl; auto. Qed.

Lemma draws_exact : forall o, draws (length o) o = o.
Proof. induction o as [|i o IH]; simpl; [reflexivity|now rewrite IH]. Qed.

Lemma num_points_le n mu : num_points n mu <= mu.
Proof. unfold num_points. destruct (n <=? mu) eqn:E; [apply Nat.leb_le in E|]; lia. Qed.

Lemma num_points_small n mu : n <= mu -> num_points n mu = n.
Proof. intros H. unfold num_points. apply Nat.leb_le in H. now rewrite H. Qed.

Lemma num_points_large n mu : mu < n -> num_points n mu = 0.
Proof. intros H. unfold num_points. destruct (n <=? mu) eqn:E; [apply Nat.leb_le in E; lia|reflexivity]. Qed.

Lemma init_indices_length n mu o : length (init_indices n mu o) = mu.
Proof. unfold init_indices. rewrite app_length, seq_length, draws_length. pose proof (num_points_le n mu). lia. Qed.

Lemma oracle_ok_spec n mu o : oracle_ok n mu o = true ->
  length o = mu - num_points n mu /\ Forall (fun i => i < n) o.
Proof.
  unfold oracle_ok. intros H. apply andb_true_iff in H. destruct H as [H1 H2].
  apply Nat.eqb_eq in H1. split; [exact H1|]. rewrite forallb_forall in H2. apply Forall_forall.
  intros i Hi. apply Nat.ltb_lt. auto.
Qed.

Lemma map_nth_seq {A} (d : A) : forall l, map (fun i => nth i l d) (seq 0 (length l)) = l.
Proof.
  induction l as [|x l IH]; simpl; [reflexivity|]. f_equal.
  rewrite <- seq_shift, map_map. exact IH.
Qed.

Lemma map_nth_seq_firstn {A} (d : A) : forall k l, k <= length l -> map (fun i => nth i l d) (seq 0 k) = firstn k l.
Proof.
  induction k as [|k IH]; intros [|x l] H; simpl in *; try reflexivity; try lia.
  f_equal. rewrite <- seq_shift, map_map. apply IH. lia.
Qed.

(* ---------------------------------------------------------------------------------------------- *)
Section InitProofs.
  Variables X V : Type.
  Variable f : X -> V.

  Notation iind := (iind X V).
  Notation init_parents := (init_parents X V f).
  Notation init_solution := (init_solution X V).

  (* the individual doInit builds for the starting point x *)
  Definition ind_of (x : X) : iind := mk_iind x (f x) (f x).

  Lemma init_parents_cons x0 P' mu o :
    init_parents (x0 :: P') mu o =
    map (fun idx => ind_of (nth idx (x0 :: P') x0)) (init_indices (length (x0 :: P')) mu o).
  Proof.
    unfold C14Init.init_parents. cbn [map]. apply map_ext. intros idx. unfold ind_of.
    change (f x0 :: map f P') with (map f (x0 :: P')). now rewrite (map_nth f (x0 :: P') x0 idx).
  Qed.

  Theorem init_parents_length P mu o : P <> [] -> length (init_parents P mu o) = mu.
  Proof.
    destruct P as [|x0 P']; [congruence|]. intros _. rewrite init_parents_cons, map_length. apply init_indices_length.
  Qed.

  Theorem init_parents_member P mu o m : In m (init_parents P mu o) ->
    In (ipt m) P /\ ipen m = f (ipt m) /\ iunp m = f (ipt m).
  Proof.
    destruct P as [|x0 P']; [simpl; contradiction|]. rewrite init_parents_cons. intros H.
    apply in_map_iff in H. destruct H as [idx [<- _]]. unfold ind_of. cbn [ipt ipen iunp].
    split; [|split; reflexivity].
    destruct (nth_in_or_default idx (x0 :: P') x0) as [H|H]; [exact H|rewrite H; left; reflexivity].
  Qed.

  Theorem init_parents_are_ind_of P mu o : init_parents P mu o = map ind_of (map ipt (init_parents P mu o)).
  Proof.
    rewrite map_map. rewrite <- (map_id (init_parents P mu o)) at 1. apply map_ext_in. intros m Hm.
    destruct (init_parents_member P mu o m Hm) as [_ [Hp Hu]]. destruct m as [x p u]. cbn in *. unfold ind_of. now subst.
  Qed.

  (* (penalized, unpenalized) = (fp x, f x) for every penalized evaluation that agrees with f on the starting points *)
  Theorem init_parents_fitness_pair P mu o (fp : X -> V) :
    (forall x, In x P -> fp x = f x) ->
    forall m, In m (init_parents P mu o) -> (ipen m, iunp m) = (fp (ipt m), f (ipt m)).
  Proof.
    intros Hfp m Hm. destruct (init_parents_member P mu o m Hm) as [Hin [Hp Hu]]. rewrite Hp, Hu, (Hfp _ Hin). reflexivity.
  Qed.

  (* the structure of the population for a valid oracle: the first numPoints starting points in order, then the drawn ones *)
  Theorem init_parents_structure P mu o d : P <> [] -> oracle_ok (length P) mu o = true ->
    init_parents P mu o =
    map ind_of (firstn (num_points (length P) mu) P) ++ map (fun i => ind_of (nth i P d)) o.
  Proof.
    destruct P as [|x0 P']; [congruence|]. intros _ Hok. apply oracle_ok_spec in Hok. destruct Hok as [Hlen Hrange].
    rewrite init_parents_cons. unfold init_indices. rewrite map_app. f_equal.
    - rewrite <- (map_nth_seq_firstn x0).
      + now rewrite map_map.
      + unfold num_points. destruct (length (x0 :: P') <=? mu); lia.
    - rewrite <- Hlen, draws_exact. apply map_ext_in. intros i Hi. rewrite Forall_forall in Hrange.
      f_equal. apply nth_indep. auto.
  Qed.

  Theorem init_parents_prefix P mu o : P <> [] -> length P <= mu ->
    firstn (length P) (init_parents P mu o) = map ind_of P /\
    firstn (length P) (map ipt (init_parents P mu o)) = P.
  Proof.
    destruct P as [|x0 P']; [congruence|]. intros _ Hle.
    assert (E : firstn (length (x0 :: P')) (init_parents (x0 :: P') mu o) = map ind_of (x0 :: P')).
    { rewrite init_parents_cons. unfold init_indices. rewrite (num_points_small _ _ Hle), map_app.
      rewrite firstn_app, map_length, seq_length, Nat.sub_diag, firstn_O, app_nil_r.
      rewrite firstn_all2 by (rewrite map_length, seq_length; lia).
      rewrite <- (map_map (fun idx => nth idx (x0 :: P') x0) ind_of). now rewrite map_nth_seq. }
    split; [exact E|]. rewrite firstn_map, E, map_map. cbn [ipt ind_of]. apply map_id.
  Qed.

  Theorem init_parents_more_than_mu P mu o d : mu < length P -> oracle_ok (length P) mu o = true ->
    init_parents P mu o = map (fun i => ind_of (nth i P d)) o /\ length o = mu.
  Proof.
    intros Hlt Hok. assert (P <> []) by (destruct P; simpl in *; [lia|congruence]).
    rewrite (init_parents_structure P mu o d H Hok), (num_points_large _ _ Hlt). simpl. split; [reflexivity|].
    apply oracle_ok_spec in Hok. rewrite (num_points_large _ _ Hlt) in Hok. lia.
  Qed.

  (* solution() after init *)
  Theorem init_solution_spec P mu o : P <> [] ->
    length (init_solution (init_parents P mu o)) = mu /\
    (forall x v, In (x, v) (init_solution (init_parents P mu o)) -> In x P /\ v = f x) /\
    init_solution (init_parents P mu o) = map (fun x => (x, f x)) (map ipt (init_parents P mu o)).
  Proof.
    intros HP. unfold C14Init.init_solution. split; [|split].
    - rewrite map_length. now apply init_parents_length.
    - intros x v H. apply in_map_iff in H. destruct H as [m [E Hm]]. inversion E; subst.
      destruct (init_parents_member P mu o m Hm) as [Hin [_ Hu]]. auto.
    - rewrite map_map. apply map_ext_in. intros m Hm.
      destruct (init_parents_member P mu o m Hm) as [_ [_ Hu]]. now rewrite Hu.
  Qed.
End InitProofs.

(* ---------------------------------------------------------------------------------------------- *)
(* sortRankOneToFront *)
Section SsSort.
  Variable A : Type.
  Variable is1 : A -> bool.

  Lemma ss_sort_aux_perm : forall fuel l, Permutation (ss_sort_aux fuel is1 l) l.
  Proof.
    induction fuel as [|fuel IH]; intros l; [apply Permutation_refl|].
    destruct l as [|x [|x2 t]]; try apply Permutation_refl.
    cbn [ss_sort_aux]. set (t' := x2 :: t). assert (Ht : t' <> []) by (unfold t'; congruence).
    pose proof (app_removelast_last x Ht) as Et. set (y := last t' x) in *. set (mid := removelast t') in *. clearbody y mid.
    destruct (is1 x).
    - apply perm_skip. apply IH.
    - destruct (is1 y).
      + (* swap *)
        rewrite Et. apply Permutation_trans with (y :: mid ++ [x]).
        * apply perm_skip. apply Permutation_app_tail. apply IH.
        * apply Permutation_trans with (x :: y :: mid).
          { apply Permutation_sym. apply (Permutation_cons_append (y :: mid) x). }
          apply perm_skip. apply Permutation_cons_append.
      + rewrite Et. change (x :: mid ++ [y]) with ((x :: mid) ++ [y]).
        apply Permutation_app_tail. apply IH.
  Qed.

  Theorem ss_sort_perm l : Permutation (ss_sort is1 l) l.
  Proof. apply ss_sort_aux_perm. Qed.

  Theorem ss_sort_length l : length (ss_sort is1 l) = length l.
  Proof. apply Permutation_length. apply ss_sort_perm. Qed.

  (* rank-1 individuals first *)
  Definition partitioned (l : list A) : Prop :=
    exists a b, l = a ++ b /\ Forall (fun x => is1 x = true) a /\ Forall (fun x => is1 x = false) b.

  Lemma ss_sort_aux_partitioned : forall fuel l, length l <= fuel -> partitioned (ss_sort_aux fuel is1 l).
  Proof.
    induction fuel as [|fuel IH]; intros l Hl.
    - destruct l; simpl in Hl; [|lia]. exists [], []. auto.
    - destruct l as [|x [|x2 t]].
      + exists [], []. auto.
      + cbn [ss_sort_aux]. destruct (is1 x) eqn:E; [exists [x], []|exists [], [x]]; simpl; auto.
      + cbn [ss_sort_aux]. set (t' := x2 :: t) in *. assert (Ht : t' <> []) by (unfold t'; congruence).
        assert (Lt : length t' = S (length (removelast t'))).
        { rewrite (app_removelast_last x Ht) at 1. rewrite app_length. simpl. lia. }
        assert (Hl' : length t' <= fuel) by (unfold t'; simpl in *; lia). clear Hl. clearbody t'.
        destruct (is1 x) eqn:Ex.
        * destruct (IH t') as [a [b [E [Ha Hb]]]]; [lia|]. rewrite E. exists (x :: a), b. auto.
        * destruct (is1 (last t' x)) eqn:Ey.
          -- destruct (IH (removelast t')) as [a [b [E [Ha Hb]]]]; [lia|]. rewrite E.
             exists (last t' x :: a), (b ++ [x]). split; [simpl; now rewrite app_assoc|]. split; auto.
             apply Forall_app. auto.
          -- destruct (IH (x :: removelast t')) as [a [b [E [Ha Hb]]]]; [simpl; lia|]. rewrite E.
             exists a, (b ++ [last t' x]). split; [now rewrite app_assoc|]. split; auto. apply Forall_app. auto.
  Qed.

  Theorem ss_sort_partitioned l : partitioned (ss_sort is1 l).
  Proof. apply ss_sort_aux_partitioned. apply Nat.le_refl. Qed.
End SsSort.

Section SsInit.
  Variables X V : Type.
  Variable f : X -> V.

  Theorem ssmocma_init_spec (is1 : iind X V -> bool) P mu o : P <> [] ->
    Permutation (ssmocma_init X V f is1 P mu o) (init_parents X V f P mu o) /\
    length (ssmocma_init X V f is1 P mu o) = mu /\
    (forall m, In m (ssmocma_init X V f is1 P mu o) ->
       In (ipt m) P /\ ipen m = f (ipt m) /\ iunp m = f (ipt m)) /\
    partitioned (iind X V) is1 (ssmocma_init X V f is1 P mu o) /\
    Permutation (init_solution X V (ssmocma_init X V f is1 P mu o)) (init_solution X V (init_parents X V f P mu o)).
  Proof.
    intros HP. unfold ssmocma_init. pose proof (ss_sort_perm _ is1 (init_parents X V f P mu o)) as Hperm.
    split; [exact Hperm|]. split; [|split; [|split]].
    - rewrite ss_sort_length. now apply init_parents_length.
    - intros m Hm. apply (init_parents_member X V f P mu o). eapply Permutation_in; eauto.
    - apply ss_sort_partitioned.
    - unfold init_solution. now apply Permutation_map.
  Qed.
End SsInit.

(* an already partitioned population is left as it is (no swap is ever made) *)
Section SsSortId.
  Variable A : Type.
  Variable is1 : A -> bool.

  Lemma ss_sort_aux_nonrank1 : forall fuel b, Forall (fun x => is1 x = false) b -> ss_sort_aux fuel is1 b = b.
  Proof.
    induction fuel as [|fuel IH]; intros b Hb; [reflexivity|].
    destruct b as [|x [|x2 t]]; try reflexivity.
    cbn [ss_sort_aux]. set (t' := x2 :: t) in *. assert (Ht : t' <> []) by (unfold t'; congruence).
    pose proof (app_removelast_last x Ht) as Et. inversion Hb as [|? ? Hx Ht']; subst. rewrite Hx.
    assert (Hy : is1 (last t' x) = false).
    { rewrite Forall_forall in Ht'. apply Ht'. rewrite Et at 2. apply in_or_app. right. left. reflexivity. }
    rewrite Hy. rewrite IH.
    - change ((x :: removelast t') ++ [last t' x]) with (x :: (removelast t' ++ [last t' x])). f_equal. symmetry. exact Et.
    - constructor; [exact Hx|]. rewrite Et in Ht'. apply Forall_app in Ht'. tauto.
  Qed.

  Theorem ss_sort_aux_partitioned_id : forall a fuel b,
    Forall (fun x => is1 x = true) a -> Forall (fun x => is1 x = false) b -> ss_sort_aux fuel is1 (a ++ b) = a ++ b.
  Proof.
    induction a as [|x a IH]; intros fuel b Ha Hb; [now apply ss_sort_aux_nonrank1|].
    destruct fuel as [|fuel]; [reflexivity|]. inversion Ha as [|? ? Hx Ha']; subst.
    simpl app. destruct (a ++ b) as [|z r] eqn:E; [reflexivity|].
    cbn [ss_sort_aux]. rewrite Hx. f_equal. rewrite <- E. now apply IH.
  Qed.

  Theorem ss_sort_partitioned_id a b :
    Forall (fun x => is1 x = true) a -> Forall (fun x => is1 x = false) b -> ss_sort is1 (a ++ b) = a ++ b.
  Proof. intros. now apply ss_sort_aux_partitioned_id. Qed.
End SsSortId.

(* ---------------------------------------------------------------------------------------------- *)
(* the initial population satisfies the invariant of the generation loop (C14LoopProofs) *)
Definition to_ind (m : iind (list Z) point) : ind := mk_ind (ipt m) (iunp m) (ipen m).

Theorem init_population_inv :
  forall (f : list Z -> list Z) feasible closest alpha mu (Pred : list Z -> Prop) (P : list (list Z)) oracle,
    1 <= mu -> P <> [] -> Forall (fun x => feasible x = true /\ Pred x) P ->
    inv f feasible closest alpha mu Pred (map to_ind (init_parents _ _ f P mu oracle)).
Proof.
  intros f feasible closest alpha mu Pred P o Hmu HP HF.
  rewrite init_parents_are_ind_of, map_map.
  rewrite (map_ext (fun x => to_ind (ind_of _ _ f x)) (fun x => mk_ind x (f x) (f x))) by reflexivity.
  apply initial_population_inv; [exact Hmu| |].
  - rewrite map_length. now apply init_parents_length.
  - rewrite Forall_forall in *. intros x Hx. apply in_map_iff in Hx. destruct Hx as [m [<- Hm]].
    apply HF. now apply (init_parents_member _ _ f P mu o m).
Qed.

Theorem init_then_generations :
  forall (f : list Z -> list Z) feasible closest alpha m lcs mu d (Pred : list Z -> Prop),
    valid_oracle lcs -> 1 <= mu -> (forall x, length (f x) = d) ->
    forall (P : list (list Z)) oracle, P <> [] -> Forall (fun x => feasible x = true /\ Pred x) P ->
    let pop0 := map to_ind (init_parents _ _ f P mu oracle) in
    (forall history, Forall (Forall Pred) history ->
       let pop := run_gen f feasible closest alpha m lcs mu history pop0 in
       length (solution pop) = mu /\
       forall x v, In (x, v) (solution pop) ->
         Pred x /\ v = f (repaired feasible closest x) /\ (feasible x = true -> v = f x)) /\
    (forall history, Forall Pred history ->
       let pop := run_ss f feasible closest alpha m lcs mu history pop0 in
       length (solution pop) = mu /\
       forall x v, In (x, v) (solution pop) ->
         Pred x /\ v = f (repaired feasible closest x) /\ (feasible x = true -> v = f x)).
Proof.
  intros f feasible closest alpha m lcs mu d Pred Hv Hmu Hd P o HP HF pop0.
  pose proof (init_population_inv f feasible closest alpha mu Pred P o Hmu HP HF) as I0. fold pop0 in I0.
  destruct (generation_loop_invariant f feasible closest alpha m lcs mu d Pred Hv Hmu Hd pop0 I0) as [G S].
  split; intros history Hh.
  - destruct (G history Hh) as [_ R]. exact R.
  - destruct (S history Hh) as [_ R]. exact R.
Qed.

(* ---------------------------------------------------------------------------------------------- *)
(* RVEA: the population size computed from approxMu is at least approxMu *)
Lemma binom_0_r n : binom n 0 = 1.
Proof. destruct n; reflexivity. Qed.

Lemma binom_gt : forall n k, n < k -> binom n k = 0.
Proof.
  induction n as [|n IH]; intros [|k] H; simpl; try lia; auto. rewrite !IH by lia. reflexivity.
Qed.

Lemma binom_diag n : binom n n = 1.
Proof. induction n as [|n IH]; simpl; auto. rewrite IH, binom_gt by lia. lia. Qed.

Lemma binom_succ_diag k : binom (S k) k = S k.
Proof.
  induction k as [|k IH]; [reflexivity|].
  change (binom (S (S k)) (S k)) with (binom (S k) k + binom (S k) (S k)). rewrite IH, binom_diag. lia.
Qed.

Lemma binom_mono_n n k : binom n k <= binom (S n) k.
Proof. destruct k; [rewrite !binom_0_r; lia|]. simpl. lia. Qed.

Lemma binom_ge m t : 1 <= m -> t + 1 <= binom (m + t) t.
Proof.
  induction m as [|m IH]; intros H; [lia|]. destruct m as [|m].
  - simpl plus. rewrite binom_succ_diag. lia.
  - eapply Nat.le_trans; [apply IH; lia|]. apply (binom_mono_n (S m + t) t).
Qed.

Lemma sumlength_ge n t : 2 <= n -> t + 1 <= sumlength n t.
Proof. intros H. unfold sumlength. apply binom_ge. lia. Qed.

Lemma ticks_from_reaches n target : 2 <= n -> forall fuel t, target <= t + fuel ->
  target <= sumlength n (ticks_from fuel n target t).
Proof.
  intros Hn. induction fuel as [|fuel IH]; intros t H; simpl.
  - pose proof (sumlength_ge n t Hn). lia.
  - destruct (sumlength n t <? target) eqn:E.
    + apply IH. lia.
    + apply Nat.ltb_ge in E. exact E.
Qed.

Theorem rvea_mu_ge n approx : 2 <= n -> 1 <= approx -> approx <= rvea_mu n approx.
Proof.
  intros Hn Ha. unfold rvea_mu. destruct n as [|[|[|n]]]; try lia.
  - cbn [lattice_ticks]. unfold sumlength. destruct approx as [|k]; [lia|].
    replace (2 - 1 + (S k - 1)) with (S k) by lia. replace (S k - 1) with k by lia. rewrite binom_succ_diag. lia.
  - cbn [lattice_ticks]. apply ticks_from_reaches; lia.
Qed.

(* ---------------------------------------------------------------------------------------------- *)
(* satisfiability: worked instances over nat, f x = x * x *)
Definition sq (x : nat) : nat := x * x.

Example init_example_fewer_than_mu :
  oracle_ok 2 4 [1; 0] = true /\
  init_parents nat nat sq [3; 5] 4 [1; 0] = [mk_iind 3 9 9; mk_iind 5 25 25; mk_iind 5 25 25; mk_iind 3 9 9] /\
  init_solution nat nat (init_parents nat nat sq [3; 5] 4 [1; 0]) = [(3, 9); (5, 25); (5, 25); (3, 9)].
Proof. repeat split. Qed.

Example init_example_exactly_mu :
  oracle_ok 3 3 [] = true /\
  init_parents nat nat sq [3; 5; 3] 3 [] = [mk_iind 3 9 9; mk_iind 5 25 25; mk_iind 3 9 9].
Proof. repeat split. Qed.

Example init_example_more_than_mu :
  oracle_ok 4 2 [3; 3] = true /\
  init_parents nat nat sq [3; 5; 7; 2] 2 [3; 3] = [mk_iind 2 4 4; mk_iind 2 4 4] /\
  init_parents nat nat sq [3; 5; 7; 2] 2 [2; 0] = [mk_iind 7 49 49; mk_iind 3 9 9].
Proof. repeat split. Qed.

Example init_example_ssmocma :
  let is1 := fun m : iind nat nat => ipt m <? 5 in
  ssmocma_init nat nat sq is1 [7; 3; 9; 2] 5 [1] = [mk_iind 3 9 9; mk_iind 3 9 9; mk_iind 2 4 4; mk_iind 9 81 81; mk_iind 7 49 49].
Proof. reflexivity. Qed.

Example rvea_mu_examples : rvea_mu 2 5 = 5 /\ rvea_mu 3 7 = 10 /\ rvea_mu 3 10 = 10 /\ rvea_mu 3 11 = 15.
Proof. repeat split. Qed.
