(* C10 — Adam.h and Rprop.cpp (models in C10AdamRprop.v, rational instance): state consistency, Rprop's step sizes stay
   positive (every feasibility predicate) and inside [minDelta, maxDelta] (unconstrained objectives; a counterexample for
   box constraints), iRprop+ takes back every coordinate whose partial derivative changed sign after a step that increased
   the value, the archived member lists of Adam and Rprop are complete (and the Rprop list before the repair 9fe8fcd6 was
   not).  Axiom-free. *)
From Coq Require Import List QArith Qreduction Qabs Bool Arith Lia Lqa Qfield Setoid Morphisms.
From SharkV Require Import C10Model C10Proofs C10LsModel C10LsProofs C10BfgsProofs C10Gen C10LbfgsModel C10LbfgsProofs
  C10LbfgsBoxProofs C10AdamRprop.
Import ListNotations.
Open Scope Q_scope.

(* ================= Adam ================= *)
Section Adam.
  Variable f : vec -> Q.
  Variable grad : vec -> vec.
  Variable sq : Q -> Q.

  Notation init := (adam_init f grad sq).
  Notation step := (adam_step f grad sq).
  Notation run := (adam_run f grad sq).

  Definition adam_consistent (s : adam_state) : Prop := ad_val s = f (ad_pt s) /\ ad_der s = grad (ad_pt s).

  Lemma adam_init_consistent : forall b1 b2 e eta x0, adam_consistent (init b1 b2 e eta x0).
  Proof. intros. split; reflexivity. Qed.
  Lemma adam_step_consistent : forall s, adam_consistent (step s).
  Proof. intros. split; reflexivity. Qed.
  Lemma adam_step_cnt : forall s, ad_cnt (step s) = S (ad_cnt s).
  Proof. reflexivity. Qed.
  Lemma adam_step_params : forall s, ad_b1 (step s) = ad_b1 s /\ ad_b2 (step s) = ad_b2 s /\ ad_eps (step s) = ad_eps s /\ ad_eta (step s) = ad_eta s.
  Proof. intros. repeat split; reflexivity. Qed.

  Lemma adam_run_inv : forall (P : adam_state -> Prop), (forall s, P s -> P (step s)) -> forall n s, P s -> P (run n s).
  Proof. intros P H. induction n as [|n IH]; intros s Hs; cbn [adam_run]; auto. Qed.

  (* value = f(point), derivative = grad(point), m_counter = number of steps: after init and after every step, for every
     objective, every sqrt oracle, all parameters *)
  Theorem adam_state_consistent : forall b1 b2 e eta x0 n,
    let s := run n (init b1 b2 e eta x0) in
    ad_val s = f (ad_pt s) /\ ad_der s = grad (ad_pt s) /\ ad_cnt s = n /\
    ad_b1 s = b1 /\ ad_b2 s = b2 /\ ad_eps s = e /\ ad_eta s = eta.
  Proof.
    intros b1 b2 e eta x0 n s.
    assert (forall k s0, ad_cnt (run k s0) = (k + ad_cnt s0)%nat) as Hc.
    { induction k as [|k IH]; intros s0; cbn [adam_run]; [reflexivity|]. rewrite IH, adam_step_cnt. lia. }
    assert (adam_consistent s) as [A B].
    { unfold s. destruct n as [|n]; [apply adam_init_consistent|].
      cbn [adam_run]. apply (adam_run_inv adam_consistent); [intros; apply adam_step_consistent | apply adam_step_consistent]. }
    split; [exact A|]. split; [exact B|]. split; [unfold s; rewrite Hc; cbn; lia|].
    unfold s. apply (adam_run_inv (fun s => ad_b1 s = b1 /\ ad_b2 s = b2 /\ ad_eps s = e /\ ad_eta s = eta)); [|repeat split].
    intros s0 (E1 & E2 & E3 & E4). destruct (adam_step_params s0) as (F1 & F2 & F3 & F4). repeat split; congruence.
  Qed.

  (* the second-moment estimate never gets negative (0 <= beta2 <= 1): the argument of std::sqrt is not negative *)
  Lemma vadd_nonneg : forall a b, Forall (fun v => 0 <= v) a -> Forall (fun v => 0 <= v) b -> Forall (fun v => 0 <= v) (vadd a b).
  Proof.
    induction a as [|x a IH]; intros [|y b] Fa Fb; cbn [vadd]; try constructor.
    - inversion Fa; inversion Fb; subst. rewrite qadd_eq. lra.
    - inversion Fa; inversion Fb; subst. apply IH; assumption.
  Qed.
  Lemma vscale_nonneg : forall t a, 0 <= t -> Forall (fun v => 0 <= v) a -> Forall (fun v => 0 <= v) (vscale t a).
  Proof.
    intros t a Ht F. unfold vscale. apply Forall_forall. intros y I. apply in_map_iff in I. destruct I as (x & E & I). subst y.
    eapply Forall_forall in F; [|exact I]. rewrite qmul_eq. apply mul_nonneg; assumption.
  Qed.

  Theorem adam_second_moment_nonneg : forall b1 b2 e eta x0 n, 0 <= b2 -> b2 <= 1 ->
    Forall (fun v => 0 <= v) (ad_sec (run n (init b1 b2 e eta x0))).
  Proof.
    intros b1 b2 e eta x0 n H0 H1.
    assert (forall s, ad_b2 s = b2 -> Forall (fun v => 0 <= v) (ad_sec s) ->
                      ad_b2 (step s) = b2 /\ Forall (fun v => 0 <= v) (ad_sec (step s))) as Hs.
    { intros s E F. split; [exact E|].
      change (ad_sec (step s)) with (vadd (vscale (ad_b2 s) (ad_sec s)) (vscale (qsub 1 (ad_b2 s)) (map (fun g => qmul g g) (ad_der s)))).
      rewrite E. apply vadd_nonneg; apply vscale_nonneg; try assumption.
      - rewrite qsub_eq. lra.
      - apply Forall_forall. intros y I. apply in_map_iff in I. destruct I as (x & Ex & _). subst y. rewrite qmul_eq. apply sq_nonneg. }
    apply (adam_run_inv (fun s => ad_b2 s = b2 /\ Forall (fun v => 0 <= v) (ad_sec s))).
    - intros s [E F]. apply Hs; assumption.
    - split; [reflexivity|]. cbn. apply Forall_forall. intros y I. apply in_map_iff in I. destruct I as (x & Ex & _). subst y. lra.
  Qed.
End Adam.

(* Adam::read / write: the list is complete *)
Lemma adam_restore_save : forall fresh s, adam_restore fresh (adam_save s) = Some s.
Proof. intros fresh [m v c g p x b1 b2 e eta]. reflexivity. Qed.

Theorem adam_saverestore_continues : forall f grad sq fresh s s',
  adam_restore fresh (adam_save s) = Some s' -> forall n, adam_run f grad sq n s' = adam_run f grad sq n s.
Proof. intros f grad sq fresh s s' H n. rewrite adam_restore_save in H. inversion H. reflexivity. Qed.

(* ================= Rprop ================= *)
Definition c_p (c : Q * Q * Q * Q) : Q := fst (fst (fst c)).
Definition c_d (c : Q * Q * Q * Q) : Q := snd (fst (fst c)).
Definition c_dw (c : Q * Q * Q * Q) : Q := snd (fst c).
Definition c_og (c : Q * Q * Q * Q) : Q := snd c.

Definition l_p (r : vec * vec * vec * vec) : vec := fst (fst (fst r)).
Definition l_d (r : vec * vec * vec * vec) : vec := snd (fst (fst r)).
Definition l_dw (r : vec * vec * vec * vec) : vec := snd (fst r).
Definition l_og (r : vec * vec * vec * vec) : vec := snd r.

Definition step_of (delta g : Q) : Q :=
  if qltb 0 g then qmul delta (- (1)) else if qltb g 0 then qmul delta 1 else qmul delta 0.

Lemma rprop_coord_eq : forall (s : rprop_state) p g og d dw,
  rprop_coord s p g og d dw =
  let direction := qmul g og in
  if qltb 0 direction then
    let d' := qmin (rp_dmax s) (qmul (rp_inc s) d) in
    let dw' := step_of d' g in (qadd p dw', d', dw', g)
  else if qltb direction 0 then
    let d' := qmax (rp_dmin s) (qmul (rp_dec s) d) in
    let og' := if rp_frz s then 0 else g in
    if negb (rp_bt s) then let dw' := step_of d' g in (qadd p dw', d', dw', og')
    else if negb (rp_ov s) || qltb (rp_oldval s) (rp_val s) then (qadd (qsub p dw) 0, d', 0, og')
    else (qadd p dw, d', dw, og')
  else
    let dw' := step_of d g in (qadd p dw', d, dw', g).
Proof. reflexivity. Qed.

Lemma rprop_loop_cons : forall feas (s : rprop_state) done p ps g gs og ogs d ds dw dws,
  rprop_loop feas s done (p :: ps) (g :: gs) (og :: ogs) (d :: ds) (dw :: dws) =
  let c := rprop_coord s p g og d dw in
  let ok := feas (rev_append done (c_p c :: ps)) in
  let p2 := if ok then c_p c else p in
  let d2 := if ok then c_d c else qmul (c_d c) (rp_dec s) in
  let og2 := if ok then c_og c else 0 in
  let r := rprop_loop feas s (p2 :: done) ps gs ogs ds dws in
  (l_p r, d2 :: l_d r, c_dw c :: l_dw r, og2 :: l_og r).
Proof.
  intros. unfold rprop_loop. cbn [g_rprop_loop]. fold (g_rprop_loop Q QO).
  change (g_rprop_coord Q QO s p g og d dw) with (rprop_coord s p g og d dw).
  destruct (rprop_coord s p g og d dw) as [[[p1 d1] dw1] og1]. cbn [c_p c_d c_dw c_og fst snd].
  destruct (g_rprop_loop Q QO feas s _ ps gs ogs ds dws) as [[[P D] DW] OG]. reflexivity.
Qed.

Lemma rprop_step_eq : forall f grad feas (s : rprop_state),
  rprop_step f grad feas s =
  let r := rprop_loop feas s [] (rp_pt s) (rp_der s) (rp_oldder s) (rp_delta s) (rp_deltaw s) in
  mkRprop (l_d r) (l_dw r) (l_og r) (rp_val s) (rp_inc s) (rp_dec s) (rp_dmax s) (rp_dmin s) (rp_size s) (l_p r)
          (f (l_p r)) (grad (l_p r)) (rp_frz s) (rp_bt s) (rp_ov s).
Proof.
  intros. unfold rprop_step, g_rprop_step, rprop_loop.
  destruct (g_rprop_loop Q QO feas s [] (rp_pt s) (rp_der s) (rp_oldder s) (rp_delta s) (rp_deltaw s)) as [[[P D] DW] OG].
  reflexivity.
Qed.

Section Rprop.
  Variable f : vec -> Q.
  Variable grad : vec -> vec.

  Notation step := (rprop_step f grad).
  Notation run := (rprop_run f grad).

  Lemma rprop_run_inv : forall feas (P : rprop_state -> Prop), (forall s, P s -> P (step feas s)) ->
    forall n s, P s -> P (run feas n s).
  Proof. intros feas P H. induction n as [|n IH]; intros s Hs; cbn [rprop_run]; auto. Qed.

  (* value = f(point), derivative = grad(point) after init and after every step: every objective, every feasibility
     predicate, every variant, all parameters *)
  Theorem rprop_state_consistent : forall feas huge inc dec dmax dmin frz bt ov d0 x0 n,
    let s := run feas n (rprop_init f grad huge inc dec dmax dmin frz bt ov d0 x0) in
    rp_val s = f (rp_pt s) /\ rp_der s = grad (rp_pt s).
  Proof.
    intros feas huge inc dec dmax dmin frz bt ov d0 x0 n s. unfold s.
    destruct n as [|n]; [split; reflexivity|]. cbn [rprop_run].
    apply (rprop_run_inv feas (fun s => rp_val s = f (rp_pt s) /\ rp_der s = grad (rp_pt s))).
    - intros s0 _. rewrite rprop_step_eq. split; reflexivity.
    - rewrite rprop_step_eq. split; reflexivity.
  Qed.

  Lemma rprop_step_params : forall feas s,
    rp_inc (step feas s) = rp_inc s /\ rp_dec (step feas s) = rp_dec s /\ rp_dmax (step feas s) = rp_dmax s /\
    rp_dmin (step feas s) = rp_dmin s /\ rp_frz (step feas s) = rp_frz s /\ rp_bt (step feas s) = rp_bt s /\
    rp_ov (step feas s) = rp_ov s /\ rp_oldval (step feas s) = rp_val s /\ rp_size (step feas s) = rp_size s.
  Proof. intros. rewrite rprop_step_eq. repeat split; reflexivity. Qed.

  (* ---- step sizes ---- *)
  (* a property of the step sizes that one coordinate update keeps - with the extra factor m_decreaseFactor of the
     infeasible branch when [withdec] - is kept by the loop *)
  Lemma loop_delta_forall : forall feas (s : rprop_state) (P : Q -> Prop) (withdec : bool),
    (forall p g og d dw, P d -> P (c_d (rprop_coord s p g og d dw))) ->
    (withdec = true -> forall d, P d -> P (qmul d (rp_dec s))) ->
    (withdec = false -> forall x, feas x = true) ->
    forall ps done gs ogs ds dws, Forall P ds -> Forall P (l_d (rprop_loop feas s done ps gs ogs ds dws)).
  Proof.
    intros feas s P wd Hc Hd Hf. induction ps as [|p ps IH]; intros done gs ogs ds dws F.
    - cbn. constructor.
    - destruct gs as [|g gs]; [cbn; constructor|]. destruct ogs as [|og ogs]; [cbn; constructor|].
      destruct ds as [|d ds]; [cbn; constructor|]. destruct dws as [|dw dws]; [cbn; constructor|].
      rewrite rprop_loop_cons. cbv zeta. cbn [l_d fst snd]. inversion F as [|? ? Pd F']; subst.
      constructor; [|apply IH; exact F'].
      destruct (feas _) eqn:E; [apply Hc; exact Pd|].
      destruct wd; [apply Hd; [reflexivity | apply Hc; exact Pd] | rewrite Hf in E; [discriminate | reflexivity]].
  Qed.

  Lemma coord_delta_pos : forall (s : rprop_state) p g og d dw,
    0 < rp_inc s -> 0 < rp_dec s -> 0 < rp_dmax s -> 0 < d -> 0 < c_d (rprop_coord s p g og d dw).
  Proof.
    intros s p g og d dw Hi Hd Hm Pd. rewrite rprop_coord_eq. cbv zeta.
    destruct (qltb 0 (qmul g og)); [cbn [c_d fst snd]|].
    - rewrite qmin_eq. destruct (qltb _ _); [rewrite qmul_eq; nra | exact Hm].
    - destruct (qltb (qmul g og) 0); [|cbn [c_d fst snd]; exact Pd].
      assert (0 < qmax (rp_dmin s) (qmul (rp_dec s) d)) as Q0.
      { rewrite qmax_eq. destruct (qltb _ _) eqn:E; [rewrite qmul_eq; nra|].
        apply qltb_false_le in E. rewrite qmul_eq in E. nra. }
      destruct (negb (rp_bt s)); [exact Q0|]. destruct (negb (rp_ov s) || _); exact Q0.
  Qed.

  (* POSITIVE step sizes: every feasibility predicate (the infeasible branch multiplies by m_decreaseFactor > 0) *)
  Theorem rprop_delta_positive : forall feas n s,
    0 < rp_inc s -> 0 < rp_dec s -> 0 < rp_dmax s -> Forall (fun d => 0 < d) (rp_delta s) ->
    Forall (fun d => 0 < d) (rp_delta (run feas n s)).
  Proof.
    intros feas n s Hi Hd Hm F.
    apply (rprop_run_inv feas (fun s => 0 < rp_inc s /\ 0 < rp_dec s /\ 0 < rp_dmax s /\ Forall (fun d => 0 < d) (rp_delta s))); [|auto].
    clear. intros s (Hi & Hd & Hm & F).
    destruct (rprop_step_params feas s) as (E1 & E2 & E3 & _). rewrite E1, E2, E3. repeat split; try assumption.
    rewrite rprop_step_eq. cbv zeta. cbn [rp_delta].
    apply (loop_delta_forall feas s (fun d => 0 < d) true); try assumption.
    - intros. apply coord_delta_pos; assumption.
    - intros _ d Pd. rewrite qmul_eq. nra.
    - discriminate.
  Qed.

  Lemma coord_delta_range : forall (s : rprop_state) p g og d dw,
    1 <= rp_inc s -> 0 < rp_dec s -> rp_dec s <= 1 -> rp_dmin s <= rp_dmax s -> 0 <= rp_dmin s ->
    rp_dmin s <= d /\ d <= rp_dmax s ->
    rp_dmin s <= c_d (rprop_coord s p g og d dw) /\ c_d (rprop_coord s p g og d dw) <= rp_dmax s.
  Proof.
    intros s p g og d dw Hi Hd Hd1 Hmm Hm0 [L U]. rewrite rprop_coord_eq. cbv zeta.
    destruct (qltb 0 (qmul g og)); [cbn [c_d fst snd]|].
    - rewrite qmin_eq. destruct (qltb _ _) eqn:E.
      + apply qltb_lt in E. rewrite qmul_eq in *. split; [nra | lra].
      + split; lra.
    - destruct (qltb (qmul g og) 0); [|cbn [c_d fst snd]; split; assumption].
      assert (rp_dmin s <= qmax (rp_dmin s) (qmul (rp_dec s) d) /\ qmax (rp_dmin s) (qmul (rp_dec s) d) <= rp_dmax s) as Q0.
      { rewrite qmax_eq. destruct (qltb _ _) eqn:E.
        - apply qltb_lt in E. rewrite qmul_eq in *. split; [lra | nra].
        - split; lra. }
      destruct (negb (rp_bt s)); [exact Q0|]. destruct (negb (rp_ov s) || _); exact Q0.
  Qed.

  (* step sizes stay inside [minDelta, maxDelta] on UNCONSTRAINED objectives (every candidate is feasible) *)
  Theorem rprop_delta_range_unconstrained : forall n s,
    1 <= rp_inc s -> 0 < rp_dec s -> rp_dec s <= 1 -> rp_dmin s <= rp_dmax s -> 0 <= rp_dmin s ->
    Forall (fun d => rp_dmin s <= d /\ d <= rp_dmax s) (rp_delta s) ->
    Forall (fun d => rp_dmin s <= d /\ d <= rp_dmax s) (rp_delta (run (fun _ => true) n s)).
  Proof.
    intros n s Hi Hd Hd1 Hmm Hm0 F.
    pose (feas := fun _ : vec => true).
    assert (let r := run feas n s in
            rp_inc r = rp_inc s /\ rp_dec r = rp_dec s /\ rp_dmax r = rp_dmax s /\ rp_dmin r = rp_dmin s /\
            Forall (fun d => rp_dmin s <= d /\ d <= rp_dmax s) (rp_delta r)) as H.
    { apply (rprop_run_inv feas (fun r => rp_inc r = rp_inc s /\ rp_dec r = rp_dec s /\ rp_dmax r = rp_dmax s /\ rp_dmin r = rp_dmin s /\
                                       Forall (fun d => rp_dmin s <= d /\ d <= rp_dmax s) (rp_delta r))); [|auto 10].
      intros r (E1 & E2 & E3 & E4 & Fr).
      destruct (rprop_step_params feas r) as (G1 & G2 & G3 & G4 & _). rewrite G1, G2, G3, G4. repeat split; try assumption.
      rewrite rprop_step_eq. cbv zeta. cbn [rp_delta].
      apply (loop_delta_forall feas r (fun d => rp_dmin s <= d /\ d <= rp_dmax s) false); try assumption; try discriminate; try reflexivity.
      intros p g og d dw Pd. rewrite <- E3, <- E4 in *. apply coord_delta_range; try assumption; congruence. }
    apply H.
  Qed.

  (* ---- the unconstrained loop, coordinate by coordinate ---- *)
  Lemma loop_true_nth : forall (s : rprop_state) ps done gs ogs ds dws,
    length gs = length ps -> length ogs = length ps -> length ds = length ps -> length dws = length ps ->
    let r := rprop_loop (fun _ => true) s done ps gs ogs ds dws in
    length (l_p r) = (length done + length ps)%nat /\ length (l_d r) = length ps /\ length (l_dw r) = length ps /\
    length (l_og r) = length ps /\
    (forall i, (i < length done)%nat -> nth i (l_p r) 0 = nth i (rev done) 0) /\
    forall i, (i < length ps)%nat ->
      let c := rprop_coord s (nth i ps 0) (nth i gs 0) (nth i ogs 0) (nth i ds 0) (nth i dws 0) in
      nth (length done + i) (l_p r) 0 = c_p c /\ nth i (l_d r) 0 = c_d c /\ nth i (l_dw r) 0 = c_dw c /\ nth i (l_og r) 0 = c_og c.
  Proof.
    intros s. induction ps as [|p ps IH]; intros done gs ogs ds dws L1 L2 L3 L4.
    - destruct gs, ogs, ds, dws; try discriminate. cbn. rewrite rev_length.
      repeat split; try lia.
    - destruct gs as [|g gs]; [discriminate|]. destruct ogs as [|og ogs]; [discriminate|].
      destruct ds as [|d ds]; [discriminate|]. destruct dws as [|dw dws]; [discriminate|].
      cbn [length] in *. rewrite rprop_loop_cons. cbv zeta. cbn [l_p l_d l_dw l_og fst snd].
      set (c := rprop_coord s p g og d dw).
      specialize (IH (c_p c :: done) gs ogs ds dws ltac:(lia) ltac:(lia) ltac:(lia) ltac:(lia)).
      cbv zeta in IH. destruct IH as (A1 & A2 & A3 & A4 & A5 & A6). cbn [length] in *.
      split; [rewrite A1; lia|]. split; [lia|]. split; [lia|]. split; [lia|]. split.
      + intros i Hi. rewrite A5 by lia. cbn [rev]. rewrite app_nth1 by (rewrite rev_length; exact Hi). reflexivity.
      + intros [|i] Hi.
        * cbn [nth]. rewrite Nat.add_0_r. rewrite A5 by lia. cbn [rev].
          rewrite app_nth2 by (rewrite rev_length; lia). rewrite rev_length, Nat.sub_diag. cbn [nth]. auto.
        * cbn [nth]. specialize (A6 i ltac:(lia)). cbv zeta in A6. destruct A6 as (B1 & B2 & B3 & B4).
          replace (length done + S i)%nat with (S (length done + i)) by lia. auto.
  Qed.

  (* ---- iRprop+ ---- *)
  Lemma coord_kept_position : forall (s : rprop_state) p g og d dw,
    rp_frz s = true -> ~ c_og (rprop_coord s p g og d dw) == 0 ->
    c_p (rprop_coord s p g og d dw) == p + c_dw (rprop_coord s p g og d dw).
  Proof.
    intros s p g og d dw Fz NZ. rewrite rprop_coord_eq in *. cbv zeta in *.
    destruct (qltb 0 (qmul g og)); [cbn [c_p c_dw c_og fst snd] in *; apply qadd_eq|].
    destruct (qltb (qmul g og) 0); [|cbn [c_p c_dw c_og fst snd] in *; apply qadd_eq].
    rewrite Fz in NZ. exfalso. apply NZ.
    destruct (negb (rp_bt s)); [reflexivity|]. destruct (negb (rp_ov s) || _); reflexivity.
  Qed.

  Lemma coord_undo : forall (s : rprop_state) p g og d dw,
    rp_bt s = true -> rp_ov s = true -> rp_oldval s < rp_val s -> g * og < 0 ->
    c_p (rprop_coord s p g og d dw) == p - dw /\ c_dw (rprop_coord s p g og d dw) = 0.
  Proof.
    intros s p g og d dw Bt Ov Inc Sg. rewrite rprop_coord_eq. cbv zeta.
    assert (qltb 0 (qmul g og) = false) as E1.
    { destruct (qltb 0 (qmul g og)) eqn:E; [|reflexivity]. apply qltb_lt in E. rewrite qmul_eq in E. lra. }
    assert (qltb (qmul g og) 0 = true) as E2 by (apply qltb_lt; rewrite qmul_eq; exact Sg).
    assert (qltb (rp_oldval s) (rp_val s) = true) as E3 by (apply qltb_lt; exact Inc).
    rewrite E1, E2, Bt, Ov, E3. cbn [negb orb c_p c_dw fst snd]. split; [|reflexivity].
    rewrite qadd_eq, qsub_eq. ring.
  Qed.

  (* AS CODED, the other half of the same branch: backtracking with the old-value test (iRprop+), the partial derivative
     changed sign but the value did NOT increase - then nothing is assigned to deltaw(i) and "point(i) += deltaw(i)"
     repeats the PREVIOUS step of that coordinate (it was made against the old sign of the derivative, so it now goes up
     the gradient whenever it was a regular step), with the step size already halved for later *)
  Lemma coord_stale_step : forall (s : rprop_state) p g og d dw,
    rp_bt s = true -> rp_ov s = true -> rp_val s <= rp_oldval s -> g * og < 0 ->
    c_p (rprop_coord s p g og d dw) == p + dw /\ c_dw (rprop_coord s p g og d dw) = dw.
  Proof.
    intros s p g og d dw Bt Ov Inc Sg. rewrite rprop_coord_eq. cbv zeta.
    assert (qltb 0 (qmul g og) = false) as E1.
    { destruct (qltb 0 (qmul g og)) eqn:E; [|reflexivity]. apply qltb_lt in E. rewrite qmul_eq in E. lra. }
    assert (qltb (qmul g og) 0 = true) as E2 by (apply qltb_lt; rewrite qmul_eq; exact Sg).
    assert (qltb (rp_oldval s) (rp_val s) = false) as E3.
    { destruct (qltb (rp_oldval s) (rp_val s)) eqn:E; [|reflexivity]. apply qltb_lt in E. lra. }
    rewrite E1, E2, Bt, Ov, E3. cbn [negb orb c_p c_dw fst snd]. split; [apply qadd_eq | reflexivity].
  Qed.

  (* iRprop+ (freezing, backtracking, old value) on an unconstrained objective: if a step increased the value, the next step
     puts every coordinate whose partial derivative changed sign back to where it was BEFORE that step (and does not count
     the move as a step: deltaw = 0) *)
  Theorem irprop_plus_undoes_increase : forall n (s0 : rprop_state),
    (forall x, length x = n -> length (grad x) = n) ->
    rp_frz s0 = true -> rp_bt s0 = true -> rp_ov s0 = true ->
    length (rp_pt s0) = n -> length (rp_der s0) = n -> length (rp_oldder s0) = n -> length (rp_delta s0) = n -> length (rp_deltaw s0) = n ->
    let s1 := step (fun _ => true) s0 in
    let s2 := step (fun _ => true) s1 in
    rp_val s0 < rp_val s1 ->
    forall i, (i < n)%nat -> nth i (rp_der s1) 0 * nth i (rp_oldder s1) 0 < 0 ->
    nth i (rp_pt s2) 0 == nth i (rp_pt s0) 0 /\ nth i (rp_deltaw s2) 0 = 0.
  Proof.
    intros n s0 GL Fz Bt Ov Lp Lg Log Ld Ldw s1 s2 Inc i Hi Sg.
    pose proof (loop_true_nth s0 (rp_pt s0) [] (rp_der s0) (rp_oldder s0) (rp_delta s0) (rp_deltaw s0)
                  ltac:(congruence) ltac:(congruence) ltac:(congruence) ltac:(congruence)) as H0.
    cbv zeta in H0. destruct H0 as (A1 & A2 & A3 & A4 & _ & A6).
    specialize (A6 i ltac:(lia)). cbv zeta in A6. cbn [length Nat.add] in A6, A1. destruct A6 as (B1 & B2 & B3 & B4).
    assert (rp_pt s1 = l_p (rprop_loop (fun _ => true) s0 [] (rp_pt s0) (rp_der s0) (rp_oldder s0) (rp_delta s0) (rp_deltaw s0))) as P1
      by (unfold s1; rewrite rprop_step_eq; reflexivity).
    assert (rp_oldder s1 = l_og (rprop_loop (fun _ => true) s0 [] (rp_pt s0) (rp_der s0) (rp_oldder s0) (rp_delta s0) (rp_deltaw s0))) as O1
      by (unfold s1; rewrite rprop_step_eq; reflexivity).
    assert (rp_deltaw s1 = l_dw (rprop_loop (fun _ => true) s0 [] (rp_pt s0) (rp_der s0) (rp_oldder s0) (rp_delta s0) (rp_deltaw s0))) as W1
      by (unfold s1; rewrite rprop_step_eq; reflexivity).
    assert (rp_delta s1 = l_d (rprop_loop (fun _ => true) s0 [] (rp_pt s0) (rp_der s0) (rp_oldder s0) (rp_delta s0) (rp_deltaw s0))) as D1
      by (unfold s1; rewrite rprop_step_eq; reflexivity).
    assert (rp_der s1 = grad (rp_pt s1)) as G1 by (unfold s1; rewrite rprop_step_eq; reflexivity).
    assert (length (rp_pt s1) = n) as Lp1 by (rewrite P1, A1; exact Lp).
    assert (length (rp_der s1) = n) as Lg1 by (rewrite G1; apply GL; exact Lp1).
    destruct (rprop_step_params (fun _ => true) s0) as (_ & _ & _ & _ & F1 & F2 & F3 & F4 & _). fold s1 in F1, F2, F3, F4.
    set (c0 := rprop_coord s0 (nth i (rp_pt s0) 0) (nth i (rp_der s0) 0) (nth i (rp_oldder s0) 0) (nth i (rp_delta s0) 0) (nth i (rp_deltaw s0) 0)) in *.
    (* step 1 left the coordinate at p0 + deltaw *)
    assert (~ c_og c0 == 0) as NZ.
    { intro Z. rewrite O1, B4, Z in Sg. lra. }
    pose proof (coord_kept_position s0 _ _ _ _ _ Fz NZ) as K. fold c0 in K.
    (* step 2 *)
    pose proof (loop_true_nth s1 (rp_pt s1) [] (rp_der s1) (rp_oldder s1) (rp_delta s1) (rp_deltaw s1)
                  ltac:(congruence) ltac:(rewrite O1, A4; congruence) ltac:(rewrite D1, A2; congruence) ltac:(rewrite W1, A3; congruence)) as H1.
    cbv zeta in H1. destruct H1 as (_ & _ & _ & _ & _ & C6).
    specialize (C6 i ltac:(lia)). cbv zeta in C6. cbn [length Nat.add] in C6. destruct C6 as (C1 & _ & C3 & _).
    assert (rp_pt s2 = l_p (rprop_loop (fun _ => true) s1 [] (rp_pt s1) (rp_der s1) (rp_oldder s1) (rp_delta s1) (rp_deltaw s1))) as P2
      by (unfold s2; rewrite rprop_step_eq; reflexivity).
    assert (rp_deltaw s2 = l_dw (rprop_loop (fun _ => true) s1 [] (rp_pt s1) (rp_der s1) (rp_oldder s1) (rp_delta s1) (rp_deltaw s1))) as W2
      by (unfold s2; rewrite rprop_step_eq; reflexivity).
    assert (rp_oldval s1 < rp_val s1) as Inc1 by (rewrite F4; exact Inc).
    destruct (coord_undo s1 (nth i (rp_pt s1) 0) (nth i (rp_der s1) 0) (nth i (rp_oldder s1) 0) (nth i (rp_delta s1) 0) (nth i (rp_deltaw s1) 0)
                ltac:(congruence) ltac:(congruence) Inc1 Sg) as [U1 U2].
    split.
    - rewrite P2, C1, U1. rewrite P1 at 1. rewrite B1. rewrite W1, B3. rewrite K. ring.
    - rewrite W2, C3. exact U2.
  Qed.
End Rprop.

(* ---------------- Rprop::read / write ---------------- *)
Lemma bf_fb : forall b, match fb b with FN k => bf k = b | _ => False end.
Proof. destruct b; reflexivity. Qed.

Lemma rprop_restore_save : forall fresh s, rprop_restore fresh (rprop_save s) = Some s.
Proof. intros fresh [d dw og ov inc dec dmax dmin n p x g [|] [|] [|]]; reflexivity. Qed.

Theorem rprop_saverestore_continues : forall f grad feas fresh s s',
  rprop_restore fresh (rprop_save s) = Some s' -> forall n, rprop_run f grad feas n s' = rprop_run f grad feas n s.
Proof. intros f grad feas fresh s s' H n. rewrite rprop_restore_save in H. inversion H. reflexivity. Qed.

(* ---------------- examples / counterexamples ---------------- *)
(* an iRprop+ run on the quadratic of C10Proofs: the second step overshoots (value increases), the third takes it back *)
Definition rpx_init := rprop_init exq_f exq_grad rprop_huge rprop_default_inc rprop_default_dec 100 0 true true true 4 [4; -2].
Definition rpx (n : nat) := rprop_run exq_f exq_grad (fun _ => true) n rpx_init.

(* values 21, 7, 89: the first step (both coordinates, step size 4) decreases the value and both partial derivatives change
   sign; the second step repeats it (coord_stale_step) and the value goes from 7 to 89; the derivative memory was zeroed (freezing), so
   the third step is a regular step of the halved size along the new gradient signs *)
Example irprop_plus_stale_step_example :
  map (fun n => rp_val (rpx n)) [0; 1; 2; 3]%nat = [21; 7; 89; 36] /\
  map (fun n => rp_pt (rpx n)) [0; 1; 2; 3]%nat = [[4; -2]; [0; 2]; [-4; 6]; [-2; 4]] /\
  rp_der (rpx 1) = [-1; 15 # 2] /\ rp_oldder (rpx 1) = [7; - (17 # 2)] /\ rp_deltaw (rpx 1) = [-4; 4] /\ rp_deltaw (rpx 2) = [-4; 4].
Proof. vm_compute. repeat split. Qed.

(* box constraints: the infeasible branch multiplies by m_decreaseFactor WITHOUT the clamp max(minDelta, .): a step size
   below minDelta *)
Definition rpb_feas (x : vec) : bool := box_feasb_slack box_eps [0] [1] x.
Definition rpb_init := rprop_init (fun x => - hd 0 x) (fun _ => [-1]) rprop_huge rprop_default_inc rprop_default_dec 1 1 true true true 1 [1 # 2].
Example rprop_box_delta_below_min_refuted :
  let s := rprop_run (fun x => - hd 0 x) (fun _ => [-1]) rpb_feas 1 rpb_init in
  rp_dmin s = 1 /\ rp_delta s = [1 # 2] /\ rp_pt s = [1 # 2] /\
  Forall (fun d => rp_dmin rpb_init <= d /\ d <= rp_dmax rpb_init) (rp_delta rpb_init).
Proof. vm_compute. repeat split; try discriminate. constructor; [split; discriminate | constructor]. Qed.

(* the member list before the repair 9fe8fcd6 (no m_derivative, no flags) was not complete: regression witness *)
Definition rpo_s := rprop_run exq_f exq_grad (fun _ => true) 2 (rprop_init exq_f exq_grad rprop_huge rprop_default_inc rprop_default_dec 100 0 false false false 1 [4; -2]).
Definition rpo_fresh := rprop_init exq_f exq_grad rprop_huge rprop_default_inc rprop_default_dec 100 0 true true true 1 [1; 1].
Example rprop_old_list_restore_refuted :
  match rprop_restore_old rpo_fresh (rprop_save_old rpo_s) with
  | Some s' => negb (Qeq_bool (hd 0 (rp_pt (rprop_run exq_f exq_grad (fun _ => true) 2 s')))
                              (hd 0 (rp_pt (rprop_run exq_f exq_grad (fun _ => true) 2 rpo_s))))
  | None => false
  end = true.
Proof. vm_compute. reflexivity. Qed.
