(* C17 — proofs about the construction model of the projection trees (C17ProjBuild.v), over any ordered field:
     A. partitionEqually / splitList on keys of the carrier (the proofs of C17BuildProofs.v with the abstract order);
     B. buildTree (pbuild) for EVERY choice of the anchors and EVERY std::nth_element result with the median property:
        the tree is well-formed in the sense of the query theorems (PWF), its leaves partition the index set, the depth
        budget is never used up (duplicate-heavy data included: a cell that cannot be split becomes a leaf);
     C. instances LCTree and KHCTree (any symmetric kernel with KPos / KCS), end to end with the query.
   Axiom-free. *)
From Coq Require Import List Bool Arith Lia Permutation Field.
From SharkV Require Import C17Model C17Build C17Field C17Gen C17GenProofs C17Proj C17ProjProofs C17ProjBuild.
Import ListNotations.

Lemma filter_perm_p {X} (f : X -> bool) (l : list X) :
  Permutation l (filter f l ++ filter (fun x => negb (f x)) l).
Proof.
  induction l as [|x l IH]; simpl; [constructor|].
  destruct (f x); simpl.
  - constructor; auto.
  - apply Permutation_cons_app; auto.
Qed.

Lemma median_pos_lt_p n : (2 <= n)%nat -> (median_pos n < n)%nat.
Proof. intros H. unfold median_pos. apply Nat.div_lt_upper_bound; lia. Qed.

Lemma length_zero_nil_p {X} (l : list X) : length l = O -> l = [].
Proof. destruct l; simpl; [auto | discriminate]. Qed.

Lemma skipn_nth_error_p {X} (l : list X) n x : nth_error l n = Some x -> skipn n l = x :: skipn (S n) l.
Proof.
  revert n; induction l as [|h t IH]; intros [|n] H; simpl in *; try discriminate.
  - inversion H; auto.
  - rewrite (IH _ H). destruct t; auto.
Qed.

Section PBP.
Variable A : Type.
Variable F : fops A.
Hypothesis L : olaws F.
Notation "0" := (o0 F) : OF_scope.
Notation "1" := (o1 F) : OF_scope.
Infix "+" := (oadd F) : OF_scope.
Infix "*" := (omul F) : OF_scope.
Infix "-" := (osub F) : OF_scope.
Infix "/" := (odiv F) : OF_scope.
Notation "- x" := (oopp F x) : OF_scope.
Notation "a <= b" := (oleb F a b = true) : OF_scope.
Notation "a < b" := (oleb F b a = false) : OF_scope.
Local Open Scope OF_scope.
Add Field PBfield : (ol_field F L).

Notation apoint := (apoint A).
Notation akv := (akv A).
Notation le_refl := (le_refl A F L).
Notation le_trans := (le_trans A F L).
Notation lt_le := (lt_le A F L).

Lemma lt_irrefl a : a < a -> False.
Proof. intros H. rewrite le_refl in H. discriminate. Qed.

Lemma lt_trans a b c : a < b -> b < c -> a < c.
Proof. intros H1 H2. eapply (lt_le_trans A F L); [exact H1 | apply lt_le; exact H2]. Qed.

Lemma le_antisym a b : a <= b -> b <= a -> a = b.
Proof. apply (ol_antisym F L). Qed.

Lemma keqb_eq a b : keqb A F a b = true -> a = b.
Proof. unfold keqb. intros H. apply andb_prop in H. destruct H. apply le_antisym; auto. Qed.

Lemma keqb_refl a : keqb A F a a = true.
Proof. unfold keqb. rewrite le_refl. auto. Qed.

(* 0 <= 1/2, midpoint *)
Lemma half_nonneg x : 0 <= x -> 0 <= x / two F.
Proof.
  intros H. pose proof (two_neq_0 A F L) as T.
  replace (x / two F) with (x * ((1 / two F) * (1 / two F) * two F)) by (field; auto).
  apply (mul_nonneg A F L); auto. apply (mul_nonneg A F L); [apply (sq_nonneg A F L)|].
  unfold two. apply (add_nonneg A F L); apply (le_0_1 A F L).
Qed.

Lemma midpoint a b : a <= b -> a <= (a + b) / two F /\ (a + b) / two F <= b.
Proof.
  intros H. pose proof (two_neq_0 A F L) as T. pose proof (half_nonneg _ (le_0_sub A F L _ _ H)) as K. split.
  - apply (sub_0_le A F L). replace ((a + b) / two F - a) with ((b - a) / two F) by (unfold two in *; field; auto). auto.
  - apply (sub_0_le A F L). replace (b - (a + b) / two F) with ((b - a) / two F) by (unfold two in *; field; auto). auto.
Qed.

(* ======================================================================================== *)
(* A. max / min / partitionEqually / splitList                                               *)
Lemma fold_amax_ge (l : list akv) : forall a,
  a <= fold_left (fun acc x => if oltb F acc (fst x) then fst x else acc) l a /\
  (forall e, In e l -> fst e <= fold_left (fun acc x => if oltb F acc (fst x) then fst x else acc) l a) /\
  (fold_left (fun acc x => if oltb F acc (fst x) then fst x else acc) l a = a \/
   exists e, In e l /\ fold_left (fun acc x => if oltb F acc (fst x) then fst x else acc) l a = fst e).
Proof.
  induction l as [|x l IH]; intros a; simpl.
  - split; [apply le_refl|]. split; [intros e []|auto].
  - set (a' := if oltb F a (fst x) then fst x else a).
    assert (Ha : a <= a' /\ fst x <= a').
    { subst a'. unfold oltb. destruct (oleb F (fst x) a) eqn:E; simpl; split; auto using le_refl. apply lt_le; auto. }
    destruct (IH a') as (I1 & I2 & I3). destruct Ha as [Ha1 Ha2].
    split; [eapply le_trans; eauto|]. split.
    + intros e [<-|He]; [eapply le_trans; eauto | auto].
    + destruct I3 as [I3|(e & He & I3)].
      * subst a'. destruct (oltb F a (fst x)); [right; exists x; auto | left; auto].
      * right. exists e; auto.
Qed.

Lemma fold_amin_le (l : list akv) : forall a,
  fold_left (fun acc x => if oltb F (fst x) acc then fst x else acc) l a <= a /\
  (forall e, In e l -> fold_left (fun acc x => if oltb F (fst x) acc then fst x else acc) l a <= fst e) /\
  (fold_left (fun acc x => if oltb F (fst x) acc then fst x else acc) l a = a \/
   exists e, In e l /\ fold_left (fun acc x => if oltb F (fst x) acc then fst x else acc) l a = fst e).
Proof.
  induction l as [|x l IH]; intros a; simpl.
  - split; [apply le_refl|]. split; [intros e []|auto].
  - set (a' := if oltb F (fst x) a then fst x else a).
    assert (Ha : a' <= a /\ a' <= fst x).
    { subst a'. unfold oltb. destruct (oleb F a (fst x)) eqn:E; simpl; split; auto using le_refl. apply lt_le; auto. }
    destruct (IH a') as (I1 & I2 & I3). destruct Ha as [Ha1 Ha2].
    split; [eapply le_trans; eauto|]. split.
    + intros e [<-|He]; [eapply le_trans; eauto | auto].
    + destruct I3 as [I3|(e & He & I3)].
      * subst a'. destruct (oltb F (fst x) a); [right; exists x; auto | left; auto].
      * right. exists e; auto.
Qed.

Lemma amaxkey_spec (l : list akv) : l <> [] ->
  (exists e, In e l /\ amaxkey A F l = fst e) /\ forall e, In e l -> fst e <= amaxkey A F l.
Proof.
  destruct l as [|e t]; [congruence|]. intros _. unfold amaxkey.
  destruct (fold_amax_ge t (fst e)) as (H1 & H2 & H3). split.
  - destruct H3 as [H|(x & Hx & H)]; [exists e | exists x]; simpl; auto.
  - intros x [<-|Hx]; auto.
Qed.

Lemma aminkey_spec (l : list akv) : l <> [] ->
  (exists e, In e l /\ aminkey A F l = fst e) /\ forall e, In e l -> aminkey A F l <= fst e.
Proof.
  destruct l as [|e t]; [congruence|]. intros _. unfold aminkey.
  destruct (fold_amin_le t (fst e)) as (H1 & H2 & H3). split.
  - destruct H3 as [H|(x & Hx & H)]; [exists e | exists x]; simpl; auto.
  - intros x [<-|Hx]; auto.
Qed.

Lemma ape_core (m : A) (front back : list akv) (e0 : akv) (back' : list akv) :
  back = e0 :: back' -> fst e0 = m ->
  Forall (fun x => fst x <= m) front -> Forall (fun x => m <= fst x) back ->
  (exists x y, In x (front ++ back) /\ In y (front ++ back) /\ fst x < fst y) ->
  forall Lp Rp,
  (let lt := filter (fun e => oltb F (fst e) m) front in
   let ge := filter (fun e => negb (oltb F (fst e) m)) front in
   let eq := filter (fun e => keqb A F (fst e) m) back in
   let gt := filter (fun e => negb (keqb A F (fst e) m)) back in
   if (length lt =? 0)%nat then (lt ++ ge ++ eq, gt)
   else if (length gt <=? length lt)%nat then (lt, ge ++ eq ++ gt)
   else (lt ++ ge ++ eq, gt)) = (Lp, Rp) ->
  Lp <> [] /\ Rp <> [] /\ Permutation (front ++ back) (Lp ++ Rp) /\
  forall x y, In x Lp -> In y Rp -> fst x < fst y.
Proof.
  intros Hb He0 Hf Hbk Hxy Lp Rp. cbv zeta.
  set (lt := filter (fun e => oltb F (fst e) m) front).
  set (ge := filter (fun e => negb (oltb F (fst e) m)) front).
  set (eq := filter (fun e => keqb A F (fst e) m) back).
  set (gt := filter (fun e => negb (keqb A F (fst e) m)) back).
  rewrite Forall_forall in Hf, Hbk.
  assert (Flt : forall x, In x lt -> fst x < m).
  { intros x Hx. apply filter_In in Hx. destruct Hx as [_ Hx]. unfold oltb in Hx. apply negb_true_iff in Hx. auto. }
  assert (Fge : forall x, In x ge -> fst x = m).
  { intros x Hx. apply filter_In in Hx. destruct Hx as [Hi Hx]. apply negb_true_iff in Hx.
    unfold oltb in Hx. apply negb_false_iff in Hx. apply le_antisym; auto. }
  assert (Feq : forall x, In x eq -> fst x = m).
  { intros x Hx. apply filter_In in Hx. destruct Hx as [_ Hx]. apply keqb_eq; auto. }
  assert (Fgt : forall x, In x gt -> m < fst x).
  { intros x Hx. apply filter_In in Hx. destruct Hx as [Hi Hx]. apply negb_true_iff in Hx.
    specialize (Hbk x Hi). cbv beta in Hbk. unfold keqb in Hx. rewrite Hbk in Hx.
    destruct (oleb F (fst x) m); simpl in Hx; [discriminate | auto]. }
  assert (Heq : In e0 eq).
  { apply filter_In. split; [rewrite Hb; left; auto | rewrite He0; apply keqb_refl]. }
  assert (P : Permutation (front ++ back) ((lt ++ ge) ++ (eq ++ gt))).
  { apply Permutation_app; apply filter_perm_p. }
  assert (Hall : forall x, In x (front ++ back) -> In x lt \/ In x ge \/ In x eq \/ In x gt).
  { intros x Hx. eapply Permutation_in in Hx; [|exact P].
    repeat (apply in_app_or in Hx; destruct Hx as [Hx|Hx]); auto. }
  assert (Hgt_ne : lt = [] -> gt <> []).
  { intros Hl Hg. destruct Hxy as (x & y & Hx & Hy & Hlt).
    assert (Kx : fst x = m).
    { destruct (Hall x Hx) as [H|[H|[H|H]]]; auto; [rewrite Hl in H | rewrite Hg in H]; destruct H. }
    assert (Ky : fst y = m).
    { destruct (Hall y Hy) as [H|[H|[H|H]]]; auto; [rewrite Hl in H | rewrite Hg in H]; destruct H. }
    rewrite Kx, Ky in Hlt. apply (lt_irrefl m); auto. }
  assert (Hord1 : forall x y, In x lt -> In y (ge ++ eq ++ gt) -> fst x < fst y).
  { intros x y Hx Hy. specialize (Flt x Hx).
    apply in_app_or in Hy. destruct Hy as [Hy|Hy]; [rewrite (Fge y Hy); auto|].
    apply in_app_or in Hy. destruct Hy as [Hy|Hy]; [rewrite (Feq y Hy); auto|].
    specialize (Fgt y Hy). eapply lt_trans; eauto. }
  assert (Hord2 : forall x y, In x (lt ++ ge ++ eq) -> In y gt -> fst x < fst y).
  { intros x y Hx Hy. specialize (Fgt y Hy).
    apply in_app_or in Hx. destruct Hx as [Hx|Hx]; [specialize (Flt x Hx); eapply lt_trans; eauto|].
    apply in_app_or in Hx. destruct Hx as [Hx|Hx]; [rewrite (Fge x Hx); auto | rewrite (Feq x Hx); auto]. }
  assert (Hne2 : lt ++ ge ++ eq <> []).
  { intros H. apply app_eq_nil in H. destruct H as [_ H]. apply app_eq_nil in H. destruct H as [_ H].
    rewrite H in Heq. destruct Heq. }
  assert (Hne1 : ge ++ eq ++ gt <> []).
  { intros H. apply app_eq_nil in H. destruct H as [_ H]. apply app_eq_nil in H. destruct H as [H _].
    rewrite H in Heq. destruct Heq. }
  destruct (Nat.eqb_spec (length lt) 0) as [Hz|Hz].
  - intros E; inversion E; subst Lp Rp. split; [auto|]. split; [apply Hgt_ne; apply length_zero_nil_p; auto|].
    split; [|auto]. rewrite P. rewrite <- !app_assoc. reflexivity.
  - destruct (Nat.leb_spec (length gt) (length lt)) as [Hc|Hc]; intros E; inversion E; subst Lp Rp.
    + split; [intros H; rewrite H in Hz; simpl in Hz; lia|]. split; [auto|].
      split; [|auto]. rewrite P. rewrite <- !app_assoc. reflexivity.
    + split; [auto|]. split; [intros H; rewrite H in Hc; simpl in Hc; lia|].
      split; [|auto]. rewrite P. rewrite <- !app_assoc. reflexivity.
Qed.

Lemma apartition_equally_spec oracle range Lp Rp :
  anth_spec A F range (oracle range) -> (2 <= length range)%nat ->
  (exists x y, In x range /\ In y range /\ fst x < fst y) ->
  apartition_equally A F oracle range = (Lp, Rp) ->
  Lp <> [] /\ Rp <> [] /\ Permutation range (Lp ++ Rp) /\ forall x y, In x Lp -> In y Rp -> fst x < fst y.
Proof.
  intros [P M] Hn Hxy E. unfold apartition_equally in E.
  set (r := oracle range) in *. set (mp := median_pos (length range)) in *.
  assert (Hlen : length r = length range) by (symmetry; apply Permutation_length; auto).
  assert (Hmp : (mp < length r)%nat) by (rewrite Hlen; apply median_pos_lt_p; auto).
  destruct (nth_error r mp) as [e0|] eqn:En; [|apply nth_error_None in En; lia].
  destruct (M e0 En) as [Hf Hb].
  rewrite (nth_error_nth r mp (0, 0%nat) En) in E.
  pose proof (skipn_nth_error_p r mp e0 En) as Hsk.
  assert (Hxy' : exists x y, In x (firstn mp r ++ skipn mp r) /\ In y (firstn mp r ++ skipn mp r) /\ fst x < fst y).
  { rewrite firstn_skipn. destruct Hxy as (x & y & Hx & Hy & H). exists x, y.
    split; [eapply Permutation_in; eauto|]. split; [eapply Permutation_in; eauto | auto]. }
  destruct (ape_core (fst e0) (firstn mp r) (skipn mp r) e0 (skipn (S mp) r) Hsk eq_refl Hf Hb Hxy' Lp Rp E)
    as (H1 & H2 & H3 & H4).
  split; [auto|]. split; [auto|]. split; [|auto].
  rewrite firstn_skipn in H3. rewrite P. auto.
Qed.

(* without the hypothesis "two different keys": still a rearrangement *)
Lemma apartition_equally_perm oracle range Lp Rp :
  Permutation range (oracle range) ->
  apartition_equally A F oracle range = (Lp, Rp) -> Permutation range (Lp ++ Rp).
Proof.
  intros P E. unfold apartition_equally in E.
  set (r := oracle range) in *. set (mp := median_pos (length range)) in *.
  set (m := fst (nth mp r (0, 0%nat))) in *.
  assert (Q : Permutation r ((filter (fun e => oltb F (fst e) m) (firstn mp r) ++ filter (fun e => negb (oltb F (fst e) m)) (firstn mp r)) ++
                            (filter (fun e => keqb A F (fst e) m) (skipn mp r) ++ filter (fun e => negb (keqb A F (fst e) m)) (skipn mp r)))).
  { rewrite <- (firstn_skipn mp r) at 1. apply Permutation_app; apply filter_perm_p. }
  rewrite P, Q.
  destruct (length (filter (fun e => oltb F (fst e) m) (firstn mp r)) =? 0)%nat;
    [|destruct (length (filter (fun e => negb (keqb A F (fst e) m)) (skipn mp r)) <=? length (filter (fun e => oltb F (fst e) m) (firstn mp r)))%nat];
    inversion E; subst; rewrite <- !app_assoc; reflexivity.
Qed.

Lemma asplit_list_spec oracle range thr Lp Rp :
  anth_spec A F range (oracle range) -> (2 <= length range)%nat ->
  (exists x y, In x range /\ In y range /\ fst x < fst y) ->
  asplit_list A F oracle range = (thr, Lp, Rp) ->
  Lp <> [] /\ Rp <> [] /\ Permutation range (Lp ++ Rp) /\
  (forall x, In x Lp -> fst x <= thr) /\ (forall y, In y Rp -> thr <= fst y).
Proof.
  intros Hs Hn Hxy E. unfold asplit_list in E.
  destruct (apartition_equally A F oracle range) as [L0 R0] eqn:EP.
  destruct (apartition_equally_spec oracle range L0 R0 Hs Hn Hxy EP) as (H1 & H2 & H3 & H4).
  destruct R0 as [|y0 R0']; [congruence|]. inversion E; subst thr Lp Rp. clear E.
  split; [auto|]. split; [auto|]. split; [auto|].
  destruct (amaxkey_spec L0 H1) as [(xm & Hxm & Exm) Hmax].
  destruct (aminkey_spec (y0 :: R0') H2) as [(ym & Hym & Eym) Hmin].
  specialize (H4 xm ym Hxm Hym).
  set (mx := amaxkey A F L0) in *. set (mn := aminkey A F (y0 :: R0')) in *.
  assert (Hle : mx <= mn) by (rewrite Exm, Eym; apply lt_le; auto).
  destruct (midpoint mx mn Hle) as [M1 M2].
  split.
  - intros x Hx. eapply le_trans; [apply Hmax; auto | auto].
  - intros y Hy. eapply le_trans; [exact M2 | apply Hmin; auto].
Qed.

(* in every case the two parts are a rearrangement of the range *)
Lemma asplit_list_perm oracle range thr Lp Rp :
  Permutation range (oracle range) -> asplit_list A F oracle range = (thr, Lp, Rp) -> Permutation range (Lp ++ Rp).
Proof.
  intros P E. unfold asplit_list in E.
  destruct (apartition_equally A F oracle range) as [L0 R0] eqn:EP.
  pose proof (apartition_equally_perm oracle range L0 R0 P EP) as Q.
  destruct R0 as [|y0 R0']; inversion E; subst; auto. rewrite app_nil_r in Q. auto.
Qed.

(* do two keys of the range differ? *)
Lemma key_diff_dec (range : list akv) :
  (exists x y : akv, In x range /\ In y range /\ fst x < fst y) \/ (forall x y : akv, In x range -> In y range -> fst x = fst y).
Proof.
  assert (D1 : forall (x : akv) (l : list akv), (exists y, In y l /\ (fst x < fst y \/ fst y < fst x)) \/ (forall y, In y l -> fst x = fst y)).
  { intros x l. induction l as [|y l IHl]; [right; intros y []|].
    destruct (oleb F (fst y) (fst x)) eqn:E1; [destruct (oleb F (fst x) (fst y)) eqn:E2|].
    - destruct IHl as [(y' & Hy & Hd')|IHl]; [left; exists y'; split; [right|]; auto|].
      right. intros y' [<-|Hy]; auto. apply le_antisym; auto.
    - left. exists y. split; [left; auto|]. right. auto.
    - left. exists y. split; [left; auto|]. left. auto. }
  assert (D2 : forall (l : list akv), (exists x y, In x l /\ In y range /\ (fst x < fst y \/ fst y < fst x)) \/ (forall x y, In x l -> In y range -> fst x = fst y)).
  { induction l as [|x l IHl]; [right; intros x y []|].
    destruct (D1 x range) as [(y & Hy & Hd')|Hx].
    - left. exists x, y. split; [left|]; auto.
    - destruct IHl as [(x' & y & Hx' & Hy & Hd')|IHl]; [left; exists x', y; split; [right|]; auto|].
      right. intros x' y [<-|Hx'] Hy; auto. }
  destruct (D2 range) as [(x & y & Hx & Hy & [Hd'|Hd'])|Heq].
  - left. exists x, y; auto.
  - left. exists y, x; auto.
  - right. auto.
Qed.

(* all keys equal: partitionEqually returns end, splitList returns begin (repair bfc526b8: the node stays a leaf) *)
Lemma filter_nil_forall {X} (f : X -> bool) (l : list X) : (forall e, In e l -> f e = false) -> filter f l = [].
Proof.
  induction l as [|x l IH]; simpl; intros H; [auto|]. rewrite (H x (or_introl eq_refl)). apply IH. intros; apply H; auto.
Qed.

Lemma asplit_list_all_equal oracle range thr Lp Rp :
  Permutation range (oracle range) -> (2 <= length range)%nat ->
  (forall x y : akv, In x range -> In y range -> fst x = fst y) ->
  asplit_list A F oracle range = (thr, Lp, Rp) -> Lp = [].
Proof.
  intros Pr Hn K E. unfold asplit_list in E.
  destruct (apartition_equally A F oracle range) as [L0 R0] eqn:EP.
  destruct R0 as [|y0 R0']; [inversion E; auto|]. exfalso.
  unfold apartition_equally in EP. cbv zeta in EP.
  assert (Hmp : (median_pos (length range) < length (oracle range))%nat).
  { rewrite <- (Permutation_length Pr). apply median_pos_lt_p. lia. }
  assert (Hm : forall e, In e (oracle range) -> fst e = fst (nth (median_pos (length range)) (oracle range) (0, 0%nat))).
  { intros e He. assert (In (nth (median_pos (length range)) (oracle range) (0, 0%nat)) (oracle range)) by (apply nth_In; auto).
    apply K; eapply Permutation_in; try (apply Permutation_sym; exact Pr); auto. }
  erewrite (filter_nil_forall (fun e => oltb F (fst e) _)) in EP.
  2:{ intros e He. rewrite (Hm e).
      - unfold oltb. rewrite le_refl. reflexivity.
      - rewrite <- (firstn_skipn (median_pos (length range)) (oracle range)). apply in_or_app; auto. }
  simpl in EP. inversion EP as [[E1 E2]].
  assert (He : In y0 (filter (fun e : A * nat => negb (keqb A F (fst e) (fst (nth (median_pos (length range)) (oracle range) (0, 0%nat)))))
                             (skipn (median_pos (length range)) (oracle range)))) by (rewrite E2; left; auto).
  apply filter_In in He. destruct He as [He1 He2]. rewrite (Hm y0) in He2.
  - rewrite keqb_refl in He2. discriminate.
  - rewrite <- (firstn_skipn (median_pos (length range)) (oracle range)). apply in_or_app; auto.
Qed.

(* ======================================================================================== *)
(* B. buildTree                                                                              *)
Section Build.
Variables P N : Type.
Variable prep : nat -> nat -> P.
Variable key : P -> nat -> A.
Variable mk : P -> A -> N.
Variable choose : list nat -> nat * nat.
Variable oracle : list akv -> list akv.
Variable funct : N -> apoint -> A.
Variable thr : N -> A.
Variable d2 : apoint -> apoint -> A.
Variable dom : apoint -> Prop.
Variable data : list apoint.
Notation ptA := (ptA A).
Notation pbuild := (pbuild A F P N prep key mk choose oracle).
Notation PWF := (PWF A F N funct thr d2 dom data).
Notation in_pcell := (in_pcell A F N funct thr).

(* the model's node evaluates funct / threshold as the construction computed the keys *)
Hypothesis funct_key : forall p t i, funct (mk p t) (ptA data i) = key p i.
Hypothesis thr_mk : forall p t, thr (mk p t) = t.
(* every node the construction can create has a 1-Lipschitz funct *)
Hypothesis Lip_mk : forall a b t, dom (ptA data a) -> dom (ptA data b) -> Lip A F N funct d2 dom (mk (prep a b) t).
(* the anchors are points of the cell *)
Hypothesis choose_in : forall elems a b, elems <> [] -> (forall i, In i elems -> dom (ptA data i)) ->
  choose elems = (a, b) -> In a elems /\ In b elems.
(* the anchors separate the cell: if the cell holds two points at non-zero distance, the two anchors are points of
   the cell with different keys *)
Hypothesis choose_sep : forall elems a b, choose elems = (a, b) ->
  (forall i, In i elems -> dom (ptA data i)) ->
  (exists i j, In i elems /\ In j elems /\ d2 (ptA data i) (ptA data j) <> 0) ->
  key (prep a b) a <> key (prep a b) b /\ In a elems /\ In b elems.
(* points at distance zero are at the same distance from every reference point *)
Hypothesis d2_equiv : forall i j, dom (ptA data i) -> dom (ptA data j) -> d2 (ptA data i) (ptA data j) = 0 ->
  forall q, dom q -> d2 (ptA data i) q = d2 (ptA data j) q.
Hypothesis Horacle : aoracle_ok A F oracle.

Lemma map_snd_range_p (kf : nat -> A) (elems : list nat) : map snd (map (fun i => (kf i, i)) elems) = elems.
Proof. induction elems; simpl; congruence. Qed.

(* is there a pair of points of the cell at non-zero distance? *)
Lemma far_pair_dec (elems : list nat) :
  (exists i j, In i elems /\ In j elems /\ d2 (ptA data i) (ptA data j) <> 0) \/ (forall i j, In i elems -> In j elems -> d2 (ptA data i) (ptA data j) = 0).
Proof.
  assert (D : forall i (l : list nat),
            (exists j, In j l /\ d2 (ptA data i) (ptA data j) <> 0) \/ (forall j, In j l -> d2 (ptA data i) (ptA data j) = 0)).
  { intros i l. induction l as [|j l IH]; [right; intros j []|].
    destruct (eq_dec_of A F L (d2 (ptA data i) (ptA data j)) 0) as [E|E].
    - destruct IH as [(j' & Hj & Hd)|IH]; [left; exists j'; split; [right|]; auto|].
      right. intros j' [<-|Hj]; auto.
    - left. exists j. split; [left|]; auto. }
  assert (G : forall (l : list nat),
            (exists i j, In i l /\ In j elems /\ d2 (ptA data i) (ptA data j) <> 0) \/ (forall i j, In i l -> In j elems -> d2 (ptA data i) (ptA data j) = 0)).
  { induction l as [|i l IH]; [right; intros i j []|].
    destruct (D i elems) as [(j & Hj & Hd)|Hi].
    - left. exists i, j. split; [left|]; auto.
    - destruct IH as [(i' & j & Hi' & Hj & Hd)|IH]; [left; exists i', j; split; [right|]; auto|].
      right. intros i' j [<-|Hi'] Hj; auto. }
  apply G.
Qed.

(* buildTree: for every budget >= number of points the tree is well-formed and its leaves hold exactly the points
   of the cell *)
Theorem pbuild_spec : forall fuel elems path,
  (length elems <= fuel)%nat -> elems <> [] ->
  (forall i, In i elems -> dom (ptA data i)) ->
  (forall i, In i elems -> in_pcell path (ptA data i)) ->
  PWF path (pbuild fuel elems) /\ Permutation (pindices N (pbuild fuel elems)) elems.
Proof.
  induction fuel as [|f IH]; intros elems path Hf Hne Hd Hc.
  { destruct elems; [congruence | simpl in Hf; lia]. }
  cbn [C17ProjBuild.pbuild].
  destruct (Nat.leb_spec (length elems) 1) as [H1|H1].
  { (* a single point *)
    destruct elems as [|i [|j rest]]; [congruence| |simpl in H1; lia].
    split; [|simpl; auto]. simpl. split; [discriminate|]. split; [auto|]. split; [|auto].
    intros j [<-|[]] q Dq. auto. }
  destruct (choose elems) as [a b] eqn:Ech.
  set (p := prep a b).
  set (range := map (fun i => (key p i, i)) elems).
  destruct (asplit_list A F oracle range) as [[t Lp] Rp] eqn:Es.
  assert (Hlen : length range = length elems) by (unfold range; rewrite map_length; auto).
  assert (Hr2 : (2 <= length range)%nat) by (rewrite Hlen; exact H1).
  destruct (key_diff_dec range) as [Hxy|Hkeq].
  - (* two different keys: the split succeeds *)
    destruct (asplit_list_spec oracle range t Lp Rp (Horacle range) Hr2 Hxy Es) as (S1 & S2 & S3 & S4 & S5).
    destruct Lp as [|l0 Lp']; [congruence|]. destruct Rp as [|r0 Rp']; [congruence|].
    set (Lq := l0 :: Lp') in *. set (Rq := r0 :: Rp') in *.
    assert (Hin : forall e, In e (Lq ++ Rq) -> In (snd e) elems /\ fst e = key p (snd e)).
    { intros e He. eapply Permutation_in in He; [|apply Permutation_sym; exact S3].
      unfold range in He. apply in_map_iff in He. destruct He as (i & <- & Hi). simpl. auto. }
    assert (Pl : Permutation elems (map snd Lq ++ map snd Rq)).
    { rewrite <- map_app. rewrite <- (map_snd_range_p (key p) elems). apply Permutation_map. exact S3. }
    assert (LenL : (length (map snd Lq) <= f)%nat).
    { apply Permutation_length in Pl. rewrite app_length in Pl. rewrite !map_length in *. subst Rq. simpl in *. lia. }
    assert (LenR : (length (map snd Rq) <= f)%nat).
    { apply Permutation_length in Pl. rewrite app_length in Pl. rewrite !map_length in *. subst Lq. simpl in *. lia. }
    assert (InL : forall i, In i (map snd Lq) -> In i elems /\ key p i <= t).
    { intros i Hi. apply in_map_iff in Hi. destruct Hi as (e & <- & He).
      destruct (Hin e (in_or_app _ _ _ (or_introl He))) as [K1 K2]. split; [auto|]. rewrite <- K2. apply S4; auto. }
    assert (InR : forall i, In i (map snd Rq) -> In i elems /\ t <= key p i).
    { intros i Hi. apply in_map_iff in Hi. destruct Hi as (e & <- & He).
      destruct (Hin e (in_or_app _ _ _ (or_intror He))) as [K1 K2]. split; [auto|]. rewrite <- K2. apply S5; auto. }
    destruct (IH (map snd Lq) ((mk p t, false) :: path) LenL) as [WL PL].
    { subst Lq; simpl; discriminate. }
    { intros i Hi. apply Hd. apply InL; auto. }
    { intros i Hi. destruct (InL i Hi) as [K1 K2]. constructor; [|apply Hc; auto].
      unfold side_ok. simpl. rewrite funct_key, thr_mk. auto. }
    destruct (IH (map snd Rq) ((mk p t, true) :: path) LenR) as [WR PR].
    { subst Rq; simpl; discriminate. }
    { intros i Hi. apply Hd. apply InR; auto. }
    { intros i Hi. destruct (InR i Hi) as [K1 K2]. constructor; [|apply Hc; auto].
      unfold side_ok. simpl. rewrite funct_key, thr_mk. auto. }
    split.
    + cbn [C17ProjProofs.PWF]. destruct (choose_in elems a b Hne Hd Ech) as [Ia Ib].
      split; [apply Lip_mk; apply Hd; auto|]. split; auto.
    + cbn [pindices]. rewrite PL, PR. apply Permutation_sym. exact Pl.
  - (* all keys equal: the node stays a leaf; then all its points are at distance zero from each other *)
    assert (Lp = []).
    { eapply asplit_list_all_equal; eauto. apply Horacle. }
    subst Lp.
    assert (Hz : forall i j, In i elems -> In j elems -> d2 (ptA data i) (ptA data j) = 0).
    { destruct (far_pair_dec elems) as [Hfar|Hz]; [|auto]. exfalso.
      destruct (choose_sep elems a b Ech Hd Hfar) as (Hk & Ha & Hb). apply Hk. fold p.
      apply (Hkeq (key p a, a) (key p b, b)); unfold range; apply in_map_iff; eauto. }
    split; [|simpl; auto]. simpl. split; [auto|]. split; [auto|]. split; [|auto].
    intros i Hi q Dq. apply d2_equiv; auto.
    + apply Hd. destruct elems; [congruence | left; auto].
    + apply Hz; auto. destruct elems; [congruence | left; auto].
Qed.

(* the depth budget (2^32-1 in the C++) is never used up: any two budgets >= number of points give the same tree *)
Theorem pbuild_fuel_enough : forall f1 f2 elems,
  (length elems <= f1)%nat -> (length elems <= f2)%nat -> pbuild f1 elems = pbuild f2 elems.
Proof.
  induction f1 as [|f1 IH]; intros f2 elems H1 H2.
  { destruct elems; [|simpl in H1; lia]. destruct f2; reflexivity. }
  destruct f2 as [|f2].
  { destruct elems; [|simpl in H2; lia]. reflexivity. }
  cbn [C17ProjBuild.pbuild].
  destruct (Nat.leb_spec (length elems) 1) as [Hl|Hl]; [auto|].
  destruct (choose elems) as [a b].
  set (p := prep a b). set (range := map (fun i => (key p i, i)) elems).
  destruct (asplit_list A F oracle range) as [[t Lp] Rp] eqn:Es.
  destruct Lp as [|l0 Lp']; [auto|]. destruct Rp as [|r0 Rp']; [auto|].
  assert (Pl : Permutation range ((l0 :: Lp') ++ (r0 :: Rp'))).
  { eapply asplit_list_perm; eauto. apply Horacle. }
  apply Permutation_length in Pl. unfold range in Pl. rewrite map_length, app_length in Pl. simpl in Pl.
  f_equal; apply IH; rewrite map_length; simpl; unfold C17ProjBuild.akv in *; lia.
Qed.

End Build.

(* ======================================================================================== *)
(* C. instances                                                                              *)

(* the anchors chosen for a cell of data points (V = the valid indices): two points of the cell, at non-zero distance
   whenever the cell holds two points at non-zero distance (d2 i j = squared distance of the data points i, j) *)
Definition choose_ok (V : nat -> Prop) (d2 : nat -> nat -> A) (choose : list nat -> nat * nat) : Prop :=
  forall elems a b, elems <> [] -> (forall i, In i elems -> V i) -> choose elems = (a, b) ->
    In a elems /\ In b elems /\
    ((exists i j, In i elems /\ In j elems /\ d2 i j <> 0) -> d2 a b <> 0).

(* the square root is one for the values it is applied to *)
Definition sqrt_ok (x : A) : Prop := 0 < x -> osqrt F x * osqrt F x = x.

Lemma sum_nonneg_0 u v : 0 <= u -> 0 <= v -> u + v = 0 -> u = 0 /\ v = 0.
Proof.
  intros Hu Hv H. assert (Eu : u = - v) by (replace u with (u + v - v) by ring; rewrite H; ring).
  assert (K : v <= 0).
  { apply (le_opp A F L) in Hu. replace (- 0) with 0 in Hu by ring. rewrite Eu in Hu. replace (- - v) with v in Hu by ring. auto. }
  assert (V0 : v = 0) by (apply le_antisym; auto). split; [|auto]. rewrite Eu, V0. ring.
Qed.

Lemma edist2_0_eq p : forall q, length p = length q -> edist2 F p q = 0 -> p = q.
Proof.
  induction p as [|u p IH]; intros [|v q] Hl H; simpl in *; try discriminate; auto.
  destruct (sum_nonneg_0 _ _ (sq_nonneg A F L (u - v)) (dist2_nonneg A F L p q) H) as [H1 H2].
  f_equal; [|apply IH; auto].
  destruct (mul_eq_0 A F L _ _ H1) as [E|E]; replace u with (u - v + v) by ring; rewrite E; ring.
Qed.

Lemma dot_vsub_self_gen p : forall q, dot F (vsub F q p) (vsub F q p) = edist2 F p q.
Proof. induction p as [|c p IH]; intros [|b q]; simpl; auto. rewrite IH. ring. Qed.

Lemma pos_of_nonneg_neq x : 0 <= x -> x <> 0 -> 0 < x.
Proof. intros H N. destruct (oleb F x 0) eqn:E; [|auto]. exfalso. apply N. apply le_antisym; auto. Qed.

Lemma inv_norm_sq best : 0 <= best -> sqrt_ok best ->
  inv_norm A F best * inv_norm A F best * best <= 1 /\ (best <> 0 -> inv_norm A F best * best <> 0).
Proof.
  intros H0 Hs. unfold inv_norm. destruct (oleb F best 0) eqn:E.
  - assert (best = 0) by (apply le_antisym; auto). subst best. split; [|congruence].
    replace (1 * 1 * 0) with 0 by ring. apply (le_0_1 A F L).
  - specialize (Hs E).
    assert (Hr : osqrt F best <> 0).
    { intros Z. rewrite Z in Hs. replace (0 * 0) with 0 in Hs by ring. rewrite <- Hs in E. rewrite le_refl in E. discriminate. }
    split.
    + replace (1 / osqrt F best * (1 / osqrt F best) * best) with (best / (osqrt F best * osqrt F best)) by (field; auto).
      rewrite Hs. replace (best / best) with 1; [apply le_refl|]. field. intros Z. subst best. rewrite le_refl in E. discriminate.
    + intros Hb Z. apply Hr.
      replace (osqrt F best) with ((1 / osqrt F best * best) * (osqrt F best * osqrt F best) / best) by (field; split; auto).
      rewrite Z. field. auto.
Qed.

(* ---- LC-tree ---- *)
Section LCB.
Variable dim : nat.
Variable data : list apoint.
Hypothesis Udata : uniformA A dim data.
Variable choose : list nat -> nat * nat.
Variable oracle : list akv -> list akv.
Hypothesis Hsqrt : forall a b, sqrt_ok (lc_d2 A F data a b).
Hypothesis Hchoose : choose_ok (fun i => dimdom A dim (ptA A data i)) (lc_d2 A F data) choose.
Hypothesis Horacle : aoracle_ok A F oracle.
Notation ptA := (ptA A).

Lemma lc_prep_unit a b : lc_unitb A F (mkLc A (lc_prep A F data a b) 0) = true.
Proof.
  unfold lc_unitb, lc_prep. simpl. rewrite dot_vscale, dot_vscale_r by exact L.
  rewrite dot_vsub_self_gen. rewrite (dist2_sym A F L). fold (lc_d2 A F data a b).
  set (best := lc_d2 A F data a b).
  destruct (inv_norm_sq best) as [H _]; [apply (dist2_nonneg A F L) | apply Hsqrt|].
  replace (inv_norm A F best * (inv_norm A F best * best)) with (inv_norm A F best * inv_norm A F best * best) by ring. auto.
Qed.

Lemma lc_mk_Lip a b t : Lip A F (lcnode A) (lc_funct A F) (edist2 F) (dimdom A dim) (mkLc A (lc_prep A F data a b) t).
Proof. apply (lc_Lip A F L). exact (lc_prep_unit a b). Qed.

Lemma lc_key_sep a b : dimdom A dim (ptA data a) -> dimdom A dim (ptA data b) -> lc_d2 A F data a b <> 0 ->
  lc_key A F data (lc_prep A F data a b) a <> lc_key A F data (lc_prep A F data a b) b.
Proof.
  unfold dimdom. intros Da Db Hn E. unfold lc_key in E.
  assert (K : dot F (lc_prep A F data a b) (ptA data a) - dot F (lc_prep A F data a b) (ptA data b) = 0) by (rewrite E; ring).
  rewrite (dot_vsub A F L) in K by congruence.
  unfold lc_prep in K. rewrite dot_vscale in K by exact L. rewrite dot_vsub_self_gen in K. rewrite (dist2_sym A F L) in K.
  fold (lc_d2 A F data a b) in K.
  destruct (inv_norm_sq (lc_d2 A F data a b)) as [_ H]; [apply (dist2_nonneg A F L) | apply Hsqrt|].
  apply (H Hn). exact K.
Qed.

Lemma in_seq_dom i : In i (seq 0 (length data)) -> dimdom A dim (ptA data i).
Proof. intros Hi. apply in_seq in Hi. apply (uniformA_ptA A dim data i Udata). lia. Qed.

Theorem lc_build_wellformed : data <> [] ->
  PWF A F (lcnode A) (lc_funct A F) (lc_thr A) (edist2 F) (dimdom A dim) data [] (lc_build A F data choose oracle) /\
  Permutation (pindices (lcnode A) (lc_build A F data choose oracle)) (seq 0 (length data)).
Proof.
  intros Hne. unfold lc_build.
  apply (pbuild_spec apoint (lcnode A) (lc_prep A F data) (lc_key A F data) (mkLc A) choose oracle
           (lc_funct A F) (lc_thr A) (edist2 F) (fun p => dimdom A dim p) data).
  - reflexivity.
  - reflexivity.
  - intros a b t _ _. apply lc_mk_Lip.
  - intros elems a b He Hdom Hc. destruct (Hchoose elems a b He Hdom Hc) as (Ha & Hb & _). auto.
  - intros elems a b Hc Hdom Hfar.
    assert (He : elems <> []) by (destruct Hfar as (i & _ & Hi & _); intros ->; destruct Hi).
    destruct (Hchoose elems a b He Hdom Hc) as (Ha & Hb & Hd). split; [|auto].
    apply lc_key_sep; auto.
  - intros i j Di Dj H q Dq. assert (El : length (ptA data i) = length (ptA data j)) by (unfold dimdom in *; congruence).
    rewrite (edist2_0_eq _ _ El H). reflexivity.
  - exact Horacle.
  - rewrite seq_length. auto.
  - destruct data; [congruence | simpl; discriminate].
  - apply in_seq_dom.
  - intros; constructor.
Qed.

(* the depth limit is not reached *)
Theorem lc_build_depth_limit_unreached : forall f1 f2 elems,
  (length elems <= f1)%nat -> (length elems <= f2)%nat ->
  pbuild A F apoint (lcnode A) (lc_prep A F data) (lc_key A F data) (mkLc A) choose oracle f1 elems =
  pbuild A F apoint (lcnode A) (lc_prep A F data) (lc_key A F data) (mkLc A) choose oracle f2 elems.
Proof. apply pbuild_fuel_enough. exact Horacle. Qed.

(* end to end: construction, then query *)
Theorem lc_build_then_query_correct q k : data <> [] -> length q = dim -> (k <= length data)%nat ->
  let res := lc_query A F data (lc_build A F data choose oracle) q k in
  length res = k /\
  NoDup (map snd res) /\
  (forall d i, In (d, i) res -> (i < length data)%nat /\ d = edist2 F (ptA data i) q) /\
  gdsorted A (oleb F) (map fst res) /\
  (forall j, (j < length data)%nat -> ~ In j (map snd res) ->
             forall d, In d (map fst res) -> d <= edist2 F (ptA data j) q).
Proof.
  intros Hne Hq Hk. destruct (lc_build_wellformed Hne) as [W Pm].
  apply (pquery_k_smallest_dataset A F L (lcnode A) (lc_funct A F) (lc_thr A) (edist2 F) (dimdom A dim) data); auto.
  intros; apply (dist2_nonneg A F L).
Qed.

End LCB.

(* ---- KHC-tree, any symmetric kernel with KPos / KCS ---- *)
Section KHCB.
Variable k : apoint -> apoint -> A.
Variable dom : apoint -> Prop.
Variable data : list apoint.
Hypothesis HP : KPos A F k dom.
Hypothesis HC : KCS A F k dom.
Hypothesis Hsym : forall x y, dom x -> dom y -> k x y = k y x.
Hypothesis Ddata : forall i, (i < length data)%nat -> dom (ptA A data i).
Variable choose : list nat -> nat * nat.
Variable oracle : list akv -> list akv.
Hypothesis Hsqrt : forall a b, sqrt_ok (khc_d2 A F k data a b).
Hypothesis Hchoose : choose_ok (fun i => dom (ptA A data i)) (khc_d2 A F k data) choose.
Hypothesis Horacle : aoracle_ok A F oracle.
Notation ptA := (ptA A).
Notation kd2 := (kd2 A F k).

Lemma khc_mk_Lip a b t : dom (ptA data a) -> dom (ptA data b) ->
  Lip A F (khcnode A) (khc_funct A F k data) kd2 dom (khc_mk A (khc_prep A F k data a b) t).
Proof.
  intros Da Db. apply (khc_Lip A F L); auto.
  unfold khc_unitb, khc_mk, khc_prep. simpl. fold (khc_d2 A F k data a b).
  destruct (inv_norm_sq (khc_d2 A F k data a b)) as [H _]; [apply HP; auto | apply Hsqrt | exact H].
Qed.

Lemma khc_key_sep a b : dom (ptA data a) -> dom (ptA data b) -> khc_d2 A F k data a b <> 0 ->
  khc_key A F k data (khc_prep A F k data a b) a <> khc_key A F k data (khc_prep A F k data a b) b.
Proof.
  intros Da Db Hn E. unfold khc_key, khc_funct, khc_mk, khc_prep in E. simpl in E.
  destruct (inv_norm_sq (khc_d2 A F k data a b)) as [_ H]; [apply HP; auto | apply Hsqrt|].
  apply (H Hn). unfold khc_d2, C17Proj.kd2, two.
  rewrite (Hsym (ptA data b) (ptA data a) Db Da) in E.
  set (iv := inv_norm A F (khc_d2 A F k data a b)) in *. unfold khc_d2, C17Proj.kd2, two in iv. fold iv.
  replace (iv * (k (ptA data a) (ptA data a) - (1 + 1) * k (ptA data a) (ptA data b) + k (ptA data b) (ptA data b)))
    with ((k (ptA data a) (ptA data a) - k (ptA data a) (ptA data b)) * iv - (k (ptA data a) (ptA data b) - k (ptA data b) (ptA data b)) * iv) by ring.
  rewrite E. ring.
Qed.

Lemma sq_le_0 x : x * x <= 0 -> x = 0.
Proof.
  intros H. assert (E : x * x = 0) by (apply le_antisym; auto; apply (sq_nonneg A F L)).
  destruct (mul_eq_0 A F L _ _ E); auto.
Qed.

Lemma kd2_equiv x y : dom x -> dom y -> kd2 x y = 0 -> forall q, dom q -> kd2 x q = kd2 y q.
Proof.
  intros Dx Dy H q Dq.
  assert (Z : forall p, dom p -> k x q - k y q - k x p + k y p = 0).
  { intros p Dp. apply sq_le_0. pose proof (HC x y p q Dx Dy Dp Dq) as K. rewrite H in K.
    replace (0 * kd2 p q) with 0 in K by ring. exact K. }
  pose proof (Z x Dx) as E1. pose proof (Z y Dy) as E2. pose proof (Hsym y x Dy Dx) as Es.
  assert (G : kd2 x q - kd2 y q = 0).
  { unfold C17Proj.kd2, two.
    replace (k x x - (1 + 1) * k x q + k q q - (k y y - (1 + 1) * k y q + k q q))
      with (- (k x q - k y q - k x x + k y x) - (k x q - k y q - k x y + k y y) + (k y x - k x y)) by ring.
    rewrite E1, E2, Es. ring. }
  replace (kd2 x q) with (kd2 x q - kd2 y q + kd2 y q) by ring. rewrite G. ring.
Qed.

Theorem khc_build_wellformed : data <> [] ->
  PWF A F (khcnode A) (khc_funct A F k data) (kh_thr A) kd2 dom data [] (khc_build A F k data choose oracle) /\
  Permutation (pindices (khcnode A) (khc_build A F k data choose oracle)) (seq 0 (length data)).
Proof.
  intros Hne. unfold khc_build.
  apply (pbuild_spec (nat * nat * A)%type (khcnode A) (khc_prep A F k data) (khc_key A F k data) (khc_mk A) choose oracle
           (khc_funct A F k data) (kh_thr A) kd2 dom data).
  - reflexivity.
  - reflexivity.
  - intros a b t Da Db. apply khc_mk_Lip; auto.
  - intros elems a b He Hdom Hc. destruct (Hchoose elems a b He Hdom Hc) as (Ha & Hb & _). auto.
  - intros elems a b Hc Hdom Hfar.
    assert (He : elems <> []) by (destruct Hfar as (i & _ & Hi & _); intros ->; destruct Hi).
    destruct (Hchoose elems a b He Hdom Hc) as (Ha & Hb & Hd). split; [|auto].
    apply khc_key_sep; auto.
  - intros i j Di Dj H q Dq. apply kd2_equiv; auto.
  - exact Horacle.
  - rewrite seq_length. auto.
  - destruct data; [congruence | simpl; discriminate].
  - intros i Hi. apply in_seq in Hi. apply Ddata. lia.
  - intros; constructor.
Qed.

Theorem khc_build_then_query_correct q kk : data <> [] -> dom q -> (kk <= length data)%nat ->
  let res := khc_query A F k data (khc_build A F k data choose oracle) q kk in
  length res = kk /\
  NoDup (map snd res) /\
  (forall d i, In (d, i) res -> (i < length data)%nat /\ d = kd2 (ptA data i) q) /\
  gdsorted A (oleb F) (map fst res) /\
  (forall j, (j < length data)%nat -> ~ In j (map snd res) ->
             forall d, In d (map fst res) -> d <= kd2 (ptA data j) q).
Proof.
  intros Hne Dq Hk. destruct (khc_build_wellformed Hne) as [W Pm].
  apply (pquery_k_smallest_dataset A F L (khcnode A) (khc_funct A F k data) (kh_thr A) kd2 dom data); auto.
Qed.

End KHCB.
End PBP.
