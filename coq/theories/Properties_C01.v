(* C01 — Linear-algebra (remora) expressions evaluate to their element-wise mathematical meaning.
   Only statements + `exact`; proofs are in C01Proofs.v, definitions in C01Model.v / C01Opt.v.

   PROVED here (for all expression trees, all shapes incl. 0/1-sized and non-square, all target proxy
   chains; arithmetic over Z):
     * the plain and compound forms  t (=|+=|-=|*=|/=) e  and  t o= c : every target cell becomes
       op(old target cell, value of e in the PRE-state), even when the target occurs in e, and every
       cell outside the target is unchanged;
     * the noalias forms coincide with the plain forms when the target's container does not occur in e
       (the model's noalias loop reads the CURRENT store while writing, as kernels::assign does);
     * max/min (and thus norm_inf) return an attained bound for every non-empty operand; sum, norms,
       trace, inner_prod are finite sums of the denotation;
     * the rewrite rules of detail/expression_optimizers.hpp (C01Opt.v, one arm per C++ specialisation, tied
       structurally to the header by tools/c01_rules.py on every run; table `fx = true` = the code as repaired by the
       `fix:` commits, with the one exception of known finding C01-RANGEDIAG) preserve well-formedness, shape and the
       element-wise denotation, for every fuel, every store and every well-formed expression: the C01_opt_*_sound
       theorems at the end of this file; the table as it was BEFORE the repairs (fx = false) is refuted rule by rule
       with concrete witnesses (C01_opt_*_refuted), among them the still unrepaired range<diagonal_matrix> rule;
     * ORIENTATION-DEPENDENT RULES (C01OrientProofs.v): the specialisations whose result depends on the Orientation
       template parameter - range / rows / row / trans / diag / scalar multiple / matrix-vector product of
       vector_repeater<V, row_major | column_major> - are spelled out for BOTH orientations (the model's MRepeat carries
       the orientation flag; the C01_opt_*_sound theorems quantify over it): which index range is applied to v, how
       often the result is repeated, the orientation of the result, and the element denoted
       (C01_opt_repeater_*_orientation); the orientation-blind variant of the range rule (range of v from the column
       range, repetitions from the row range whatever the orientation - seeded change C01-5) is refuted for the
       column-major repeater (C01_opt_repeater_range_orientation_blind_refuted).  The remaining orientation parameters
       of the table do not influence a value: scalar_matrix<T,Device,Orientation> (no orientation in MConst),
       vector_set<M, row_major|column_major> (C01_opt_fold_set_sound, both), matrix_concat<.,.,B> (flag kept / negated by
       trans: C01_opt_mtrans_sound);
     * SPARSE VECTOR STORAGE AND KERNELS (C01SparseModel.v: compressed_vector as coded in cpu/sparse.hpp - sorted index
       array + value array + nnz + capacity, reserve / set_element / clear_range / clear - and the sparse cases of
       kernels/default/vector_assign.hpp, loop by loop over iterator positions; abstraction sden = zero where nothing
       is stored).  For all index lists, values, sizes, capacities and, for the functor kernels, ALL functors f:
       the storage invariant (indices strictly increasing and < size, nnz <= capacity) is preserved by every
       operation; plain assignment sparse<-sparse copies the stored sequence (denotation equality), dense<-sparse and
       sparse<-dense realise the denotation (the latter stores every index); the functor kernels realise
       target_i := f(target_i, source_i) for every i in the dense<-sparse case (also where nothing is stored, unless
       the functor declares right_zero_identity, which then has to be true) and in the sparse<-dense case, and in
       the sparse<-sparse case for every i stored on at least one side - positions stored on neither side are not
       visited, so the element-wise meaning holds there iff f(0,0) = 0 (stated in the theorem); scalar forms on a
       sparse target touch stored elements only.  The kernels as they were before the repairs 88237f8b / 245464d7
       (found with this model) are refuted on the inputs that exposed them (C01_sparse_*_before_repair_refuted);
     * COMPRESSED MATRIX STORAGE AND KERNELS (C01SparseMatModel.v: one svec per major line + the shared capacity;
       set_element / major_reserve / reserve / clear as in cpu/sparse_matrix.hpp; the sparse cases of
       kernels/default/matrix_assign.hpp): invariant preservation (every line sorted and below the minor size, line
       nnz <= line capacity, sum of line capacities <= nnz_capacity) and the element-wise meaning, for all shapes
       incl. 0 x k, both relative orientations (same: line by line; cross: collect-sort-write resp. transposed
       temporary), plain and functor kernels with every functor, compressed and dense targets
       (theorems C01_sparse_matrix_...);
     * SPARSE EXPRESSION ITERATORS (C01SparseExpr.v: union iterator of a+b as repaired by 32ed6769 - found with this
       model -, intersection iterator of a*b, scalar multiples, abs/sqr, unit_vector): the yielded sequence is sorted
       and denotes the documented value, so expressions are legal sources of all kernels
       (C01_sparse_expression_iterator_correct); the iterator before the repair is refuted on its input;
   TIE OF THE RULE TABLE TO THE HEADER (every run, tools/c01_rules.py): (1) the set of specialisations equals the set
   of arms of C01Opt.v; (2) RULE BODIES: the typedefs and the `create` body of every specialisation are translated
   from expression_optimizers.hpp (index expressions incl. Orientation::index_M / index_m read from structure.hpp,
   orientation / bool template arguments of the result type, argument order, eager element / inner-product values)
   and interpreted on ~1000 instances (every rule, both orientations, non-square shapes, pairwise different indices,
   structured children); the resulting term must be IDENTICAL to the one the extracted C01Opt.v functions - the very
   functions of the C01_opt_*_sound theorems - return (driver command `O`).  Trusted there: the hand-written table of
   constructor argument orders / accessor names of the expression classes.  REMORA_RANGE_CHECK preconditions delimit
   the instances (range<diagonal_matrix>: only a = c, b = d, known finding C01-RANGEDIAG);
   COMPARED / MONITORED only (tools/c01.py, tools/c01_sparse.py): that the C++ implements these models - generated
   programs, exact comparison of compiled C++ (long/double, default kernels and CBLAS) against the extracted
   interpreter and an independent evaluator; for the sparse part command sequences (storage operations, kernels with
   six functors, plain / compound / noalias operator forms, mixed dense/sparse, both matrix orientations, nine shapes
   of sparse right-hand-side expressions) are run by harness/c01_sparse.cpp and by the extracted C01SparseExec.run_cmd and compared exactly INCLUDING capacities and the
   stored index sequences, with an independent monitor of the storage invariant and of the element-wise meaning.
     * PROXY LAYER, ORIENTATION-COMPLETE (tools/c01_gen.py: ProxyLayer; own shards on every run): every proxy
       (subrange, rows, columns, row, column, diag, trans) applied to every matrix form (dense row-/column-major,
       repeat, outer_prod, to_diagonal, identity, scalar matrix, prod, A|B, A&B, matrix + scalar, repeat of a broadcast
       vector) AND to trans(form) - the column-major repeater, swapped outer product, ... - alone or nested in scalar
       multiples / unary / binary functions / sums / differences / scalar broadcasts and under a second proxy, with
       non-square operands and off-diagonal, non-square, empty, single-line and full ranges, assigned with = += -= *=
       (plain and noalias) to row- and column-major targets; one statement per stratum (proxy x form x orientation),
       134 strata, compared three-way.  Strata without any compiling member are listed in EXCLUDED_STRATA (proxies other
       than trans of a concatenation; rows / columns of a diagonal matrix; diag of a product = C01-DIAGPROD);
     * TRIANGULAR PRODUCTS: triangular_prod<tag>(A, v) / (A, B) are part of the deep embedding (constructor MTri =
       to_triangular; C01_triangular_prod_meaning); every C01_assign_* theorem covers them; generated in their own
       stream (all four tags, both orientations, compound noalias forms with scalar factors, plain forms) and, like
       the products with an inner dimension above the 512-tile of the CBLAS fall-back gemm (long-inner stream),
       compared three-way on every run;
     * DENSE BLOCKED ASSIGNMENT KERNELS with transposition (C01BlockModel.v, loop nest as coded, every block size and
       shape): C01_dense_blocked_kernel_correct; run next to kernels::assign(dense, dense of the other orientation)
       by the sparse harness (commands DKA / DKF, shapes around the 8 x 8 / 16 x 16 blocking);
   NOT PROVED (executable and compared on every run only): the statement level C01SparseExec.v (which kernel an
   operator form calls: temporaries of the plain forms, `-=` as `+=` of (-1)*e, the defaulted copy assignment) - the
   theorems are about the kernels and iterators it composes; prod(compressed matrix, dense vector) and its transposed
   form are compared with the documented value only (the sparse gemv kernel is not modelled); row/column proxies of
   compressed matrices and sparse reductions are not modelled; the blocked PRODUCT kernels (gemm/gemv), OpenBLAS.
   Observations recorded by the sparse stream, not violations of the property as modelled: `x op= scalar` on a sparse
   target touches stored elements only (C01_sparse_scalar_stored_only); compressed = expression (sparse.hpp:131),
   compressed_matrix = matrix of the other orientation (sparse.hpp:243), compressed_matrix = dense matrix and
   `x -= a*b` with sparse a, b (compose functor lacks left/right_zero_remains) do not compile.
   `vden`/`mden` ARE the documented meaning (quickref/remora.rst), written as Gallina. *)
From Coq Require Import ZArith List Bool Arith Lia.
From SharkV Require Import C01Model C01Proofs C01Opt C01OptProofs C01OrientProofs C01SparseModel C01SparseProofs C01SparseFunProofs C01SparseMatModel C01SparseMatProofs C01SparseExpr C01SparseExprProofs C01BlockModel C01BlockProofs.
Import ListNotations.
Open Scope Z_scope.

(* plain / compound assignment to a vector target (container or proxy chain), aliasing allowed *)
Theorem C01_assign_plain_correct_vector :
  forall (s : env) (o : aop) (t e : vexp), vlval t = true ->
    let s' := exec s (SAssignV false o t e) in
    (forall i, (i < vsize t)%nat -> vden s' t i = combine_op o (vden s t i) (vden s e i)) /\
    (forall a, ~ In a (vcells t) -> rd s' a = rd s a).
Proof. exact assign_plain_v. Qed.
Print Assumptions C01_assign_plain_correct_vector.

Theorem C01_assign_plain_correct_matrix :
  forall (s : env) (o : aop) (t e : mexp), mlval t = true ->
    let s' := exec s (SAssignM false o t e) in
    (forall i j, (i < mrows t)%nat -> (j < mcols t)%nat ->
        mden s' t i j = combine_op o (mden s t i j) (mden s e i j)) /\
    (forall a, ~ In a (mcells t) -> rd s' a = rd s a).
Proof. exact assign_plain_m. Qed.
Print Assumptions C01_assign_plain_correct_matrix.

Theorem C01_assign_scalar_correct_vector :
  forall (s : env) (o : aop) (t : vexp) (c : Z), vlval t = true ->
    let s' := exec s (SScalarV o t c) in
    (forall i, (i < vsize t)%nat -> vden s' t i = combine_op o (vden s t i) c) /\
    (forall a, ~ In a (vcells t) -> rd s' a = rd s a).
Proof. exact assign_scalar_v. Qed.
Print Assumptions C01_assign_scalar_correct_vector.

Theorem C01_assign_scalar_correct_matrix :
  forall (s : env) (o : aop) (t : mexp) (c : Z), mlval t = true ->
    let s' := exec s (SScalarM o t c) in
    (forall i j, (i < mrows t)%nat -> (j < mcols t)%nat -> mden s' t i j = combine_op o (mden s t i j) c) /\
    (forall a, ~ In a (mcells t) -> rd s' a = rd s a).
Proof. exact assign_scalar_m. Qed.
Print Assumptions C01_assign_scalar_correct_matrix.

(* noalias forms: the in-place loop gives the same store as the temporary semantics whenever the
   target's container is not mentioned on the right-hand side (disjointness at container level; the
   finer statement "target cells disjoint from the cells read" is not proved) *)
Theorem C01_assign_noalias_correct_vector :
  forall (s : env) (o : aop) (t e : vexp), vlval t = true -> vuses (vaddr t 0) e = false ->
    let s' := exec s (SAssignV true o t e) in
    (forall i, (i < vsize t)%nat -> vden s' t i = combine_op o (vden s t i) (vden s e i)) /\
    (forall a, ~ In a (vcells t) -> rd s' a = rd s a).
Proof. intros s o t e L U. rewrite (assign_noalias_v s o t e L U). exact (assign_plain_v s o t e L). Qed.
Print Assumptions C01_assign_noalias_correct_vector.

Theorem C01_assign_noalias_correct_matrix :
  forall (s : env) (o : aop) (t e : mexp), mlval t = true -> muses (maddr t 0 0) e = false ->
    let s' := exec s (SAssignM true o t e) in
    (forall i j, (i < mrows t)%nat -> (j < mcols t)%nat ->
        mden s' t i j = combine_op o (mden s t i j) (mden s e i j)) /\
    (forall a, ~ In a (mcells t) -> rd s' a = rd s a).
Proof. intros s o t e L U. rewrite (assign_noalias_m s o t e L U). exact (assign_plain_m s o t e L). Qed.
Print Assumptions C01_assign_noalias_correct_matrix.

(* distinct indices of a target proxy chain address distinct cells (no cell is written twice) *)
Theorem C01_target_cells_distinct :
  (forall t, vlval t = true -> NoDup (vcells t)) /\ (forall t, mlval t = true -> NoDup (mcells t)).
Proof. split; [exact vcells_NoDup | exact mcells_NoDup]. Qed.
Print Assumptions C01_target_cells_distinct.

(* reductions: max / min / norm_inf of a non-empty operand are attained bounds; shapes 1 included *)
Theorem C01_reduction_correct :
  forall (s : env) (e : vexp), (0 < vsize e)%nat ->
    ((forall i, (i < vsize e)%nat -> vden s e i <= seval s (RMax e)) /\
     (exists i, (i < vsize e)%nat /\ seval s (RMax e) = vden s e i)) /\
    ((forall i, (i < vsize e)%nat -> seval s (RMin e) <= vden s e i) /\
     (exists i, (i < vsize e)%nat /\ seval s (RMin e) = vden s e i)) /\
    ((forall i, (i < vsize e)%nat -> Z.abs (vden s e i) <= seval s (RNormInf e)) /\
     (exists i, (i < vsize e)%nat /\ seval s (RNormInf e) = Z.abs (vden s e i))).
Proof.
  intros s e H. split; [|split].
  - exact (maxn_spec (vsize e) (vden s e) H).
  - exact (minn_spec (vsize e) (vden s e) H).
  - exact (maxn_spec (vsize e) (fun i => Z.abs (vden s e i)) H).
Qed.
Print Assumptions C01_reduction_correct.

(* sum-type reductions are the documented finite sums, for every size including 0 *)
Theorem C01_reduction_sums :
  forall (s : env) (e e2 : vexp) (m : mexp),
    seval s (RSum e) = sumn (vsize e) (vden s e) /\
    seval s (RNorm1 e) = sumn (vsize e) (fun i => Z.abs (vden s e i)) /\
    seval s (RNormSqr e) = sumn (vsize e) (fun i => vden s e i * vden s e i) /\
    seval s (RInner e e2) = sumn (vsize e) (fun i => vden s e i * vden s e2 i) /\
    seval s (RTrace m) = sumn (mrows m) (fun i => mden s m i i) /\
    seval s (RSum (VConst 0 7)) = 0.
Proof. intros. repeat split. Qed.
Print Assumptions C01_reduction_sums.

(* shape lemmas *)
Theorem C01_shapes :
  (forall al m1 m2, mrows (MProd al m1 m2) = mrows m1 /\ mcols (MProd al m1 m2) = mcols m2) /\
  (forall m, mrows (MTrans m) = mcols m /\ mcols (MTrans m) = mrows m) /\
  (forall e a b i, vwf (VRange e a b) = true -> (i < vsize (VRange e a b))%nat -> (a + i < vsize e)%nat).
Proof. split; [exact shape_prod | split; [exact shape_trans | exact wf_range_inside]]. Qed.
Print Assumptions C01_shapes.

(* the premises are satisfiable: a 0 x 3, a 1 x 1 and a non-square instance, and an aliasing statement *)
Example C01_wf_examples :
  mwf (MProd 1 (MVar 0 0 3) (MVar 1 3 2)) = true /\
  vwf (VMv 1 (MVar 2 1 1) (VVar 0 1)) = true /\
  mwf (MAdd (MTrans (MVar 1 3 2)) (MRange (MVar 3 4 4) 1 3 0 3)) = true /\
  stmt_ok (SAssignV false OpSet (VVar 0 3) (VMv 1 (MVar 0 3 3) (VVar 0 3))) = true /\
  stmt_ok (SAssignV true OpAdd (VRow (MVar 0 3 3) 1) (VCol (MVar 0 3 3) 2)) = false.
Proof. repeat split. Qed.

(* ---- rewrite table of detail/expression_optimizers.hpp (C01Opt.v) *)
Theorem C01_opt_vrange_sound : forall (s : env) (fuel : nat) (e : vexp) (a b : nat),
  vwf (VRange e a b) = true ->
  vwf (opt_vrange true s fuel e a b) = true /\
  vsize (opt_vrange true s fuel e a b) = vsize (VRange e a b) /\
  forall i, (i < vsize (VRange e a b))%nat ->
    vden s (opt_vrange true s fuel e a b) i = vden s (VRange e a b) i.
Proof. exact opt_vrange_sound. Qed.
Print Assumptions C01_opt_vrange_sound.

Theorem C01_opt_mtrans_sound : forall (s : env) (fuel : nat) (m : mexp),
  mwf (MTrans m) = true ->
  mwf (opt_mtrans true s fuel m) = true /\
  mrows (opt_mtrans true s fuel m) = mrows (MTrans m) /\
  mcols (opt_mtrans true s fuel m) = mcols (MTrans m) /\
  forall i j, (i < mrows (MTrans m))%nat -> (j < mcols (MTrans m))%nat ->
    mden s (opt_mtrans true s fuel m) i j = mden s (MTrans m) i j.
Proof. exact opt_mtrans_sound. Qed.
Print Assumptions C01_opt_mtrans_sound.

Theorem C01_opt_mrow_sound : forall (s : env) (fuel : nat) (m : mexp) (r : nat),
  vwf (VRow m r) = true ->
  vwf (opt_mrow true s fuel m r) = true /\
  vsize (opt_mrow true s fuel m r) = vsize (VRow m r) /\
  forall i, (i < vsize (VRow m r))%nat ->
    vden s (opt_mrow true s fuel m r) i = vden s (VRow m r) i.
Proof. exact opt_mrow_sound. Qed.
Print Assumptions C01_opt_mrow_sound.

Theorem C01_opt_mdiag_sound : forall (s : env) (fuel : nat) (m : mexp),
  vwf (VDiag m) = true ->
  vwf (opt_mdiag true s fuel m) = true /\
  vsize (opt_mdiag true s fuel m) = vsize (VDiag m) /\
  forall i, (i < vsize (VDiag m))%nat ->
    vden s (opt_mdiag true s fuel m) i = vden s (VDiag m) i.
Proof. exact opt_mdiag_sound. Qed.
Print Assumptions C01_opt_mdiag_sound.

Theorem C01_opt_mrange_sound : forall (s : env) (fuel : nat) (m : mexp) (a b c d : nat),
  mwf (MRange m a b c d) = true ->
  mwf (opt_mrange true s fuel m a b c d) = true /\
  mrows (opt_mrange true s fuel m a b c d) = mrows (MRange m a b c d) /\
  mcols (opt_mrange true s fuel m a b c d) = mcols (MRange m a b c d) /\
  forall i j, (i < mrows (MRange m a b c d))%nat -> (j < mcols (MRange m a b c d))%nat ->
    mden s (opt_mrange true s fuel m a b c d) i j = mden s (MRange m a b c d) i j.
Proof. exact opt_mrange_sound. Qed.
Print Assumptions C01_opt_mrange_sound.

Theorem C01_opt_mrows_sound : forall (s : env) (fuel : nat) (m : mexp) (a b : nat),
  mwf (MRows m a b) = true ->
  mwf (opt_mrows true s fuel m a b) = true /\
  mrows (opt_mrows true s fuel m a b) = mrows (MRows m a b) /\
  mcols (opt_mrows true s fuel m a b) = mcols (MRows m a b) /\
  forall i j, (i < mrows (MRows m a b))%nat -> (j < mcols (MRows m a b))%nat ->
    mden s (opt_mrows true s fuel m a b) i j = mden s (MRows m a b) i j.
Proof. exact opt_mrows_sound. Qed.
Print Assumptions C01_opt_mrows_sound.

Theorem C01_opt_vscale_sound : forall (s : env) (fuel : nat) (c : Z) (e : vexp),
  vwf (VScale c e) = true ->
  vwf (opt_vscale true s fuel c e) = true /\
  vsize (opt_vscale true s fuel c e) = vsize (VScale c e) /\
  forall i, (i < vsize (VScale c e))%nat ->
    vden s (opt_vscale true s fuel c e) i = vden s (VScale c e) i.
Proof. exact opt_vscale_sound. Qed.
Print Assumptions C01_opt_vscale_sound.

Theorem C01_opt_mscale_sound : forall (s : env) (fuel : nat) (c : Z) (m : mexp),
  mwf (MScale c m) = true ->
  mwf (opt_mscale true s fuel c m) = true /\
  mrows (opt_mscale true s fuel c m) = mrows (MScale c m) /\
  mcols (opt_mscale true s fuel c m) = mcols (MScale c m) /\
  forall i j, (i < mrows (MScale c m))%nat -> (j < mcols (MScale c m))%nat ->
    mden s (opt_mscale true s fuel c m) i j = mden s (MScale c m) i j.
Proof. exact opt_mscale_sound. Qed.
Print Assumptions C01_opt_mscale_sound.

Theorem C01_opt_mvprod_sound : forall (s : env) (fuel : nat) (m : mexp) (v : vexp),
  vwf (VMv 1 m v) = true ->
  vwf (opt_mvprod true s fuel m v) = true /\
  vsize (opt_mvprod true s fuel m v) = vsize (VMv 1 m v) /\
  forall i, (i < vsize (VMv 1 m v))%nat ->
    vden s (opt_mvprod true s fuel m v) i = vden s (VMv 1 m v) i.
Proof. exact opt_mvprod_sound. Qed.
Print Assumptions C01_opt_mvprod_sound.

Theorem C01_opt_mmprod_sound : forall (s : env) (fuel : nat) (m1 m2 : mexp),
  mwf (MProd 1 m1 m2) = true ->
  mwf (opt_mmprod true s fuel m1 m2) = true /\
  mrows (opt_mmprod true s fuel m1 m2) = mrows (MProd 1 m1 m2) /\
  mcols (opt_mmprod true s fuel m1 m2) = mcols (MProd 1 m1 m2) /\
  forall i j, (i < mrows (MProd 1 m1 m2))%nat -> (j < mcols (MProd 1 m1 m2))%nat ->
    mden s (opt_mmprod true s fuel m1 m2) i j = mden s (MProd 1 m1 m2) i j.
Proof. exact opt_mmprod_sound. Qed.
Print Assumptions C01_opt_mmprod_sound.

Theorem C01_opt_vunary_sound : forall (s : env) (e : vexp) (g : ufun),
  vwf (VUn g e) = true ->
  vwf (opt_vunary e g) = true /\
  vsize (opt_vunary e g) = vsize (VUn g e) /\
  forall i, (i < vsize (VUn g e))%nat -> vden s (opt_vunary e g) i = vden s (VUn g e) i.
Proof. exact opt_vunary_sound. Qed.
Print Assumptions C01_opt_vunary_sound.

Theorem C01_opt_munary_sound : forall (s : env) (m : mexp) (g : ufun),
  mwf (MUn g m) = true ->
  mwf (opt_munary m g) = true /\
  mrows (opt_munary m g) = mrows (MUn g m) /\
  mcols (opt_munary m g) = mcols (MUn g m) /\
  forall i j, (i < mrows (MUn g m))%nat -> (j < mcols (MUn g m))%nat ->
    mden s (opt_munary m g) i j = mden s (MUn g m) i j.
Proof. exact opt_munary_sound. Qed.
Print Assumptions C01_opt_munary_sound.

Theorem C01_opt_fold_set_sound : forall (s : env) (fuel : nat) (colmajor : bool) (k : fkind) (g : ufun) (m : mexp),
  let surface := VFold k g (if colmajor then MTrans m else m) in
  vwf surface = true ->
  vwf (opt_fold_set true s fuel colmajor k g m) = true /\
  vsize (opt_fold_set true s fuel colmajor k g m) = vsize surface /\
  forall i, (i < vsize surface)%nat ->
    vden s (opt_fold_set true s fuel colmajor k g m) i = vden s surface i.
Proof. exact opt_fold_set_sound. Qed.
Print Assumptions C01_opt_fold_set_sound.

Theorem C01_opt_vrange_fold_rows_variant_sound : forall (s : env) (fuel : nat) (k : fkind) (g : ufun) (m : mexp) (a b : nat),
  let surface := VRange (VFold k g m) a b in
  let r := VFold k g (opt_mrows true s fuel m a b) in
  vwf surface = true ->
  vwf r = true /\ vsize r = vsize surface /\
  forall i, (i < vsize surface)%nat -> vden s r i = vden s surface i.
Proof. exact opt_vrange_fold_rows_variant_sound. Qed.
Print Assumptions C01_opt_vrange_fold_rows_variant_sound.

Theorem C01_opt_vrange_mvprod_refuted :
  exists s fuel e a b i,
    vwf (VRange e a b) = true /\ (i < vsize (VRange e a b))%nat /\
    vden s (opt_vrange false s fuel e a b) i <> vden s (VRange e a b) i.
Proof. exact opt_vrange_mvprod_refuted. Qed.
Print Assumptions C01_opt_vrange_mvprod_refuted.

Theorem C01_opt_vrange_fold_refuted :
  exists s fuel e a b,
    vwf (VRange e a b) = true /\ vsize (opt_vrange false s fuel e a b) <> vsize (VRange e a b).
Proof. exact opt_vrange_fold_refuted. Qed.
Print Assumptions C01_opt_vrange_fold_refuted.

Theorem C01_opt_mtrans_mmprod_refuted :
  exists s fuel m i j,
    mwf (MTrans m) = true /\ (i < mrows (MTrans m))%nat /\ (j < mcols (MTrans m))%nat /\
    mden s (opt_mtrans false s fuel m) i j <> mden s (MTrans m) i j.
Proof. exact opt_mtrans_mmprod_refuted. Qed.
Print Assumptions C01_opt_mtrans_mmprod_refuted.

Theorem C01_opt_mrow_mmprod_refuted :
  exists s fuel m r i,
    vwf (VRow m r) = true /\ (i < vsize (VRow m r))%nat /\
    vden s (opt_mrow false s fuel m r) i <> vden s (VRow m r) i.
Proof. exact opt_mrow_mmprod_refuted. Qed.
Print Assumptions C01_opt_mrow_mmprod_refuted.

Theorem C01_opt_mrange_mmprod_refuted :
  exists s fuel m a b c d i j,
    mwf (MRange m a b c d) = true /\ (i < mrows (MRange m a b c d))%nat /\ (j < mcols (MRange m a b c d))%nat /\
    mden s (opt_mrange false s fuel m a b c d) i j <> mden s (MRange m a b c d) i j.
Proof. exact opt_mrange_mmprod_refuted. Qed.
Print Assumptions C01_opt_mrange_mmprod_refuted.

Theorem C01_opt_mrows_mmprod_refuted :
  exists s fuel m a b i j,
    mwf (MRows m a b) = true /\ (i < mrows (MRows m a b))%nat /\ (j < mcols (MRows m a b))%nat /\
    mden s (opt_mrows false s fuel m a b) i j <> mden s (MRows m a b) i j.
Proof. exact opt_mrows_mmprod_refuted. Qed.
Print Assumptions C01_opt_mrows_mmprod_refuted.

Theorem C01_opt_mrows_repeat_refuted :
  exists s fuel m a b i j,
    mwf (MRows m a b) = true /\
    mrows (opt_mrows false s fuel m a b) = mrows (MRows m a b) /\
    mcols (opt_mrows false s fuel m a b) = mcols (MRows m a b) /\
    (i < mrows (MRows m a b))%nat /\ (j < mcols (MRows m a b))%nat /\
    mden s (opt_mrows false s fuel m a b) i j <> mden s (MRows m a b) i j.
Proof. exact opt_mrows_repeat_refuted. Qed.
Print Assumptions C01_opt_mrows_repeat_refuted.

Theorem C01_opt_mrows_repeat_shape_refuted :
  exists s fuel m a b,
    mwf (MRows m a b) = true /\ mrows (opt_mrows false s fuel m a b) <> mrows (MRows m a b).
Proof. exact opt_mrows_repeat_shape_refuted. Qed.
Print Assumptions C01_opt_mrows_repeat_shape_refuted.

Theorem C01_opt_mrange_diag_shape_refuted :
  exists s fuel m a b c d,
    mwf (MRange m a b c d) = true /\
    (mrows (opt_mrange false s fuel m a b c d) <> mrows (MRange m a b c d) /\
     mcols (opt_mrange false s fuel m a b c d) <> mcols (MRange m a b c d)).
Proof. exact opt_mrange_diag_shape_refuted. Qed.
Print Assumptions C01_opt_mrange_diag_shape_refuted.

Theorem C01_opt_mrange_diag_refuted :
  exists s fuel m a b c d i j,
    mwf (MRange m a b c d) = true /\ (i < mrows (MRange m a b c d))%nat /\ (j < mcols (MRange m a b c d))%nat /\
    mden s (opt_mrange false s fuel m a b c d) i j <> mden s (MRange m a b c d) i j.
Proof. exact opt_mrange_diag_refuted. Qed.
Print Assumptions C01_opt_mrange_diag_refuted.

(* ---- rules whose result depends on the Orientation template parameter, for both orientations (C01OrientProofs.v).
   MRepeat cm e k: cm = false is vector_repeater<V,row_major> (k rows equal to e), cm = true vector_repeater<V,column_major>
   (k columns equal to e) *)
Theorem C01_opt_repeater_range_orientation :
  forall (s : env) (fuel : nat) (cm : bool) (e : vexp) (k a b c d : nat),
    (* the rule: Orientation::index_m selects the range applied to v, index_M the number of repetitions *)
    opt_mrange true s (S fuel) (MRepeat cm e k) a b c d =
      MRepeat cm (opt_vrange true s fuel e (if cm then a else c) (if cm then b else d)) (if cm then (d - c)%nat else (b - a)%nat) /\
    (mwf (MRange (MRepeat cm e k) a b c d) = true ->
     mrows (opt_mrange true s fuel (MRepeat cm e k) a b c d) = (b - a)%nat /\
     mcols (opt_mrange true s fuel (MRepeat cm e k) a b c d) = (d - c)%nat /\
     forall i j, (i < b - a)%nat -> (j < d - c)%nat ->
       mden s (opt_mrange true s fuel (MRepeat cm e k) a b c d) i j = vden s e (if cm then a + i else c + j)%nat).
Proof. intros. split; [apply opt_mrange_repeater_eq | apply opt_mrange_repeater_den]. Qed.
Print Assumptions C01_opt_repeater_range_orientation.

Theorem C01_opt_repeater_range_orientation_blind_refuted :
  exists (s0 : env) e k a b c d i j,
    mwf (MRange (MRepeat true e k) a b c d) = true /\ (i < b - a)%nat /\ (j < d - c)%nat /\
    mrows (MRepeat true (VRange e c d) (b - a)) <> mrows (MRange (MRepeat true e k) a b c d) /\
    mden s0 (MRepeat true (VRange e c d) (b - a)) i j <> mden s0 (MRange (MRepeat true e k) a b c d) i j /\
    (forall fuel, opt_mrange true s0 (S fuel) (MRepeat false e k) a b c d = MRepeat false (opt_vrange true s0 fuel e c d) (b - a)).
Proof. exact range_repeater_orientation_blind_refuted. Qed.
Print Assumptions C01_opt_repeater_range_orientation_blind_refuted.

Theorem C01_opt_repeater_rows_row_orientation :
  forall (s : env) (fuel : nat) (cm : bool) (e : vexp) (k a b r : nat),
    opt_mrows true s (S fuel) (MRepeat cm e k) a b =
      (if cm then MRepeat true (opt_vrange true s fuel e a b) k else MRepeat false e (b - a)) /\
    opt_mrow true s (S fuel) (MRepeat cm e k) r = (if cm then VConst k (vden s e r) else e) /\
    (mwf (MRows (MRepeat cm e k) a b) = true ->
     mrows (opt_mrows true s fuel (MRepeat cm e k) a b) = (b - a)%nat /\
     mcols (opt_mrows true s fuel (MRepeat cm e k) a b) = (if cm then k else vsize e) /\
     forall i j, (i < b - a)%nat -> (j < (if cm then k else vsize e))%nat ->
       mden s (opt_mrows true s fuel (MRepeat cm e k) a b) i j = vden s e (if cm then a + i else j)%nat) /\
    (vwf (VRow (MRepeat cm e k) r) = true ->
     vsize (opt_mrow true s fuel (MRepeat cm e k) r) = (if cm then k else vsize e) /\
     forall j, (j < (if cm then k else vsize e))%nat ->
       vden s (opt_mrow true s fuel (MRepeat cm e k) r) j = vden s e (if cm then r else j)).
Proof.
  intros. split; [apply opt_mrows_repeater_eq|]. split; [apply opt_mrow_repeater_eq|].
  split; [apply opt_mrows_repeater_den | apply opt_mrow_repeater_den].
Qed.
Print Assumptions C01_opt_repeater_rows_row_orientation.

Theorem C01_opt_repeater_trans_diag_scale_orientation :
  forall (s : env) (fuel : nat) (cm : bool) (c : Z) (e : vexp) (k : nat),
    opt_mtrans true s (S fuel) (MRepeat cm e k) = MRepeat (negb cm) e k /\
    opt_mscale true s (S fuel) c (MRepeat cm e k) = MRepeat cm (opt_vscale true s fuel c e) k /\
    (vwf e = true ->
     vsize (opt_mdiag true s fuel (MRepeat cm e k)) = Nat.min (vsize e) k /\
     forall i, (i < Nat.min (vsize e) k)%nat -> vden s (opt_mdiag true s fuel (MRepeat cm e k)) i = vden s e i).
Proof.
  intros. split; [apply opt_mtrans_repeater_eq|]. split; [apply opt_mscale_repeater_eq | apply opt_mdiag_repeater_den].
Qed.
Print Assumptions C01_opt_repeater_trans_diag_scale_orientation.

Theorem C01_opt_repeater_mvprod_orientation :
  forall (s : env) (fuel : nat) (cm : bool) (e : vexp) (k : nat) (v : vexp),
    ((forall c w, v <> VScale c w) ->
     opt_mvprod true s (S fuel) (MRepeat cm e k) v = if cm then VScale (sum_at s v) e else VConst k (inner_at s e v)) /\
    (vwf (VMv 1 (MRepeat cm e k) v) = true ->
     forall i, (i < (if cm then vsize e else k))%nat ->
       vden s (opt_mvprod true s fuel (MRepeat cm e k) v) i =
       if cm then vden s e i * sumn (vsize v) (vden s v) else sumn (vsize v) (fun j => vden s e j * vden s v j)).
Proof. intros. split; [apply opt_mvprod_repeater_eq | apply opt_mvprod_repeater_den]. Qed.
Print Assumptions C01_opt_repeater_mvprod_orientation.

(* the premises are satisfiable: a column-major repeater of a 4-vector, 3 repetitions, an off-diagonal non-square block *)
Example C01_opt_repeater_orientation_examples :
  mwf (MRange (MRepeat true (VVar 0 4) 3) 1 4 0 2) = true /\
  mwf (MRows (MRepeat true (VVar 0 4) 3) 1 3) = true /\ vwf (VRow (MRepeat false (VVar 0 4) 3) 2) = true /\
  vwf (VMv 1 (MRepeat true (VVar 0 4) 3) (VVar 1 3)) = true /\
  opt_mrange true empty_env 5 (MRepeat true (VVar 0 4) 3) 1 4 0 2 = MRepeat true (VRange (VVar 0 4) 1 4) 2 /\
  opt_mrange true empty_env 5 (MRepeat false (VVar 0 4) 3) 1 3 0 2 = MRepeat false (VRange (VVar 0 4) 0 2) 2.
Proof. repeat split. Qed.

(* ======================================================================================================
   SPARSE STORAGE AND KERNELS (C01SparseModel.v; run next to harness/c01_sparse.cpp on every check)
   ====================================================================================================== *)

(* BaseSparseVector::set_element at a legal iterator position keeps the storage invariant (indices strictly
   increasing and below size, nnz <= capacity), returns the position behind the element, never shrinks the capacity,
   and changes the denotation at exactly one index *)
Theorem C01_sparse_set_element_correct : forall (v : svec) (pos idx : nat) (x : Z),
  sv_inv v -> pos_ok v pos idx ->
  let v' := fst (sv_set_element v pos idx x) in
  sv_inv v' /\ snd (sv_set_element v pos idx x) = S pos /\ sv_size v' = sv_size v /\
  (sv_cap v <= sv_cap v')%nat /\
  (forall i, sden v' i = if (i =? idx)%nat then x else sden v i) /\
  (forall i, stored v' i = (i =? idx)%nat || stored v i).
Proof. exact set_element_correct. Qed.
Print Assumptions C01_sparse_set_element_correct.

Theorem C01_sparse_reserve_clear_inv : forall (v : svec) (n a b : nat), sv_inv v ->
  (sv_inv (sv_reserve v n) /\ sv_el (sv_reserve v n) = sv_el v /\ (n <= sv_cap (sv_reserve v n))%nat) /\
  ((a <= b)%nat -> sv_inv (sv_clear_range v a b)) /\
  (sv_inv (sv_clear v) /\ sv_el (sv_clear v) = [] /\ sv_cap (sv_clear v) = sv_cap v).
Proof.
  intros v n a b H. split; [|split].
  - destruct (reserve_correct v n H) as (A & B & _ & C). auto.
  - intros L. apply clear_range_inv; auto.
  - destruct (clear_correct v H) as (A & B & _ & C). auto.
Qed.
Print Assumptions C01_sparse_reserve_clear_inv.

(* plain assignment kernels (vector_assign): sparse <- sparse, dense <- sparse, sparse <- dense *)
Theorem C01_sparse_assign_ss_correct : forall v e : svec,
  sv_inv v -> sv_inv e -> sv_size v = sv_size e ->
  let r := k_assign_ss v e in
  sv_inv r /\ sv_size r = sv_size v /\ sv_el r = sv_el e /\ (forall i, sden r i = sden e i).
Proof. exact assign_ss_correct. Qed.
Print Assumptions C01_sparse_assign_ss_correct.

Theorem C01_sparse_assign_ds_correct : forall (d : dvec) (e : svec),
  sv_inv e -> length d = sv_size e ->
  length (k_assign_ds d e) = length d /\ (forall i, dden (k_assign_ds d e) i = sden e i).
Proof. exact assign_ds_correct. Qed.
Print Assumptions C01_sparse_assign_ds_correct.

Theorem C01_sparse_assign_sd_correct : forall (v : svec) (e : dvec),
  sv_inv v -> sv_size v = length e ->
  let r := k_assign_sd v e in
  sv_inv r /\ sv_size r = sv_size v /\ sv_nnz r = length e /\
  (forall i, (i < length e)%nat -> stored r i = true) /\
  (forall i, sden r i = dden e i).
Proof. exact assign_sd_correct. Qed.
Print Assumptions C01_sparse_assign_sd_correct.

(* functor kernels (vector_assign_functor), for EVERY functor f : Z -> Z -> Z.
   dense <- sparse (as repaired by c4c2dce0): every position gets f(target_i, source_i), also the positions without
   stored counterpart; a functor that declares right_zero_identity must really satisfy f(x,0) = x *)
Theorem C01_sparse_fun_ds_correct : forall (f : Z -> Z -> Z) (rzi : bool) (d : dvec) (e : svec),
  sv_inv e -> length d = sv_size e -> (rzi = true -> forall x, f x 0 = x) ->
  length (k_fun_ds f rzi d e) = length d /\
  forall i, (i < length d)%nat -> dden (k_fun_ds f rzi d e) i = f (dden d i) (sden e i).
Proof. exact fun_ds_correct. Qed.
Print Assumptions C01_sparse_fun_ds_correct.

(* sparse <- dense (as repaired by 245464d7): every index becomes stored with f(target_i, source_i) *)
Theorem C01_sparse_fun_sd_correct : forall (f : Z -> Z -> Z) (v : svec) (e : dvec),
  sv_inv v -> sv_size v = length e ->
  let r := k_fun_sd true f v e in
  sv_inv r /\ sv_size r = sv_size v /\
  (forall i, (i < length e)%nat -> stored r i = true /\ sden r i = f (sden v i) (dden e i)).
Proof. exact fun_sd_correct. Qed.
Print Assumptions C01_sparse_fun_sd_correct.

(* sparse <- sparse (as repaired by 88237f8b): the stored set becomes the union; an index stored on either side gets
   f(target_i, source_i) (with 0 for the missing side); an index stored on NEITHER side is not visited and stays 0 -
   this is the element-wise meaning exactly when f(0,0) = 0 (true for + - * and multiply_and_add; false e.g. for
   x + g(y) with g(0) <> 0, which the code silently treats as if g(0) were 0 on those positions) *)
Theorem C01_sparse_fun_ss_correct : forall (f : Z -> Z -> Z) (v e : svec),
  sv_inv v -> sv_inv e -> sv_size v = sv_size e ->
  let r := k_fun_ss true f v e in
  sv_inv r /\ sv_size r = sv_size v /\
  (forall i, stored r i = stored v i || stored e i) /\
  (forall i, sden r i = if stored v i || stored e i then f (sden v i) (sden e i) else 0) /\
  (f 0 0 = 0 -> forall i, sden r i = f (sden v i) (sden e i)).
Proof. exact fun_ss_correct. Qed.
Print Assumptions C01_sparse_fun_ss_correct.

(* the stored sequence produced by the sparse <- sparse functor kernel is the merge of the two stored sequences
   (the same function the matrix kernel uses for its temporary `elements` vector) *)
Theorem C01_sparse_fun_ss_is_merge : forall (f : Z -> Z -> Z) (v e : svec),
  sv_el (k_fun_ss true f v e) = C01SparseMatModel.merge_el f (sv_el v) (sv_el e).
Proof. intros f v e. exact (proj1 (k_fun_ss_elems f v e)). Qed.
Print Assumptions C01_sparse_fun_ss_is_merge.

(* scalar forms x op= t on a sparse target visit the stored elements only (NOT the element-wise meaning of x_i op t
   unless g(0) = 0) *)
Theorem C01_sparse_scalar_stored_only : forall (g : Z -> Z) (v : svec),
  sv_inv v -> sv_inv (k_apply_s g v) /\
  (forall i, stored (k_apply_s g v) i = stored v i) /\
  (forall i, sden (k_apply_s g v) i = if stored v i then g (sden v i) else 0).
Proof. exact apply_s_correct. Qed.
Print Assumptions C01_sparse_scalar_stored_only.

(* the two kernels as they were before 88237f8b / 245464d7 violate the element-wise meaning on the inputs that
   exposed the defects: x = {1:5, 3:7}, y = {0:2, 3:4, 5:9} (size 6), x += y; and x *= (1,2,3,4,5,6) *)
Theorem C01_sparse_fun_ss_before_repair_refuted :
  sv_inv wit_x /\ sv_inv wit_y /\
  sden (k_fun_ss false Z.add wit_x wit_y) 5 = 0 /\ Z.add (sden wit_x 5) (sden wit_y 5) = 9 /\
  sden (k_fun_ss true Z.add wit_x wit_y) 5 = 9.
Proof. exact fun_ss_before_repair_refuted. Qed.
Print Assumptions C01_sparse_fun_ss_before_repair_refuted.

Theorem C01_sparse_fun_sd_before_repair_refuted :
  sv_inv wit_x /\
  sden (k_fun_sd false Z.mul wit_x [1; 2; 3; 4; 5; 6]) 0 = 1 /\ Z.mul (sden wit_x 0) 1 = 0 /\
  sden (k_fun_sd true Z.mul wit_x [1; 2; 3; 4; 5; 6]) 0 = 0.
Proof. exact fun_sd_before_repair_refuted. Qed.
Print Assumptions C01_sparse_fun_sd_before_repair_refuted.

(* the premises are satisfiable: an empty vector of size 0, a full one, and a legal insertion position *)
Example C01_sparse_wf_examples :
  sv_inv (sv_empty 0) /\ sv_inv (sv_empty 7) /\ sv_inv (mkSV 2 2 [(0%nat, 3); (1%nat, 0)]) /\
  sv_inv wit_x /\ pos_ok wit_x 1 2 /\ pos_ok wit_x 2 5 /\ pos_ok (sv_empty 3) 0 2.
Proof.
  repeat split; try (vm_compute; repeat split; auto; lia);
    try (intros e H; vm_compute in H; repeat (destruct H as [<-|H]; [cbn; lia|]); destruct H).
Qed.

(* ======================================================================================================
   COMPRESSED MATRIX STORAGE AND KERNELS (C01SparseMatModel.v).  Coordinates are (major line, minor index): rows and
   columns for row_major, columns and rows for column_major; "same"/"cross" = source has the target's / the opposite
   orientation.
   ====================================================================================================== *)
(* compressed_matrix_impl::set_element at a legal position of line i: invariant (every line sorted and below the minor
   size, line nnz <= line capacity, sum of line capacities = nnz_reserved <= nnz_capacity) kept, one entry changed *)
Theorem C01_sparse_matrix_set_element_correct : forall (m : smat) (i p idx : nat) (x : Z),
  sm_inv m -> (i < sm_major m)%nat -> pos_ok (sm_row m i) p idx ->
  let m' := fst (sm_set_element m i p idx x) in
  sm_inv m' /\ sm_major m' = sm_major m /\ sm_minor m' = sm_minor m /\ (sm_cap m <= sm_cap m')%nat /\
  snd (sm_set_element m i p idx x) = S p /\
  (forall a b, smden m' a b = if (a =? i)%nat && (b =? idx)%nat then x else smden m a b) /\
  (forall a b, smstored m' a b = (a =? i)%nat && (b =? idx)%nat || smstored m a b).
Proof. exact sm_set_element_correct. Qed.
Print Assumptions C01_sparse_matrix_set_element_correct.

Theorem C01_sparse_matrix_reserve_clear_correct : forall (m : smat) (i n : nat) (ex : bool),
  sm_inv m ->
  ((i < sm_major m)%nat ->
     let m' := sm_major_reserve m i n ex in
     sm_inv m' /\ sm_major m' = sm_major m /\ sm_minor m' = sm_minor m /\
     (Nat.min (sm_minor m) n <= sv_cap (sm_row m' i))%nat /\ (forall a, sv_el (sm_row m' a) = sv_el (sm_row m a))) /\
  (sm_inv (sm_clear m) /\ sm_major (sm_clear m) = sm_major m /\ sm_minor (sm_clear m) = sm_minor m /\
   (forall a b, smden (sm_clear m) a b = 0)).
Proof. intros m i n ex H. split; [intros L; exact (sm_major_reserve_correct m i n ex H L) | exact (sm_clear_correct m H)]. Qed.
Print Assumptions C01_sparse_matrix_reserve_clear_correct.

(* plain assignment between compressed matrices: same orientation copies the stored sequences line by line,
   opposite orientation (collect, sort, write group by group) yields the transposed coordinates *)
Theorem C01_sparse_matrix_assign_same_correct : forall m e : smat,
  sm_inv m -> sm_inv e -> sm_major m = sm_major e -> sm_minor m = sm_minor e ->
  let r := km_assign_same m e in
  sm_inv r /\ sm_major r = sm_major m /\ sm_minor r = sm_minor m /\
  (forall i, (i < sm_major m)%nat -> sv_el (sm_row r i) = sv_el (sm_row e i)) /\
  (forall i j, (i < sm_major m)%nat -> smden r i j = smden e i j).
Proof. exact km_assign_same_correct. Qed.
Print Assumptions C01_sparse_matrix_assign_same_correct.

Theorem C01_sparse_matrix_assign_cross_correct : forall m e : smat,
  sm_inv m -> sm_inv e -> sm_major e = sm_minor m -> sm_minor e = sm_major m ->
  let r := km_assign_cross m e in
  sm_inv r /\ sm_major r = sm_major m /\ sm_minor r = sm_minor m /\
  (forall i j, (i < sm_major m)%nat -> smstored r i j = smstored e j i /\ smden r i j = smden e j i).
Proof. exact km_assign_cross_correct. Qed.
Print Assumptions C01_sparse_matrix_assign_cross_correct.

(* functor kernels between compressed matrices, every functor f: stored set = union, f(target,source) wherever
   something is stored on either side, untouched zero elsewhere (= the element-wise meaning iff f(0,0) = 0) *)
Theorem C01_sparse_matrix_fun_same_correct : forall (f : Z -> Z -> Z) (m e : smat),
  sm_inv m -> sm_inv e -> sm_major m = sm_major e -> sm_minor m = sm_minor e ->
  let r := km_fun_same f m e in
  sm_inv r /\ sm_major r = sm_major m /\ sm_minor r = sm_minor m /\
  (forall i, (i < sm_major m)%nat -> sv_el (sm_row r i) = merge_el f (sv_el (sm_row m i)) (sv_el (sm_row e i))) /\
  (forall i j, (i < sm_major m)%nat ->
     smstored r i j = smstored m i j || smstored e i j /\
     smden r i j = if smstored m i j || smstored e i j then f (smden m i j) (smden e i j) else 0) /\
  (f 0 0 = 0 -> forall i j, (i < sm_major m)%nat -> smden r i j = f (smden m i j) (smden e i j)).
Proof. exact km_fun_same_correct. Qed.
Print Assumptions C01_sparse_matrix_fun_same_correct.

Theorem C01_sparse_matrix_fun_cross_correct : forall (f : Z -> Z -> Z) (m e : smat),
  sm_inv m -> sm_inv e -> sm_major e = sm_minor m -> sm_minor e = sm_major m ->
  let r := km_fun_cross f m e in
  sm_inv r /\ sm_major r = sm_major m /\ sm_minor r = sm_minor m /\
  (forall i j, (i < sm_major m)%nat ->
     smstored r i j = smstored m i j || smstored e j i /\
     smden r i j = if smstored m i j || smstored e j i then f (smden m i j) (smden e j i) else 0) /\
  (f 0 0 = 0 -> forall i j, (i < sm_major m)%nat -> smden r i j = f (smden m i j) (smden e j i)).
Proof. exact km_fun_cross_correct. Qed.
Print Assumptions C01_sparse_matrix_fun_cross_correct.

(* dense matrix <- compressed matrix, plain and with every functor, both relative orientations: the full element-wise
   meaning, also where the source stores nothing (c4c2dce0) *)
Theorem C01_sparse_matrix_dense_target_same_correct : forall (f : Z -> Z -> Z) (rzi : bool) (d : dmat) (e : smat),
  sm_inv e -> dshape d (sm_major e) (sm_minor e) -> (rzi = true -> forall x, f x 0 = x) ->
  (dshape (km_assign_ds_same d e) (sm_major e) (sm_minor e) /\
   forall i j, (i < sm_major e)%nat -> dmden (km_assign_ds_same d e) i j = smden e i j) /\
  (dshape (km_fun_ds_same f rzi d e) (sm_major e) (sm_minor e) /\
   forall i j, (i < sm_major e)%nat -> (j < sm_minor e)%nat ->
               dmden (km_fun_ds_same f rzi d e) i j = f (dmden d i j) (smden e i j)).
Proof. exact km_ds_same_correct. Qed.
Print Assumptions C01_sparse_matrix_dense_target_same_correct.

Theorem C01_sparse_matrix_dense_target_cross_correct : forall (f : Z -> Z -> Z) (rzi : bool) (d : dmat) (e : smat),
  sm_inv e -> dshape d (sm_minor e) (sm_major e) -> (rzi = true -> forall x, f x 0 = x) ->
  (dshape (km_assign_ds_cross d e) (sm_minor e) (sm_major e) /\
   forall i j, (i < sm_minor e)%nat -> (j < sm_major e)%nat -> dmden (km_assign_ds_cross d e) i j = smden e j i) /\
  (dshape (km_fun_ds_cross f rzi d e) (sm_minor e) (sm_major e) /\
   forall i j, (i < sm_minor e)%nat -> (j < sm_major e)%nat ->
               dmden (km_fun_ds_cross f rzi d e) i j = f (dmden d i j) (smden e j i)).
Proof. exact km_ds_cross_correct. Qed.
Print Assumptions C01_sparse_matrix_dense_target_cross_correct.

(* satisfiable premises: empty matrices of every shape incl. 0 x 3 and 3 x 0, and a filled 2 x 3 one *)
Example C01_sparse_matrix_wf_examples :
  sm_inv (sm_empty 0 3) /\ sm_inv (sm_empty 3 0) /\ sm_inv (sm_empty 1 1) /\
  sm_inv (sm_put (sm_put (sm_put (sm_empty 2 3) 1 2 5) 0 1 (-1)) 1 0 7) /\
  smden (sm_put (sm_put (sm_put (sm_empty 2 3) 1 2 5) 0 1 (-1)) 1 0 7) 1 2 = 5 /\
  dshape [[1; 2; 3]; [4; 5; 6]] 2 3.
Proof.
  split; [apply sm_empty_inv|]. split; [apply sm_empty_inv|]. split; [apply sm_empty_inv|].
  split; [apply sm_invb_spec_ex; vm_compute; reflexivity|]. split; [vm_compute; reflexivity|].
  split; [reflexivity|]. intros row [<-|[<-|[]]]; reflexivity.
Qed.

(* ======================================================================================================
   SPARSE EXPRESSIONS as right-hand sides (C01SparseExpr.v): a+b (union iterator), c*a, a*b (intersection iterator),
   abs/sqr, unit_vector over sparse operands.  The sequence the expression's iterator yields is strictly increasing,
   below the size, and denotes the documented element-wise value; as a source operand it therefore satisfies the
   premises of every kernel theorem above (sv_inv, sden = sx_den).
   ====================================================================================================== *)
Theorem C01_sparse_expression_iterator_correct : forall (n : nat) (env : nat -> list (nat * Z)) (e : sxv),
  (forall id, sorted_in 0 n (env id)) -> sx_wf n e = true ->
  sorted_in 0 n (sx_stream true env e) /\
  (forall i, oz (lookup i (sx_stream true env e)) = sx_den env e i) /\
  sv_inv (sx_source true n env e) /\ sv_size (sx_source true n env e) = n /\
  (forall i, sden (sx_source true n env e) i = sx_den env e i).
Proof.
  intros n env e H W. destruct (sx_stream_correct n env e H W) as (A & B).
  destruct (sx_source_correct n env e H W) as (C & D & E). auto.
Qed.
Print Assumptions C01_sparse_expression_iterator_correct.

(* binary_transform_iterator before 32ed6769: {} + {2:-1, 3:-4} yields {0:0, 3:-4} *)
Theorem C01_sparse_expression_add_before_repair_refuted :
  let env := fun id : nat => match id with 0%nat => [] | _ => [(2%nat, -1); (3%nat, -4)] end in
  (forall id, sorted_in 0 6 (env id)) /\
  sx_stream false env (SXAdd (SXRef 0) (SXRef 1)) = [(0%nat, 0); (3%nat, -4)] /\
  oz (lookup 2 (sx_stream false env (SXAdd (SXRef 0) (SXRef 1)))) = 0 /\
  sx_den env (SXAdd (SXRef 0) (SXRef 1)) 2 = -1 /\
  sx_stream true env (SXAdd (SXRef 0) (SXRef 1)) = [(2%nat, -1); (3%nat, -4)].
Proof. exact sx_add_before_repair_refuted. Qed.
Print Assumptions C01_sparse_expression_add_before_repair_refuted.

(* ======================================================================================================
   DENSE BLOCKED KERNELS for operands of opposite orientation (C01BlockModel.v: the loop nest of
   matrix_assign / matrix_assign_functor (row_major, column_major, dense, dense) as coded - block loops with partial
   last blocks, transposed fill of the block buffer, write-back): for EVERY block size >= 1 (the code uses 8 and 16),
   every shape incl. 0 x k and shapes that are not multiples of the block size, every functor and every initial
   content of the block buffer, the result is f(m(i,j), e(i,j)) inside the shape and m outside.
   ====================================================================================================== *)
Theorem C01_dense_blocked_kernel_correct :
  forall (bs : nat) (f : Z -> Z -> Z) (size1 size2 : nat) (e m : fmat), (1 <= bs)%nat ->
  forall a b, blk_kernel bs f size1 size2 e m a b =
              if (a <? size1)%nat && (b <? size2)%nat then f (m a b) (e a b) else m a b.
Proof. exact blk_kernel_correct. Qed.
Print Assumptions C01_dense_blocked_kernel_correct.

Example C01_dense_blocked_kernel_examples :
  blk_kernel 16%nat Z.add 17%nat 3%nat (fun i j => Z.of_nat (i + j)) (fun i j => Z.of_nat (i * j)) 16%nat 2%nat = 50 /\
  blk_kernel 8%nat (fun _ y => y) 0%nat 5%nat (fun _ _ => 7) (fun _ _ => 1) 0%nat 0%nat = 1 /\
  blk_kernel 2%nat Z.mul 3%nat 3%nat (fun i j => Z.of_nat (i + 1)) (fun i j => Z.of_nat (j + 1)) 2%nat 2%nat = 9.
Proof. repeat split; vm_compute; reflexivity. Qed.

(* ======================================================================================================
   TRIANGULAR PRODUCTS.  triangular_prod<lower|upper|unit_lower|unit_upper>(A, v) resp. (A, B) is
   prod(to_triangular(A, tag), .) in C++ and VMv alpha (MTri upper unit A) v resp. MProd alpha (MTri upper unit A) B
   in the model (constructor MTri of C01Model.v).  All assignment theorems above (the C01_assign_... theorems) quantify over every
   vexp / mexp and therefore cover these right-hand sides - plain, compound and noalias forms, any scalar factor;
   the optimiser table has no rule for triangular proxies (checked structurally by tools/c01_rules.py) and treats the
   node as an opaque product.  The denotation is the product with the named triangle, unit diagonal for the unit tags:
   ====================================================================================================== *)
Theorem C01_triangular_prod_meaning :
  forall (s : env) (alpha : Z) (upper unit : bool) (A : mexp) (v : vexp) (B : mexp) (i j : nat),
    let t := fun a b => if (a =? b)%nat then (if unit then 1 else mden s A a b)
                        else if (if upper then (a <? b)%nat else (b <? a)%nat) then mden s A a b else 0 in
    vden s (VMv alpha (MTri upper unit A) v) i = alpha * sumn (mcols A) (fun k => t i k * vden s v k) /\
    mden s (MProd alpha (MTri upper unit A) B) i j = alpha * sumn (mcols A) (fun k => t i k * mden s B k j) /\
    (vwf (VMv alpha (MTri upper unit A) v) = mwf A && (mrows A =? mcols A)%nat && vwf v && (mcols A =? vsize v)%nat).
Proof. intros. repeat split. Qed.
Print Assumptions C01_triangular_prod_meaning.

(* the compound alias-free form with a scalar factor, spelled out for a triangular right-hand side *)
Theorem C01_assign_noalias_triangular_correct :
  forall (s : env) (o : aop) (x y : nat) (n : nat) (A : nat) (c : Z) (upper unit : bool), x <> y ->
    let t := VVar x n in
    let e := VScale c (VMv 1 (MTri upper unit (MVar A n n)) (VVar y n)) in
    let s' := exec s (SAssignV true o t e) in
    (forall i, (i < n)%nat -> vden s' t i = combine_op o (vden s t i) (vden s e i)) /\
    (forall a, ~ In a (vcells t) -> rd s' a = rd s a).
Proof.
  intros s o x y n A c upper unit Hxy t e.
  apply (C01_assign_noalias_correct_vector s o t e); [reflexivity|].
  cbn. destruct (Nat.eqb_spec y x); [congruence|reflexivity].
Qed.
Print Assumptions C01_assign_noalias_triangular_correct.

Example C01_triangular_examples :
  let s := mkEnv (fun _ i => Z.of_nat i + 1) (fun _ i j => Z.of_nat (3 * i + j) + 1) in   (* A = [1 2 3; 4 5 6; 7 8 9], v = (1,2,3) *)
  vden s (VMv 1 (MTri false false (MVar 0 3 3)) (VVar 0 3)) 2 = 7 * 1 + 8 * 2 + 9 * 3 /\
  vden s (VMv 2 (MTri true true (MVar 0 3 3)) (VVar 0 3)) 0 = 2 * (1 * 1 + 2 * 2 + 3 * 3) /\
  vwf (VMv 1 (MTri false true (MVar 0 3 3)) (VVar 0 3)) = true /\
  stmt_ok (SAssignV true OpSub (VVar 1 3) (VMv 1 (MTri true false (MVar 0 3 3)) (VVar 0 3))) = true.
Proof. repeat split. Qed.
