(* C01 — Linear-algebra (remora) expressions evaluate to their element-wise mathematical meaning.
   Only statements + `exact`; proofs are in C01Proofs.v, definitions in C01Model.v / C01Opt.v.

   PROVED here (for all expression trees, all shapes incl. 0/1-sized and non-square, all target proxy
   chains; arithmetic over Z):
     * the plain and compound forms  t (=|+=|-=|*=|/=) e  and  t o= c : every target cell becomes
       op(old target cell, value of e in the PRE-state), even when the target occurs in e, and every
       cell outside the target is unchanged;
     * the noalias forms coincide with the plain forms when the target's container does not occur in e
       (the model's noalias loop reads the CURRENT store while writing, as kernels::assign does);
     * max/min (and thus norm_inf) return an attained bound for every non-empty operand; sum, norms,
       trace, inner_prod are finite sums of the denotation;
   NOT YET PROVED here (in progress, coq/wip/C01OptProofs.v): that the rewrite rules of
   detail/expression_optimizers.hpp (C01Opt.v, one arm per C++ specialisation; tied structurally to the header by
   tools/c01_rules.py on every run) preserve shape and element-wise denotation.  Their effect is covered by the
   correspondence run (the C++ applies them, the extracted interpreter does not) until the theorems land.
   COMPARED / MONITORED only (tools/c01.py): that the C++ implements this model — generated programs,
   exact comparison of compiled C++ (long/double, default kernels and CBLAS) against the extracted
   interpreter and an independent evaluator; dense block kernels, OpenBLAS, sparse containers.
   `vden`/`mden` ARE the documented meaning (quickref/remora.rst), written as Gallina. *)
From Coq Require Import ZArith List Bool Arith Lia.
From SharkV Require Import C01Model C01Proofs.
Import ListNotations.
Open Scope Z_scope.

(* plain / compound assignment to a vector target (container or proxy chain), aliasing allowed *)
Theorem C01_assign_plain_correct_vector :
  forall (s : env) (o : aop) (t e : vexp), vlval t = true ->
    let s' := exec s (SAssignV false o t e) in
    (forall i, (i < vsize t)%nat -> vden s' t i = combine_op o (vden s t i) (vden s e i)) /\
    (forall a, ~ In a (vcells t) -> rd s' a = rd s a).
Proof. exact assign_plain_v. Qed.
Print Assumptions C01_assign_plain_correct_vector.

Theorem C01_assign_plain_correct_matrix :
  forall (s : env) (o : aop) (t e : mexp), mlval t = true ->
    let s' := exec s (SAssignM false o t e) in
    (forall i j, (i < mrows t)%nat -> (j < mcols t)%nat ->
        mden s' t i j = combine_op o (mden s t i j) (mden s e i j)) /\
    (forall a, ~ In a (mcells t) -> rd s' a = rd s a).
Proof. exact assign_plain_m. Qed.
Print Assumptions C01_assign_plain_correct_matrix.

Theorem C01_assign_scalar_correct_vector :
  forall (s : env) (o : aop) (t : vexp) (c : Z), vlval t = true ->
    let s' := exec s (SScalarV o t c) in
    (forall i, (i < vsize t)%nat -> vden s' t i = combine_op o (vden s t i) c) /\
    (forall a, ~ In a (vcells t) -> rd s' a = rd s a).
Proof. exact assign_scalar_v. Qed.
Print Assumptions C01_assign_scalar_correct_vector.

Theorem C01_assign_scalar_correct_matrix :
  forall (s : env) (o : aop) (t : mexp) (c : Z), mlval t = true ->
    let s' := exec s (SScalarM o t c) in
    (forall i j, (i < mrows t)%nat -> (j < mcols t)%nat -> mden s' t i j = combine_op o (mden s t i j) c) /\
    (forall a, ~ In a (mcells t) -> rd s' a = rd s a).
Proof. exact assign_scalar_m. Qed.
Print Assumptions C01_assign_scalar_correct_matrix.

(* noalias forms: the in-place loop gives the same store as the temporary semantics whenever the
   target's container is not mentioned on the right-hand side (disjointness at container level; the
   finer statement "target cells disjoint from the cells read" is not proved) *)
Theorem C01_assign_noalias_correct_vector :
  forall (s : env) (o : aop) (t e : vexp), vlval t = true -> vuses (vaddr t 0) e = false ->
    let s' := exec s (SAssignV true o t e) in
    (forall i, (i < vsize t)%nat -> vden s' t i = combine_op o (vden s t i) (vden s e i)) /\
    (forall a, ~ In a (vcells t) -> rd s' a = rd s a).
Proof. intros s o t e L U. rewrite (assign_noalias_v s o t e L U). exact (assign_plain_v s o t e L). Qed.
Print Assumptions C01_assign_noalias_correct_vector.

Theorem C01_assign_noalias_correct_matrix :
  forall (s : env) (o : aop) (t e : mexp), mlval t = true -> muses (maddr t 0 0) e = false ->
    let s' := exec s (SAssignM true o t e) in
    (forall i j, (i < mrows t)%nat -> (j < mcols t)%nat ->
        mden s' t i j = combine_op o (mden s t i j) (mden s e i j)) /\
    (forall a, ~ In a (mcells t) -> rd s' a = rd s a).
Proof. intros s o t e L U. rewrite (assign_noalias_m s o t e L U). exact (assign_plain_m s o t e L). Qed.
Print Assumptions C01_assign_noalias_correct_matrix.

(* distinct indices of a target proxy chain address distinct cells (no cell is written twice) *)
Theorem C01_target_cells_distinct :
  (forall t, vlval t = true -> NoDup (vcells t)) /\ (forall t, mlval t = true -> NoDup (mcells t)).
Proof. split; [exact vcells_NoDup | exact mcells_NoDup]. Qed.
Print Assumptions C01_target_cells_distinct.

(* reductions: max / min / norm_inf of a non-empty operand are attained bounds; shapes 1 included *)
Theorem C01_reduction_correct :
  forall (s : env) (e : vexp), (0 < vsize e)%nat ->
    ((forall i, (i < vsize e)%nat -> vden s e i <= seval s (RMax e)) /\
     (exists i, (i < vsize e)%nat /\ seval s (RMax e) = vden s e i)) /\
    ((forall i, (i < vsize e)%nat -> seval s (RMin e) <= vden s e i) /\
     (exists i, (i < vsize e)%nat /\ seval s (RMin e) = vden s e i)) /\
    ((forall i, (i < vsize e)%nat -> Z.abs (vden s e i) <= seval s (RNormInf e)) /\
     (exists i, (i < vsize e)%nat /\ seval s (RNormInf e) = Z.abs (vden s e i))).
Proof.
  intros s e H. split; [|split].
  - exact (maxn_spec (vsize e) (vden s e) H).
  - exact (minn_spec (vsize e) (vden s e) H).
  - exact (maxn_spec (vsize e) (fun i => Z.abs (vden s e i)) H).
Qed.
Print Assumptions C01_reduction_correct.

(* sum-type reductions are the documented finite sums, for every size including 0 *)
Theorem C01_reduction_sums :
  forall (s : env) (e e2 : vexp) (m : mexp),
    seval s (RSum e) = sumn (vsize e) (vden s e) /\
    seval s (RNorm1 e) = sumn (vsize e) (fun i => Z.abs (vden s e i)) /\
    seval s (RNormSqr e) = sumn (vsize e) (fun i => vden s e i * vden s e i) /\
    seval s (RInner e e2) = sumn (vsize e) (fun i => vden s e i * vden s e2 i) /\
    seval s (RTrace m) = sumn (mrows m) (fun i => mden s m i i) /\
    seval s (RSum (VConst 0 7)) = 0.
Proof. intros. repeat split. Qed.
Print Assumptions C01_reduction_sums.

(* shape lemmas *)
Theorem C01_shapes :
  (forall al m1 m2, mrows (MProd al m1 m2) = mrows m1 /\ mcols (MProd al m1 m2) = mcols m2) /\
  (forall m, mrows (MTrans m) = mcols m /\ mcols (MTrans m) = mrows m) /\
  (forall e a b i, vwf (VRange e a b) = true -> (i < vsize (VRange e a b))%nat -> (a + i < vsize e)%nat).
Proof. split; [exact shape_prod | split; [exact shape_trans | exact wf_range_inside]]. Qed.
Print Assumptions C01_shapes.

(* the premises are satisfiable: a 0 x 3, a 1 x 1 and a non-square instance, and an aliasing statement *)
Example C01_wf_examples :
  mwf (MProd 1 (MVar 0 0 3) (MVar 1 3 2)) = true /\
  vwf (VMv 1 (MVar 2 1 1) (VVar 0 1)) = true /\
  mwf (MAdd (MTrans (MVar 1 3 2)) (MRange (MVar 3 4 4) 1 3 0 3)) = true /\
  stmt_ok (SAssignV false OpSet (VVar 0 3) (VMv 1 (MVar 0 3 3) (VVar 0 3))) = true /\
  stmt_ok (SAssignV true OpAdd (VRow (MVar 0 3 3) 1) (VCol (MVar 0 3 3) 2)) = false.
Proof. repeat split. Qed.
