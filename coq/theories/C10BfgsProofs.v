(* C10 — BFGS.cpp: the update of the inverse-Hessian approximation keeps symmetry and, under the curvature
   condition (the code updates only when y's >= 1e-20 > 0, otherwise it resets to the identity), positive
   definiteness; hence -H g is a descent direction whenever g is not zero, and every BFGS step is monotone with
   every line-search type and every oracle.  Exact rationals, all dimensions.  Axiom-free. *)
From Coq Require Import List QArith Qreduction Qabs Bool Arith Lia Lqa Qfield Setoid Morphisms.
From SharkV Require Import C10Model C10Proofs C10LsModel C10LsProofs.
Import ListNotations.
Open Scope Q_scope.

Global Instance qadd_proper : Proper (Qeq ==> Qeq ==> Qeq) qadd.
Proof. intros a b H c d H0. rewrite !qadd_eq, H, H0. reflexivity. Qed.
Global Instance qsub_proper : Proper (Qeq ==> Qeq ==> Qeq) qsub.
Proof. intros a b H c d H0. rewrite !qsub_eq, H, H0. reflexivity. Qed.
Global Instance qmul_proper : Proper (Qeq ==> Qeq ==> Qeq) qmul.
Proof. intros a b H c d H0. rewrite !qmul_eq, H, H0. reflexivity. Qed.

Ltac qn := repeat (rewrite ?qadd_eq, ?qsub_eq, ?qmul_eq).

(* ---------------- vectors ---------------- *)
Definition vzero (v : vec) : Prop := Forall (fun a => a == 0) v.

Lemma vzero_dec : forall v, {vzero v} + {~ vzero v}.
Proof. intros v. apply Forall_dec. intros a. apply Qeq_dec. Qed.

Lemma dot_nil_r : forall a, dot a [] = 0.
Proof. destruct a; reflexivity. Qed.

Lemma dot_comm : forall a b, dot a b == dot b a.
Proof.
  induction a as [|x a IH]; intros [|y b]; cbn [dot]; try reflexivity.
  qn. rewrite IH. ring.
Qed.

Lemma dot_vadd_l : forall a b c, length a = length b -> dot (vadd a b) c == dot a c + dot b c.
Proof.
  induction a as [|x a IH]; intros [|y b] c L; try discriminate; cbn [vadd].
  - cbn [dot]. ring.
  - destruct c as [|z c]; cbn [dot]; [ring|]. qn. rewrite IH by (simpl in L; lia). ring.
Qed.

Lemma dot_vsub_l : forall a b c, length a = length b -> dot (vsub a b) c == dot a c - dot b c.
Proof.
  induction a as [|x a IH]; intros [|y b] c L; try discriminate; cbn [vsub].
  - cbn [dot]. ring.
  - destruct c as [|z c]; cbn [dot]; [ring|]. qn. rewrite IH by (simpl in L; lia). ring.
Qed.

Lemma dot_vscale_l : forall t a c, dot (vscale t a) c == t * dot a c.
Proof.
  intros t. induction a as [|x a IH]; intros c; cbn [vscale map dot]; [ring|].
  destruct c as [|z c]; [ring|]. fold (vscale t a). qn. rewrite IH. ring.
Qed.

Lemma dot_vneg_r : forall a b, dot a (vneg b) == - dot a b.
Proof.
  induction a as [|x a IH]; intros [|y b]; cbn [vneg map dot]; try ring.
  fold (vneg b). qn. rewrite IH. ring.
Qed.

Lemma dot_zero_l : forall a b, vzero a -> dot a b == 0.
Proof.
  induction a as [|x a IH]; intros b Z; [reflexivity|]. inversion Z; subst.
  destruct b as [|y b]; [reflexivity|]. cbn [dot]. qn. rewrite IH by assumption. rewrite H1. ring.
Qed.

Lemma sq_nonneg : forall x : Q, 0 <= x * x.
Proof. intros x. destruct (Qlt_le_dec x 0); nra. Qed.

Lemma dot_self_nonneg : forall a, 0 <= dot a a.
Proof.
  induction a as [|x a IH]; cbn [dot]; [lra|]. qn. pose proof (sq_nonneg x). lra.
Qed.

Lemma dot_self_pos : forall a, ~ vzero a -> 0 < dot a a.
Proof.
  induction a as [|x a IH]; intros NZ.
  - exfalso. apply NZ. constructor.
  - cbn [dot]. qn. pose proof (sq_nonneg x). pose proof (dot_self_nonneg a).
    destruct (Qeq_dec x 0) as [E|E].
    + assert (~ vzero a) as NA by (intro Z; apply NZ; constructor; assumption).
      specialize (IH NA). lra.
    + assert (0 < x * x) by (destruct (Qlt_le_dec x 0); [nra | assert (0 < x) by (destruct (Qle_lt_or_eq _ _ q); [assumption | exfalso; apply E; symmetry; assumption]); nra]).
      lra.
Qed.

Lemma vadd_length : forall a b, length a = length b -> length (vadd a b) = length a.
Proof. induction a as [|x a IH]; intros [|y b] L; try discriminate; cbn [vadd length]; auto. Qed.
Lemma vsub_length : forall a b, length a = length b -> length (vsub a b) = length a.
Proof. induction a as [|x a IH]; intros [|y b] L; try discriminate; cbn [vsub length]; auto. Qed.
Lemma vscale_length : forall t a, length (vscale t a) = length a.
Proof. intros. unfold vscale. apply map_length. Qed.
Lemma mv_length : forall A x, length (mv A x) = length A.
Proof. intros. unfold mv. apply map_length. Qed.

(* ---------------- matrices: the bilinear form y' A x ---------------- *)
Definition bil (A : mat) (y x : vec) : Q := dot y (mv A x).

Definition symm (n : nat) (A : mat) : Prop :=
  forall y x, length y = n -> length x = n -> bil A y x == bil A x y.
Definition posdef (n : nat) (A : mat) : Prop :=
  forall x, length x = n -> ~ vzero x -> 0 < bil A x x.

Lemma bil_cons : forall r A a y x, bil (r :: A) (a :: y) x == a * dot r x + bil A y x.
Proof. intros. unfold bil. cbn [mv map dot]. qn. reflexivity. Qed.

Lemma bil_nil_y : forall A x, bil A [] x = 0.
Proof. reflexivity. Qed.

Lemma bil_madd : forall n A B y x,
  Forall (fun r => length r = n) A -> Forall (fun r => length r = n) B -> length A = length B ->
  bil (madd A B) y x == bil A y x + bil B y x.
Proof.
  intros n. induction A as [|r A IH]; intros [|q B] y x FA FB L; try discriminate; cbn [madd].
  - unfold bil. cbn [mv map]. rewrite dot_nil_r. ring.
  - destruct y as [|a y]; [rewrite !bil_nil_y; ring|].
    inversion FA; subst. inversion FB; subst.
    rewrite !bil_cons. rewrite dot_vadd_l by congruence. rewrite (IH B y x) by (auto; simpl in L; lia). ring.
Qed.

Lemma bil_msub : forall n A B y x,
  Forall (fun r => length r = n) A -> Forall (fun r => length r = n) B -> length A = length B ->
  bil (msub A B) y x == bil A y x - bil B y x.
Proof.
  intros n. induction A as [|r A IH]; intros [|q B] y x FA FB L; try discriminate; cbn [msub].
  - unfold bil. cbn [mv map]. rewrite dot_nil_r. ring.
  - destruct y as [|a y]; [rewrite !bil_nil_y; ring|].
    inversion FA; subst. inversion FB; subst.
    rewrite !bil_cons. rewrite dot_vsub_l by congruence. rewrite (IH B y x) by (auto; simpl in L; lia). ring.
Qed.

Lemma bil_mscale : forall t A y x, bil (mscale t A) y x == t * bil A y x.
Proof.
  intros t. induction A as [|r A IH]; intros y x.
  - unfold bil. cbn [mscale mv map]. rewrite dot_nil_r. ring.
  - destruct y as [|a y]; [rewrite !bil_nil_y; ring|].
    cbn [mscale map]. fold (mscale t A). rewrite !bil_cons, dot_vscale_l, IH. ring.
Qed.

Lemma bil_outer : forall u v y x, bil (outer u v) y x == dot y u * dot v x.
Proof.
  induction u as [|a u IH]; intros v y x.
  - unfold bil. cbn [outer mv map]. rewrite !dot_nil_r. ring.
  - destruct y as [|b y]; [rewrite bil_nil_y; cbn [dot]; ring|].
    cbn [outer map]. fold (outer u v). rewrite bil_cons, dot_vscale_l, IH. cbn [dot]. qn. ring.
Qed.

(* shapes *)
Definition rows (n : nat) (A : mat) : Prop := Forall (fun r => length r = n) A.

Lemma rows_madd : forall n A B, rows n A -> rows n B -> rows n (madd A B).
Proof.
  intros n. induction A as [|r A IH]; intros [|q B] FA FB; cbn [madd]; try constructor.
  - inversion FA; inversion FB; subst. rewrite vadd_length; congruence.
  - inversion FA; inversion FB; subst. apply IH; auto.
Qed.
Lemma rows_msub : forall n A B, rows n A -> rows n B -> rows n (msub A B).
Proof.
  intros n. induction A as [|r A IH]; intros [|q B] FA FB; cbn [msub]; try constructor.
  - inversion FA; inversion FB; subst. rewrite vsub_length; congruence.
  - inversion FA; inversion FB; subst. apply IH; auto.
Qed.
Lemma rows_mscale : forall n t A, rows n A -> rows n (mscale t A).
Proof.
  intros n t A F. unfold mscale, rows. apply Forall_forall. intros r R. apply in_map_iff in R.
  destruct R as (q & E & I). subst r. rewrite vscale_length. eapply Forall_forall in F; eauto.
Qed.
Lemma rows_outer : forall u v, rows (length v) (outer u v).
Proof.
  intros u v. unfold outer, rows. apply Forall_forall. intros r R. apply in_map_iff in R.
  destruct R as (q & E & I). subst r. apply vscale_length.
Qed.
Lemma madd_length : forall A B, length A = length B -> length (madd A B) = length A.
Proof. induction A as [|r A IH]; intros [|q B] L; try discriminate; cbn [madd length]; auto. Qed.
Lemma msub_length : forall A B, length A = length B -> length (msub A B) = length A.
Proof. induction A as [|r A IH]; intros [|q B] L; try discriminate; cbn [msub length]; auto. Qed.
Lemma mscale_length : forall t A, length (mscale t A) = length A.
Proof. intros. unfold mscale. apply map_length. Qed.
Lemma outer_length : forall u v, length (outer u v) = length u.
Proof. intros. unfold outer. apply map_length. Qed.

(* ---------------- the identity ---------------- *)
Lemma dot_zeros_l : forall k x, dot (zeros k) x == 0.
Proof.
  induction k as [|k IH]; intros x; [reflexivity|]. destruct x as [|a x]; [reflexivity|].
  cbn [zeros repeat dot]. fold (zeros k). qn. rewrite IH. ring.
Qed.

Lemma bil_shift : forall A y b x, bil (map (cons 0) A) y (b :: x) == bil A y x.
Proof.
  induction A as [|r A IH]; intros y b x.
  - reflexivity.
  - destruct y as [|a y]; [reflexivity|]. cbn [map]. rewrite !bil_cons, IH. cbn [dot]. qn. ring.
Qed.

Lemma bil_identity : forall n y x, length y = n -> length x = n -> bil (identity n) y x == dot y x.
Proof.
  induction n as [|n IH]; intros [|a y] [|b x] Ly Lx; try discriminate; [reflexivity|].
  cbn [identity]. rewrite bil_cons, bil_shift, IH by (simpl in *; lia).
  cbn [dot]. qn. rewrite dot_zeros_l. ring.
Qed.

Lemma identity_length : forall n, length (identity n) = n.
Proof. induction n as [|n IH]; [reflexivity|]. simpl. rewrite map_length. f_equal. exact IH. Qed.

Lemma identity_rows : forall n, rows n (identity n).
Proof.
  induction n as [|n IH]; cbn [identity]; constructor.
  - cbn [length]. unfold zeros. rewrite repeat_length. reflexivity.
  - apply Forall_forall. intros r R. apply in_map_iff in R. destruct R as (q & E & I). subst r.
    cbn [length]. f_equal. eapply Forall_forall in IH; eauto.
Qed.

Lemma identity_symm : forall n, symm n (identity n).
Proof. intros n y x Ly Lx. rewrite !bil_identity by assumption. apply dot_comm. Qed.

Lemma identity_posdef : forall n, posdef n (identity n).
Proof. intros n x Lx NZ. rewrite bil_identity by assumption. apply dot_self_pos. exact NZ. Qed.

(* ---------------- the BFGS update ---------------- *)
Section Update.
  Variable n : nat.
  Variable H : mat.
  Variables gamma delta : vec.
  Variable d : Q.
  Hypothesis HL : length H = n.
  Hypothesis HR : rows n H.
  Hypothesis Lg : length gamma = n.
  Hypothesis Ld : length delta = n.

  Let Hg := mv H gamma.
  Let scale := Qred ((Qred (dot gamma Hg / d) + 1) / d).

  Lemma Hg_length : length Hg = n.
  Proof. unfold Hg. rewrite mv_length. exact HL. Qed.

  Lemma corr_length : forall s r,
    length (msub (mscale s (outer delta delta)) (mscale r (madd (outer Hg delta) (outer delta Hg)))) = n.
  Proof.
    intros s r.
    assert (length (madd (outer Hg delta) (outer delta Hg)) = n) as L2.
    { rewrite madd_length; rewrite !outer_length; [apply Hg_length | rewrite Hg_length; symmetry; exact Ld]. }
    rewrite msub_length; rewrite !mscale_length, outer_length; [exact Ld | rewrite L2; exact Ld].
  Qed.

  Lemma update_length : length (bfgs_update H gamma delta d) = n.
  Proof.
    unfold bfgs_update. fold Hg. rewrite madd_length; [exact HL|]. rewrite corr_length. exact HL.
  Qed.

  Lemma update_rows : rows n (bfgs_update H gamma delta d).
  Proof.
    unfold bfgs_update. fold Hg. apply rows_madd; [exact HR|]. apply rows_msub; apply rows_mscale.
    - rewrite <- Ld at 1. apply rows_outer.
    - apply rows_madd; [rewrite <- Ld at 1 | rewrite <- Hg_length at 1]; apply rows_outer.
  Qed.

  (* y' H+ x, entry-free *)
  Lemma bil_update : forall y x,
    bil (bfgs_update H gamma delta d) y x ==
    bil H y x + (scale * (dot y delta * dot x delta)
                 - / d * (dot y Hg * dot x delta + dot y delta * dot x Hg)).
  Proof.
    intros y x. unfold bfgs_update. fold Hg. fold scale.
    assert (rows n (outer delta delta)) as R1 by (rewrite <- Ld at 1; apply rows_outer).
    assert (rows n (outer Hg delta)) as R2 by (rewrite <- Ld at 1; apply rows_outer).
    assert (rows n (outer delta Hg)) as R3 by (rewrite <- Hg_length at 1; apply rows_outer).
    assert (length (outer Hg delta) = length (outer delta Hg)) as L23
      by (rewrite !outer_length, Hg_length; congruence).
    rewrite (bil_madd n); [| exact HR | apply rows_msub; apply rows_mscale; [exact R1 | apply rows_madd; assumption] |].
    2:{ rewrite corr_length. exact HL. }
    rewrite (bil_msub n); [| apply rows_mscale; exact R1 | apply rows_mscale; apply rows_madd; assumption |].
    2:{ rewrite !mscale_length, madd_length by exact L23. rewrite !outer_length, Hg_length. exact Ld. }
    rewrite !bil_mscale. rewrite (bil_madd n) by assumption. rewrite !bil_outer.
    rewrite Qred_correct. rewrite (dot_comm delta x), (dot_comm Hg x). ring.
  Qed.

  Hypothesis HS : symm n H.

  (* SYMMETRY is kept (for every d, also d = 0) *)
  Theorem bfgs_update_symm : symm n (bfgs_update H gamma delta d).
  Proof.
    intros y x Ly Lx. rewrite !bil_update. rewrite (HS y x Ly Lx). ring.
  Qed.

  Hypothesis HP : posdef n H.

  Lemma posdef_nonneg : forall w, length w = n -> 0 <= bil H w w.
  Proof.
    intros w Lw. destruct (vzero_dec w) as [Z|NZ].
    - unfold bil. rewrite dot_zero_l by assumption. lra.
    - apply Qlt_le_weak. apply HP; assumption.
  Qed.

  (* POSITIVE DEFINITENESS is kept under the curvature condition d > 0:
     x' H+ x = w' H w + (delta'x)^2 / d   with   w = x - (delta'x / d) gamma *)
  Theorem bfgs_update_quadratic_form : forall x, length x = n -> ~ d == 0 ->
    let c := dot x delta / d in
    let w := vsub x (vscale c gamma) in
    bil (bfgs_update H gamma delta d) x x == bil H w w + dot x delta * dot x delta / d.
  Proof.
    intros x Lx Dn c w.
    assert (length (vscale c gamma) = n) as Lc by (rewrite vscale_length; exact Lg).
    assert (length w = n) as Lw by (unfold w; rewrite vsub_length; congruence).
    assert (forall m, bil H w m == bil H x m - c * bil H gamma m) as LIN.
    { intros m. unfold bil, w. rewrite dot_vsub_l by congruence. rewrite dot_vscale_l. reflexivity. }
    rewrite bil_update.
    rewrite (LIN w). rewrite (HS x w Lx Lw), (HS gamma w Lg Lw). rewrite (LIN x), (LIN gamma).
    rewrite (HS gamma x Lg Lx).
    unfold scale. rewrite !Qred_correct.
    assert (dot gamma Hg == bil H gamma gamma) as E1 by reflexivity.
    assert (dot x Hg == bil H x gamma) as E2 by reflexivity.
    rewrite E1, E2. unfold c. field. exact Dn.
  Qed.

  Theorem bfgs_update_posdef : 0 < d -> posdef n (bfgs_update H gamma delta d).
  Proof.
    intros Dp x Lx NZ.
    assert (~ d == 0) as Dn by lra.
    destruct (Qeq_dec (dot x delta) 0) as [A0|A0].
    - rewrite bil_update. rewrite A0. specialize (HP x Lx NZ).
      assert (bil H x x + (scale * (0 * 0) - / d * (dot x Hg * 0 + 0 * dot x Hg)) == bil H x x) as E by ring.
      rewrite E. exact HP.
    - rewrite (bfgs_update_quadratic_form x Lx Dn). cbv zeta.
      set (w := vsub x (vscale (dot x delta / d) gamma)).
      assert (length w = n) as Lw by (unfold w; rewrite vsub_length; rewrite ?vscale_length; congruence).
      pose proof (posdef_nonneg w Lw) as P.
      set (a := dot x delta) in *.
      assert (0 < a * a) as SQ.
      { pose proof (sq_nonneg a). destruct (Qeq_dec (a * a) 0) as [Z|Z]; [|lra].
        exfalso. apply A0. destruct (Qlt_le_dec a 0); [nra|]. destruct (Qeq_dec a 0); [assumption|nra]. }
      assert (0 < a * a / d) as T.
      { unfold Qdiv. apply Qmult_lt_0_compat; [exact SQ|]. apply Qinv_lt_0_compat. exact Dp. }
      lra.
  Qed.
End Update.

(* ---------------- BFGS::initModel / computeSearchDirection ---------------- *)
Record bfgs_ok (n : nat) (H : mat) : Prop := mkOk {
  ok_len : length H = n; ok_rows : rows n H; ok_symm : symm n H; ok_pd : posdef n H }.

Lemma bfgs_eps_pos : 0 < bfgs_eps.
Proof. reflexivity. Qed.

Lemma identity_ok : forall n, bfgs_ok n (identity n).
Proof.
  intros n. constructor; [apply identity_length | apply identity_rows | apply identity_symm | apply identity_posdef].
Qed.

(* reset (y's < 1e-20) or update: the new matrix is again symmetric positive definite *)
Theorem bfgs_dir_ok : forall n (s : ls_state mat),
  dim s = n -> length (pt s) = n -> length (last_pt s) = n -> length (der s) = n -> length (last_der s) = n ->
  bfgs_ok n (extra s) -> bfgs_ok n (fst (bfgs_dir s)).
Proof.
  intros n s Dn Lp Llp Lg Llg [HL HR HS HP]. unfold bfgs_dir. cbn [fst].
  destruct (qltb _ bfgs_eps) eqn:E.
  - rewrite Dn. apply identity_ok.
  - apply qltb_false_le in E. pose proof bfgs_eps_pos.
    assert (length (vsub (der s) (last_der s)) = n) as L1 by (rewrite vsub_length; congruence).
    assert (length (vsub (pt s) (last_pt s)) = n) as L2 by (rewrite vsub_length; congruence).
    constructor.
    + apply update_length; assumption.
    + apply update_rows; assumption.
    + apply bfgs_update_symm; assumption.
    + apply bfgs_update_posdef; try assumption. lra.
Qed.

(* the reset logic as coded *)
Lemma bfgs_dir_reset : forall s : ls_state mat,
  dot (vsub (der s) (last_der s)) (vsub (pt s) (last_pt s)) < bfgs_eps ->
  bfgs_dir s = (identity (dim s), vneg (mv (identity (dim s)) (der s))).
Proof. intros s H. apply qltb_lt in H. unfold bfgs_dir. rewrite H. reflexivity. Qed.

Lemma bfgs_dir_snd : forall s : ls_state mat, snd (bfgs_dir s) = vneg (mv (fst (bfgs_dir s)) (der s)).
Proof. reflexivity. Qed.

(* -H g is a descent direction *)
Theorem quasi_newton_descent : forall n H g, bfgs_ok n H -> length g = n ->
  let d := vneg (mv H g) in
  length d = n /\ dot g d <= 0 /\ (~ vzero g -> dot g d < 0).
Proof.
  intros n H g [HL HR HS HP] Lg d. unfold d.
  assert (dot g (vneg (mv H g)) == - bil H g g) as E by (rewrite dot_vneg_r; reflexivity).
  split; [rewrite vneg_length, mv_length; exact HL|]. split.
  - rewrite E. pose proof (posdef_nonneg n H HP g Lg). lra.
  - intro NZ. rewrite E. specialize (HP g Lg NZ). lra.
Qed.

(* ---------------- BFGS runs ---------------- *)
Section BfgsRun.
  Variable f : vec -> Q.
  Variable grad : vec -> vec.
  Variable feasible : vec -> bool.
  Variable n : nat.
  Hypothesis grad_length : forall x, length x = n -> length (grad x) = n.

  Notation step_o := (ls_step_o f grad mat bfgs_dir).
  Notation run_o := (ls_run_o f grad mat bfgs_dir).
  Notation init_o := (ls_init_o f grad feasible mat bfgs_init_model).

  Definition binv (s : ls_state mat) : Prop :=
    consistent f grad mat s /\ dim s = n /\ length (pt s) = n /\ length (sdir s) = n /\ bfgs_ok n (extra s) /\
    0 <= step_len s /\ dot (der s) (sdir s) <= 0 /\ (~ vzero (der s) -> dot (der s) (sdir s) < 0).

  Lemma binv_init : forall c ty x0, length x0 = n -> binv (init_o c ty x0).
  Proof.
    intros c ty x0 L0. unfold binv. split; [apply init_o_consistent|].
    unfold ls_init_o, ls_init. cbn [dim pt sdir extra step_len der].
    rewrite L0. repeat split.
    - rewrite vneg_length. apply grad_length. exact L0.
    - apply identity_length. - apply identity_rows. - apply identity_symm. - apply identity_posdef.
    - apply halve_feasible_nonneg_pre.
    - apply dot_neg_nonpos.
    - intro NZ. rewrite dot_vneg_r. pose proof (dot_self_pos _ NZ). lra.
  Qed.

  Lemma binv_step : forall o s s', binv s -> step_o o s = Some s' -> binv s'.
  Proof.
    intros o s s' (C & Dn & Lp & Ld & OK & Ht & Hd & Hs) H.
    pose proof (step_o_consistent f grad mat bfgs_dir o s s' C H) as C'.
    destruct (step_o_inv f grad mat bfgs_dir o s s' H) as (p' & v' & g' & L & A & B & G & T & D & _ & _ & _ & _ & E & S).
    destruct C as [Cv Cd].
    destruct (linesearch_consistent f grad _ _ _ _ _ _ _ _ _ _ Cv Cd L) as [_ G'].
    assert (length p' = n) as Lp'.
    { destruct (linesearch_on_line f grad _ _ _ _ _ _ _ _ _ _ L) as [P | (t & P)]; rewrite P; [exact Lp|].
      rewrite vadd_length; [exact Lp | rewrite vscale_length; congruence]. }
    assert (length g' = n) as Lg' by (rewrite G'; apply grad_length; exact Lp').
    assert (length (der s) = n) as Lg by (rewrite Cd; apply grad_length; exact Lp).
    pose proof (bfgs_dir_ok n (mid_of mat s p' v' g') Dn Lp' Lp Lg' Lg OK) as OK'.
    rewrite <- E in OK'.
    pose proof (quasi_newton_descent n (extra s') g' OK' Lg') as (Q1 & Q2 & Q3).
    assert (sdir s' = vneg (mv (extra s') g')) as SD by (rewrite S, E; reflexivity).
    unfold binv. split; [exact C'|]. rewrite SD, G, A, T. split; [rewrite D; exact Dn|]. split; [exact Lp'|]. split; [exact Q1|]. split; [exact OK'|].
    split; [lra|]. split; [exact Q2 | exact Q3].
  Qed.

  Lemma binv_run : forall c ty x0 orcs k s, length x0 = n ->
    run_o orcs 0%nat k (init_o c ty x0) = Some s -> binv s.
  Proof.
    intros c ty x0 orcs k s L0 R.
    apply (run_o_invariant f grad mat bfgs_dir binv binv_step orcs k 0%nat
             (init_o c ty x0) s (binv_init c ty x0 L0) R).
  Qed.

  (* after init and after every step: the matrix is symmetric positive definite and the stored search direction
     is a descent direction, strictly whenever the gradient is not zero: every line-search type, every oracle *)
  Theorem bfgs_direction_descent : forall constrained lstype x0 orcs k s, length x0 = n ->
    run_o orcs 0%nat k (init_o constrained lstype x0) = Some s ->
    symm n (extra s) /\ posdef n (extra s) /\
    dot (der s) (sdir s) <= 0 /\ (~ vzero (der s) -> dot (der s) (sdir s) < 0).
  Proof.
    intros c ty x0 orcs k s L0 R. destruct (binv_run c ty x0 orcs k s L0 R) as (_ & _ & _ & _ & [_ _ HS HP] & _ & A & B).
    auto.
  Qed.

  (* no hypothesis on the direction rule is left: every BFGS step is monotone *)
  Theorem bfgs_monotone : forall constrained lstype x0 orcs k o s s', length x0 = n ->
    run_o orcs 0%nat k (init_o constrained lstype x0) = Some s -> step_o o s = Some s' ->
    val s' <= val s /\ f (pt s') <= f (pt s).
  Proof.
    intros c ty x0 orcs k o s s' L0 R H. destruct (binv_run c ty x0 orcs k s L0 R) as (C & _ & _ & _ & _ & Ht & Hd & _).
    apply (step_o_monotone f grad mat bfgs_dir o s s' C Ht Hd H).
  Qed.
End BfgsRun.

(* ---------------- symmetry, entry by entry ---------------- *)
Fixpoint unitv (n i : nat) : vec :=
  match n with
  | O => []
  | S n' => match i with O => 1 :: zeros n' | S i' => 0 :: unitv n' i' end
  end.

Lemma unitv_length : forall n i, length (unitv n i) = n.
Proof.
  induction n as [|n IH]; intros i; [reflexivity|]. destruct i; cbn [unitv length].
  - unfold zeros. rewrite repeat_length. reflexivity.
  - rewrite IH. reflexivity.
Qed.

Lemma dot_unitv_l : forall n i v, length v = n -> (i < n)%nat -> dot (unitv n i) v == nth i v 0.
Proof.
  induction n as [|n IH]; intros i v L Hi; [lia|]. destruct v as [|a v]; [discriminate|].
  destruct i; cbn [unitv dot nth]; qn.
  - rewrite dot_zeros_l. ring.
  - rewrite IH by (simpl in L; lia). ring.
Qed.

Lemma nth_mv : forall A x i, nth i (mv A x) 0 = dot (nth i A []) x.
Proof. intros A x i. unfold mv. exact (map_nth (fun r => dot r x) A [] i). Qed.

(* the semantic symmetry used above is the symmetry of the entries *)
Theorem symm_entries : forall n A, length A = n -> rows n A -> symm n A ->
  forall i j, (i < n)%nat -> (j < n)%nat -> nth j (nth i A []) 0 == nth i (nth j A []) 0.
Proof.
  intros n A LA RA S i j Hi Hj.
  assert (forall i j, (i < n)%nat -> (j < n)%nat -> bil A (unitv n i) (unitv n j) == nth j (nth i A []) 0) as E.
  { intros a b Ha Hb. unfold bil. rewrite dot_unitv_l by (rewrite ?mv_length; auto).
    rewrite nth_mv, dot_comm. apply dot_unitv_l; [|exact Hb].
    unfold rows in RA. eapply Forall_forall in RA; [exact RA|]. apply nth_In. lia. }
  rewrite <- (E i j Hi Hj), <- (E j i Hj Hi). apply S; apply unitv_length.
Qed.

(* ---------------- save / restore: BFGS::write appends m_hessian ---------------- *)
Lemma bfgs_extra_roundtrip : forall H, bfgs_restore_extra (bfgs_save_extra H) = Some H.
Proof. induction H as [|r H IH]; [reflexivity|]. cbn [bfgs_save_extra map bfgs_restore_extra]. fold (bfgs_save_extra H). rewrite IH. reflexivity. Qed.

Theorem bfgs_saverestore_continues : forall f grad (fresh s s' : ls_state mat),
  ls_restore mat bfgs_restore_extra fresh (ls_save mat bfgs_save_extra s) = Some s' ->
  forall orcs k n, ls_run_o f grad mat bfgs_dir orcs k n s' = ls_run_o f grad mat bfgs_dir orcs k n s.
Proof.
  intros f grad fresh s s' H orcs k n.
  rewrite (ls_restore_save mat bfgs_save_extra bfgs_restore_extra bfgs_extra_roundtrip fresh s) in H.
  inversion H. reflexivity.
Qed.

(* ---------------- examples: hypotheses are satisfiable, the runs are not vacuous ---------------- *)
Lemma quad_grad_length : forall n A b, length A = n -> length b = n -> forall x, length (quad_grad A b x) = n.
Proof. intros n A b LA Lb x. unfold quad_grad. rewrite vsub_length; rewrite mv_length; congruence. Qed.

Definition ex_oracle : ls_oracle :=
  {| o_wexp := fun _ q => q; o_wzoom := fun k => 1 # (Pos.of_nat (S k)); o_dx0 := 1 # 4; o_dus := [1 # 2; 1 # 8; 3 # 8] |}.
Definition exb_A : list vec := [[2; 1 # 2]; [1 # 2; 4]].
Definition exb_b : vec := [1; 1 # 2].
Definition exb_run (ty n : nat) :=
  ls_run_o (quad_f exb_A exb_b) (quad_grad exb_A exb_b) mat bfgs_dir (fun _ => ex_oracle) 0 n
    (ls_init_o (quad_f exb_A exb_b) (quad_grad exb_A exb_b) all_true mat bfgs_init_model false ty [4; -2]).

Definition opt_val (o : option (ls_state mat)) : Q := match o with Some s => val s | None => 0 end.
Definition defined (o : option (ls_state mat)) : bool := match o with Some _ => true | None => false end.

(* BFGS with each of the three line searches: defined, strictly decreasing values over three steps *)
Example bfgs_runs_decrease :
  forallb (fun ty => forallb (fun n => defined (exb_run ty n)) [0; 1; 2; 3]%nat &&
                     strictly_decreasing (map (fun n => opt_val (exb_run ty n)) [0; 1; 2; 3]%nat)) [0; 1; 2]%nat = true.
Proof. vm_compute. reflexivity. Qed.

(* the matrix after two updates is not the identity, and symmetric *)
Example bfgs_matrix_after_two_steps :
  match exb_run 2 2 with
  | Some s => match extra s with
              | [[a; b]; [c; d]] => Qeq_bool b c && negb (Qeq_bool b 0) && negb (Qeq_bool a 1)
              | _ => false
              end
  | None => false
  end = true.
Proof. vm_compute. reflexivity. Qed.
