(* C13 — HypervolumeSubsetSelection2D.h (overload with reference point) as coded: executable model
   (definitions only).

   createFront:   points shifted by the reference point (f1 = x - r0, f2 = y - r1, original index), std::sort with
                  Point::operator< (first objective, then  f2 < rhs.f1  -- sic, the tie-break of the code compares
                  the second objective with the FIRST objective of the other point), std::unique with the predicate
                  "y.f2 >= x.f2" (drops every point whose second objective is not below the last kept one).
   upperEnvelope: Algorithm 2 of Bringmann/Friedrich/Klitzke: deque of lines a*x+b, back popped while
                  Intersection(f_i, s[-1]) <= Intersection(s[-2], s[-1]), push f_i, front popped while
                  s[0](x_i) <= s[1](x_i); h_i = s[0](x_i), chosen_i = s[0].index.
   hypSSP:        k-1 rounds  f_i = (-f2_i) x + f1_i f2_i + h_i,  (h, chosen) = upperEnvelope;  last point = first
                  maximiser of f_i(0); back-tracking through the chosen tables marks the selected points.

   Numbers: on integer inputs every product, sum and function value is an integer (exact in double); the two
   intersection abscissae are quotients of integers and are compared exactly by cross-multiplication [qle]
   (IEEE division is monotone and the 1e-10 tolerance of the code only identifies equal quotients when the
   coordinates are small integers: assumption of the check, not of the theorems about the model).

   The arrangement std::sort produces is a parameter [arr] (the comparator is not a strict weak order, so not even
   the order inside a group of equal first objectives is determined by the standard); the theorems quantify over
   every arrangement that is a permutation sorted by the first objective; the extracted instance [isort fp_lt] is
   libstdc++'s insertion sort (std::sort for at most 16 elements) with the comparator of the code. *)
From Coq Require Import List ZArith Lia Bool Arith.
From SharkV Require Import ListAux C13Model.
Import ListNotations.
Local Open Scope Z_scope.

Definition fpt := (Z * Z * nat)%type.
Definition px (p : fpt) : Z := fst (fst p).
Definition py (p : fpt) : Z := snd (fst p).
Definition pidx (p : fpt) : nat := snd p.

(* Point::operator< as coded *)
Definition fp_lt (a b : fpt) : bool :=
  if px a <? px b then true else if px b <? px a then false else py a <? px b.

(* libstdc++ __insertion_sort: an element that compares less than the first one goes to the front, otherwise
   __unguarded_linear_insert moves it left past every element it compares less than *)
Fixpoint take_while {A} (f : A -> bool) (l : list A) : list A :=
  match l with x :: t => if f x then x :: take_while f t else [] | [] => [] end.
Fixpoint drop_while {A} (f : A -> bool) (l : list A) : list A :=
  match l with x :: t => if f x then drop_while f t else l | [] => [] end.
Definition lin_insert {A} (lt : A -> A -> bool) (v : A) (pre : list A) : list A :=
  match pre with
  | [] => [v]
  | first :: _ =>
    if lt v first then v :: pre
    else let rp := rev pre in rev (drop_while (lt v) rp) ++ v :: rev (take_while (lt v) rp)
  end.
Definition isort {A} (lt : A -> A -> bool) (l : list A) : list A :=
  fold_left (fun pre v => lin_insert lt v pre) l [].

Definition shifted (r0 r1 : Z) (S : list point) : list fpt :=
  map (fun pi => let '(x, y) := to_pair (fst pi) in (x - r0, y - r1, snd pi)) (combine S (seq 0 (length S))).

(* std::unique with the predicate (x, y) -> y.f2 >= x.f2, x = last kept element *)
Fixpoint uniq (last : fpt) (l : list fpt) : list fpt :=
  match l with
  | [] => []
  | y :: l' => if py last <=? py y then uniq last l' else y :: uniq y l'
  end.

Definition line := (Z * Z * nat)%type.
Definition la (f : line) : Z := fst (fst f).
Definition lb (f : line) : Z := snd (fst f).
Definition lidx (f : line) : nat := snd f.
Definition ev (f : line) (x : Z) : Z := la f * x + lb f.

(* n1/m1 <= n2/m2 for non-zero denominators *)
Definition qle (n1 m1 n2 m2 : Z) : bool :=
  if 0 <? m1 * m2 then n1 * m2 <=? n2 * m1 else n2 * m1 <=? n1 * m2.
(* Intersection(f, g) <= Intersection(f', g'),  Intersection(f, g) = (g.b - f.b) / (f.a - g.a) *)
Definition inter_le (f g f' g' : line) : bool :=
  qle (lb g - lb f) (la f - la g) (lb g' - lb f') (la f' - la g').

(* the deque is a list, front first; [pop_back] works on the reversed deque *)
Fixpoint pop_back (F : line) (rs : list line) : list line :=
  match rs with
  | s1 :: (s2 :: _) as rs' => if inter_le F s1 s2 s1 then pop_back F rs' else rs
  | _ => rs
  end.
Fixpoint pop_front (x : Z) (s : list line) : list line :=
  match s with
  | g1 :: (g2 :: _) as s' => if ev g1 x <=? ev g2 x then pop_front x s' else s
  | _ => s
  end.

Definition env_push (F : line) (x : Z) (s : list line) : list line :=
  pop_front x (rev (F :: pop_back F (rev s))).

Definition env_step (st : list line * list (Z * nat)) (Fx : line * Z) : list line * list (Z * nat) :=
  let s' := env_push (fst Fx) (snd Fx) (fst st) in
  (s', snd st ++ [match s' with g :: _ => (ev g (snd Fx), lidx g) | [] => (0, 0%nat) end]).

Definition envelope (funs : list line) (xs : list Z) : list (Z * nat) :=
  snd (fold_left env_step (combine funs xs) ([], [])).

Definition mk_funs (front : list fpt) (h : list Z) : list line :=
  map (fun phi => let '(p, hi, i) := phi in (- py p, px p * py p + hi, i))
      (combine (combine front h) (seq 0 (length front))).

Section Hssp.
(* the envelope routine is a parameter of the dynamic programme (instances: [envelope] as coded) *)
Variable env : list line -> list Z -> list (Z * nat).

(* j rounds; the chosen tables are collected most recent first *)
Fixpoint rounds (j : nat) (front : list fpt) (h : list Z) (chosen : list (list nat)) : list Z * list (list nat) :=
  match j with
  | O => (h, chosen)
  | Datatypes.S j' =>
    let r := env (mk_funs front h) (map px front) in
    rounds j' front (map fst r) (map snd r :: chosen)
  end.

(* res = -1; for i: if f_i(0) > res then res = f_i(0), currentIndex = i *)
Definition argmax_first (vals : list Z) : nat :=
  snd (fst (fold_left (fun st v => let '(res, cur, i) := st in
                                   if res <? v then (v, i, Datatypes.S i) else (res, cur, Datatypes.S i))
                      vals (-1, 0%nat, 0%nat))).

Fixpoint backtrack (chosen : list (list nat)) (cur : nat) : list nat :=
  match chosen with
  | [] => [cur]
  | c :: rest => cur :: backtrack rest (nth cur c 0%nat)
  end.

(* positions (in the front) of the selected points, last point first *)
Definition hyp_ssp (front : list fpt) (k : nat) : list nat :=
  let '(h, chosen) := rounds (k - 1) front (repeat 0 (length front)) [] in
  let last := argmax_first (map (fun ph => px (fst ph) * py (fst ph) + snd ph) (combine front h)) in
  backtrack chosen last.

Variable arr : list fpt -> list fpt.

Definition create_front (r0 r1 : Z) (S : list point) : list fpt :=
  match arr (shifted r0 r1 S) with [] => [] | x :: l => x :: uniq x l end.

(* None = the exception of the code (k = 0 or fewer than k points left in the front) *)
Definition hssp2d_gen (ref : point) (S : list point) (k : nat) : option (list bool) :=
  match ref with
  | [r0; r1] =>
    let front := create_front r0 r1 S in
    if (k =? 0)%nat || (length front <? k)%nat then None
    else
      let pos := hyp_ssp front k in
      let idxs := map (fun q => pidx (nth q front (0, 0, 0%nat))) pos in
      Some (map (fun i => existsb (Nat.eqb i) idxs) (seq 0 (length S)))
  | _ => None
  end.
End Hssp.

Definition hssp2d (ref : point) (S : list point) (k : nat) : option (list bool) :=
  hssp2d_gen envelope (isort fp_lt) ref S k.

(* the points a selection vector marks *)
Definition pick {A} (sel : list bool) (S : list A) : list A :=
  map snd (filter fst (combine sel S)).
