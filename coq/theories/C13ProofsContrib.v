(* C13 — the model of HypervolumeContribution2D.h (contrib2d_ref, smallest_k, largest_k in
   C13Model.v) computes the true hypervolume contributions contrib_spec on every 2-D point list
   whose points are mutually non-dominated (duplicates allowed) and (weakly) below the reference
   point.  Nothing is assumed beyond Coq's logic (lists, nat, Z).

   Main results (bottom of the file):
     contrib2d_ref_correct       (value,index) pairs = permutation of the true contributions
     contribs_any_tie_order      the same for every lexicographically sorted arrangement
     contrib2d_ref_value         per-index form
     contrib_spec_duplicate      a duplicated point has contribution 0 (any dimension)
     contrib2d_ref_duplicate     ... and the model assigns 0 to it
     smallest_k_contrib2d / largest_k_contrib2d
                                 k-selection on model values = k-selection on true values
     smallest_k_contrib2d_extremal / largest_k_contrib2d_extremal
                                 ... and these are the k extremal true contributions *)
From Coq Require Import List ZArith Lia Bool Arith Permutation Sorted.
From SharkV Require Import ListAux C13Model C13Proofs.
Import ListNotations.
Local Open Scope Z_scope.

(* ========================================================================================== *)
(* 0. generic list facts *)

Lemma map_fst_combine {A B} (l : list A) : forall (l' : list B),
  length l = length l' -> map fst (combine l l') = l.
Proof.
  induction l as [|a l IH]; intros [|b l'] H; cbn in *; try discriminate; auto.
  f_equal. apply IH. lia.
Qed.

Lemma map_snd_combine {A B} (l : list A) : forall (l' : list B),
  length l = length l' -> map snd (combine l l') = l'.
Proof.
  induction l as [|a l IH]; intros [|b l'] H; cbn in *; try discriminate; auto.
  f_equal. apply IH. lia.
Qed.

Lemma combine_map_self {A} (f : nat -> A) (l : list nat) :
  combine (map f l) l = map (fun i => (f i, i)) l.
Proof. induction l as [|a l IH]; cbn; auto. f_equal. exact IH. Qed.

Lemma pairs_as_map {A} (f : nat -> A) (l : list (A * nat)) :
  (forall v i, In (v, i) l -> v = f i) -> l = map (fun i => (f i, i)) (map snd l).
Proof.
  induction l as [|[v i] t IH]; intros H; cbn; auto. f_equal.
  - f_equal. apply H. simpl; auto.
  - apply IH. intros v' i' Hin. apply H. simpl; auto.
Qed.

Lemma combine_seq_split {A} (l : list A) : forall s a i,
  In (a, i) (combine l (seq s (length l))) ->
  exists l1 l2, l = l1 ++ a :: l2 /\ i = (s + length l1)%nat /\
    combine l (seq s (length l)) =
      combine l1 (seq s (length l1)) ++ (a, i) :: combine l2 (seq (Datatypes.S i) (length l2)).
Proof.
  induction l as [|b t IH]; intros s a i H; cbn [length seq combine] in *.
  - destruct H.
  - destruct H as [H|H].
    + injection H as -> ->. exists [], t. cbn [app length seq combine].
      split; [reflexivity|]. split; [lia|]. reflexivity.
    + destruct (IH _ _ _ H) as (l1 & l2 & E & Ei & Ec). exists (b :: l1), l2.
      split; [rewrite E; reflexivity|]. split; [cbn [length]; lia|].
      cbn [length seq combine app]. rewrite Ec. reflexivity.
Qed.

Lemma remove_nth_map {A B} (f : A -> B) : forall i l,
  map f (remove_nth i l) = remove_nth i (map f l).
Proof. induction i as [|i IH]; intros [|x t]; cbn; auto. f_equal. apply IH. Qed.

Lemma remove_nth_app {A} (l1 : list A) a l2 :
  remove_nth (length l1) (l1 ++ a :: l2) = l1 ++ l2.
Proof. induction l1 as [|b l1 IH]; cbn; auto. f_equal; auto. Qed.

Lemma remove_nth_In {A} (x : A) : forall i l, In x (remove_nth i l) -> In x l.
Proof.
  induction i as [|i IH]; intros [|y t] H; cbn in *; auto.
  destruct H as [H|H]; auto.
Qed.

Lemma remove_nth_perm {A} (d : A) : forall i l, (i < length l)%nat ->
  Permutation l (nth i l d :: remove_nth i l).
Proof.
  induction i as [|i IH]; intros [|x t] H; cbn in *; try lia; auto.
  rewrite perm_swap. constructor. apply IH. lia.
Qed.

Lemma nth_In_remove_nth {A} (d : A) : forall i j l, i <> j -> (j < length l)%nat ->
  In (nth j l d) (remove_nth i l).
Proof.
  induction i as [|i IH]; intros [|j] [|x t] Hij Hj; cbn in *; try lia; auto.
  - apply nth_In. lia.
  - right. apply IH; lia.
Qed.

(* ---- StronglySorted *)
Lemma SS_remove {A} (R : A -> A -> Prop) l1 a l2 :
  StronglySorted R (l1 ++ a :: l2) -> StronglySorted R (l1 ++ l2).
Proof.
  induction l1 as [|b l1 IH]; cbn; intros H.
  - inversion H; auto.
  - inversion H as [|? ? Hs Hf]; subst. constructor; auto.
    rewrite Forall_app in *. destruct Hf as [F1 F2]. split; auto. inversion F2; auto.
Qed.

Lemma SS_impl_in {A} (R1 R2 : A -> A -> Prop) l :
  (forall a b, In a l -> In b l -> R1 a b -> R2 a b) ->
  StronglySorted R1 l -> StronglySorted R2 l.
Proof.
  intros H HS. induction HS as [|a l HS IH HF]; constructor.
  - apply IH. intros; apply H; simpl; auto.
  - rewrite Forall_forall in *. intros b Hb. apply H; simpl; auto.
Qed.

Lemma SS_map {A B} (f : A -> B) (R : B -> B -> Prop) l :
  StronglySorted (fun a b => R (f a) (f b)) l -> StronglySorted R (map f l).
Proof.
  induction 1 as [|a l HS IH HF]; cbn; constructor; auto.
  rewrite Forall_forall in *. intros b Hb. apply in_map_iff in Hb.
  destruct Hb as [c [<- Hc]]. auto.
Qed.

Lemma SS_app_inv {A} (R : A -> A -> Prop) l1 l2 :
  StronglySorted R (l1 ++ l2) ->
  StronglySorted R l1 /\ StronglySorted R l2 /\ forall a b, In a l1 -> In b l2 -> R a b.
Proof.
  induction l1 as [|x l1 IH]; cbn; intros H.
  - split; [constructor|]. split; auto. intros a b [].
  - inversion H as [|? ? Hs Hf]; subst. destruct (IH Hs) as (S1 & S2 & S12).
    rewrite Forall_app in Hf. destruct Hf as [F1 F2]. split; [constructor; auto|]. split; auto.
    intros a b [<-|Ha] Hb; auto. rewrite Forall_forall in F2. auto.
Qed.

Lemma SS_app {A} (R : A -> A -> Prop) l1 l2 :
  StronglySorted R l1 -> StronglySorted R l2 -> (forall a b, In a l1 -> In b l2 -> R a b) ->
  StronglySorted R (l1 ++ l2).
Proof.
  induction 1 as [|x l1 HS IH HF]; cbn; intros H2 H12; auto.
  constructor.
  - apply IH; auto; intros; apply H12; simpl; auto.
  - rewrite Forall_app. split; auto. rewrite Forall_forall. intros b Hb. apply H12; simpl; auto.
Qed.

Lemma SS_rev {A} (R : A -> A -> Prop) l :
  StronglySorted R l -> StronglySorted (fun a b => R b a) (rev l).
Proof.
  induction 1 as [|x l HS IH HF]; cbn; [constructor|].
  apply SS_app; auto.
  - constructor; constructor.
  - intros a b Ha [<-|[]]. rewrite Forall_forall in HF. apply HF. now apply in_rev.
Qed.

(* ========================================================================================== *)
(* 1. the lexicographic insertion sort *)

Definition lex_le (p q : Z * Z) : Prop := fst p < fst q \/ (fst p = fst q /\ snd p <= snd q).
Definition lexR (a b : ipoint) : Prop := lex_le (fst a) (fst b).

Lemma lex_lt_true a b : lex_lt a b = true -> lexR a b.
Proof.
  destruct a as [[x y] i], b as [[x' y'] j]. unfold lex_lt, lexR, lex_le. cbn [fst snd].
  destruct (Z.ltb_spec x x'); [intros; lia|].
  destruct (Z.ltb_spec x' x); [discriminate|].
  destruct (Z.ltb_spec y y'); [intros; lia|discriminate].
Qed.

Lemma lex_lt_false a b : lex_lt a b = false -> lexR b a.
Proof.
  destruct a as [[x y] i], b as [[x' y'] j]. unfold lex_lt, lexR, lex_le. cbn [fst snd].
  destruct (Z.ltb_spec x x'); [discriminate|].
  destruct (Z.ltb_spec x' x); [intros; lia|].
  destruct (Z.ltb_spec y y'); [discriminate|intros; lia].
Qed.

Lemma lexR_trans a b c : lexR a b -> lexR b c -> lexR a c.
Proof. unfold lexR, lex_le. lia. Qed.

Lemma insert_lex_perm p l : Permutation (insert_lex p l) (p :: l).
Proof.
  induction l as [|q t IH]; cbn [insert_lex]; auto.
  destruct (lex_lt q p); auto. rewrite IH. apply perm_swap.
Qed.

Lemma sort_lex_perm l : Permutation (sort_lex l) l.
Proof.
  induction l as [|p l IH]; cbn [sort_lex fold_right]; auto.
  fold (sort_lex l). rewrite insert_lex_perm. now constructor.
Qed.

Lemma insert_lex_sorted p l : StronglySorted lexR l -> StronglySorted lexR (insert_lex p l).
Proof.
  induction 1 as [|q t HS IH HF]; cbn [insert_lex].
  - constructor; constructor.
  - destruct (lex_lt q p) eqn:E.
    + constructor; auto.
      eapply Permutation_Forall; [symmetry; apply insert_lex_perm|].
      constructor; auto. now apply lex_lt_true.
    + apply lex_lt_false in E. constructor; [constructor; auto|]. constructor; auto.
      rewrite Forall_forall in *. intros b Hb. eapply lexR_trans; [exact E|]. now apply HF.
Qed.

Lemma sort_lex_sorted l : StronglySorted lexR (sort_lex l).
Proof.
  induction l as [|p l IH]; cbn [sort_lex fold_right]; [constructor|].
  fold (sort_lex l). now apply insert_lex_sorted.
Qed.

(* ========================================================================================== *)
(* 2. staircases: x non-decreasing, y non-increasing (what a lex-sorted mutually non-dominated
      list with duplicates looks like); on a staircase the sweep is a plain sum *)

Definition stairR (p q : Z * Z) : Prop := fst p <= fst q /\ snd q <= snd p.

Fixpoint stair (r0 prev : Z) (P : list (Z * Z)) : Z :=
  match P with
  | [] => 0
  | (x, y) :: t => (r0 - x) * (prev - y) + stair r0 y t
  end.

Lemma sweep_stair r0 : forall P vol m,
  StronglySorted stairR P -> (forall p, In p P -> snd p <= m) ->
  fst (fold_left (sweep_step r0) P (vol, m)) = vol + stair r0 m P.
Proof.
  induction P as [|[x y] t IH]; intros vol m HS Hm; cbn [fold_left stair].
  - cbn [fst]. lia.
  - inversion HS as [|? ? HS' HF]; subst. rewrite Forall_forall in HF.
    pose proof (Hm (x, y) (or_introl eq_refl)) as Hy. cbn [snd] in Hy.
    assert (Ht : forall p, In p t -> snd p <= y).
    { intros p Hp. destruct (HF p Hp) as [_ H']. exact H'. }
    unfold sweep_step at 2. cbn [fst snd]. destruct (Z.ltb_spec 0 (m - y)) as [Hd|Hd].
    + rewrite IH by auto. lia.
    + assert (m = y) by lia. subst m. rewrite IH by auto.
      replace (y - y) with 0 by lia. lia.
Qed.

Lemma hv2d_sweep_stair r0 r1 P :
  StronglySorted stairR P -> (forall p, In p P -> snd p <= r1) ->
  hv2d_sweep r0 r1 P = stair r0 r1 P.
Proof.
  intros HS Hm. destruct P as [|[x y] t]; unfold hv2d_sweep; cbn [stair]; auto.
  inversion HS as [|? ? HS' HF]; subst. rewrite Forall_forall in HF.
  cbn [fst snd]. rewrite sweep_stair; auto.
  intros p Hp. destruct (HF p Hp) as [_ H']. exact H'.
Qed.

Lemma stair_sorted_x P : StronglySorted stairR P -> sorted_x P.
Proof.
  induction 1 as [|p t HS IH HF]; constructor; auto.
  rewrite Forall_forall in HF. intros q Hq. destruct (HF q Hq) as [H' _]. exact H'.
Qed.

(* ========================================================================================== *)
(* 3. the coded contribution loop, sentinel removed *)

Definition nextx (r0 : Z) (t : list ipoint) : Z :=
  match t with ((x', _), _) :: _ => x' | [] => r0 end.

Fixpoint contribs' (r0 prev : Z) (L : list ipoint) : list (Z * nat) :=
  match L with
  | [] => []
  | ((x, y), i) :: t => ((nextx r0 t - x) * (prev - y), i) :: contribs' r0 y t
  end.

Lemma contribs_sentinel r0 s : forall L prev,
  contribs prev (L ++ [((r0, 0), s)]) = contribs' r0 prev L.
Proof.
  induction L as [|[[x y] i] t IH]; intros prev.
  - reflexivity.
  - cbn [contribs' app]. specialize (IH y).
    destruct t as [|[[x' y'] j] t'].
    + reflexivity.
    + cbn [app] in *. cbn [contribs]. cbn [contribs] in IH. cbn [nextx].
      f_equal. exact IH.
Qed.

Lemma contribs'_snd r0 : forall L prev, map snd (contribs' r0 prev L) = map snd L.
Proof.
  induction L as [|[[x y] i] t IH]; intros prev; cbn [contribs' map snd]; auto.
  f_equal. apply IH.
Qed.

(* each reported value is "sum with the point" minus "sum without the point" *)
Lemma contribs'_spec r0 : forall L prev v i, In (v, i) (contribs' r0 prev L) ->
  exists L1 x y L2, L = L1 ++ ((x, y), i) :: L2 /\
    v = stair r0 prev (map fst L) - stair r0 prev (map fst (L1 ++ L2)).
Proof.
  induction L as [|[[x y] j] t IH]; intros prev v i H; cbn [contribs'] in H.
  - destruct H.
  - destruct H as [H|H].
    + injection H as <- <-. exists [], x, y, t. split; [reflexivity|].
      cbn [app map fst stair].
      destruct t as [|[[x' y'] j'] t']; cbn [nextx map fst stair]; ring.
    + destruct (IH _ _ _ H) as (L1 & x1 & y1 & L2 & E & Ev).
      exists (((x, y), j) :: L1), x1, y1, L2.
      split; [rewrite E; reflexivity|]. rewrite Ev. cbn [app map fst stair]. ring.
Qed.

(* ========================================================================================== *)
(* 4. from the hypotheses on the point set to a staircase *)

Definition mutually_nondominated (S : list point) : Prop :=
  forall p q, In p S -> In q S -> ~ dominates p q.

Definition strictly_below (ref : point) (S : list point) : Prop :=
  forall p, In p S -> Forall2 Z.lt p ref.

Lemma strictly_below_below_ref ref S : strictly_below ref S -> below_ref ref S.
Proof.
  intros H p Hp. specialize (H p Hp). clear Hp. unfold leq_all.
  induction H as [|x y l l' Hxy H IH]; constructor; [lia|exact IH].
Qed.

Lemma below_ref_pair r0 r1 S p : below_ref [r0; r1] S -> In p S ->
  exists x y, p = [x; y] /\ x <= r0 /\ y <= r1.
Proof.
  intros HB Hp. specialize (HB p Hp).
  inversion HB as [|x a t1 t2 Hx Ht]; subst. inversion Ht as [|y b t3 t4 Hy Ht']; subst.
  inversion Ht'; subst. exists x, y. auto.
Qed.

Lemma dominates_pair x y x' y' : x <= x' -> y <= y' -> (x < x' \/ y < y') ->
  dominates [x; y] [x'; y'].
Proof.
  intros Hx Hy Hs. split.
  - constructor; [lia|]. constructor; [lia|]. constructor.
  - destruct Hs as [Hs|Hs]; [now apply lt_here|]. apply lt_there. now apply lt_here.
Qed.

Lemma nd_lex_stair r0 r1 S : below_ref [r0; r1] S -> mutually_nondominated S ->
  forall a b, In a (map to_pair S) -> In b (map to_pair S) -> lex_le a b -> stairR a b.
Proof.
  intros HB HND a b Ha Hb Hle.
  apply in_map_iff in Ha. destruct Ha as [p [<- Hp]].
  apply in_map_iff in Hb. destruct Hb as [q [<- Hq]].
  destruct (below_ref_pair r0 r1 S p HB Hp) as (x & y & -> & _ & _).
  destruct (below_ref_pair r0 r1 S q HB Hq) as (x' & y' & -> & _ & _).
  unfold lex_le, stairR in *. cbn [to_pair fst snd] in *.
  destruct (Z.le_gt_cases y' y) as [Hy|Hy]; [lia|].
  exfalso. apply (HND _ _ Hp Hq). apply dominates_pair; lia.
Qed.

Lemma indexed_fst S : map fst (indexed S) = map to_pair S.
Proof. unfold indexed. apply map_fst_combine. now rewrite map_length, seq_length. Qed.

Lemma indexed_snd S : map snd (indexed S) = seq 0 (length S).
Proof. unfold indexed. apply map_snd_combine. now rewrite map_length, seq_length. Qed.

Lemma indexed_eq S :
  indexed S = combine (map to_pair S) (seq 0 (length (map to_pair S))).
Proof. unfold indexed. now rewrite map_length. Qed.

Lemma sorted_is_stair r0 r1 S L : below_ref [r0; r1] S -> mutually_nondominated S ->
  Permutation L (indexed S) -> StronglySorted lexR L ->
  StronglySorted stairR (map fst L).
Proof.
  intros HB HND HP HL. apply SS_map.
  apply (SS_impl_in lexR); [|exact HL].
  intros a b Ha Hb Hab.
  assert (K : forall e, In e L -> In (fst e) (map to_pair S)).
  { intros e He. rewrite <- indexed_fst. apply in_map.
    eapply Permutation_in; [exact HP|exact He]. }
  apply (nd_lex_stair r0 r1 S HB HND); auto.
Qed.

(* hypervolume of a set = plain staircase sum over any staircase arrangement of its points *)
Lemma hv_spec_stair r0 r1 S P : below_ref [r0; r1] S ->
  Permutation P (map to_pair S) -> StronglySorted stairR P ->
  hv_spec [r0; r1] S = stair r0 r1 P.
Proof.
  intros HB HP HS. rewrite <- hv2d_sweep_stair; auto.
  - symmetry. apply hv2d_sweep_correct; auto.
    + intros p. split; apply Permutation_in; auto. now apply Permutation_sym.
    + now apply stair_sorted_x.
  - intros p Hp. apply (Permutation_in _ HP) in Hp. apply in_map_iff in Hp.
    destruct Hp as [q [<- Hq]].
    destruct (below_ref_pair r0 r1 S q HB Hq) as (x & y & -> & _ & Hy). exact Hy.
Qed.

(* removing the entry with index i from the sorted list = removing point i from the set *)
Lemma removal_perm S L1 x y i L2 :
  Permutation (L1 ++ ((x, y), i) :: L2) (indexed S) ->
  Permutation (map fst (L1 ++ L2)) (map to_pair (remove_nth i S)).
Proof.
  intros HP.
  assert (Hin : In ((x, y), i) (indexed S)).
  { eapply Permutation_in; [exact HP|]. apply in_elt. }
  rewrite indexed_eq in Hin, HP.
  destruct (combine_seq_split _ _ _ _ Hin) as (l1 & l2 & E & Ei & Ec).
  rewrite Ec in HP. apply Permutation_app_inv in HP.
  apply (Permutation_map fst) in HP.
  rewrite (map_app fst (combine _ _)) in HP.
  rewrite !map_fst_combine in HP by now rewrite seq_length.
  rewrite remove_nth_map, E. cbn [Nat.add] in Ei. rewrite Ei, remove_nth_app. exact HP.
Qed.

Lemma below_ref_remove ref S i : below_ref ref S -> below_ref ref (remove_nth i S).
Proof. intros HB p Hp. apply HB. eapply remove_nth_In; eauto. Qed.

(* ========================================================================================== *)
(* 5. main theorem *)

(* for ANY lexicographically sorted arrangement L of the indexed points (std::sort leaves the
   order of equal points unspecified) *)
Lemma contribs_In_any_tie_order r0 r1 S L s v i :
  below_ref [r0; r1] S -> mutually_nondominated S ->
  Permutation L (indexed S) -> StronglySorted lexR L ->
  In (v, i) (contribs r1 (L ++ [((r0, 0), s)])) -> v = contrib_spec [r0; r1] S i.
Proof.
  intros HB HND HP HL Hin. rewrite contribs_sentinel in Hin.
  destruct (contribs'_spec _ _ _ _ _ Hin) as (L1 & x & y & L2 & E & ->).
  pose proof (sorted_is_stair r0 r1 S L HB HND HP HL) as HS.
  unfold contrib_spec.
  rewrite (hv_spec_stair r0 r1 S (map fst L)); auto.
  2:{ rewrite <- indexed_fst. now apply Permutation_map. }
  rewrite (hv_spec_stair r0 r1 (remove_nth i S) (map fst (L1 ++ L2))); auto.
  - now apply below_ref_remove.
  - apply (removal_perm S L1 x y i L2). now rewrite <- E.
  - rewrite E, map_app in HS. cbn [map] in HS. apply SS_remove in HS. now rewrite map_app.
Qed.

Theorem contribs_any_tie_order r0 r1 S L s :
  below_ref [r0; r1] S -> mutually_nondominated S ->
  Permutation L (indexed S) -> StronglySorted lexR L ->
  Permutation (contribs r1 (L ++ [((r0, 0), s)]))
              (combine (contribs_spec [r0; r1] S) (seq 0 (length S))).
Proof.
  intros HB HND HP HL.
  rewrite (pairs_as_map (contrib_spec [r0; r1] S) (contribs r1 (L ++ [((r0, 0), s)]))).
  2:{ intros v i Hin. now apply (contribs_In_any_tie_order r0 r1 S L s). }
  unfold contribs_spec. rewrite combine_map_self. apply Permutation_map.
  rewrite contribs_sentinel, contribs'_snd, <- indexed_snd.
  now apply Permutation_map.
Qed.

Theorem contrib2d_ref_correct ref S :
  length ref = 2%nat -> below_ref ref S -> mutually_nondominated S ->
  Permutation (contrib2d_ref ref S) (combine (contribs_spec ref S) (seq 0 (length S))).
Proof.
  intros Hl HB HND. destruct ref as [|r0 [|r1 [|? ?]]]; try discriminate.
  unfold contrib2d_ref. apply contribs_any_tie_order; auto.
  - apply sort_lex_perm.
  - apply sort_lex_sorted.
Qed.

Corollary contrib2d_ref_correct_strict ref S :
  length ref = 2%nat -> strictly_below ref S -> mutually_nondominated S ->
  Permutation (contrib2d_ref ref S) (combine (contribs_spec ref S) (seq 0 (length S))).
Proof. intros Hl HB. apply contrib2d_ref_correct; auto. now apply strictly_below_below_ref. Qed.

(* per-index form: index i is reported exactly once... with exactly the true contribution *)
Theorem contrib2d_ref_value ref S :
  length ref = 2%nat -> below_ref ref S -> mutually_nondominated S ->
  forall v i, In (v, i) (contrib2d_ref ref S) <->
              ((i < length S)%nat /\ v = contrib_spec ref S i).
Proof.
  intros Hl HB HND v i.
  pose proof (contrib2d_ref_correct ref S Hl HB HND) as HP.
  unfold contribs_spec in HP. rewrite combine_map_self in HP.
  split.
  - intros Hin. apply (Permutation_in _ HP) in Hin. apply in_map_iff in Hin.
    destruct Hin as [j [Ej Hj]]. injection Ej as <- <-. apply in_seq in Hj. split; [lia|auto].
  - intros [Hi ->]. apply (Permutation_in _ (Permutation_sym HP)).
    apply in_map_iff. exists i. split; auto. apply in_seq. lia.
Qed.

Theorem contrib2d_ref_indices ref S :
  length ref = 2%nat -> below_ref ref S -> mutually_nondominated S ->
  Permutation (map snd (contrib2d_ref ref S)) (seq 0 (length S)) /\
  Permutation (map fst (contrib2d_ref ref S)) (contribs_spec ref S).
Proof.
  intros Hl HB HND. pose proof (contrib2d_ref_correct ref S Hl HB HND) as HP.
  assert (L : length (contribs_spec ref S) = length (seq 0 (length S))).
  { unfold contribs_spec. now rewrite map_length. }
  split.
  - apply (Permutation_map snd) in HP. now rewrite map_snd_combine in HP.
  - apply (Permutation_map fst) in HP. now rewrite map_fst_combine in HP.
Qed.

(* ---- duplicates have contribution 0 (any dimension, any reference point) *)
Theorem contrib_spec_duplicate (ref : point) (S : list point) i j :
  (i < length S)%nat -> (j < length S)%nat -> i <> j -> nth i S [] = nth j S [] ->
  contrib_spec ref S i = 0.
Proof.
  intros Hi Hj Hij E. unfold contrib_spec.
  pose proof (hv_spec_perm ref S _ (@remove_nth_perm point [] i S Hi)) as H1.
  pose proof (hv_spec_add_duplicate ref (remove_nth i S) (nth i S [])) as H2.
  rewrite H1, H2; [apply Z.sub_diag|].
  rewrite E. now apply nth_In_remove_nth.
Qed.

Corollary contrib2d_ref_duplicate ref S v i j :
  length ref = 2%nat -> below_ref ref S -> mutually_nondominated S ->
  In (v, i) (contrib2d_ref ref S) -> (j < length S)%nat -> i <> j -> nth i S [] = nth j S [] ->
  v = 0.
Proof.
  intros Hl HB HND Hin Hj Hij E.
  apply (contrib2d_ref_value ref S Hl HB HND) in Hin. destruct Hin as [Hi ->].
  now apply (contrib_spec_duplicate ref S i j).
Qed.

(* ========================================================================================== *)
(* 6. k-selection *)

Lemma insert_z_comm a b : forall l, insert_z a (insert_z b l) = insert_z b (insert_z a l).
Proof.
  induction l as [|w t IH];
  repeat (cbn [insert_z];
          match goal with |- context [(?x <=? ?y)] => destruct (Z.leb_spec x y) end);
  cbn [insert_z]; try lia; try reflexivity;
  try (assert (a = b) by lia; subst; reflexivity);
  try (f_equal; exact IH).
Qed.

Lemma sort_z_perm_eq l l' : Permutation l l' -> sort_z l = sort_z l'.
Proof.
  induction 1 as [|x l l' HP IH|x y l|l l' l'' H1 IH1 H2 IH2]; cbn [sort_z fold_right]; auto.
  - fold (sort_z l) (sort_z l'). now rewrite IH.
  - apply insert_z_comm.
  - congruence.
Qed.

Lemma insert_z_perm v l : Permutation (insert_z v l) (v :: l).
Proof.
  induction l as [|w t IH]; cbn [insert_z]; auto.
  destruct (v <=? w); auto. rewrite IH. apply perm_swap.
Qed.

Lemma sort_z_perm l : Permutation (sort_z l) l.
Proof.
  induction l as [|v l IH]; cbn [sort_z fold_right]; auto.
  fold (sort_z l). rewrite insert_z_perm. now constructor.
Qed.

Lemma insert_z_sorted v l : StronglySorted Z.le l -> StronglySorted Z.le (insert_z v l).
Proof.
  induction 1 as [|w t HS IH HF]; cbn [insert_z].
  - constructor; constructor.
  - destruct (Z.leb_spec v w).
    + constructor; [constructor; auto|]. constructor; auto.
      rewrite Forall_forall in *. intros b Hb. specialize (HF b Hb). lia.
    + constructor; auto.
      eapply Permutation_Forall; [symmetry; apply insert_z_perm|]. constructor; auto. lia.
Qed.

Lemma sort_z_sorted l : StronglySorted Z.le (sort_z l).
Proof.
  induction l as [|v l IH]; cbn [sort_z fold_right]; [constructor|].
  fold (sort_z l). now apply insert_z_sorted.
Qed.

(* the first k of a sorted arrangement s of l are k R-extremal elements of l; no padding when
   k <= length l *)
Lemma firstk_extremal (R : Z -> Z -> Prop) s l k :
  StronglySorted R s -> Permutation s l -> (k <= length l)%nat ->
  pad_k k (firstn k s) = firstn k s /\
  length (firstn k s) = k /\
  StronglySorted R (firstn k s) /\
  exists rest, Permutation (firstn k s ++ rest) l /\
               forall a b, In a (firstn k s) -> In b rest -> R a b.
Proof.
  intros HS HP Hk.
  assert (Hlen : length (firstn k s) = k).
  { rewrite firstn_length, (Permutation_length HP). lia. }
  rewrite <- (firstn_skipn k s) in HS. apply SS_app_inv in HS. destruct HS as (S1 & S2 & S12).
  split; [|split; [auto|split; [auto|]]].
  - unfold pad_k. rewrite firstn_app, Hlen, Nat.sub_diag. cbn [firstn]. rewrite app_nil_r.
    rewrite <- Hlen at 1. apply firstn_all.
  - exists (skipn k s). split; auto. now rewrite firstn_skipn.
Qed.

Definition k_extremal (R : Z -> Z -> Prop) (k : nat) (sel l : list Z) : Prop :=
  length sel = k /\ StronglySorted R sel /\
  exists rest, Permutation (sel ++ rest) l /\ forall a b, In a sel -> In b rest -> R a b.

Lemma smallest_k_extremal k l : (k <= length l)%nat ->
  smallest_k k l = firstn k (sort_z l) /\ k_extremal Z.le k (smallest_k k l) l.
Proof.
  intros Hk. unfold smallest_k, k_extremal.
  destruct (firstk_extremal Z.le (sort_z l) l k (sort_z_sorted l) (sort_z_perm l) Hk)
    as (-> & H1 & H2 & H3). auto.
Qed.

Lemma largest_k_extremal k l : (k <= length l)%nat ->
  largest_k k l = firstn k (rev (sort_z l)) /\ k_extremal Z.ge k (largest_k k l) l.
Proof.
  intros Hk. unfold largest_k, k_extremal.
  assert (HS : StronglySorted Z.ge (rev (sort_z l))).
  { apply (SS_impl_in (fun a b => b <= a)); [intros; lia|]. apply SS_rev, sort_z_sorted. }
  assert (HP : Permutation (rev (sort_z l)) l).
  { rewrite <- Permutation_rev. apply sort_z_perm. }
  destruct (firstk_extremal Z.ge (rev (sort_z l)) l k HS HP Hk) as (-> & H1 & H2 & H3). auto.
Qed.

(* selection on the model's values = selection on the true contributions (all k) *)
Theorem smallest_k_contrib2d ref S k :
  length ref = 2%nat -> below_ref ref S -> mutually_nondominated S ->
  smallest_k k (map fst (contrib2d_ref ref S)) = smallest_k k (contribs_spec ref S).
Proof.
  intros Hl HB HND. unfold smallest_k. f_equal. f_equal. apply sort_z_perm_eq.
  apply (contrib2d_ref_indices ref S Hl HB HND).
Qed.

Theorem largest_k_contrib2d ref S k :
  length ref = 2%nat -> below_ref ref S -> mutually_nondominated S ->
  largest_k k (map fst (contrib2d_ref ref S)) = largest_k k (contribs_spec ref S).
Proof.
  intros Hl HB HND. unfold largest_k. f_equal. f_equal. f_equal. apply sort_z_perm_eq.
  apply (contrib2d_ref_indices ref S Hl HB HND).
Qed.

(* ... and for k <= |S| (the C++ precondition) these are k extremal true contributions:
   k values, sorted, that together with some rest form the multiset of all true contributions,
   every selected value <= (>=) every value of the rest *)
Theorem smallest_k_contrib2d_extremal ref S k :
  length ref = 2%nat -> below_ref ref S -> mutually_nondominated S -> (k <= length S)%nat ->
  k_extremal Z.le k (smallest_k k (map fst (contrib2d_ref ref S))) (contribs_spec ref S).
Proof.
  intros Hl HB HND Hk. rewrite smallest_k_contrib2d by auto.
  apply smallest_k_extremal. unfold contribs_spec. now rewrite map_length, seq_length.
Qed.

Theorem largest_k_contrib2d_extremal ref S k :
  length ref = 2%nat -> below_ref ref S -> mutually_nondominated S -> (k <= length S)%nat ->
  k_extremal Z.ge k (largest_k k (map fst (contrib2d_ref ref S))) (contribs_spec ref S).
Proof.
  intros Hl HB HND Hk. rewrite largest_k_contrib2d by auto.
  apply largest_k_extremal. unfold contribs_spec. now rewrite map_length, seq_length.
Qed.

(* ========================================================================================== *)
(* 7. the hypotheses are satisfiable; values on an example with a duplicate *)

Lemma mutually_nondominated_dec_check (S : list point) :
  (forall p q, In p S -> In q S -> length p = length q) ->
  forallb (fun p => forallb (fun q => negb (domb p q)) S) S = true -> mutually_nondominated S.
Proof.
  intros HL H p q Hp Hq HD. rewrite forallb_forall in H. specialize (H p Hp).
  rewrite forallb_forall in H. specialize (H q Hq).
  apply (domb_true_iff p q (HL p q Hp Hq)) in HD. rewrite HD in H. discriminate.
Qed.

Example contrib2d_example :
  let S := [[1; 5]; [2; 3]; [4; 2]; [2; 3]; [5; 1]] in
  strictly_below [6; 6] S /\ below_ref [6; 6] S /\ mutually_nondominated S /\
  contrib2d_ref [6; 6] S = [(1, 0%nat); (0, 1%nat); (0, 3%nat); (1, 2%nat); (1, 4%nat)] /\
  contribs_spec [6; 6] S = [1; 0; 1; 0; 1] /\
  smallest_k 2 (map fst (contrib2d_ref [6; 6] S)) = [0; 0] /\
  largest_k 2 (map fst (contrib2d_ref [6; 6] S)) = [1; 1].
Proof.
  cbv zeta.
  assert (SB : strictly_below [6; 6] [[1; 5]; [2; 3]; [4; 2]; [2; 3]; [5; 1]]).
  { intros p Hp. cbn [In] in Hp.
    repeat (destruct Hp as [<-|Hp]; [repeat constructor; lia|]). destruct Hp. }
  split; [exact SB|]. split; [now apply strictly_below_below_ref|]. split.
  - apply mutually_nondominated_dec_check; [|reflexivity].
    intros p q Hp Hq. cbn [In] in Hp, Hq.
    repeat (destruct Hp as [<-|Hp]; [repeat (destruct Hq as [<-|Hq]; [reflexivity|]); destruct Hq|]).
    destruct Hp.
  - repeat split; vm_compute; reflexivity.
Qed.

Print Assumptions contrib2d_ref_correct.
Print Assumptions contribs_any_tie_order.
Print Assumptions contrib2d_ref_correct_strict.
Print Assumptions contrib2d_ref_value.
Print Assumptions contrib2d_ref_indices.
Print Assumptions contrib_spec_duplicate.
Print Assumptions contrib2d_ref_duplicate.
Print Assumptions smallest_k_contrib2d.
Print Assumptions largest_k_contrib2d.
Print Assumptions smallest_k_contrib2d_extremal.
Print Assumptions largest_k_contrib2d_extremal.
Print Assumptions contrib2d_example.
