(* C16 — QpMcSimplexDecomp::selectWorkingSet / getSimplexMVP / maxGainBox / maxGainSimplex / checkKKT as coded
   (model C16Select.v), exact arithmetic: the returned value equals checkKKT over the active examples, which bounds
   the documented violation of every active variable / pair (eps-KKT of the simplex-constrained dual); the selected
   variables are active; maxGainBox as repaired by c9be7fe4 returns gain 0 for a first variable that cannot move, and a
   concrete invariant-satisfying state where the code before the repair selects a pair that cannot move (stall). *)
From Coq Require Import QArith Qminmax Lqa Arith Bool List Lia.
From SharkV Require Import C08Model C08Defs C08Aux C08Proofs C08ProofsBox C07Proofs C16Model C16State C16Proofs C16ProofsMc
  C16ProofsGain C16StateDefs C16GradProofs C16SimplexShrinkProofs C16Select.
Import ListNotations.
Open Scope Q_scope.

Ltac qs := cbn [o_zero o_add o_sub o_mul o_div o_ltb o_eqb o_thr o_two o_half o_big o_ten qops] in *.

Section SimSel.
Variable C : Q.

(* ---------------- getSimplexMVP ---------------- *)
Lemma mvp_full_vals (s : qmst) e : forall m,
  fst (fst (mvp_full qops s e m)) = mvp_up qops s e m /\ fst (snd (mvp_full qops s e m)) = mvp_down qops s e m.
Proof.
  induction m as [|m [I1 I2]]; cbn [mvp_full mvp_up mvp_down fst snd]; [split; reflexivity|].
  rewrite <- I1, <- I2. split.
  - destruct (o_ltb qops (fst (fst (mvp_full qops s e m))) (mgrad s (eavar s e m))); reflexivity.
  - destruct (o_ltb qops (o_zero qops) (malpha s (eavar s e m)) && o_ltb qops (mgrad s (eavar s e m)) (fst (snd (mvp_full qops s e m)))); reflexivity.
Qed.

(* the indices are slots that were really seen *)
Lemma mvp_full_idx (s : qmst) e : forall m,
  (fst (mvp_full qops s e m) = (0 - qbig, eavar s e 0) \/ exists b, (b < m)%nat /\ snd (fst (mvp_full qops s e m)) = eavar s e b) /\
  (snd (mvp_full qops s e m) = (qbig, eavar s e 0) \/ exists b, (b < m)%nat /\ snd (snd (mvp_full qops s e m)) = eavar s e b).
Proof.
  induction m as [|m [I1 I2]]; cbn [mvp_full fst snd]; qs; [split; left; reflexivity|]. split.
  - destruct (qltb (fst (fst (mvp_full qops s e m))) (mgrad s (eavar s e m))).
    + right. exists m. split; [lia | reflexivity].
    + destruct I1 as [D|(b & Hb & E)]; [left; exact D | right; exists b; split; [lia | exact E]].
  - destruct (qltb 0 (malpha s (eavar s e m)) && qltb (mgrad s (eavar s e m)) (fst (snd (mvp_full qops s e m)))).
    + right. exists m. split; [lia | reflexivity].
    + destruct I2 as [D|(b & Hb & E)]; [left; exact D | right; exists b; split; [lia | exact E]].
Qed.

(* ---------------- checkKKT: upper bound of every documented violation ---------------- *)
Lemma maxA_ub x y : x <= maxA qops x y /\ y <= maxA qops x y.
Proof. rewrite maxA_q. destruct (qltb_spec x y) as [[E X]|[E X]]; rewrite E; split; lra. Qed.
Lemma maxA_lub x y z : x <= z -> y <= z -> maxA qops x y <= z.
Proof. intros. rewrite maxA_q. destruct (qltb x y); assumption. Qed.

(* one round of checkKKT on plain numbers *)
Definition kstep (vs r up dn : Q) : Q :=
  let r1 := maxA qops (0 - dn) r in
  let r2 := if qltb vs C then maxA qops up r1 else r1 in
  if Qeq_bool vs C then maxA qops (up - dn) r2 else r2.

Lemma kstep_ub vs r up dn :
  r <= kstep vs r up dn /\ - dn <= kstep vs r up dn /\ (vs < C -> up <= kstep vs r up dn) /\ (vs == C -> up - dn <= kstep vs r up dn).
Proof.
  unfold kstep. cbv zeta.
  pose proof (maxA_ub (0 - dn) r) as [A1 A2]. set (r1 := maxA qops (0 - dn) r) in *.
  destruct (qltb_spec vs C) as [[E1 X1]|[E1 X1]]; rewrite E1.
  - pose proof (maxA_ub up r1) as [B1 B2]. set (r2 := maxA qops up r1) in *.
    destruct (qeqb_spec vs C) as [[E2 X2]|[E2 X2]]; rewrite E2.
    + exfalso. lra.
    + repeat split; intros; lra.
  - destruct (qeqb_spec vs C) as [[E2 X2]|[E2 X2]]; rewrite E2.
    + pose proof (maxA_ub (up - dn) r1) as [B1 B2]. repeat split; intros; lra.
    + repeat split; intros; try lra; try contradiction.
Qed.

Lemma kstep_lub vs r up dn z : r <= z -> - dn <= z -> (vs < C -> up <= z) -> (vs == C -> up - dn <= z) -> kstep vs r up dn <= z.
Proof.
  intros H1 H2 H3 H4. unfold kstep. cbv zeta.
  assert (R1 : maxA qops (0 - dn) r <= z) by (apply maxA_lub; lra).
  set (r1 := maxA qops (0 - dn) r) in *.
  destruct (qltb_spec vs C) as [[E1 X1]|[E1 X1]]; rewrite E1.
  - assert (R2 : maxA qops up r1 <= z) by (apply maxA_lub; [apply H3; exact X1 | exact R1]).
    destruct (qeqb_spec vs C) as [[E2 X2]|[E2 X2]]; rewrite E2; [exfalso; lra | exact R2].
  - destruct (qeqb_spec vs C) as [[E2 X2]|[E2 X2]]; rewrite E2; [|exact R1].
    apply maxA_lub; [apply H4; exact X2 | exact R1].
Qed.

Lemma skkt_S (s : qmst) m : skkt qops C s (S m) =
  kstep (evsum s m) (skkt qops C s m) (mvp_up qops s m (eact s m)) (mvp_down qops s m (eact s m)).
Proof. reflexivity. Qed.

Lemma skkt_nonneg (s : qmst) : forall m, 0 <= skkt qops C s m.
Proof.
  induction m as [|m IH]; [cbn [skkt]; qs; lra|]. rewrite skkt_S.
  destruct (kstep_ub (evsum s m) (skkt qops C s m) (mvp_up qops s m (eact s m)) (mvp_down qops s m (eact s m))) as (A & _). lra.
Qed.

Lemma skkt_ub (s : qmst) : forall m e, (e < m)%nat ->
  let up := mvp_up qops s e (eact s e) in let down := mvp_down qops s e (eact s e) in
  - down <= skkt qops C s m /\ (evsum s e < C -> up <= skkt qops C s m) /\ (evsum s e == C -> up - down <= skkt qops C s m).
Proof.
  induction m as [|m IH]; intros e He; [lia|]. rewrite skkt_S.
  destruct (kstep_ub (evsum s m) (skkt qops C s m) (mvp_up qops s m (eact s m)) (mvp_down qops s m (eact s m))) as (A1 & A2 & A3 & A4).
  destruct (Nat.eq_dec e m) as [->|Ne].
  - cbv zeta. split; [exact A2|]. split; assumption.
  - destruct (IH e ltac:(lia)) as (B1 & B2 & B3). cbv zeta in B1, B2, B3 |- *.
    split; [lra|]. split; intros H; [specialize (B2 H) | specialize (B3 H)]; lra.
Qed.

(* eps-KKT of the simplex-constrained dual on the active variables *)
Theorem skkt_eps (s : qmst) m eps : skkt qops C s m < eps ->
  forall e, (e < m)%nat -> forall b, (b < eact s e)%nat ->
  let v := eavar s e b in
  (0 < malpha s v -> - eps < mgrad s v) /\
  (evsum s e < C -> mgrad s v < eps) /\
  (evsum s e == C -> forall b', (b' < eact s e)%nat -> 0 < malpha s (eavar s e b') -> mgrad s v - mgrad s (eavar s e b') < eps).
Proof.
  intros H e He b Hb v. destruct (skkt_ub s m e He) as (A1 & A2 & A3). cbv zeta in A1, A2, A3.
  pose proof (mvp_up_ge s e _ b Hb) as U. fold v in U.
  split; [|split].
  - intros Pz. pose proof (mvp_down_le s e _ b Hb Pz) as D. fold v in D. lra.
  - intros Hc. specialize (A2 Hc). lra.
  - intros Hc b' Hb' Pz. specialize (A3 Hc). pose proof (mvp_down_le s e _ b' Hb' Pz). lra.
Qed.

(* ---------------- first order loop of selectWorkingSet ---------------- *)
(* one round on plain numbers: (maxGradient, maxSimplexGradient) *)
Definition gstep (cg : bool) (mg msg up dn : Q) : Q * Q :=
  let msg1 := if negb cg && qltb msg (up - dn) then up - dn else msg in
  let mg1 := if cg && qltb mg up then up else mg in
  (if qltb mg1 (0 - dn) then 0 - dn else mg1, msg1).

Lemma gstep_ub cg mg msg up dn :
  mg <= fst (gstep cg mg msg up dn) /\ msg <= snd (gstep cg mg msg up dn) /\ - dn <= fst (gstep cg mg msg up dn) /\
  (cg = true -> up <= fst (gstep cg mg msg up dn)) /\ (cg = false -> up - dn <= snd (gstep cg mg msg up dn)).
Proof.
  unfold gstep. cbv zeta. cbn [fst snd]. destruct cg; cbn [negb andb].
  - destruct (qltb_spec mg up) as [[E1 X1]|[E1 X1]]; rewrite E1;
    match goal with |- context [qltb ?a ?b] => destruct (qltb_spec a b) as [[E2 X2]|[E2 X2]]; rewrite E2 end;
    repeat split; intros; try lra; discriminate.
  - destruct (qltb_spec msg (up - dn)) as [[E1 X1]|[E1 X1]]; rewrite E1;
    destruct (qltb_spec mg (0 - dn)) as [[E2 X2]|[E2 X2]]; rewrite E2;
    repeat split; intros; try lra; discriminate.
Qed.

Lemma gstep_lub cg mg msg up dn z : mg <= z -> msg <= z -> - dn <= z -> (cg = true -> up <= z) -> (cg = false -> up - dn <= z) ->
  fst (gstep cg mg msg up dn) <= z /\ snd (gstep cg mg msg up dn) <= z.
Proof.
  intros H1 H2 H3 H4 H5. unfold gstep. cbv zeta. cbn [fst snd]. destruct cg; cbn [negb andb].
  - specialize (H4 eq_refl). destruct (qltb mg up); match goal with |- context [qltb ?a ?b] => destruct (qltb a b) end; split; lra.
  - specialize (H5 eq_refl). destruct (qltb msg (up - dn)); destruct (qltb mg (0 - dn)); split; lra.
Qed.

Lemma ssel_first_S (s : qmst) m :
  let r := ssel_first qops C s m in let r' := ssel_first qops C s (S m) in
  let g := gstep (qltb (evsum s m) C) (sf_mg r) (sf_msg r) (mvp_up qops s m (eact s m)) (mvp_down qops s m (eact s m)) in
  sf_mg r' = fst g /\ sf_msg r' = snd g.
Proof.
  cbv zeta. cbn [ssel_first]. qs. destruct (mvp_full_vals s m (eact s m)) as [F1 F2]. rewrite F1, F2.
  unfold gstep. cbv zeta. cbn [fst snd].
  destruct (negb (qltb (evsum s m) C) && qltb (sf_msg (ssel_first qops C s m)) (mvp_up qops s m (eact s m) - mvp_down qops s m (eact s m)));
    cbn [sf_mg sf_msg];
    destruct (qltb (evsum s m) C && qltb (sf_mg (ssel_first qops C s m)) (mvp_up qops s m (eact s m))); cbn [sf_mg sf_msg];
    match goal with |- context [if qltb ?a ?b then _ else _] => destruct (qltb a b) end; cbn [sf_mg sf_msg]; split; reflexivity.
Qed.

Lemma ssel_first_kkt (s : qmst) : forall m, (forall e, (e < m)%nat -> evsum s e <= C) ->
  let r := ssel_first qops C s m in
  0 <= sf_mg r /\ 0 <= sf_msg r /\ maxA qops (sf_mg r) (sf_msg r) == skkt qops C s m.
Proof.
  induction m as [|m IH]; intros HV.
  - cbn [ssel_first skkt]. qs. cbn [sf_mg sf_msg]. rewrite maxA_q. destruct (qltb 0 0); repeat split; lra.
  - destruct (IH ltac:(intros; apply HV; lia)) as (N1 & N2 & EQ). cbv zeta in N1, N2, EQ |- *.
    destruct (ssel_first_S s m) as [G1 G2]. cbv zeta in G1, G2. rewrite G1, G2, skkt_S.
    set (r := ssel_first qops C s m) in *. set (k := skkt qops C s m) in *.
    set (up := mvp_up qops s m (eact s m)) in *. set (dn := mvp_down qops s m (eact s m)) in *.
    set (cg := qltb (evsum s m) C) in *.
    destruct (gstep_ub cg (sf_mg r) (sf_msg r) up dn) as (U1 & U2 & U3 & U4 & U5).
    destruct (kstep_ub (evsum s m) k up dn) as (K1 & K2 & K3 & K4).
    destruct (maxA_ub (sf_mg r) (sf_msg r)) as [M1 M2].
    specialize (HV m ltac:(lia)).
    assert (CgT : cg = true -> evsum s m < C) by (unfold cg; intros X; apply qltb_true; exact X).
    assert (CgF : cg = false -> evsum s m == C) by (unfold cg; intros X; apply qltb_false in X; lra).
    split; [lra|]. split; [lra|].
    set (g := gstep cg (sf_mg r) (sf_msg r) up dn) in *.
    destruct (maxA_ub (fst g) (snd g)) as [M3 M4].
    assert (LE1 : maxA qops (fst g) (snd g) <= kstep (evsum s m) k up dn).
    { destruct (gstep_lub cg (sf_mg r) (sf_msg r) up dn (kstep (evsum s m) k up dn)) as [L1 L2]; try lra.
      - intros X. apply K3. apply CgT. exact X.
      - intros X. apply K4. apply CgF. exact X.
      - fold g in L1, L2. apply maxA_lub; assumption. }
    assert (LE2 : kstep (evsum s m) k up dn <= maxA qops (fst g) (snd g)).
    { apply kstep_lub.
      - rewrite <- EQ. apply maxA_lub; lra.
      - lra.
      - intros X. assert (cg = true) by (unfold cg; apply qltb_true; exact X). specialize (U4 H). lra.
      - intros X. assert (cg = false) by (unfold cg; apply qltb_false; lra). specialize (U5 H). lra. }
    lra.
Qed.

(* the first variable is 0 or a really seen active slot; the best simplex example is an active example *)
Lemma ssel_first_idx (s : qmst) : forall m,
  let r := ssel_first qops C s m in
  0 <= sf_mg r /\ 0 <= sf_msg r /\
  (sf_i r = 0%nat \/ exists e b, (e < m)%nat /\ (b < eact s e)%nat /\ sf_i r = eavar s e b) /\
  (sf_mse r = 0%nat \/ (sf_mse r < m)%nat).
Proof.
  pose proof qbig_pos as BP.
  induction m as [|m IH]; cbn [ssel_first]; qs.
  - cbn [sf_mg sf_msg sf_i sf_mse]. repeat split; try lra; left; reflexivity.
  - cbv zeta in IH. destruct IH as (N1 & N2 & I1 & I2).
    destruct (mvp_full_vals s m (eact s m)) as [F1 F2]. destruct (mvp_full_idx s m (eact s m)) as [J1 J2].
    set (mv := mvp_full qops s m (eact s m)) in *. set (r := ssel_first qops C s m) in *.
    assert (L1 : sf_i r = 0%nat \/ exists e b, (e < S m)%nat /\ (b < eact s e)%nat /\ sf_i r = eavar s e b)
      by (destruct I1 as [Z|(e & b & H1 & H2 & H3)]; [left; exact Z | right; exists e, b; split; [lia | split; assumption]]).
    assert (L2 : sf_mse r = 0%nat \/ (sf_mse r < S m)%nat) by (destruct I2; [left; assumption | right; lia]).
    assert (UpI : 0 < fst (fst mv) -> exists e b, (e < S m)%nat /\ (b < eact s e)%nat /\ snd (fst mv) = eavar s e b).
    { intros Hp. destruct J1 as [D|(b & Hb & E)]; [rewrite D in Hp; cbn [fst] in Hp; lra | exists m, b; split; [lia | split; assumption]]. }
    assert (DnI : fst (snd mv) < 0 -> exists e b, (e < S m)%nat /\ (b < eact s e)%nat /\ snd (snd mv) = eavar s e b).
    { intros Hp. destruct J2 as [D|(b & Hb & E)]; [rewrite D in Hp; cbn [fst] in Hp; lra | exists m, b; split; [lia | split; assumption]]. }
    destruct (negb (qltb (evsum s m) C) && qltb (sf_msg r) (fst (fst mv) - fst (snd mv))) eqn:B1.
    + apply andb_true_iff in B1. destruct B1 as [_ B1]. apply qltb_true in B1. cbn [sf_mg sf_msg sf_i sf_mse].
      destruct (qltb (evsum s m) C && qltb (sf_mg r) (fst (fst mv))) eqn:B2; cbn [sf_mg sf_msg sf_i sf_mse].
      * apply andb_true_iff in B2. destruct B2 as [_ B2]. apply qltb_true in B2.
        destruct (qltb_spec (fst (fst mv)) (0 - fst (snd mv))) as [[E3 X3]|[E3 X3]]; rewrite E3; cbn [sf_mg sf_msg sf_i sf_mse].
        -- split; [lra|]. split; [lra|]. split; [right; apply DnI; lra | right; lia].
        -- split; [lra|]. split; [lra|]. split; [right; apply UpI; lra | right; lia].
      * destruct (qltb_spec (sf_mg r) (0 - fst (snd mv))) as [[E3 X3]|[E3 X3]]; rewrite E3; cbn [sf_mg sf_msg sf_i sf_mse].
        -- split; [lra|]. split; [lra|]. split; [right; apply DnI; lra | right; lia].
        -- split; [lra|]. split; [lra|]. split; [exact L1 | right; lia].
    + destruct (qltb (evsum s m) C && qltb (sf_mg r) (fst (fst mv))) eqn:B2; cbn [sf_mg sf_msg sf_i sf_mse].
      * apply andb_true_iff in B2. destruct B2 as [_ B2]. apply qltb_true in B2.
        destruct (qltb_spec (fst (fst mv)) (0 - fst (snd mv))) as [[E3 X3]|[E3 X3]]; rewrite E3; cbn [sf_mg sf_msg sf_i sf_mse].
        -- split; [lra|]. split; [lra|]. split; [right; apply DnI; lra | exact L2].
        -- split; [lra|]. split; [lra|]. split; [right; apply UpI; lra | exact L2].
      * destruct (qltb_spec (sf_mg r) (0 - fst (snd mv))) as [[E3 X3]|[E3 X3]]; rewrite E3; cbn [sf_mg sf_msg sf_i sf_mse].
        -- split; [lra|]. split; [lra|]. split; [right; apply DnI; lra | exact L2].
        -- split; [lra|]. split; [lra|]. split; [exact L1 | exact L2].
Qed.

(* ---------------- maxGainBox / maxGainSimplex: only active variables ---------------- *)
Section Idx.
Variable micro : Q.
Variable P ncl : nat.
Variable Mrow : nat -> list (nat * Q).
Variable Mdef : nat -> Q.
Variable K0 : nat -> nat -> Q.
Variable s : qmst.

Lemma sbox_inner_idx Qii gi ka vals a cg i : forall m st, (fst st = i \/ (fst st < actvar s)%nat) ->
  let st' := sbox_inner qops micro s Qii gi ka vals a cg m st in fst st' = i \/ (fst st' < actvar s)%nat.
Proof.
  induction m as [|m IH]; intros st H; cbn [sbox_inner]; [exact H|].
  specialize (IH st H). cbv zeta in IH.
  destruct (sbox_skip qops s cg (evar s a m)) eqn:Sk; [exact IH|].
  match goal with |- context [if ?c then _ else _] => destruct c end; [|exact IH].
  cbn [fst]. right. unfold sbox_skip in Sk. apply orb_false_iff in Sk. destruct Sk as [Sk _]. apply orb_false_iff in Sk. destruct Sk as [Sk _].
  destruct (Nat.leb_spec (actvar s) (evar s a m)); [discriminate | assumption].
Qed.

Lemma sbox_outer_idx e pi yi Qii gi i : forall m st, (fst st = i \/ (fst st < actvar s)%nat) ->
  let st' := sbox_outer qops micro P ncl C Mrow Mdef K0 s e pi yi Qii gi m st in fst st' = i \/ (fst st' < actvar s)%nat.
Proof.
  induction m as [|m IH]; intros st H; cbn [sbox_outer]; [exact H|].
  specialize (IH st H). cbv zeta in IH. destruct (m =? e)%nat; [exact IH|]. apply sbox_inner_idx. exact IH.
Qed.

(* maxGainBox(i): the pair is (i, i) or (i, an active variable); as repaired, a stuck first variable gives gain 0 *)
Lemma max_gain_box_idx i :
  let r := max_gain_box qops micro P ncl C Mrow Mdef K0 s i in
  fst (fst r) = i /\ (snd (fst r) = i \/ (snd (fst r) < actvar s)%nat) /\
  (sbox_stuck qops C s i = true -> r = ((i, i), 0)).
Proof.
  unfold max_gain_box. destruct (sbox_stuck qops C s i).
  - cbn [fst snd]. split; [reflexivity|]. split; [left; reflexivity | intros; reflexivity].
  - cbn [fst snd]. split; [reflexivity|]. split; [|intros X; discriminate].
    apply sbox_outer_idx. left. reflexivity.
Qed.

Definition pair_ok (pr : nat * nat) : Prop := pr = (0%nat, 0%nat) \/ ((fst pr < actvar s)%nat /\ (snd pr < actvar s)%nat).

Lemma ssim_inner_idx e cg i Qee vals : (i < actvar s)%nat -> forall m st, pair_ok (fst st) ->
  pair_ok (fst (ssim_inner qops micro s e cg i Qee vals m st)).
Proof.
  intros Hi. induction m as [|m IH]; intros st H; cbn [ssim_inner]; [exact H|].
  specialize (IH st H).
  destruct (Nat.leb_spec (actvar s) (evar s e m)); cbn [orb]; [exact IH|].
  destruct (evar s e m <=? i)%nat; [exact IH|].
  match goal with |- context [if ?c then _ else _] => destruct c end; [|exact IH].
  cbn [fst]. right. cbn [fst snd]. split; assumption.
Qed.

Lemma ssim_outer_idx e cg : forall m, (forall b, (b < m)%nat -> (eavar s e b < actvar s)%nat) -> forall st, pair_ok (fst st) ->
  pair_ok (fst (ssim_outer qops micro P ncl Mrow Mdef s e cg m st)).
Proof.
  induction m as [|m IH]; intros HA st H; cbn [ssim_outer]; [exact H|].
  assert (Hi : (eavar s e m < actvar s)%nat) by (apply HA; lia).
  specialize (IH ltac:(intros; apply HA; lia) st H).
  apply ssim_inner_idx; [exact Hi|].
  match goal with |- context [if ?c then _ else _] => destruct c end; [|exact IH].
  match goal with |- context [if ?c then _ else _] => destruct c end; [|exact IH].
  right. cbn [fst snd]. split; assumption.
Qed.

Lemma max_gain_simplex_idx e : (forall b, (b < eact s e)%nat -> (eavar s e b < actvar s)%nat) ->
  pair_ok (fst (max_gain_simplex qops micro P ncl C Mrow Mdef s e)).
Proof. intros HA. unfold max_gain_simplex. apply ssim_outer_idx; [exact HA | left; reflexivity]. Qed.

End Idx.

(* ---------------- selectWorkingSet ---------------- *)
Section Sel.
Variable micro : Q.
Variable P ncl n : nat.
Variable Mrow : nat -> list (nat * Q).
Variable Mdef : nat -> Q.
Variable K0 : nat -> nat -> Q.
Notation simplex_selectQ := (simplex_select qops micro P ncl C Mrow Mdef K0).

Lemma active_slots (s : qmst) e : Inv_tab P n s -> (e < n)%nat -> forall b, (b < eact s e)%nat -> (eavar s e b < actvar s)%nat.
Proof.
  intros I He b Hb. pose proof (it_actle _ _ _ I e He). apply (it_act _ _ _ I e b He); [lia | exact Hb].
Qed.

Theorem simplex_select_spec (s : qmst) : Inv_tab P n s -> (forall e, (e < actex s)%nat -> evsum s e <= C) ->
  let r := simplex_selectQ s in
  (* the returned value is checkKKT over the active examples *)
  fst r == skkt qops C s (actex s) /\ 0 <= fst r /\
  (* the working set consists of active variables (as soon as there is one) *)
  ((0 < actvar s)%nat -> (fst (snd r) < actvar s)%nat /\ (snd (snd r) < actvar s)%nat).
Proof.
  intros I HV r. unfold r, simplex_select, simplex_select_with. cbn [fst snd].
  destruct (ssel_first_kkt s (actex s) HV) as (N1 & N2 & EQ). cbv zeta in N1, N2, EQ.
  destruct (ssel_first_idx s (actex s)) as (_ & _ & I1 & I2). cbv zeta in I1, I2.
  set (f := ssel_first qops C s (actex s)) in *.
  split; [exact EQ|]. split; [rewrite EQ; apply skkt_nonneg|].
  intros Hpos.
  assert (Hi : (sf_i f < actvar s)%nat).
  { destruct I1 as [Z|(e & b & He & Hb & E)]; [rewrite Z; exact Hpos|]. rewrite E.
    apply (active_slots s e I); [pose proof (it_ae _ _ _ I); lia | exact Hb]. }
  assert (Hin : (sf_i f < nv P n)%nat) by (pose proof (it_av _ _ _ I); lia).
  assert (OK : forall pr, pair_ok s pr -> (fst pr < actvar s)%nat /\ (snd pr < actvar s)%nat).
  { intros pr [E|H]; [rewrite E; cbn [fst snd]; split; exact Hpos | exact H]. }
  assert (B0 : pair_ok s (fst (max_gain_box qops micro P ncl C Mrow Mdef K0 s (sf_i f)))).
  { destruct (max_gain_box_idx micro P ncl Mrow Mdef K0 s (sf_i f)) as (A1 & A2 & _). cbv zeta in A1, A2.
    right. rewrite A1. split; [exact Hi|]. destruct A2 as [A2|A2]; [rewrite A2; exact Hi | exact A2]. }
  assert (S1 : pair_ok s (fst (max_gain_simplex qops micro P ncl C Mrow Mdef s (vex s (sf_i f))))).
  { apply max_gain_simplex_idx. apply (active_slots s _ I). apply (it_v _ _ _ I _ Hin). }
  assert (B1 : pair_ok s (fst (if o_ltb qops (snd (max_gain_box qops micro P ncl C Mrow Mdef K0 s (sf_i f)))
                                   (snd (max_gain_simplex qops micro P ncl C Mrow Mdef s (vex s (sf_i f))))
                               then max_gain_simplex qops micro P ncl C Mrow Mdef s (vex s (sf_i f))
                               else max_gain_box qops micro P ncl C Mrow Mdef K0 s (sf_i f))))
    by (match goal with |- context [if ?c then _ else _] => destruct c end; assumption).
  apply OK.
  destruct (o_ltb qops (o_zero qops) (sf_msg f)) eqn:Ms; [|exact B1].
  match goal with |- context [if o_ltb qops ?a ?b then _ else _] => destruct (o_ltb qops a b) end; [|exact B1].
  apply max_gain_simplex_idx. apply (active_slots s _ I).
  destruct I2 as [Z|L]; pose proof (it_ae _ _ _ I).
  - rewrite Z. qs. apply qltb_true in Ms.
    (* a positive simplex gradient was recorded, so there is an active example *)
    destruct (Nat.eq_dec (actex s) 0) as [E0|N0]; [|lia].
    exfalso. unfold f in Ms. rewrite E0 in Ms. cbn in Ms. lra.
  - lia.
Qed.

End Sel.

End SimSel.

(* ---------------- the stall that c9be7fe4 repaired ---------------- *)
(* one example with two variables at the simplex bound: alpha = (0, 1), C = 1, Q = identity, linear = (10, 10), hence
   gradient = linear - Q alpha = (10, 9).  Only the step along the simplex (variable 0 up, variable 1 down) is possible.
   The code before the repair ranks the pair (0,0) by 10*10/1 although variable 0 cannot grow, selects it, and
   updateSMO(0,0) does not move: the solver stalls with violation 1.  The repaired code selects (0,1), which moves. *)
Definition stM : nat -> list (nat * Q) := fun r => [(r, 1)].
Definition stall_state : qmst :=
  mkst (fun v => if (v =? 1)%nat then 1 else 0) (fun v => if (v =? 0)%nat then 10 else 9) (fun _ => 10)
       (fun _ => 0%nat) (fun v => v) (fun v => v) (fun _ => 1)
       (fun e => e) (fun _ => 0%nat) (fun _ => 2%nat) (fun _ p => p) (fun _ b => b) (fun _ => 1) (fun _ => 1) 1 2 false.

Example old_max_gain_box_stalls_refuted :
  let sel_old := old_simplex_select qops qmicro 2 1 1 stM (fun _ => 0) (fun _ _ => 1) stall_state in
  let sel_new := simplex_select qops qmicro 2 1 1 stM (fun _ => 0) (fun _ _ => 1) stall_state in
  let smo := simplex_smo qops qlowest qtiny 2 1 1 stM (fun _ => 0) (fun _ _ => 1) stall_state in
  (* consistent state: gradient = linear - Q alpha, sum of the example = varsum = C *)
  Inv_grad 2 1 1 stM (fun _ => 0) (fun _ _ => 1) stall_state /\
  (* before the repair: violation 1 > 0, pair (0,0), and the step leaves both variables where they are *)
  fst sel_old == 1 /\ snd sel_old = (0%nat, 0%nat) /\
  malpha (smo 0%nat 0%nat) 0%nat == 0 /\ malpha (smo 0%nat 0%nat) 1%nat == 1 /\
  (* after the repair: the pair (0,1), and the step moves *)
  fst sel_new == 1 /\ snd sel_new = (0%nat, 1%nat) /\ 0 < malpha (smo 0%nat 1%nat) 0%nat.
Proof.
  split.
  - intros f Hf. cbn in Hf. assert (f = 0%nat \/ f = 1%nat) as [->| ->] by lia; vm_compute; reflexivity.
  - vm_compute. repeat split; try reflexivity; discriminate.
Qed.
