(* C05 — proofs about the operation orders of NormalizedKernel (C05Norm.v) in every ordered field (no axioms), and their
   instance over Coq's real numbers with the real square root (standard real-number axioms).
   posA x := 0 <= x /\ x <> 0.  The order is only needed for the documented formula v / sqrt(a*b): sqrt(a*b) = sqrt a * sqrt b
   follows from "sqrtA returns THE non-negative root" once the order is antisymmetric at 0 (premise AntiSym0; OrdField itself does not
   demand it, Qc and R satisfy it). *)
From Coq Require Import List Arith Bool Field Ring Lia.
From SharkV Require Import C03Model C03Proofs C05Model C05Proofs C05Norm.
Import ListNotations.

Section NormProofs.
Variable A : Type.
Variables (zero one : A) (add mul sub div : A -> A -> A) (opp inv : A -> A) (le : A -> A -> Prop).
Variable sqrtA : A -> A.
Hypothesis OF : OrdField zero one add mul sub div opp inv le.

Definition FTn := of_field _ _ _ _ _ _ _ _ _ OF.
Add Field Ffn : FTn.

Notation "0" := zero : F_scope.
Notation "1" := one : F_scope.
Infix "+" := add : F_scope.
Infix "*" := mul : F_scope.
Infix "-" := sub : F_scope.
Infix "/" := div : F_scope.
Infix "<=" := le : F_scope.
Local Open Scope F_scope.

Notation nsingle := (norm_single A div sqrtA).
Notation nbatch := (norm_batch A mul div sqrtA).
Notation ndoc := (norm_doc A mul div sqrtA).

Definition posA (x : A) : Prop := 0 <= x /\ x <> 0.
(* sqrtA t is a non-negative square root of t *)
Definition IsRoot (t : A) : Prop := 0 <= sqrtA t /\ sqrtA t * sqrtA t = t.
Definition AntiSym0 : Prop := forall x, 0 <= x -> 0 <= opp x -> x = 0.

(* ---- the two coded orders: pure field identity *)
Lemma norm_single_eq_batch v a b : sqrtA a <> 0 -> sqrtA b <> 0 -> nsingle v a b = nbatch v a b.
Proof. intros Ha Hb. unfold norm_single, norm_batch. field. auto. Qed.

Lemma nrm_mul_nonzero x y : x <> 0 -> y <> 0 -> x * y <> 0.
Proof.
  intros Hx Hy E. apply Hy. replace y with (inv x * (x * y)) by (field; auto). rewrite E. ring.
Qed.

Lemma nrm_root_nonzero t : t <> 0 -> IsRoot t -> sqrtA t <> 0.
Proof. intros Ht [_ E] Z. apply Ht. rewrite <- E, Z. ring. Qed.

Lemma nrm_pos_mul a b : posA a -> posA b -> posA (a * b).
Proof.
  intros [Ha Na] [Hb Nb]. split; [apply (of_mul _ _ _ _ _ _ _ _ _ OF); auto|apply nrm_mul_nonzero; auto].
Qed.

(* non-negative square roots are unique *)
Lemma nrm_sq_inj_nonneg p q : AntiSym0 -> 0 <= p -> p <> 0 -> 0 <= q -> p * p = q * q -> p = q.
Proof.
  intros AS Hp Np Hq E.
  assert (S : p + q <> 0).
  { intros Z. apply Np. apply AS; auto. replace (opp p) with q; auto.
    replace q with ((p + q) - p) by ring. rewrite Z. ring. }
  assert (D : p - q = 0).
  { replace (p - q) with (((p * p) - (q * q)) * inv (p + q)) by (field; auto). rewrite E. ring. }
  replace p with ((p - q) + q) by ring. rewrite D. ring.
Qed.

Lemma nrm_sqrt_mult a b : AntiSym0 -> posA a -> posA b -> IsRoot a -> IsRoot b -> IsRoot (a * b) ->
  sqrtA (a * b) = sqrtA a * sqrtA b.
Proof.
  intros AS Pa Pb [Ha Ea] [Hb Eb] [Hab Eab]. symmetry. apply nrm_sq_inj_nonneg; auto.
  - apply (of_mul _ _ _ _ _ _ _ _ _ OF); auto.
  - apply nrm_mul_nonzero; apply nrm_root_nonzero; try split; auto; [apply Pa|apply Pb].
  - rewrite Eab. transitivity ((sqrtA a * sqrtA a) * (sqrtA b * sqrtA b)); [ring|rewrite Ea, Eb; reflexivity].
Qed.

(* ---- the coded orders equal the documented formula k(x,z) / sqrt(k(x,x) k(z,z)) when k(x,x), k(z,z) > 0 *)
Theorem norm_orders_eq_doc v a b : AntiSym0 -> posA a -> posA b -> IsRoot a -> IsRoot b -> IsRoot (a * b) ->
  nsingle v a b = ndoc v a b /\ nbatch v a b = ndoc v a b.
Proof.
  intros AS Pa Pb Ra Rb Rab.
  assert (Na : sqrtA a <> 0) by (apply nrm_root_nonzero; auto; apply Pa).
  assert (Nb : sqrtA b <> 0) by (apply nrm_root_nonzero; auto; apply Pb).
  rewrite (norm_single_eq_batch v a b Na Nb). unfold norm_batch, norm_doc. rewrite (nrm_sqrt_mult a b); auto.
Qed.

(* ---- diagonal: v = a = b *)
Theorem norm_diag_orders a : a <> 0 -> IsRoot a -> nsingle a a a = 1 /\ nbatch a a a = 1.
Proof.
  intros Na Ra. assert (N : sqrtA a <> 0) by (apply nrm_root_nonzero; auto). destruct Ra as [_ E].
  rewrite <- (norm_single_eq_batch a a a N N). split; unfold norm_single; rewrite <- E at 1; field; auto.
Qed.
Theorem norm_diag_doc a : AntiSym0 -> posA a -> IsRoot a -> IsRoot (a * a) -> ndoc a a a = 1.
Proof.
  intros AS Pa Ra Raa. destruct (norm_orders_eq_doc a a a AS Pa Pa Ra Ra Raa) as [<- _].
  apply norm_diag_orders; auto. apply Pa.
Qed.

(* ---- matrix level: the three eval overloads on the same base numbers *)
Lemma zip2_map_r {T U V W} (g : T -> V -> W) (h : U -> V) u l : zip2 g u (map h l) = zip2 (fun x y => g x (h y)) u l.
Proof. revert l. induction u as [|x u IH]; intros [|y l]; simpl; auto. rewrite IH. auto. Qed.
Lemma zip2_map_both {S T U V} (f : T -> U -> V) (g : S -> T) (h : S -> U) l :
  zip2 f (map g l) (map h l) = map (fun s => f (g s) (h s)) l.
Proof. induction l; simpl; auto. rewrite IHl. auto. Qed.
Lemma zip2_ext_r {T U V} (P : U -> Prop) (f g : T -> U -> V) u l :
  Forall P l -> (forall x y, P y -> f x y = g x y) -> zip2 f u l = zip2 g u l.
Proof.
  intros Hl E. revert u. induction Hl as [|y l Py Hl IH]; intros [|x u]; simpl; auto. rewrite IH, E; auto.
Qed.
Lemma zipw_as_zip2 (f : A -> A -> A) u v : zipw A f u v = zip2 f u v.
Proof. revert v. induction u as [|x u IH]; intros [|y v]; simpl; auto. rewrite IH. auto. Qed.

(* the state-less and the state-full batch overloads perform the same operations *)
Theorem norm_rowdiv_eq_outer (R : list (list A)) kx kz :
  norm_rowdiv A mul div sqrtA R kx kz = norm_outer A mul div sqrtA R kx kz.
Proof.
  unfold norm_rowdiv, norm_outer. cbv zeta. rewrite map_map. revert kx.
  induction R as [|row R IH]; intros [|a kx]; simpl; auto.
  rewrite <- IH. f_equal. rewrite zipw_as_zip2. rewrite (zip2_map_r div). reflexivity.
Qed.

Theorem norm_single_mat_eq_rowdiv (R : list (list A)) kx kz :
  Forall (fun a => sqrtA a <> 0) kx -> Forall (fun b => sqrtA b <> 0) kz ->
  norm_single_mat A div sqrtA R kx kz = norm_rowdiv A mul div sqrtA R kx kz.
Proof.
  intros Hx Hz. unfold norm_single_mat, norm_rowdiv. cbv zeta.
  apply (zip2_ext_r (fun a => sqrtA a <> 0)); auto. intros row a Na.
  rewrite zip2_map_r. apply (zip2_ext_r (fun b => sqrtA b <> 0)); auto. intros v b Nb.
  apply (norm_single_eq_batch v a b Na Nb).
Qed.

Theorem norm_single_mat_eq_doc (R : list (list A)) kx kz : AntiSym0 ->
  Forall (fun a => posA a /\ IsRoot a) kx -> Forall (fun b => posA b /\ IsRoot b) kz ->
  (forall a b, In a kx -> In b kz -> IsRoot (a * b)) ->
  norm_single_mat A div sqrtA R kx kz = norm_doc_mat A mul div sqrtA R kx kz.
Proof.
  intros AS Hx Hz Hxz. unfold norm_single_mat, norm_doc_mat.
  revert R. induction Hx as [|a kx [Pa Ra] Hx IH]; intros [|row R]; simpl; auto.
  rewrite IH by (intros; apply Hxz; simpl; auto). f_equal.
  assert (Hz' : Forall (fun b => posA b /\ IsRoot b /\ IsRoot (a * b)) kz).
  { rewrite Forall_forall in Hz |- *. intros b Hb. destruct (Hz b Hb) as [Pb Rb].
    split; [exact Pb|split; [exact Rb|apply Hxz; simpl; auto]]. }
  apply (zip2_ext_r _ _ _ row kz Hz'). intros v b (Pb & Rb & Rab).
  apply (norm_orders_eq_doc v a b); auto.
Qed.

(* ---- kernel level *)
Section OnX.
Variable X : Type.
Variable k : X -> X -> A.
Notation mkA := (mk A X).

(* the single-pair overload as modelled in C05Model.k_norm IS norm_single on (k(x,z), k(x,x), k(z,z)) *)
Lemma k_norm_coded_is_k_norm : k_norm_coded A div sqrtA X k = k_norm A div sqrtA X k.
Proof. reflexivity. Qed.
(* the overload with state as modelled in C05Model.b_norm IS norm_outer *)
Lemma b_norm_state_is_b_norm bk X1 X2 : b_norm_state A zero mul div sqrtA X bk X1 X2 = b_norm A zero mul div sqrtA X bk X1 X2.
Proof. unfold b_norm_state, norm_outer, C05Model.b_norm. rewrite !map_map. reflexivity. Qed.

Lemma rowdiv_mk X1 X2 :
  norm_rowdiv A mul div sqrtA (mkA k X1 X2) (map (fun x => k x x) X1) (map (fun z => k z z) X2)
  = mkA (fun x z => nbatch (k x z) (k x x) (k z z)) X1 X2.
Proof.
  unfold norm_rowdiv, C05Model.mk. cbv zeta. rewrite zip2_map_both. apply map_ext. intros x.
  rewrite map_map. rewrite zip2_map_both. reflexivity.
Qed.

(* all three overloads give the matrix of single evaluations, on points with a non-zero normaliser *)
Theorem norm_overloads_agree (P : X -> Prop) bk X1 X2 :
  BatchOKOn A X P k bk ->
  Forall (fun x => P x /\ sqrtA (k x x) <> 0) X1 -> Forall (fun x => P x /\ sqrtA (k x x) <> 0) X2 ->
  b_norm_nostate A mul div sqrtA X k bk X1 X2 = mkA (k_norm_coded A div sqrtA X k) X1 X2 /\
  b_norm_state A zero mul div sqrtA X bk X1 X2 = mkA (k_norm_coded A div sqrtA X k) X1 X2.
Proof.
  intros HB H1 H2. split.
  - unfold b_norm_nostate. rewrite HB by (eapply Forall_impl; [|eassumption]; simpl; tauto).
    rewrite rowdiv_mk. apply mk_ext. rewrite Forall_forall in H1, H2.
    intros x z Hx Hz. symmetry. apply norm_single_eq_batch; [apply (H1 x Hx)|apply (H2 z Hz)].
  - rewrite b_norm_state_is_b_norm, k_norm_coded_is_k_norm.
    apply (batch_norm A zero one add mul sub div opp inv le sqrtA (fun t => t) OF X P k bk HB); auto.
Qed.

(* the value: the documented k(x,z) / sqrt(k(x,x) k(z,z)), and 1 on the diagonal *)
Theorem norm_coded_is_documented x z : AntiSym0 -> posA (k x x) -> posA (k z z) ->
  IsRoot (k x x) -> IsRoot (k z z) -> IsRoot (k x x * k z z) ->
  k_norm_coded A div sqrtA X k x z = k_norm_doc A mul div sqrtA X k x z.
Proof. intros. unfold k_norm_coded, k_norm_doc. apply norm_orders_eq_doc; auto. Qed.
Theorem norm_coded_diag_one x : k x x <> 0 -> IsRoot (k x x) -> k_norm_coded A div sqrtA X k x x = 1.
Proof. intros. unfold k_norm_coded. apply norm_diag_orders; auto. Qed.
End OnX.

End NormProofs.

(* ---- the premises are satisfiable: Coq's real numbers with the real square root (axioms of the standard library's reals) *)
From Coq Require Import Reals Lra.
From SharkV Require Import C05GaussReal.
Local Open Scope R_scope.

Lemma R_anti : AntiSym0 R 0 Ropp Rle.
Proof. intros x H1 H2. lra. Qed.
Lemma R_isroot t : 0 <= t -> IsRoot R 0 Rmult Rle sqrt t.
Proof. intros H. split; [apply sqrt_pos|apply sqrt_sqrt; auto]. Qed.

Theorem norm_orders_real (v a b : R) : 0 < a -> 0 < b ->
  norm_single R Rdiv sqrt v a b = v / sqrt (a * b) /\
  norm_batch R Rmult Rdiv sqrt v a b = v / sqrt (a * b) /\
  norm_single R Rdiv sqrt a a a = 1 /\ norm_batch R Rmult Rdiv sqrt a a a = 1.
Proof.
  intros Ha Hb.
  assert (Pa : posA R 0 Rle a) by (split; lra). assert (Pb : posA R 0 Rle b) by (split; lra).
  assert (Hab : 0 <= a * b) by (apply Rmult_le_pos; lra).
  destruct (norm_orders_eq_doc R 0 1 Rplus Rmult Rminus Rdiv Ropp Rinv Rle sqrt R_ordfield v a b R_anti Pa Pb
              (R_isroot a (Rlt_le _ _ Ha)) (R_isroot b (Rlt_le _ _ Hb)) (R_isroot _ Hab)) as [E1 E2].
  destruct (norm_diag_orders R 0 1 Rplus Rmult Rminus Rdiv Ropp Rinv Rle sqrt R_ordfield a (proj2 Pa) (R_isroot a (Rlt_le _ _ Ha))) as [E3 E4].
  unfold norm_doc in E1, E2. auto.
Qed.
