(* C07 — "trained SVMs are optimal dual solutions": what the stopping quantities of Shark's QP
   solvers mean.  Proofs over the exact-rational instantiation (qops) of the solver model C08Model.v.

   A. largest_up / smallest_down (the running extrema of SvmProblem::checkKKT, getMaxKKTViolations)
      are upper/lower bounds of the gradients of the respective index set and are attained (or still
      have the start value -1e100 / 1e100).
   B. SvmProblem::checkKKT is the maximal violating-pair gap; checkKKT <= eps iff the KKT system of
      the equality-constrained dual has a multiplier (the bias) up to eps.
   C. BoxConstrainedProblem::checkKKT is the maximal KKT violation of the box-constrained dual.
   D. functionValue() = 1/2 (g + lin).alpha is the dual objective when the gradient invariant holds.
   E. CSvmTrainer::computeBias (no-derivative path) returns a multiplier inside the eps-KKT interval.
   F. an eps-KKT point of the equality-constrained dual (K symmetric psd) is eps*sum(U-L)-optimal. *)
From Coq Require Import QArith Qminmax Lqa Arith Bool List Lia.
From SharkV Require Import C08Model C08Defs C08Aux.
Open Scope Q_scope.

Ltac qcase x y :=
  let E := fresh "E" in let H := fresh "H" in
  destruct (qltb_spec x y) as [[E H]|[E H]]; rewrite E.

Ltac qcases :=
  repeat match goal with
         | |- context [qltb (if qltb ?x ?y then _ else _) _] => qcase x y
         | |- context [qltb _ (if qltb ?x ?y then _ else _)] => qcase x y
         | |- context [if qltb ?x ?y then _ else _] => qcase x y
         end.

Lemma qbig_pos : 0 < qbig.
Proof. unfold qbig, Qlt. vm_compute. reflexivity. Qed.

Lemma maxA_q x y : maxA qops x y = if qltb x y then y else x.
Proof. reflexivity. Qed.
Lemma minA_q x y : minA qops x y = if qltb y x then y else x.
Proof. reflexivity. Qed.

(* ------------------------------------------------------------------ *)
(* A. the running extrema                                               *)
(* ------------------------------------------------------------------ *)

Lemma largest_up_0 (s : qst) : largest_up qops s 0 = 0 - qbig.
Proof. reflexivity. Qed.
Lemma largest_up_S (s : qst) m :
  largest_up qops s (S m) =
  if fu s m then largest_up qops s m else maxA qops (largest_up qops s m) (grad s m).
Proof. reflexivity. Qed.
Lemma smallest_down_0 (s : qst) : smallest_down qops s 0 = qbig.
Proof. reflexivity. Qed.
Lemma smallest_down_S (s : qst) m :
  smallest_down qops s (S m) =
  if fl s m then smallest_down qops s m else minA qops (smallest_down qops s m) (grad s m).
Proof. reflexivity. Qed.

Lemma largest_up_ub (s : qst) m a :
  (a < m)%nat -> fu s a = false -> grad s a <= largest_up qops s m.
Proof.
  induction m; intros Ha Hf; [lia|].
  rewrite largest_up_S.
  destruct (Nat.eq_dec a m) as [->|N].
  - rewrite Hf, maxA_q. qcase (largest_up qops s m) (grad s m); lra.
  - assert (IH : grad s a <= largest_up qops s m) by (apply IHm; [lia|assumption]).
    destruct (fu s m); [assumption|]. rewrite maxA_q.
    qcase (largest_up qops s m) (grad s m); lra.
Qed.

Lemma largest_up_attained (s : qst) m :
  largest_up qops s m == 0 - qbig \/
  exists a, (a < m)%nat /\ fu s a = false /\ largest_up qops s m == grad s a.
Proof.
  induction m.
  - left. rewrite largest_up_0. reflexivity.
  - assert (Keep : largest_up qops s m == 0 - qbig \/
                   exists a, (a < S m)%nat /\ fu s a = false /\ largest_up qops s m == grad s a).
    { destruct IHm as [H|[a [Ha [Hf He]]]]; [left; assumption|].
      right. exists a. repeat split; auto. }
    rewrite largest_up_S. destruct (fu s m) eqn:F; [exact Keep|].
    rewrite maxA_q. qcase (largest_up qops s m) (grad s m); [|exact Keep].
    right. exists m. repeat split; auto; try reflexivity.
Qed.

Lemma smallest_down_lb (s : qst) m a :
  (a < m)%nat -> fl s a = false -> smallest_down qops s m <= grad s a.
Proof.
  induction m; intros Ha Hf; [lia|].
  rewrite smallest_down_S.
  destruct (Nat.eq_dec a m) as [->|N].
  - rewrite Hf, minA_q. qcase (grad s m) (smallest_down qops s m); lra.
  - assert (IH : smallest_down qops s m <= grad s a) by (apply IHm; [lia|assumption]).
    destruct (fl s m); [assumption|]. rewrite minA_q.
    qcase (grad s m) (smallest_down qops s m); lra.
Qed.

Lemma smallest_down_attained (s : qst) m :
  smallest_down qops s m == qbig \/
  exists a, (a < m)%nat /\ fl s a = false /\ smallest_down qops s m == grad s a.
Proof.
  induction m.
  - left. rewrite smallest_down_0. reflexivity.
  - assert (Keep : smallest_down qops s m == qbig \/
                   exists a, (a < S m)%nat /\ fl s a = false /\ smallest_down qops s m == grad s a).
    { destruct IHm as [H|[a [Ha [Hf He]]]]; [left; assumption|].
      right. exists a. repeat split; auto. }
    rewrite smallest_down_S. destruct (fl s m) eqn:F; [exact Keep|].
    rewrite minA_q. qcase (grad s m) (smallest_down qops s m); [|exact Keep].
    right. exists m. repeat split; auto; try reflexivity.
Qed.

(* ------------------------------------------------------------------ *)
(* B. SvmProblem::checkKKT                                              *)
(* ------------------------------------------------------------------ *)

Lemma check_kkt_svm_q (s : qst) :
  check_kkt_svm qops s = largest_up qops s (active s) - smallest_down qops s (active s).
Proof. reflexivity. Qed.

Theorem checkKKT_svm_is_max_violation (s : qst) a b :
  (a < active s)%nat -> (b < active s)%nat -> fu s a = false -> fl s b = false ->
  grad s a - grad s b <= check_kkt_svm qops s.
Proof.
  intros Ha Hb Fa Fb. rewrite check_kkt_svm_q.
  pose proof (largest_up_ub s (active s) a Ha Fa).
  pose proof (smallest_down_lb s (active s) b Hb Fb). lra.
Qed.

Theorem checkKKT_svm_attained (s : qst) :
  (exists a, (a < active s)%nat /\ fu s a = false) ->
  (exists b, (b < active s)%nat /\ fl s b = false) ->
  (forall a, (a < active s)%nat -> - qbig < grad s a /\ grad s a < qbig) ->
  exists a b, (a < active s)%nat /\ (b < active s)%nat /\ fu s a = false /\ fl s b = false /\
              check_kkt_svm qops s == grad s a - grad s b.
Proof.
  intros [a0 [Ha0 Fa0]] [b0 [Hb0 Fb0]] Hbig. rewrite check_kkt_svm_q.
  pose proof (largest_up_ub s (active s) a0 Ha0 Fa0) as U0.
  pose proof (smallest_down_lb s (active s) b0 Hb0 Fb0) as L0.
  destruct (Hbig a0 Ha0) as [Ba0 _]. destruct (Hbig b0 Hb0) as [_ Bb0].
  destruct (largest_up_attained s (active s)) as [E|[a [Ha [Fa Ea]]]]; [exfalso; lra|].
  destruct (smallest_down_attained s (active s)) as [E|[b [Hb [Fb Eb]]]]; [exfalso; lra|].
  exists a, b. repeat split; auto. rewrite Ea, Eb. reflexivity.
Qed.

(* checkKKT <= eps  <->  the KKT system of  max lin.alpha - 1/2 alpha K alpha  s.t. box, sum(alpha)=c
   has a multiplier b of the equality constraint, up to eps, on the active variables *)
Theorem checkKKT_svm_eps_multiplier (s : qst) eps :
  (exists a, (a < active s)%nat /\ fu s a = false) ->
  (exists b, (b < active s)%nat /\ fl s b = false) ->
  (forall a, (a < active s)%nat -> - qbig < grad s a /\ grad s a < qbig) ->
  (check_kkt_svm qops s <= eps <->
   exists b, forall a, (a < active s)%nat ->
     (fu s a = false -> grad s a <= b + eps) /\ (fl s a = false -> b <= grad s a)).
Proof.
  intros Hup Hdn Hbig. split.
  - intros Hc. exists (smallest_down qops s (active s)). intros a Ha. split; intros F.
    + pose proof (largest_up_ub s (active s) a Ha F). rewrite check_kkt_svm_q in Hc. lra.
    + apply smallest_down_lb; assumption.
  - intros [b Hb].
    destruct (checkKKT_svm_attained s Hup Hdn Hbig) as [a [c [Ha [Hc [Fa [Fc E]]]]]].
    rewrite E. pose proof (proj1 (Hb a Ha) Fa). pose proof (proj2 (Hb c Hc) Fc). lra.
Qed.

(* the "only if" direction needs no side conditions *)
Lemma checkKKT_svm_eps_multiplier_fwd (s : qst) eps :
  check_kkt_svm qops s <= eps ->
  forall a, (a < active s)%nat ->
    (fu s a = false -> grad s a <= smallest_down qops s (active s) + eps) /\
    (fl s a = false -> smallest_down qops s (active s) <= grad s a).
Proof.
  intros Hc a Ha. split; intros F.
  - pose proof (largest_up_ub s (active s) a Ha F). rewrite check_kkt_svm_q in Hc. lra.
  - apply smallest_down_lb; assumption.
Qed.

(* ------------------------------------------------------------------ *)
(* C. BoxConstrainedProblem::checkKKT                                   *)
(* ------------------------------------------------------------------ *)

Lemma check_kkt_box_S (s : qst) k :
  check_kkt_box_upto qops s (S k) =
  if deact s k then check_kkt_box_upto qops s k
  else if fl s k
       then (if fu s k then check_kkt_box_upto qops s k
             else maxA qops (check_kkt_box_upto qops s k) (grad s k))
       else maxA qops (if fu s k then check_kkt_box_upto qops s k
                       else maxA qops (check_kkt_box_upto qops s k) (grad s k))
                 (0 - grad s k).
Proof. cbn [check_kkt_box_upto]. destruct (deact s k), (fl s k), (fu s k); reflexivity. Qed.

Lemma check_kkt_box_step (s : qst) k :
  let v := check_kkt_box_upto qops s k in
  let v' := check_kkt_box_upto qops s (S k) in
  v <= v' /\
  (deact s k = false -> fu s k = false -> grad s k <= v') /\
  (deact s k = false -> fl s k = false -> - grad s k <= v') /\
  (v' == v \/ (deact s k = false /\ fu s k = false /\ v' == grad s k)
           \/ (deact s k = false /\ fl s k = false /\ v' == - grad s k)).
Proof.
  intros v v'. subst v'. rewrite check_kkt_box_S. fold v.
  destruct (deact s k) eqn:D, (fl s k) eqn:FL, (fu s k) eqn:FU; rewrite ?maxA_q; qcases;
    (split; [lra|]); (split; [intros; try discriminate; lra|]);
    (split; [intros; try discriminate; lra|]);
    first [ left; reflexivity
          | right; left; split; [reflexivity|]; split; [reflexivity|]; lra
          | right; right; split; [reflexivity|]; split; [reflexivity|]; lra ].
Qed.

Lemma check_kkt_box_nonneg (s : qst) m : 0 <= check_kkt_box_upto qops s m.
Proof.
  induction m.
  - cbn [check_kkt_box_upto o_zero qops]. lra.
  - pose proof (check_kkt_box_step s m) as [H _]. lra.
Qed.

Lemma check_kkt_box_ub (s : qst) m a :
  (a < m)%nat -> deact s a = false ->
  (fu s a = false -> grad s a <= check_kkt_box_upto qops s m) /\
  (fl s a = false -> - grad s a <= check_kkt_box_upto qops s m).
Proof.
  induction m; intros Ha D; [lia|].
  pose proof (check_kkt_box_step s m) as [Hm [Hu [Hl _]]].
  destruct (Nat.eq_dec a m) as [->|N].
  - split; intros F; auto.
  - destruct IHm as [I1 I2]; [lia|assumption|].
    split; intros F; [specialize (I1 F)|specialize (I2 F)]; lra.
Qed.

Lemma check_kkt_box_attained (s : qst) m :
  check_kkt_box_upto qops s m == 0 \/
  exists a, (a < m)%nat /\ deact s a = false /\
    ((fu s a = false /\ check_kkt_box_upto qops s m == grad s a) \/
     (fl s a = false /\ check_kkt_box_upto qops s m == - grad s a)).
Proof.
  induction m.
  - left. cbn [check_kkt_box_upto o_zero qops]. reflexivity.
  - pose proof (check_kkt_box_step s m) as [_ [_ [_ [E|[[D [F E]]|[D [F E]]]]]]].
    + destruct IHm as [Z|[a [Ha [D H]]]].
      * left. rewrite E. assumption.
      * right. exists a. split; [lia|]. split; [assumption|].
        destruct H as [[F V]|[F V]]; [left|right]; split; auto; rewrite E; assumption.
    + right. exists m. split; [lia|]. split; [assumption|]. left. split; assumption.
    + right. exists m. split; [lia|]. split; [assumption|]. right. split; assumption.
Qed.

Theorem checkKKT_box_is_max_violation (s : qst) m :
  let v := check_kkt_box_upto qops s m in
  0 <= v /\
  (forall a, (a < m)%nat -> deact s a = false ->
     (fu s a = false -> grad s a <= v) /\ (fl s a = false -> - grad s a <= v)) /\
  (v == 0 \/ exists a, (a < m)%nat /\ deact s a = false /\
     ((fu s a = false /\ v == grad s a) \/ (fl s a = false /\ v == - grad s a))).
Proof.
  intros v. subst v. split; [apply check_kkt_box_nonneg|]. split.
  - intros a Ha D. apply check_kkt_box_ub; assumption.
  - apply check_kkt_box_attained.
Qed.

(* checkKKT (box) <= eps  <->  eps-KKT of the box-constrained dual on the non-deactivated variables *)
Corollary checkKKT_box_eps (s : qst) m eps :
  0 <= eps ->
  (check_kkt_box_upto qops s m <= eps <->
   forall a, (a < m)%nat -> deact s a = false ->
     (fu s a = false -> grad s a <= eps) /\ (fl s a = false -> - eps <= grad s a)).
Proof.
  intros He. split.
  - intros Hc a Ha D. destruct (check_kkt_box_ub s m a Ha D) as [H1 H2].
    split; intros F; [specialize (H1 F)|specialize (H2 F)]; lra.
  - intros H. destruct (check_kkt_box_attained s m) as [Z|[a [Ha [D [[F V]|[F V]]]]]].
    + lra.
    + rewrite V. apply (H a Ha D); assumption.
    + rewrite V. pose proof (proj2 (H a Ha D) F). lra.
Qed.

(* ------------------------------------------------------------------ *)
(* D. functionValue()                                                   *)
(* ------------------------------------------------------------------ *)

Lemma objective_formula n K0 (s : qst) :
  Inv_grad_all n K0 s ->
  (1 # 2) * sumn n (fun a => (grad s a + lin s a) * alpha s a) == obj n K0 s.
Proof.
  intros Hg. unfold obj.
  rewrite (sumn_ext n (fun a => (grad s a + lin s a) * alpha s a)
             (fun a => 2 * (lin s a * alpha s a) - alpha s a * Kalpha n K0 s a)).
  - rewrite sumn_sub, sumn_scal. lra.
  - intros a Ha. rewrite (Hg a Ha). ring.
Qed.

Lemma fval_sum_sumn (s : qst) m :
  fval_sum qops s m == sumn m (fun a => (grad s a + lin s a) * alpha s a).
Proof.
  induction m.
  - reflexivity.
  - cbn [fval_sum sumn o_add o_mul qops]. rewrite IHm. reflexivity.
Qed.

Theorem fval_is_objective n K0 (s : qst) :
  Inv_grad_all n K0 s -> fval qops n s == obj n K0 s.
Proof.
  intros Hg. unfold fval. cbn [o_mul o_half qops]. rewrite fval_sum_sumn.
  apply objective_formula; assumption.
Qed.

(* ------------------------------------------------------------------ *)
(* E. CSvmTrainer::computeBias, !m_computeDerivative path              *)
(* ------------------------------------------------------------------ *)

(* for (i < ell) { value = gradient(i);
     if (alpha(i) == boxMin(i))      { if (value > lowerBound) lowerBound = value; }
     else if (alpha(i) == boxMax(i)) { if (value < upperBound) upperBound = value; }
     else { sum += value; freeVars++; } }
   alpha == boxMin / boxMax are the status flags fl / fu of the solver state. *)
Fixpoint free_sum (s : qst) (m : nat) : Q :=
  match m with
  | O => 0
  | S k => if fl s k then free_sum s k else if fu s k then free_sum s k else free_sum s k + grad s k
  end.
Fixpoint free_cnt (s : qst) (m : nat) : nat :=
  match m with
  | O => O
  | S k => if fl s k then free_cnt s k else if fu s k then free_cnt s k else S (free_cnt s k)
  end.
Fixpoint bias_lb (s : qst) (m : nat) : Q :=
  match m with
  | O => 0 - qbig
  | S k => let v := bias_lb s k in
           if fl s k then (if qltb v (grad s k) then grad s k else v) else v
  end.
Fixpoint bias_ub (s : qst) (m : nat) : Q :=
  match m with
  | O => qbig
  | S k => let v := bias_ub s k in
           if fl s k then v
           else if fu s k then (if qltb (grad s k) v then grad s k else v) else v
  end.
Definition cntQ (s : qst) (m : nat) : Q := inject_Z (Z.of_nat (free_cnt s m)).

(* if (ell == 0) return 0;  if (freeVars > 0) return sum / freeVars;  return 0.5 * (lowerBound + upperBound); *)
Definition compute_bias (s : qst) (m : nat) : Q :=
  if (m =? 0)%nat then 0
  else if (0 <? free_cnt s m)%nat then free_sum s m / cntQ s m
  else (1 # 2) * (bias_lb s m + bias_ub s m).
Definition bias_free := compute_bias.

Lemma inject_S k : inject_Z (Z.of_nat (S k)) == inject_Z (Z.of_nat k) + 1.
Proof. rewrite Nat2Z.inj_succ. unfold Z.succ. rewrite inject_Z_plus. reflexivity. Qed.

Lemma cntQ_nonneg s m : 0 <= cntQ s m.
Proof.
  unfold cntQ. change 0 with (inject_Z 0). rewrite <- Zle_Qle. lia.
Qed.

Lemma cntQ_pos s m : (0 < free_cnt s m)%nat -> 0 < cntQ s m.
Proof.
  intros H. unfold cntQ. change 0 with (inject_Z 0). rewrite <- Zlt_Qlt. lia.
Qed.

(* cnt * x <= sum + cnt * eps  when x <= g_b + eps for every free b *)
Lemma free_sum_ge (s : qst) m x eps :
  (forall b, (b < m)%nat -> fl s b = false -> fu s b = false -> x <= grad s b + eps) ->
  cntQ s m * x <= free_sum s m + cntQ s m * eps.
Proof.
  unfold cntQ. induction m; intros H.
  - cbn [free_sum free_cnt Z.of_nat]. change (inject_Z 0) with 0. lra.
  - assert (IH := IHm (fun b Hb => H b (Nat.lt_lt_succ_r _ _ Hb))).
    cbn [free_sum free_cnt]. destruct (fl s m) eqn:FL; [exact IH|].
    destruct (fu s m) eqn:FU; [exact IH|].
    rewrite inject_S. pose proof (H m (Nat.lt_succ_diag_r m) FL FU). lra.
Qed.

Lemma free_sum_le (s : qst) m x eps :
  (forall b, (b < m)%nat -> fl s b = false -> fu s b = false -> grad s b - eps <= x) ->
  free_sum s m - cntQ s m * eps <= cntQ s m * x.
Proof.
  unfold cntQ. induction m; intros H.
  - cbn [free_sum free_cnt Z.of_nat]. change (inject_Z 0) with 0. lra.
  - assert (IH := IHm (fun b Hb => H b (Nat.lt_lt_succ_r _ _ Hb))).
    cbn [free_sum free_cnt]. destruct (fl s m) eqn:FL; [exact IH|].
    destruct (fu s m) eqn:FU; [exact IH|].
    rewrite inject_S. pose proof (H m (Nat.lt_succ_diag_r m) FL FU). lra.
Qed.

Definition epsKKT (s : qst) (n : nat) (eps : Q) : Prop :=
  forall a b, (a < n)%nat -> (b < n)%nat -> fu s a = false -> fl s b = false ->
              grad s a - grad s b <= eps.
Definition in_interval (s : qst) (n : nat) (eps beta : Q) : Prop :=
  forall a, (a < n)%nat ->
    (fu s a = false -> grad s a <= beta + eps) /\ (fl s a = false -> beta - eps <= grad s a).

(* the mean of the free gradients is a valid multiplier *)
Theorem bias_in_interval_free (s : qst) n eps :
  0 <= eps -> epsKKT s n eps -> (0 < free_cnt s n)%nat ->
  in_interval s n eps (compute_bias s n).
Proof.
  intros He HK Hc a Ha. unfold compute_bias.
  destruct (Nat.eqb_spec n 0); [lia|].
  destruct (Nat.ltb_spec 0 (free_cnt s n)); [|lia].
  pose proof (cntQ_pos s n Hc) as Hp.
  set (beta := free_sum s n / cntQ s n).
  assert (Hb : cntQ s n * beta == free_sum s n).
  { unfold beta. apply Qmult_div_r. lra. }
  split; intros F.
  - pose proof (free_sum_ge s n (grad s a) eps) as G.
    assert (G1 : cntQ s n * grad s a <= free_sum s n + cntQ s n * eps).
    { apply G. intros b Hb' FL FU. pose proof (HK a b Ha Hb' F FL). lra. }
    apply (Qmult_le_l _ _ (cntQ s n) Hp). rewrite Qmult_plus_distr_r, Hb. exact G1.
  - pose proof (free_sum_le s n (grad s a) eps) as G.
    assert (G1 : free_sum s n - cntQ s n * eps <= cntQ s n * grad s a).
    { apply G. intros b Hb' FL FU. pose proof (HK b a Hb' Ha FU F). lra. }
    apply (Qmult_le_l _ _ (cntQ s n) Hp).
    setoid_replace (cntQ s n * (beta - eps)) with (cntQ s n * beta - cntQ s n * eps) by ring.
    rewrite Hb. exact G1.
Qed.

(* no free variable: the two bounds *)
Lemma free_cnt_0 (s : qst) m a :
  free_cnt s m = O -> (a < m)%nat -> fl s a = false -> fu s a = false -> False.
Proof.
  induction m; intros Hc Ha FL FU; [lia|].
  cbn [free_cnt] in Hc.
  destruct (Nat.eq_dec a m) as [->|N].
  - rewrite FL, FU in Hc. discriminate.
  - apply IHm; auto; [|lia]. destruct (fl s m); [assumption|]. destruct (fu s m); [assumption|discriminate].
Qed.

Lemma bias_lb_ge (s : qst) m a : (a < m)%nat -> fl s a = true -> grad s a <= bias_lb s m.
Proof.
  induction m; intros Ha F; [lia|]. cbn [bias_lb].
  destruct (Nat.eq_dec a m) as [->|N].
  - rewrite F. qcases; lra.
  - assert (IH : grad s a <= bias_lb s m) by (apply IHm; [lia|assumption]).
    destruct (fl s m); [|assumption]. qcases; lra.
Qed.

Lemma bias_lb_attained (s : qst) m :
  bias_lb s m == 0 - qbig \/ exists a, (a < m)%nat /\ fl s a = true /\ bias_lb s m == grad s a.
Proof.
  induction m.
  - left. reflexivity.
  - assert (Keep : bias_lb s m == 0 - qbig \/
                   exists a, (a < S m)%nat /\ fl s a = true /\ bias_lb s m == grad s a).
    { destruct IHm as [H|[a [Ha [Hf He]]]]; [left; assumption|].
      right. exists a. repeat split; auto. }
    cbn [bias_lb]. destruct (fl s m) eqn:F; [|exact Keep].
    qcase (bias_lb s m) (grad s m); [|exact Keep].
    right. exists m. repeat split; auto; try reflexivity.
Qed.

Lemma bias_ub_le (s : qst) m a :
  (a < m)%nat -> fl s a = false -> fu s a = true -> bias_ub s m <= grad s a.
Proof.
  induction m; intros Ha FL FU; [lia|]. cbn [bias_ub].
  destruct (Nat.eq_dec a m) as [->|N].
  - rewrite FL, FU. qcases; lra.
  - assert (IH : bias_ub s m <= grad s a) by (apply IHm; [lia|assumption|assumption]).
    destruct (fl s m); [assumption|]. destruct (fu s m); [|assumption]. qcases; lra.
Qed.

Lemma bias_ub_attained (s : qst) m :
  bias_ub s m == qbig \/
  exists a, (a < m)%nat /\ fl s a = false /\ fu s a = true /\ bias_ub s m == grad s a.
Proof.
  induction m.
  - left. reflexivity.
  - assert (Keep : bias_ub s m == qbig \/
                   exists a, (a < S m)%nat /\ fl s a = false /\ fu s a = true /\ bias_ub s m == grad s a).
    { destruct IHm as [H|[a [Ha [Hf [Hg He]]]]]; [left; assumption|].
      right. exists a. repeat split; auto. }
    cbn [bias_ub]. destruct (fl s m) eqn:FL; [exact Keep|].
    destruct (fu s m) eqn:FU; [|exact Keep].
    qcase (grad s m) (bias_ub s m); [|exact Keep].
    right. exists m. repeat split; auto; try reflexivity.
Qed.

(* no free variable: the midpoint of [max lower-bounded gradient, min upper-bounded gradient].
   Needs that no variable carries both flags (lo < hi and nothing deactivated; then "at the lower
   bound" implies "not at the upper bound") and that the gradients are inside (-1e100, 1e100). *)
Theorem bias_in_interval_midpoint (s : qst) n eps :
  0 <= eps -> epsKKT s n eps -> free_cnt s n = O ->
  (forall a, (a < n)%nat -> deact s a = false) ->
  (forall a, (a < n)%nat -> - qbig < grad s a /\ grad s a < qbig) ->
  in_interval s n eps (compute_bias s n).
Proof.
  intros He HK Hc Hd Hbig a Ha. unfold compute_bias.
  destruct (Nat.eqb_spec n 0); [lia|].
  rewrite Hc. cbn [Nat.ltb Nat.leb].
  pose proof qbig_pos as Bp.
  assert (Gap : bias_lb s n - bias_ub s n <= 2 * eps).
  { destruct (bias_lb_attained s n) as [EL|[a0 [Ha0 [Fa0 EL]]]];
    destruct (bias_ub_attained s n) as [EU|[b0 [Hb0 [Fb0 [Gb0 EU]]]]]; rewrite EL, EU.
    - lra.
    - destruct (Hbig b0 Hb0). lra.
    - destruct (Hbig a0 Ha0). lra.
    - assert (fu s a0 = false).
      { specialize (Hd a0 Ha0). unfold deact in Hd. rewrite Fa0 in Hd. exact Hd. }
      pose proof (HK a0 b0 Ha0 Hb0 H Fb0). lra. }
  split; intros F.
  - destruct (fl s a) eqn:FL.
    + pose proof (bias_lb_ge s n a Ha FL). lra.
    + exfalso. exact (free_cnt_0 s n a Hc Ha FL F).
  - destruct (fu s a) eqn:FU.
    + pose proof (bias_ub_le s n a Ha F FU). lra.
    + exfalso. exact (free_cnt_0 s n a Hc Ha F FU).
Qed.

(* both cases of computeBias.  (The extra hypotheses are only needed when there is no free variable;
   "both a lower-bounded and an upper-bounded variable exist" turned out to be unnecessary, but
   "no variable carries both flags" is needed: a variable with fl = fu = true enters lowerBound
   although the eps-KKT hypothesis says nothing about its gradient.) *)
Theorem bias_in_interval (s : qst) n eps :
  0 <= eps -> epsKKT s n eps ->
  ((0 < free_cnt s n)%nat \/
   ((forall a, (a < n)%nat -> deact s a = false) /\
    (forall a, (a < n)%nat -> - qbig < grad s a /\ grad s a < qbig))) ->
  forall a, (a < n)%nat ->
    (fu s a = false -> grad s a <= compute_bias s n + eps) /\
    (fl s a = false -> compute_bias s n - eps <= grad s a).
Proof.
  intros He HK [Hc|[Hd Hbig]].
  - apply bias_in_interval_free; assumption.
  - destruct (free_cnt s n) eqn:C.
    + apply bias_in_interval_midpoint; assumption.
    + apply bias_in_interval_free; auto. lia.
Qed.

(* ------------------------------------------------------------------ *)
(* F. an eps-KKT point is nearly optimal                                *)
(* ------------------------------------------------------------------ *)

Lemma sumn_exch n m (f : nat -> nat -> Q) :
  sumn n (fun a => sumn m (fun b => f a b)) == sumn m (fun b => sumn n (fun a => f a b)).
Proof.
  induction n.
  - cbn [sumn]. symmetry. apply sumn_0. intros. reflexivity.
  - cbn [sumn]. rewrite IHn.
    rewrite (sumn_add m (fun b => sumn n (fun a => f a b)) (fun b => f n b)). reflexivity.
Qed.

Lemma sumn_nonneg m f : (forall a, (a < m)%nat -> 0 <= f a) -> 0 <= sumn m f.
Proof.
  intros H. rewrite <- (sumn_0 m (fun _ => 0)) by (intros; reflexivity).
  apply sumn_le. assumption.
Qed.

Lemma sumn_nonneg_zero m f :
  (forall a, (a < m)%nat -> 0 <= f a) -> sumn m f == 0 -> forall a, (a < m)%nat -> f a == 0.
Proof.
  induction m; intros Hf Hs a Ha; [lia|].
  cbn [sumn] in Hs.
  assert (0 <= sumn m f) by (apply sumn_nonneg; intros; apply Hf; lia).
  assert (0 <= f m) by (apply Hf; lia).
  destruct (Nat.eq_dec a m) as [->|N]; [lra|].
  apply IHm; [intros; apply Hf; lia|lra|lia].
Qed.

Lemma qmul_le_l x y z : 0 <= z -> x <= y -> z * x <= z * y.
Proof. intros Hz H. rewrite !(Qmult_comm z). apply Qmult_le_compat_r; assumption. Qed.

(* sum d = 0 and g_a <= g_c + eps whenever d_a > 0 > d_c  ==>  g.d <= eps * sum of the positive parts *)
Lemma kkt_direction_bound n (g d : nat -> Q) eps :
  0 <= eps ->
  sumn n d == 0 ->
  (forall a c, (a < n)%nat -> (c < n)%nat -> 0 < d a -> d c < 0 -> g a - g c <= eps) ->
  sumn n (fun a => g a * d a) <= eps * sumn n (fun a => if qltb 0 (d a) then d a else 0).
Proof.
  intros He Hs HK.
  set (p := fun a => if qltb 0 (d a) then d a else 0).
  set (q := fun a => if qltb (d a) 0 then - d a else 0).
  assert (Hp : forall a, 0 <= p a) by (intros a; unfold p; qcases; lra).
  assert (Hq : forall a, 0 <= q a) by (intros a; unfold q; qcases; lra).
  assert (Hd : forall a, d a == p a - q a) by (intros a; unfold p, q; qcases; lra).
  assert (Hpp : forall a, 0 < p a -> 0 < d a).
  { intros a. unfold p. qcases; lra. }
  assert (Hqq : forall a, 0 < q a -> d a < 0).
  { intros a. unfold q. qcases; lra. }
  set (P := sumn n p).
  assert (HPq : sumn n q == P).
  { unfold P. rewrite (sumn_ext n d (fun a => p a - q a)) in Hs by (intros; apply Hd).
    rewrite sumn_sub in Hs. lra. }
  assert (HP0 : 0 <= P) by (apply sumn_nonneg; intros; apply Hp).
  set (S1 := sumn n (fun a => g a * p a)).
  set (S2 := sumn n (fun a => g a * q a)).
  assert (Hgd : sumn n (fun a => g a * d a) == S1 - S2).
  { unfold S1, S2. rewrite <- sumn_sub. apply sumn_ext. intros a _. rewrite (Hd a). ring. }
  rewrite Hgd.
  destruct (Qlt_le_dec 0 P) as [Ppos|Pz].
  - (* step 1 *)
    assert (St1 : forall c, (c < n)%nat -> 0 < q c -> S1 <= (g c + eps) * P).
    { intros c Hc Hqc. unfold S1, P. rewrite <- sumn_scal.
      apply sumn_le. intros a Ha.
      destruct (Qlt_le_dec 0 (p a)) as [Pa|Pa].
      - apply Qmult_le_compat_r; [|apply Hp].
        pose proof (HK a c Ha Hc (Hpp a Pa) (Hqq c Hqc)). lra.
      - assert (p a == 0) by (pose proof (Hp a); lra). rewrite H. lra. }
    (* step 2 *)
    assert (St2 : forall c, (c < n)%nat -> q c * S1 <= q c * ((g c + eps) * P)).
    { intros c Hc. destruct (Qlt_le_dec 0 (q c)) as [Qc|Qc].
      - apply qmul_le_l; [apply Hq|]. apply St1; assumption.
      - assert (q c == 0) by (pose proof (Hq c); lra). rewrite H. lra. }
    assert (St3 : sumn n (fun c => q c * S1) <= sumn n (fun c => q c * ((g c + eps) * P)))
      by (apply sumn_le; exact St2).
    rewrite sumn_scal_r in St3.
    rewrite (sumn_ext n (fun c => q c * ((g c + eps) * P))
               (fun c => (g c * q c) * P + q c * (eps * P))) in St3 by (intros; ring).
    rewrite sumn_add, sumn_scal_r, sumn_scal_r in St3. fold S2 in St3. rewrite HPq in St3.
    apply (Qmult_le_l _ _ P Ppos).
    setoid_replace (P * (S1 - S2)) with (P * S1 - S2 * P) by ring.
    lra.
  - assert (PZ : P == 0) by lra.
    assert (Zp : forall a, (a < n)%nat -> p a == 0).
    { apply sumn_nonneg_zero; [intros; apply Hp|exact PZ]. }
    assert (Zq : forall a, (a < n)%nat -> q a == 0).
    { apply sumn_nonneg_zero; [intros; apply Hq|lra]. }
    assert (S1 == 0).
    { unfold S1. apply sumn_0. intros a Ha. rewrite (Zp a Ha). ring. }
    assert (S2 == 0).
    { unfold S2. apply sumn_0. intros a Ha. rewrite (Zq a Ha). ring. }
    rewrite PZ. lra.
Qed.

Section NearOptimal.
Variable n : nat.
Variable K0 : nat -> nat -> Q.
Hypothesis Hsym : Ksym K0.
Hypothesis Hpsd : forall d : nat -> Q, 0 <= sumn n (fun a => d a * sumn n (fun b => K0 a b * d b)).

Definition quad (x y : nat -> Q) : Q := sumn n (fun a => x a * sumn n (fun b => K0 a b * y b)).
(* dual objective and its gradient on plain vectors (identity permutation) *)
Definition objv (lin al : nat -> Q) : Q :=
  sumn n (fun a => lin a * al a) - (1 # 2) * sumn n (fun a => al a * sumn n (fun b => K0 a b * al b)).
Definition gradv (lin al : nat -> Q) (a : nat) : Q := lin a - sumn n (fun b => K0 a b * al b).

Lemma quad_ext x x' y y' :
  (forall a, (a < n)%nat -> x a == x' a) -> (forall a, (a < n)%nat -> y a == y' a) ->
  quad x y == quad x' y'.
Proof.
  intros Hx Hy. unfold quad. apply sumn_ext. intros a Ha. rewrite (Hx a Ha).
  rewrite (sumn_ext n (fun b => K0 a b * y b) (fun b => K0 a b * y' b)); [reflexivity|].
  intros b Hb. rewrite (Hy b Hb). reflexivity.
Qed.

Lemma quad_add_l x x' y : quad (fun a => x a + x' a) y == quad x y + quad x' y.
Proof.
  unfold quad. rewrite <- sumn_add. apply sumn_ext. intros; ring.
Qed.

Lemma quad_add_r x y y' : quad x (fun a => y a + y' a) == quad x y + quad x y'.
Proof.
  unfold quad. rewrite <- sumn_add. apply sumn_ext. intros a Ha.
  rewrite (sumn_ext n (fun b => K0 a b * (y b + y' b)) (fun b => K0 a b * y b + K0 a b * y' b))
    by (intros; ring).
  rewrite sumn_add. ring.
Qed.

(* Fubini + symmetry of K *)
Lemma quad_sym x y : quad x y == quad y x.
Proof.
  unfold quad.
  rewrite (sumn_ext n (fun a => x a * sumn n (fun b => K0 a b * y b))
             (fun a => sumn n (fun b => x a * (K0 a b * y b))))
    by (intros; rewrite sumn_scal; reflexivity).
  rewrite sumn_exch. apply sumn_ext. intros b Hb.
  rewrite <- sumn_scal. apply sumn_ext. intros a Ha. rewrite (Hsym a b). ring.
Qed.

(* the objective is a concave quadratic: objv(al + d) = objv al + g.d - 1/2 d K d *)
Lemma objv_expand lin al d :
  objv lin (fun a => al a + d a) ==
  objv lin al + sumn n (fun a => gradv lin al a * d a) - (1 # 2) * quad d d.
Proof.
  unfold objv. fold (quad (fun a => al a + d a) (fun a => al a + d a)). fold (quad al al).
  rewrite quad_add_l, !quad_add_r.
  rewrite (sumn_ext n (fun a => lin a * (al a + d a)) (fun a => lin a * al a + lin a * d a))
    by (intros; ring).
  rewrite sumn_add.
  rewrite (sumn_ext n (fun a => gradv lin al a * d a)
             (fun a => lin a * d a - d a * sumn n (fun b => K0 a b * al b)))
    by (intros; unfold gradv; ring).
  rewrite sumn_sub. fold (quad d al). pose proof (quad_sym al d). lra.
Qed.

Lemma objv_ext lin al al' : (forall a, (a < n)%nat -> al a == al' a) -> objv lin al == objv lin al'.
Proof.
  intros H. unfold objv. fold (quad al al). fold (quad al' al').
  rewrite (quad_ext al al' al al' H H).
  rewrite (sumn_ext n (fun a => lin a * al a) (fun a => lin a * al' a)); [reflexivity|].
  intros a Ha. rewrite (H a Ha). reflexivity.
Qed.

(* al: eps-KKT point of  max objv  s.t.  L <= al <= U, sum al = c;  al': any feasible point *)
Theorem eps_KKT_near_optimal (lin L U al al' : nat -> Q) eps :
  0 <= eps ->
  (forall a, (a < n)%nat -> L a <= al a /\ al a <= U a) ->
  (forall a, (a < n)%nat -> L a <= al' a /\ al' a <= U a) ->
  sumn n al == sumn n al' ->
  (forall a c, (a < n)%nat -> (c < n)%nat -> al a < U a -> L c < al c ->
               gradv lin al a - gradv lin al c <= eps) ->
  objv lin al' - objv lin al <= eps * sumn n (fun a => U a - L a).
Proof.
  intros He Hb Hb' Hs HK.
  set (d := fun a => al' a - al a).
  assert (E : objv lin al' == objv lin (fun a => al a + d a)).
  { apply objv_ext. intros a _. unfold d. ring. }
  rewrite E, objv_expand.
  pose proof (Hpsd d) as Hq. fold (quad d d) in Hq.
  assert (Hsd : sumn n d == 0).
  { unfold d. rewrite sumn_sub. lra. }
  pose proof (kkt_direction_bound n (gradv lin al) d eps He Hsd) as B.
  assert (B1 : sumn n (fun a => gradv lin al a * d a) <=
               eps * sumn n (fun a => if qltb 0 (d a) then d a else 0)).
  { apply B. intros a c Ha Hc Da Dc. apply HK; auto.
    - destruct (Hb' a Ha). unfold d in Da. lra.
    - destruct (Hb' c Hc). unfold d in Dc. lra. }
  assert (B2 : sumn n (fun a => if qltb 0 (d a) then d a else 0) <= sumn n (fun a => U a - L a)).
  { apply sumn_le. intros a Ha. destruct (Hb a Ha), (Hb' a Ha). unfold d. qcases; lra. }
  pose proof (qmul_le_l _ _ eps He B2). lra.
Qed.

End NearOptimal.

(* the hypotheses of F are satisfiable with a non-trivial K: n = 2, K = identity *)
Example eps_KKT_near_optimal_hyps_sat :
  let K0 := fun a b : nat => if (a =? b)%nat then 1 else 0 in
  Ksym K0 /\ forall d : nat -> Q, 0 <= sumn 2 (fun a => d a * sumn 2 (fun b => K0 a b * d b)).
Proof.
  split.
  - intros p q. cbn beta. rewrite (Nat.eqb_sym q p). reflexivity.
  - intros d. cbn [sumn Nat.eqb]. nra.
Qed.

Print Assumptions largest_up_ub.
Print Assumptions largest_up_attained.
Print Assumptions smallest_down_lb.
Print Assumptions smallest_down_attained.
Print Assumptions checkKKT_svm_is_max_violation.
Print Assumptions checkKKT_svm_attained.
Print Assumptions checkKKT_svm_eps_multiplier.
Print Assumptions checkKKT_box_is_max_violation.
Print Assumptions checkKKT_box_eps.
Print Assumptions objective_formula.
Print Assumptions fval_is_objective.
Print Assumptions bias_in_interval.
Print Assumptions eps_KKT_near_optimal.
