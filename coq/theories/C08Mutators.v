(* C08 — the public mutators of the shrinking problem classes (BoxBasedShrinkingStrategy over SvmProblem /
   BoxConstrainedProblem) that a caller may use BETWEEN two solves of the same problem object, as coded.
   Definitions only; arithmetic abstract as in C08Model.v.

     set_linear          BoxBasedShrinkingStrategy::setLinear(i, v)   (edge gradient first, then Problem::setLinear)
     activate_variable   SvmProblem / BoxConstrainedProblem::activateVariable(i)   (status := Free; updateAlphaStatus)
     scale_box           BoxBasedShrinkingStrategy::scaleBoxConstraints(f, v) over SvmProblem over CSVMProblem
                         (the only instantiation that compiles: BoxConstrainedProblem has no such member and
                         GeneralQuadraticProblem::scaleBoxConstraints takes one argument)
     set_initial         BoxBasedShrinkingStrategy::setInitialSolution(alpha)  (one-argument form; alpha by ORIGINAL index)
     flip (C08Model)     flipCoordinates(i, j)
   Not modelled: setShrinking (m_shrink is a parameter of the model, not part of the state), the three-argument
   setInitialSolution (caller supplies the gradients), deactivateVariable (the member of BoxBasedShrinkingStrategy
   does not compile: it uses the member function `dimensions` as a value). *)
From Coq Require Import Arith Bool List.
From SharkV Require Import C08Model.
Import ListNotations.

Section Mutators.
Variable A : Type.
Variable O : ops A.
Variable n : nat.
Variable K0 : nat -> nat -> A.
Local Notation zero := (o_zero O).
Local Notation add := (o_add O).
Local Notation sub := (o_sub O).
Local Notation mul := (o_mul O).
Local Notation eqb := (o_eqb O).

(* m_gradientEdge(i) -= linear(i); m_gradientEdge(i) += newValue;
   Problem::setLinear: m_gradient(i) -= linear(i); m_gradient(i) += newValue; m_problem.linear(i) = newValue *)
Definition set_linear (s : st A) (i : nat) (v : A) : st A :=
  mk (alpha s)
     (updf (grad s) i (add (sub (grad s i) (lin s i)) v))
     (updf (gedge s) i (add (sub (gedge s i) (lin s i)) v))
     (updf (lin s) i v)
     (lo s) (hi s) (perm s) (fl s) (fu s) (active s) (unshr s).

(* the seeded change C08-6: Problem::setLinear first, then m_gradientEdge(i) += newValue - linear(i) (reads the NEW value) *)
Definition set_linear_read_after_write (s : st A) (i : nat) (v : A) : st A :=
  mk (alpha s)
     (updf (grad s) i (add (sub (grad s i) (lin s i)) v))
     (updf (gedge s) i (add (gedge s i) (sub v v)))
     (updf (lin s) i v)
     (lo s) (hi s) (perm s) (fl s) (fu s) (active s) (unshr s).

Definition activate_variable (s : st A) (i : nat) : st A := set_flags O s i.

(* CSVMProblem::scaleBoxConstraints(f, v) [cp, cn = m_Cp, m_Cn before the call], SvmProblem::scaleBoxConstraints,
   BoxBasedShrinkingStrategy::scaleBoxConstraints.  The new box of CSVMProblem is (positive ? 0 : -(cn*f), positive ?
   cp*f : 0); the model multiplies the stored bound by f, which is the same floating-point number for finite f > 0. *)
Definition scale_alpha (s : st A) (cp cn f v : A) (a : nat) : A :=
  if eqb f v && eqb (alpha s a) cp then mul cp f
  else if eqb f v && eqb (alpha s a) (sub zero cn) then sub zero (mul cn f)
  else mul (alpha s a) v.

Definition scale_box (s : st A) (cp cn f v : A) : st A :=
  let al := fun a => if a <? n then scale_alpha s cp cn f v a else alpha s a in
  let lo' := fun a => if a <? n then mul (lo s a) f else lo s a in
  let hi' := fun a => if a <? n then mul (hi s a) f else hi s a in
  mk al
     (fun a => if (a <? n) && negb (deact s a) then add (mul (sub (grad s a) (lin s a)) v) (lin s a) else grad s a)
     (fun a => if a <? n then (if eqb f v then add (mul (sub (gedge s a) (lin s a)) f) (lin s a) else lin s a)
               else gedge s a)
     (lin s) lo' hi' (perm s)
     (fun a => if (a <? n) && negb (deact s a) then eqb (al a) (lo' a) else fl s a)
     (fun a => if (a <? n) && negb (deact s a) then eqb (al a) (hi' a) else fu s a)
     (active s) (unshr s).

(* for (i) inverse[permutation(i)] = i;   (a zero-initialised vector; the last write wins) *)
Fixpoint find_pos (s : st A) (p m : nat) : nat :=
  match m with
  | 0 => 0
  | S k => if perm s k =? p then k else find_pos s p k
  end.

(* entry b of the local vector `gradient` (initialised with m_problem.linear, i.e. in the CURRENT order) after the
   rows i < m were subtracted:  if (alpha(i) != 0) gradient -= alpha(i) * quadratic.row(i) *)
Fixpoint init_grad (s : st A) (arg : nat -> A) (b m : nat) : A :=
  match m with
  | 0 => lin s b
  | S k => let v := init_grad s arg b k in
           if eqb (arg k) zero then v else sub v (mul (arg k) (K K0 s k b))
  end.

(* entry b of `gradientEdge`:  j = inverse[i]; if (a == boxMin(j) || a == boxMax(j)) gradientEdge -= a * q *)
Fixpoint init_edge (s : st A) (arg : nat -> A) (b m : nat) : A :=
  match m with
  | 0 => lin s b
  | S k => let v := init_edge s arg b k in
           if eqb (arg k) zero then v
           else let j := find_pos s k n in
                if eqb (arg k) (bmin s j) || eqb (arg k) (bmax s j) then sub v (mul (arg k) (K K0 s k b)) else v
  end.

(* three-argument form: for (i) { j = permutation(i); alpha(i) = arg(j); m_gradient(i) = gradient(j);
   updateAlphaStatus(i); m_gradientEdge(i) = gradientEdge(j); } *)
Definition set_initial (s : st A) (arg : nat -> A) : st A :=
  let al := fun i => if i <? n then arg (perm s i) else alpha s i in
  mk al
     (fun i => if i <? n then init_grad s arg (perm s i) n else grad s i)
     (fun i => if i <? n then init_edge s arg (perm s i) n else gedge s i)
     (lin s) (lo s) (hi s) (perm s)
     (fun i => if i <? n then eqb (al i) (lo s i) else fl s i)
     (fun i => if i <? n then eqb (al i) (hi s i) else fu s i)
     (active s) (unshr s).

(* ---------------- histories with mutator calls between solver operations ---------------- *)
Inductive mop :=
| MSetLinear (i : nat) (v : A)
| MActivate (i : nat)
| MScale (cp cn f v : A)
| MSetInitial (arg : nat -> A)
| MFlip (i j : nat).

Definition mstep (s : st A) (m : mop) : st A :=
  match m with
  | MSetLinear i v => set_linear s i v
  | MActivate i => activate_variable s i
  | MScale cp cn f v => scale_box s cp cn f v
  | MSetInitial arg => set_initial s arg
  | MFlip i j => flip s i j
  end.

Inductive hop := HSolver (o : op A) | HMut (m : mop).

Definition hstep (kind shr : bool) (s : st A) (h : hop) : st A :=
  match h with
  | HSolver o => step O n K0 kind shr s o
  | HMut m => mstep s m
  end.

Definition hrun (kind shr : bool) (s : st A) (hs : list hop) : st A := fold_left (hstep kind shr) hs s.

End Mutators.

Arguments set_linear {A}. Arguments set_linear_read_after_write {A}. Arguments activate_variable {A}.
Arguments scale_alpha {A}. Arguments scale_box {A}. Arguments find_pos {A}. Arguments init_grad {A}.
Arguments init_edge {A}. Arguments set_initial {A}. Arguments MSetLinear {A}. Arguments MActivate {A}.
Arguments MScale {A}. Arguments MSetInitial {A}. Arguments MFlip {A}. Arguments mstep {A}.
Arguments HSolver {A}. Arguments HMut {A}. Arguments hstep {A}. Arguments hrun {A}.
