(* C10 — proofs about the model of C10Model.v (axiom-free: Q, lists, nat only). *)
From Coq Require Import List QArith Qreduction Qabs Bool Arith Lia Lqa.
From SharkV Require Import C10Model.
Import ListNotations.
Open Scope Q_scope.

(* ---------- arithmetic helpers ---------- *)
Lemma qadd_eq a b : qadd a b == a + b. Proof. apply Qred_correct. Qed.
Lemma qsub_eq a b : qsub a b == a - b. Proof. apply Qred_correct. Qed.
Lemma qmul_eq a b : qmul a b == a * b. Proof. apply Qred_correct. Qed.

Lemma qltb_lt a b : qltb a b = true <-> a < b.
Proof.
  unfold qltb. rewrite negb_true_iff. split; intro H.
  - apply Qnot_le_lt. intro L. apply Qle_bool_iff in L. congruence.
  - destruct (Qle_bool b a) eqn:E; auto. apply Qle_bool_iff in E. exfalso. apply (Qlt_not_le _ _ H E).
Qed.

Lemma c1_pos : 0 < c1. Proof. reflexivity. Qed.
Lemma half_pos : 0 < half. Proof. reflexivity. Qed.

Lemma mul_nonneg a b : 0 <= a -> 0 <= b -> 0 <= a * b.
Proof. intros. apply Qmult_le_0_compat; auto. Qed.

Lemma mul_nonneg_nonpos a b : 0 <= a -> b <= 0 -> a * b <= 0.
Proof.
  intros Ha Hb. assert (0 <= a * (- b)) as H.
  { apply mul_nonneg; auto. lra. }
  assert (a * - b == - (a * b)) as E by ring. rewrite E in H. lra.
Qed.

(* g . (-g) <= 0 : the steepest-descent direction is never an ascent direction *)
Lemma dot_neg_nonpos : forall g : vec, dot g (vneg g) <= 0.
Proof.
  induction g as [|x g IH]; simpl.
  - lra.
  - rewrite qadd_eq, qmul_eq.
    assert (x * - x <= 0) as H.
    { assert (x * - x == - (x * x)) as E by ring. rewrite E.
      assert (0 <= x * x) by (destruct (Qlt_le_dec x 0);
        [ assert (x * x == (- x) * (- x)) as E2 by ring; rewrite E2; apply mul_nonneg; lra
        | apply mul_nonneg; auto ]).
      lra. }
    fold (vneg g). lra.
Qed.

Lemma sumabs_nonneg : forall v, 0 <= sumabs v.
Proof.
  induction v as [|x v IH]; simpl; [lra|]. rewrite qadd_eq.
  pose proof (Qabs_nonneg x). lra.
Qed.

Section Objective.
  Variable f : vec -> Q.
  Variable grad : vec -> vec.
  Variable feasible : vec -> bool.

  (* ---------- the backtracking loop ---------- *)
  Lemma bt_loop_spec : forall fuel point d value gtd t t' fn gn,
    bt_loop f grad fuel point d value gtd t = Some (t', fn, gn) ->
    fn = f (vadd point (vscale t' d)) /\
    gn = grad (vadd point (vscale t' d)) /\
    fn < value + c1 * t' * gtd /\
    (0 <= t -> 0 <= t').
  Proof.
    induction fuel as [|k IH]; intros point d value gtd t t' fn gn H; simpl in H; [discriminate|].
    destruct (qltb _ _) eqn:E.
    - inversion H; subst. repeat split; auto.
      apply qltb_lt in E. rewrite qadd_eq, !qmul_eq in E. exact E.
    - apply IH in H. destruct H as (A & B & C & D). repeat split; auto.
      intro Ht. apply D. rewrite qmul_eq. apply mul_nonneg; auto. unfold half. lra.
  Qed.

  (* value / gradient stay the ones of the stored point: the accepted point is recomputed with the very
     expression that was probed; the old triple is kept on failure *)
  Lemma backtracking_consistent : forall point d value g t0,
    value = f point -> g = grad point ->
    let '(p', v', g') := backtracking f grad point d value g t0 in
    v' = f p' /\ g' = grad p'.
  Proof.
    intros point d value g t0 Hv Hg. unfold backtracking.
    destruct (bt_loop _ _ _ _ _ _ _ _) as [[[t fn] gn]|] eqn:E.
    - apply bt_loop_spec in E. destruct E as (A & B & _). auto.
    - auto.
  Qed.

  (* sufficient decrease never accepts an increase along a non-ascent direction; on failure the old value
     is kept.  (For gtd > 0 the Armijo test can accept an increase: backtracking_ascent_example below.) *)
  Lemma backtracking_monotone : forall point d value g t0,
    0 <= t0 -> dot g d <= 0 ->
    let '(p', v', g') := backtracking f grad point d value g t0 in v' <= value.
  Proof.
    intros point d value g t0 Ht Hd. unfold backtracking.
    destruct (bt_loop _ _ _ _ _ _ _ _) as [[[t fn] gn]|] eqn:E.
    - apply bt_loop_spec in E. destruct E as (_ & _ & C & D). specialize (D Ht).
      assert (c1 * t * dot g d <= 0) as H.
      { apply mul_nonneg_nonpos; auto. apply mul_nonneg; auto. pose proof c1_pos. lra. }
      lra.
    - lra.
  Qed.

  (* unconditional form: either nothing changed or the Armijo inequality holds for the accepted t *)
  Lemma backtracking_armijo : forall point d value g t0,
    let '(p', v', g') := backtracking f grad point d value g t0 in
    (p' = point /\ v' = value /\ g' = g) \/
    exists t, p' = vadd point (vscale t d) /\ v' < value + c1 * t * dot g d /\ (0 <= t0 -> 0 <= t).
  Proof.
    intros. unfold backtracking.
    destruct (bt_loop _ _ _ _ _ _ _ _) as [[[t fn] gn]|] eqn:E.
    - right. apply bt_loop_spec in E. destruct E as (_ & _ & C & D). exists t. auto.
    - left. auto.
  Qed.

  Section LineSearchOptimizer.
    Variable M : Type.
    Variable init_model : nat -> M.
    Variable compute_dir : ls_state M -> M * vec.

    Notation init := (ls_init f grad feasible M init_model).
    Notation step := (ls_step f grad M compute_dir).
    Notation run := (ls_run f grad M compute_dir).

    Definition consistent (s : ls_state M) : Prop := val s = f (pt s) /\ der s = grad (pt s).

    Lemma init_consistent : forall ty x0, consistent (init ty x0).
    Proof. intros. split; reflexivity. Qed.

    Lemma step_fields : forall s,
      let r := backtracking f grad (pt s) (sdir s) (val s) (der s) (step_len s) in
      pt (step s) = fst (fst r) /\ val (step s) = snd (fst r) /\ der (step s) = snd r /\
      step_len (step s) = 1 /\ last_pt (step s) = pt s /\ last_val (step s) = val s /\ last_der (step s) = der s.
    Proof.
      intros s. unfold ls_step.
      destruct (backtracking _ _ _ _ _ _ _) as [[p' v'] g'].
      destruct (compute_dir _) as [m' d']. simpl. repeat split; reflexivity.
    Qed.

    Lemma step_consistent : forall s, consistent s -> consistent (step s).
    Proof.
      intros s [Hv Hd]. destruct (step_fields s) as (A & B & C & _).
      pose proof (backtracking_consistent (pt s) (sdir s) (val s) (der s) (step_len s) Hv Hd) as H.
      destruct (backtracking _ _ _ _ _ _ _) as [[p' v'] g']. simpl in *.
      unfold consistent. rewrite A, B, C. exact H.
    Qed.

    Lemma run_consistent : forall n s, consistent s -> consistent (run n s).
    Proof. induction n; intros s H; simpl; auto. apply IHn. apply step_consistent; auto. Qed.

    Theorem linesearch_state_consistent : forall ty x0 n,
      let s := run n (init ty x0) in val s = f (pt s) /\ der s = grad (pt s).
    Proof. intros. apply run_consistent. apply init_consistent. Qed.

    (* one step never increases the stored value when the stored direction is not an ascent direction *)
    Lemma step_monotone : forall s,
      0 <= step_len s -> dot (der s) (sdir s) <= 0 -> val (step s) <= val s.
    Proof.
      intros s Ht Hd. destruct (step_fields s) as (_ & B & _).
      pose proof (backtracking_monotone (pt s) (sdir s) (val s) (der s) (step_len s) Ht Hd) as H.
      destruct (backtracking _ _ _ _ _ _ _) as [[p' v'] g']. simpl in *. rewrite B. exact H.
    Qed.

    Theorem step_monotone_f : forall s,
      consistent s -> 0 <= step_len s -> dot (der s) (sdir s) <= 0 -> f (pt (step s)) <= f (pt s).
    Proof.
      intros s C Ht Hd. pose proof (step_consistent s C) as [C' _]. destruct C as [C _].
      rewrite <- C, <- C'. apply step_monotone; auto.
    Qed.

    (* ---- box constraints: a feasible point stays feasible when infeasible points are reported as not
       better than feasible ones (what a penalising / barrier objective does) ---- *)
    Hypothesis infeasible_worse : forall x y, feasible x = false -> feasible y = true -> f y <= f x.

    Theorem box_feasible_step : forall s,
      consistent s -> feasible (pt s) = true -> 0 <= step_len s -> dot (der s) (sdir s) <= 0 ->
      feasible (pt (step s)) = true.
    Proof.
      intros s C F Ht Hd. destruct (step_fields s) as (A & B & _).
      pose proof (step_consistent s C) as [C' _]. destruct C as [Cv Cd].
      pose proof (backtracking_armijo (pt s) (sdir s) (val s) (der s) (step_len s)) as H.
      destruct (backtracking _ _ _ _ _ _ _) as [[p' v'] g']. simpl in *.
      destruct H as [(P & _) | (t & P & L & T)].
      - rewrite A, P. exact F.
      - destruct (feasible (pt (step s))) eqn:E; auto. exfalso.
        pose proof (infeasible_worse _ _ E F) as W.
        specialize (T Ht).
        assert (c1 * t * dot (der s) (sdir s) <= 0) as Hn.
        { apply mul_nonneg_nonpos; auto. apply mul_nonneg; auto. pose proof c1_pos. lra. }
        rewrite <- C', B, <- Cv in W. lra.
    Qed.
  End LineSearchOptimizer.

  (* ---------- the steepest-descent instance: every step is monotone ---------- *)
  Notation sdinit := (ls_init f grad feasible unit sd_init_model).
  Notation sdstep := (ls_step f grad unit sd_dir).
  Notation sdrun := (ls_run f grad unit sd_dir).

  Definition sd_inv (s : ls_state unit) : Prop := sdir s = vneg (der s) /\ 0 <= step_len s.

  Lemma halve_feasible_nonneg : forall fuel p d t, 0 <= t -> 0 <= halve_feasible feasible fuel p d t.
  Proof.
    induction fuel; intros p d t H; simpl; auto.
    destruct (feasible _); auto. apply IHfuel. rewrite qmul_eq. apply mul_nonneg; auto. unfold half. lra.
  Qed.

  Lemma init_step_len_nonneg : forall g, 0 <= init_step_len g.
  Proof.
    intros g. unfold init_step_len. destruct (Qeq_bool _ _); [lra|].
    destruct (Qle_bool _ _); [lra|]. rewrite Qred_correct. apply Qinv_le_0_compat. apply sumabs_nonneg.
  Qed.

  Lemma sd_inv_init : forall ty x0, sd_inv (sdinit ty x0).
  Proof. intros. split; simpl; auto. apply halve_feasible_nonneg. apply init_step_len_nonneg. Qed.

  Lemma sd_inv_step : forall s, sd_inv (sdstep s).
  Proof.
    intros s. unfold ls_step.
    destruct (backtracking _ _ _ _ _ _ _) as [[p' v'] g']. simpl. split; simpl; auto. lra.
  Qed.

  Lemma sd_inv_run : forall n s, sd_inv s -> sd_inv (sdrun n s).
  Proof. induction n; intros s H; simpl; auto. apply IHn. apply sd_inv_step. Qed.

  Theorem steepest_descent_linesearch_monotone : forall ty x0 n,
    let s := sdrun n (sdinit ty x0) in
    val (sdstep s) <= val s /\ f (pt (sdstep s)) <= f (pt s).
  Proof.
    intros ty x0 n s.
    assert (sd_inv s) as [Hd Ht] by (apply sd_inv_run, sd_inv_init).
    assert (consistent s) as C by (apply run_consistent, init_consistent).
    assert (dot (der s) (sdir s) <= 0) as Hg by (rewrite Hd; apply dot_neg_nonpos).
    split; [apply step_monotone | apply step_monotone_f]; auto.
  Qed.

  (* ---------- SteepestDescent (learning rate + momentum) ---------- *)
  Lemma sd_run_consistent : forall n s,
    sd_val s = f (sd_pt s) /\ sd_der s = grad (sd_pt s) ->
    let r := sd_run f grad n s in sd_val r = f (sd_pt r) /\ sd_der r = grad (sd_pt r).
  Proof. induction n; intros s H; simpl; auto. apply IHn. split; reflexivity. Qed.

  Theorem steepestdescent_state_consistent : forall lr mom x0 n,
    let r := sd_run f grad n (sd_init f grad lr mom x0) in
    sd_val r = f (sd_pt r) /\ sd_der r = grad (sd_pt r).
  Proof. intros. apply sd_run_consistent. split; reflexivity. Qed.
End Objective.

(* ---------- save / restore ---------- *)
Section SaveRestore.
  Variable M : Type.
  Variable save_extra : M -> list field.
  Variable restore_extra : list field -> option M.
  Hypothesis extra_roundtrip : forall m, restore_extra (save_extra m) = Some m.

  (* the archived member list is the whole state: reading it into ANY instance reproduces the saved one *)
  Lemma ls_restore_save : forall fresh s : ls_state M,
    ls_restore M restore_extra fresh (ls_save M save_extra s) = Some s.
  Proof. intros fresh s. destruct s. simpl. rewrite extra_roundtrip. reflexivity. Qed.

  Variable f : vec -> Q.
  Variable grad : vec -> vec.
  Variable compute_dir : ls_state M -> M * vec.

  Theorem ls_saverestore_continues : forall (fresh s s' : ls_state M),
    ls_restore M restore_extra fresh (ls_save M save_extra s) = Some s' ->
    forall n, ls_run f grad M compute_dir n s' = ls_run f grad M compute_dir n s.
  Proof. intros fresh s s' H n. rewrite ls_restore_save in H. inversion H. reflexivity. Qed.
End SaveRestore.

Lemma sd_restore_save_full : forall fresh s, sd_restore_full fresh (sd_save_full s) = Some s.
Proof. intros fresh s. destruct s. reflexivity. Qed.

Theorem sd_saverestore_full_continues : forall f grad fresh s s',
  sd_restore_full fresh (sd_save_full s) = Some s' ->
  forall n, sd_run f grad n s' = sd_run f grad n s.
Proof. intros f grad fresh s s' H n. rewrite sd_restore_save_full in H. inversion H. reflexivity. Qed.

(* ---------- concrete instances (vm_compute) ---------- *)
(* exact convex quadratic f(x,y) = x^2 + 2 y^2 - x - y/2 with dyadic data *)
Definition exq_f (x : vec) : Q :=
  match x with
  | [a; b] => Qred (a * a + 2 * b * b - a - b * (1 # 2))
  | _ => 0
  end.
Definition exq_grad (x : vec) : vec :=
  match x with
  | [a; b] => [Qred (2 * a - 1); Qred (4 * b - (1 # 2))]
  | _ => []
  end.
Definition all_true (_ : vec) : bool := true.

Fixpoint strictly_decreasing (l : list Q) : bool :=
  match l with
  | a :: ((b :: _) as t) => qltb b a && strictly_decreasing t
  | _ => true
  end.

Definition exq_trace := ls_trace exq_f exq_grad unit sd_dir 6 (ls_init exq_f exq_grad all_true unit sd_init_model 2 [4; -2]).

Example quadratic_iterates_decrease :
  strictly_decreasing (map val exq_trace) = true /\
  forallb (fun s => Qeq_bool (val s) (exq_f (pt s))) exq_trace = true /\
  length exq_trace = 7%nat.
Proof. vm_compute. repeat split. Qed.

(* SteepestDescent with learning rate 1/8 and momentum 1/2 on the same quadratic *)
Example steepestdescent_quadratic_decreases :
  strictly_decreasing (map (fun n => sd_val (sd_run exq_f exq_grad n (sd_init exq_f exq_grad (1#8) (1#2) [4; -2])))
                           [0;1;2;3;4;5]%nat) = true.
Proof. vm_compute. reflexivity. Qed.

(* the hypothesis gtd <= 0 of backtracking_monotone is needed: with an ascent "direction" the Armijo test
   accepts an increase (f jumps from 0 to 1 while the oracle claims slope 20000) *)
Definition asc_f (x : vec) : Q := match x with [a] => if Qeq_bool a 0 then 1 else 0 | _ => 0 end.
Definition asc_grad (x : vec) : vec := [20000].
Example backtracking_ascent_example :
  backtracking asc_f asc_grad [-1] [1] 0 [20000] 1 = ([0], 1, [20000]).
Proof. vm_compute. reflexivity. Qed.

(* the box hypothesis is satisfiable: quadratic on [0,1], 100 outside *)
Definition box_feas (x : vec) : bool := match x with [a] => Qle_bool 0 a && Qle_bool a 1 | _ => false end.
Definition box_f (x : vec) : Q := match x with [a] => if box_feas x then Qred ((a - 2) * (a - 2)) else 100 | _ => 100 end.
Lemma box_f_infeasible_worse : forall x y, box_feas x = false -> box_feas y = true -> box_f y <= box_f x.
Proof.
  intros x y Hx Hy. destruct y as [|b [|? ?]]; try discriminate.
  assert (box_f x = 100) as E.
  { destruct x as [|a [|? ?]]; auto. unfold box_f. rewrite Hx. reflexivity. }
  rewrite E. unfold box_f. rewrite Hy. rewrite Qred_correct.
  simpl in Hy. apply andb_prop in Hy. destruct Hy as [H0 H1].
  apply Qle_bool_iff in H0, H1.
  assert ((b - 2) * (b - 2) == 4 - b * (4 - b)) as E2 by ring. rewrite E2.
  assert (0 <= b * (4 - b)) by (apply mul_nonneg; lra). lra.
Qed.

(* SteepestDescent::read/write at the pinned commit do not archive the point, its value or its
   gradient: the restored instance continues from the fresh instance's start (finding F16) *)
Definition f16_s := sd_run exq_f exq_grad 3 (sd_init exq_f exq_grad (1#8) 0 [4; -2]).
Definition f16_fresh := sd_init exq_f exq_grad (1#8) 0 [4; -2].
Example steepestdescent_coded_restore_refuted :
  exists s', sd_restore_coded f16_fresh (sd_save_coded f16_s) = Some s' /\
             sd_pt (sd_step exq_f exq_grad s') <> sd_pt (sd_step exq_f exq_grad f16_s).
Proof. eexists. split; [reflexivity|]. vm_compute. discriminate. Qed.
