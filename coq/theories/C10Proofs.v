(* C10 — proofs about the model of C10Model.v (axiom-free: Q, lists, nat only). *)
From Coq Require Import List QArith Qreduction Qabs Bool Arith Lia Lqa.
From SharkV Require Import C10Model.
Import ListNotations.
Open Scope Q_scope.

(* ---------- arithmetic helpers ---------- *)
Lemma qadd_eq a b : qadd a b == a + b. Proof. apply Qred_correct. Qed.
Lemma qsub_eq a b : qsub a b == a - b. Proof. apply Qred_correct. Qed.
Lemma qmul_eq a b : qmul a b == a * b. Proof. apply Qred_correct. Qed.

Lemma qltb_lt a b : qltb a b = true <-> a < b.
Proof.
  unfold qltb. rewrite negb_true_iff. split; intro H.
  - apply Qnot_le_lt. intro L. apply Qle_bool_iff in L. congruence.
  - destruct (Qle_bool b a) eqn:E; auto. apply Qle_bool_iff in E. exfalso. apply (Qlt_not_le _ _ H E).
Qed.

Lemma c1_pos : 0 < c1. Proof. reflexivity. Qed.
Lemma half_pos : 0 < half. Proof. reflexivity. Qed.

Lemma mul_nonneg a b : 0 <= a -> 0 <= b -> 0 <= a * b.
Proof. intros. apply Qmult_le_0_compat; auto. Qed.

Lemma mul_nonneg_nonpos a b : 0 <= a -> b <= 0 -> a * b <= 0.
Proof.
  intros Ha Hb. assert (0 <= a * (- b)) as H.
  { apply mul_nonneg; auto. lra. }
  assert (a * - b == - (a * b)) as E by ring. rewrite E in H. lra.
Qed.

(* g . (-g) <= 0 : the steepest-descent direction is never an ascent direction *)
Lemma dot_neg_nonpos : forall g : vec, dot g (vneg g) <= 0.
Proof.
  induction g as [|x g IH]; simpl.
  - lra.
  - rewrite qadd_eq, qmul_eq.
    assert (x * - x <= 0) as H.
    { assert (x * - x == - (x * x)) as E by ring. rewrite E.
      assert (0 <= x * x) by (destruct (Qlt_le_dec x 0);
        [ assert (x * x == (- x) * (- x)) as E2 by ring; rewrite E2; apply mul_nonneg; lra
        | apply mul_nonneg; auto ]).
      lra. }
    fold (vneg g). lra.
Qed.

Lemma sumabs_nonneg : forall v, 0 <= sumabs v.
Proof.
  induction v as [|x v IH]; simpl; [lra|]. rewrite qadd_eq.
  pose proof (Qabs_nonneg x). lra.
Qed.

Section Objective.
  Variable f : vec -> Q.
  Variable grad : vec -> vec.
  Variable feasible : vec -> bool.

  (* ---------- the backtracking loop ---------- *)
  Lemma bt_loop_spec : forall fuel point d value gtd t t' fn gn,
    bt_loop f grad fuel point d value gtd t = Some (t', fn, gn) ->
    fn = f (vadd point (vscale t' d)) /\
    gn = grad (vadd point (vscale t' d)) /\
    fn < value + c1 * t' * gtd /\
    (0 <= t -> 0 <= t').
  Proof.
    induction fuel as [|k IH]; intros point d value gtd t t' fn gn H; simpl in H; [discriminate|].
    destruct (qltb _ _) eqn:E.
    - inversion H; subst. repeat split; auto.
      apply qltb_lt in E. rewrite qadd_eq, !qmul_eq in E. exact E.
    - apply IH in H. destruct H as (A & B & C & D). repeat split; auto.
      intro Ht. apply D. rewrite qmul_eq. apply mul_nonneg; auto. unfold half. lra.
  Qed.

  (* value / gradient stay the ones of the stored point: the accepted point is recomputed with the very
     expression that was probed; the old triple is kept on failure *)
  Lemma backtracking_consistent : forall point d value g t0,
    value = f point -> g = grad point ->
    let '(p', v', g') := backtracking f grad point d value g t0 in
    v' = f p' /\ g' = grad p'.
  Proof.
    intros point d value g t0 Hv Hg. unfold backtracking.
    destruct (bt_loop _ _ _ _ _ _ _ _) as [[[t fn] gn]|] eqn:E.
    - apply bt_loop_spec in E. destruct E as (A & B & _). auto.
    - auto.
  Qed.

  (* sufficient decrease never accepts an increase along a non-ascent direction; on failure the old value
     is kept.  (For gtd > 0 the Armijo test can accept an increase: backtracking_ascent_example below.) *)
  Lemma backtracking_monotone : forall point d value g t0,
    0 <= t0 -> dot g d <= 0 ->
    let '(p', v', g') := backtracking f grad point d value g t0 in v' <= value.
  Proof.
    intros point d value g t0 Ht Hd. unfold backtracking.
    destruct (bt_loop _ _ _ _ _ _ _ _) as [[[t fn] gn]|] eqn:E.
    - apply bt_loop_spec in E. destruct E as (_ & _ & C & D). specialize (D Ht).
      assert (c1 * t * dot g d <= 0) as H.
      { apply mul_nonneg_nonpos; auto. apply mul_nonneg; auto. pose proof c1_pos. lra. }
      lra.
    - lra.
  Qed.

  (* unconditional form: either nothing changed or the Armijo inequality holds for the accepted t *)
  Lemma backtracking_armijo : forall point d value g t0,
    let '(p', v', g') := backtracking f grad point d value g t0 in
    (p' = point /\ v' = value /\ g' = g) \/
    exists t, p' = vadd point (vscale t d) /\ v' < value + c1 * t * dot g d /\ (0 <= t0 -> 0 <= t).
  Proof.
    intros. unfold backtracking.
    destruct (bt_loop _ _ _ _ _ _ _ _) as [[[t fn] gn]|] eqn:E.
    - right. apply bt_loop_spec in E. destruct E as (_ & _ & C & D). exists t. auto.
    - left. auto.
  Qed.

  (* the accepted step length lies in [0, t0] *)
  Lemma bt_loop_le : forall fuel point d value gtd t t' fn gn,
    bt_loop f grad fuel point d value gtd t = Some (t', fn, gn) -> 0 <= t -> 0 <= t' /\ t' <= t.
  Proof.
    induction fuel as [|k IH]; intros point d value gtd t t' fn gn H Ht; simpl in H; [discriminate|].
    destruct (qltb _ _) eqn:E.
    - inversion H; subst. split; [exact Ht | apply Qle_refl].
    - apply IH in H.
      + destruct H as [A B]. split; [exact A|]. rewrite qmul_eq in B. unfold half in B. lra.
      + rewrite qmul_eq. apply mul_nonneg; auto. unfold half. lra.
  Qed.

  Lemma backtracking_cases : forall point d value g t0,
    let '(p', v', g') := backtracking f grad point d value g t0 in
    (p' = point /\ v' = value /\ g' = g) \/
    exists t, p' = vadd point (vscale t d) /\ (0 <= t0 -> 0 <= t /\ t <= t0).
  Proof.
    intros. unfold backtracking.
    destruct (bt_loop _ _ _ _ _ _ _ _) as [[[t fn] gn]|] eqn:E.
    - right. exists t. split; [reflexivity|]. intro H0. eapply bt_loop_le; eauto.
    - left. auto.
  Qed.

  (* the initial step length is never negative *)
  Lemma halve_feasible_nonneg : forall fuel p d t, 0 <= t -> 0 <= halve_feasible feasible fuel p d t.
  Proof.
    induction fuel; intros p d t H; simpl; [apply Qle_refl|].
    destruct (feasible _); auto. apply IHfuel. rewrite qmul_eq. apply mul_nonneg; auto. unfold half. lra.
  Qed.

  Lemma init_step_len_nonneg : forall g, 0 <= init_step_len g.
  Proof.
    intros g. unfold init_step_len. destruct (Qeq_bool _ _); [lra|].
    destruct (Qle_bool _ _); [lra|]. rewrite Qred_correct. apply Qinv_le_0_compat. apply sumabs_nonneg.
  Qed.

  Lemma halve_feasible_nonneg_pre : forall fuel p d g,
    0 <= halve_feasible feasible fuel p d (init_step_len g).
  Proof. intros. apply halve_feasible_nonneg. apply init_step_len_nonneg. Qed.

  Section LineSearchOptimizer.
    Variable M : Type.
    Variable init_model : nat -> M.
    Variable compute_dir : ls_state M -> M * vec.

    Notation init := (ls_init f grad feasible M init_model).
    Notation step := (ls_step f grad M compute_dir).
    Notation run := (ls_run f grad M compute_dir).

    Definition consistent (s : ls_state M) : Prop := val s = f (pt s) /\ der s = grad (pt s).

    Lemma init_consistent : forall ty x0, consistent (init ty x0).
    Proof. intros. split; reflexivity. Qed.

    Lemma step_fields : forall s,
      let r := backtracking f grad (pt s) (sdir s) (val s) (der s) (step_len s) in
      pt (step s) = fst (fst r) /\ val (step s) = snd (fst r) /\ der (step s) = snd r /\
      step_len (step s) = 1 /\ last_pt (step s) = pt s /\ last_val (step s) = val s /\ last_der (step s) = der s.
    Proof.
      intros s. unfold ls_step.
      destruct (backtracking _ _ _ _ _ _ _) as [[p' v'] g'].
      destruct (compute_dir _) as [m' d']. simpl. repeat split; reflexivity.
    Qed.

    Lemma step_consistent : forall s, consistent s -> consistent (step s).
    Proof.
      intros s [Hv Hd]. destruct (step_fields s) as (A & B & C & _).
      pose proof (backtracking_consistent (pt s) (sdir s) (val s) (der s) (step_len s) Hv Hd) as H.
      destruct (backtracking _ _ _ _ _ _ _) as [[p' v'] g']. simpl in *.
      unfold consistent. rewrite A, B, C. exact H.
    Qed.

    Lemma run_consistent : forall n s, consistent s -> consistent (run n s).
    Proof. induction n; intros s H; simpl; auto. apply IHn. apply step_consistent; auto. Qed.

    Theorem linesearch_state_consistent : forall ty x0 n,
      let s := run n (init ty x0) in val s = f (pt s) /\ der s = grad (pt s).
    Proof. intros. apply run_consistent. apply init_consistent. Qed.

    (* one step never increases the stored value when the stored direction is not an ascent direction *)
    Lemma step_monotone : forall s,
      0 <= step_len s -> dot (der s) (sdir s) <= 0 -> val (step s) <= val s.
    Proof.
      intros s Ht Hd. destruct (step_fields s) as (_ & B & _).
      pose proof (backtracking_monotone (pt s) (sdir s) (val s) (der s) (step_len s) Ht Hd) as H.
      destruct (backtracking _ _ _ _ _ _ _) as [[p' v'] g']. simpl in *. rewrite B. exact H.
    Qed.

    Theorem step_monotone_f : forall s,
      consistent s -> 0 <= step_len s -> dot (der s) (sdir s) <= 0 -> f (pt (step s)) <= f (pt s).
    Proof.
      intros s C Ht Hd. pose proof (step_consistent s C) as [C' _]. destruct C as [C _].
      rewrite <- C, <- C'. apply step_monotone; auto.
    Qed.

    (* ---- the intermediate record of step(): state after the line search, before computeSearchDirection ---- *)
    Definition ls_mid (s : ls_state M) : ls_state M :=
      let '(p', v', g') := backtracking f grad (pt s) (sdir s) (val s) (der s) (step_len s) in
      {| ls_min := ls_min s; ls_max := ls_max s; ls_type := ls_type s;
         step_len := 1; dim := dim s; pt := p'; val := v'; der := g'; sdir := sdir s;
         last_der := der s; last_pt := pt s; last_val := val s; extra := extra s |}.

    Lemma step_via_mid : forall s,
      pt (step s) = pt (ls_mid s) /\ val (step s) = val (ls_mid s) /\ der (step s) = der (ls_mid s) /\
      sdir (step s) = snd (compute_dir (ls_mid s)) /\ step_len (step s) = 1.
    Proof.
      intros s. unfold ls_step, ls_mid.
      destruct (backtracking _ _ _ _ _ _ _) as [[p' v'] g'].
      destruct (compute_dir _) as [m' d']. cbn. repeat split; reflexivity.
    Qed.

    (* ---- monotonicity of the whole run for every direction rule that never returns an ascent direction
       (steepest descent; quasi-Newton rules with a positive definite matrix) ---- *)
    Section DescentOracle.
      Hypothesis dir_descent : forall s1, dot (der s1) (snd (compute_dir s1)) <= 0.

      Definition minv (s : ls_state M) : Prop := 0 <= step_len s /\ dot (der s) (sdir s) <= 0.

      Lemma minv_step : forall s, minv (step s).
      Proof.
        intros s. destruct (step_via_mid s) as (_ & _ & C & D & E). unfold minv.
        rewrite C, D, E. split; [lra | apply dir_descent].
      Qed.

      Lemma minv_run : forall n s, minv s -> minv (run n s).
      Proof. induction n; intros s H; simpl; auto. apply IHn. apply minv_step. Qed.

      Lemma minv_init : forall ty x0, minv (init ty x0).
      Proof.
        intros ty x0. unfold minv, ls_init. cbn [sdir der step_len]. split.
        - apply halve_feasible_nonneg_pre.
        - apply dot_neg_nonpos.
      Qed.

      Theorem run_monotone_descent_oracle : forall ty x0 n,
        let s := run n (init ty x0) in
        val (step s) <= val s /\ f (pt (step s)) <= f (pt s).
      Proof.
        intros ty x0 n s.
        assert (minv s) as [Ht Hg] by (apply minv_run, minv_init).
        assert (consistent s) as C by (apply run_consistent, init_consistent).
        split; [apply step_monotone | apply step_monotone_f]; auto.
      Qed.
    End DescentOracle.

    (* ---- feasibility for convex feasible regions: the line search only visits points of the segment
       [x, x + t0 d]; init halves t0 until x + t0 d is feasible, later steps use t0 = 1 and rely on the
       direction rule returning d with x + d feasible (L-BFGS checks exactly this at run time and throws
       "internal error" otherwise) ---- *)
    Section SegmentFeasible.
      Hypothesis feasible_segment : forall x d t0 t,
        0 <= t -> t <= t0 -> feasible x = true -> feasible (vadd x (vscale t0 d)) = true ->
        feasible (vadd x (vscale t d)) = true.
      Hypothesis dir_feasible : forall s1,
        feasible (pt s1) = true -> feasible (vadd (pt s1) (vscale 1 (snd (compute_dir s1)))) = true.

      Definition finv (s : ls_state M) : Prop :=
        feasible (pt s) = true /\ 0 <= step_len s /\
        feasible (vadd (pt s) (vscale (step_len s) (sdir s))) = true.

      Lemma mid_feasible : forall s, finv s -> feasible (pt (ls_mid s)) = true.
      Proof.
        intros s (F & Ht & Fd). unfold ls_mid.
        pose proof (backtracking_cases (pt s) (sdir s) (val s) (der s) (step_len s)) as H.
        destruct (backtracking _ _ _ _ _ _ _) as [[p' v'] g']. cbn [pt].
        destruct H as [(P & _) | (t & P & T)].
        - rewrite P. exact F.
        - rewrite P. destruct (T Ht) as [T0 T1]. eapply feasible_segment; eauto.
      Qed.

      Lemma finv_step : forall s, finv s -> finv (step s).
      Proof.
        intros s H. pose proof (mid_feasible s H) as Fm.
        destruct (step_via_mid s) as (A & _ & _ & D & E). unfold finv.
        rewrite A, D, E. repeat split; [exact Fm | lra | apply dir_feasible; exact Fm].
      Qed.

      Lemma finv_run : forall n s, finv s -> finv (run n s).
      Proof. induction n; intros s H; simpl; auto. apply IHn. apply finv_step; auto. Qed.

      Lemma halve_feasible_ok : forall fuel x d t,
        feasible (vadd x (vscale 0 d)) = true ->
        feasible (vadd x (vscale (halve_feasible feasible fuel x d t) d)) = true.
      Proof.
        induction fuel as [|k IH]; intros x d t H0; simpl; [exact H0|].
        destruct (feasible (vadd x (vscale t d))) eqn:E; [exact E | apply IH; exact H0].
      Qed.

      Lemma finv_init : forall ty x0,
        feasible x0 = true -> feasible (vadd x0 (vscale 0 (vneg (grad x0)))) = true -> finv (init ty x0).
      Proof.
        intros ty x0 F F0. unfold finv, ls_init. cbn [pt sdir step_len]. repeat split.
        - exact F.
        - apply halve_feasible_nonneg_pre.
        - apply halve_feasible_ok. exact F0.
      Qed.

      Theorem run_feasible_segment : forall ty x0 n,
        feasible x0 = true -> feasible (vadd x0 (vscale 0 (vneg (grad x0)))) = true ->
        feasible (pt (run n (init ty x0))) = true.
      Proof. intros ty x0 n F F0. apply (finv_run n (init ty x0)). apply finv_init; auto. Qed.
    End SegmentFeasible.

    (* ---- box constraints: a feasible point stays feasible when infeasible points are reported as not
       better than feasible ones (what a penalising / barrier objective does) ---- *)
    Hypothesis infeasible_worse : forall x y, feasible x = false -> feasible y = true -> f y <= f x.

    Theorem box_feasible_step : forall s,
      consistent s -> feasible (pt s) = true -> 0 <= step_len s -> dot (der s) (sdir s) <= 0 ->
      feasible (pt (step s)) = true.
    Proof.
      intros s C F Ht Hd. destruct (step_fields s) as (A & B & _).
      pose proof (step_consistent s C) as [C' _]. destruct C as [Cv Cd].
      pose proof (backtracking_armijo (pt s) (sdir s) (val s) (der s) (step_len s)) as H.
      destruct (backtracking _ _ _ _ _ _ _) as [[p' v'] g']. simpl in *.
      destruct H as [(P & _) | (t & P & L & T)].
      - rewrite A, P. exact F.
      - destruct (feasible (pt (step s))) eqn:E; auto. exfalso.
        pose proof (infeasible_worse _ _ E F) as W.
        specialize (T Ht).
        assert (c1 * t * dot (der s) (sdir s) <= 0) as Hn.
        { apply mul_nonneg_nonpos; auto. apply mul_nonneg; auto. pose proof c1_pos. lra. }
        rewrite <- C', B, <- Cv in W. lra.
    Qed.
  End LineSearchOptimizer.

  (* ---------- the steepest-descent instance: every step is monotone ---------- *)
  Notation sdinit := (ls_init f grad feasible unit sd_init_model).
  Notation sdstep := (ls_step f grad unit sd_dir).
  Notation sdrun := (ls_run f grad unit sd_dir).

  Lemma sd_dir_descent : forall s1 : ls_state unit, dot (der s1) (snd (sd_dir s1)) <= 0.
  Proof. intros s1. unfold sd_dir. cbn [snd]. apply dot_neg_nonpos. Qed.

  Theorem steepest_descent_linesearch_monotone : forall ty x0 n,
    let s := sdrun n (sdinit ty x0) in
    val (sdstep s) <= val s /\ f (pt (sdstep s)) <= f (pt s).
  Proof. intros ty x0 n. apply (run_monotone_descent_oracle unit sd_init_model sd_dir sd_dir_descent). Qed.

  (* ---------- SteepestDescent (learning rate + momentum) ---------- *)
  Lemma sd_run_consistent : forall n s,
    sd_val s = f (sd_pt s) /\ sd_der s = grad (sd_pt s) ->
    let r := sd_run f grad n s in sd_val r = f (sd_pt r) /\ sd_der r = grad (sd_pt r).
  Proof. induction n; intros s H; cbn [sd_run]; [exact H|]. apply IHn. split; reflexivity. Qed.

  Theorem steepestdescent_state_consistent : forall lr mom x0 n,
    let r := sd_run f grad n (sd_init f grad lr mom x0) in
    sd_val r = f (sd_pt r) /\ sd_der r = grad (sd_pt r).
  Proof. intros. apply sd_run_consistent. split; reflexivity. Qed.
End Objective.

(* ---------- save / restore ---------- *)
Section SaveRestore.
  Variable M : Type.
  Variable save_extra : M -> list field.
  Variable restore_extra : list field -> option M.
  Hypothesis extra_roundtrip : forall m, restore_extra (save_extra m) = Some m.

  (* the archived member list is the whole state: reading it into ANY instance reproduces the saved one *)
  Lemma ls_restore_save : forall fresh s : ls_state M,
    ls_restore M restore_extra fresh (ls_save M save_extra s) = Some s.
  Proof. intros fresh s. destruct s. simpl. rewrite extra_roundtrip. reflexivity. Qed.

  Variable f : vec -> Q.
  Variable grad : vec -> vec.
  Variable compute_dir : ls_state M -> M * vec.

  Theorem ls_saverestore_continues : forall (fresh s s' : ls_state M),
    ls_restore M restore_extra fresh (ls_save M save_extra s) = Some s' ->
    forall n, ls_run f grad M compute_dir n s' = ls_run f grad M compute_dir n s.
  Proof. intros fresh s s' H n. rewrite ls_restore_save in H. inversion H. reflexivity. Qed.
End SaveRestore.

Lemma sd_restore_save_full : forall fresh s, sd_restore_full fresh (sd_save_full s) = Some s.
Proof. intros fresh s. destruct s. reflexivity. Qed.

Theorem sd_saverestore_full_continues : forall f grad fresh s s',
  sd_restore_full fresh (sd_save_full s) = Some s' ->
  forall n, sd_run f grad n s' = sd_run f grad n s.
Proof. intros f grad fresh s s' H n. rewrite sd_restore_save_full in H. inversion H. reflexivity. Qed.

(* CG: the archived member list (base class + m_count) is the whole model state *)
Lemma cg_extra_roundtrip : forall c, cg_restore_extra (cg_save_extra c) = Some c.
Proof. reflexivity. Qed.

Theorem cg_saverestore_continues : forall f grad (fresh s s' : ls_state nat),
  ls_restore nat cg_restore_extra fresh (ls_save nat cg_save_extra s) = Some s' ->
  forall n, ls_run f grad nat cg_dir n s' = ls_run f grad nat cg_dir n s.
Proof. intros f grad fresh s s'. apply ls_saverestore_continues. exact cg_extra_roundtrip. Qed.

Theorem cg_restore_total : forall fresh s : ls_state nat,
  ls_restore nat cg_restore_extra fresh (ls_save nat cg_save_extra s) = Some s.
Proof. intros. apply ls_restore_save. exact cg_extra_roundtrip. Qed.

Theorem cg_saverestore_total_and_continues : forall (f : vec -> Q) (grad : vec -> vec) (fresh s : ls_state nat),
  ls_restore nat cg_restore_extra fresh (ls_save nat cg_save_extra s) = Some s /\
  forall s', ls_restore nat cg_restore_extra fresh (ls_save nat cg_save_extra s) = Some s' ->
  forall n, ls_run f grad nat cg_dir n s' = ls_run f grad nat cg_dir n s.
Proof. intros f grad fresh s. split; [apply cg_restore_total | apply cg_saverestore_continues]. Qed.

(* ---------- boxes are segment-convex ---------- *)
Lemma coord_segment : forall a b c e t0 t,
  0 <= t -> t <= t0 -> a <= c -> c <= b -> a <= qadd c (qmul t0 e) -> qadd c (qmul t0 e) <= b ->
  a <= qadd c (qmul t e) /\ qadd c (qmul t e) <= b.
Proof.
  intros a b c e t0 t H0 H1 Ha Hb Ha' Hb'.
  rewrite qadd_eq, qmul_eq in *.
  destruct (Qlt_le_dec e 0) as [En|Ep].
  - assert (t0 * e <= t * e) by nra. assert (t * e <= 0) by nra. split; lra.
  - assert (t * e <= t0 * e) by nra. assert (0 <= t * e) by nra. split; lra.
Qed.

Lemma box_segment : forall l u x d t0 t,
  0 <= t -> t <= t0 -> box_feasb l u x = true -> box_feasb l u (vadd x (vscale t0 d)) = true ->
  box_feasb l u (vadd x (vscale t d)) = true.
Proof.
  induction l as [|a l IH]; intros u x d t0 t H0 H1 Hx Hd.
  - destruct u, x; try discriminate. reflexivity.
  - destruct u as [|b u]; [discriminate|]. destruct x as [|c x]; [discriminate|].
    destruct d as [|e d]; [discriminate|].
    cbn [vscale map vadd box_feasb] in *.
    apply andb_prop in Hx. destruct Hx as [Hx1 Hx]. apply andb_prop in Hx1. destruct Hx1 as [Xa Xb].
    apply andb_prop in Hd. destruct Hd as [Hd1 Hd]. apply andb_prop in Hd1. destruct Hd1 as [Da Db].
    apply Qle_bool_iff in Xa, Xb, Da, Db.
    destruct (coord_segment a b c e t0 t H0 H1 Xa Xb Da Db) as [Ra Rb].
    apply Qle_bool_iff in Ra, Rb. rewrite Ra, Rb. cbn [andb].
    exact (IH u x d t0 t H0 H1 Hx Hd).
Qed.

(* x + 0*d = x coordinate-wise when d has the length of x *)
Lemma box_zero_step : forall l u x d, length d = length x ->
  box_feasb l u x = true -> box_feasb l u (vadd x (vscale 0 d)) = true.
Proof.
  induction l as [|a l IH]; intros u x d L Hx.
  - destruct u, x; try discriminate. destruct d; reflexivity.
  - destruct u as [|b u]; [discriminate|]. destruct x as [|c x]; [discriminate|].
    destruct d as [|e d]; [discriminate|]. cbn [vscale map vadd box_feasb] in *.
    apply andb_prop in Hx. destruct Hx as [Hx1 Hx]. apply andb_prop in Hx1. destruct Hx1 as [Xa Xb].
    apply Qle_bool_iff in Xa, Xb.
    assert (qadd c (qmul 0 e) == c) as E by (rewrite qadd_eq, qmul_eq; ring).
    assert (Qle_bool a (qadd c (qmul 0 e)) = true) as Ra by (apply Qle_bool_iff; rewrite E; exact Xa).
    assert (Qle_bool (qadd c (qmul 0 e)) b = true) as Rb by (apply Qle_bool_iff; rewrite E; exact Xb).
    rewrite Ra, Rb. cbn [andb]. apply IH; auto.
Qed.

Lemma vneg_length : forall v, length (vneg v) = length v.
Proof. intros. unfold vneg. apply map_length. Qed.

(* box-constrained line-search optimiser (backtracking): every iterate is feasible, for every objective and
   every direction rule that returns d with x + d inside the box *)
Theorem box_feasible_run : forall (f : vec -> Q) (grad : vec -> vec) (l u : vec)
    (M : Type) (init_model : nat -> M) (compute_dir : ls_state M -> M * vec),
  (forall s1, box_feasb l u (pt s1) = true ->
              box_feasb l u (vadd (pt s1) (vscale 1 (snd (compute_dir s1)))) = true) ->
  forall ty x0 n,
  box_feasb l u x0 = true -> length (grad x0) = length x0 ->
  box_feasb l u (pt (ls_run f grad M compute_dir n (ls_init f grad (box_feasb l u) M init_model ty x0))) = true.
Proof.
  intros f grad l u M init_model compute_dir Hdir ty x0 n F L.
  apply (run_feasible_segment f grad (box_feasb l u) M init_model compute_dir (box_segment l u) Hdir); auto.
  apply box_zero_step; auto. rewrite vneg_length. exact L.
Qed.

Theorem box_feasible_slack_run : forall (f : vec -> Q) (grad : vec -> vec) (eps : Q) (l u : vec)
    (M : Type) (init_model : nat -> M) (compute_dir : ls_state M -> M * vec),
  (forall s1, box_feasb_slack eps l u (pt s1) = true ->
              box_feasb_slack eps l u (vadd (pt s1) (vscale 1 (snd (compute_dir s1)))) = true) ->
  forall ty x0 n,
  box_feasb_slack eps l u x0 = true -> length (grad x0) = length x0 ->
  box_feasb_slack eps l u (pt (ls_run f grad M compute_dir n (ls_init f grad (box_feasb_slack eps l u) M init_model ty x0))) = true.
Proof. intros f grad eps l u. unfold box_feasb_slack. apply box_feasible_run. Qed.

(* the hypothesis on the direction rule is satisfiable: projected steepest descent d = clip(x - g) - x *)
Definition qclip (a b y : Q) : Q := if Qle_bool y a then a else if Qle_bool b y then b else y.
Fixpoint proj_dir (l u x g : vec) : vec :=
  match l, u, x with
  | a :: l', b :: u', c :: x' =>
    qsub (qclip a b (qsub c (hd 0 g))) c :: proj_dir l' u' x' (tl g)
  | _, _, _ => []
  end.

Lemma qclip_in : forall a b y, a <= b -> a <= qclip a b y /\ qclip a b y <= b.
Proof.
  intros a b y H. unfold qclip.
  destruct (Qle_bool y a) eqn:E1; [split; [apply Qle_refl | exact H]|].
  destruct (Qle_bool b y) eqn:E2; [split; [exact H | apply Qle_refl]|].
  assert (~ y <= a) as N1 by (intro X; apply Qle_bool_iff in X; congruence).
  assert (~ b <= y) as N2 by (intro X; apply Qle_bool_iff in X; congruence).
  split; lra.
Qed.

Lemma proj_dir_feasible : forall l u x g,
  box_feasb l u x = true -> box_feasb l u (vadd x (vscale 1 (proj_dir l u x g))) = true.
Proof.
  induction l as [|a l IH]; intros u x g Hx.
  - destruct u, x; try discriminate. reflexivity.
  - destruct u as [|b u]; [discriminate|]. destruct x as [|c x]; [discriminate|].
    cbn [proj_dir vscale map vadd box_feasb] in *. set (e := hd 0 g).
    apply andb_prop in Hx. destruct Hx as [Hx1 Hx]. apply andb_prop in Hx1. destruct Hx1 as [Xa Xb].
    apply Qle_bool_iff in Xa, Xb.
    assert (a <= b) as AB by lra.
    destruct (qclip_in a b (qsub c e) AB) as [Ca Cb].
    assert (qadd c (qmul 1 (qsub (qclip a b (qsub c e)) c)) == qclip a b (qsub c e)) as E
      by (rewrite qadd_eq, qmul_eq, qsub_eq; ring).
    assert (Qle_bool a (qadd c (qmul 1 (qsub (qclip a b (qsub c e)) c))) = true) as Ra
      by (apply Qle_bool_iff; rewrite E; exact Ca).
    assert (Qle_bool (qadd c (qmul 1 (qsub (qclip a b (qsub c e)) c))) b = true) as Rb
      by (apply Qle_bool_iff; rewrite E; exact Cb).
    rewrite Ra, Rb. cbn [andb]. apply IH; auto.
Qed.

Definition proj_oracle (l u : vec) (s1 : ls_state unit) : unit * vec := (tt, proj_dir l u (pt s1) (der s1)).

Lemma proj_oracle_feasible : forall l u s1, box_feasb l u (pt s1) = true ->
  box_feasb l u (vadd (pt s1) (vscale 1 (snd (proj_oracle l u s1)))) = true.
Proof. intros. unfold proj_oracle. cbn [snd]. apply proj_dir_feasible. assumption. Qed.

(* ---------- concrete instances (vm_compute) ---------- *)
(* exact convex quadratic f(x,y) = x^2 + 2 y^2 - x - y/2 with dyadic data *)
Definition exq_f (x : vec) : Q :=
  match x with
  | [a; b] => Qred (a * a + 2 * b * b - a - b * (1 # 2))
  | _ => 0
  end.
Definition exq_grad (x : vec) : vec :=
  match x with
  | [a; b] => [Qred (2 * a - 1); Qred (4 * b - (1 # 2))]
  | _ => []
  end.
Definition all_true (_ : vec) : bool := true.

Fixpoint strictly_decreasing (l : list Q) : bool :=
  match l with
  | a :: ((b :: _) as t) => qltb b a && strictly_decreasing t
  | _ => true
  end.

Definition exq_trace := ls_trace exq_f exq_grad unit sd_dir 3 (ls_init exq_f exq_grad all_true unit sd_init_model 2 [4; -2]).

Example quadratic_iterates_decrease :
  strictly_decreasing (map val exq_trace) = true /\
  forallb (fun s => Qeq_bool (val s) (exq_f (pt s))) exq_trace = true /\
  length exq_trace = 4%nat /\ map pt (skipn 3 exq_trace) = [[1 # 2; 1 # 8]].   (* the minimiser, reached exactly *)
Proof. vm_compute. repeat split. Qed.

(* SteepestDescent with learning rate 1/8 and momentum 1/2 on the same quadratic *)
Example steepestdescent_quadratic_decreases :
  strictly_decreasing (map (fun n => sd_val (sd_run exq_f exq_grad n (sd_init exq_f exq_grad (1#8) (1#2) [4; -2])))
                           [0;1;2;3;4;5]%nat) = true.
Proof. vm_compute. reflexivity. Qed.

(* the hypothesis gtd <= 0 of backtracking_monotone is needed: with an ascent "direction" the Armijo test
   accepts an increase (f jumps from 0 to 1 while the oracle claims slope 20000) *)
Definition asc_f (x : vec) : Q := match x with [a] => if Qeq_bool a 0 then 1 else 0 | _ => 0 end.
Definition asc_grad (x : vec) : vec := [20000].
Example backtracking_ascent_example :
  backtracking asc_f asc_grad [-1] [1] 0 [20000] 1 = ([0], 1, [20000]).
Proof. vm_compute. reflexivity. Qed.

(* the box hypothesis is satisfiable: quadratic on [0,1], 100 outside *)
Definition box_feas (x : vec) : bool := match x with [a] => Qle_bool 0 a && Qle_bool a 1 | _ => false end.
Definition box_f (x : vec) : Q := match x with [a] => if box_feas x then Qred ((a - 2) * (a - 2)) else 100 | _ => 100 end.
Lemma box_f_infeasible_worse : forall x y, box_feas x = false -> box_feas y = true -> box_f y <= box_f x.
Proof.
  intros x y Hx Hy. destruct y as [|b [|? ?]]; try discriminate.
  assert (box_f x = 100) as E.
  { destruct x as [|a [|? ?]]; auto. unfold box_f. rewrite Hx. reflexivity. }
  rewrite E. unfold box_f. rewrite Hy. rewrite Qred_correct.
  simpl in Hy. apply andb_prop in Hy. destruct Hy as [H0 H1].
  apply Qle_bool_iff in H0, H1.
  assert ((b - 2) * (b - 2) == 4 - b * (4 - b)) as E2 by ring. rewrite E2.
  assert (0 <= b * (4 - b)) by (apply mul_nonneg; lra). lra.
Qed.

(* SteepestDescent::read/write before the repair c36da89f did not archive the point, its value or its
   gradient: the restored instance continued from the fresh instance's start (finding F16) *)
Definition f16_s := sd_run exq_f exq_grad 3 (sd_init exq_f exq_grad (1#8) 0 [4; -2]).
Definition f16_fresh := sd_init exq_f exq_grad (1#8) 0 [4; -2].
Example steepestdescent_coded_restore_refuted :
  exists s', sd_restore_coded f16_fresh (sd_save_coded f16_s) = Some s' /\
             sd_pt (sd_step exq_f exq_grad s') <> sd_pt (sd_step exq_f exq_grad f16_s).
Proof. eexists. split; [reflexivity|]. vm_compute. discriminate. Qed.

(* box-constrained run with the projected direction on the quadratic above, box [1,3] x [-2,0]: the
   unconstrained minimiser (1/2, 1/8) is outside; all iterates stay inside *)
Definition exb_l : vec := [1; -2].
Definition exb_u : vec := [3; 0].
Definition exb_trace := ls_trace exq_f exq_grad unit (proj_oracle exb_l exb_u) 4
  (ls_init exq_f exq_grad (box_feasb exb_l exb_u) unit sd_init_model 2 [2; -1]).
Example box_iterates_feasible :
  forallb (fun s => box_feasb exb_l exb_u (pt s)) exb_trace = true /\
  map pt (skipn 4 exb_trace) = [[1; 0]].
Proof. vm_compute. split; reflexivity. Qed.

(* the generic quadratic of the correspondence check *)
Example quad_f_example :
  quad_f [[2; 0]; [0; 4]] [1; 1 # 2] [4; -2] = 21 /\ quad_grad [[2; 0]; [0; 4]] [1; 1 # 2] [4; -2] = [7; -17 # 2].
Proof. vm_compute. split; reflexivity. Qed.
